import DicomModel.Lemmas.Pdu
import DicomModel.Lemmas.PduValid
import DicomModel.Lemmas.PduInc
import DicomModel.Lemmas.PduNoPanic
/-
C25 — PDUs are encoded and decoded losslessly with exact framing.

Model: `DicomModel/Model/Pdu.lean` (`writePdu`, `readPdu`, all PDU and item types).
`WellFormedPdu p` (`wfPdu`) states the value ranges of the Rust field types (`u8`, `u16`, `u32`,
byte vectors) and excludes the values that are not in the image of the reader: an `Unknown` PDU or
user variable carrying a type code that the reader knows, `Reserved(x)` reject reasons outside the
reserved ranges. `normPdu` is the documented normalisation: AE titles cut/padded to 16 bytes and
trimmed, UIDs and names trimmed of white space (`str::trim`).
-/
namespace Dicom.Pdu

abbrev WellFormedPdu (p : Pdu) : Prop := wfPdu p = true

/-- body of every PDU kind reads back as the normal form -/
theorem readBody_write {p : Pdu} {body : Bytes} (hw : writePduBody p = .ok body) (hwf : WellFormedPdu p) :
    readBody (pduType p) body = .ok (normPdu p) := by
  cases p with
  | associationRQ a => exact readBody_rq hw hwf
  | associationAC a => exact readBody_ac hw hwf
  | associationRJ res src =>
    simp only [writePduBody] at hw
    cases hw
    have h := RjSource.ofCodes_codes src hwf
    simp [readBody, pduType, u8P, RjResult.ofCode_code, h, normPdu]
  | pData vs =>
    simp only [writePduBody] at hw
    simp [readBody, pduType, readPdvs_write vs body.length body [] hw (Nat.le_refl _), normPdu]
  | releaseRQ =>
    simp only [writePduBody] at hw
    cases hw
    simp [readBody, pduType, normPdu]
  | releaseRP =>
    simp only [writePduBody] at hw
    cases hw
    simp [readBody, pduType, normPdu]
  | abortRQ src =>
    simp only [writePduBody] at hw
    cases hw
    simp [readBody, pduType, takeP, u8P, AbortSource.ofCodes_codes, normPdu]
  | unknown t d =>
    simp only [writePduBody] at hw
    cases hw
    simp [WellFormedPdu, wfPdu, knownPduType] at hwf
    simp [readBody, pduType, hwf, normPdu]

/-- **Round trip with exact framing.** A well-formed PDU that `write_pdu` accepts reads back as its
normal form, for any bytes `r` following it in the buffer, consuming exactly the bytes written
(`r` is what remains). Hypotheses: `max_pdu_length` in the accepted range; in strict mode the PDU
is not longer than the maximum. -/
theorem pdu_rt {p : Pdu} {bs : Bytes} (hwf : WellFormedPdu p) (hw : writePdu p = .ok bs)
    (mx : Nat) (strict : Bool) (hmx : validMax mx) (hs : strict = true → bs.length - 6 ≤ mx) (r : Bytes) :
    readPdu mx strict (bs ++ r) = .ok (normPdu p, r) := by
  obtain ⟨body, hb, hl, rfl⟩ := pdu32_ok.1 hw
  rw [readPdu_frame mx strict _ body r hmx hl (by simpa using hs), readBody_write hb hwf]
  rfl

/-- Every strict prefix of an encoded PDU reads as incomplete (`Ok(None)`): never an error, never a
(different) PDU. No well-formedness needed: framing alone decides. -/
theorem prefix_incomplete {p : Pdu} {bs : Bytes} (hw : writePdu p = .ok bs)
    (mx : Nat) (strict : Bool) (hmx : validMax mx) (hs : strict = true → bs.length - 6 ≤ mx)
    (n : Nat) (hn : n < bs.length) :
    readPdu mx strict (bs.take n) = .inc := by
  obtain ⟨body, hb, hl, rfl⟩ := pdu32_ok.1 hw
  have h1 : ¬ ¬ (minimumPduSize ≤ mx ∧ mx ≤ maximumPduSize) := fun h => h hmx
  have h3 : ¬ (strict = true ∧ mx < body.length) := by
    rintro ⟨a, b⟩; have := hs a; simp at this; omega
  unfold readPdu
  rw [if_neg h1]
  match n, hn with
  | 0, _ => simp
  | 1, _ => simp
  | 2, _ => simp [takeP]
  | 3, _ => simp [takeP, be32]
  | 4, _ => simp [takeP, be32]
  | 5, _ => simp [takeP, be32]
  | k + 6, hk =>
    have e : List.take (k + 6) (pduType p :: 0 :: (be32 body.length ++ body))
        = pduType p :: 0 :: (be32 body.length ++ body.take k) := by
      simp [be32]
    have hk' : k < body.length := by simp at hk; omega
    rw [e]
    have h2 : ¬ ((pduType p :: 0 :: (be32 body.length ++ body.take k)).length < 2) := by simp
    have h4 : ¬ ((be32 body.length ++ body.take k).length < 4) := by simp
    have e2 : takeP 2 (pduType p :: 0 :: (be32 body.length ++ body.take k))
        = .ok ([pduType p, 0], be32 body.length ++ body.take k) := by simp [takeP]
    have h5 : (body.take k).length < body.length := by simp; omega
    rw [if_neg h2]
    simp only [e2, Res.bind_eq, Res.bind_ok, if_neg h4,
      u32P_be32 _ (show body.length < 4294967296 by omega), if_neg h3, if_pos h5]

/-- In strict mode a PDU whose length field exceeds the maximum is rejected — for *any* buffer
holding at least the 6 header bytes, whatever follows. -/
theorem strict_rejects_long (mx : Nat) (hmx : validMax mx) (t z a b c d : Nat) (rest : Bytes)
    (hlong : mx < 16777216 * a + 65536 * b + 256 * c + d) :
    readPdu mx true (t :: z :: a :: b :: c :: d :: rest) = .err .pduTooLarge := by
  have h1 : ¬ ¬ (minimumPduSize ≤ mx ∧ mx ≤ maximumPduSize) := fun h => h hmx
  unfold readPdu
  rw [if_neg h1]
  have h2 : ¬ (List.length rest + 1 + 1 + 1 + 1 + 1 + 1 < 2) := by omega
  simp [takeP, u32P, hlong, h2]

/-- … and `write_pdu` output longer than the maximum is such a buffer -/
theorem strict_rejects_long_written {p : Pdu} {bs : Bytes} (hw : writePdu p = .ok bs)
    (mx : Nat) (hmx : validMax mx) (hlong : mx < bs.length - 6) (r : Bytes) :
    readPdu mx true (bs ++ r) = .err .pduTooLarge := by
  obtain ⟨body, hb, hl, rfl⟩ := pdu32_ok.1 hw
  have hb' : body.length < 4294967296 := by omega
  have e : be32 body.length = [body.length / 16777216 % 256, body.length / 65536 % 256,
      body.length / 256 % 256, body.length % 256] := rfl
  simp only [List.cons_append, e]
  apply strict_rejects_long mx hmx
  simp at hlong
  omega

/-- an out-of-range `max_pdu_length` is refused whatever the buffer holds -/
theorem invalid_max_rejected (mx : Nat) (strict : Bool) (bs : Bytes) (h : ¬ validMax mx) :
    readPdu mx strict bs = .err .invalidMaxPdu := by
  unfold readPdu
  rw [if_pos (show ¬ (minimumPduSize ≤ mx ∧ mx ≤ maximumPduSize) from h)]

/-- `validPS38` on a framed PDU: the length field is right, the rest depends on the type -/
theorem validPS38_frame (t : Nat) (body : Bytes) (hl : body.length ≤ 4294967295) :
    validPS38 (t :: 0 :: (be32 body.length ++ body)) =
      (if t = 0x01 ∨ t = 0x02 then
        decide (68 ≤ body.length) &&
          (match tile16 body.length (body.drop 68) with
           | some items => items.all (validVarItem (t = 0x01)) &&
               decide ((items.filter (fun s => s.1 = 0x10)).length = 1)
           | none => false)
      else if t = 0x03 ∨ t = 0x05 ∨ t = 0x06 ∨ t = 0x07 then decide (body.length = 4)
      else if t = 0x04 then (tile32 body.length body).isSome
      else true) := by
  have e : 16777216 * (body.length / 16777216 % 256) + 65536 * (body.length / 65536 % 256)
      + 256 * (body.length / 256 % 256) + body.length % 256 = body.length := by omega
  simp only [be32, List.cons_append, List.nil_append, validPS38, e]
  simp
  rfl

/-- **Lengths consistent.** Whatever `write_pdu` emits for a well-formed PDU passes the independent
PS3.8 structure check: the PDU length and every item, sub-item and inner length field equal the
number of bytes of the content they describe, and the items tile their containers exactly. -/
theorem lengths_consistent {p : Pdu} {bs : Bytes} (hwf : WellFormedPdu p) (hw : writePdu p = .ok bs) :
    validPS38 bs = true := by
  obtain ⟨body, hb, hl, rfl⟩ := pdu32_ok.1 hw
  rw [validPS38_frame _ _ hl]
  cases p with
  | associationRQ a =>
    obtain ⟨-, huv⟩ := wfAssoc_parts hwf
    obtain ⟨h68, items, h1, h2, h3⟩ :=
      valid_assocVars true 0x20 (by decide) (tile_pcProposedList a.pcs) hb huv
    simp [pduType, h68, h1, h3]
    simpa using h2
  | associationAC a =>
    obtain ⟨-, huv⟩ := wfAssoc_parts hwf
    obtain ⟨h68, items, h1, h2, h3⟩ :=
      valid_assocVars false 0x21 (by decide) (tile_pcResultList a.pcs) hb huv
    simp [pduType, h68, h1, h3]
    simpa using h2
  | associationRJ res src => simp only [writePduBody] at hb; cases hb; simp [pduType]
  | pData vs =>
    simp only [writePduBody] at hb
    simp [pduType, tile32_pdvList vs body hb]
  | releaseRQ => simp only [writePduBody] at hb; cases hb; simp [pduType]
  | releaseRP => simp only [writePduBody] at hb; cases hb; simp [pduType]
  | abortRQ src => simp only [writePduBody] at hb; cases hb; simp [pduType]
  | unknown t d =>
    simp [WellFormedPdu, wfPdu, knownPduType] at hwf
    simp [pduType, hwf]
/-! ### Sizes: what each 16-bit length field has to express -/

/-- content length of a user-information sub-item, from the field layouts of PS3.7 annex D -/
def uvContentLen : UserVar → Nat
  | .unknown _ d => d.length
  | .maxLength _ => 4
  | .implClassUid s => s.length
  | .implVersionName s => s.length
  | .sopClassExt uid d => 2 + uid.length + d.length
  | .roleSelection uid _ _ => 2 + uid.length + 2
  | .userIdentity u => 2 + (2 + u.primary.length) + (2 + u.secondary.length)

def userInfoLen : List UserVar → Nat
  | [] => 0
  | v :: r => 4 + uvContentLen v + userInfoLen r

def tsListLen : List Str → Nat
  | [] => 0
  | ts :: r => 4 + ts.length + tsListLen r

def pcProposedLen (pc : PcProposed) : Nat := 4 + (4 + pc.abstractSyntax.length) + tsListLen pc.transferSyntaxes
def pcResultLen (pc : PcResult) : Nat := 4 + (4 + pc.transferSyntax.length)

theorem writeUserVar_len {v : UserVar} {b : Bytes} (hw : writeUserVar v = .ok b) :
    b.length = 4 + uvContentLen v ∧ uvContentLen v ≤ 65535 := by
  cases v with
  | maxLength n =>
    simp only [writeUserVar] at hw
    obtain ⟨c, hc, hl, rfl⟩ := item16_ok.1 hw
    cases hc; simp [uvContentLen]
  | implClassUid s =>
    simp only [writeUserVar] at hw
    obtain ⟨c, hc, hl, rfl⟩ := item16_ok.1 hw
    obtain ⟨-, rfl⟩ := encodeText_ok.1 hc
    simp [uvContentLen, hl]; omega
  | implVersionName s =>
    simp only [writeUserVar] at hw
    obtain ⟨c, hc, hl, rfl⟩ := item16_ok.1 hw
    obtain ⟨-, rfl⟩ := encodeText_ok.1 hc
    simp [uvContentLen, hl]; omega
  | unknown t d =>
    simp only [writeUserVar] at hw
    obtain ⟨c, hc, hl, rfl⟩ := item16_ok.1 hw
    cases hc
    simp [uvContentLen, hl]; omega
  | roleSelection uid scu scp =>
    simp only [writeUserVar] at hw
    obtain ⟨c, hc, hl, rfl⟩ := item16_ok.1 hw
    obtain ⟨x, y, hx, hy, rfl⟩ := wcat_ok.1 hc
    cases hy
    obtain ⟨u, hu, hul, rfl⟩ := chunk16_ok.1 hx
    obtain ⟨-, rfl⟩ := encodeText_ok.1 hu
    simp [uvContentLen] at hl ⊢; omega
  | sopClassExt uid d =>
    simp only [writeUserVar] at hw
    obtain ⟨c, hc, hl, rfl⟩ := item16_ok.1 hw
    obtain ⟨x, y, hx, hy, rfl⟩ := wcat_ok.1 hc
    cases hy
    obtain ⟨u, hu, hul, rfl⟩ := chunk16_ok.1 hx
    obtain ⟨-, rfl⟩ := encodeText_ok.1 hu
    simp [uvContentLen] at hl ⊢; omega
  | userIdentity u =>
    simp only [writeUserVar] at hw
    obtain ⟨c, hc, hl, rfl⟩ := item16_ok.1 hw
    obtain ⟨x, y, hx, hy, rfl⟩ := wcat_ok.1 hc
    cases hx
    obtain ⟨p, q, hp, hq, rfl⟩ := wcat_ok.1 hy
    obtain ⟨p', hp', hpl, rfl⟩ := chunk16_ok.1 hp
    obtain ⟨q', hq', hql, rfl⟩ := chunk16_ok.1 hq
    cases hp'; cases hq'
    simp [uvContentLen] at hl ⊢; omega

theorem writeUserVarList_len (vs : List UserVar) : ∀ b, writeUserVarList vs = .ok b →
    b.length = userInfoLen vs ∧ ∀ v ∈ vs, uvContentLen v ≤ 65535 := by
  induction vs with
  | nil => intro b hw; simp [writeUserVarList] at hw; subst hw; simp [userInfoLen]
  | cons v vs ih =>
    intro b hw
    simp only [writeUserVarList] at hw
    obtain ⟨x, y, hx, hy, rfl⟩ := wcat_ok.1 hw
    obtain ⟨h1, h2⟩ := writeUserVar_len hx
    obtain ⟨h3, h4⟩ := ih y hy
    refine ⟨by simp [userInfoLen, h1, h3], ?_⟩
    intro w hw'
    rcases List.mem_cons.1 hw' with h | h
    · subst h; exact h2
    · exact h4 w h

theorem writeUserVars_fits {vs : List UserVar} {b : Bytes} (hw : writeUserVars vs = .ok b) :
    userInfoLen vs ≤ 65535 ∧ ∀ v ∈ vs, uvContentLen v ≤ 65535 := by
  by_cases hne : vs = []
  · subst hne; simp [userInfoLen]
  · have : vs.isEmpty = false := by cases vs <;> simp_all
    simp only [writeUserVars, this] at hw
    obtain ⟨c, hc, hl, rfl⟩ := item16_ok.1 hw
    obtain ⟨h1, h2⟩ := writeUserVarList_len vs c hc
    exact ⟨by omega, h2⟩

theorem writeTsList_len (tss : List Str) : ∀ b, writeTsList tss = .ok b → b.length = tsListLen tss := by
  induction tss with
  | nil => intro b hw; simp [writeTsList] at hw; subst hw; simp [tsListLen]
  | cons ts tss ih =>
    intro b hw
    simp only [writeTsList] at hw
    obtain ⟨x, y, hx, hy, rfl⟩ := wcat_ok.1 hw
    obtain ⟨c, hc, hl, rfl⟩ := item16_ok.1 hx
    obtain ⟨-, rfl⟩ := encodeText_ok.1 hc
    simp [tsListLen, ih y hy]; omega

theorem writePcProposed_fits {pc : PcProposed} {b : Bytes} (hw : writePcProposed pc = .ok b) :
    pcProposedLen pc ≤ 65535 := by
  simp only [writePcProposed] at hw
  obtain ⟨c, hc, hl, rfl⟩ := item16_ok.1 hw
  obtain ⟨x, y, hx, hy, rfl⟩ := wcat_ok.1 hc
  cases hx
  obtain ⟨p, q, hp, hq, rfl⟩ := wcat_ok.1 hy
  obtain ⟨a, ha, hal, rfl⟩ := item16_ok.1 hp
  obtain ⟨-, rfl⟩ := encodeText_ok.1 ha
  have := writeTsList_len _ q hq
  simp [pcProposedLen] at hl ⊢; omega

theorem writePcResult_fits {pc : PcResult} {b : Bytes} (hw : writePcResult pc = .ok b) :
    pcResultLen pc ≤ 65535 := by
  simp only [writePcResult] at hw
  obtain ⟨c, hc, hl, rfl⟩ := item16_ok.1 hw
  obtain ⟨x, y, hx, hy, rfl⟩ := wcat_ok.1 hc
  cases hx
  obtain ⟨a, ha, hal, rfl⟩ := item16_ok.1 hy
  obtain ⟨-, rfl⟩ := encodeText_ok.1 ha
  simp [pcResultLen] at hl ⊢; omega

theorem writePcProposedList_fits (pcs : List PcProposed) : ∀ b, writePcProposedList pcs = .ok b →
    ∀ pc ∈ pcs, pcProposedLen pc ≤ 65535 := by
  induction pcs with
  | nil => intro b _ pc h; simp at h
  | cons pc pcs ih =>
    intro b hw
    simp only [writePcProposedList] at hw
    obtain ⟨x, y, hx, hy, rfl⟩ := wcat_ok.1 hw
    intro w hw'
    rcases List.mem_cons.1 hw' with h | h
    · subst h; exact writePcProposed_fits hx
    · exact ih y hy w h

theorem writePcResultList_fits (pcs : List PcResult) : ∀ b, writePcResultList pcs = .ok b →
    ∀ pc ∈ pcs, pcResultLen pc ≤ 65535 := by
  induction pcs with
  | nil => intro b _ pc h; simp at h
  | cons pc pcs ih =>
    intro b hw
    simp only [writePcResultList] at hw
    obtain ⟨x, y, hx, hy, rfl⟩ := wcat_ok.1 hw
    intro w hw'
    rcases List.mem_cons.1 hw' with h | h
    · subst h; exact writePcResult_fits hx
    · exact ih y hy w h

/-- every 16-bit length field of an association PDU can express its content -/
def FitsAssoc {γ : Type} (pcLen : γ → Nat) (a : Assoc γ) : Prop :=
  a.acn.length ≤ 65535 ∧ (∀ pc ∈ a.pcs, pcLen pc ≤ 65535) ∧
    (∀ v ∈ a.uvs, uvContentLen v ≤ 65535) ∧ userInfoLen a.uvs ≤ 65535

theorem writeAssocBody_fits {γ : Type} {writePcs : List γ → W} {pcLen : γ → Nat} {a : Assoc γ} {body : Bytes}
    (hpcs : ∀ b, writePcs a.pcs = .ok b → ∀ pc ∈ a.pcs, pcLen pc ≤ 65535)
    (hw : writeAssocBody writePcs a = .ok body) : FitsAssoc pcLen a := by
  simp only [writeAssocBody] at hw
  obtain ⟨b0, r0, h0, hr0, rfl⟩ := wcat_ok.1 hw
  obtain ⟨ae1, r1, h1, hr1, rfl⟩ := wcat_ok.1 hr0
  obtain ⟨ae2, r2, h2, hr2, rfl⟩ := wcat_ok.1 hr1
  obtain ⟨z32, r3, h3, hr3, rfl⟩ := wcat_ok.1 hr2
  obtain ⟨x, r4, hx, hr4, rfl⟩ := wcat_ok.1 hr3
  obtain ⟨y, z, hy, hz, rfl⟩ := wcat_ok.1 hr4
  simp only [writeAcn] at hx
  obtain ⟨c, hc, hl, rfl⟩ := item16_ok.1 hx
  obtain ⟨-, rfl⟩ := encodeText_ok.1 hc
  obtain ⟨u1, u2⟩ := writeUserVars_fits hz
  exact ⟨hl, hpcs y hy, u2, u1⟩

/-- the sizes that `write_pdu` must be able to express -/
def FitsPdu : Pdu → Prop
  | .associationRQ a => FitsAssoc pcProposedLen a
  | .associationAC a => FitsAssoc pcResultLen a
  | _ => True

theorem write_ok_fits {p : Pdu} {bs : Bytes} (hw : writePdu p = .ok bs) : FitsPdu p := by
  obtain ⟨body, hb, hl, rfl⟩ := pdu32_ok.1 hw
  cases p with
  | associationRQ a => exact writeAssocBody_fits (writePcProposedList_fits a.pcs) hb
  | associationAC a => exact writeAssocBody_fits (writePcResultList_fits a.pcs) hb
  | _ => trivial

/-- **Oversize fails.** If the content of any item of an association PDU (application context,
a presentation context, a user variable, the user-information item as a whole) exceeds 65 535
bytes — more than its 16-bit length field can express — `write_pdu` returns an error and emits no
PDU. (Model of the repaired `write_chunk_u16`; the unrepaired cast is `chunk16Wrapping`.) -/
theorem oversize_fails {p : Pdu} (h : ¬ FitsPdu p) : ∀ bs, writePdu p ≠ .ok bs :=
  fun _ hw => h (write_ok_fits hw)

theorem oversize_user_variable_fails (a : Assoc PcProposed) (v : UserVar) (hv : v ∈ a.uvs)
    (hbig : 65535 < uvContentLen v) : ∀ bs, writePdu (.associationRQ a) ≠ .ok bs := by
  apply oversize_fails
  intro h
  have := h.2.2.1 v hv
  omega

/-- the mechanism, and what the unrepaired cast did instead: a wrong length in front of the data -/
theorem chunk16_rejects_oversize (b : Bytes) (h : 65535 < b.length) : chunk16 (.ok b) = .error .tooLong := by
  simp [chunk16]; omega

theorem chunk16Wrapping_truncates (b : Bytes) (h : 65535 < b.length) :
    ∃ n, n < 65536 ∧ n ≠ b.length ∧ chunk16Wrapping (.ok b) = .ok (be16 n ++ b) :=
  ⟨b.length % 65536, by omega, by omega, rfl⟩


/-! ### Exact characterisation of when `write_pdu` succeeds (both directions), 32-bit fields included -/

def EncStr (s : Str) : Prop := ∀ c ∈ s, c < 256

/-- the text fields of a user variable are within ISO-8859-1 -/
def EncUserVar : UserVar → Prop
  | .implClassUid s => EncStr s
  | .implVersionName s => EncStr s
  | .sopClassExt uid _ => EncStr uid
  | .roleSelection uid _ _ => EncStr uid
  | _ => True

def EncPcProposed (pc : PcProposed) : Prop := EncStr pc.abstractSyntax ∧ ∀ ts ∈ pc.transferSyntaxes, EncStr ts
def EncPcResult (pc : PcResult) : Prop := EncStr pc.transferSyntax

def EncAssoc {γ : Type} (encPc : γ → Prop) (a : Assoc γ) : Prop :=
  EncStr a.callingAe ∧ EncStr a.calledAe ∧ EncStr a.acn ∧ (∀ pc ∈ a.pcs, encPc pc) ∧ ∀ v ∈ a.uvs, EncUserVar v

def EncodablePdu : Pdu → Prop
  | .associationRQ a => EncAssoc EncPcProposed a
  | .associationAC a => EncAssoc EncPcResult a
  | _ => True

def pcListLen {γ : Type} (pcLen : γ → Nat) : List γ → Nat
  | [] => 0
  | pc :: r => 4 + pcLen pc + pcListLen pcLen r

def pdvListLen : List Pdv → Nat
  | [] => 0
  | v :: r => 4 + (2 + v.data.length) + pdvListLen r

def assocBodyLen {γ : Type} (pcLen : γ → Nat) (a : Assoc γ) : Nat :=
  68 + (4 + a.acn.length) + pcListLen pcLen a.pcs + (if a.uvs.isEmpty then 0 else 4 + userInfoLen a.uvs)

/-- number of bytes after the 6-byte PDU header -/
def pduBodyLen : Pdu → Nat
  | .associationRQ a => assocBodyLen pcProposedLen a
  | .associationAC a => assocBodyLen pcResultLen a
  | .pData vs => pdvListLen vs
  | .unknown _ d => d.length
  | _ => 4

/-- what the 32-bit length fields have to express: the PDU body and each presentation data value -/
def Fits32 (p : Pdu) : Prop :=
  pduBodyLen p ≤ 4294967295 ∧
    match p with
    | .pData vs => ∀ v ∈ vs, 2 + v.data.length ≤ 4294967295
    | _ => True

theorem encodeText_ok_of {s : Str} (h : EncStr s) : encodeText s = .ok s := encodeText_ok.2 ⟨h, rfl⟩

theorem item16_ok_of {t : Nat} {d : W} {c : Bytes} (hc : d = .ok c) (hl : c.length ≤ 65535) :
    item16 t d = .ok (t :: 0 :: (be16 c.length ++ c)) := item16_ok.2 ⟨c, hc, hl, rfl⟩

theorem chunk16_ok_of {d : W} {c : Bytes} (hc : d = .ok c) (hl : c.length ≤ 65535) :
    chunk16 d = .ok (be16 c.length ++ c) := chunk16_ok.2 ⟨c, hc, hl, rfl⟩

theorem wcat_ok_of {a b : W} {x y : Bytes} (ha : a = .ok x) (hb : b = .ok y) : wcat a b = .ok (x ++ y) :=
  wcat_ok.2 ⟨x, y, ha, hb, rfl⟩

/-! user variables -/

theorem writeUserVar_enc {v : UserVar} {b : Bytes} (hw : writeUserVar v = .ok b) : EncUserVar v := by
  cases v with
  | implClassUid s =>
    simp only [writeUserVar] at hw
    obtain ⟨c, hc, -, -⟩ := item16_ok.1 hw
    exact (encodeText_ok.1 hc).1
  | implVersionName s =>
    simp only [writeUserVar] at hw
    obtain ⟨c, hc, -, -⟩ := item16_ok.1 hw
    exact (encodeText_ok.1 hc).1
  | roleSelection uid scu scp =>
    simp only [writeUserVar] at hw
    obtain ⟨c, hc, -, -⟩ := item16_ok.1 hw
    obtain ⟨x, y, hx, -, -⟩ := wcat_ok.1 hc
    obtain ⟨u, hu, -, -⟩ := chunk16_ok.1 hx
    exact (encodeText_ok.1 hu).1
  | sopClassExt uid d =>
    simp only [writeUserVar] at hw
    obtain ⟨c, hc, -, -⟩ := item16_ok.1 hw
    obtain ⟨x, y, hx, -, -⟩ := wcat_ok.1 hc
    obtain ⟨u, hu, -, -⟩ := chunk16_ok.1 hx
    exact (encodeText_ok.1 hu).1
  | _ => trivial

theorem writeUserVar_ok_of {v : UserVar} (hf : uvContentLen v ≤ 65535) (he : EncUserVar v) :
    ∃ b, writeUserVar v = .ok b := by
  cases v with
  | maxLength n => simp only [writeUserVar]; exact ⟨_, item16_ok_of rfl (by simp)⟩
  | unknown t d => simp only [writeUserVar]; exact ⟨_, item16_ok_of rfl (by simpa [uvContentLen] using hf)⟩
  | implClassUid s =>
    simp only [writeUserVar]
    exact ⟨_, item16_ok_of (encodeText_ok_of he) (by simpa [uvContentLen] using hf)⟩
  | implVersionName s =>
    simp only [writeUserVar]
    exact ⟨_, item16_ok_of (encodeText_ok_of he) (by simpa [uvContentLen] using hf)⟩
  | roleSelection uid scu scp =>
    simp only [uvContentLen] at hf
    simp only [writeUserVar]
    exact ⟨_, item16_ok_of (wcat_ok_of (chunk16_ok_of (encodeText_ok_of he) (by omega)) rfl) (by simp; omega)⟩
  | sopClassExt uid d =>
    simp only [uvContentLen] at hf
    simp only [writeUserVar]
    exact ⟨_, item16_ok_of (wcat_ok_of (chunk16_ok_of (encodeText_ok_of he) (by omega)) rfl) (by simp; omega)⟩
  | userIdentity u =>
    simp only [uvContentLen] at hf
    simp only [writeUserVar]
    exact ⟨_, item16_ok_of (wcat_ok_of rfl (wcat_ok_of (chunk16_ok_of rfl (by omega)) (chunk16_ok_of rfl (by omega))))
      (by simp; omega)⟩

theorem writeUserVarList_enc (vs : List UserVar) : ∀ b, writeUserVarList vs = .ok b → ∀ v ∈ vs, EncUserVar v := by
  induction vs with
  | nil => intro b _ v h; simp at h
  | cons v vs ih =>
    intro b hw
    simp only [writeUserVarList] at hw
    obtain ⟨x, y, hx, hy, rfl⟩ := wcat_ok.1 hw
    intro w hw'
    rcases List.mem_cons.1 hw' with h | h
    · subst h; exact writeUserVar_enc hx
    · exact ih y hy w h

theorem writeUserVarList_ok_of (vs : List UserVar) (hf : ∀ v ∈ vs, uvContentLen v ≤ 65535)
    (he : ∀ v ∈ vs, EncUserVar v) : ∃ b, writeUserVarList vs = .ok b := by
  induction vs with
  | nil => exact ⟨[], rfl⟩
  | cons v vs ih =>
    obtain ⟨x, hx⟩ := writeUserVar_ok_of (hf v (by simp)) (he v (by simp))
    obtain ⟨y, hy⟩ := ih (fun w hw => hf w (by simp [hw])) (fun w hw => he w (by simp [hw]))
    exact ⟨x ++ y, wcat_ok_of hx hy⟩

/-- the user-information item: length, and success exactly when everything fits and is encodable -/
theorem writeUserVars_len {vs : List UserVar} {b : Bytes} (hw : writeUserVars vs = .ok b) :
    b.length = (if vs.isEmpty then 0 else 4 + userInfoLen vs) ∧ ∀ v ∈ vs, EncUserVar v := by
  by_cases hne : vs = []
  · subst hne; simp [writeUserVars] at hw; subst hw; simp
  · have : vs.isEmpty = false := by cases vs <;> simp_all
    simp only [writeUserVars, this] at hw
    obtain ⟨c, hc, hl, rfl⟩ := item16_ok.1 hw
    obtain ⟨h1, -⟩ := writeUserVarList_len vs c hc
    exact ⟨by simp [this, h1]; omega, writeUserVarList_enc vs c hc⟩

theorem writeUserVars_ok_of {vs : List UserVar} (hf : ∀ v ∈ vs, uvContentLen v ≤ 65535)
    (ht : userInfoLen vs ≤ 65535) (he : ∀ v ∈ vs, EncUserVar v) : ∃ b, writeUserVars vs = .ok b := by
  by_cases hne : vs = []
  · subst hne; exact ⟨[], rfl⟩
  · have : vs.isEmpty = false := by cases vs <;> simp_all
    obtain ⟨c, hc⟩ := writeUserVarList_ok_of vs hf he
    obtain ⟨h1, -⟩ := writeUserVarList_len vs c hc
    simp only [writeUserVars, this]
    exact ⟨_, item16_ok_of hc (by omega)⟩

/-! presentation contexts -/

theorem writeTsList_enc (tss : List Str) : ∀ b, writeTsList tss = .ok b → ∀ ts ∈ tss, EncStr ts := by
  induction tss with
  | nil => intro b _ v h; simp at h
  | cons ts tss ih =>
    intro b hw
    simp only [writeTsList] at hw
    obtain ⟨x, y, hx, hy, rfl⟩ := wcat_ok.1 hw
    obtain ⟨c, hc, -, -⟩ := item16_ok.1 hx
    intro w hw'
    rcases List.mem_cons.1 hw' with h | h
    · subst h; exact (encodeText_ok.1 hc).1
    · exact ih y hy w h

theorem writeTsList_ok_of (tss : List Str) (hf : tsListLen tss ≤ 65535) (he : ∀ ts ∈ tss, EncStr ts) :
    ∃ b, writeTsList tss = .ok b := by
  induction tss with
  | nil => exact ⟨[], rfl⟩
  | cons ts tss ih =>
    simp only [tsListLen] at hf
    obtain ⟨y, hy⟩ := ih (by omega) (fun w hw => he w (by simp [hw]))
    exact ⟨_, wcat_ok_of (item16_ok_of (encodeText_ok_of (he ts (by simp))) (by omega)) hy⟩

theorem writePcProposed_len {pc : PcProposed} {b : Bytes} (hw : writePcProposed pc = .ok b) :
    b.length = 4 + pcProposedLen pc ∧ EncPcProposed pc := by
  simp only [writePcProposed] at hw
  obtain ⟨c, hc, hl, rfl⟩ := item16_ok.1 hw
  obtain ⟨x, y, hx, hy, rfl⟩ := wcat_ok.1 hc
  cases hx
  obtain ⟨p, q, hp, hq, rfl⟩ := wcat_ok.1 hy
  obtain ⟨a, ha, hal, rfl⟩ := item16_ok.1 hp
  obtain ⟨hea, rfl⟩ := encodeText_ok.1 ha
  have := writeTsList_len _ q hq
  exact ⟨by simp [pcProposedLen, this]; omega, hea, writeTsList_enc _ q hq⟩

theorem writePcProposed_ok_of {pc : PcProposed} (hf : pcProposedLen pc ≤ 65535) (he : EncPcProposed pc) :
    ∃ b, writePcProposed pc = .ok b := by
  simp only [pcProposedLen] at hf
  obtain ⟨q, hq⟩ := writeTsList_ok_of pc.transferSyntaxes (by omega) he.2
  have hql := writeTsList_len _ q hq
  exact ⟨_, item16_ok_of (wcat_ok_of rfl (wcat_ok_of (item16_ok_of (encodeText_ok_of he.1) (by omega)) hq))
    (by simp [hql]; omega)⟩

theorem writePcResult_len {pc : PcResult} {b : Bytes} (hw : writePcResult pc = .ok b) :
    b.length = 4 + pcResultLen pc ∧ EncPcResult pc := by
  simp only [writePcResult] at hw
  obtain ⟨c, hc, hl, rfl⟩ := item16_ok.1 hw
  obtain ⟨x, y, hx, hy, rfl⟩ := wcat_ok.1 hc
  cases hx
  obtain ⟨a, ha, hal, rfl⟩ := item16_ok.1 hy
  obtain ⟨hea, rfl⟩ := encodeText_ok.1 ha
  exact ⟨by simp [pcResultLen]; omega, hea⟩

theorem writePcResult_ok_of {pc : PcResult} (hf : pcResultLen pc ≤ 65535) (he : EncPcResult pc) :
    ∃ b, writePcResult pc = .ok b := by
  simp only [pcResultLen] at hf
  exact ⟨_, item16_ok_of (wcat_ok_of rfl (item16_ok_of (encodeText_ok_of he) (by omega))) (by simp; omega)⟩

theorem writePcProposedList_len (pcs : List PcProposed) : ∀ b, writePcProposedList pcs = .ok b →
    b.length = pcListLen pcProposedLen pcs ∧ ∀ pc ∈ pcs, EncPcProposed pc := by
  induction pcs with
  | nil => intro b hw; simp [writePcProposedList] at hw; subst hw; simp [pcListLen]
  | cons pc pcs ih =>
    intro b hw
    simp only [writePcProposedList] at hw
    obtain ⟨x, y, hx, hy, rfl⟩ := wcat_ok.1 hw
    obtain ⟨h1, h2⟩ := writePcProposed_len hx
    obtain ⟨h3, h4⟩ := ih y hy
    refine ⟨by simp [pcListLen, h1, h3], ?_⟩
    intro w hw'
    rcases List.mem_cons.1 hw' with h | h
    · subst h; exact h2
    · exact h4 w h

theorem writePcResultList_len (pcs : List PcResult) : ∀ b, writePcResultList pcs = .ok b →
    b.length = pcListLen pcResultLen pcs ∧ ∀ pc ∈ pcs, EncPcResult pc := by
  induction pcs with
  | nil => intro b hw; simp [writePcResultList] at hw; subst hw; simp [pcListLen]
  | cons pc pcs ih =>
    intro b hw
    simp only [writePcResultList] at hw
    obtain ⟨x, y, hx, hy, rfl⟩ := wcat_ok.1 hw
    obtain ⟨h1, h2⟩ := writePcResult_len hx
    obtain ⟨h3, h4⟩ := ih y hy
    refine ⟨by simp [pcListLen, h1, h3], ?_⟩
    intro w hw'
    rcases List.mem_cons.1 hw' with h | h
    · subst h; exact h2
    · exact h4 w h

theorem writePcProposedList_ok_of (pcs : List PcProposed) (hf : ∀ pc ∈ pcs, pcProposedLen pc ≤ 65535)
    (he : ∀ pc ∈ pcs, EncPcProposed pc) : ∃ b, writePcProposedList pcs = .ok b := by
  induction pcs with
  | nil => exact ⟨[], rfl⟩
  | cons pc pcs ih =>
    obtain ⟨x, hx⟩ := writePcProposed_ok_of (hf pc (by simp)) (he pc (by simp))
    obtain ⟨y, hy⟩ := ih (fun w hw => hf w (by simp [hw])) (fun w hw => he w (by simp [hw]))
    exact ⟨x ++ y, wcat_ok_of hx hy⟩

theorem writePcResultList_ok_of (pcs : List PcResult) (hf : ∀ pc ∈ pcs, pcResultLen pc ≤ 65535)
    (he : ∀ pc ∈ pcs, EncPcResult pc) : ∃ b, writePcResultList pcs = .ok b := by
  induction pcs with
  | nil => exact ⟨[], rfl⟩
  | cons pc pcs ih =>
    obtain ⟨x, hx⟩ := writePcResult_ok_of (hf pc (by simp)) (he pc (by simp))
    obtain ⟨y, hy⟩ := ih (fun w hw => hf w (by simp [hw])) (fun w hw => he w (by simp [hw]))
    exact ⟨x ++ y, wcat_ok_of hx hy⟩

/-! association bodies -/

theorem writeAe_enc {s : Str} {b : Bytes} (h : writeAe s = .ok b) : EncStr s := by
  unfold writeAe at h
  cases he : encodeText s with
  | error e => simp [he] at h
  | ok c => exact (encodeText_ok.1 he).1

theorem writeAe_ok_of {s : Str} (h : EncStr s) : ∃ b, writeAe s = .ok b := by
  unfold writeAe; rw [encodeText_ok_of h]; exact ⟨_, rfl⟩

theorem writeAssocBody_len {γ : Type} {writePcs : List γ → W} {pcLen : γ → Nat} {encPc : γ → Prop}
    {a : Assoc γ} {body : Bytes}
    (hpcs : ∀ b, writePcs a.pcs = .ok b → b.length = pcListLen pcLen a.pcs ∧ ∀ pc ∈ a.pcs, encPc pc)
    (hw : writeAssocBody writePcs a = .ok body) :
    body.length = assocBodyLen pcLen a ∧ EncAssoc encPc a := by
  simp only [writeAssocBody] at hw
  obtain ⟨b0, r0, h0, hr0, rfl⟩ := wcat_ok.1 hw
  cases h0
  obtain ⟨ae1, r1, h1, hr1, rfl⟩ := wcat_ok.1 hr0
  obtain ⟨ae2, r2, h2, hr2, rfl⟩ := wcat_ok.1 hr1
  obtain ⟨z32, r3, h3, hr3, rfl⟩ := wcat_ok.1 hr2
  cases h3
  obtain ⟨x, r4, hx, hr4, rfl⟩ := wcat_ok.1 hr3
  obtain ⟨y, z, hy, hz, rfl⟩ := wcat_ok.1 hr4
  obtain ⟨-, l1⟩ := writeAe_ok h1
  obtain ⟨-, l2⟩ := writeAe_ok h2
  simp only [writeAcn] at hx
  obtain ⟨c, hc, hl, rfl⟩ := item16_ok.1 hx
  obtain ⟨hec, rfl⟩ := encodeText_ok.1 hc
  obtain ⟨ly, ey⟩ := hpcs y hy
  obtain ⟨lz, ez⟩ := writeUserVars_len hz
  refine ⟨?_, writeAe_enc h2, writeAe_enc h1, hec, ey, ez⟩
  simp [assocBodyLen, l1, l2, ly, lz]; omega

theorem writeAssocBody_ok_of {γ : Type} {writePcs : List γ → W} {pcLen : γ → Nat} {encPc : γ → Prop}
    {a : Assoc γ}
    (hpcs : (∀ pc ∈ a.pcs, pcLen pc ≤ 65535) → (∀ pc ∈ a.pcs, encPc pc) → ∃ b, writePcs a.pcs = .ok b)
    (hf : FitsAssoc pcLen a) (he : EncAssoc encPc a) : ∃ body, writeAssocBody writePcs a = .ok body := by
  obtain ⟨f1, f2, f3, f4⟩ := hf
  obtain ⟨e1, e2, e3, e4, e5⟩ := he
  obtain ⟨ae1, h1⟩ := writeAe_ok_of e2
  obtain ⟨ae2, h2⟩ := writeAe_ok_of e1
  obtain ⟨y, hy⟩ := hpcs f2 e4
  obtain ⟨z, hz⟩ := writeUserVars_ok_of f3 f4 e5
  exact ⟨_, wcat_ok_of rfl (wcat_ok_of h1 (wcat_ok_of h2 (wcat_ok_of rfl
    (wcat_ok_of (item16_ok_of (encodeText_ok_of e3) f1) (wcat_ok_of hy hz)))))⟩

/-! P-DATA -/

theorem writePdvList_len (vs : List Pdv) : ∀ b, writePdvList vs = .ok b →
    b.length = pdvListLen vs ∧ ∀ v ∈ vs, 2 + v.data.length ≤ 4294967295 := by
  induction vs with
  | nil => intro b hw; simp [writePdvList] at hw; subst hw; simp [pdvListLen]
  | cons v vs ih =>
    intro b hw
    simp only [writePdvList] at hw
    obtain ⟨x, y, hx, hy, rfl⟩ := wcat_ok.1 hw
    simp only [writePdv] at hx
    obtain ⟨c, hc, hl, rfl⟩ := chunk32_ok.1 hx
    cases hc
    obtain ⟨h3, h4⟩ := ih y hy
    refine ⟨by simp [pdvListLen, h3]; omega, ?_⟩
    intro w hw'
    rcases List.mem_cons.1 hw' with h | h
    · subst h; simp at hl; omega
    · exact h4 w h

theorem writePdvList_ok_of (vs : List Pdv) (hf : ∀ v ∈ vs, 2 + v.data.length ≤ 4294967295) :
    ∃ b, writePdvList vs = .ok b := by
  induction vs with
  | nil => exact ⟨[], rfl⟩
  | cons v vs ih =>
    obtain ⟨y, hy⟩ := ih (fun w hw => hf w (by simp [hw]))
    have := hf v (by simp)
    exact ⟨_, wcat_ok_of (chunk32_ok.2 ⟨_, rfl, by simp; omega, rfl⟩) hy⟩

/-! whole PDUs -/

theorem writePduBody_len {p : Pdu} {body : Bytes} (hw : writePduBody p = .ok body) :
    body.length = pduBodyLen p ∧ EncodablePdu p ∧
      (match p with | .pData vs => ∀ v ∈ vs, 2 + v.data.length ≤ 4294967295 | _ => True) := by
  cases p with
  | associationRQ a =>
    obtain ⟨h1, h2⟩ := writeAssocBody_len (encPc := EncPcProposed) (writePcProposedList_len a.pcs) hw
    exact ⟨h1, h2, trivial⟩
  | associationAC a =>
    obtain ⟨h1, h2⟩ := writeAssocBody_len (encPc := EncPcResult) (writePcResultList_len a.pcs) hw
    exact ⟨h1, h2, trivial⟩
  | pData vs =>
    obtain ⟨h1, h2⟩ := writePdvList_len vs body hw
    exact ⟨h1, trivial, h2⟩
  | associationRJ res src => simp only [writePduBody] at hw; cases hw; exact ⟨rfl, trivial, trivial⟩
  | releaseRQ => simp only [writePduBody] at hw; cases hw; exact ⟨rfl, trivial, trivial⟩
  | releaseRP => simp only [writePduBody] at hw; cases hw; exact ⟨rfl, trivial, trivial⟩
  | abortRQ src => simp only [writePduBody] at hw; cases hw; exact ⟨rfl, trivial, trivial⟩
  | unknown t d => simp only [writePduBody] at hw; cases hw; exact ⟨rfl, trivial, trivial⟩

/-- the encoding is 6 header bytes plus the body computed from the field layouts -/
theorem write_len {p : Pdu} {bs : Bytes} (hw : writePdu p = .ok bs) : bs.length = 6 + pduBodyLen p := by
  obtain ⟨body, hb, hl, rfl⟩ := pdu32_ok.1 hw
  simp [(writePduBody_len hb).1]; omega

/-- **`write_pdu` succeeds exactly when** every 16-bit item length can express its content
(`FitsPdu`), every 32-bit length (PDU body, presentation data values) can express its content
(`Fits32`) and all text is within the codec's repertoire (`EncodablePdu`). -/
theorem write_ok_iff (p : Pdu) : (∃ bs, writePdu p = .ok bs) ↔ FitsPdu p ∧ Fits32 p ∧ EncodablePdu p := by
  constructor
  · rintro ⟨bs, hw⟩
    have hfit := write_ok_fits hw
    obtain ⟨body, hb, hl, rfl⟩ := pdu32_ok.1 hw
    obtain ⟨h1, h2, h3⟩ := writePduBody_len hb
    refine ⟨hfit, ⟨by omega, ?_⟩, h2⟩
    cases p <;> first | exact h3 | trivial
  · rintro ⟨hf, ⟨h32, hv⟩, he⟩
    have hbody : ∃ body, writePduBody p = .ok body := by
      cases p with
      | associationRQ a => exact writeAssocBody_ok_of (writePcProposedList_ok_of a.pcs) hf he
      | associationAC a => exact writeAssocBody_ok_of (writePcResultList_ok_of a.pcs) hf he
      | pData vs => exact writePdvList_ok_of vs hv
      | associationRJ res src => exact ⟨_, rfl⟩
      | releaseRQ => exact ⟨_, rfl⟩
      | releaseRP => exact ⟨_, rfl⟩
      | abortRQ src => exact ⟨_, rfl⟩
      | unknown t d => exact ⟨_, rfl⟩
    obtain ⟨body, hb⟩ := hbody
    have hl := (writePduBody_len hb).1
    exact ⟨_, pdu32_ok.2 ⟨body, hb, by omega, rfl⟩⟩

/-- **32-bit oversize.** A presentation data value whose item (context id, control header, data)
exceeds 2³² − 1 bytes, or a PDU body that does, makes `write_pdu` fail. -/
theorem pdata_oversize_fails (vs : List Pdv) (v : Pdv) (hv : v ∈ vs) (hbig : 4294967295 < 2 + v.data.length) :
    ∀ bs, writePdu (.pData vs) ≠ .ok bs := by
  intro bs hw
  have := ((write_ok_iff _).1 ⟨bs, hw⟩).2.1.2 v hv
  omega

theorem body_oversize_fails (p : Pdu) (hbig : 4294967295 < pduBodyLen p) : ∀ bs, writePdu p ≠ .ok bs := by
  intro bs hw
  have := ((write_ok_iff _).1 ⟨bs, hw⟩).2.1.1
  omega

/-- every well-formed, fitting, encodable PDU round-trips: `pdu_rt` without a hypothesis on the
writer's result -/
theorem pdu_rt_total {p : Pdu} (hwf : WellFormedPdu p) (hf : FitsPdu p) (h32 : Fits32 p) (he : EncodablePdu p)
    (mx : Nat) (strict : Bool) (hmx : validMax mx) (hs : strict = true → pduBodyLen p ≤ mx) (r : Bytes) :
    ∃ bs, writePdu p = .ok bs ∧ bs.length = 6 + pduBodyLen p ∧ readPdu mx strict (bs ++ r) = .ok (normPdu p, r) := by
  obtain ⟨bs, hw⟩ := (write_ok_iff p).2 ⟨hf, h32, he⟩
  have hl := write_len hw
  exact ⟨bs, hw, hl, pdu_rt hwf hw mx strict hmx (fun h => by have := hs h; omega) r⟩

/-! ### Framing for arbitrary buffers -/

/-- the PDU-length field of a buffer holding at least the 6 header bytes -/
def declaredLen : Bytes → Option Nat
  | _ :: _ :: a :: b :: c :: d :: _ => some (16777216 * a + 65536 * b + 256 * c + d)
  | _ => none

/-- `read_pdu` on a buffer with a complete header: framing decided by the length field alone -/
theorem readPdu_header (mx : Nat) (strict : Bool) (hmx : validMax mx) (t z a b c d : Nat) (body : Bytes) :
    readPdu mx strict (t :: z :: a :: b :: c :: d :: body) =
      (if strict = true ∧ mx < 16777216 * a + 65536 * b + 256 * c + d then .err .pduTooLarge
       else if body.length < 16777216 * a + 65536 * b + 256 * c + d then .inc
       else (readBody t (body.take (16777216 * a + 65536 * b + 256 * c + d))).bind
          (fun p => .ok (p, body.drop (16777216 * a + 65536 * b + 256 * c + d)))) := by
  have h1 : ¬ ¬ (minimumPduSize ≤ mx ∧ mx ≤ maximumPduSize) := fun h => h hmx
  have h2 : ¬ (List.length body + 1 + 1 + 1 + 1 + 1 + 1 < 2) := by omega
  have h3 : ¬ (List.length body + 1 + 1 + 1 + 1 < 4) := by omega
  unfold readPdu
  rw [if_neg h1]
  simp only [List.length_cons, if_neg h2, takeP, List.take_succ_cons, List.take_zero, List.drop_succ_cons,
    List.drop_zero, Res.bind_eq, Res.bind_ok, if_neg h3, u32P, List.headD]
  split
  · rfl
  · split
    · rfl
    · rfl

/-- **Incomplete exactly when bytes are missing.** For *any* buffer: `read_pdu` answers `Ok(None)`
iff the header is not complete, or the header is complete, the length is acceptable and fewer
body bytes than declared are present. A complete PDU — however malformed — is never "incomplete". -/
theorem incomplete_iff (mx : Nat) (strict : Bool) (hmx : validMax mx) (bs : Bytes) :
    readPdu mx strict bs = .inc ↔
      bs.length < 6 ∨ ∃ L, declaredLen bs = some L ∧ ¬ (strict = true ∧ mx < L) ∧ bs.length - 6 < L := by
  have h1 : ¬ ¬ (minimumPduSize ≤ mx ∧ mx ≤ maximumPduSize) := fun h => h hmx
  match bs with
  | [] => simp [readPdu, h1]
  | [_] => simp [readPdu, h1]
  | [_, _] => simp [readPdu, hmx.1, hmx.2, takeP]
  | [_, _, _] => simp [readPdu, hmx.1, hmx.2, takeP]
  | [_, _, _, _] => simp [readPdu, hmx.1, hmx.2, takeP]
  | [_, _, _, _, _] => simp [readPdu, hmx.1, hmx.2, takeP]
  | t :: z :: a :: b :: c :: d :: body =>
    rw [readPdu_header mx strict hmx]
    simp only [declaredLen, List.length_cons, Option.some.injEq, exists_eq_left']
    split
    · rename_i h; simp [h]
    · rename_i h
      split
      · rename_i h'; simp [h]; omega
      · rename_i h'
        have : (readBody t (List.take (16777216 * a + 65536 * b + 256 * c + d) body)).bind
            (fun p => Res.ok (p, List.drop (16777216 * a + 65536 * b + 256 * c + d) body)) ≠ .inc := by
          cases hb : readBody t (List.take (16777216 * a + 65536 * b + 256 * c + d) body) with
          | ok p => simp
          | inc => exact absurd hb (readBody_ne_inc _ _)
          | err e => simp
        simp [this]; omega

/-- **Exact framing for any input.** Whenever `read_pdu` returns a PDU it has consumed the 6 header
bytes and exactly the declared number of body bytes; the rest of the buffer is untouched. -/
theorem read_ok_framing (mx : Nat) (strict : Bool) (hmx : validMax mx) (bs : Bytes) (p : Pdu) (rest : Bytes)
    (h : readPdu mx strict bs = .ok (p, rest)) :
    ∃ L, declaredLen bs = some L ∧ rest = bs.drop (6 + L) ∧ 6 + L ≤ bs.length := by
  have h1 : ¬ ¬ (minimumPduSize ≤ mx ∧ mx ≤ maximumPduSize) := fun h => h hmx
  match bs, h with
  | [], h => simp [readPdu, h1] at h
  | [_], h => simp [readPdu, h1] at h
  | [_, _], h => simp [readPdu, hmx.1, hmx.2, takeP] at h
  | [_, _, _], h => simp [readPdu, hmx.1, hmx.2, takeP] at h
  | [_, _, _, _], h => simp [readPdu, hmx.1, hmx.2, takeP] at h
  | [_, _, _, _, _], h => simp [readPdu, hmx.1, hmx.2, takeP] at h
  | t :: z :: a :: b :: c :: d :: body, h =>
    rw [readPdu_header mx strict hmx] at h
    refine ⟨_, rfl, ?_⟩
    split at h
    · cases h
    · split at h
      · cases h
      · rename_i h'
        cases hb : readBody t (List.take (16777216 * a + 65536 * b + 256 * c + d) body) with
        | ok q =>
          simp [hb] at h
          refine ⟨?_, by simp; omega⟩
          rw [← h.2]
          have : 6 + (16777216 * a + 65536 * b + 256 * c + d) = (16777216 * a + 65536 * b + 256 * c + d) + 6 := by omega
          rw [this]
          rfl
        | inc => simp [hb] at h
        | err e => simp [hb] at h
/-! ### Code tables: reader against writer, and both against PS3.8 -/

/-- every code the writer emits is the code the reader tests for the same thing -/
theorem codes_reader_writer_agree :
    (Gen.wPdu_AssociationRQ = Gen.rPdu_AssociationRQ ∧ Gen.wPdu_AssociationAC = Gen.rPdu_AssociationAC ∧
     Gen.wPdu_AssociationRJ = Gen.rPdu_AssociationRJ ∧ Gen.wPdu_PData = Gen.rPdu_PData ∧
     Gen.wPdu_ReleaseRQ = Gen.rPdu_ReleaseRQ ∧ Gen.wPdu_ReleaseRP = Gen.rPdu_ReleaseRP ∧
     Gen.wPdu_AbortRQ = Gen.rPdu_AbortRQ) ∧
    (Gen.wItem_ApplicationContext = Gen.rItem_ApplicationContext ∧
     Gen.wItem_PresentationContextProposed = Gen.rItem_PresentationContextProposed ∧
     Gen.wItem_PresentationContextResult = Gen.rItem_PresentationContextResult ∧
     Gen.wItem_UserVariables = Gen.rItem_UserVariables ∧
     Gen.wSubProposed_AbstractSyntax = Gen.rSubProposed_AbstractSyntax ∧
     Gen.wSubProposed_TransferSyntax = Gen.rSubProposed_TransferSyntax ∧
     Gen.wSubResult_TransferSyntax = Gen.rSubResult_TransferSyntax) ∧
    (Gen.wUser_MaxLength = Gen.rUser_MaxLength ∧
     Gen.wUser_ImplementationClassUID = Gen.rUser_ImplementationClassUID ∧
     Gen.wUser_ScuScpRoleSelectionSubItem = Gen.rUser_ScuScpRoleSelectionSubItem ∧
     Gen.wUser_ImplementationVersionName = Gen.rUser_ImplementationVersionName ∧
     Gen.wUser_SopClassExtendedNegotiationSubItem = Gen.rUser_SopClassExtendedNegotiationSubItem ∧
     Gen.wUser_UserIdentityItem = Gen.rUser_UserIdentityItem) := by decide

/-- PDU types of PS3.8 §9.3 (Tables 9-11, 9-17, 9-21, 9-22, 9-24, 9-25, 9-26) -/
theorem pdu_type_codes_ps38 :
    Gen.rPdu_AssociationRQ = 0x01 ∧ Gen.rPdu_AssociationAC = 0x02 ∧ Gen.rPdu_AssociationRJ = 0x03 ∧
    Gen.rPdu_PData = 0x04 ∧ Gen.rPdu_ReleaseRQ = 0x05 ∧ Gen.rPdu_ReleaseRP = 0x06 ∧
    Gen.rPdu_AbortRQ = 0x07 := by decide

/-- item types of PS3.8 §9.3.2/9.3.3 (Tables 9-12 … 9-20) and PS3.7 annex D -/
theorem item_type_codes_ps38 :
    Gen.rItem_ApplicationContext = 0x10 ∧ Gen.rItem_PresentationContextProposed = 0x20 ∧
    Gen.rItem_PresentationContextResult = 0x21 ∧ Gen.rItem_UserVariables = 0x50 ∧
    Gen.rSubProposed_AbstractSyntax = 0x30 ∧ Gen.rSubProposed_TransferSyntax = 0x40 ∧
    Gen.rSubResult_TransferSyntax = 0x40 ∧
    Gen.rUser_MaxLength = 0x51 ∧ Gen.rUser_ImplementationClassUID = 0x52 ∧
    Gen.rUser_ScuScpRoleSelectionSubItem = 0x54 ∧ Gen.rUser_ImplementationVersionName = 0x55 ∧
    Gen.rUser_SopClassExtendedNegotiationSubItem = 0x56 ∧ Gen.rUser_UserIdentityItem = 0x58 := by decide

/-- result/reason of a presentation context (Table 9-18), reject result (Table 9-21), user identity
type (PS3.7 Table D.3-14): written code reads back, and the numbers are the standard's -/
theorem PcReason.code_ofCode {c : Nat} {x : PcReason} (h : PcReason.ofCode c = some x) : x.code = c := by
  unfold PcReason.ofCode at h
  repeat' split at h
  all_goals cases h
  all_goals (subst_vars; rfl)

theorem pc_reason_codes_ps38 :
    PcReason.acceptance.code = 0 ∧ PcReason.userRejection.code = 1 ∧ PcReason.noReason.code = 2 ∧
    PcReason.abstractSyntaxNotSupported.code = 3 ∧ PcReason.transferSyntaxesNotSupported.code = 4 := by decide

theorem RjResult.code_ofCode {c : Nat} {x : RjResult} (h : RjResult.ofCode c = some x) : x.code = c := by
  unfold RjResult.ofCode at h
  repeat' split at h
  all_goals cases h
  all_goals (subst_vars; rfl)

theorem IdType.code_ofCode {c : Nat} {x : IdType} (h : IdType.ofCode c = some x) : x.code = c := by
  unfold IdType.ofCode at h
  repeat' split at h
  all_goals cases h
  all_goals (subst_vars; rfl)

theorem id_type_codes_ps37 :
    IdType.username.code = 1 ∧ IdType.usernamePassword.code = 2 ∧ IdType.kerberos.code = 3 ∧
    IdType.saml.code = 4 ∧ IdType.jwt.code = 5 := by decide

/-- A-ASSOCIATE-RJ (Table 9-21): whatever source/reason pair the reader accepts is the pair the
writer emits for the value it produced … -/
theorem RjSource.codes_ofCodes {s r : Nat} {x : RjSource} (h : RjSource.ofCodes s r = some x) :
    x.codes = (s, r) := by
  unfold RjSource.ofCodes at h
  repeat' split at h
  all_goals cases h
  all_goals (subst_vars; rfl)

/-- … the reader accepts exactly the pairs of Table 9-21 … -/
theorem rj_accepted_pairs_ps38 (s r : Nat) :
    (RjSource.ofCodes s r).isSome = true ↔
      (s = 1 ∧ 1 ≤ r ∧ r ≤ 10) ∨ (s = 2 ∧ (r = 1 ∨ r = 2)) ∨ (s = 3 ∧ r ≤ 7) := by
  unfold RjSource.ofCodes
  simp only [Gen.rRj_ServiceUser, Gen.rRj_ServiceProviderASCE, Gen.rRj_ServiceProviderPresentation,
    Gen.rRj_ServiceUser_NoReasonGiven, Gen.rRj_ServiceUser_ApplicationContextNameNotSupported,
    Gen.rRj_ServiceUser_CallingAETitleNotRecognized, Gen.rRj_ServiceUser_CalledAETitleNotRecognized,
    Gen.rRj_ServiceUser_Reserved, Gen.rRj_ServiceProviderASCE_NoReasonGiven,
    Gen.rRj_ServiceProviderASCE_ProtocolVersionNotSupported,
    Gen.rRj_ServiceProviderPresentation_TemporaryCongestion,
    Gen.rRj_ServiceProviderPresentation_LocalLimitExceeded, Gen.rRj_ServiceProviderPresentation_Reserved]
  repeat' split
  all_goals simp_all
  all_goals omega

/-- … with the standard's meaning of each named reason -/
theorem rj_named_codes_ps38 :
    RjSource.codes (.serviceUser .noReasonGiven) = (1, 1) ∧ RjSource.codes (.serviceUser .acnNotSupported) = (1, 2) ∧
    RjSource.codes (.serviceUser .callingNotRecognized) = (1, 3) ∧
    RjSource.codes (.serviceUser .calledNotRecognized) = (1, 7) ∧
    RjSource.codes (.asce .noReasonGiven) = (2, 1) ∧ RjSource.codes (.asce .protocolVersionNotSupported) = (2, 2) ∧
    RjSource.codes (.presentation .temporaryCongestion) = (3, 1) ∧
    RjSource.codes (.presentation .localLimitExceeded) = (3, 2) ∧
    RjResult.permanent.code = 1 ∧ RjResult.transient.code = 2 := by decide

/-- A-ABORT (Table 9-26): source and (for the service provider) reason -/
theorem abort_codes_ps38 :
    AbortSource.codes .serviceUser = (0, 0) ∧ AbortSource.codes .reserved = (1, 0) ∧
    AbortSource.codes (.serviceProvider .reasonNotSpecified) = (2, 0) ∧
    AbortSource.codes (.serviceProvider .unrecognizedPdu) = (2, 1) ∧
    AbortSource.codes (.serviceProvider .unexpectedPdu) = (2, 2) ∧
    AbortSource.codes (.serviceProvider .reserved) = (2, 3) ∧
    AbortSource.codes (.serviceProvider .unrecognizedPduParameter) = (2, 4) ∧
    AbortSource.codes (.serviceProvider .unexpectedPduParameter) = (2, 5) ∧
    AbortSource.codes (.serviceProvider .invalidPduParameter) = (2, 6) := by decide

theorem AbortSource.codes_ofCodes {s r : Nat} {x : AbortSource} (h : AbortSource.ofCodes s r = some x) :
    x.codes.1 = s ∧ (s = Gen.rAbort_ServiceProvider → x.codes.2 = r) := by
  unfold AbortSource.ofCodes at h
  repeat' split at h
  all_goals cases h
  all_goals (subst_vars; simp [AbortSource.codes])
/-! ### No panic -/

/-- **`read_pdu` never panics**: for every maximum, mode and byte string the model's outcome is a PDU,
"incomplete" or an error, never the `panic` that stands for `Buf::get_*`/`copy_to_bytes`/`advance` on
a short buffer — every such access is dominated by a sufficient length test.
(Lemmas in `Lemmas/PduNoPanic.lean`, shared with C05.) -/
theorem read_pdu_no_panic (mx : Nat) (strict : Bool) (bs : Bytes) : readPdu mx strict bs ≠ .err .panic := by
  have key : C05.NP (readPdu mx strict bs) := by
    unfold readPdu
    split
    · exact C05.NP_err (by decide)
    split
    · exact C05.NP_inc
    · rename_i hl
      rw [C05.takeP_ok (n := 2) (bs := bs) (by omega)]
      simp only [Res.bind_eq, Res.bind_ok]
      split
      · exact C05.NP_inc
      · rename_i hl2
        obtain ⟨len, e1⟩ := C05.u32P_ok (bs := bs.drop 2) (by omega)
        simp only [e1, Res.bind_ok]
        split
        · exact C05.NP_err (by decide)
        · split
          · exact C05.NP_inc
          · rename_i hl3
            rw [C05.takeP_ok (by omega)]
            simp only [Res.bind_ok]
            exact C05.NP_bind (C05.readBody_np _ _) fun p _ => C05.NP_ok _
  exact key

/-! ### Exact round trip and non-vacuity -/

/-- a PDU already in the reader's normal form (titles ≤ 16 bytes, no surrounding white space) -/
abbrev IsNormal (p : Pdu) : Prop := normPdu p = p

/-- for PDUs in normal form the round trip is the identity -/
theorem pdu_rt_exact {p : Pdu} {bs : Bytes} (hwf : WellFormedPdu p) (hn : IsNormal p) (hw : writePdu p = .ok bs)
    (mx : Nat) (strict : Bool) (hmx : validMax mx) (hs : strict = true → bs.length - 6 ≤ mx) (r : Bytes) :
    readPdu mx strict (bs ++ r) = .ok (p, r) := by
  have := pdu_rt hwf hw mx strict hmx hs r
  rwa [hn] at this

/-- PDUs without text fields are always in normal form -/
theorem isNormal_of_no_text (p : Pdu) (h : (match p with | .associationRQ _ => false | .associationAC _ => false | _ => true) = true) :
    IsNormal p := by
  cases p <;> simp_all [IsNormal, normPdu]

def sampleRq : Pdu := .associationRQ
  { protocolVersion := 1, callingAe := [83, 67, 85], calledAe := [83, 67, 80], acn := [49, 46, 50],
    pcs := [⟨1, [49, 46, 50, 46, 51], [[49, 46, 50], [49, 46, 50, 46, 49]]⟩],
    uvs := [.maxLength 16384, .implClassUid [49, 46, 57], .roleSelection [49, 46, 50] true false,
            .sopClassExt [49, 46, 50] [1, 0], .userIdentity ⟨true, .usernamePassword, [117], [112]⟩,
            .unknown 0x53 [0, 0, 0, 1]] }

/-- the hypotheses of `pdu_rt`, `pdu_rt_exact`, `prefix_incomplete`, `lengths_consistent` are met by a
concrete association request exercising every user-variable kind -/
example : WellFormedPdu sampleRq ∧ IsNormal sampleRq ∧ validMax 16384 ∧
    (match writePdu sampleRq with | .ok bs => decide (bs.length = 175) | .error _ => false) = true :=
  ⟨by decide, by decide, ⟨by decide, by decide⟩, by decide⟩

/-- the well-formedness hypothesis is needed: an `Unknown` user variable carrying a known code
(here 0x51 with 2 bytes of data) is written but does not read back -/
theorem unknown_with_known_code_fails :
    ∃ bs, writePdu (.associationRQ ⟨1, [], [], [49], [], [.unknown 0x51 [0, 0]]⟩) = .ok bs ∧
      readPdu 16384 false bs ≠ .ok (.associationRQ ⟨1, [], [], [49], [], [.unknown 0x51 [0, 0]]⟩, []) := by
  refine ⟨_, rfl, ?_⟩
  decide

end Dicom.Pdu
