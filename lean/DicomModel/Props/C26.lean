import DicomModel.Lemmas.PData
import DicomModel.Lemmas.PDataAsync
import DicomModel.Lemmas.PDataReader
/-
C26 — P-DATA fragmentation and reassembly preserve the message under any schedule.

Model: `DicomModel/Model/PData.lean` (sync writer under `write_all`, async writer against a scripted
transport, reader over a segmented source). `parseFrags`/`specOk` is the independent parser the
correspondence run applies to the bytes the real writers emit.
-/
namespace Dicom.PData
open Dicom.Gen.Ul

/-- **Synchronous writer.** For any presentation context, any maximum PDU length from 7 up to
`MAXIMUM_PDU_SIZE` (so in particular any length ≥ `MINIMUM_PDU_SIZE`) and any sequence of write
chunks, the session succeeds and the emitted bytes parse as P-DATA-TF PDUs with one value each,
PDU length ≤ max, the given context id, message control 0 (data, not last) on all but the final
PDU and 2 (data, last) on the final one, payloads concatenating to the input. -/
theorem sync_output_spec (max ctx : Nat) (chunks : List Bytes) (hm : 6 < max)
    (hM : max ≤ maximumPduSize) :
    (runSync max ctx chunks).2 = .ok ∧
    ∃ fs, parseFrags (runSync max ctx chunks).1 = some fs ∧
      specOk max ctx chunks.flatten fs = true := by
  obtain ⟨blocks, tail, hb, ht, hcat, hrun⟩ := runSync_form (ctx := ctx) hm hM chunks
  have hM' : max ≤ 4294967288 := by simpa [maximumPduSize_eq] using hM
  refine ⟨by rw [hrun], blocks.map (fragOf ctx false) ++ [fragOf ctx true tail], ?_, ?_⟩
  · rw [hrun]
    apply parseFrags_stream
    · intro b hb'; have := hb b hb'; simp only [u32]; omega
    · simp only [u32]; omega
  · rw [← hcat]
    apply specOk_stream
    · intro b hb'; have := hb b hb'; omega
    · omega

/-- the statement's range: every maximum length from the minimum negotiable one -/
theorem sync_output_spec_from_minimum (max ctx : Nat) (chunks : List Bytes)
    (hm : minimumPduSize ≤ max) (hM : max ≤ maximumPduSize) :
    (runSync max ctx chunks).2 = .ok ∧
    ∃ fs, parseFrags (runSync max ctx chunks).1 = some fs ∧
      specOk max ctx chunks.flatten fs = true :=
  sync_output_spec max ctx chunks (by simp only [minimumPduSize_eq] at hm; omega) hM

/-- The emitted bytes do not depend on how the payload was cut into writes. -/
theorem sync_output_chunking_independent (max ctx : Nat) (chunks chunks' : List Bytes) (hm : 6 < max)
    (hM : max ≤ maximumPduSize) (h : chunks.flatten = chunks'.flatten) :
    ∃ fs, parseFrags (runSync max ctx chunks).1 = some fs ∧ specOk max ctx chunks'.flatten fs = true := by
  obtain ⟨_, fs, h1, h2⟩ := sync_output_spec max ctx chunks hm hM
  exact ⟨fs, h1, h ▸ h2⟩

/-- The lower bound on the maximum length is needed: below the PDV header size the writer panics
(`total_len - buffer.len()` underflows) … -/
theorem below_header_panics : (runSync 5 1 [[7]]).2 = .panic := by
  simp [runSync, writeChunks, writeAll, write, totalLen, pduHeaderSize_eq, u32, initBuf, finishImpl,
    setupHeader, pduPdvHeaderSize_eq]

/-- … and at exactly the header size no byte is ever accepted (`Ok(0)` → `WriteZero`). -/
theorem at_header_size_no_progress : (runSync 6 1 [[7]]).2 = .writeZero := by
  simp [runSync, writeChunks, writeAll, write, totalLen, pduHeaderSize_eq, u32, initBuf, finishImpl,
    setupHeader, pduPdvHeaderSize_eq, dispatch, refill]

/-- **Asynchronous writer.** Against every transport script without `Err` and without a
zero-length write — any pattern of partial writes and `Pending` answers; once the script is used up
the transport accepts everything, i.e. it eventually makes progress — the bytes accepted by the
transport and the status of the session equal those of the synchronous writer. No condition on the
maximum length or the chunking is needed: the two writers also fail alike. -/
theorem async_eq_sync (max ctx : Nat) (chunks : List Bytes) (script : List Ev)
    (hnf : NoFault script) :
    (runAsync max ctx chunks script).1 = (runSync max ctx chunks).1 ∧
    (runAsync max ctx chunks script).2.1 = (runSync max ctx chunks).2 := by
  obtain ⟨s1, h1, h2⟩ := writeChunksA_sim max chunks (initBuf ctx) [] script hnf
  unfold runAsync runSync
  rw [h2]
  rcases hw : writeChunks max ⟨initBuf ctx, []⟩ chunks with ⟨sw, r⟩
  obtain ⟨hsome, hnone⟩ := finishA_sim sw.buf sw.out s1 h1
  have hsw : (⟨sw.buf, sw.out⟩ : SW) = sw := by cases sw; rfl
  rw [hsw] at hsome hnone
  simp only [lift]
  cases hf : finishImpl sw with
  | some sw' =>
    obtain ⟨s2, h3, h4⟩ := hsome sw' hf
    cases r <;> simp [h4, dropStatus]
  | none =>
    have h4 := hnone hf
    cases r <;> simp [h4, dropStatus]

/-- the asynchronous writer meets the output specification under any such schedule -/
theorem async_output_spec (max ctx : Nat) (chunks : List Bytes) (script : List Ev)
    (hnf : NoFault script) (hm : 6 < max) (hM : max ≤ maximumPduSize) :
    (runAsync max ctx chunks script).2.1 = .ok ∧
    ∃ fs, parseFrags (runAsync max ctx chunks script).1 = some fs ∧
      specOk max ctx chunks.flatten fs = true := by
  obtain ⟨h1, h2⟩ := async_eq_sync max ctx chunks script hnf
  rw [h1, h2]
  exact sync_output_spec max ctx chunks hm hM

/-- The hypothesis on the script is needed: after a transport error mid-PDU the `Drop` of the
writer sends the whole buffered PDU again — the stream differs from the synchronous one. -/
theorem transport_error_breaks_equality :
    (runAsync 7 1 [[9, 8]] [.ready 1, .err]).1 ≠ (runSync 7 1 [[9, 8]]).1 := by
  simp [runAsync, runSync, writeChunksA, writeChunks, writeAllA, writeAll, write, pollWrite, pollSend,
    drain, sendAll, finishA, finishImpl, dispatch, refill, setupHeader, totalLen, initBuf, be32,
    pduHeaderSize_eq, pduPdvHeaderSize_eq, u32, dropStatus]

/-- **Reader.** `pdus` is any message (well-formed P-DATA-TF PDUs, data in every PDU before the
final one, only the final PDU's final value marked last), followed in the byte stream by `rest`.
However the stream is split between what is already in the shared buffer (`rb0`) and the non-empty
segments the source delivers (`segs`), and whatever buffer sizes ≥ 1 the caller reads with (enough
reads to reach the end), the reads return exactly the payload, end of stream is reported, and
exactly `rest` is left — shared buffer plus undelivered segments — for the next receive. -/
theorem reader_spec (max : Nat) (hmin : minimumPduSize ≤ max) (hmax : max ≤ maximumPduSize)
    (pdus : List (List Pdv)) (hmsg : MsgOk pdus) (rest rb0 : Bytes) (segs : List Bytes)
    (ks : List Nat) (hsplit : rb0 ++ segs.flatten = encMsg pdus ++ rest)
    (hsegs : ∀ seg ∈ segs, seg ≠ []) (hks : ∀ k ∈ ks, 1 ≤ k)
    (hlen : (msgData pdus).length + pdus.length < ks.length) :
    ∃ rb' src', readLoop max ⟨[], false, rb0, segs⟩ ks []
        = (⟨[], true, rb', src'⟩, msgData pdus, .eof) ∧ rb' ++ src'.flatten = rest := by
  obtain ⟨rb', src', h1, h2, _⟩ := readLoop_spec hmin hmax rest ks [] false rb0 segs pdus [] hks hsegs
    (.inr ⟨rfl, hmsg⟩) hsplit (by simpa using hlen)
  exact ⟨rb', src', by simpa using h1, h2⟩

/-- a PDU as the writers emit it is the general wire form with one value -/
theorem pdu_eq_encPdu (ctx : Nat) (last : Bool) (data : Bytes) :
    pdu ctx last data = encPdu [⟨ctx, if last then 2 else 0, data⟩] := by
  have : 4 + (data.length + 1 + 1) = data.length + 6 := by omega
  simp [pdu, encPdu, encPdv, this]

theorem msgOk_writer (ctx : Nat) (blocks : List Bytes) (tail : Bytes)
    (hb : ∀ b ∈ blocks, b ≠ [] ∧ List.length b + 6 < u32) (ht : tail.length + 6 < u32) :
    MsgOk (blocks.map (fun b => [(⟨ctx, 0, b⟩ : Pdv)]) ++ [[⟨ctx, 2, tail⟩]]) := by
  have wf : ∀ (c : Nat) (d : Bytes), d.length + 6 < u32 → WfPdu [⟨ctx, c, d⟩] := by
    intro c d hd
    constructor
    · intro v hv
      have hv' : v = ⟨ctx, c, d⟩ := by simpa using hv
      subst hv'
      simp only [u32] at *
      show d.length + 2 < _
      omega
    · simp [encPdv]; simp only [u32] at *; omega
  induction blocks with
  | nil => exact ⟨wf 2 tail ht, ⟨ctx, 2, tail⟩, rfl, by simp [Pdv.isLast]⟩
  | cons b bs ih =>
    have h1 := hb b (by simp)
    have h2 := ih (fun x hx => hb x (by simp [hx]))
    cases bs with
    | nil =>
      exact ⟨wf 0 b h1.2, ⟨⟨ctx, 0, b⟩, rfl, by simp [Pdv.isLast]⟩, by simpa [pduData] using h1.1, h2⟩
    | cons b2 bs =>
      exact ⟨wf 0 b h1.2, ⟨⟨ctx, 0, b⟩, rfl, by simp [Pdv.isLast]⟩, by simpa [pduData] using h1.1, h2⟩

/-- **Writer then reader.** What the synchronous writer emits for any chunking (hence, by
`async_eq_sync`, what the asynchronous writer emits under any schedule), followed by anything,
delivered under any segmentation, is read back as exactly the payload, and what followed is left
for the next receive. -/
theorem writer_then_reader (wmax ctx : Nat) (chunks : List Bytes) (hm : 6 < wmax)
    (hM : wmax ≤ maximumPduSize) (max : Nat) (hmin : minimumPduSize ≤ max)
    (hmax : max ≤ maximumPduSize) (rest rb0 : Bytes) (segs : List Bytes) (ks : List Nat)
    (hsplit : rb0 ++ segs.flatten = (runSync wmax ctx chunks).1 ++ rest)
    (hsegs : ∀ seg ∈ segs, seg ≠ []) (hks : ∀ k ∈ ks, 1 ≤ k)
    (hlen : 2 * chunks.flatten.length + 1 < ks.length) :
    ∃ rb' src', readLoop max ⟨[], false, rb0, segs⟩ ks []
        = (⟨[], true, rb', src'⟩, chunks.flatten, .eof) ∧ rb' ++ src'.flatten = rest := by
  obtain ⟨blocks, tail, hb, ht, hcat, hrun⟩ := runSync_form (ctx := ctx) hm hM chunks
  have hM' : wmax ≤ 4294967288 := by simpa [maximumPduSize_eq] using hM
  let pdus := blocks.map (fun b => [(⟨ctx, 0, b⟩ : Pdv)]) ++ [[⟨ctx, 2, tail⟩]]
  have henc : (runSync wmax ctx chunks).1 = encMsg pdus := by
    rw [hrun]
    simp only [pdus, encMsg, List.map_append, List.map_map, List.flatten_append, List.map_cons,
      List.map_nil, List.flatten_cons, List.flatten_nil, List.append_nil]
    congr 1
    · congr 1
      apply List.map_congr_left
      intro b _
      simpa using pdu_eq_encPdu ctx false b
    · simpa using pdu_eq_encPdu ctx true tail
  have hdata : msgData pdus = chunks.flatten := by
    rw [← hcat]
    simp only [pdus, msgData, List.flatMap_append, List.flatMap_cons, List.flatMap_nil,
      List.append_nil, pduData]
    congr 1
    have : ∀ bl : List Bytes,
        (bl.map (fun b => [(⟨ctx, 0, b⟩ : Pdv)])).flatMap (fun vs => vs.flatMap (·.data)) = bl.flatten := by
      intro bl
      induction bl with
      | nil => rfl
      | cons b bs ih => simp [List.flatMap_cons] at ih ⊢; exact ih
    exact this blocks
  have hok : MsgOk pdus := by
    apply msgOk_writer
    · intro b hb'
      have := hb b hb'
      refine ⟨?_, by simp only [u32]; omega⟩
      intro h; rw [h] at this; simp at this; omega
    · simp only [u32]; omega
  have hnum : pdus.length ≤ chunks.flatten.length + 1 := by
    have h1 : blocks.length ≤ blocks.flatten.length := by
      rw [flatten_length_of_all hb]
      exact Nat.le_mul_of_pos_right _ (by omega)
    have h2 := congrArg List.length hcat
    simp only [List.length_append] at h2
    simp only [pdus, List.length_append, List.length_map, List.length_cons, List.length_nil]
    omega
  rw [henc] at hsplit
  obtain ⟨rb', src', h1, h2⟩ := reader_spec max hmin hmax pdus hok rest rb0 segs ks hsplit hsegs hks
    (by rw [hdata]; omega)
  exact ⟨rb', src', by rw [← hdata]; exact h1, h2⟩

/-- Outside the reader's clause: a PDU without data that is not marked last makes `read` answer 0
bytes, which a caller reading to the end takes for the end of the message (the writers never emit
such a PDU: `msgOk_writer`). -/
theorem empty_fragment_ends_reading :
    (readLoop 1018 ⟨[], false, [4, 0, 0, 0, 0, 6, 0, 0, 0, 2, 1, 0,
        4, 0, 0, 0, 0, 7, 0, 0, 0, 3, 1, 2, 9], []⟩ [5, 5, 5] []).2 = ([], .eof) := by
  simp [readLoop, read, fetch, readPdu, parsePdvs, minimumPduSize_eq, maximumPduSize_eq]

/-- non-vacuity / sanity: a 3-byte payload written as 1+2 bytes with 2 data bytes per PDU -/
example : runSync 8 5 [[1], [2, 3]] =
    ([4, 0, 0, 0, 0, 8, 0, 0, 0, 4, 5, 0, 1, 2, 4, 0, 0, 0, 0, 7, 0, 0, 0, 3, 5, 2, 3], .ok) := by
  simp [runSync, writeChunks, writeAll, write, totalLen, pduHeaderSize_eq, u32, initBuf, finishImpl,
    setupHeader, pduPdvHeaderSize_eq, dispatch, refill, be32]

end Dicom.PData
