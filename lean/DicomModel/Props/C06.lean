import DicomModel.Lemmas.Collector
import DicomModel.Lemmas.ReadUntil
/-
C06 — the lazy reader and the collector agree with the eager reader.

Models: `Model/LazyReader.lean` (LazyDataSetReader::advance as a second state machine, peek, skip,
into_owned), `Model/Collector.lean` (collect_elements / collect_sequence / build_encapsulated_data of
the collector, read_dataset_up_to / to_end, read_next_fragment, read_basic_offset_table, build_object with
read_until / read_to), next to the eager reader `Model/Reader.lean` and `Model/Build.lean` (builder codec1).
-/
namespace Dicom.C06
open Dicom.Coll6

/-! ### collector portions -/

/-- reading the top-level data set in portions: `read_dataset_up_to(t)` for each stop tag in turn, then
`read_dataset_to_end`; every call continues where the previous one stopped (the elements are accumulated;
`collect_acc` below: accumulating = concatenating the portions) -/
inductive Portions : List Tag → Coll → List Elem → List Elem → Coll → Prop
  | toEnd {c c' : Coll} {acc es : List Elem} (f : Nat) :
      collectElements f false none none c acc = .ok (es, c') → Portions [] c acc es c'
  | upTo {t : Tag} {ts : List Tag} {c c1 c' : Coll} {acc es1 es : List Elem} (f : Nat) :
      collectElements f false (some t) none c acc = .ok (es1, c1) → Portions ts c1 es1 es c' →
      Portions (t :: ts) c acc es c'

/-- **Reading in portions split at arbitrary tags yields the whole read**: whenever reading the data set
to its end succeeds, then for ANY list of stop tags (ascending or not) every `read_dataset_up_to` call and the
final `read_dataset_to_end` succeed, and together they collect exactly the same elements, in the same
order, and leave the collector in the same state. For every byte string (no validity assumption). -/
theorem collector_portions (stops : List Tag) : ∀ (fuel : Nat) (c : Coll) (acc es : List Elem) (c' : Coll),
    collectElements fuel false none none c acc = .ok (es, c') → Portions stops c acc es c' := by
  induction stops with
  | nil => intro fuel c acc es c' h; exact .toEnd fuel h
  | cons t ts ih =>
    intro fuel c acc es c' h
    obtain ⟨es1, c1, f2, h1, h2⟩ := split_whole (some t) none none none (fun tag hx => by simp [stopAt] at hx)
      fuel c acc es c' h
    exact .upTo fuel h1 (ih f2 c1 es1 es c' h2)

/-- a portion read up to `t1` followed by a read up to a later tag `t2` is the read up to `t2` -/
theorem collector_portions_two (t1 t2 : Tag) (hle : Tag.le t1 t2 = true) (fuel : Nat) (c : Coll)
    (acc es : List Elem) (c2 : Coll) (h : collectElements fuel false (some t2) none c acc = .ok (es, c2)) :
    ∃ es1 c1 f2, collectElements fuel false (some t1) none c acc = .ok (es1, c1) ∧
      collectElements f2 false (some t2) none c1 es1 = .ok (es, c2) := by
  refine split_whole (some t1) none (some t2) none ?_ fuel c acc es c2 h
  intro tag hx
  simp only [stopAt, Bool.or_false, Tag.le, Bool.not_eq_true', Tag.lt] at hx hle ⊢
  simp only [Bool.or_eq_false_iff, Bool.and_eq_false_imp, decide_eq_false_iff_not, beq_iff_eq,
    Nat.not_lt] at *
  omega

/-- accumulating into `acc` is prepending `acc` to what is collected from scratch: the portions of the
real API (each call fills a fresh vector that is then `extend`ed into an object) concatenate -/
theorem collect_acc : ∀ (fuel : Nat) (inItem : Bool) (ru rt : Option Tag) (c : Coll) (acc : List Elem),
    collectElements fuel inItem ru rt c acc =
      match collectElements fuel inItem ru rt c [] with
      | .ok (es, c') => .ok (acc ++ es, c')
      | .error e => .error e := by
  intro fuel
  induction fuel with
  | zero => intro i ru rt c acc; simp [collectElements]
  | succ k ih =>
    intro i ru rt c acc
    rw [collectElements, collectElements]
    rcases c.rd.peek with ⟨r, rd1⟩
    cases r with
    | error e => rfl
    | ok o =>
      cases o with
      | none => simp
      | some tok =>
        simp only
        by_cases hie : tok = .itemEnd
        · cases i <;> simp [hie]
        · simp only [hie, if_false]
          cases tokTag tok with
          | none => rfl
          | some tag =>
            simp only
            by_cases hs : stopAt ru rt tag = true
            · simp [hs]
            · simp only [hs, Bool.false_eq_true, if_false]
              cases collectOne k tok { c with rd := rd1 } with
              | error e => rfl
              | ok p =>
                obtain ⟨e, c'⟩ := p
                simp only
                rw [ih i ru rt c' (acc ++ [e]), ih i ru rt c' ([] ++ [e])]
                cases collectElements k i ru rt c' [] with
                | error e => rfl
                | ok q => simp [List.append_assoc]

/-! ### read_until / read_to -/
open Dicom.Ref

/-- **`OpenFileOptions::read_until(stop)`**: on the encoding of a canonical data set (ascending tags; any
nesting, explicit or undefined lengths, pixel data) the eager reader followed by `build_object(…,
read_until = stop)` yields exactly the top-level elements with tag `<` stop, in order. -/
theorem read_until_spec (ts : Syntax) (dict : Tag → Option VR) (t : Elems) (stop : Tag)
    (h : canonical ts dict t = true) :
    readTokens ((encElems ts t).length + 2) (RState.new ts dict (encElems ts t)) = (t.tokens, none) ∧
    buildObjectS (some stop) none (t.tokens.length + 1) t.tokens [] =
      .ok ((toList t).filter fun e => e.tag.lt stop) := by
  simp only [canonical, Bool.and_eq_true] at h
  obtain ⟨⟨hd, hc⟩, hs⟩ := h
  refine ⟨readTokens_ref ts dict t hd hc _ (by have := tokens_le_elems ts t; omega), ?_⟩
  have := buildS_elems ts dict (some stop) none t hc (t.tokens.length + 1) [] (Nat.lt_succ_self _)
    (by simpa using sorted_pairwise t hs)
  rw [this]
  simp [stopAt, Tag.le]

/-- **`OpenFileOptions::read_to(stop)`**: … exactly the top-level elements with tag `≤` stop. -/
theorem read_to_spec (ts : Syntax) (dict : Tag → Option VR) (t : Elems) (stop : Tag)
    (h : canonical ts dict t = true) :
    readTokens ((encElems ts t).length + 2) (RState.new ts dict (encElems ts t)) = (t.tokens, none) ∧
    buildObjectS none (some stop) (t.tokens.length + 1) t.tokens [] =
      .ok ((toList t).filter fun e => !(stop.lt e.tag)) := by
  simp only [canonical, Bool.and_eq_true] at h
  obtain ⟨⟨hd, hc⟩, hs⟩ := h
  refine ⟨readTokens_ref ts dict t hd hc _ (by have := tokens_le_elems ts t; omega), ?_⟩
  have := buildS_elems ts dict none (some stop) t hc (t.tokens.length + 1) [] (Nat.lt_succ_self _)
    (by simpa using sorted_pairwise t hs)
  rw [this]
  simp [stopAt]

/-- when both are given and equal, `read_until` wins: the tag is excluded -/
theorem read_until_wins (stop tag : Tag) : stopAt (some stop) (some stop) tag = stopAt (some stop) none tag := by
  simp only [stopAt, Bool.or_false]
  cases h : Tag.le stop tag
  · simp only [Bool.false_or]
    cases h2 : Tag.lt stop tag
    · rfl
    · rw [lt_iff] at h2
      have : Tag.le stop tag = true := by rw [le_iff]; omega
      rw [this] at h; cases h
  · simp

end Dicom.C06
