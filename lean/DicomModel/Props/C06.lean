import DicomModel.Lemmas.Collector
import DicomModel.Props.C02
import DicomModel.Lemmas.LazyEager
import DicomModel.Lemmas.ReadUntil
import DicomModel.Lemmas.RefLazy
import DicomModel.Lemmas.Fragments
/-
C06 — the lazy reader and the collector agree with the eager reader.

Models: `Model/LazyReader.lean` (LazyDataSetReader::advance as a second state machine, peek, skip,
into_owned), `Model/Collector.lean` (collect_elements / collect_sequence / build_encapsulated_data of
the collector, read_dataset_up_to / to_end, read_next_fragment, read_basic_offset_table, build_object with
read_until / read_to), next to the eager reader `Model/Reader.lean` and `Model/Build.lean` (builder codec1).
-/
namespace Dicom.C06
open Dicom.Coll6

/-! ### lazy reader = eager reader -/
open Dicom.LE in
/-- **`lazy_eq_eager`** — for EVERY byte string (no validity assumption), every transfer syntax and
dictionary: run the eager reader (`readTokens`, the run `read_dataset`/`open_file` consume) and the lazy
reader with every token materialised (`advance` + `into_owned`). Unless the eager run reaches one of the
three places where the two readers differ BY DESIGN (`LE.Anom`: an item delimitation item outside any
sequence — eager ignores it, lazy reports `ItemEnd`; the input ending inside a pixel data sequence — eager
ends gracefully, lazy reports the error; an offset table item that is cut short or whose length is not a
multiple of 4), the two runs have the same number of tokens, every token is the same (an `OffsetTable` of the
eager reader is the `ItemValue` of the same bytes), and they end the same way (end of data, or corresponding
errors — the same error of the shared decoder / reader error type).
Proved as a lock-step simulation on the shared state fields (`LE.step_sim`), then by induction on the run. -/
theorem lazy_eq_eager (ts : Syntax) (dict : Tag → Option VR) (bs : Bytes) (fuel : Nat)
    (h : (eagerRunA fuel (RState.new ts dict bs)).2.2 = false) :
    readTokens fuel (RState.new ts dict bs) =
      ((eagerRunA fuel (RState.new ts dict bs)).1, (eagerRunA fuel (RState.new ts dict bs)).2.1) ∧
    ToksRel (readTokens fuel (RState.new ts dict bs)).1 (lazyTokens fuel (LState.new ts dict bs)).1 ∧
    EndRel (readTokens fuel (RState.new ts dict bs)).2 (lazyTokens fuel (LState.new ts dict bs)).2 := by
  have h1 := eagerRunA_eq fuel _ h
  have h2 := lazy_run_eq_eager_run fuel _ h
  refine ⟨h1, ?_, ?_⟩
  · rw [h1]; exact h2.1
  · rw [h1]; exact h2.2

/-- **on conforming input there is no proviso**: for the encoding of any canonical data set (any nesting
depth, explicit / undefined lengths, all VRs, encapsulated pixel data with empty or non-empty offset table
and zero-length fragments, the three uncompressed syntaxes) both the eager reader and the lazy reader with
every token materialised yield the data set's tokens and end without error (an offset table comes as the
item value of the same bytes from the lazy reader). No step of such a run is one of the designed
differences (`LE.AnomStep` is false at every step — part of `Ref.StepTo`). -/
theorem lazy_eq_eager_canonical (ts : Syntax) (dict : Tag → Option VR) (t : Elems)
    (h : Ref.canonical ts dict t = true) :
    readTokens ((Ref.encElems ts t).length + 2) (RState.new ts dict (Ref.encElems ts t)) = (t.tokens, none) ∧
    ∃ toks', lazyTokens ((Ref.encElems ts t).length + 2) (LState.new ts dict (Ref.encElems ts t)) = (toks', none) ∧
      LE.ToksRel t.tokens toks' := by
  simp only [Ref.canonical, Bool.and_eq_true] at h
  obtain ⟨⟨hd, hc⟩, _⟩ := h
  have hlen := Ref.tokens_le_elems ts t
  exact ⟨Ref.readTokens_ref ts dict t hd hc _ (by omega), Ref.lazyTokens_ref ts dict t hd hc _ (by omega)⟩

/-- the designed differences are real: an item delimitation item outside any sequence (Explicit VR LE) is
ignored by the eager reader and reported as `ItemEnd` by the lazy one, which then fails -/
theorem stray_delimiter_differs :
    readTokens 4 (RState.new .explicitLE (fun _ => none) [0xFE, 0xFF, 0x0D, 0xE0, 0, 0, 0, 0]) = ([], none) ∧
    lazyTokens 4 (LState.new .explicitLE (fun _ => none) [0xFE, 0xFF, 0x0D, 0xE0, 0, 0, 0, 0]) =
      ([.itemEnd], some (.err .eof)) := by
  constructor <;> decide +kernel

/-! ### collector portions -/

/-- reading the top-level data set in portions: `read_dataset_up_to(t)` for each stop tag in turn, then
`read_dataset_to_end`; every call continues where the previous one stopped (the elements are accumulated;
`collect_acc` below: accumulating = concatenating the portions) -/
inductive Portions : List Tag → Coll → List Elem → List Elem → Coll → Prop
  | toEnd {c c' : Coll} {acc es : List Elem} (f : Nat) :
      collectElements f false none none c acc = .ok (es, c') → Portions [] c acc es c'
  | upTo {t : Tag} {ts : List Tag} {c c1 c' : Coll} {acc es1 es : List Elem} (f : Nat) :
      collectElements f false (some t) none c acc = .ok (es1, c1) → Portions ts c1 es1 es c' →
      Portions (t :: ts) c acc es c'

/-- **Reading in portions split at arbitrary tags yields the whole read**: whenever reading the data set
to its end succeeds, then for ANY list of stop tags (ascending or not) every `read_dataset_up_to` call and the
final `read_dataset_to_end` succeed, and together they collect exactly the same elements, in the same
order, and leave the collector in the same state. For every byte string (no validity assumption). -/
theorem collector_portions (stops : List Tag) : ∀ (fuel : Nat) (c : Coll) (acc es : List Elem) (c' : Coll),
    collectElements fuel false none none c acc = .ok (es, c') → Portions stops c acc es c' := by
  induction stops with
  | nil => intro fuel c acc es c' h; exact .toEnd fuel h
  | cons t ts ih =>
    intro fuel c acc es c' h
    obtain ⟨es1, c1, f2, h1, h2⟩ := split_whole (some t) none none none (fun tag hx => by simp [stopAt] at hx)
      fuel c acc es c' h
    exact .upTo fuel h1 (ih f2 c1 es1 es c' h2)

/-- a portion read up to `t1` followed by a read up to a later tag `t2` is the read up to `t2` -/
theorem collector_portions_two (t1 t2 : Tag) (hle : Tag.le t1 t2 = true) (fuel : Nat) (c : Coll)
    (acc es : List Elem) (c2 : Coll) (h : collectElements fuel false (some t2) none c acc = .ok (es, c2)) :
    ∃ es1 c1 f2, collectElements fuel false (some t1) none c acc = .ok (es1, c1) ∧
      collectElements f2 false (some t2) none c1 es1 = .ok (es, c2) := by
  refine split_whole (some t1) none (some t2) none ?_ fuel c acc es c2 h
  intro tag hx
  simp only [stopAt, Bool.or_false, Tag.le, Bool.not_eq_true', Tag.lt] at hx hle ⊢
  simp only [Bool.or_eq_false_iff, Bool.and_eq_false_imp, decide_eq_false_iff_not, beq_iff_eq,
    Nat.not_lt] at *
  omega

/-- accumulating into `acc` is prepending `acc` to what is collected from scratch: the portions of the
real API (each call fills a fresh vector that is then `extend`ed into an object) concatenate -/
theorem collect_acc : ∀ (fuel : Nat) (inItem : Bool) (ru rt : Option Tag) (c : Coll) (acc : List Elem),
    collectElements fuel inItem ru rt c acc =
      match collectElements fuel inItem ru rt c [] with
      | .ok (es, c') => .ok (acc ++ es, c')
      | .error e => .error e := by
  intro fuel
  induction fuel with
  | zero => intro i ru rt c acc; simp [collectElements]
  | succ k ih =>
    intro i ru rt c acc
    rw [collectElements, collectElements]
    rcases c.rd.peek with ⟨r, rd1⟩
    cases r with
    | error e => rfl
    | ok o =>
      cases o with
      | none => simp
      | some tok =>
        simp only
        by_cases hie : tok = .itemEnd
        · cases i <;> simp [hie]
        · simp only [hie, if_false]
          cases tokTag tok with
          | none => rfl
          | some tag =>
            simp only
            by_cases hs : stopAt ru rt tag = true
            · simp [hs]
            · simp only [hs, Bool.false_eq_true, if_false]
              cases collectOne k tok { c with rd := rd1 } with
              | error e => rfl
              | ok p =>
                obtain ⟨e, c'⟩ := p
                simp only
                rw [ih i ru rt c' (acc ++ [e]), ih i ru rt c' ([] ++ [e])]
                cases collectElements k i ru rt c' [] with
                | error e => rfl
                | ok q => simp [List.append_assoc]

/-! ### read_until / read_to -/
open Dicom.Ref

/-- **`OpenFileOptions::read_until(stop)`**: on the encoding of a canonical data set (ascending tags; any
nesting, explicit or undefined lengths, pixel data) the eager reader followed by `build_object(…,
read_until = stop)` yields exactly the top-level elements with tag `<` stop, in order. -/
theorem read_until_spec (ts : Syntax) (dict : Tag → Option VR) (t : Elems) (stop : Tag)
    (h : canonical ts dict t = true) :
    readTokens ((encElems ts t).length + 2) (RState.new ts dict (encElems ts t)) = (t.tokens, none) ∧
    buildObjectS (some stop) none (t.tokens.length + 1) t.tokens [] =
      .ok ((toList t).filter fun e => e.tag.lt stop) := by
  simp only [canonical, Bool.and_eq_true] at h
  obtain ⟨⟨hd, hc⟩, hs⟩ := h
  refine ⟨readTokens_ref ts dict t hd hc _ (by have := tokens_le_elems ts t; omega), ?_⟩
  have := buildS_elems ts dict (some stop) none t hc (t.tokens.length + 1) [] (Nat.lt_succ_self _)
    (by simpa using sorted_pairwise t hs)
  rw [this]
  simp [stopAt, Tag.le]

/-- **`OpenFileOptions::read_to(stop)`**: … exactly the top-level elements with tag `≤` stop. -/
theorem read_to_spec (ts : Syntax) (dict : Tag → Option VR) (t : Elems) (stop : Tag)
    (h : canonical ts dict t = true) :
    readTokens ((encElems ts t).length + 2) (RState.new ts dict (encElems ts t)) = (t.tokens, none) ∧
    buildObjectS none (some stop) (t.tokens.length + 1) t.tokens [] =
      .ok ((toList t).filter fun e => !(stop.lt e.tag)) := by
  simp only [canonical, Bool.and_eq_true] at h
  obtain ⟨⟨hd, hc⟩, hs⟩ := h
  refine ⟨readTokens_ref ts dict t hd hc _ (by have := tokens_le_elems ts t; omega), ?_⟩
  have := buildS_elems ts dict none (some stop) t hc (t.tokens.length + 1) [] (Nat.lt_succ_self _)
    (by simpa using sorted_pairwise t hs)
  rw [this]
  simp [stopAt]

/-- when both are given and equal, `read_until` wins: the tag is excluded -/
theorem read_until_wins (stop tag : Tag) : stopAt (some stop) (some stop) tag = stopAt (some stop) none tag := by
  simp only [stopAt, Bool.or_false]
  cases h : Tag.le stop tag
  · simp only [Bool.false_or]
    cases h2 : Tag.lt stop tag
    · rfl
    · rw [lt_iff] at h2
      have : Tag.le stop tag = true := by rw [le_iff]; omega
      rw [this] at h; cases h
  · simp

/-! ### collector = whole file, fragments one by one (repaired code: fixes 1b02116, 4dbd2d8) -/
open Dicom.CW in
/-- **the collector yields the same elements as opening the whole file**: for the encoding of any canonical
data set (all depths, explicit / undefined lengths, all VRs, encapsulated pixel data with empty or non-empty
offset table and zero-length fragments, three syntaxes) the whole-file read (`readDataset` = eager reader +
`build_object`) returns the data set `t`, and `read_dataset_to_end` of the collector returns the same
elements in the same order — `cnElems t` is `t` with the recorded item lengths forgotten, which the collector
does not keep and which object equality of dicom-rs ignores. -/
theorem collector_eq_whole (ts : Syntax) (dict : Tag → Option VR) (t : Elems) (h : Ref.canonical ts dict t = true) :
    readDataset ts dict (Ref.encElems ts t) = .ok t ∧
    ∃ c', (Coll.new ts dict (Ref.encElems ts t)).readDatasetToEnd ((Ref.encElems ts t).length + 2) =
      .ok (Ref.toList (cnElems t), c') := by
  have hw := C02.read_ref ts dict t h
  simp only [Ref.canonical, Bool.and_eq_true] at h
  exact ⟨hw, collector_ref ts dict t h.1.1 h.1.2⟩

open Dicom.CW in
/-- … and so do the portions, split at ANY stop tags: `read_dataset_up_to` for each tag in turn, then
`read_dataset_to_end`, together collect exactly the elements of the whole file -/
theorem collector_portions_eq_whole (ts : Syntax) (dict : Tag → Option VR) (t : Elems) (stops : List Tag)
    (h : Ref.canonical ts dict t = true) :
    ∃ c', Portions stops (Coll.new ts dict (Ref.encElems ts t)) [] (Ref.toList (cnElems t)) c' := by
  obtain ⟨c', hc⟩ := (collector_eq_whole ts dict t h).2
  exact ⟨c', collector_portions stops _ _ [] _ c' hc⟩

open Dicom.CW in
/-- **`fragments_one_by_one`**: for the encoding of a canonical data set `pre ++ [Pixel Data] ++ post` with an
encapsulated Pixel Data element (offset table `bot`, fragments `frags`) and no pixel data at any depth before it:
 * the whole-file read returns the data set, hence Pixel Data with exactly `bot` and `frags`;
 * `read_basic_offset_table` returns `4·|bot|` and the same table `bot` — also the empty one — and then
   `read_next_fragment` returns the same fragments one per call, in order, each with its length, zero-length
   ones included, then `None` for ever (`FragCalls`; state `PixelDataEnd`);
 * without the table call the first `read_next_fragment` returns the table's bytes, the next calls the fragments. -/
theorem fragments_one_by_one (ts : Syntax) (dict : Tag → Option VR) (pre post : Elems) (bot : List Nat)
    (frags : List Bytes)
    (h : Ref.canonical ts dict (appendElems pre (.cons (.pix bot frags) post)) = true)
    (hno : ∀ t ∈ pre.tokens, pixelStartTok t = false) :
    let t := appendElems pre (.cons (.pix bot frags) post)
    let fuel := (Ref.encElems ts t).length + 4
    readDataset ts dict (Ref.encElems ts t) = .ok t ∧
    (∃ c1, (Coll.new ts dict (Ref.encElems ts t)).readBasicOffsetTable fuel = .ok (some (4 * bot.length, bot), c1) ∧
        FragCalls fuel c1 frags) ∧
    (∃ c1, (Coll.new ts dict (Ref.encElems ts t)).readNextFragment fuel =
        .ok (some (4 * bot.length, bot.flatMap (enc32 ts.bigEndian)), c1) ∧ FragCalls fuel c1 frags) := by
  intro t fuel
  have hw := C02.read_ref ts dict t h
  simp only [Ref.canonical, Bool.and_eq_true] at h
  exact ⟨hw, fragments_ref ts dict pre post bot frags h.1.1 h.1.2 hno⟩

/-- once the pixel data has ended every further `read_next_fragment` returns `None` -/
theorem no_fragment_after_end (fuel : Nat) (c : Coll) (h : c.state = .pixelDataEnd) :
    c.readNextFragment fuel = .ok (none, c) := CW.after_end fuel c h

/-! ### regression witnesses of the three repaired collector defects (fixes 1b02116, 4dbd2d8)

Before the fixes `fragments_one_by_one` and "collector = whole file" were false; the three counterexamples
found by the correspondence run, replayed on the models of the repaired code. -/

/-- tokens of the elements a read returned (comparison form) -/
def elemsTokens (r : Except CErr (List Elem × Coll)) : Option (List Token) :=
  match r with
  | .ok (es, _) => some (elemsOfList es).tokens
  | .error _ => none

def wholeTokens (r : Except RdErr Elems) : Option (List Token) :=
  match r with
  | .ok es => some es.tokens
  | .error _ => none

/-- Explicit VR LE: Pixel Data, offset table [0], one zero-length fragment -/
def witnessZeroFragment : Bytes :=
  [0xe0, 0x7f, 0x10, 0x00, 0x4f, 0x42, 0, 0, 0xff, 0xff, 0xff, 0xff,
   0xfe, 0xff, 0x00, 0xe0, 4, 0, 0, 0, 0, 0, 0, 0,
   0xfe, 0xff, 0x00, 0xe0, 0, 0, 0, 0,
   0xfe, 0xff, 0xdd, 0xe0, 0, 0, 0, 0]

/-- was finding `collector-drops-zero-length-fragment`: the collector keeps the empty fragment like the
whole-file read -/
theorem collector_drops_zero_length_fragment_witness :
    wholeTokens (readDataset .explicitLE (fun _ => none) witnessZeroFragment) =
      some (Elems.tokens (.cons (.pix [0] [[]]) .nil)) ∧
    elemsTokens ((Coll.new .explicitLE (fun _ => none) witnessZeroFragment).readDatasetToEnd 42) =
      some (Elems.tokens (.cons (.pix [0] [[]]) .nil)) := by
  constructor <;> decide +kernel

/-- Explicit VR LE: Pixel Data, EMPTY offset table, one fragment 01 02 03 04 -/
def witnessEmptyTable : Bytes :=
  [0xe0, 0x7f, 0x10, 0x00, 0x4f, 0x42, 0, 0, 0xff, 0xff, 0xff, 0xff,
   0xfe, 0xff, 0x00, 0xe0, 0, 0, 0, 0,
   0xfe, 0xff, 0x00, 0xe0, 4, 0, 0, 0, 1, 2, 3, 4,
   0xfe, 0xff, 0xdd, 0xe0, 0, 0, 0, 0]

/-- was finding `collector-empty-offset-table-takes-first-fragment` -/
theorem collector_empty_offset_table_witness :
    wholeTokens (readDataset .explicitLE (fun _ => none) witnessEmptyTable) =
      some (Elems.tokens (.cons (.pix [] [[1, 2, 3, 4]]) .nil)) ∧
    elemsTokens ((Coll.new .explicitLE (fun _ => none) witnessEmptyTable).readDatasetToEnd 42) =
      some (Elems.tokens (.cons (.pix [] [[1, 2, 3, 4]]) .nil)) := by
  constructor <;> decide +kernel

/-- Explicit VR LE: Pixel Data (empty table, fragment 01 02) followed by (FFFC,FFFC) OB 09 09 -/
def witnessTrailing : Bytes :=
  [0xe0, 0x7f, 0x10, 0x00, 0x4f, 0x42, 0, 0, 0xff, 0xff, 0xff, 0xff,
   0xfe, 0xff, 0x00, 0xe0, 0, 0, 0, 0,
   0xfe, 0xff, 0x00, 0xe0, 2, 0, 0, 0, 1, 2,
   0xfe, 0xff, 0xdd, 0xe0, 0, 0, 0, 0,
   0xfc, 0xff, 0xfc, 0xff, 0x4f, 0x42, 0, 0, 2, 0, 0, 0, 9, 9]

/-- `read_next_fragment` called `n` times: the results -/
def fragmentCalls : Nat → Coll → List (Option (Nat × Bytes))
  | 0, _ => []
  | n + 1, c =>
    match c.readNextFragment 64 with
    | .ok (r, c') => r :: fragmentCalls n c'
    | .error _ => []

/-- was finding `fragment-after-pixeldata-end`: after the last fragment there is nothing, again and again -/
theorem fragment_after_pixeldata_end_witness :
    fragmentCalls 4 (Coll.new .explicitLE (fun _ => none) witnessTrailing) =
      [some (0, []), some (2, [1, 2]), none, none] := by
  decide +kernel

end Dicom.C06
