import DicomModel.Model.NativeFrames
/-
C21 — Native pixel data frames are extracted exactly.

Model: `Dicom.Native.decodeWhole / decodeFrame / frameData` (pixeldata/src/lib.rs, native arms).
A native image is *well formed* when its stored value has at least the exact number of bytes
(`Img.exactBytes`; real files pad the value to even length, and the pad byte is not returned
as a sample — finding `padded-odd-length-whole-len`, repaired).
-/
namespace Dicom.Native

theorem bitsOf_length (b : Nat) : (bitsOf b).length = 8 := by simp [bitsOf]

theorem expandBits_getElem?_aux : ∀ (bs : Bytes) (q r : Nat), r < 8 →
    (expandBits bs)[q * 8 + r]? = bs[q]?.map (fun b => b / 2 ^ r % 2 * 255) := by
  intro bs
  induction bs with
  | nil => intro q r _; simp [expandBits]
  | cons b rest ih =>
    intro q r hr
    simp only [expandBits, List.flatMap_cons] at ih ⊢
    cases q with
    | zero =>
      rw [List.getElem?_append_left (by simp [bitsOf_length]; omega)]
      simp [bitsOf, hr]
    | succ q =>
      rw [List.getElem?_append_right (by simp [bitsOf_length]; omega)]
      have : (q + 1) * 8 + r - (bitsOf b).length = q * 8 + r := by simp [bitsOf_length]; omega
      rw [this, ih q r hr]; simp

/-- sample `i` of the expansion is bit `i mod 8` (least significant first) of byte `i / 8`,
as 0 or 255 -/
theorem expandBits_getElem? (bs : Bytes) (i : Nat) :
    (expandBits bs)[i]? = bs[i / 8]?.map (fun b => b / 2 ^ (i % 8) % 2 * 255) := by
  have h := expandBits_getElem?_aux bs (i / 8) (i % 8) (Nat.mod_lt _ (by omega))
  have e : i / 8 * 8 + i % 8 = i := by omega
  rw [e] at h; exact h

theorem expandBits_length (bs : Bytes) : (expandBits bs).length = 8 * bs.length := by
  induction bs with
  | nil => rfl
  | cons b r ih => simp only [expandBits, List.flatMap_cons, List.length_append, bitsOf_length, List.length_cons] at ih ⊢; omega

theorem getRange_some {data : Bytes} {a b : Nat} (hab : a ≤ b) (hb : b ≤ data.length) :
    getRange data a b = some ((data.drop a).take (b - a)) := by
  simp [getRange, hab, hb]

theorem slice_getElem? (data : Bytes) (a n j : Nat) (hj : j < n) :
    ((data.drop a).take n)[j]? = data[a + j]? := by
  rw [List.getElem?_take_of_lt hj, List.getElem?_drop]

/-- the bit-extraction core shared by the whole-object and per-frame 1-bit arms -/
theorem onebit_window (data : Bytes) (fb n : Nat) (hlen : (fb + n + 7) / 8 ≤ data.length) (k : Nat) (hk : k < n) :
    ((expandBits ((data.drop (fb / 8)).take ((fb + n + 7) / 8 - fb / 8))).drop (fb % 8))[k]?
      = some (bitSample data (fb + k)) := by
  rw [List.getElem?_drop, expandBits_getElem?, slice_getElem? _ _ _ _ (by omega)]
  have e1 : fb / 8 + (fb % 8 + k) / 8 = (fb + k) / 8 := by omega
  have e2 : (fb % 8 + k) % 8 = (fb + k) % 8 := by omega
  have hlt : (fb + k) / 8 < data.length := by omega
  rw [e1, e2, List.getElem?_eq_getElem hlt]
  simp [bitSample, List.getD_eq_getElem?_getD, List.getElem?_eq_getElem hlt]

/-- **frame_onebit**: frame `f` of a 1-bit image is bits `f·N … f·N+N-1` of the continuously
packed stream (bit `(f·N+k) mod 8` of byte `(f·N+k) / 8`), each expanded to 0 or 255 — also when
`N` is not a multiple of 8, i.e. when the frame starts and ends inside a byte. -/
theorem frame_onebit (I : Img) (data : Bytes) (f : Nat) (hb : I.bits = 1)
    (hf : f < I.frames) (hlen : I.exactBytes ≤ data.length) :
    decodeFrame I data f = some (oneBitFrame I data f) := by
  have hmul : I.frameSamples * f + I.frameSamples ≤ I.frameSamples * I.frames := by
    rw [← Nat.mul_succ]; exact Nat.mul_le_mul_left _ hf
  simp only [Img.exactBytes, hb, if_true] at hlen
  have hend : (I.frameSamples * f + I.frameSamples + 7) / 8 ≤ data.length := by omega
  simp only [decodeFrame, hb, if_true]
  rw [getRange_some (by omega) hend]
  simp only [Option.some.injEq]
  apply List.ext_getElem?
  intro k
  by_cases hk : k < I.frameSamples
  · rw [List.getElem?_take_of_lt hk, onebit_window data _ _ hend k hk]
    simp [oneBitFrame, hk, Nat.mul_comm]
  · rw [List.getElem?_eq_none (by simp; omega), List.getElem?_eq_none (by simp [oneBitFrame]; omega)]

/-- **whole_onebit**: whole-object decoding of a 1-bit image yields exactly `N·frames` samples, sample
`i` being bit `i mod 8` of byte `i / 8` expanded to 0/255 — no bits are dropped or inserted at
frame boundaries. -/
theorem whole_onebit (I : Img) (data : Bytes) (hb : I.bits = 1)
    (hlen : I.exactBytes ≤ data.length) :
    decodeWhole I data = some ((List.range (I.frameSamples * I.frames)).map (bitSample data)) := by
  simp only [Img.exactBytes, hb, if_true] at hlen
  simp only [decodeWhole, hb, if_true]
  rw [getRange_some (Nat.zero_le _) hlen]
  simp only [Option.some.injEq]
  apply List.ext_getElem?
  intro k
  by_cases hk : k < I.frameSamples * I.frames
  · rw [List.getElem?_take_of_lt hk]
    have h := onebit_window data 0 (I.frameSamples * I.frames) (by simpa using hlen) k hk
    simp only [Nat.zero_add, Nat.zero_div, Nat.zero_mod, List.drop_zero, Nat.sub_zero] at h ⊢
    rw [h]; simp [hk]
  · rw [List.getElem?_eq_none (by simp; omega), List.getElem?_eq_none (by simp; omega)]

theorem bytesPerSample_one (I : Img) (hb : I.bits = 1) : I.bytesPerSample = 1 := by
  simp [Img.bytesPerSample, hb]

/-- `frame_data` of the whole-object result of a 1-bit image is the per-frame result -/
theorem slice_onebit (I : Img) (data : Bytes) (f : Nat) (hb : I.bits = 1) (hf : f < I.frames) :
    frameData I ((List.range (I.frameSamples * I.frames)).map (bitSample data)) f
      = some (oneBitFrame I data f) := by
  have hmul : I.frameSamples * f + I.frameSamples ≤ I.frameSamples * I.frames := by
    rw [← Nat.mul_succ]; exact Nat.mul_le_mul_left _ hf
  have hl : I.rows * I.cols * I.spp * I.bytesPerSample = I.frameSamples := by
    simp [bytesPerSample_one I hb, Img.frameSamples]
  simp only [frameData, hl, List.length_map, List.length_range]
  rw [if_neg (by omega)]
  simp only [Option.some.injEq]
  apply List.ext_getElem?
  intro k
  by_cases hk : k < I.frameSamples
  · rw [List.getElem?_take_of_lt hk, List.getElem?_drop]
    have : I.frameSamples * f + k < I.frameSamples * I.frames := by omega
    rw [List.getElem?_map, List.getElem?_range this]
    simp [oneBitFrame, hk, Nat.mul_comm]
  · rw [List.getElem?_eq_none (by simp; omega), List.getElem?_eq_none (by simp [oneBitFrame]; omega)]

/-- **frame_bytes**: for 8/16-bit images frame `f` is the corresponding part of the stored data -/
theorem frame_bytes (I : Img) (data : Bytes) (f : Nat) (hb : I.bits ≠ 1) (hf : f < I.frames)
    (hlen : I.exactBytes ≤ data.length) :
    decodeFrame I data f = some (byteFrame I data f) := by
  have hmul : I.frameSamples * I.bytesPerSample * f + I.frameSamples * I.bytesPerSample
      ≤ I.frameSamples * I.bytesPerSample * I.frames := by
    rw [← Nat.mul_succ]; exact Nat.mul_le_mul_left _ hf
  simp only [Img.exactBytes, hb, if_false] at hlen
  simp only [decodeFrame, hb, if_false]
  rw [getRange_some (by omega) (by omega)]
  simp [byteFrame, Nat.mul_comm]

theorem slice_bytes (I : Img) (data : Bytes) (f : Nat) (hf : f < I.frames)
    (hlen : I.frameSamples * I.bytesPerSample * I.frames ≤ data.length) :
    frameData I data f = some (byteFrame I data f) := by
  have hmul : I.frameSamples * I.bytesPerSample * f + I.frameSamples * I.bytesPerSample
      ≤ I.frameSamples * I.bytesPerSample * I.frames := by
    rw [← Nat.mul_succ]; exact Nat.mul_le_mul_left _ hf
  have hl : I.rows * I.cols * I.spp * I.bytesPerSample = I.frameSamples * I.bytesPerSample := rfl
  simp only [frameData, hl]
  rw [if_neg (by omega)]
  simp [byteFrame, Nat.mul_comm]

/-- a well-formed native image: the stored value has at least the exact number of bytes
(a trailing pad byte, or anything else beyond the last frame, is allowed) -/
def WellFormed (I : Img) (data : Bytes) : Prop := I.exactBytes ≤ data.length

theorem decodeWhole_bytes (I : Img) (data : Bytes) (hb : I.bits ≠ 1) (hlen : I.exactBytes ≤ data.length) :
    decodeWhole I data = some (data.take (I.frameSamples * I.bytesPerSample * I.frames)) := by
  simp only [Img.exactBytes, hb, if_false] at hlen
  simp only [decodeWhole, hb, if_false]
  rw [getRange_some (Nat.zero_le _) hlen]; simp

/-- **whole_len**: the whole-object result has frames × frame-size samples -/
theorem whole_len (I : Img) (data : Bytes) (wf : WellFormed I data) :
    ∃ w, decodeWhole I data = some w ∧ w.length = I.frameSamples * I.bytesPerSample * I.frames := by
  by_cases hb : I.bits = 1
  · exact ⟨_, whole_onebit I data hb wf, by simp [bytesPerSample_one I hb]⟩
  · refine ⟨_, decodeWhole_bytes I data hb wf, ?_⟩
    have : I.frameSamples * I.bytesPerSample * I.frames ≤ data.length := by
      simpa [WellFormed, Img.exactBytes, hb] using wf
    simp [List.length_take, Nat.min_eq_left this]

/-- **frame_exact**: every frame's samples equal the corresponding part of the stored pixel data
(1-bit: the bits `f·N …`, expanded to 0/255, continuous across frame boundaries) -/
theorem frame_exact (I : Img) (data : Bytes) (wf : WellFormed I data) (f : Nat) (hf : f < I.frames) :
    decodeFrame I data f = some (expectedFrame I data f) := by
  by_cases hb : I.bits = 1
  · simp only [expectedFrame, hb, if_true]
    exact frame_onebit I data f hb hf wf
  · simp only [expectedFrame, hb, if_false]
    exact frame_bytes I data f hb hf wf

/-- **frame_eq_slice**: decoding a single frame yields the same samples as slicing that frame
(`frame_data`) from the whole-object result -/
theorem frame_eq_slice (I : Img) (data : Bytes) (wf : WellFormed I data) (f : Nat) (hf : f < I.frames)
    (w : Bytes) (hw : decodeWhole I data = some w) :
    frameData I w f = decodeFrame I data f := by
  rw [frame_exact I data wf f hf]
  by_cases hb : I.bits = 1
  · rw [whole_onebit I data hb wf] at hw
    simp only [Option.some.injEq] at hw
    rw [← hw, slice_onebit I data f hb hf]
    simp [expectedFrame, hb]
  · have hlen : I.frameSamples * I.bytesPerSample * I.frames ≤ data.length := by
      simpa [WellFormed, Img.exactBytes, hb] using wf
    rw [decodeWhole_bytes I data hb wf] at hw
    simp only [Option.some.injEq] at hw
    simp only [expectedFrame, hb, if_false]
    rw [← hw, slice_bytes I _ f hf (by simp [List.length_take, Nat.min_eq_left hlen])]
    -- a frame of the truncated data is the same frame of the data
    have hmul : I.frameSamples * I.bytesPerSample * f + I.frameSamples * I.bytesPerSample
        ≤ I.frameSamples * I.bytesPerSample * I.frames := by
      rw [← Nat.mul_succ]; exact Nat.mul_le_mul_left _ hf
    simp only [byteFrame, Option.some.injEq]
    apply List.ext_getElem?
    intro k
    by_cases hk : k < I.frameSamples * I.bytesPerSample
    · rw [List.getElem?_take_of_lt hk, List.getElem?_take_of_lt hk, List.getElem?_drop, List.getElem?_drop,
        List.getElem?_take_of_lt (by rw [Nat.mul_comm f]; omega)]
    · rw [List.getElem?_eq_none (by simp; omega), List.getElem?_eq_none (by simp; omega)]

/-- **onebit_sample**: sample `k` of frame `f` of a 1-bit image is bit `(f·N + k) mod 8` of byte
`(f·N + k) / 8`, expanded to 0 or 255 -/
theorem onebit_sample (I : Img) (data : Bytes) (hb : I.bits = 1)
    (hlen : I.exactBytes ≤ data.length) (f : Nat) (hf : f < I.frames) (k : Nat) (hk : k < I.frameSamples)
    (fr : Bytes) (hfr : decodeFrame I data f = some fr) :
    fr[k]? = some (data.getD ((f * I.frameSamples + k) / 8) 0 / 2 ^ ((f * I.frameSamples + k) % 8) % 2 * 255) := by
  rw [frame_onebit I data f hb hf hlen] at hfr
  simp only [Option.some.injEq] at hfr
  rw [← hfr]; simp [oneBitFrame, hk, bitSample]

/-! ### Non-vacuity and the excluded points -/

/-- defect #12's input: 1-bit 3×3, 2 frames, 18 bits in 3 bytes — well formed; the frames are
bit-continuous: frame 1 starts at bit 1 of byte 1 -/
example : WellFormed ⟨1, 1, 3, 3, 2⟩ [0xff, 0x01, 0x02] := by unfold WellFormed; decide

example : decodeFrame ⟨1, 1, 3, 3, 2⟩ [0xff, 0x01, 0x02] 1 = some [0, 0, 0, 0, 0, 0, 0, 0, 255] := by decide

example : decodeWhole ⟨1, 1, 3, 3, 2⟩ [0xff, 0x01, 0x02]
    = some [255, 255, 255, 255, 255, 255, 255, 255, 255, 0, 0, 0, 0, 0, 0, 0, 0, 255] := by decide

/-- 1-bit with 3 samples per pixel: all six samples of the two pixels are produced -/
example : decodeWhole ⟨1, 3, 1, 2, 1⟩ [0x2d] = some [255, 0, 255, 255, 0, 255] := by decide

/-- finding `padded-odd-length-whole-len`, repaired: an 8-bit 3×3 frame stored in a file carries a
pad byte, which is not returned -/
example : decodeWhole ⟨8, 1, 3, 3, 1⟩ [1, 2, 3, 4, 5, 6, 7, 8, 9, 0] = some [1, 2, 3, 4, 5, 6, 7, 8, 9] := by
  decide

end Dicom.Native
