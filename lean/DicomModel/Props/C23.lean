import DicomModel.Model.Json
import DicomModel.Lemmas.Json
import DicomModel.Props.C24
/-
C23 — DICOM JSON round trip; deserialising any JSON text never panics.

Part A (`from_value_no_panic`, `from_str_no_panic`): for EVERY JSON tree (any shape, any depth,
duplicate members, conflicting fields, bad tags, bad VRs …) whose strings are UTF-8, the model of
`dicom_json::from_value` / `from_str` returns `ok` or `err`, never `panic`.  The model keeps the
panic sites of the code (`&s[1..]`, `split_at(4)`, `.expect("failed to parse tag part")`, the
final `unreachable!()`), and the theorems show that they are not reachable in the repaired code.
Part B (`json_rt`, `json_rt_text`): every well-typed data set without encapsulated pixel data
comes back from `to_value`/`from_value` and `to_string`/`from_str` as `normDs ds` — exactly the
documented normalisations — by structural induction over nested sequences of any depth.
-/
set_option linter.unusedSimpArgs false
set_option linter.unusedVariables false
namespace Dicom.Json
open Dicom.Flt

/-! ### outcomes -/

theorem bind_ne_panic {α β : Type} {x : Outcome α} {f : α → Outcome β}
    (hx : x ≠ .panic) (hf : ∀ a, x = .ok a → f a ≠ .panic) : x.bind f ≠ .panic := by
  cases x with
  | ok a => exact hf a rfl
  | err => simp
  | panic => exact absurd rfl hx

theorem map_ne_panic {α β : Type} {x : Outcome α} {f : α → β}
    (hx : x ≠ .panic) : x.map f ≠ .panic := by
  cases x <;> simp_all

theorem ensure_ne_panic (c : Bool) : ensure c ≠ .panic := by
  unfold ensure; split <;> simp

theorem ofOption_ne_panic {α : Type} (o : Option α) : ofOption o ≠ .panic := by
  cases o <;> simp [ofOption]

theorem mapM_ne_panic {α β : Type} (f : α → Outcome β) :
    ∀ (l : List α), (∀ a ∈ l, f a ≠ .panic) → mapM f l ≠ .panic
  | [], _ => by simp [mapM]
  | a :: r, h => by
    simp only [mapM]
    refine bind_ne_panic (h a (by simp)) fun b _ => map_ne_panic ?_
    exact mapM_ne_panic f r fun x hx => h x (by simp [hx])

/-! ### `Tag::from_str` -/

theorem utf8ok_head {b : Nat} {r : Bytes} (h : utf8ok (b :: r) = true) : isCont b = false := by
  unfold utf8ok at h
  unfold isCont
  split at h
  · simp; try omega
  · split at h
    · simp_all <;> omega
    · split at h
      · simp_all <;> omega
      · split at h
        · simp_all <;> omega
        · simp at h

theorem utf8ok_tail_ascii {b : Nat} {r : Bytes} (hb : b < 128) (h : utf8ok (b :: r) = true) :
    utf8ok r = true := by
  unfold utf8ok at h
  simpa [hb] using h

/-- slicing one byte off after an ASCII byte is on a char boundary -/
theorem sliceFrom_one {b : Nat} {r : Bytes} (hb : b < 128) (h : utf8ok (b :: r) = true) :
    sliceFrom (b :: r) 1 = .ok r := by
  have hr := utf8ok_tail_ascii hb h
  unfold sliceFrom isCharBoundary
  cases r with
  | nil => simp
  | cons c t =>
    have := utf8ok_head hr
    simp [this]

theorem parseHex_some : ∀ (l : Bytes) (acc : Nat), l.all isHexDigit = true →
    ∃ n, l.foldl (fun acc b => match acc, hexDigitVal b with
      | some a, some d => some (a * 16 + d)
      | _, _ => none) (some acc) = some n
  | [], acc, _ => ⟨acc, rfl⟩
  | b :: r, acc, h => by
    simp only [List.all_cons, Bool.and_eq_true] at h
    have hd : ∃ d, hexDigitVal b = some d := by
      unfold isHexDigit at h
      unfold hexDigitVal
      split
      · exact ⟨_, rfl⟩
      · split
        · exact ⟨_, rfl⟩
        · split
          · exact ⟨_, rfl⟩
          · simp_all
    obtain ⟨d, hd⟩ := hd
    simp only [List.foldl_cons, hd]
    exact parseHex_some r _ h.2

theorem isCharBoundary_four {s : Bytes} (h : isCharBoundary s 4 = true) : 4 ≤ s.length := by
  unfold isCharBoundary at h
  simp at h
  rcases h with h | h
  · omega
  · cases hs : s[4]? with
    | none => simp [hs] at h
    | some b =>
      have := List.getElem?_eq_some_iff.mp hs
      obtain ⟨hl, _⟩ := this
      omega

/-- `parse_tag_part` never panics; when it succeeds the input is four ASCII hex digits followed
by the rest -/
theorem parseTagPart_spec (s : Bytes) :
    parseTagPart s ≠ .panic ∧
    ∀ n rest, parseTagPart s = .ok (n, rest) →
      s = s.take 4 ++ rest ∧ (s.take 4).length = 4 ∧ (s.take 4).all isHexDigit = true := by
  unfold parseTagPart
  by_cases hb : isCharBoundary s 4 = true
  · have hl := isCharBoundary_four hb
    simp only [hb, ensure, if_true, Outcome.bind_ok, splitAtB]
    by_cases hh : (s.take 4).all isHexDigit = true
    · have hne : s.take 4 ≠ [] := by
        intro e
        have : (s.take 4).length = 4 := by simp; omega
        rw [e] at this; simp at this
      obtain ⟨n, hn⟩ := parseHex_some (s.take 4) 0 hh
      have hp : parseHex (s.take 4) = some n := by
        unfold parseHex
        split
        · rename_i heq; exact absurd heq hne
        · exact hn
      simp only [hh, if_true, Outcome.bind_ok, hp, expect, Outcome.map_ok]
      refine ⟨by simp, ?_⟩
      intro n' rest h
      simp only [Outcome.ok.injEq, Prod.mk.injEq] at h
      refine ⟨?_, ?_, by simp [hh]⟩
      · rw [← h.2]; simp
      · simp; omega
    · simp [hh]
  · simp [hb, ensure]

theorem utf8ok_drop_ascii : ∀ (k : Nat) (s : Bytes), utf8ok s = true →
    (s.take k).all isHexDigit = true → utf8ok (s.drop k) = true
  | 0, s, h, _ => by simpa using h
  | k + 1, [], h, _ => by simp [utf8ok]
  | k + 1, b :: r, h, hh => by
    simp only [List.take_succ_cons, List.all_cons, Bool.and_eq_true] at hh
    have hb : b < 128 := by
      have := hh.1
      unfold isHexDigit at this
      simp at this
      omega
    simp only [List.drop_succ_cons]
    exact utf8ok_drop_ascii k r (utf8ok_tail_ascii hb h) hh.2

theorem parseTagPart_rest_utf8 {s : Bytes} {n : Nat} {rest : Bytes} (hu : utf8ok s = true)
    (h : parseTagPart s = .ok (n, rest)) : utf8ok rest = true := by
  obtain ⟨h1, _, h3⟩ := (parseTagPart_spec s).2 n rest h
  have := utf8ok_drop_ascii 4 s hu h3
  have hd : s.drop 4 = rest := by
    have e := h1
    have : s.drop 4 = (s.take 4 ++ rest).drop 4 := by rw [← e]
    rw [this]
    have hl : (s.take 4).length = 4 := by
      obtain ⟨_, h2, _⟩ := (parseTagPart_spec s).2 n rest h
      exact h2
    rw [List.drop_append_of_le_length (by omega)]
    simp [hl]
  rw [← hd]; exact this

theorem head_cons_of {s : Bytes} {b : Nat} (h : (s.head? == some b) = true) :
    ∃ r, s = b :: r := by
  cases s with
  | nil => simp at h
  | cons a r => simp at h; exact ⟨r, by rw [h]⟩

/-- `Tag::from_str` (repaired) never panics on a Rust string -/
theorem parseTag_ne_panic (s : Bytes) (hu : utf8ok s = true) : parseTag s ≠ .panic := by
  unfold parseTag
  split
  · -- (gggg,eeee)
    refine bind_ne_panic (ensure_ne_panic _) fun _ he => ?_
    have hc : (s.head? == some 40) = true := by
      unfold ensure at he; split at he <;> simp_all
    obtain ⟨r, rfl⟩ := head_cons_of hc
    rw [sliceFrom_one (by decide) hu]
    simp only [Outcome.bind_ok]
    have hr := utf8ok_tail_ascii (by decide : 40 < 128) hu
    refine bind_ne_panic (parseTagPart_spec r).1 fun ⟨g, rest⟩ hg => ?_
    have hrest := parseTagPart_rest_utf8 hr hg
    refine bind_ne_panic (ensure_ne_panic _) fun _ he2 => ?_
    have hc2 : (rest.head? == some 44) = true := by
      unfold ensure at he2; split at he2 <;> simp_all
    obtain ⟨r2, rfl⟩ := head_cons_of hc2
    rw [sliceFrom_one (by decide) hrest]
    simp only [Outcome.bind_ok]
    refine bind_ne_panic (parseTagPart_spec r2).1 fun ⟨e, rest2⟩ _ => ?_
    exact map_ne_panic (ensure_ne_panic _)
  · split
    · refine bind_ne_panic (parseTagPart_spec s).1 fun ⟨g, rest⟩ hg => ?_
      have hrest := parseTagPart_rest_utf8 hu hg
      refine bind_ne_panic (ensure_ne_panic _) fun _ he2 => ?_
      have hc2 : (rest.head? == some 44) = true := by
        unfold ensure at he2; split at he2 <;> simp_all
      obtain ⟨r2, rfl⟩ := head_cons_of hc2
      rw [sliceFrom_one (by decide) hrest]
      simp only [Outcome.bind_ok]
      exact map_ne_panic (parseTagPart_spec r2).1
    · split
      · refine bind_ne_panic (parseTagPart_spec s).1 fun ⟨g, rest⟩ _ => ?_
        exact map_ne_panic (parseTagPart_spec rest).1
      · simp

/-! ### value conversions -/

theorem utf8List_mem : ∀ (xs : List J), utf8List xs = true → ∀ x ∈ xs, x.utf8 = true
  | [], _, x, hx => by simp at hx
  | y :: ys, h, x, hx => by
    simp only [utf8List, Bool.and_eq_true] at h
    simp only [List.mem_cons] at hx
    cases hx with
    | inl e => rw [e]; exact h.1
    | inr e => exact utf8List_mem ys h.2 x e

theorem atItem_ne_panic (x : J) (h : x.utf8 = true) : atItem x ≠ .panic := by
  cases x <;> simp [atItem]
  case str s => exact parseTag_ne_panic s (by simpa [J.utf8] using h)

theorem textItem_ne_panic (x : J) : textItem x ≠ .panic := by cases x <;> simp [textItem]
theorem intItem_ne_panic (lo hi : Int) (x : J) : intItem lo hi x ≠ .panic := by
  cases x <;> simp [intItem]
  case num n => cases n <;> simp [intItem] <;> split <;> simp
theorem natItem_ne_panic (hi : Nat) (x : J) : natItem hi x ≠ .panic := by
  cases x <;> simp [natItem]
  case num n => cases n <;> simp [natItem]; split <;> simp
theorem numOrText_ne_panic (a : Num → Bool) (x : J) : numOrText a x ≠ .panic := by
  cases x <;> simp [numOrText]
  case num n => split <;> simp
theorem ntToFloat_ne_panic (F : Fmt) (x : NT) : ntToFloat F x ≠ .panic := by
  cases x <;> simp [ntToFloat, ofOption_ne_panic]
theorem ntToI64_ne_panic (x : NT) : ntToI64 x ≠ .panic := by
  cases x with
  | num n => cases n <;> simp [ntToI64]
  | text s => simp [ntToI64, ofOption_ne_panic]
theorem ntToU_ne_panic (hi : Nat) (x : NT) : ntToU hi x ≠ .panic := by
  cases x with
  | num n => cases n <;> simp [ntToU]
  | text s => simp [ntToU, ofOption_ne_panic]
theorem asStr_ne_panic (x : J) : asStr x ≠ .panic := by cases x <;> simp [asStr]
theorem optStr_ne_panic (x : J) : optStr x ≠ .panic := by cases x <;> simp [optStr]
theorem arrOf_ne_panic (x : J) : arrOf x ≠ .panic := by cases x <;> simp [arrOf]

theorem personFields_ne_panic : ∀ (ms : List (Bytes × J)) (st : PnSt), personFields ms st ≠ .panic
  | [], st => by simp [personFields]
  | (k, v) :: r, st => by
    unfold personFields
    split
    · split
      · simp
      · exact bind_ne_panic (asStr_ne_panic v) fun _ _ => personFields_ne_panic r _
    · split
      · split
        · simp
        · exact bind_ne_panic (optStr_ne_panic v) fun _ _ => personFields_ne_panic r _
      · split
        · split
          · simp
          · exact bind_ne_panic (optStr_ne_panic v) fun _ _ => personFields_ne_panic r _
        · exact personFields_ne_panic r st

theorem personItem_ne_panic (x : J) : personItem x ≠ .panic := by
  unfold personItem
  split
  · refine bind_ne_panic (personFields_ne_panic _ _) fun st _ => ?_
    split <;> simp
  · exact bind_ne_panic (asStr_ne_panic _) fun _ _ =>
      bind_ne_panic (optStr_ne_panic _) fun _ _ => map_ne_panic (optStr_ne_panic _)
  · simp

theorem arrOf_utf8 {v : J} {xs : List J} (hv : v.utf8 = true) (h : arrOf v = .ok xs) :
    utf8List xs = true := by
  cases v <;> simp [arrOf] at h
  case arr ys => subst h; simpa [J.utf8] using hv

/-- the per-VR conversion of a `"Value"` never panics -/
theorem convertPrim_ne_panic (vr : VR) (v : J) (hv : v.utf8 = true) :
    convertPrim vr v ≠ .panic := by
  unfold convertPrim
  split
  · simp
  · simp
  · exact bind_ne_panic (arrOf_ne_panic v) fun xs _ =>
      map_ne_panic (mapM_ne_panic _ _ fun a _ => textItem_ne_panic a)
  · exact bind_ne_panic (arrOf_ne_panic v) fun xs _ =>
      map_ne_panic (mapM_ne_panic _ _ fun a _ => intItem_ne_panic _ _ a)
  · exact bind_ne_panic (arrOf_ne_panic v) fun xs _ =>
      map_ne_panic (mapM_ne_panic _ _ fun a _ => natItem_ne_panic _ a)
  · exact bind_ne_panic (arrOf_ne_panic v) fun xs _ =>
      map_ne_panic (mapM_ne_panic _ _ fun a _ => intItem_ne_panic _ _ a)
  · exact bind_ne_panic (arrOf_ne_panic v) fun xs _ =>
      map_ne_panic (mapM_ne_panic _ _ fun a _ => natItem_ne_panic _ a)
  · exact bind_ne_panic (arrOf_ne_panic v) fun xs _ =>
      bind_ne_panic (mapM_ne_panic _ _ fun a _ => numOrText_ne_panic _ a) fun nts _ =>
      map_ne_panic (mapM_ne_panic _ _ fun a _ => ntToFloat_ne_panic _ a)
  · exact bind_ne_panic (arrOf_ne_panic v) fun xs _ =>
      bind_ne_panic (mapM_ne_panic _ _ fun a _ => numOrText_ne_panic _ a) fun nts _ =>
      map_ne_panic (mapM_ne_panic _ _ fun a _ => ntToFloat_ne_panic _ a)
  · exact bind_ne_panic (arrOf_ne_panic v) fun xs _ =>
      bind_ne_panic (mapM_ne_panic _ _ fun a _ => numOrText_ne_panic _ a) fun nts _ =>
      map_ne_panic (mapM_ne_panic _ _ fun a _ => ntToI64_ne_panic a)
  · exact bind_ne_panic (arrOf_ne_panic v) fun xs _ =>
      bind_ne_panic (mapM_ne_panic _ _ fun a _ => numOrText_ne_panic _ a) fun nts _ =>
      map_ne_panic (mapM_ne_panic _ _ fun a _ => ntToU_ne_panic _ a)
  · exact bind_ne_panic (arrOf_ne_panic v) fun xs _ =>
      bind_ne_panic (mapM_ne_panic _ _ fun a _ => numOrText_ne_panic _ a) fun nts _ =>
      map_ne_panic (mapM_ne_panic _ _ fun a _ => ntToU_ne_panic _ a)
  · exact bind_ne_panic (arrOf_ne_panic v) fun xs _ =>
      map_ne_panic (mapM_ne_panic _ _ fun a _ => numOrText_ne_panic _ a)
  · exact bind_ne_panic (arrOf_ne_panic v) fun xs _ =>
      map_ne_panic (mapM_ne_panic _ _ fun a _ => personItem_ne_panic a)
  · exact bind_ne_panic (arrOf_ne_panic v) fun xs hxs =>
      map_ne_panic (mapM_ne_panic _ _ fun a ha =>
        atItem_ne_panic a (utf8List_mem xs (arrOf_utf8 hv hxs) a ha))

/-! ### the element visitor -/

/-- invariant of the field loop: `"Value"` and `"InlineBinary"` are never both set (the repaired
conflict checks), and what is stored for `"Value"` is UTF-8 with a panic-free reading as items -/
def ElSt.good (st : ElSt) : Prop :=
  (st.value.isSome = true → st.inline = none) ∧
  (∀ v sq, st.value = some (v, sq) → v.utf8 = true ∧ sq ≠ .panic)

theorem finish_ne_panic (tag : Nat) (st : ElSt) (hg : st.good) : finish tag st ≠ .panic := by
  unfold finish
  split
  · simp
  · rename_i vr hvr
    obtain ⟨g1, g2⟩ := hg
    cases hval : st.value with
    | none =>
      simp only [Outcome.bind_ok]
      cases hin : st.inline with
      | none => by_cases hq : vr = VR.SQ <;> simp [hq]
      | some b =>
        simp only
        cases b64dec b <;> simp
    | some pr =>
      obtain ⟨v, sq⟩ := pr
      have hv := g2 v sq hval
      have hin : st.inline = none := g1 (by simp [hval])
      simp only [hin]
      split
      · -- SQ
        cases sq with
        | ok items => simp
        | err => simp
        | panic => exact absurd rfl hv.2
      · have := convertPrim_ne_panic vr v hv.1
        cases hc : convertPrim vr v with
        | ok p => simp
        | err => simp
        | panic => exact absurd hc this

theorem good_init : ({} : ElSt).good := by
  constructor
  · intro h; simp at h
  · intro v sq h; simp at h

mutual
theorem dsOfJ_ne_panic : ∀ (j : J), j.utf8 = true → dsOfJ j ≠ .panic
  | .obj ms, h => by
    simp only [dsOfJ]
    exact map_ne_panic (elemsOfMembers_ne_panic ms (by simpa [J.utf8] using h))
  | .null, _ => by simp [dsOfJ]
  | .bool _, _ => by simp [dsOfJ]
  | .num _, _ => by simp [dsOfJ]
  | .str _, _ => by simp [dsOfJ]
  | .arr _, _ => by simp [dsOfJ]
theorem elemsOfMembers_ne_panic : ∀ (ms : List (Bytes × J)), utf8Members ms = true →
    elemsOfMembers ms ≠ .panic
  | [], _ => by simp [elemsOfMembers]
  | (k, v) :: ms, h => by
    simp only [utf8Members, Bool.and_eq_true] at h
    simp only [elemsOfMembers]
    refine bind_ne_panic (parseTag_ne_panic k h.1.1) fun tag _ => ?_
    refine bind_ne_panic (elemOfJ_ne_panic tag v h.1.2) fun oe _ => ?_
    exact map_ne_panic (elemsOfMembers_ne_panic ms h.2)
theorem elemOfJ_ne_panic (tag : Nat) : ∀ (j : J), j.utf8 = true → elemOfJ tag j ≠ .panic
  | .obj fs, h => by
    simp only [elemOfJ]
    have hs := scanFields_good fs {} (by simpa [J.utf8] using h) good_init
    exact bind_ne_panic hs.1 fun st hst => finish_ne_panic tag st (hs.2 st hst)
  | .null, _ => by simp [elemOfJ]
  | .bool _, _ => by simp [elemOfJ]
  | .num _, _ => by simp [elemOfJ]
  | .str _, _ => by simp [elemOfJ]
  | .arr _, _ => by simp [elemOfJ]
theorem scanFields_good : ∀ (fs : List (Bytes × J)) (st : ElSt), utf8Members fs = true →
    st.good → scanFields fs st ≠ .panic ∧ ∀ st', scanFields fs st = .ok st' → st'.good
  | [], st, _, hg => by
    simp only [scanFields]
    exact ⟨by simp, fun st' h => by simp at h; rw [← h]; exact hg⟩
  | (k, v) :: fs, st, h, hg => by
    simp only [utf8Members, Bool.and_eq_true] at h
    obtain ⟨g1, g2⟩ := hg
    unfold scanFields
    split
    · -- "vr"
      split
      · exact ⟨by simp, fun st' h' => by simp at h'⟩
      · cases hs : asStr v with
        | ok s =>
          simp only [Outcome.bind_ok]
          exact scanFields_good fs _ h.2 ⟨g1, g2⟩
        | err => exact ⟨by simp, fun st' h' => by simp at h'⟩
        | panic => exact absurd hs (asStr_ne_panic v)
    · split
      · -- "Value"
        split
        · exact ⟨by simp, fun st' h' => by simp at h'⟩
        · rename_i hc
          have hin : st.inline = none := by
            cases hi : st.inline with
            | none => rfl
            | some b => simp [hi] at hc
          refine scanFields_good fs _ h.2 ⟨fun _ => hin, ?_⟩
          intro v' sq' he
          simp only [Option.some.injEq, Prod.mk.injEq] at he
          rw [← he.1, ← he.2]
          exact ⟨h.1.2, seqItemsOf_ne_panic v h.1.2⟩
      · split
        · -- "InlineBinary"
          split
          · exact ⟨by simp, fun st' h' => by simp at h'⟩
          · rename_i hc
            have hval : st.value = none := by
              cases hv : st.value with
              | none => rfl
              | some b => simp [hv] at hc
            cases hs : asStr v with
            | ok s =>
              simp only [Outcome.bind_ok]
              refine scanFields_good fs _ h.2 ⟨?_, ?_⟩
              · intro hsome; simp [hval] at hsome
              · intro v' sq' he; simp [hval] at he
            | err => exact ⟨by simp, fun st' h' => by simp at h'⟩
            | panic => exact absurd hs (asStr_ne_panic v)
        · split
          · -- "BulkDataURI"
            split
            · exact ⟨by simp, fun st' h' => by simp at h'⟩
            · cases hs : asStr v with
              | ok s =>
                simp only [Outcome.bind_ok]
                exact scanFields_good fs _ h.2 ⟨g1, g2⟩
              | err => exact ⟨by simp, fun st' h' => by simp at h'⟩
              | panic => exact absurd hs (asStr_ne_panic v)
          · exact ⟨by simp, fun st' h' => by simp at h'⟩
theorem seqItemsOf_ne_panic : ∀ (j : J), j.utf8 = true → seqItemsOf j ≠ .panic
  | .arr xs, h => by
    simp only [seqItemsOf]
    exact itemsOf_ne_panic xs (by simpa [J.utf8] using h)
  | .null, _ => by simp [seqItemsOf]
  | .bool _, _ => by simp [seqItemsOf]
  | .num _, _ => by simp [seqItemsOf]
  | .str _, _ => by simp [seqItemsOf]
  | .obj _, _ => by simp [seqItemsOf]
theorem itemsOf_ne_panic : ∀ (xs : List J), utf8List xs = true → itemsOf xs ≠ .panic
  | [], _ => by simp [itemsOf]
  | x :: xs, h => by
    simp only [utf8List, Bool.and_eq_true] at h
    simp only [itemsOf]
    refine bind_ne_panic (dsOfJ_ne_panic x h.1) fun d _ => ?_
    exact map_ne_panic (itemsOf_ne_panic xs h.2)
end

/-- **C23, second sentence.** Deserialising ANY JSON tree gives a data set or an error, never a
panic: `dicom_json::from_value` … -/
theorem from_value_no_panic (j : J) (h : j.utf8 = true) : fromValue j ≠ .panic :=
  dsOfJ_ne_panic j h

/-! ## Part B — the round trip

`json_rt`: for every well-typed data set without encapsulated pixel data (any nesting depth),
`from_value (to_value ds) = Ok (normDs ds)`, where `normDs` applies exactly the documented
normalisations (`normPrim` in Model/Json.lean).  Float hypothesis: narrowing a widened finite
`f32` gives it back (`F32WidenNarrow`, an IEEE-754 fact about `as` casts). -/

theorem hexDigitVal_hexUp {d : Nat} (h : d < 16) : hexDigitVal (hexUp d) = some d := by
  have : ∀ m : Fin 16, hexDigitVal (hexUp m.val) = some m.val := by decide
  exact this ⟨d, h⟩

theorem isHexDigit_hexUp {d : Nat} (h : d < 16) : isHexDigit (hexUp d) = true := by
  have : ∀ m : Fin 16, isHexDigit (hexUp m.val) = true := by decide
  exact this ⟨d, h⟩

theorem isCont_hexUp {d : Nat} (h : d < 16) : isCont (hexUp d) = false := by
  have : ∀ m : Fin 16, isCont (hexUp m.val) = false := by decide
  exact this ⟨d, h⟩

theorem parseHex_hex4 {x : Nat} (h : x < 65536) : parseHex (hex4 x) = some x := by
  have m16 : ∀ n : Nat, n % 16 < 16 := fun n => Nat.mod_lt _ (by decide)
  simp only [parseHex, hex4, List.foldl_cons, List.foldl_nil, hexDigitVal_hexUp (m16 _)]
  have e1 : x / 256 = x / 16 / 16 := by rw [Nat.div_div_eq_div_mul]
  have e2 : x / 4096 = x / 16 / 16 / 16 := by rw [Nat.div_div_eq_div_mul, Nat.div_div_eq_div_mul]
  rw [e1, e2]
  simp only [Option.some.injEq]
  omega

/-- `parse_tag_part` on four upper-hex digits followed by nothing or an ASCII byte -/
theorem parseTagPart_hex4 {x : Nat} (h : x < 65536) (r : Bytes)
    (hr : r = [] ∨ ∃ b t, r = b :: t ∧ isCont b = false) :
    parseTagPart (hex4 x ++ r) = .ok (x, r) := by
  have m16 : ∀ n : Nat, n % 16 < 16 := fun n => Nat.mod_lt _ (by decide)
  have hb : isCharBoundary (hex4 x ++ r) 4 = true := by
    rcases hr with rfl | ⟨b, t, rfl, hc⟩
    · simp [isCharBoundary, hex4]
    · simp [isCharBoundary, hex4, hc]
  have ht : (hex4 x ++ r).take 4 = hex4 x := by simp [hex4]
  have hd : (hex4 x ++ r).drop 4 = r := by simp [hex4]
  have hall : (hex4 x).all isHexDigit = true := by
    simp [hex4, isHexDigit_hexUp (m16 _)]
  have hall' : ∀ y ∈ hex4 x, isHexDigit y = true := by simpa [List.all_eq_true] using hall
  simp [parseTagPart, hb, ensure, splitAtB, ht, hd, hall, hall', parseHex_hex4 h, expect]
  rw [if_pos hall']; rfl

theorem parseTag_tagKey {t : Nat} (h : t < 4294967296) : parseTag (tagKey t) = .ok t := by
  have m16 : ∀ n : Nat, n % 16 < 16 := fun n => Nat.mod_lt _ (by decide)
  have hl : (tagKey t).length = 8 := by simp [tagKey, hex4]
  have h1 : parseTagPart (hex4 (t / 65536 % 65536) ++ hex4 (t % 65536))
      = .ok (t / 65536 % 65536, hex4 (t % 65536)) :=
    parseTagPart_hex4 (Nat.mod_lt _ (by decide)) _
      (Or.inr ⟨_, _, rfl, isCont_hexUp (m16 _)⟩)
  have h2 : parseTagPart (hex4 (t % 65536)) = .ok (t % 65536, []) := by
    have := parseTagPart_hex4 (x := t % 65536) (Nat.mod_lt _ (by decide)) [] (Or.inl rfl)
    simpa using this
  unfold parseTag
  simp only [hl]
  simp only [tagKey, h1, h2, Outcome.bind_ok, Outcome.map_ok]
  simp
  omega

/-! ### one attribute object through the visitor -/

theorem kVr_ne : (kVr == kValue) = false ∧ (kVr == kInline) = false ∧ (kVr == kBulk) = false ∧
    (kValue == kVr) = false ∧ (kValue == kInline) = false ∧ (kValue == kBulk) = false ∧
    (kInline == kVr) = false ∧ (kInline == kValue) = false ∧ (kInline == kBulk) = false := by decide

theorem elemOfJ_empty (tag : Nat) (vr : VR) :
    elemOfJ tag (.obj [(kVr, .str (vrName vr))])
      = .ok (some (if vr = .SQ then .seq tag vr [] else .prim tag vr .empty)) := by
  by_cases hq : vr = VR.SQ <;>
    simp [elemOfJ, scanFields, finish, asStr, parseVR_vrName, kVr_beq, hq]

theorem elemOfJ_value (tag : Nat) (vr : VR) (v : J) (h : vr ≠ .SQ) :
    elemOfJ tag (.obj [(kVr, .str (vrName vr)), (kValue, v)])
      = (convertPrim vr v).map fun p => some (.prim tag vr p) := by
  simp only [elemOfJ, scanFields, kVr_beq, kValue_beq, kVr_ne, asStr, parseVR_vrName,
    Outcome.bind_ok, finish, Option.getD_some]
  cases hc : convertPrim vr v <;> simp [h, hc]

theorem elemOfJ_sq (tag : Nat) (v : J) :
    elemOfJ tag (.obj [(kVr, .str (vrName .SQ)), (kValue, v)])
      = (seqItemsOf v).map fun items => some (.seq tag .SQ items) := by
  simp only [elemOfJ, scanFields, kVr_beq, kValue_beq, kVr_ne, asStr, parseVR_vrName,
    Outcome.bind_ok, finish, Option.getD_some]
  cases hc : seqItemsOf v <;> simp [hc]

theorem elemOfJ_inline (tag : Nat) (vr : VR) (s d : Bytes) (h : b64dec s = some d) :
    elemOfJ tag (.obj [(kVr, .str (vrName vr)), (kInline, .str s)])
      = .ok (some (.prim tag vr (.u8 d))) := by
  simp [elemOfJ, scanFields, kVr_beq, kInline_beq, kVr_ne, asStr, parseVR_vrName, finish, h]

/-! ### inverse of each item conversion -/

theorem mapM_map_ok {α β γ : Type} (f : β → Outcome γ) (g : α → β) (h : α → γ) :
    ∀ (l : List α), (∀ a ∈ l, f (g a) = .ok (h a)) → mapM f (l.map g) = .ok (l.map h)
  | [], _ => rfl
  | a :: r, hh => by
    simp only [List.map_cons, mapM, hh a (by simp), Outcome.bind_ok,
      mapM_map_ok f g h r (fun x hx => hh x (by simp [hx])), Outcome.map_ok]

theorem digitsVal_append (l : Bytes) (d : Nat) : digitsVal (l ++ [d]) = digitsVal l * 10 + (d - 48) := by
  simp [digitsVal, List.foldl_append]

theorem digitsVal_toDecAux : ∀ (f n : Nat), n < f → digitsVal (toDecAux f n) = n
  | 0, n, h => by omega
  | f + 1, n, h => by
    unfold toDecAux
    split
    · simp [digitsVal]
    · rw [digitsVal_append, digitsVal_toDecAux f (n / 10) (by omega)]
      omega

theorem digitsVal_toDec (n : Nat) : digitsVal (toDec n) = n := digitsVal_toDecAux _ _ (by omega)

theorem toDec_head (n : Nat) : ∃ d r, toDec n = d :: r ∧ isDig d = true := by
  have h1 := toDec_digits n
  have h2 := toDec_ne_nil n
  cases h : toDec n with
  | nil => exact absurd h h2
  | cons d r =>
    rw [h] at h1
    simp only [List.all_cons, Bool.and_eq_true] at h1
    exact ⟨d, r, rfl, h1.1⟩

theorem stripPlus_digit {d : Nat} (r : Bytes) (h : isDig d = true) : stripPlus (d :: r) = d :: r := by
  unfold stripPlus
  split
  · rename_i heq; simp at heq; rw [heq.1] at h; simp [isDig] at h
  · rfl

theorem splitSign_digit {d : Nat} (r : Bytes) (h : isDig d = true) :
    splitSign (d :: r) = (false, d :: r) := by
  unfold splitSign
  split
  · rename_i heq; simp at heq; rw [heq.1] at h; simp [isDig] at h
  · rename_i heq; simp at heq; rw [heq.1] at h; simp [isDig] at h
  · rfl

theorem parseUnsigned_toDec {hi n : Nat} (h : n ≤ hi) : parseUnsigned hi (toDec n) = some n := by
  obtain ⟨d, r, hd, hdig⟩ := toDec_head n
  have hall := toDec_digits n
  have hv := digitsVal_toDec n
  unfold parseUnsigned
  rw [hd] at hall hv ⊢
  simp only [stripPlus_digit r hdig]
  simp [hall, hv, h]

theorem parseSigned_intDec {lo hi i : Int} (h1 : lo ≤ i) (h2 : i ≤ hi) :
    parseSigned lo hi (intDec i) = some i := by
  unfold intDec
  split
  · -- negative
    rename_i hneg
    have hall := toDec_digits i.natAbs
    have hv := digitsVal_toDec i.natAbs
    have hne := toDec_ne_nil i.natAbs
    have hval : -(Int.ofNat i.natAbs) = i := by simp only [Int.ofNat_eq_natCast]; omega
    simp only [parseSigned, splitSign]
    simp [hall, hv, hne]
    omega
  · rename_i hpos
    obtain ⟨d, r, hd, hdig⟩ := toDec_head i.toNat
    have hall := toDec_digits i.toNat
    have hv := digitsVal_toDec i.toNat
    have hval : Int.ofNat i.toNat = i := by simp only [Int.ofNat_eq_natCast]; omega
    unfold parseSigned
    rw [hd] at hall hv ⊢
    simp only [splitSign_digit r hdig]
    simp [hall, hv]
    omega

theorem intItem_intNum {lo hi i : Int} (h1 : lo ≤ i) (h2 : i ≤ hi) :
    intItem lo hi (intNum i) = .ok i := by
  unfold intNum
  split
  · have e : -(↑i.natAbs : Int) = i := by omega
    simp [intItem, e, h1]
  · have e : max i 0 = i := by omega
    simp [intItem, e, h2]

/-! ### floats -/

/-- the `NumberOrText` that `floatItem` is read as -/
def floatNT (F : Fmt) (w : Nat → Nat) (x : Nat) : NT :=
  if isFinite F x then .num (.flt (w x))
  else if isNaN F x then .text sNaN
  else if sign F x then .text sNegInf else .text sInf

theorem numOrText_floatItem (F : Fmt) (w : Nat → Nat) (x : Nat) :
    numOrText acceptFloat (floatItem F w x) = .ok (floatNT F w x) := by
  unfold floatItem floatNT
  by_cases h1 : isFinite F x = true
  · simp [h1, numOrText, acceptFloat]
  · by_cases h2 : isNaN F x = true
    · simp [h1, h2, numOrText]
    · have hinf : isInf F x = true := by
        simp [isFinite, isNaN, isInf] at *
        simp_all
      by_cases h3 : sign F x = true <;> simp [h1, h2, h3, hinf, numOrText]

theorem parse_specials :
    parse b32 sNaN = some b32.nanBits ∧ parse b32 sInf = some b32.infBits ∧
    parse b32 sNegInf = some (b32.infBits + b32.signBit) ∧
    parse b64 sNaN = some b64.nanBits ∧ parse b64 sInf = some b64.infBits ∧
    parse b64 sNegInf = some (b64.infBits + b64.signBit) := by decide

theorem inf_bits_b32 {x : Nat} (hx : x < 4294967296) (hi : isInf b32 x = true) :
    x = if sign b32 x then b32.infBits + b32.signBit else b32.infBits := by
  simp [isInf, expo, mant, sign, b32, Fmt.emax, Fmt.infBits, Fmt.signBit] at *
  split <;> omega

theorem inf_bits_b64 {x : Nat} (hx : x < 18446744073709551616) (hi : isInf b64 x = true) :
    x = if sign b64 x then b64.infBits + b64.signBit else b64.infBits := by
  simp [isInf, expo, mant, sign, b64, Fmt.emax, Fmt.infBits, Fmt.signBit] at *
  split <;> omega

/-- hypothesis of the round trip: narrowing a widened finite `f32` gives it back -/
def F32WidenNarrow : Prop :=
  ∀ x, x < 4294967296 → isFinite b32 x = true → castFF b64 b32 (castFF b32 b64 x) = x

theorem not_finite_cases (F : Fmt) (x : Nat) (h1 : isFinite F x = false) (h2 : isNaN F x = false) :
    isInf F x = true := by
  simp [isFinite, isNaN, isInf] at *
  simp_all

theorem ntToFloat_floatNT_b32 (hF : F32WidenNarrow) {x : Nat} (hx : x < 4294967296) :
    ntToFloat b32 (floatNT b32 (castFF b32 b64) x) = .ok (canonNaN b32 x) := by
  unfold floatNT canonNaN
  by_cases h1 : isFinite b32 x = true
  · have hn : isNaN b32 x = false := by
      simp [isFinite, isNaN] at *; simp_all
    have hb : (b32 == b64) = false := by decide
    simp [h1, hn, ntToFloat, numToFloat, hb, hF x hx h1]
  · by_cases h2 : isNaN b32 x = true
    · simp [h1, h2, ntToFloat, parse_specials.1, ofOption]
    · have hinf := not_finite_cases b32 x (by simpa using h1) (by simpa using h2)
      have hb := inf_bits_b32 hx hinf
      by_cases h3 : sign b32 x = true
      · simp [h1, h2, h3, ntToFloat, parse_specials.2.2.1, ofOption]
        simp [h3] at hb; exact hb.symm
      · simp [h1, h2, h3, ntToFloat, parse_specials.2.1, ofOption]
        simp [h3] at hb; exact hb.symm

theorem ntToFloat_floatNT_b64 {x : Nat} (hx : x < 18446744073709551616) :
    ntToFloat b64 (floatNT b64 id x) = .ok (canonNaN b64 x) := by
  unfold floatNT canonNaN
  by_cases h1 : isFinite b64 x = true
  · have hn : isNaN b64 x = false := by
      simp [isFinite, isNaN] at *; simp_all
    simp [h1, hn, ntToFloat, numToFloat]
  · by_cases h2 : isNaN b64 x = true
    · simp [h1, h2, ntToFloat, parse_specials.2.2.2.1, ofOption]
    · have hinf := not_finite_cases b64 x (by simpa using h1) (by simpa using h2)
      have hb := inf_bits_b64 hx hinf
      by_cases h3 : sign b64 x = true
      · simp [h1, h2, h3, ntToFloat, parse_specials.2.2.2.2.2, ofOption]
        simp [h3] at hb; exact hb.symm
      · simp [h1, h2, h3, ntToFloat, parse_specials.2.2.2.2.1, ofOption]
        simp [h3] at hb; exact hb.symm

/-- DS written from binary floats: the numeric string is `Display` of the value -/
theorem ntToString_floatNT_b64 (x : Nat) :
    ntToString (floatNT b64 id x) = display b64 x := by
  unfold floatNT
  by_cases h1 : isFinite b64 x = true
  · simp [h1, ntToString, numToFloat]
  · by_cases h2 : isNaN b64 x = true
    · simp [h1, h2, ntToString, display, sNaN]
    · have hinf := not_finite_cases b64 x (by simpa using h1) (by simpa using h2)
      by_cases h3 : sign b64 x = true <;>
        simp [h1, h2, h3, hinf, ntToString, display, sNegInf, sInf]

/-! ### `"Value"` arrays back to values, per deserialiser class -/

theorem conv_text (vr : VR) (hc : deClass vr = .text) (l : List Bytes) :
    convertPrim vr (.arr (l.map .str)) = .ok (.strs l) := by
  simp only [convertPrim, hc, arrOf, Outcome.bind_ok]
  rw [mapM_map_ok textItem J.str id l (fun a _ => rfl)]
  simp

theorem conv_at (vr : VR) (hc : deClass vr = .at) (l : List Nat) (hl : allLt 4294967296 l = true) :
    convertPrim vr (.arr (l.map fun t => .str (tagKey t))) = .ok (.tags l) := by
  simp only [allLt, List.all_eq_true, decide_eq_true_eq] at hl
  simp only [convertPrim, hc, arrOf, Outcome.bind_ok]
  rw [mapM_map_ok atItem (fun t => J.str (tagKey t)) id l
    (fun a ha => by simp [atItem, parseTag_tagKey (hl a ha)])]
  simp

theorem personItem_alpha (s : Bytes) : personItem (.obj [(kAlpha, .str s)]) = .ok s := by
  have h : (kAlpha == kAlpha) = true := by decide
  simp [personItem, personFields, h, asStr, pnDisplay]

theorem conv_pn (l : List Bytes) :
    convertPrim .PN (.arr (l.map fun s => .obj [(kAlpha, .str s)])) = .ok (.strs l) := by
  simp only [convertPrim, deClass, arrOf, Outcome.bind_ok]
  rw [mapM_map_ok personItem (fun s => J.obj [(kAlpha, .str s)]) id l
    (fun a _ => personItem_alpha a)]
  simp

theorem conv_int (vr : VR) (lo hi : Int) (l : List Int) (h : allIn lo hi l = true) :
    mapM (intItem lo hi) (l.map intNum) = .ok l := by
  simp only [allIn, List.all_eq_true, Bool.and_eq_true, decide_eq_true_eq] at h
  rw [mapM_map_ok (intItem lo hi) intNum id l
    (fun a ha => intItem_intNum (h a ha).1 (h a ha).2)]
  simp

theorem conv_nat (hi : Nat) (l : List Nat) (h : allLt (hi + 1) l = true) :
    mapM (natItem hi) (l.map fun n => .num (.pos n)) = .ok l := by
  simp only [allLt, List.all_eq_true, decide_eq_true_eq] at h
  rw [mapM_map_ok (natItem hi) (fun n => J.num (.pos n)) id l
    (fun a ha => by have := h a ha; simp [natItem]; omega)]
  simp

def numOfInt (i : Int) : Num := if i < 0 then .neg i.natAbs else .pos i.toNat

theorem intNum_eq (i : Int) : intNum i = .num (numOfInt i) := by
  unfold intNum numOfInt; split <;> rfl

theorem numToFloat_numOfInt (i : Int) : numToFloat b64 (numOfInt i) = castInt b64 i := by
  unfold numOfInt
  split
  · rename_i h
    have e : -(↑i.natAbs : Int) = i := by omega
    simp [numToFloat, e]
  · rename_i h
    simp [numToFloat, castInt, h]

theorem conv_u32 (vr : VR) (hc : deClass vr = .u32) (l : List Nat) (h : allLt 4294967296 l = true) :
    convertPrim vr (.arr (l.map fun n => .num (.pos n))) = .ok (.u32 l) := by
  simp only [allLt, List.all_eq_true, decide_eq_true_eq] at h
  simp only [convertPrim, hc, arrOf, Outcome.bind_ok]
  rw [mapM_map_ok (numOrText (acceptU 4294967295)) (fun n => J.num (.pos n)) (fun n => NT.num (.pos n)) l
    (fun a ha => by have := h a ha; simp [numOrText, acceptU]; omega)]
  simp only [Outcome.bind_ok]
  rw [mapM_map_ok (ntToU 4294967295) (fun n => NT.num (.pos n)) id l (fun a _ => rfl)]
  simp

theorem conv_u64 (vr : VR) (hc : deClass vr = .u64) (l : List Nat)
    (h : allLt 18446744073709551616 l = true) :
    convertPrim vr (.arr (l.map fun (n : Nat) =>
      if n ≤ 2147483647 then .num (.pos n) else .str (toDec n))) = .ok (.u64 l) := by
  simp only [allLt, List.all_eq_true, decide_eq_true_eq] at h
  simp only [convertPrim, hc, arrOf, Outcome.bind_ok]
  rw [mapM_map_ok (numOrText (acceptU 18446744073709551615))
    (fun (n : Nat) => if n ≤ 2147483647 then J.num (.pos n) else J.str (toDec n))
    (fun (n : Nat) => if n ≤ 2147483647 then NT.num (.pos n) else NT.text (toDec n)) l
    (fun a ha => by
      have := h a ha
      by_cases hc : a ≤ 2147483647
      · simp [hc, numOrText, acceptU]; omega
      · simp [hc, numOrText])]
  simp only [Outcome.bind_ok]
  rw [mapM_map_ok (ntToU 18446744073709551615)
    (fun (n : Nat) => if n ≤ 2147483647 then NT.num (.pos n) else NT.text (toDec n)) id l
    (fun a ha => by
      have := h a ha
      by_cases hc : a ≤ 2147483647
      · simp [hc, ntToU]
      · simp [hc, ntToU, parseUnsigned_toDec (show a ≤ 18446744073709551615 by omega), ofOption])]
  simp

theorem conv_i64 (l : List Int)
    (h : allIn (-9223372036854775808) 9223372036854775807 l = true) :
    convertPrim .SV (.arr (l.map fun i => if fitsI32 i then intNum i else .str (intDec i)))
      = .ok (.i64 l) := by
  simp only [allIn, List.all_eq_true, Bool.and_eq_true, decide_eq_true_eq] at h
  simp only [convertPrim, deClass, arrOf, Outcome.bind_ok]
  rw [mapM_map_ok (numOrText acceptI64)
    (fun i => if fitsI32 i then intNum i else J.str (intDec i))
    (fun i => if fitsI32 i then NT.num (numOfInt i) else NT.text (intDec i)) l
    (fun a ha => by
      by_cases hc : fitsI32 a = true
      · simp only [hc, if_true, intNum_eq, numOrText]
        have : acceptI64 (numOfInt a) = true := by
          simp only [fitsI32, Bool.and_eq_true, decide_eq_true_eq] at hc
          unfold numOfInt
          split <;> simp [acceptI64] <;> omega
        simp [this]
      · simp [hc, numOrText])]
  simp only [Outcome.bind_ok]
  rw [mapM_map_ok ntToI64
    (fun i => if fitsI32 i then NT.num (numOfInt i) else NT.text (intDec i)) id l
    (fun a ha => by
      have hr := h a ha
      by_cases hc : fitsI32 a = true
      · simp only [hc, if_true, id]
        unfold numOfInt
        split
        · simp [ntToI64]; omega
        · simp [ntToI64]; omega
      · simp [hc, ntToI64, parseSigned_intDec hr.1 hr.2, ofOption])]
  simp

theorem conv_f32 (hF : F32WidenNarrow) (vr : VR) (hc : deClass vr = .f32) (l : List Nat)
    (h : allLt 4294967296 l = true) :
    convertPrim vr (.arr (l.map (floatItem b32 (castFF b32 b64)))) = .ok (.f32 (l.map (canonNaN b32))) := by
  simp only [allLt, List.all_eq_true, decide_eq_true_eq] at h
  simp only [convertPrim, hc, arrOf, Outcome.bind_ok]
  rw [mapM_map_ok (numOrText acceptFloat) (floatItem b32 (castFF b32 b64)) (floatNT b32 (castFF b32 b64)) l
    (fun a _ => numOrText_floatItem _ _ a)]
  simp only [Outcome.bind_ok]
  rw [mapM_map_ok (ntToFloat b32) (floatNT b32 (castFF b32 b64)) (canonNaN b32) l
    (fun a ha => ntToFloat_floatNT_b32 hF (h a ha))]
  simp

theorem conv_f64 (vr : VR) (hc : deClass vr = .f64) (l : List Nat)
    (h : allLt 18446744073709551616 l = true) :
    convertPrim vr (.arr (l.map (floatItem b64 id))) = .ok (.f64 (l.map (canonNaN b64))) := by
  simp only [allLt, List.all_eq_true, decide_eq_true_eq] at h
  simp only [convertPrim, hc, arrOf, Outcome.bind_ok]
  rw [mapM_map_ok (numOrText acceptFloat) (floatItem b64 id) (floatNT b64 id) l
    (fun a _ => numOrText_floatItem _ _ a)]
  simp only [Outcome.bind_ok]
  rw [mapM_map_ok (ntToFloat b64) (floatNT b64 id) (canonNaN b64) l
    (fun a ha => ntToFloat_floatNT_b64 (h a ha))]
  simp

theorem conv_numstr_f64 (vr : VR) (hc : deClass vr = .numstr) (l : List Nat) :
    convertPrim vr (.arr (l.map (floatItem b64 id))) = .ok (.strs (l.map (display b64))) := by
  simp only [convertPrim, hc, arrOf, Outcome.bind_ok]
  rw [mapM_map_ok (numOrText acceptFloat) (floatItem b64 id) (floatNT b64 id) l
    (fun a _ => numOrText_floatItem _ _ a)]
  simp [ntToString_floatNT_b64, Function.comp_def]

theorem conv_numstr_i32 (vr : VR) (hc : deClass vr = .numstr) (l : List Int) :
    convertPrim vr (.arr (l.map intNum))
      = .ok (.strs (l.map fun i => display b64 (castInt b64 i))) := by
  simp only [convertPrim, hc, arrOf, Outcome.bind_ok]
  rw [mapM_map_ok (numOrText acceptFloat) intNum (fun i => NT.num (numOfInt i)) l
    (fun a _ => by simp [intNum_eq, numOrText, acceptFloat])]
  simp [ntToString, numToFloat_numOfInt, Function.comp_def]

theorem conv_numstr_strs (vr : VR) (hc : deClass vr = .numstr) (l : List Bytes) :
    convertPrim vr (.arr (l.map .str)) = .ok (.strs l) := by
  simp only [convertPrim, hc, arrOf, Outcome.bind_ok]
  rw [mapM_map_ok (numOrText acceptFloat) J.str NT.text l (fun a _ => rfl)]
  simp [ntToString, Function.comp_def]

/-! ### one primitive element there and back -/

theorem normPrim_of_nonEmpty (vr : VR) (p : Prim) (h : p.nonEmpty = true) :
    normPrim vr p = normPrimNE vr p := by
  simp [normPrim, h]

theorem rt_value (tag : Nat) (vr : VR) (p q : Prim) (v : J) (hsq : vr ≠ .SQ)
    (hne : p.nonEmpty = true) (hc : convertPrim vr v = .ok q) (hn : normPrim vr p = q) :
    elemOfJ tag (.obj [(kVr, .str (vrName vr)), (kValue, v)])
      = .ok (some (normElem (.prim tag vr p))) := by
  have hb : (vr == VR.SQ) = false := by simpa using hsq
  rw [elemOfJ_value _ _ _ hsq, hc]
  simp [normElem, hb, hn]

theorem rt_binary (tag : Nat) (vr : VR) (p : Prim) (hcl : serClass vr = .binary)
    (hne : p.nonEmpty = true) (hr : p.inRange = true)
    (hk : p.binKind = true) :
    elemOfJ tag (.obj [(kVr, .str (vrName vr)), (kInline, inlineBinary p)])
      = .ok (some (normElem (.prim tag vr p))) := by
  have hsq : (vr == VR.SQ) = false := by cases vr <;> simp [serClass] at hcl <;> rfl
  have hb := toBytes_binary p hr hk
  rw [inlineBinary, elemOfJ_inline _ _ _ _ (b64dec_enc _ hb.1)]
  simp [normElem, hsq, normPrim_of_nonEmpty vr p hne, normPrimNE, hcl]

/-- every well-typed primitive element comes back as its normal form -/
theorem prim_rt (hF : F32WidenNarrow) (tag : Nat) (vr : VR) (p : Prim)
    (hk : kindOk vr p = true) (hr : p.inRange = true) :
    ∃ ms, primMembers vr p = .ok ms ∧
      elemOfJ tag (.obj ((kVr, .str (vrName vr)) :: ms))
        = .ok (some (normElem (.prim tag vr p))) := by
  cases hne : p.nonEmpty with
  | false =>
    refine ⟨[], primMembers_of_empty vr p hne, ?_⟩
    rw [elemOfJ_empty]
    by_cases hq : vr = .SQ <;> simp [normElem, normPrim, hne, hq]
  | true =>
  have hN := normPrim_of_nonEmpty vr p hne
  cases p with
  | empty => simp [Prim.nonEmpty] at hne
  | strs l =>
    cases vr <;> (first
      | (exfalso; simp [kindOk] at hk; done)
      | exact ⟨_, by rw [primMembers_of_nonEmpty _ _ hne]; rfl,
          rt_value tag _ _ _ _ (by decide) hne (conv_text _ rfl _) (by rw [hN]; rfl)⟩
      | exact ⟨_, by rw [primMembers_of_nonEmpty _ _ hne]; rfl,
          rt_value tag _ _ _ _ (by decide) hne (conv_pn _) (by rw [hN]; rfl)⟩
      | exact ⟨_, by rw [primMembers_of_nonEmpty _ _ hne]; rfl,
          rt_value tag _ _ _ _ (by decide) hne (conv_numstr_strs _ rfl _) (by rw [hN]; rfl)⟩)
  | str s =>
    cases vr <;> (first
      | (exfalso; simp [kindOk] at hk; done)
      | exact ⟨_, by rw [primMembers_of_nonEmpty _ _ hne]; rfl,
          rt_value tag _ _ _ _ (by decide) hne (conv_text _ rfl _) (by rw [hN]; rfl)⟩
      | exact ⟨_, by rw [primMembers_of_nonEmpty _ _ hne]; rfl,
          rt_value tag _ _ _ _ (by decide) hne (conv_pn _) (by rw [hN]; rfl)⟩
      | exact ⟨_, by rw [primMembers_of_nonEmpty _ _ hne]; rfl,
          rt_value tag _ _ _ _ (by decide) hne (conv_numstr_strs _ rfl [s]) (by rw [hN]; rfl)⟩)
  | tags l =>
    cases vr <;> (first
      | (exfalso; simp [kindOk] at hk; done)
      | exact ⟨_, by rw [primMembers_of_nonEmpty _ _ hne]; rfl,
          rt_value tag _ _ _ _ (by decide) hne
            (conv_at _ rfl l (by simpa [Prim.inRange] using hr)) (by rw [hN]; rfl)⟩)
  | u8 l =>
    cases vr <;> (first
      | (exfalso; simp [kindOk] at hk; done)
      | exact ⟨_, by rw [primMembers_of_nonEmpty _ _ hne]; rfl, rt_binary tag _ _ rfl hne hr rfl⟩)
  | i16 l =>
    cases vr <;> (first
      | (exfalso; simp [kindOk] at hk; done)
      | (refine ⟨_, by rw [primMembers_of_nonEmpty _ _ hne]; rfl,
          rt_value tag _ _ (.i16 l) _ (by decide) hne ?_ (by rw [hN]; rfl)⟩
         simp only [convertPrim, deClass, arrOf, Outcome.bind_ok]
         rw [conv_int .SS _ _ l (by simpa [Prim.inRange] using hr)]; rfl))
  | u16 l =>
    cases vr <;> (first
      | (exfalso; simp [kindOk] at hk; done)
      | exact ⟨_, by rw [primMembers_of_nonEmpty _ _ hne]; rfl, rt_binary tag _ _ rfl hne hr rfl⟩
      | (refine ⟨_, by rw [primMembers_of_nonEmpty _ _ hne]; rfl,
          rt_value tag _ _ (.u16 l) _ (by decide) hne ?_ (by rw [hN]; rfl)⟩
         simp only [convertPrim, deClass, arrOf, Outcome.bind_ok]
         rw [conv_nat 65535 l (by simpa [Prim.inRange] using hr)]; rfl))
  | i32 l =>
    cases vr <;> (first
      | (exfalso; simp [kindOk] at hk; done)
      | (refine ⟨_, by rw [primMembers_of_nonEmpty _ _ hne]; rfl,
          rt_value tag _ _ (.i32 l) _ (by decide) hne ?_ (by rw [hN]; rfl)⟩
         simp only [convertPrim, deClass, arrOf, Outcome.bind_ok]
         rw [conv_int .SL _ _ l (by simpa [Prim.inRange] using hr)]; rfl)
      | exact ⟨_, by rw [primMembers_of_nonEmpty _ _ hne]; rfl,
          rt_value tag _ _ _ _ (by decide) hne (conv_numstr_i32 _ rfl l) (by rw [hN]; rfl)⟩)
  | u32 l =>
    cases vr <;> (first
      | (exfalso; simp [kindOk] at hk; done)
      | exact ⟨_, by rw [primMembers_of_nonEmpty _ _ hne]; rfl, rt_binary tag _ _ rfl hne hr rfl⟩
      | exact ⟨_, by rw [primMembers_of_nonEmpty _ _ hne]; rfl,
          rt_value tag _ _ _ _ (by decide) hne
            (conv_u32 _ rfl l (by simpa [Prim.inRange] using hr)) (by rw [hN]; rfl)⟩)
  | i64 l =>
    cases vr <;> (first
      | (exfalso; simp [kindOk] at hk; done)
      | exact ⟨_, by rw [primMembers_of_nonEmpty _ _ hne]; rfl,
          rt_value tag _ _ _ _ (by decide) hne
            (conv_i64 l (by simpa [Prim.inRange] using hr)) (by rw [hN]; rfl)⟩)
  | u64 l =>
    cases vr <;> (first
      | (exfalso; simp [kindOk] at hk; done)
      | exact ⟨_, by rw [primMembers_of_nonEmpty _ _ hne]; rfl, rt_binary tag _ _ rfl hne hr rfl⟩
      | exact ⟨_, by rw [primMembers_of_nonEmpty _ _ hne]; rfl,
          rt_value tag _ _ _ _ (by decide) hne
            (conv_u64 _ rfl l (by simpa [Prim.inRange] using hr)) (by rw [hN]; rfl)⟩)
  | f32 l =>
    cases vr <;> (first
      | (exfalso; simp [kindOk] at hk; done)
      | exact ⟨_, by rw [primMembers_of_nonEmpty _ _ hne]; rfl, rt_binary tag _ _ rfl hne hr rfl⟩
      | exact ⟨_, by rw [primMembers_of_nonEmpty _ _ hne]; rfl,
          rt_value tag _ _ _ _ (by decide) hne
            (conv_f32 hF _ rfl l (by simpa [Prim.inRange] using hr)) (by rw [hN]; rfl)⟩)
  | f64 l =>
    cases vr <;> (first
      | (exfalso; simp [kindOk] at hk; done)
      | exact ⟨_, by rw [primMembers_of_nonEmpty _ _ hne]; rfl, rt_binary tag _ _ rfl hne hr rfl⟩
      | exact ⟨_, by rw [primMembers_of_nonEmpty _ _ hne]; rfl,
          rt_value tag _ _ _ _ (by decide) hne
            (conv_f64 _ rfl l (by simpa [Prim.inRange] using hr)) (by rw [hN]; rfl)⟩
      | exact ⟨_, by rw [primMembers_of_nonEmpty _ _ hne]; rfl,
          rt_value tag _ _ _ _ (by decide) hne (conv_numstr_f64 _ rfl l) (by rw [hN]; rfl)⟩)
  | date l =>
    cases vr <;> (first
      | (exfalso; simp [kindOk] at hk; done)
      | exact ⟨_, by rw [primMembers_of_nonEmpty _ _ hne]; rfl,
          rt_value tag _ _ _ _ (by decide) hne (conv_text _ rfl _) (by rw [hN]; rfl)⟩)
  | dateTime l =>
    cases vr <;> (first
      | (exfalso; simp [kindOk] at hk; done)
      | exact ⟨_, by rw [primMembers_of_nonEmpty _ _ hne]; rfl,
          rt_value tag _ _ _ _ (by decide) hne (conv_text _ rfl _) (by rw [hN]; rfl)⟩)
  | time l =>
    cases vr <;> (first
      | (exfalso; simp [kindOk] at hk; done)
      | exact ⟨_, by rw [primMembers_of_nonEmpty _ _ hne]; rfl,
          rt_value tag _ _ _ _ (by decide) hne (conv_text _ rfl _) (by rw [hN]; rfl)⟩)

/-! ### `put` rebuilds a tag-sorted element list -/

theorem tagsOf_append : ∀ (a b : List Elem), tagsOf (a ++ b) = tagsOf a ++ tagsOf b
  | [], b => by simp [tagsOf]
  | x :: a, b => by simp [tagsOf, tagsOf_append a b]

theorem sorted_head_lt : ∀ (a : Nat) (l : List Nat), sortedTags (a :: l) = true → ∀ b ∈ l, a < b
  | a, [], _, b, hb => by simp at hb
  | a, c :: r, h, b, hb => by
    simp only [sortedTags, Bool.and_eq_true, decide_eq_true_eq] at h
    simp only [List.mem_cons] at hb
    cases hb with
    | inl e => rw [e]; exact h.1
    | inr e => exact Nat.lt_trans h.1 (sorted_head_lt c r h.2 b e)

theorem sorted_tail : ∀ (a : Nat) (l : List Nat), sortedTags (a :: l) = true → sortedTags l = true
  | a, [], _ => rfl
  | a, c :: r, h => by
    simp only [sortedTags, Bool.and_eq_true] at h
    exact h.2

theorem put_append (e : Elem) : ∀ (acc : List Elem), (∀ a ∈ tagsOf acc, a < e.tag) →
    put e acc = acc ++ [e]
  | [], _ => rfl
  | x :: xs, h => by
    have hx : x.tag < e.tag := h x.tag (by simp [tagsOf])
    have h1 : ¬ e.tag < x.tag := by omega
    have h2 : (e.tag == x.tag) = false := by simp; omega
    simp only [put, h1, if_false, h2, List.cons_append]
    rw [put_append e xs (fun a ha => h a (by simp [tagsOf, ha]))]
    simp

theorem foldl_put : ∀ (es acc : List Elem),
    (∀ a ∈ tagsOf acc, ∀ b ∈ tagsOf es, a < b) → sortedTags (tagsOf es) = true →
    es.foldl (fun acc e => put e acc) acc = acc ++ es
  | [], acc, _, _ => by simp
  | e :: es, acc, h, hs => by
    simp only [List.foldl_cons]
    rw [put_append e acc (fun a ha => h a ha e.tag (by simp [tagsOf]))]
    have hs' : sortedTags (e.tag :: tagsOf es) = true := by simpa [tagsOf] using hs
    rw [foldl_put es (acc ++ [e]) ?_ (sorted_tail _ _ hs')]
    · simp
    · intro a ha b hb
      rw [tagsOf_append] at ha
      simp only [List.mem_append] at ha
      cases ha with
      | inl h1 => exact h a h1 b (by simp [tagsOf, hb])
      | inr h1 =>
        simp [tagsOf] at h1
        rw [h1]
        exact sorted_head_lt _ _ hs' b hb

theorem putAll_sorted (es : List Elem) (h : sortedTags (tagsOf es) = true) : putAll es = es := by
  unfold putAll
  rw [foldl_put es [] (fun a ha => by simp [tagsOf] at ha) h]
  simp

theorem normElem_tag : ∀ (e : Elem), (normElem e).tag = e.tag
  | .prim t vr p => by
    simp only [normElem]
    split <;> rfl
  | .seq t vr items => rfl
  | .pix t vr => rfl

theorem tagsOf_normDs : ∀ (es : List Elem), tagsOf (normDs es) = tagsOf es
  | [] => rfl
  | e :: es => by simp [normDs, tagsOf, normElem_tag, tagsOf_normDs es]

/-! ### whole data sets, any nesting depth -/

mutual
theorem elem_rt (hF : F32WidenNarrow) : ∀ (e : Elem), e.wf = true → e.typed = true →
    e.noPix = true → ∃ j, elemToJson e = .ok j ∧ elemOfJ e.tag j = .ok (some (normElem e))
  | .prim t vr p, _, ht, _ => by
    simp only [Elem.typed, Bool.and_eq_true] at ht
    obtain ⟨ms, h1, h2⟩ := prim_rt hF t vr p ht.1 ht.2
    exact ⟨_, by simp [elemToJson, h1], h2⟩
  | .seq t vr [], _, ht, _ => by
    simp only [Elem.typed, Bool.and_eq_true, beq_iff_eq] at ht
    refine ⟨_, rfl, ?_⟩
    simp [Elem.tag, elemOfJ_empty, ht.1, normElem, normItems]
  | .seq t vr (d :: ds), hw, ht, hp => by
    simp only [Elem.typed, Bool.and_eq_true, beq_iff_eq] at ht
    simp only [Elem.wf, Bool.and_eq_true] at hw
    simp only [Elem.noPix] at hp
    obtain ⟨js, h1, h2⟩ := items_rt hF (d :: ds) hw.2 ht.2 hp
    refine ⟨.obj [(kVr, .str (vrName vr)), (kValue, .arr js)], by simp [elemToJson, h1], ?_⟩
    rw [ht.1]
    simp only [Elem.tag]
    rw [elemOfJ_sq]
    simp [seqItemsOf, h2, normElem]
  | .pix t vr, _, _, hp => by simp [Elem.noPix] at hp
theorem items_rt (hF : F32WidenNarrow) : ∀ (items : List (List Elem)), itemsWf items = true →
    itemsTyped items = true → itemsNoPix items = true →
    ∃ js, itemsToJson items = .ok js ∧ itemsOf js = .ok (normItems items)
  | [], _, _, _ => ⟨[], rfl, rfl⟩
  | d :: ds, hw, ht, hp => by
    simp only [itemsWf, Bool.and_eq_true] at hw
    simp only [itemsTyped, Bool.and_eq_true] at ht
    simp only [itemsNoPix, Bool.and_eq_true] at hp
    obtain ⟨ms, m1, m2⟩ := members_rt hF d hw.1.1 ht.1 hp.1
    obtain ⟨js, j1, j2⟩ := items_rt hF ds hw.2 ht.2 hp.2
    refine ⟨.obj ms :: js, by simp [itemsToJson, m1, j1], ?_⟩
    have hs : sortedTags (tagsOf (normDs d)) = true := by rw [tagsOf_normDs]; exact hw.1.2
    simp [itemsOf, dsOfJ, m2, j2, putAll_sorted _ hs, normItems]
theorem members_rt (hF : F32WidenNarrow) : ∀ (es : List Elem), elemsWf es = true →
    elemsTyped es = true → elemsNoPix es = true →
    ∃ ms, membersToJson es = .ok ms ∧ elemsOfMembers ms = .ok (normDs es)
  | [], _, _, _ => ⟨[], rfl, rfl⟩
  | e :: es, hw, ht, hp => by
    simp only [elemsWf, Bool.and_eq_true] at hw
    simp only [elemsTyped, Bool.and_eq_true] at ht
    simp only [elemsNoPix, Bool.and_eq_true] at hp
    obtain ⟨j, e1, e2⟩ := elem_rt hF e hw.1 ht.1 hp.1
    obtain ⟨ms, m1, m2⟩ := members_rt hF es hw.2 ht.2 hp.2
    refine ⟨(tagKey e.tag, j) :: ms, by simp [membersToJson, e1, m1], ?_⟩
    simp [elemsOfMembers, parseTag_tagKey (Elem.wf_tag e hw.1), e2, m2, normDs]
end

/-- **C23, first sentence.** Any well-typed in-memory data set without encapsulated pixel data,
serialised to DICOM JSON and deserialised again, yields the data set with exactly the documented
normalisations applied (`normDs`) — for nested sequences of any depth. -/
theorem json_rt (hF : F32WidenNarrow) (ds : DataSet) (hw : ds.wf = true)
    (ht : elemsTyped ds = true) (hp : elemsNoPix ds = true) :
    ∃ j, toJson ds = .ok j ∧ fromValue j = .ok (normDs ds) := by
  simp only [DataSet.wf, Bool.and_eq_true] at hw
  obtain ⟨ms, m1, m2⟩ := members_rt hF ds hw.1 ht hp
  refine ⟨.obj ms, by simp [toJson, m1], ?_⟩
  have hs : sortedTags (tagsOf (normDs ds)) = true := by rw [tagsOf_normDs]; exact hw.2
  simp [fromValue, dsOfJ, m2, putAll_sorted _ hs]


/-! ### what the hypotheses exclude, and examples -/

/-- encapsulated pixel data is outside the round trip: it is written as an empty attribute -/
theorem pixel_sequence_not_kept :
    ∃ j, toJson [.pix 0x7FE00010 .OB] = .ok j ∧
      fromValue j = .ok [.prim 0x7FE00010 .OB .empty] := ⟨_, rfl, by rfl⟩

/-- the normal form of plain multi-valued text is the text without trailing padding -/
example : normDs [.prim 0x00080060 .CS (.strs [ascii "CT ", ascii "PET"]),
                  .prim 0x00100010 .PN (.str (ascii "Doe^John\x00"))]
    = [.prim 0x00080060 .CS (.strs [ascii "CT", ascii "PET"]),
       .prim 0x00100010 .PN (.strs [ascii "Doe^John\x00" |> trimEnd])] := by rfl

/-- defect #5 (repaired): `Value` together with `InlineBinary` is an error, in both orders -/
example : elemOfJ 0x00090010 (.obj [(kVr, .str [79, 66]),
      (kValue, .arr [.num (.pos 1)]), (kInline, .str [65, 65, 61, 61])]) = .err := by rfl
example : elemOfJ 0x00090010 (.obj [(kVr, .str [79, 66]),
      (kInline, .str [65, 65, 61, 61]), (kValue, .arr [.num (.pos 1)])]) = .err := by rfl

/-- defect #1 (repaired): an 8-byte key that is not on a char boundary at byte 4 is an error -/
example : parseTag [97, 98, 99, 0xC3, 0xA9, 97, 98, 99] = .err := by rfl

/-- non-vacuity of `json_rt`: nested sequences, non-finite float, 64-bit integer, binary value,
zero-length vector, date -/
example :
    let ds : DataSet := [
      .prim 0x00080018 .UI (.strs [ascii "1.2.3 "]),
      .prim 0x00080020 .DA (.date [(ascii "20240229", ascii "2024-02-29")]),
      .prim 0x00186020 .FL (.f32 [0x7FC00001, 0x3F800000]),
      .prim 0x00280010 .US (.u16 []),
      .seq 0x00400275 .SQ [[.prim 0x00400009 .SV (.i64 [-9007199254740993])], []],
      .prim 0x7FE00010 .OW (.u16 [1, 65535])]
    ds.wf = true ∧ elemsTyped ds = true ∧ elemsNoPix ds = true := by decide

/-! ## `from_str`: the text path (duplicate members) -/

theorem lookup_utf8 (k : Bytes) : ∀ (ms : List (Bytes × J)) (v : J), utf8Members ms = true →
    lookup k ms = some v → v.utf8 = true
  | [], v, _, h => by simp [lookup] at h
  | (k', v') :: ms, v, hu, h => by
    simp only [utf8Members, Bool.and_eq_true] at hu
    simp only [lookup] at h
    split at h
    · simp at h; rw [← h]; exact hu.1.2
    · exact lookup_utf8 k ms v hu.2 h

theorem removeKey_utf8 (k : Bytes) : ∀ (ms : List (Bytes × J)), utf8Members ms = true →
    utf8Members (removeKey k ms) = true
  | [], _ => rfl
  | (k', v') :: ms, hu => by
    simp only [utf8Members, Bool.and_eq_true] at hu
    simp only [removeKey]
    split
    · exact removeKey_utf8 k ms hu.2
    · simp [utf8Members, hu.1.1, hu.1.2, removeKey_utf8 k ms hu.2]

mutual
theorem dedup_utf8 : ∀ (j : J), j.utf8 = true → (dedup j).utf8 = true
  | .arr xs, h => by
    simp only [dedup, J.utf8]
    exact dedupList_utf8 xs (by simpa [J.utf8] using h)
  | .obj ms, h => by
    simp only [dedup, J.utf8]
    exact dedupMembers_utf8 ms (by simpa [J.utf8] using h)
  | .null, _ => rfl
  | .bool _, _ => rfl
  | .num _, _ => rfl
  | .str s, h => by simpa [dedup] using h
theorem dedupList_utf8 : ∀ (xs : List J), utf8List xs = true → utf8List (dedupList xs) = true
  | [], _ => rfl
  | x :: xs, h => by
    simp only [utf8List, Bool.and_eq_true] at h
    simp [dedupList, utf8List, dedup_utf8 x h.1, dedupList_utf8 xs h.2]
theorem dedupMembers_utf8 : ∀ (ms : List (Bytes × J)), utf8Members ms = true →
    utf8Members (dedupMembers ms) = true
  | [], _ => rfl
  | (k, v) :: ms, h => by
    simp only [utf8Members, Bool.and_eq_true] at h
    have ih := dedupMembers_utf8 ms h.2
    simp only [dedupMembers]
    split
    · rename_i v' hv'
      simp [utf8Members, h.1.1, lookup_utf8 k _ v' ih hv', removeKey_utf8 k _ ih]
    · simp [utf8Members, h.1.1, dedup_utf8 v h.1.2, ih]
end

theorem dedupFields_utf8 : ∀ (fs : List (Bytes × J)), utf8Members fs = true →
    utf8Members (fs.map dedupField) = true
  | [], _ => rfl
  | (k, v) :: fs, h => by
    simp only [utf8Members, Bool.and_eq_true] at h
    simp only [List.map_cons, dedupField]
    split
    · simp [utf8Members, h.1.1, dedup_utf8 v h.1.2, dedupFields_utf8 fs h.2]
    · simp [utf8Members, h.1.1, h.1.2, dedupFields_utf8 fs h.2]

theorem dedupElem_utf8 (j : J) (h : j.utf8 = true) : (dedupElem j).utf8 = true := by
  cases j <;> simp_all [dedupElem, J.utf8]
  case obj fs => exact dedupFields_utf8 fs h

theorem dedupTopMembers_utf8 : ∀ (ms : List (Bytes × J)), utf8Members ms = true →
    utf8Members (ms.map fun (k, v) => (k, dedupElem v)) = true
  | [], _ => rfl
  | (k, v) :: ms, h => by
    simp only [utf8Members, Bool.and_eq_true] at h
    simp [utf8Members, h.1.1, dedupElem_utf8 v h.1.2, dedupTopMembers_utf8 ms h.2]

theorem dedupTop_utf8 (j : J) (h : j.utf8 = true) : (dedupTop j).utf8 = true := by
  cases j <;> simp_all [dedupTop, J.utf8]
  case obj ms => exact dedupTopMembers_utf8 ms h

/-- … and `dicom_json::from_str`, on a text with any tree, duplicate members included -/
theorem from_str_no_panic (j : J) (h : j.utf8 = true) : fromStr j ≠ .panic :=
  dsOfJ_ne_panic _ (dedupTop_utf8 j h)

/-- `from_value` after `serde_json` built the `Value` of a text -/
theorem from_value_of_text_no_panic (j : J) (h : j.utf8 = true) : fromValue (dedup j) ≠ .panic :=
  dsOfJ_ne_panic _ (dedup_utf8 j h)

/-! ### a tree without repeated member names is its own `Value` -/

mutual
def noDup : J → Bool
  | .arr xs => noDupList xs
  | .obj ms => noDupMembers ms
  | _ => true
def noDupList : List J → Bool
  | [] => true
  | x :: xs => noDup x && noDupList xs
def noDupMembers : List (Bytes × J) → Bool
  | [] => true
  | (k, v) :: ms => (lookup k ms).isNone && noDup v && noDupMembers ms
end

mutual
theorem dedup_id : ∀ (j : J), noDup j = true → dedup j = j
  | .arr xs, h => by
    simp only [dedup]
    rw [dedupList_id xs (by simpa [noDup] using h)]
  | .obj ms, h => by
    simp only [dedup]
    rw [dedupMembers_id ms (by simpa [noDup] using h)]
  | .null, _ => rfl
  | .bool _, _ => rfl
  | .num _, _ => rfl
  | .str _, _ => rfl
theorem dedupList_id : ∀ (xs : List J), noDupList xs = true → dedupList xs = xs
  | [], _ => rfl
  | x :: xs, h => by
    simp only [noDupList, Bool.and_eq_true] at h
    simp [dedupList, dedup_id x h.1, dedupList_id xs h.2]
theorem dedupMembers_id : ∀ (ms : List (Bytes × J)), noDupMembers ms = true →
    dedupMembers ms = ms
  | [], _ => rfl
  | (k, v) :: ms, h => by
    simp only [noDupMembers, Bool.and_eq_true, Option.isNone_iff_eq_none] at h
    simp only [dedupMembers, dedupMembers_id ms h.2, h.1.1, dedup_id v h.1.2]
end

theorem dedupFields_id : ∀ (fs : List (Bytes × J)), noDupMembers fs = true →
    fs.map dedupField = fs
  | [], _ => rfl
  | (k, v) :: fs, h => by
    simp only [noDupMembers, Bool.and_eq_true] at h
    simp only [List.map_cons, dedupField, dedupFields_id fs h.2]
    split
    · rw [dedup_id v h.1.2]
    · rfl

theorem dedupTopMembers_id : ∀ (ms : List (Bytes × J)), noDupMembers ms = true →
    (ms.map fun (k, v) => (k, dedupElem v)) = ms
  | [], _ => rfl
  | (k, v) :: ms, h => by
    simp only [noDupMembers, Bool.and_eq_true] at h
    simp only [List.map_cons, dedupTopMembers_id ms h.2]
    cases v <;> simp [dedupElem]
    case obj fs => exact dedupFields_id fs (by simpa [noDup] using h.1.2)

theorem dedupTop_id (j : J) (h : noDup j = true) : dedupTop j = j := by
  cases j <;> simp [dedupTop]
  case obj ms => exact dedupTopMembers_id ms (by simpa [noDup] using h)

/-! ### the serialiser never repeats a member name -/

theorem tagKey_inj {a b : Nat} (ha : a < 4294967296) (hb : b < 4294967296)
    (h : tagKey a = tagKey b) : a = b := by
  have h1 := parseTag_tagKey ha
  have h2 := parseTag_tagKey hb
  rw [h] at h1
  rw [h1] at h2
  simpa using h2

theorem lookup_none_of_keys (k : Bytes) : ∀ (ms : List (Bytes × J)), k ∉ keysOf ms →
    lookup k ms = none
  | [], _ => rfl
  | (k', v) :: ms, h => by
    simp only [keysOf, List.mem_cons, not_or] at h
    have : (k' == k) = false := by
      simp; exact fun e => h.1 e.symm
    simp [lookup, this, lookup_none_of_keys k ms h.2]

theorem noDupList_map {α : Type} (f : α → J) (hf : ∀ a, noDup (f a) = true) :
    ∀ (l : List α), noDupList (l.map f) = true
  | [] => rfl
  | a :: r => by simp [noDupList, hf a, noDupList_map f hf r]

theorem noDup_floatItem (F : Fmt) (w : Nat → Nat) (x : Nat) : noDup (floatItem F w x) = true := by
  unfold floatItem
  split
  · rfl
  · split
    · rfl
    · split
      · rfl
      · split <;> rfl

theorem noDup_intNum (i : Int) : noDup (intNum i) = true := by
  unfold intNum; split <;> rfl

theorem noDup_asNumbers (p : Prim) (j : J) (h : asNumbers p = .ok j) : noDup j = true := by
  cases p <;> simp [asNumbers] at h <;> subst h <;> simp only [noDup]
  case empty => rfl
  case strs l => exact noDupList_map _ (fun _ => rfl) l
  case str s => rfl
  case u8 l => exact noDupList_map _ (fun _ => rfl) l
  case i16 l => exact noDupList_map _ noDup_intNum l
  case u16 l => exact noDupList_map _ (fun _ => rfl) l
  case i32 l => exact noDupList_map _ noDup_intNum l
  case u32 l => exact noDupList_map _ (fun _ => rfl) l
  case i64 l => exact noDupList_map _ (fun i => by split <;> simp [noDup_intNum, noDup]) l
  case u64 l => exact noDupList_map _ (fun i => by split <;> rfl) l
  case f32 l => exact noDupList_map _ (noDup_floatItem _ _) l
  case f64 l => exact noDupList_map _ (noDup_floatItem _ _) l

theorem noDup_primMembers (vr : VR) (p : Prim) (ms : List (Bytes × J))
    (h : primMembers vr p = .ok ms) : noDupMembers ((kVr, .str (vrName vr)) :: ms) = true := by
  unfold primMembers at h
  split at h
  · simp at h; subst h; rfl
  · split at h
    · simp at h; subst h
      have : noDup (asStrings p) = true := by
        unfold asStrings
        split
        · exact noDupList_map _ (fun _ => rfl) _
        · exact noDupList_map _ (fun _ => rfl) _
      simp [noDupMembers, lookup, kVr_ne, this, noDup]
    · simp at h; subst h
      have : noDup (asPersonNames p) = true := by
        unfold asPersonNames
        exact noDupList_map _ (fun _ => rfl) _
      simp [noDupMembers, lookup, kVr_ne, this, noDup]
    · cases hn : asNumbers p with
      | ok j =>
        simp [hn] at h; subst h
        simp [noDupMembers, lookup, kVr_ne, noDup_asNumbers p j hn, noDup]
      | err => simp [hn] at h
      | panic => simp [hn] at h
    · simp at h; subst h
      simp [noDupMembers, lookup, kVr_ne, inlineBinary, noDup]
    · simp at h

theorem tagsOf_mem_lt (es : List Elem) (h : elemsWf es = true) :
    ∀ t ∈ tagsOf es, t < 4294967296 := tagsOf_lt es h

mutual
theorem noDup_elem : ∀ (e : Elem) (j : J), e.wf = true → elemToJson e = .ok j → noDup j = true
  | .prim t vr p, j, _, h => by
    simp only [elemToJson] at h
    cases hm : primMembers vr p with
    | ok ms =>
      simp [hm] at h; subst h
      simpa [noDup] using noDup_primMembers vr p ms hm
    | err => simp [hm] at h
    | panic => simp [hm] at h
  | .seq t vr [], j, _, h => by
    simp [elemToJson] at h; subst h; rfl
  | .seq t vr (d :: ds), j, hw, h => by
    simp only [Elem.wf, Bool.and_eq_true] at hw
    simp only [elemToJson] at h
    cases hi : itemsToJson (d :: ds) with
    | ok js =>
      simp [hi] at h; subst h
      have := noDup_items (d :: ds) js hw.2 hi
      simp [noDup, noDupMembers, lookup, kVr_ne, this]
    | err => simp [hi] at h
    | panic => simp [hi] at h
  | .pix t vr, j, _, h => by
    simp [elemToJson] at h; subst h; rfl
theorem noDup_items : ∀ (items : List (List Elem)) (js : List J), itemsWf items = true →
    itemsToJson items = .ok js → noDupList js = true
  | [], js, _, h => by simp [itemsToJson] at h; subst h; rfl
  | d :: ds, js, hw, h => by
    simp only [itemsWf, Bool.and_eq_true] at hw
    simp only [itemsToJson] at h
    cases hm : membersToJson d with
    | ok ms =>
      cases hi : itemsToJson ds with
      | ok js' =>
        simp [hm, hi] at h; subst h
        have h1 := noDup_members d ms hw.1.1 hw.1.2 hm
        have h2 := noDup_items ds js' hw.2 hi
        simp [noDupList, noDup, h1.1, h2]
      | err => simp [hm, hi] at h
      | panic => simp [hm, hi] at h
    | err => simp [hm] at h
    | panic => simp [hm] at h
theorem noDup_members : ∀ (es : List Elem) (ms : List (Bytes × J)), elemsWf es = true →
    sortedTags (tagsOf es) = true → membersToJson es = .ok ms →
    noDupMembers ms = true ∧ keysOf ms = (tagsOf es).map tagKey
  | [], ms, _, _, h => by simp [membersToJson] at h; subst h; exact ⟨rfl, rfl⟩
  | e :: es, ms, hw, hs, h => by
    simp only [elemsWf, Bool.and_eq_true] at hw
    simp only [membersToJson] at h
    cases he : elemToJson e with
    | ok j =>
      cases hm : membersToJson es with
      | ok ms' =>
        simp [he, hm] at h; subst h
        have hs' : sortedTags (e.tag :: tagsOf es) = true := by simpa [tagsOf] using hs
        have ih := noDup_members es ms' hw.2 (sorted_tail _ _ hs') hm
        have hj := noDup_elem e j hw.1 he
        refine ⟨?_, by simp [keysOf, tagsOf, ih.2]⟩
        have hnot : tagKey e.tag ∉ keysOf ms' := by
          rw [ih.2]
          intro hmem
          simp only [List.mem_map] at hmem
          obtain ⟨t, ht, hk⟩ := hmem
          have hlt := sorted_head_lt _ _ hs' t ht
          have := tagKey_inj (tagsOf_mem_lt es hw.2 t ht) (Elem.wf_tag e hw.1) hk
          omega
        simp [noDupMembers, lookup_none_of_keys _ _ hnot, hj, ih.1]
      | err => simp [he, hm] at h
      | panic => simp [he, hm] at h
    | err => simp [he] at h
    | panic => simp [he] at h
end

/-- the written tree has no repeated member name, so reading it as a text (streamed, with
`Value`s going through `serde_json::Value`) is reading the tree -/
theorem fromStr_toJson (ds : DataSet) (hw : ds.wf = true) (j : J) (h : toJson ds = .ok j) :
    fromStr j = fromValue j := by
  simp only [DataSet.wf, Bool.and_eq_true] at hw
  unfold toJson at h
  cases hm : membersToJson ds with
  | ok ms =>
    simp [hm] at h; subst h
    have := (noDup_members ds ms hw.1 hw.2 hm).1
    simp only [fromStr, fromValue]
    rw [dedupTop_id _ (by simpa [noDup] using this)]
  | err => simp [hm] at h
  | panic => simp [hm] at h

/-- **C23, first sentence, text path.** `from_str(to_string(ds))`, given that the JSON text layer
hands back the tree that was written. -/
theorem json_rt_text (hF : F32WidenNarrow) (ds : DataSet) (hw : ds.wf = true)
    (ht : elemsTyped ds = true) (hp : elemsNoPix ds = true) :
    ∃ j, toJson ds = .ok j ∧ fromStr j = .ok (normDs ds) := by
  obtain ⟨j, h1, h2⟩ := json_rt hF ds hw ht hp
  exact ⟨j, h1, by rw [fromStr_toJson ds hw j h1]; exact h2⟩

end Dicom.Json
