import DicomModel.Model.Json
import DicomModel.Lemmas.Json
import DicomModel.Props.C24
/-
C23 — DICOM JSON round trip; deserialising any JSON text never panics.

Part A (`from_json_no_panic`): for EVERY JSON tree (any shape, any depth, duplicate members,
conflicting fields, bad tags, bad VRs …) whose strings are UTF-8, the model of
`dicom_json::from_value` / `from_str` returns `ok` or `err`, never `panic`.  The model keeps the
panic sites of the code (`&s[1..]`, `split_at(4)`, `.expect("failed to parse tag part")`, the
final `unreachable!()`), and the theorem shows that they are not reachable in the repaired code.
Part B (`json_rt`): see below.
-/
set_option linter.unusedSimpArgs false
set_option linter.unusedVariables false
namespace Dicom.Json
open Dicom.Flt

/-! ### outcomes -/

theorem bind_ne_panic {α β : Type} {x : Outcome α} {f : α → Outcome β}
    (hx : x ≠ .panic) (hf : ∀ a, x = .ok a → f a ≠ .panic) : x.bind f ≠ .panic := by
  cases x with
  | ok a => exact hf a rfl
  | err => simp
  | panic => exact absurd rfl hx

theorem map_ne_panic {α β : Type} {x : Outcome α} {f : α → β}
    (hx : x ≠ .panic) : x.map f ≠ .panic := by
  cases x <;> simp_all

theorem ensure_ne_panic (c : Bool) : ensure c ≠ .panic := by
  unfold ensure; split <;> simp

theorem ofOption_ne_panic {α : Type} (o : Option α) : ofOption o ≠ .panic := by
  cases o <;> simp [ofOption]

theorem mapM_ne_panic {α β : Type} (f : α → Outcome β) :
    ∀ (l : List α), (∀ a ∈ l, f a ≠ .panic) → mapM f l ≠ .panic
  | [], _ => by simp [mapM]
  | a :: r, h => by
    simp only [mapM]
    refine bind_ne_panic (h a (by simp)) fun b _ => map_ne_panic ?_
    exact mapM_ne_panic f r fun x hx => h x (by simp [hx])

/-! ### `Tag::from_str` -/

theorem utf8ok_head {b : Nat} {r : Bytes} (h : utf8ok (b :: r) = true) : isCont b = false := by
  unfold utf8ok at h
  unfold isCont
  split at h
  · simp; try omega
  · split at h
    · simp_all <;> omega
    · split at h
      · simp_all <;> omega
      · split at h
        · simp_all <;> omega
        · simp at h

theorem utf8ok_tail_ascii {b : Nat} {r : Bytes} (hb : b < 128) (h : utf8ok (b :: r) = true) :
    utf8ok r = true := by
  unfold utf8ok at h
  simpa [hb] using h

/-- slicing one byte off after an ASCII byte is on a char boundary -/
theorem sliceFrom_one {b : Nat} {r : Bytes} (hb : b < 128) (h : utf8ok (b :: r) = true) :
    sliceFrom (b :: r) 1 = .ok r := by
  have hr := utf8ok_tail_ascii hb h
  unfold sliceFrom isCharBoundary
  cases r with
  | nil => simp
  | cons c t =>
    have := utf8ok_head hr
    simp [this]

theorem parseHex_some : ∀ (l : Bytes) (acc : Nat), l.all isHexDigit = true →
    ∃ n, l.foldl (fun acc b => match acc, hexDigitVal b with
      | some a, some d => some (a * 16 + d)
      | _, _ => none) (some acc) = some n
  | [], acc, _ => ⟨acc, rfl⟩
  | b :: r, acc, h => by
    simp only [List.all_cons, Bool.and_eq_true] at h
    have hd : ∃ d, hexDigitVal b = some d := by
      unfold isHexDigit at h
      unfold hexDigitVal
      split
      · exact ⟨_, rfl⟩
      · split
        · exact ⟨_, rfl⟩
        · split
          · exact ⟨_, rfl⟩
          · simp_all
    obtain ⟨d, hd⟩ := hd
    simp only [List.foldl_cons, hd]
    exact parseHex_some r _ h.2

theorem isCharBoundary_four {s : Bytes} (h : isCharBoundary s 4 = true) : 4 ≤ s.length := by
  unfold isCharBoundary at h
  simp at h
  rcases h with h | h
  · omega
  · cases hs : s[4]? with
    | none => simp [hs] at h
    | some b =>
      have := List.getElem?_eq_some_iff.mp hs
      obtain ⟨hl, _⟩ := this
      omega

/-- `parse_tag_part` never panics; when it succeeds the input is four ASCII hex digits followed
by the rest -/
theorem parseTagPart_spec (s : Bytes) :
    parseTagPart s ≠ .panic ∧
    ∀ n rest, parseTagPart s = .ok (n, rest) →
      s = s.take 4 ++ rest ∧ (s.take 4).length = 4 ∧ (s.take 4).all isHexDigit = true := by
  unfold parseTagPart
  by_cases hb : isCharBoundary s 4 = true
  · have hl := isCharBoundary_four hb
    simp only [hb, ensure, if_true, Outcome.bind_ok, splitAtB]
    by_cases hh : (s.take 4).all isHexDigit = true
    · have hne : s.take 4 ≠ [] := by
        intro e
        have : (s.take 4).length = 4 := by simp; omega
        rw [e] at this; simp at this
      obtain ⟨n, hn⟩ := parseHex_some (s.take 4) 0 hh
      have hp : parseHex (s.take 4) = some n := by
        unfold parseHex
        split
        · rename_i heq; exact absurd heq hne
        · exact hn
      simp only [hh, if_true, Outcome.bind_ok, hp, expect, Outcome.map_ok]
      refine ⟨by simp, ?_⟩
      intro n' rest h
      simp only [Outcome.ok.injEq, Prod.mk.injEq] at h
      refine ⟨?_, ?_, by simp [hh]⟩
      · rw [← h.2]; simp
      · simp; omega
    · simp [hh]
  · simp [hb, ensure]

theorem utf8ok_drop_ascii : ∀ (k : Nat) (s : Bytes), utf8ok s = true →
    (s.take k).all isHexDigit = true → utf8ok (s.drop k) = true
  | 0, s, h, _ => by simpa using h
  | k + 1, [], h, _ => by simp [utf8ok]
  | k + 1, b :: r, h, hh => by
    simp only [List.take_succ_cons, List.all_cons, Bool.and_eq_true] at hh
    have hb : b < 128 := by
      have := hh.1
      unfold isHexDigit at this
      simp at this
      omega
    simp only [List.drop_succ_cons]
    exact utf8ok_drop_ascii k r (utf8ok_tail_ascii hb h) hh.2

theorem parseTagPart_rest_utf8 {s : Bytes} {n : Nat} {rest : Bytes} (hu : utf8ok s = true)
    (h : parseTagPart s = .ok (n, rest)) : utf8ok rest = true := by
  obtain ⟨h1, _, h3⟩ := (parseTagPart_spec s).2 n rest h
  have := utf8ok_drop_ascii 4 s hu h3
  have hd : s.drop 4 = rest := by
    have e := h1
    have : s.drop 4 = (s.take 4 ++ rest).drop 4 := by rw [← e]
    rw [this]
    have hl : (s.take 4).length = 4 := by
      obtain ⟨_, h2, _⟩ := (parseTagPart_spec s).2 n rest h
      exact h2
    rw [List.drop_append_of_le_length (by omega)]
    simp [hl]
  rw [← hd]; exact this

theorem head_cons_of {s : Bytes} {b : Nat} (h : (s.head? == some b) = true) :
    ∃ r, s = b :: r := by
  cases s with
  | nil => simp at h
  | cons a r => simp at h; exact ⟨r, by rw [h]⟩

/-- `Tag::from_str` (repaired) never panics on a Rust string -/
theorem parseTag_ne_panic (s : Bytes) (hu : utf8ok s = true) : parseTag s ≠ .panic := by
  unfold parseTag
  split
  · -- (gggg,eeee)
    refine bind_ne_panic (ensure_ne_panic _) fun _ he => ?_
    have hc : (s.head? == some 40) = true := by
      unfold ensure at he; split at he <;> simp_all
    obtain ⟨r, rfl⟩ := head_cons_of hc
    rw [sliceFrom_one (by decide) hu]
    simp only [Outcome.bind_ok]
    have hr := utf8ok_tail_ascii (by decide : 40 < 128) hu
    refine bind_ne_panic (parseTagPart_spec r).1 fun ⟨g, rest⟩ hg => ?_
    have hrest := parseTagPart_rest_utf8 hr hg
    refine bind_ne_panic (ensure_ne_panic _) fun _ he2 => ?_
    have hc2 : (rest.head? == some 44) = true := by
      unfold ensure at he2; split at he2 <;> simp_all
    obtain ⟨r2, rfl⟩ := head_cons_of hc2
    rw [sliceFrom_one (by decide) hrest]
    simp only [Outcome.bind_ok]
    refine bind_ne_panic (parseTagPart_spec r2).1 fun ⟨e, rest2⟩ _ => ?_
    exact map_ne_panic (ensure_ne_panic _)
  · split
    · refine bind_ne_panic (parseTagPart_spec s).1 fun ⟨g, rest⟩ hg => ?_
      have hrest := parseTagPart_rest_utf8 hu hg
      refine bind_ne_panic (ensure_ne_panic _) fun _ he2 => ?_
      have hc2 : (rest.head? == some 44) = true := by
        unfold ensure at he2; split at he2 <;> simp_all
      obtain ⟨r2, rfl⟩ := head_cons_of hc2
      rw [sliceFrom_one (by decide) hrest]
      simp only [Outcome.bind_ok]
      exact map_ne_panic (parseTagPart_spec r2).1
    · split
      · refine bind_ne_panic (parseTagPart_spec s).1 fun ⟨g, rest⟩ _ => ?_
        exact map_ne_panic (parseTagPart_spec rest).1
      · simp

/-! ### value conversions -/

theorem utf8List_mem : ∀ (xs : List J), utf8List xs = true → ∀ x ∈ xs, x.utf8 = true
  | [], _, x, hx => by simp at hx
  | y :: ys, h, x, hx => by
    simp only [utf8List, Bool.and_eq_true] at h
    simp only [List.mem_cons] at hx
    cases hx with
    | inl e => rw [e]; exact h.1
    | inr e => exact utf8List_mem ys h.2 x e

theorem atItem_ne_panic (x : J) (h : x.utf8 = true) : atItem x ≠ .panic := by
  cases x <;> simp [atItem]
  case str s => exact parseTag_ne_panic s (by simpa [J.utf8] using h)

theorem textItem_ne_panic (x : J) : textItem x ≠ .panic := by cases x <;> simp [textItem]
theorem intItem_ne_panic (lo hi : Int) (x : J) : intItem lo hi x ≠ .panic := by
  cases x <;> simp [intItem]
  case num n => cases n <;> simp [intItem] <;> split <;> simp
theorem natItem_ne_panic (hi : Nat) (x : J) : natItem hi x ≠ .panic := by
  cases x <;> simp [natItem]
  case num n => cases n <;> simp [natItem]; split <;> simp
theorem numOrText_ne_panic (a : Num → Bool) (x : J) : numOrText a x ≠ .panic := by
  cases x <;> simp [numOrText]
  case num n => split <;> simp
theorem ntToFloat_ne_panic (F : Fmt) (x : NT) : ntToFloat F x ≠ .panic := by
  cases x <;> simp [ntToFloat, ofOption_ne_panic]
theorem ntToI64_ne_panic (x : NT) : ntToI64 x ≠ .panic := by
  cases x with
  | num n => cases n <;> simp [ntToI64]
  | text s => simp [ntToI64, ofOption_ne_panic]
theorem ntToU_ne_panic (hi : Nat) (x : NT) : ntToU hi x ≠ .panic := by
  cases x with
  | num n => cases n <;> simp [ntToU]
  | text s => simp [ntToU, ofOption_ne_panic]
theorem asStr_ne_panic (x : J) : asStr x ≠ .panic := by cases x <;> simp [asStr]
theorem optStr_ne_panic (x : J) : optStr x ≠ .panic := by cases x <;> simp [optStr]
theorem arrOf_ne_panic (x : J) : arrOf x ≠ .panic := by cases x <;> simp [arrOf]

theorem personFields_ne_panic : ∀ (ms : List (Bytes × J)) (st : PnSt), personFields ms st ≠ .panic
  | [], st => by simp [personFields]
  | (k, v) :: r, st => by
    unfold personFields
    split
    · split
      · simp
      · exact bind_ne_panic (asStr_ne_panic v) fun _ _ => personFields_ne_panic r _
    · split
      · split
        · simp
        · exact bind_ne_panic (optStr_ne_panic v) fun _ _ => personFields_ne_panic r _
      · split
        · split
          · simp
          · exact bind_ne_panic (optStr_ne_panic v) fun _ _ => personFields_ne_panic r _
        · exact personFields_ne_panic r st

theorem personItem_ne_panic (x : J) : personItem x ≠ .panic := by
  unfold personItem
  split
  · refine bind_ne_panic (personFields_ne_panic _ _) fun st _ => ?_
    split <;> simp
  · exact bind_ne_panic (asStr_ne_panic _) fun _ _ =>
      bind_ne_panic (optStr_ne_panic _) fun _ _ => map_ne_panic (optStr_ne_panic _)
  · simp

theorem arrOf_utf8 {v : J} {xs : List J} (hv : v.utf8 = true) (h : arrOf v = .ok xs) :
    utf8List xs = true := by
  cases v <;> simp [arrOf] at h
  case arr ys => subst h; simpa [J.utf8] using hv

/-- the per-VR conversion of a `"Value"` never panics -/
theorem convertPrim_ne_panic (vr : VR) (v : J) (hv : v.utf8 = true) :
    convertPrim vr v ≠ .panic := by
  unfold convertPrim
  split
  · simp
  · simp
  · exact bind_ne_panic (arrOf_ne_panic v) fun xs _ =>
      map_ne_panic (mapM_ne_panic _ _ fun a _ => textItem_ne_panic a)
  · exact bind_ne_panic (arrOf_ne_panic v) fun xs _ =>
      map_ne_panic (mapM_ne_panic _ _ fun a _ => intItem_ne_panic _ _ a)
  · exact bind_ne_panic (arrOf_ne_panic v) fun xs _ =>
      map_ne_panic (mapM_ne_panic _ _ fun a _ => natItem_ne_panic _ a)
  · exact bind_ne_panic (arrOf_ne_panic v) fun xs _ =>
      map_ne_panic (mapM_ne_panic _ _ fun a _ => intItem_ne_panic _ _ a)
  · exact bind_ne_panic (arrOf_ne_panic v) fun xs _ =>
      map_ne_panic (mapM_ne_panic _ _ fun a _ => natItem_ne_panic _ a)
  · exact bind_ne_panic (arrOf_ne_panic v) fun xs _ =>
      bind_ne_panic (mapM_ne_panic _ _ fun a _ => numOrText_ne_panic _ a) fun nts _ =>
      map_ne_panic (mapM_ne_panic _ _ fun a _ => ntToFloat_ne_panic _ a)
  · exact bind_ne_panic (arrOf_ne_panic v) fun xs _ =>
      bind_ne_panic (mapM_ne_panic _ _ fun a _ => numOrText_ne_panic _ a) fun nts _ =>
      map_ne_panic (mapM_ne_panic _ _ fun a _ => ntToFloat_ne_panic _ a)
  · exact bind_ne_panic (arrOf_ne_panic v) fun xs _ =>
      bind_ne_panic (mapM_ne_panic _ _ fun a _ => numOrText_ne_panic _ a) fun nts _ =>
      map_ne_panic (mapM_ne_panic _ _ fun a _ => ntToI64_ne_panic a)
  · exact bind_ne_panic (arrOf_ne_panic v) fun xs _ =>
      bind_ne_panic (mapM_ne_panic _ _ fun a _ => numOrText_ne_panic _ a) fun nts _ =>
      map_ne_panic (mapM_ne_panic _ _ fun a _ => ntToU_ne_panic _ a)
  · exact bind_ne_panic (arrOf_ne_panic v) fun xs _ =>
      bind_ne_panic (mapM_ne_panic _ _ fun a _ => numOrText_ne_panic _ a) fun nts _ =>
      map_ne_panic (mapM_ne_panic _ _ fun a _ => ntToU_ne_panic _ a)
  · exact bind_ne_panic (arrOf_ne_panic v) fun xs _ =>
      map_ne_panic (mapM_ne_panic _ _ fun a _ => numOrText_ne_panic _ a)
  · exact bind_ne_panic (arrOf_ne_panic v) fun xs _ =>
      map_ne_panic (mapM_ne_panic _ _ fun a _ => personItem_ne_panic a)
  · exact bind_ne_panic (arrOf_ne_panic v) fun xs hxs =>
      map_ne_panic (mapM_ne_panic _ _ fun a ha =>
        atItem_ne_panic a (utf8List_mem xs (arrOf_utf8 hv hxs) a ha))

/-! ### the element visitor -/

/-- invariant of the field loop: `"Value"` and `"InlineBinary"` are never both set (the repaired
conflict checks), and what is stored for `"Value"` is UTF-8 with a panic-free reading as items -/
def ElSt.good (st : ElSt) : Prop :=
  (st.value.isSome = true → st.inline = none) ∧
  (∀ v sq, st.value = some (v, sq) → v.utf8 = true ∧ sq ≠ .panic)

theorem finish_ne_panic (tag : Nat) (st : ElSt) (hg : st.good) : finish tag st ≠ .panic := by
  unfold finish
  split
  · simp
  · rename_i vr hvr
    obtain ⟨g1, g2⟩ := hg
    cases hval : st.value with
    | none =>
      simp only [Outcome.bind_ok]
      cases hin : st.inline with
      | none => by_cases hq : vr = VR.SQ <;> simp [hq]
      | some b =>
        simp only
        cases b64dec b <;> simp
    | some pr =>
      obtain ⟨v, sq⟩ := pr
      have hv := g2 v sq hval
      have hin : st.inline = none := g1 (by simp [hval])
      simp only [hin]
      split
      · -- SQ
        cases sq with
        | ok items => simp
        | err => simp
        | panic => exact absurd rfl hv.2
      · have := convertPrim_ne_panic vr v hv.1
        cases hc : convertPrim vr v with
        | ok p => simp
        | err => simp
        | panic => exact absurd hc this

theorem good_init : ({} : ElSt).good := by
  constructor
  · intro h; simp at h
  · intro v sq h; simp at h

mutual
theorem dsOfJ_ne_panic : ∀ (j : J), j.utf8 = true → dsOfJ j ≠ .panic
  | .obj ms, h => by
    simp only [dsOfJ]
    exact map_ne_panic (elemsOfMembers_ne_panic ms (by simpa [J.utf8] using h))
  | .null, _ => by simp [dsOfJ]
  | .bool _, _ => by simp [dsOfJ]
  | .num _, _ => by simp [dsOfJ]
  | .str _, _ => by simp [dsOfJ]
  | .arr _, _ => by simp [dsOfJ]
theorem elemsOfMembers_ne_panic : ∀ (ms : List (Bytes × J)), utf8Members ms = true →
    elemsOfMembers ms ≠ .panic
  | [], _ => by simp [elemsOfMembers]
  | (k, v) :: ms, h => by
    simp only [utf8Members, Bool.and_eq_true] at h
    simp only [elemsOfMembers]
    refine bind_ne_panic (parseTag_ne_panic k h.1.1) fun tag _ => ?_
    refine bind_ne_panic (elemOfJ_ne_panic tag v h.1.2) fun oe _ => ?_
    exact map_ne_panic (elemsOfMembers_ne_panic ms h.2)
theorem elemOfJ_ne_panic (tag : Nat) : ∀ (j : J), j.utf8 = true → elemOfJ tag j ≠ .panic
  | .obj fs, h => by
    simp only [elemOfJ]
    have hs := scanFields_good fs {} (by simpa [J.utf8] using h) good_init
    exact bind_ne_panic hs.1 fun st hst => finish_ne_panic tag st (hs.2 st hst)
  | .null, _ => by simp [elemOfJ]
  | .bool _, _ => by simp [elemOfJ]
  | .num _, _ => by simp [elemOfJ]
  | .str _, _ => by simp [elemOfJ]
  | .arr _, _ => by simp [elemOfJ]
theorem scanFields_good : ∀ (fs : List (Bytes × J)) (st : ElSt), utf8Members fs = true →
    st.good → scanFields fs st ≠ .panic ∧ ∀ st', scanFields fs st = .ok st' → st'.good
  | [], st, _, hg => by
    simp only [scanFields]
    exact ⟨by simp, fun st' h => by simp at h; rw [← h]; exact hg⟩
  | (k, v) :: fs, st, h, hg => by
    simp only [utf8Members, Bool.and_eq_true] at h
    obtain ⟨g1, g2⟩ := hg
    unfold scanFields
    split
    · -- "vr"
      split
      · exact ⟨by simp, fun st' h' => by simp at h'⟩
      · cases hs : asStr v with
        | ok s =>
          simp only [Outcome.bind_ok]
          exact scanFields_good fs _ h.2 ⟨g1, g2⟩
        | err => exact ⟨by simp, fun st' h' => by simp at h'⟩
        | panic => exact absurd hs (asStr_ne_panic v)
    · split
      · -- "Value"
        split
        · exact ⟨by simp, fun st' h' => by simp at h'⟩
        · rename_i hc
          have hin : st.inline = none := by
            cases hi : st.inline with
            | none => rfl
            | some b => simp [hi] at hc
          refine scanFields_good fs _ h.2 ⟨fun _ => hin, ?_⟩
          intro v' sq' he
          simp only [Option.some.injEq, Prod.mk.injEq] at he
          rw [← he.1, ← he.2]
          exact ⟨h.1.2, seqItemsOf_ne_panic v h.1.2⟩
      · split
        · -- "InlineBinary"
          split
          · exact ⟨by simp, fun st' h' => by simp at h'⟩
          · rename_i hc
            have hval : st.value = none := by
              cases hv : st.value with
              | none => rfl
              | some b => simp [hv] at hc
            cases hs : asStr v with
            | ok s =>
              simp only [Outcome.bind_ok]
              refine scanFields_good fs _ h.2 ⟨?_, ?_⟩
              · intro hsome; simp [hval] at hsome
              · intro v' sq' he; simp [hval] at he
            | err => exact ⟨by simp, fun st' h' => by simp at h'⟩
            | panic => exact absurd hs (asStr_ne_panic v)
        · split
          · -- "BulkDataURI"
            split
            · exact ⟨by simp, fun st' h' => by simp at h'⟩
            · cases hs : asStr v with
              | ok s =>
                simp only [Outcome.bind_ok]
                exact scanFields_good fs _ h.2 ⟨g1, g2⟩
              | err => exact ⟨by simp, fun st' h' => by simp at h'⟩
              | panic => exact absurd hs (asStr_ne_panic v)
          · exact ⟨by simp, fun st' h' => by simp at h'⟩
theorem seqItemsOf_ne_panic : ∀ (j : J), j.utf8 = true → seqItemsOf j ≠ .panic
  | .arr xs, h => by
    simp only [seqItemsOf]
    exact itemsOf_ne_panic xs (by simpa [J.utf8] using h)
  | .null, _ => by simp [seqItemsOf]
  | .bool _, _ => by simp [seqItemsOf]
  | .num _, _ => by simp [seqItemsOf]
  | .str _, _ => by simp [seqItemsOf]
  | .obj _, _ => by simp [seqItemsOf]
theorem itemsOf_ne_panic : ∀ (xs : List J), utf8List xs = true → itemsOf xs ≠ .panic
  | [], _ => by simp [itemsOf]
  | x :: xs, h => by
    simp only [utf8List, Bool.and_eq_true] at h
    simp only [itemsOf]
    refine bind_ne_panic (dsOfJ_ne_panic x h.1) fun d _ => ?_
    exact map_ne_panic (itemsOf_ne_panic xs h.2)
end

/-- **C23, second sentence.** Deserialising ANY JSON tree gives a data set or an error, never a
panic: `dicom_json::from_value` … -/
theorem from_value_no_panic (j : J) (h : j.utf8 = true) : fromValue j ≠ .panic :=
  dsOfJ_ne_panic j h

end Dicom.Json
