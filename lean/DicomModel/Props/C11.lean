import DicomModel.Model.NumConv
import DicomModel.Model.NumConvSpec
import DicomModel.Lemmas.NumConv
/-
C11 — Numeric value conversions are exact or fail.

Model: `DicomModel/Model/NumConv.lean` (`toInt`, `toMultiInt`, `toFloat`, `toMultiFloat`, `extend`,
`truncate` = the Rust methods, with `NumCast` = range check, `as` = wrap, `str::parse` = the
checked accumulation loop). Spec: `DicomModel/Model/NumConvSpec.lean` (`denote` = the integer a
decimal text stands for, `storedInts` = the stored numbers of a value, `representable`, the list
model `absStep` of `extend_*`/`truncate`).

Modelled is the repaired code (DESIGN §7 #2): `to_multi_int` without the `!is_empty()` guards and
`to_multi_float64` with the `Empty` arm.

One point where the code does less than the statement is stated as an explicit exception, proved
to be one on a witness, and recorded as a known finding (the driver's oracle stays at statement
strength and reports it): `negative-zero-unsigned` — a zero written with a minus sign (`"-0"`) is
refused for unsigned targets although 0 is representable (`parse_neg_zero_unsigned`;
`parse_complete` shows it is the only such case).

`truncate`: the doc comment reads "Shorten this value by removing trailing elements to fit the
given limit. […] Nothing is done if the value's cardinality is already lower than or equal to the
limit." The unchanged code left a `Str` (one item) alone for limit 0; modelled is the repaired code
(/repo 65d0025: `Str` with limit 0 becomes `Empty`), so `truncate_spec` holds for every value.
-/
namespace Dicom.NumConv

/-! ## text → integer: Rust's parsing loop computes the denoted number, or fails -/

/-- `str::parse::<T>` never returns anything but the denoted number, and only if it fits. -/
theorem parse_exact (T : IntTy) (s : List Char) (n : Int) (h : parseInt T s = some n) :
    denote s = some n ∧ InRange T n := by
  have hlo := lo_le_zero T
  have hhi := zero_le_hi T
  match s with
  | [] => simp [parseInt] at h
  | [c] =>
    by_cases h1 : c = '+'
    · subst h1; simp [parseInt] at h
    by_cases h2 : c = '-'
    · subst h2; simp [parseInt] at h
    rw [parseInt_other h1 h2, accPos_iff T _ _ _ (by omega) hhi] at h
    rw [denote_other h1 h2]
    have := digitsFold_ge _ _ _ (by omega) h.1
    exact ⟨h.1, by omega, h.2⟩
  | c :: c' :: rest =>
    by_cases h1 : c = '+'
    · subst h1
      rw [parseInt_plus, accPos_iff T _ _ _ (by omega) hhi] at h
      have := digitsFold_ge _ _ _ (by omega) h.1
      exact ⟨by simpa [denote, digitsVal] using h.1, by omega, h.2⟩
    by_cases h2 : c = '-'
    · subst h2
      rw [parseInt_minus] at h
      split at h
      · rw [accNeg_iff T _ _ _ (by omega) hlo] at h
        have := digitsFold_ge _ _ _ (by omega) h.1
        refine ⟨?_, h.2, by omega⟩
        simp only [denote, digitsVal, List.isEmpty_cons, Bool.false_eq_true, if_false]
        have e := h.1
        simp only [Int.neg_zero] at e
        rw [e]; simp
      · cases h
    rw [parseInt_other h1 h2, accPos_iff T _ _ _ (by omega) hhi] at h
    rw [denote_other h1 h2]
    have := digitsFold_ge _ _ _ (by omega) h.1
    exact ⟨h.1, by omega, h.2⟩

/-- Conversely every text denoting a number that fits is accepted — except that a text with a minus
sign is never accepted for an unsigned type. -/
theorem parse_complete (T : IntTy) (s : List Char) (n : Int) (hd : denote s = some n)
    (hr : InRange T n) (hs : T.signed = true ∨ s.head? ≠ some '-') : parseInt T s = some n := by
  have hlo := lo_le_zero T
  have hhi := zero_le_hi T
  match s with
  | [] => simp [denote, digitsVal] at hd
  | [c] =>
    by_cases h1 : c = '+'
    · subst h1; simp [denote, digitsVal] at hd
    by_cases h2 : c = '-'
    · subst h2; simp [denote, digitsVal] at hd
    rw [denote_other h1 h2] at hd
    rw [parseInt_other h1 h2, accPos_iff T _ _ _ (by omega) hhi]
    exact ⟨hd, hr.2⟩
  | c :: c' :: rest =>
    by_cases h1 : c = '+'
    · subst h1
      rw [parseInt_plus, accPos_iff T _ _ _ (by omega) hhi]
      exact ⟨by simpa [denote, digitsVal] using hd, hr.2⟩
    by_cases h2 : c = '-'
    · subst h2
      have hsg : T.signed = true := by
        rcases hs with hs | hs
        · exact hs
        · simp at hs
      rw [parseInt_minus, if_pos hsg, accNeg_iff T _ _ _ (by omega) hlo]
      simp only [denote, digitsVal, List.isEmpty_cons, Bool.false_eq_true, if_false] at hd
      refine ⟨?_, hr.1⟩
      simp only [Int.neg_zero]
      cases hf : digitsFold 0 (c' :: rest) with
      | none => simp [hf] at hd
      | some m => simp [hf] at hd; congr 1; omega
    rw [denote_other h1 h2] at hd
    rw [parseInt_other h1 h2, accPos_iff T _ _ _ (by omega) hhi]
    exact ⟨hd, hr.2⟩

/-- The exception is real: `"-0"` denotes 0, which every unsigned type holds, yet it is refused. -/
theorem parse_neg_zero_unsigned :
    denote ['-', '0'] = some 0 ∧ InRange .u16 0 ∧ parseInt .u16 ['-', '0'] = none ∧
    parseInt .i16 ['-', '0'] = some 0 := by decide

/-- Trimming: the item conversion is the parse of the text stripped of white space and NULs. -/
theorem parse_trim (T : IntTy) (s : List Char) : parseItem T s = parseInt T (trimWN s) := rfl

/-- A number printed by `to_string` parses back to itself in every type that holds it. -/
theorem parse_show (T : IntTy) (n : Int) (h : InRange T n) : parseItem T (showInt n) = some n := by
  unfold parseItem
  rw [trimWN_id (showInt_not_ws n)]
  refine parse_complete T _ n (denote_showInt n) h ?_
  by_cases hn : n < 0
  · left; exact lo_neg_signed (by have := h.1; omega)
  · right
    intro hh
    exact hn ((showInt_head n '-' hh).mp rfl)

/-! ## `NumCast` and `as` -/

/-- `NumCast::from` gives the same number or nothing. -/
theorem numCast_exact (T : IntTy) (n m : Int) : numCast T n = some m ↔ m = n ∧ InRange T n :=
  numCast_eq_some

/-- An `as` cast always lands in the target type, is the identity on numbers that fit, and
otherwise differs from the source by a multiple of `2^bits` (wrap-around, as documented for
`extend_*`). -/
theorem asCast_spec (T : IntTy) (n : Int) :
    InRange T (asCast T n) ∧ (InRange T n → asCast T n = n) ∧
      (asCast T n - n) % (2 ^ T.bits : Int) = 0 :=
  ⟨asCast_inRange T n, asCast_id, asCast_congr T n⟩

/-! ## `to_int`: the exact first stored number, or an error -/

/-- **ok ⇒ exact.** If `to_int::<T>` succeeds the result is the first stored number of the value and
lies in the range of `T`: never a wrapped or truncated number. -/
theorem to_int_exact (T : IntTy) (v : PV) (n : Int) (h : toInt T v = some n) :
    ∃ it rest, storedInts v = some (it :: rest) ∧ it.val = some n ∧ InRange T n := by
  cases v with
  | str s =>
    have := parse_exact T _ n h
    exact ⟨storedOfText s, [], rfl, this.1, this.2⟩
  | strs l =>
    cases l with
    | nil => simp [toInt] at h
    | cons s t =>
      have := parse_exact T _ n h
      exact ⟨storedOfText s, t.map storedOfText, rfl, this.1, this.2⟩
  | ints k l =>
    cases l with
    | nil => simp [toInt] at h
    | cons x t =>
      have := numCast_eq_some.mp h
      exact ⟨⟨some x, false⟩, t.map fun n => ⟨some n, false⟩, rfl, by simp [this.1], this.1 ▸ this.2⟩
  | empty | tags _ | f32 _ | f64 _ | date _ | dateTime _ | time _ => simp [toInt] at h

/-- **representable ⇒ ok.** If the value has a first stored number representable in `T`,
`to_int::<T>` returns it. -/
theorem to_int_complete (T : IntTy) (v : PV) (it : Stored) (rest : List Stored)
    (hs : storedInts v = some (it :: rest)) (hr : representable T it = true) :
    toInt T v = it.val := by
  have text : ∀ s, representable T (storedOfText s) = true →
      parseItem T s = (storedOfText s).val := by
    intro s hr
    unfold representable at hr
    cases hv : (storedOfText s).val with
    | none => simp [hv] at hr
    | some n =>
      simp only [hv, Bool.and_eq_true, decide_eq_true_eq, Bool.or_eq_true,
        Bool.not_eq_true'] at hr
      refine parse_complete T _ n hv hr.1 ?_
      rcases hr.2 with h | h
      · exact Or.inl h
      · right; simpa [storedOfText] using h
  cases v with
  | str s =>
    simp only [storedInts, Option.some.injEq, List.cons.injEq] at hs
    rw [← hs.1] at hr ⊢
    exact text s hr
  | strs l =>
    cases l with
    | nil => simp [storedInts] at hs
    | cons s t =>
      simp only [storedInts, List.map_cons, Option.some.injEq, List.cons.injEq] at hs
      rw [← hs.1] at hr ⊢
      exact text s hr
  | ints k l =>
    cases l with
    | nil => simp [storedInts] at hs
    | cons x t =>
      simp only [storedInts, List.map_cons, Option.some.injEq, List.cons.injEq] at hs
      rw [← hs.1] at hr ⊢
      simp only [representable, Bool.and_eq_true, decide_eq_true_eq] at hr
      simp [toInt, numCast, hr.1]
  | empty => simp [storedInts] at hs
  | tags _ | f32 _ | f64 _ | date _ | dateTime _ | time _ => simp [storedInts] at hs

/-- not representable ⇒ error: a first number outside the range of `T` is refused -/
theorem to_int_out_of_range (T : IntTy) (v : PV) (it : Stored) (rest : List Stored) (m : Int)
    (hs : storedInts v = some (it :: rest)) (hv : it.val = some m) (hr : ¬ InRange T m) :
    toInt T v = none := by
  cases h : toInt T v with
  | none => rfl
  | some n =>
    obtain ⟨it', rest', hs', hv', hr'⟩ := to_int_exact T v n h
    rw [hs] at hs'
    simp only [Option.some.injEq, List.cons.injEq] at hs'
    rw [← hs'.1, hv] at hv'
    simp only [Option.some.injEq] at hv'
    exact absurd (hv' ▸ hr') hr

/-! ## `to_multi_int`: one exact result per stored value, in order -/

/-- **ok ⇒ exact, one per value, in order.** -/
theorem multi_one_per_value (T : IntTy) (v : PV) (l : List Int) (h : toMultiInt T v = some l) :
    ∃ items, storedInts v = some items ∧ items.map (·.val) = l.map some ∧
      l.length = v.card ∧ ∀ n ∈ l, InRange T n := by
  have text : ∀ (ss : List (List Char)) (l : List Int), collectOpt (parseItem T) ss = some l →
      (ss.map storedOfText).map (·.val) = l.map some ∧ ∀ n ∈ l, InRange T n := by
    intro ss
    induction ss with
    | nil => intro l h; simp [collectOpt] at h; subst h; simp
    | cons s t ih =>
      intro l h
      unfold collectOpt at h
      cases hp : parseItem T s with
      | none => simp [hp] at h
      | some n =>
        cases hc : collectOpt (parseItem T) t with
        | none => simp [hp, hc] at h
        | some r =>
          simp [hp, hc] at h; subst h
          have e := parse_exact T _ n hp
          have := ih r hc
          refine ⟨by simp [this.1, storedOfText, e.1], ?_⟩
          intro m hm
          simp only [List.mem_cons] at hm
          rcases hm with hm | hm
          · exact hm ▸ e.2
          · exact this.2 m hm
  cases v with
  | empty => simp [toMultiInt] at h; subst h; exact ⟨[], rfl, rfl, rfl, by simp⟩
  | str s =>
    cases hp : parseItem T s with
    | none => simp [toMultiInt, hp] at h
    | some n =>
      simp [toMultiInt, hp] at h; subst h
      have e := parse_exact T _ n hp
      exact ⟨[storedOfText s], rfl, by simp [storedOfText, e.1], rfl, by simpa using e.2⟩
  | strs ss =>
    have := text ss l h
    exact ⟨ss.map storedOfText, rfl, this.1, by simpa [PV.card] using collectOpt_length h, this.2⟩
  | ints k xs =>
    simp only [toMultiInt] at h
    have hm := (collectOpt_eq_some _ _ _).mp h
    refine ⟨xs.map fun n => ⟨some n, false⟩, rfl, ?_, by simpa [PV.card] using collectOpt_length h, ?_⟩
    · have : ∀ (xs : List Int) (l : List Int), xs.map (numCast T) = l.map some →
          (xs.map fun n => (⟨some n, false⟩ : Stored)).map (·.val) = l.map some := by
        intro xs
        induction xs with
        | nil => intro l e; cases l <;> simp_all
        | cons x t ih =>
          intro l e
          cases l with
          | nil => simp at e
          | cons a r =>
            simp only [List.map_cons, List.cons.injEq] at e
            have := numCast_eq_some.mp e.1
            simp [this.1, ih r e.2]
      exact this xs l hm
    · intro n hn
      have : some n ∈ l.map some := List.mem_map.mpr ⟨n, hn, rfl⟩
      rw [← hm] at this
      obtain ⟨x, _, hx⟩ := List.mem_map.mp this
      have hx' := numCast_eq_some.mp hx
      exact hx'.1 ▸ hx'.2
  | tags _ | f32 _ | f64 _ | date _ | dateTime _ | time _ => simp [toMultiInt] at h

/-- **all representable ⇒ ok** with exactly the stored numbers. -/
theorem multi_complete (T : IntTy) (v : PV) (items : List Stored)
    (hs : storedInts v = some items) (hr : ∀ it ∈ items, representable T it = true) :
    ∃ l, toMultiInt T v = some l ∧ items.map (·.val) = l.map some := by
  have one : ∀ it, representable T it = true → ∃ n, it.val = some n := by
    intro it h
    unfold representable at h
    cases hv : it.val with
    | none => simp [hv] at h
    | some n => exact ⟨n, rfl⟩
  -- each item converts by `to_int_complete` applied to a one-item value
  have text : ∀ s, representable T (storedOfText s) = true →
      parseItem T s = (storedOfText s).val :=
    fun s h => to_int_complete T (.str s) _ [] rfl h
  cases v with
  | empty =>
    simp only [storedInts, Option.some.injEq] at hs; subst hs
    exact ⟨[], rfl, rfl⟩
  | str s =>
    simp only [storedInts, Option.some.injEq] at hs; subst hs
    have h := hr (storedOfText s) (by simp)
    obtain ⟨n, hn⟩ := one _ h
    exact ⟨[n], by simp [toMultiInt, text s h, hn], by simp [hn]⟩
  | strs ss =>
    simp only [storedInts, Option.some.injEq] at hs; subst hs
    have : ∀ ss : List (List Char), (∀ it ∈ ss.map storedOfText, representable T it = true) →
        ∃ l, collectOpt (parseItem T) ss = some l ∧
          (ss.map storedOfText).map (·.val) = l.map some := by
      intro ss
      induction ss with
      | nil => intro _; exact ⟨[], rfl, rfl⟩
      | cons s t ih =>
        intro hr
        have h := hr (storedOfText s) (by simp)
        obtain ⟨n, hn⟩ := one _ h
        obtain ⟨l, hl, he⟩ := ih (fun it hit => hr it (by simp at hit ⊢; exact Or.inr hit))
        exact ⟨n :: l, by simp [collectOpt, text s h, hn, hl], by simp [hn, he]⟩
    exact this ss hr
  | ints k xs =>
    simp only [storedInts, Option.some.injEq] at hs; subst hs
    refine ⟨xs, ?_, by simp [Function.comp_def]⟩
    simp only [toMultiInt]
    have := collectOpt_map_some (numCast T) id xs (by
      intro x hx
      have := hr ⟨some x, false⟩ (List.mem_map.mpr ⟨x, hx, rfl⟩)
      simp only [representable, Bool.and_eq_true, decide_eq_true_eq] at this
      simp [numCast, this.1])
    simpa using this
  | tags _ | f32 _ | f64 _ | date _ | dateTime _ | time _ => simp [storedInts] at hs

/-- **no items ⇒ empty list**, for every variant the integer conversions accept
(all of `Empty`, `Strs`, `U8`, `I16`, `U16`, `I32`, `U32`, `I64`, `U64`). -/
theorem multi_empty (T : IntTy) (v : PV) (hc : intConvertible v = true) (h0 : v.card = 0) :
    toMultiInt T v = some [] := by
  cases v with
  | empty => rfl
  | str s => simp [PV.card] at h0
  | strs l => simp only [PV.card, List.length_eq_zero_iff] at h0; subst h0; rfl
  | ints k l => simp only [PV.card, List.length_eq_zero_iff] at h0; subst h0; rfl
  | tags _ | f32 _ | f64 _ | date _ | dateTime _ | time _ => simp [intConvertible] at hc

/-- The other variants are refused by type, whatever they hold. -/
theorem int_refused_by_type (T : IntTy) (v : PV) (hc : intConvertible v = false) :
    toMultiInt T v = none ∧ toInt T v = none := by
  cases v <;> simp_all [intConvertible, toMultiInt, toInt]

/-- **single = first of multi.** -/
theorem to_int_is_first (T : IntTy) (v : PV) (x : Int) (xs : List Int)
    (h : toMultiInt T v = some (x :: xs)) : toInt T v = some x := by
  cases v with
  | empty => simp [toMultiInt] at h
  | str s =>
    cases hp : parseItem T s with
    | none => simp [toMultiInt, hp] at h
    | some n => simp [toMultiInt, hp] at h; simp [toInt, hp, h.1]
  | strs l =>
    cases l with
    | nil => simp [toMultiInt, collectOpt] at h
    | cons s t =>
      simp only [toMultiInt, collectOpt] at h
      cases hp : parseItem T s with
      | none => simp [hp] at h
      | some n =>
        cases hc : collectOpt (parseItem T) t with
        | none => simp [hp, hc] at h
        | some r => simp [hp, hc] at h; simp [toInt, hp, h.1]
  | ints k l =>
    cases l with
    | nil => simp [toMultiInt, collectOpt] at h
    | cons a t =>
      simp only [toMultiInt, collectOpt] at h
      cases hp : numCast T a with
      | none => simp [hp] at h
      | some n =>
        cases hc : collectOpt (numCast T) t with
        | none => simp [hp, hc] at h
        | some r => simp [hp, hc] at h; simp [toInt, hp, h.1]
  | tags _ | f32 _ | f64 _ | date _ | dateTime _ | time _ => simp [toMultiInt] at h

/-! ## floats (element conversions are parameters: any `ops`) -/

/-- one result per stored value -/
theorem multi_float_one_per_value (ops : FloatOps) (w : FW) (v : PV) (l : List Nat)
    (h : toMultiFloat ops w v = some l) : l.length = v.card := by
  cases v with
  | empty => simp [toMultiFloat] at h; subst h; rfl
  | str s =>
    cases hp : parseFItem ops w s with
    | none => simp [toMultiFloat, hp] at h
    | some n => simp [toMultiFloat, hp] at h; subst h; rfl
  | strs ss => simpa [PV.card] using collectOpt_length h
  | ints k xs => simp [toMultiFloat] at h; subst h; simp [PV.card]
  | f32 xs => simp [toMultiFloat] at h; subst h; simp [PV.card]
  | f64 xs => simp [toMultiFloat] at h; subst h; simp [PV.card]
  | tags _ | date _ | dateTime _ | time _ => simp [toMultiFloat] at h

/-- in order: the `i`-th result is the conversion of the `i`-th stored number; numbers already of
the requested width are returned as they are -/
theorem multi_float_in_order (ops : FloatOps) (w : FW) :
    (∀ k xs, toMultiFloat ops w (.ints k xs) = some (xs.map (ops.intToF w))) ∧
    (∀ xs, toMultiFloat ops .w32 (.f32 xs) = some xs) ∧
    (∀ xs, toMultiFloat ops .w64 (.f64 xs) = some xs) ∧
    (∀ xs, toMultiFloat ops .w64 (.f32 xs) = some (xs.map (ops.fToF .w32 .w64))) ∧
    (∀ xs, toMultiFloat ops .w32 (.f64 xs) = some (xs.map (ops.fToF .w64 .w32))) ∧
    (∀ ss l, toMultiFloat ops w (.strs ss) = some l → ss.map (parseFItem ops w) = l.map some) := by
  have same : ∀ a : FW, ops.conv a a = id := fun a => by funext x; simp [FloatOps.conv]
  have d1 : ops.conv .w32 .w64 = ops.fToF .w32 .w64 := by funext x; simp [FloatOps.conv]
  have d2 : ops.conv .w64 .w32 = ops.fToF .w64 .w32 := by funext x; simp [FloatOps.conv]
  refine ⟨fun _ _ => rfl, ?_, ?_, ?_, ?_, ?_⟩
  · intro xs; simp [toMultiFloat, same]
  · intro xs; simp [toMultiFloat, same]
  · intro xs; simp [toMultiFloat, d1]
  · intro xs; simp [toMultiFloat, d2]
  · intro ss l h; exact (collectOpt_eq_some _ _ _).mp h

/-- **no items ⇒ empty list** for every variant the float conversions accept. -/
theorem multi_float_empty (ops : FloatOps) (w : FW) (v : PV) (hc : floatConvertible v = true)
    (h0 : v.card = 0) : toMultiFloat ops w v = some [] := by
  cases v with
  | empty => rfl
  | str s => simp [PV.card] at h0
  | strs l => simp only [PV.card, List.length_eq_zero_iff] at h0; subst h0; rfl
  | ints k l => simp only [PV.card, List.length_eq_zero_iff] at h0; subst h0; rfl
  | f32 l => simp only [PV.card, List.length_eq_zero_iff] at h0; subst h0; rfl
  | f64 l => simp only [PV.card, List.length_eq_zero_iff] at h0; subst h0; rfl
  | tags _ | date _ | dateTime _ | time _ => simp [floatConvertible] at hc

/-- numbers (as opposed to texts) always convert to floats -/
theorem multi_float_total (ops : FloatOps) (w : FW) (v : PV) (hc : floatConvertible v = true)
    (hn : ∀ s, v ≠ .str s) (hm : ∀ s t, v ≠ .strs (s :: t)) : ∃ l, toMultiFloat ops w v = some l := by
  cases v with
  | empty => exact ⟨_, rfl⟩
  | str s => exact absurd rfl (hn s)
  | strs l =>
    cases l with
    | nil => exact ⟨_, rfl⟩
    | cons s t => exact absurd rfl (hm s t)
  | ints k l => exact ⟨_, rfl⟩
  | f32 l => exact ⟨_, rfl⟩
  | f64 l => exact ⟨_, rfl⟩
  | tags _ | date _ | dateTime _ | time _ => simp [floatConvertible] at hc

/-- **single = first of multi** (floats). -/
theorem to_float_is_first (ops : FloatOps) (w : FW) (v : PV) (x : Nat) (xs : List Nat)
    (h : toMultiFloat ops w v = some (x :: xs)) : toFloat ops w v = some x := by
  cases v with
  | empty => simp [toMultiFloat] at h
  | str s =>
    cases hp : parseFItem ops w s with
    | none => simp [toMultiFloat, hp] at h
    | some n => simp [toMultiFloat, hp] at h; simp [toFloat, hp, h.1]
  | strs l =>
    cases l with
    | nil => simp [toMultiFloat, collectOpt] at h
    | cons s t =>
      simp only [toMultiFloat, collectOpt] at h
      cases hp : parseFItem ops w s with
      | none => simp [hp] at h
      | some n =>
        cases hc : collectOpt (parseFItem ops w) t with
        | none => simp [hp, hc] at h
        | some r => simp [hp, hc] at h; simp [toFloat, hp, h.1]
  | ints k l =>
    cases l with
    | nil => simp [toMultiFloat] at h
    | cons a t => simp [toMultiFloat] at h; simp [toFloat, h.1]
  | f32 l =>
    cases l with
    | nil => simp [toMultiFloat] at h
    | cons a t => simp [toMultiFloat] at h; simp [toFloat, h.1]
  | f64 l =>
    cases l with
    | nil => simp [toMultiFloat] at h
    | cons a t => simp [toMultiFloat] at h; simp [toFloat, h.1]
  | tags _ | date _ | dateTime _ | time _ => simp [toMultiFloat] at h

/-! ## wrappers: `Value` and `DataElement` add nothing for primitive values and refuse the rest -/

theorem wrappers (ops : FloatOps) (T : IntTy) (w : FW) (v : PV) :
    Val.toInt T (.prim v) = toInt T v ∧ Val.toMultiInt T (.prim v) = toMultiInt T v ∧
    Val.toFloat ops w (.prim v) = toFloat ops w v ∧
    Val.toMultiFloat ops w (.prim v) = toMultiFloat ops w v ∧
    (∀ n, Val.truncate n (.prim v) = .prim (truncate n v)) := ⟨rfl, rfl, rfl, rfl, fun _ => rfl⟩

theorem wrappers_non_primitive (ops : FloatOps) (T : IntTy) (w : FW) (x : Val)
    (h : ∀ v, x ≠ .prim v) :
    x.toInt T = none ∧ x.toMultiInt T = none ∧ x.toFloat ops w = none ∧ x.toMultiFloat ops w = none := by
  cases x with
  | prim v => exact absurd rfl (h v)
  | seq l => exact ⟨rfl, rfl, rfl, rfl⟩
  | pix o f => exact ⟨rfl, rfl, rfl, rfl⟩

/-! ## `extend_*` and `truncate` against the list model -/

/-- **extend.** A call succeeds exactly when the documentation says the value is compatible; then the
items are the old items followed by the appended ones (as text for a textual value, cast to the
current number type otherwise) and the kind changes only from `Empty`/`Str`. -/
theorem extend_spec (ops : FloatOps) (v : PV) (e : Ext) :
    (extendCompatible v e = true → ∃ v', extend ops v e = .ok v' ∧
        v'.items = v.items ++ appended ops v e ∧ v'.kind = kindAfter v.kind e) ∧
    (extendCompatible v e = false → ∃ err, extend ops v e = .error err) := by
  cases e with
  | strs xs =>
    cases v <;>
      simp [extendCompatible, compatibleK, Kind.textual, PV.kind, extend, PV.items, appended,
        appendedK, Ext.texts, kindAfter]
  | ints T xs =>
    cases v <;>
      simp [extendCompatible, compatibleK, Kind.numericOrText, PV.kind, extend, PV.items, appended,
        appendedK, Ext.texts, kindAfter]
  | floats w xs =>
    cases v <;> cases w <;>
      simp [extendCompatible, compatibleK, Kind.numericOrText, PV.kind, extend, PV.items, appended,
        appendedK, Ext.texts, kindAfter, Function.comp_def]

theorem items_length (v : PV) : v.items.length = v.card := by
  cases v <;> simp [PV.items, PV.card]

theorem appended_length (ops : FloatOps) (k : Kind) (e : Ext) (h : compatibleK k e = true) :
    (appendedK ops k e).length = e.len := by
  cases k <;> cases e <;>
    simp_all [compatibleK, Kind.textual, Kind.numericOrText, appendedK, Ext.len, Ext.texts,
      Ext.asInts, Ext.asFloats] <;> (try split) <;> simp

/-- the number of items grows by the number of appended ones -/
theorem extend_card (ops : FloatOps) (v v' : PV) (e : Ext) (h : extend ops v e = .ok v') :
    v'.card = v.card + e.len := by
  have sp := extend_spec ops v e
  cases hc : extendCompatible v e with
  | false =>
    obtain ⟨err, he⟩ := sp.2 hc
    rw [he] at h; cases h
  | true =>
    obtain ⟨w, hw, hi, _⟩ := sp.1 hc
    rw [hw] at h
    cases h
    rw [← items_length, hi, List.length_append, items_length, appended,
      appended_length ops _ _ hc]

/-- **truncate.** The items are the first `limit` items, for every value; the kind is unchanged,
except that a single string which loses its item becomes the empty value. -/
theorem truncate_spec (n : Nat) (v : PV) :
    (truncate n v).items = v.items.take n ∧
    (truncate n v).card = min n v.card ∧
    ((truncate n v).kind = v.kind ∨ (∃ s, v = .str s ∧ n = 0 ∧ truncate n v = .empty)) := by
  cases v with
  | str s =>
    by_cases h : n = 0
    · subst h; simp [truncate, PV.items, PV.card]
    · have : 1 ≤ n := by omega
      simp [truncate, h, PV.items, PV.card, PV.kind, List.take_of_length_le, this]
  | empty | strs _ | tags _ | ints _ _ | f32 _ | f64 _ | date _ | dateTime _ | time _ =>
    simp [truncate, PV.kind, PV.items, PV.card, List.map_take]

/-- nothing is done if the value already fits -/
theorem truncate_noop (n : Nat) (v : PV) (h : v.card ≤ n) : truncate n v = v := by
  cases v with
  | str s =>
    have : n ≠ 0 := by simp [PV.card] at h; omega
    simp [truncate, this]
  | empty | strs _ | tags _ | ints _ _ | f32 _ | f64 _ | date _ | dateTime _ | time _ =>
    simp_all [truncate, PV.card, List.take_of_length_le]

/-- the value fits the limit afterwards (repaired point: also a single string with limit 0) -/
theorem truncate_fits (n : Nat) (v : PV) : (truncate n v).card ≤ n := by
  rw [(truncate_spec n v).2.1]; omega

theorem truncate_str_limit0 (s : List Char) : truncate 0 (.str s) = .empty := rfl

/-- **histories.** Every step of the real operations is the corresponding step of the list model
on (kind, items) … -/
theorem step_refines (ops : FloatOps) (v : PV) (op : Op) :
    (step ops v op).abs = absStep ops v.abs op := by
  cases op with
  | truncate n =>
    cases v with
    | str s =>
      by_cases h : n = 0
      · subst h; simp [step, truncate, absStep, PV.abs, PV.kind, PV.items]
      · have : 1 ≤ n := by omega
        simp [step, truncate, absStep, PV.abs, PV.kind, PV.items, h, List.take_of_length_le, this]
    | empty | strs _ | tags _ | ints _ _ | f32 _ | f64 _ | date _ | dateTime _ | time _ =>
      simp [step, truncate, absStep, PV.abs, PV.kind, PV.items, List.map_take]
  | extend e =>
    have := extend_spec ops v e
    simp only [step, absStep, PV.abs]
    cases hc : extendCompatible v e with
    | true =>
      obtain ⟨v', h1, h2, h3⟩ := this.1 hc
      have hc' : compatibleK v.kind e = true := hc
      simp [h1, h2, h3, hc', appended]
    | false =>
      obtain ⟨err, h1⟩ := this.2 hc
      have hc' : compatibleK v.kind e = false := hc
      simp [h1, hc']

/-- … hence so is every history of `extend_*` / `truncate` calls, of any length. -/
theorem run_refines (ops : FloatOps) (h : List Op) (v : PV) :
    (run ops v h).abs = absRun ops v.abs h := by
  induction h generalizing v with
  | nil => rfl
  | cons op t ih =>
    simp only [run, absRun, List.foldl_cons]
    have := ih (step ops v op)
    simp only [run, absRun] at this
    rw [this, step_refines]

/-- The abstract state loses nothing: kind and items determine the value. -/
theorem abs_injective (v v' : PV) (h : v.abs = v'.abs) : v = v' := by
  cases v <;> cases v' <;>
    simp_all [PV.abs, PV.kind, PV.items, List.map_inj_right]

/-! ### well-formedness is invariant: stored numbers always fit their declared type -/

/-- the appended numbers are legal values of their own type -/
def Ext.WF : Ext → Prop
  | .strs _ => True
  | .ints T l => (T = .u16 ∨ T = .i16 ∨ T = .i32 ∨ T = .u32) ∧ ∀ x ∈ l, InRange T x
  | .floats .w32 l => ∀ x ∈ l, x.bits < 2 ^ 32
  | .floats .w64 l => ∀ x ∈ l, x.bits < 2 ^ 64

/-- the float element operations return values of their result type -/
structure FloatOps.WF (ops : FloatOps) : Prop where
  fToInt : ∀ w T x, InRange T (ops.fToInt w T x)
  intToF32 : ∀ n, ops.intToF .w32 n < 2 ^ 32
  intToF64 : ∀ n, ops.intToF .w64 n < 2 ^ 64
  f64ToF32 : ∀ x, ops.fToF .w64 .w32 x < 2 ^ 32
  f32ToF64 : ∀ x, ops.fToF .w32 .w64 x < 2 ^ 64

theorem extend_wf (ops : FloatOps) (ho : ops.WF) (v v' : PV) (e : Ext) (hv : v.WF) (he : e.WF)
    (h : extend ops v e = .ok v') : v'.WF := by
  cases e with
  | strs xs => cases v <;> simp [extend] at h <;> subst h <;> trivial
  | ints T xs =>
    cases v with
    | ints K l =>
      simp [extend] at h; subst h
      refine ⟨hv.1, ?_⟩
      intro x hx
      simp only [List.mem_append] at hx
      rcases hx with hx | hx
      · exact hv.2 x hx
      · simp only [Ext.asInts] at hx
        split at hx
        · next e => exact e ▸ he.2 x hx
        · obtain ⟨y, _, hy⟩ := List.mem_map.mp hx
          exact hy ▸ asCast_inRange K y
    | empty =>
      simp [extend] at h; subst h
      refine ⟨?_, he.2⟩
      rcases he.1 with e | e | e | e <;> simp [e]
    | f32 l =>
      simp [extend] at h; subst h
      intro x hx
      simp only [List.mem_append, Ext.asFloats, List.mem_map] at hx
      rcases hx with hx | ⟨y, _, hy⟩
      · exact hv x hx
      · exact hy ▸ ho.intToF32 y
    | f64 l =>
      simp [extend] at h; subst h
      intro x hx
      simp only [List.mem_append, Ext.asFloats, List.mem_map] at hx
      rcases hx with hx | ⟨y, _, hy⟩
      · exact hv x hx
      · exact hy ▸ ho.intToF64 y
    | strs l => simp [extend] at h; subst h; trivial
    | str s => simp [extend] at h; subst h; trivial
    | tags _ | date _ | dateTime _ | time _ => simp [extend] at h
  | floats w xs =>
    cases v with
    | ints K l =>
      simp [extend] at h; subst h
      refine ⟨hv.1, ?_⟩
      intro x hx
      simp only [List.mem_append, Ext.asInts, List.mem_map] at hx
      rcases hx with hx | ⟨y, _, hy⟩
      · exact hv.2 x hx
      · exact hy ▸ ho.fToInt w K y.bits
    | empty =>
      cases w <;> simp [extend] at h <;> subst h <;> intro x hx <;>
        simp only [List.mem_map] at hx <;> obtain ⟨y, hy, e⟩ := hx <;> exact e ▸ he y hy
    | f32 l =>
      simp [extend] at h; subst h
      intro x hx
      simp only [List.mem_append, Ext.asFloats, List.mem_map] at hx
      rcases hx with hx | ⟨y, hy, e⟩
      · exact hv x hx
      · cases w with
        | w32 => simp [FloatOps.conv] at e; exact e ▸ he y hy
        | w64 => simp [FloatOps.conv] at e; exact e ▸ ho.f64ToF32 _
    | f64 l =>
      simp [extend] at h; subst h
      intro x hx
      simp only [List.mem_append, Ext.asFloats, List.mem_map] at hx
      rcases hx with hx | ⟨y, hy, e⟩
      · exact hv x hx
      · cases w with
        | w32 => simp [FloatOps.conv] at e; exact e ▸ ho.f32ToF64 _
        | w64 => simp [FloatOps.conv] at e; exact e ▸ he y hy
    | strs l => simp [extend] at h; subst h; trivial
    | str s => simp [extend] at h; subst h; trivial
    | tags _ | date _ | dateTime _ | time _ => simp [extend] at h

theorem truncate_wf (n : Nat) (v : PV) (hv : v.WF) : (truncate n v).WF := by
  cases v with
  | ints k l => exact ⟨hv.1, fun x hx => hv.2 x (List.mem_of_mem_take hx)⟩
  | f32 l => exact fun x hx => hv x (List.mem_of_mem_take hx)
  | f64 l => exact fun x hx => hv x (List.mem_of_mem_take hx)
  | str s => by_cases h : n = 0 <;> simp [truncate, h, PV.WF]
  | empty | strs _ | tags _ | date _ | dateTime _ | time _ => trivial

def Op.WF : Op → Prop
  | .extend e => e.WF
  | .truncate _ => True

/-- Every value reachable by any history of operations from a legal value is legal: the numbers
stored in a variant always fit that variant's type (the `as` casts of `extend_*` wrap, they never
store an out-of-range number). -/
theorem run_wf (ops : FloatOps) (ho : ops.WF) (h : List Op) (v : PV) (hv : v.WF)
    (hh : ∀ op ∈ h, op.WF) : (run ops v h).WF := by
  induction h generalizing v with
  | nil => exact hv
  | cons op t ih =>
    simp only [run, List.foldl_cons]
    refine ih (step ops v op) ?_ (fun o ho' => hh o (List.mem_cons_of_mem _ ho'))
    have hop := hh op (List.mem_cons_self ..)
    cases op with
    | truncate n => exact truncate_wf n v hv
    | extend e =>
      simp only [step]
      cases he : extend ops v e with
      | ok v' => exact extend_wf ops ho v v' e hv hop he
      | error _ => exact hv

/-! ### appended numbers read back exactly -/

/-- Numbers appended to a numeric value that fit its type are read back unchanged by
`to_multi_int`, after the numbers that were there. -/
theorem extend_ints_read_back (ops : FloatOps) (K T : IntTy) (l xs : List Int)
    (hl : ∀ x ∈ l, InRange K x) (hx : ∀ x ∈ xs, InRange K x) :
    ∃ v', extend ops (.ints K l) (.ints T xs) = .ok v' ∧ toMultiInt K v' = some (l ++ xs) := by
  refine ⟨.ints K (l ++ (Ext.ints T xs).asInts ops K), rfl, ?_⟩
  have e : (Ext.ints T xs).asInts ops K = xs := by
    simp only [Ext.asInts]
    split
    · rfl
    · have : xs.map (asCast K) = xs.map id :=
        List.map_congr_left fun x hx' => asCast_id (hx x hx')
      simpa using this
  rw [e]
  simp only [toMultiInt]
  have := collectOpt_map_some (numCast K) id (l ++ xs) (by
    intro x hm
    simp only [List.mem_append] at hm
    have : InRange K x := hm.elim (hl x) (hx x)
    simp [numCast, this])
  simpa using this

/-- Numbers appended to a textual value are written in decimal and read back unchanged, after the
numbers the strings already held. -/
theorem extend_strs_read_back (ops : FloatOps) (T : IntTy) (ss : List (List Char)) (xs : List Int)
    (hx : ∀ x ∈ xs, InRange T x) :
    ∃ v', extend ops (.strs ss) (.ints T xs) = .ok v' ∧
      toMultiInt T v' = (toMultiInt T (.strs ss)).map (· ++ xs) := by
  refine ⟨.strs (ss ++ xs.map showInt), rfl, ?_⟩
  simp only [toMultiInt, collectOpt_append]
  have : collectOpt (parseItem T) (xs.map showInt) = some xs := by
    rw [collectOpt_eq_some]
    simp only [List.map_map]
    exact List.map_congr_left fun x hx' => by simp [parse_show T x (hx x hx')]
  rw [this]
  cases collectOpt (parseItem T) ss <;> simp

/-! ## non-vacuity -/

example : toInt .i32 (.str "505 ".toList) = some 505 := by decide
example : toInt .u8 (.ints .i32 [300, 1]) = none ∧ toInt .u16 (.ints .i32 [300, 1]) = some 300 := by
  decide
example : toMultiInt .i32 (.strs ["5050".toList, "23 ".toList]) = some [5050, 23] := by decide
example : toMultiInt .u64 (.ints .i32 []) = some [] := by decide
example : toInt .i8 (.str "-128\x00".toList) = some (-128) ∧ toInt .i8 (.str "128".toList) = none := by
  decide
example : ∃ it rest, storedInts (.str " +7".toList) = some (it :: rest) ∧
    representable .u8 it = true := ⟨_, _, rfl, by decide⟩

end Dicom.NumConv
