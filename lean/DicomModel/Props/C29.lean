import DicomModel.Model.AssocClient
import DicomModel.Props.C28
/-
C29 — requestor and acceptor agree on the association and respect PDU limits.

`associate` composes the requestor model (`createRq`, `processResp`) with the acceptor model of C28
through a wire `w` (what a text field becomes when written and read back; only `w (w s) = w s` is
assumed). Sending is `encodePdu`/`send` over an arbitrary PDU writer.
-/
namespace Dicom.Assoc

/-! ### context identifiers -/

theorem proposeFrom_ids (i : Nat) (l : List (Str × List Str)) :
    (proposeFrom i l).map (·.id) = (List.range l.length).map (fun k => (2 * (i + k) + 1) % 256) := by
  induction l generalizing i with
  | nil => rfl
  | cons x xs ih =>
    obtain ⟨a, tss⟩ := x
    simp only [proposeFrom, List.map_cons, List.length_cons, List.range_succ_eq_map, ih,
      List.map_map, Nat.add_zero]
    congr 1
    apply List.map_congr_left
    intro k _
    simp only [Function.comp]
    congr 2
    omega

theorem proposeFrom_length (i : Nat) (l : List (Str × List Str)) :
    (proposeFrom i l).length = l.length := by
  induction l generalizing i with
  | nil => rfl
  | cons x xs ih => obtain ⟨a, tss⟩ := x; simp [proposeFrom, ih]

theorem proposeFrom_mem (i : Nat) (l : List (Str × List Str)) (p : Proposed)
    (h : p ∈ proposeFrom i l) : (p.abstractSyntax, p.transferSyntaxes) ∈ l := by
  induction l generalizing i with
  | nil => simp [proposeFrom] at h
  | cons x xs ih =>
    obtain ⟨a, tss⟩ := x
    simp only [proposeFrom, List.mem_cons] at h
    rcases h with h | h
    · subst h; simp
    · exact List.mem_cons_of_mem _ (ih _ h)

/-- with at most 128 presentation contexts the identifiers are 1, 3, 5, … : distinct, odd, bytes -/
theorem ids_small (l : List (Str × List Str)) (h : l.length ≤ 128) :
    ((proposeFrom 0 l).map (·.id)).Nodup ∧
    ∀ id ∈ (proposeFrom 0 l).map (·.id), id % 2 = 1 ∧ id < 256 := by
  rw [proposeFrom_ids]
  constructor
  · rw [List.nodup_iff_pairwise_ne, List.pairwise_map]
    apply List.Pairwise.imp_of_mem _ (List.pairwise_lt_range (n := l.length))
    intro a b ha hb hab
    simp only [List.mem_range] at ha hb
    simp only [Nat.zero_add]
    omega
  · intro id hid
    simp only [List.mem_map, List.mem_range, Nat.zero_add] at hid
    obtain ⟨k, hk, rfl⟩ := hid
    omega

/-- **ids_distinct_odd**: the requestor proposes distinct odd identifiers, in the request and in
its own record of the proposal — provided there are at most 128 contexts. -/
theorem ids_distinct_odd (v : Variant) (impl : Impl) (o : ClientOpts) (ae : Option Str)
    (proposed : List Proposed) (rq : Request)
    (h : createRq v impl o ae = .ok (proposed, rq)) (hn : o.contexts.length ≤ 128) :
    rq.contexts = proposed ∧ proposed.length = o.contexts.length ∧
    (proposed.map (·.id)).Nodup ∧ ∀ id ∈ proposed.map (·.id), id % 2 = 1 ∧ id < 256 := by
  unfold createRq at h
  split at h
  · cases h
  · split at h
    · cases h
    · simp only [Except.ok.injEq, Prod.mk.injEq] at h
      obtain ⟨h1, h2⟩ := h
      subst h1
      subst h2
      exact ⟨rfl, proposeFrom_length 0 _, ids_small _ hn⟩

/-- repaired requestor: whenever a request is produced its identifiers are distinct and odd -/
theorem ids_distinct_odd_repaired (impl : Impl) (o : ClientOpts) (ae : Option Str)
    (proposed : List Proposed) (rq : Request)
    (h : createRq .repaired impl o ae = .ok (proposed, rq)) :
    (rq.contexts.map (·.id)).Nodup ∧ ∀ id ∈ rq.contexts.map (·.id), id % 2 = 1 ∧ id < 256 := by
  have hn : o.contexts.length ≤ 128 := by
    unfold createRq at h
    split at h
    · cases h
    · split at h
      · cases h
      · rename_i hh; simp at hh; omega
  obtain ⟨h1, _, h3, h4⟩ := ids_distinct_odd .repaired impl o ae proposed rq h hn
  rw [h1]; exact ⟨h3, h4⟩

/-- the code as shipped: with 129 contexts the 129th identifier is 1 again -/
theorem shipped_ids_repeat :
    ∃ o : ClientOpts, ∃ proposed rq, createRq .shipped ⟨[], []⟩ o none = .ok (proposed, rq) ∧
      ¬ (rq.contexts.map (·.id)).Nodup := by
  refine ⟨{ contexts := List.replicate 129 ([], []) }, _, _, rfl, ?_⟩
  simp only [proposeFrom_ids, List.length_replicate]
  intro hnd
  have h := (List.getElem?_inj (i := 0) (j := 128) (by simp) hnd).mp (by simp)
  omega

/-! ### the answer seen by the requestor -/

/-- **none_accepted_fails**: an A-ASSOCIATE-AC without an accepted context makes the requestor
fail (as does any other answer that is not an acceptance). -/
theorem none_accepted_fails (o : ClientOpts) (ac : Accept) (proposed : List Proposed)
    (h : ∀ c ∈ ac.contexts, c.reason ≠ .acceptance) :
    ∃ e, processResp o (.assocAC ac) proposed = .error e := by
  unfold processResp
  simp only
  split
  · exact ⟨_, rfl⟩
  · have : (ac.contexts.filter fun c =>
        decide (c.reason = .acceptance) && proposed.any (fun p => p.id == c.id)) = [] := by
      rw [List.filter_eq_nil_iff]
      intro c hc
      simp [h c hc]
    simp [this]

theorem not_ac_fails (o : ClientOpts) (p : Pdu) (proposed : List Proposed)
    (h : ∀ ac, p ≠ .assocAC ac) : ∃ e, processResp o p proposed = .error e := by
  cases p with
  | assocAC ac => exact absurd rfl (h ac)
  | _ => exact ⟨_, rfl⟩

/-! ### list plumbing -/

theorem filter_filterMap_map {α β γ : Type} (l : List α) (r : α → β) (φ : β → Bool)
    (ψ : β → Option γ) :
    ((l.map r).filter φ).filterMap ψ = l.filterMap (fun x => if φ (r x) then ψ (r x) else none) := by
  induction l with
  | nil => rfl
  | cons x xs ih =>
    simp only [List.map_cons, List.filter_cons, List.filterMap_cons]
    by_cases h : φ (r x) = true
    · simp only [h, ↓reduceIte, List.filterMap_cons, ih]
    · simp only [h, Bool.false_eq_true, ↓reduceIte, ih]

theorem filter_map_map {α β γ : Type} (l : List α) (g : α → β) (φ : β → Bool) (t : β → γ) :
    ((l.map g).filter φ).map t = l.filterMap (fun x => if φ (g x) then some (t (g x)) else none) := by
  induction l with
  | nil => rfl
  | cons x xs ih =>
    simp only [List.map_cons, List.filter_cons, List.filterMap_cons]
    by_cases h : φ (g x) = true
    · simp only [h, ↓reduceIte, List.map_cons, ih]
    · simp only [h, Bool.false_eq_true, ↓reduceIte, ih]

theorem filterMap_congr' {α β : Type} (l : List α) (f g : α → Option β)
    (h : ∀ x ∈ l, f x = g x) : l.filterMap f = l.filterMap g := by
  induction l with
  | nil => rfl
  | cons x xs ih =>
    simp only [List.filterMap_cons, h x (by simp)]
    rw [ih (fun y hy => h y (by simp [hy]))]

/-- in a proposal with distinct identifiers, looking a context up by its identifier finds it -/
theorem find_self (P : List Proposed) (hnd : (P.map (·.id)).Nodup) (p : Proposed) (hp : p ∈ P) :
    P.find? (fun q => q.id == p.id) = some p ∧ P.any (fun q => q.id == p.id) = true := by
  induction P with
  | nil => simp at hp
  | cons x xs ih =>
    simp only [List.map_cons, List.nodup_cons] at hnd
    simp only [List.mem_cons] at hp
    rcases hp with hp | hp
    · subst hp; simp
    · have hne : x.id ≠ p.id := by
        intro he
        exact hnd.1 (he ▸ List.mem_map_of_mem (f := (·.id)) hp)
      have := ih hnd.2 hp
      simp [hne, this.1, this.2]

/-! ### both views -/

def Negotiated.triple (n : Negotiated) : Nat × Str × Str := (n.id, n.abstractSyntax, n.transferSyntax)

def accepted (n : Negotiated) : Bool := decide (n.reason = .acceptance)

/-- the contexts the requestor keeps, given any proposal with distinct identifiers whose abstract
syntaxes survive the wire and the acceptor's trimming unchanged -/
theorem client_contexts_eq (w : Str → Str) (hw : ∀ s, w (w s) = w s) (cfg : Config) (reg : List Str)
    (P : List Proposed) (hnd : (P.map (·.id)).Nodup)
    (hst : ∀ p ∈ P, trimUid (w p.abstractSyntax) = p.abstractSyntax) :
    let neg := (P.map (wirePc w)).map (negotiateOne cfg reg)
    let acWire : List PcResult := (neg.map Negotiated.toResult).map (fun c => ⟨c.id, c.reason, w c.transferSyntax⟩)
    (((acWire.filter fun c => decide (c.reason = .acceptance) && P.any (fun p => p.id == c.id)).filterMap
        fun c => (P.find? (fun p => p.id == c.id)).map fun p =>
          (⟨c.id, c.reason, c.transferSyntax, p.abstractSyntax⟩ : Negotiated)).map Negotiated.triple)
      = (neg.filter accepted).map Negotiated.triple := by
  intro neg acWire
  have e1 : acWire = P.map (fun p =>
      (⟨(negotiateOne cfg reg (wirePc w p)).id, (negotiateOne cfg reg (wirePc w p)).reason,
        w (negotiateOne cfg reg (wirePc w p)).transferSyntax⟩ : PcResult)) := by
    simp [acWire, neg, List.map_map, Negotiated.toResult, Function.comp_def]
  have e2 : neg = P.map (fun p => negotiateOne cfg reg (wirePc w p)) := by
    simp [neg, List.map_map, Function.comp_def]
  rw [e1, e2, filter_filterMap_map, filter_map_map, List.map_filterMap]
  apply filterMap_congr'
  intro p hp
  have hid : (negotiateOne cfg reg (wirePc w p)).id = p.id := (negotiateOne_id cfg reg (wirePc w p)).1
  have habs : (negotiateOne cfg reg (wirePc w p)).abstractSyntax = p.abstractSyntax := by
    rw [(negotiateOne_id cfg reg (wirePc w p)).2]; exact hst p hp
  obtain ⟨hf, ha⟩ := find_self P hnd p hp
  simp only [hid, ha, Bool.and_true, hf, Option.map_some, accepted]
  by_cases hacc : (negotiateOne cfg reg (wirePc w p)).reason = .acceptance
  · simp only [hacc, decide_true, ↓reduceIte, Option.map_some, Negotiated.triple, habs, hid,
      Option.some.injEq, Prod.mk.injEq, true_and]
    obtain ⟨pre, post, hsplit, _, _⟩ := chosen_is_first cfg reg (wirePc w p) hacc
    have hm : (negotiateOne cfg reg (wirePc w p)).transferSyntax ∈ p.transferSyntaxes.map w := by
      have : (wirePc w p).transferSyntaxes = p.transferSyntaxes.map w := rfl
      rw [← this, hsplit]; simp
    obtain ⟨t, _, ht⟩ := List.mem_map.mp hm
    rw [← ht, hw]
  · simp [hacc]

theorem firstMaxLength_cons_wire (w : Str → Str) (n : Nat) (rest : List UserVar) :
    firstMaxLength ((UserVar.maxLength n :: rest).map (wireUv w)) = some n := rfl

theorem wireUv_isMaxLength (w : Str → Str) (u : UserVar) :
    isMaxLength (wireUv w u) = isMaxLength u := by
  cases u <;> rfl

/-- shape of a produced request -/
theorem createRq_shape (v : Variant) (impl : Impl) (o : ClientOpts) (ae : Option Str)
    (proposed : List Proposed) (rq : Request) (h : createRq v impl o ae = .ok (proposed, rq)) :
    proposed = proposeFrom 0 o.contexts ∧ rq.contexts = proposed ∧
    rq.protocolVersion = o.protocolVersion ∧
    ∃ post, rq.userVars = UserVar.maxLength o.maxPdu :: post ∧ ∀ u ∈ post, isMaxLength u = false := by
  unfold createRq at h
  split at h
  · cases h
  · split at h
    · cases h
    · simp only [Except.ok.injEq, Prod.mk.injEq] at h
      obtain ⟨h1, h2⟩ := h
      subst h2
      refine ⟨h1.symm, h1, rfl,
        [UserVar.implClassUid impl.classUid, .implVersion impl.versionName]
          ++ o.extNeg.map (fun (u, d) => UserVar.extNeg u d)
          ++ o.roles.map (fun (u, a, b) => UserVar.role u a b)
          ++ (match o.identity with | some u => [UserVar.identity u] | none => []), rfl, ?_⟩
      intro u hu
      simp only [List.cons_append, List.nil_append, List.mem_cons, List.mem_append,
        List.mem_map] at hu
      rcases hu with hu | hu | hu
      · subst hu; rfl
      · subst hu; rfl
      · rcases hu with (⟨x, _, rfl⟩ | ⟨x, _, rfl⟩) | hu
        · rfl
        · rfl
        · cases hid : o.identity with
          | none => simp [hid] at hu
          | some i => simp [hid] at hu; subst hu; rfl

/-- the acceptor reads the requestor's maximum PDU length off the request -/
theorem server_reads_client_max (pol : Policy) (w : Str → Str) (rq : Request) (n : Nat)
    (post : List UserVar) (huv : rq.userVars = UserVar.maxLength n :: post)
    (hpost : ∀ u ∈ post, isMaxLength u = false) (h0 : n ≠ 0) (hle : n ≤ MAXIMUM_PDU_SIZE) :
    (processUserVars pol (wireRq w rq).userVars).requestorMax = n := by
  have hsplit : (wireRq w rq).userVars = [] ++ UserVar.maxLength n :: post.map (wireUv w) := by
    simp [wireRq, huv, wireUv]
  have hp : ∀ u ∈ post.map (wireUv w), isMaxLength u = false := by
    intro u hu
    obtain ⟨x, hx, rfl⟩ := List.mem_map.mp hu
    rw [wireUv_isMaxLength]; exact hpost x hx
  rw [(max_pdu_from_request pol _).2 [] _ n hsplit hp]
  simp [h0, Nat.min_eq_left hle]

/-- the requestor's processing of the acceptor's A-ASSOCIATE-AC, as far as the views go -/
theorem client_of_reply (w : Str → Str) (o : ClientOpts) (ac : Accept) (proposed : List Proposed)
    (cv : ClientView) (h : processResp o (wirePdu w (.assocAC ac)) proposed = .ok cv) :
    cv.contexts = ((((ac.contexts.map (fun c => (⟨c.id, c.reason, w c.transferSyntax⟩ : PcResult))).filter fun c =>
        decide (c.reason = .acceptance) && proposed.any (fun p => p.id == c.id)).filterMap
          fun c => (proposed.find? (fun p => p.id == c.id)).map fun p =>
            (⟨c.id, c.reason, c.transferSyntax, p.abstractSyntax⟩ : Negotiated))) ∧
    cv.localMaxPdu = o.maxPdu ∧
    cv.peerMaxPdu =
      (let m := (firstMaxLength (ac.userVars.map (wireUv w))).getD DEFAULT_MAX_PDU
       if m = 0 then MAXIMUM_PDU_SIZE else min m MAXIMUM_PDU_SIZE) := by
  unfold processResp wirePdu at h
  simp only at h
  split at h
  · cases h
  · split at h
    · cases h
    · simp only [Except.ok.injEq] at h
      subst h
      exact ⟨rfl, rfl, rfl⟩

/-- **views_agree**: when requestor and acceptor both establish the association, the requestor's
accepted contexts (identifier, abstract syntax, transfer syntax) are exactly the contexts the
acceptor holds as accepted, in the same order, and each side holds the other's maximum PDU length.
Hypotheses: at most 128 contexts (forced for the code as shipped, see `shipped_ids_repeat`), the
wire is idempotent, the proposed abstract syntaxes are stable under wire + `trim_uid` (true of
every UID without leading/trailing white space once the builder has trimmed its NUL padding), and
both configured maxima are at most the largest supported one (the builders guarantee it). -/
theorem views_agree (v : Variant) (w : Str → Str) (hw : ∀ s, w (w s) = w s) (impl : Impl)
    (o : ClientOpts) (ae : Option Str) (cfg : Config) (reg : List Str) (pol : Policy)
    (sv : ServerView) (cv : ClientView)
    (hn : o.contexts.length ≤ 128)
    (hst : ∀ c ∈ o.contexts, trimUid (w c.1) = c.1)
    (hom : o.maxPdu ≤ MAXIMUM_PDU_SIZE) (hcm : cfg.maxPdu ≠ 0 ∧ cfg.maxPdu ≤ MAXIMUM_PDU_SIZE)
    (h : associate v w impl o ae cfg reg pol = .ok ⟨.ok sv, .ok cv⟩) :
    cv.contexts.map Negotiated.triple = (sv.contexts.filter accepted).map Negotiated.triple ∧
    cv.peerMaxPdu = sv.localMaxPdu ∧ sv.peerMaxPdu = cv.localMaxPdu ∧
    cv.localMaxPdu = o.maxPdu ∧ sv.localMaxPdu = cfg.maxPdu := by
  unfold associate at h
  cases hc : createRq v impl o ae with
  | error e => simp [hc] at h
  | ok pr =>
    obtain ⟨proposed, rq⟩ := pr
    simp only [hc, Except.ok.injEq, Both.mk.injEq] at h
    obtain ⟨hs, hcl⟩ := h
    obtain ⟨_, _, hnd, _⟩ := ids_distinct_odd v impl o ae proposed rq hc hn
    obtain ⟨hprop, hrq, _, post, huv, hpost⟩ := createRq_shape v impl o ae proposed rq hc
    obtain ⟨hreply, hsv⟩ := accepted_shape v cfg reg pol impl (wireRq w rq) sv hs
    by_cases hmin : o.maxPdu < MINIMUM_PDU_SIZE
    · simp [hmin] at hcl
    · simp only [hmin, ↓reduceIte, hreply] at hcl
      obtain ⟨hctx, hloc, hpeer⟩ := client_of_reply w o _ proposed cv hcl
      have hP : (wireRq w rq).contexts = proposed.map (wirePc w) := by rw [← hrq]; rfl
      have hstP : ∀ p ∈ proposed, trimUid (w p.abstractSyntax) = p.abstractSyntax := by
        intro p hp
        exact hst _ (proposeFrom_mem 0 o.contexts p (hprop ▸ hp))
      have hne : o.maxPdu ≠ 0 := by simp only [MINIMUM_PDU_SIZE] at hmin; omega
      subst hsv
      refine ⟨?_, ?_, ?_, hloc, rfl⟩
      · rw [hctx]
        simp only [hP]
        exact client_contexts_eq w hw cfg reg proposed hnd hstP
      · rw [hpeer]
        simp only [List.cons_append, List.map_cons, wireUv, firstMaxLength, Option.getD_some]
        simp [hcm.1, Nat.min_eq_left hcm.2]
      · rw [hloc]
        exact server_reads_client_max pol w rq o.maxPdu post huv hpost hne hom

/-- a list "starts clean" when `dropWhile p` leaves it alone -/
theorem dropWhile_head {α : Type} (p : α → Bool) (l : List α) :
    (l.dropWhile p = []) ∨ ∃ x xs, l.dropWhile p = x :: xs ∧ p x = false := by
  induction l with
  | nil => left; rfl
  | cons a as ih =>
    by_cases h : p a = true
    · simp only [List.dropWhile_cons, h, ↓reduceIte]; exact ih
    · right; exact ⟨a, as, by simp [h], by simpa using h⟩

theorem dropWhile_prefix_clean {α : Type} (p : α → Bool) (u t : List α)
    (hu : u = [] ∨ ∃ x xs, u = x :: xs ∧ p x = false) (ht : t <+: u) : t.dropWhile p = t := by
  rcases hu with hu | ⟨x, xs, hu, hx⟩
  · subst hu; simp at ht; subst ht; rfl
  · subst hu
    rcases List.prefix_cons_iff.mp ht with h | ⟨t', h, _⟩
    · subst h; rfl
    · subst h; simp [hx]

theorem dropWhile_idem {α : Type} (p : α → Bool) (l : List α) :
    (l.dropWhile p).dropWhile p = l.dropWhile p := by
  rcases dropWhile_head p l with h | ⟨x, xs, h, hx⟩
  · rw [h]; rfl
  · rw [h]; simp [hx]

/-- `str::trim` is idempotent: the wire hypothesis of `views_agree` holds for the reader's trimming -/
theorem wireTrim_idem (s : Str) : wireTrim (wireTrim s) = wireTrim s := by
  unfold wireTrim
  have hpre : ((s.dropWhile isWs).reverse.dropWhile isWs).reverse <+: s.dropWhile isWs := by
    have := List.dropWhile_suffix (l := (s.dropWhile isWs).reverse) isWs
    rw [← List.reverse_prefix] at this
    simpa using this
  have h1 := dropWhile_prefix_clean isWs _ _ (by
    rcases dropWhile_head isWs s with h | h
    · exact .inl h
    · exact .inr h) hpre
  rw [h1, List.reverse_reverse, dropWhile_idem]

/-- `views_agree` for the actual reader (`str::trim` on every text field): no wire hypothesis left -/
theorem views_agree_trim (v : Variant) (impl : Impl)
    (o : ClientOpts) (ae : Option Str) (cfg : Config) (reg : List Str) (pol : Policy)
    (sv : ServerView) (cv : ClientView)
    (hn : o.contexts.length ≤ 128)
    (hst : ∀ c ∈ o.contexts, trimUid (wireTrim c.1) = c.1)
    (hom : o.maxPdu ≤ MAXIMUM_PDU_SIZE) (hcm : cfg.maxPdu ≠ 0 ∧ cfg.maxPdu ≤ MAXIMUM_PDU_SIZE)
    (h : associate v wireTrim impl o ae cfg reg pol = .ok ⟨.ok sv, .ok cv⟩) :
    cv.contexts.map Negotiated.triple = (sv.contexts.filter accepted).map Negotiated.triple ∧
    cv.peerMaxPdu = sv.localMaxPdu ∧ sv.peerMaxPdu = cv.localMaxPdu :=
  let r := views_agree v wireTrim wireTrim_idem impl o ae cfg reg pol sv cv hn hst hom hcm h
  ⟨r.1, r.2.1, r.2.2.1⟩

/-! ### PDU size limit -/

/-- **never_longer_than_peer_max** (one PDU): `encode_pdu` hands out exactly what the writer
produced, and only when it fits the limit; an over-long PDU is refused with its length. -/
theorem encodePdu_ok_iff {α : Type} (write : α → Option Bytes) (pdu : α) (limit : Nat) (bs : Bytes) :
    encodePdu write pdu limit = .ok bs ↔ write pdu = some bs ∧ bs.length ≤ limit := by
  unfold encodePdu
  cases hw : write pdu with
  | none => simp
  | some b =>
    by_cases hl : b.length > limit
    · simp only [hl, ↓reduceIte, reduceCtorEq, Option.some.injEq, false_iff, not_and]
      intro h; subst h; omega
    · simp only [hl, ↓reduceIte, Except.ok.injEq, Option.some.injEq]
      constructor
      · intro h; subst h; exact ⟨rfl, by omega⟩
      · intro h; exact h.1

theorem encodePdu_too_long {α : Type} (write : α → Option Bytes) (pdu : α) (limit : Nat) (bs : Bytes)
    (hw : write pdu = some bs) (hl : bs.length > limit) :
    encodePdu write pdu limit = .error (.tooLong bs.length) := by
  simp [encodePdu, hw, hl]

/-- an over-long send is rejected locally: the wire is unchanged -/
theorem send_too_long_leaves_wire {α : Type} (write : α → Option Bytes) (peerMax : Nat)
    (wire : List Bytes) (pdu : α) (bs : Bytes) (hw : write pdu = some bs)
    (hl : bs.length > peerMax + PDU_HEADER_SIZE) :
    send write peerMax wire pdu = (.error (.tooLong bs.length), wire) := by
  simp [send, encodePdu_too_long write pdu _ bs hw hl]

/-- **never_longer_than_peer_max**: whatever is sent, in whatever order, every PDU that reaches
the wire through `send` is at most the peer's maximum PDU length plus the 6-byte PDU header. -/
theorem never_longer_than_peer_max {α : Type} (write : α → Option Bytes) (peerMax : Nat)
    (pdus : List α) (wire : List Bytes)
    (h : ∀ b ∈ wire, b.length ≤ peerMax + PDU_HEADER_SIZE) :
    ∀ b ∈ sendAll write peerMax wire pdus, b.length ≤ peerMax + PDU_HEADER_SIZE := by
  induction pdus generalizing wire with
  | nil => exact h
  | cons p ps ih =>
    apply ih
    intro b hb
    unfold send at hb
    cases he : encodePdu write p (peerMax + PDU_HEADER_SIZE) with
    | error e => simp only [he] at hb; exact h b hb
    | ok bs =>
      simp only [he, List.mem_append, List.mem_singleton] at hb
      rcases hb with hb | hb
      · exact h b hb
      · subst hb
        exact ((encodePdu_ok_iff write p _ _).mp he).2

/-- the limit is computed without wrap-around: the peer maximum kept by either side is at most
`MAXIMUM_PDU_SIZE`, so `peer_max + PDU_HEADER_SIZE` fits a `u32`. -/
theorem limit_fits_u32 (pol : Policy) (uvs : List UserVar) :
    (processUserVars pol uvs).requestorMax + PDU_HEADER_SIZE < 2 ^ 32 := by
  have := requestorMax_le pol uvs
  simp only [MAXIMUM_PDU_SIZE, PDU_HEADER_SIZE] at *
  omega

/-! ### non-vacuity -/

def exOpts : ClientOpts := (({} : ClientOpts).withContext "1.2.840.10008.1.1\x00".toList
  ["1.2.840.10008.1.2.1".toList, IMPLICIT_VR_LE]).withMaxPdu 4096

example : ∃ sv cv, associate .shipped id ⟨[], []⟩ exOpts none exCfg exReg (Policy.default acceptAny)
    = .ok ⟨.ok sv, .ok cv⟩ ∧ cv.contexts.map Negotiated.triple = [(1, "1.2.840.10008.1.1".toList, "1.2.840.10008.1.2.1".toList)]
      ∧ sv.peerMaxPdu = 4096 ∧ cv.peerMaxPdu = DEFAULT_MAX_PDU := ⟨_, _, rfl, by decide, by decide, by decide⟩

end Dicom.Assoc
