import DicomModel.Lemmas.RefWriter
/-
C02 — reading and rewriting a canonical stream reproduces it byte for byte.
(first version: header layer only; the theorems are being added)
-/
namespace Dicom.C02
open Dicom.Ref

/-- the element header written by each of the three encoders of dicom-rs is the PS3.5 layout of the
independent reference encoder -/
theorem header_eq_ref (ts : Syntax) (t : Tag) (vr : VR) (len : Nat)
    (hs : ts.explicit = true → short16 vr = true → len < 65536) :
    encodeHeader ts ⟨t, vr, len⟩ = .ok (header ts t vr len, (header ts t vr len).length) :=
  encodeHeader_ref ts t vr len hs

end Dicom.C02
