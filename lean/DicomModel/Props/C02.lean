import DicomModel.Lemmas.RefBuild
/-
C02 — Reading and rewriting a canonical stream reproduces it byte for byte.

Objects:
* `Ref.encElems ts t` (Model/RefEncode.lean) — the *independent reference encoder*, a structural recursion
  written from PS3.5 §7.1 / §7.5 / §A.4 / §6.2 with its own VR code table, 16-bit-length VR list, header
  and value layouts. It shares with the models of dicom-rs only the tree types, the integer codecs
  `enc16/enc32/enc64` and the constants `undefinedLen`, `Tag.pixelData`.
* `Ref.canonical ts dict t` — decidable: ascending unique tags at every level, even value lengths equal to
  the value field length, every defined sequence / item length equal to the true length of its content,
  values in the form and range of their VR, default repertoire, Implicit VR: the VR is the dictionary's.
* the models of dicom-rs (builder codec1): `writeDataset` (`DataSetWriter` token state machine over the
  stateful encoder, strategies `noChange` / `setUndefined`), `readTokens` (`DataSetReader` state machine
  over the stateful decoder), `buildObject`, `readDataset` = `InMemDicomObject::read_dataset_with_ts`.

All theorems hold for trees of ARBITRARY nesting depth, all 34 VRs, the three uncompressed transfer
syntaxes, explicit and undefined sequence / item lengths in any mixture, encapsulated pixel data with
empty or non-empty offset table and zero-length fragments (mutual induction on the tree; no bound).
-/
namespace Dicom.C02
open Dicom.Ref

/-- a canonical encoded data set: the reference encoding of a canonical tree -/
def Canonical (ts : Syntax) (dict : Tag → Option VR) (bs : Bytes) : Prop :=
  ∃ t, canonical ts dict t = true ∧ bs = encElems ts t

/-- a canonical encoded data set in which every sequence and item has undefined length -/
def CanonicalUndefined (ts : Syntax) (dict : Tag → Option VR) (bs : Bytes) : Prop :=
  ∃ t, canonical ts dict t = true ∧ allUndefElems t = true ∧ bs = encElems ts t

theorem canonical_parts {ts : Syntax} {dict : Tag → Option VR} {t : Elems} (h : canonical ts dict t = true) :
    dictOk ts dict = true ∧ canonElems ts dict t = true ∧ sortedElems t = true := by
  simp only [canonical, Bool.and_eq_true] at h
  exact ⟨h.1.1, h.1.2, h.2⟩

/-- **On canonical trees the writer model with the no-change strategy equals the reference encoder.** -/
theorem writer_eq_ref (ts : Syntax) (dict : Tag → Option VR) (t : Elems) (h : canonical ts dict t = true) :
    writeDataset ts .noChange t = .ok (encElems ts t) :=
  writeDataset_ref ts dict .noChange t (canonical_parts h).2.1 (Or.inl rfl)

/-- … and so does the default strategy (set-undefined) when every sequence and item length is undefined. -/
theorem writer_eq_ref_default (ts : Syntax) (dict : Tag → Option VR) (t : Elems) (h : canonical ts dict t = true)
    (hu : allUndefElems t = true) :
    writeDataset ts .setUndefined t = .ok (encElems ts t) :=
  writeDataset_ref ts dict .setUndefined t (canonical_parts h).2.1 (Or.inr hu)

/-- **The reader model on the reference encoding of a canonical tree yields exactly the tree's tokens —
with its recorded lengths and values — and ends without error** (the fuel is the one `readDataset` uses). -/
theorem reader_ref (ts : Syntax) (dict : Tag → Option VR) (t : Elems) (h : canonical ts dict t = true) :
    readTokens ((encElems ts t).length + 2) (RState.new ts dict (encElems ts t)) = (t.tokens, none) := by
  obtain ⟨hd, hc, _⟩ := canonical_parts h
  have := tokens_le_elems ts t
  exact readTokens_ref ts dict t hd hc _ (by omega)

/-- reading the reference encoding gives the tree back (`read_dataset_with_ts`: reader + `build_object`) -/
theorem read_ref (ts : Syntax) (dict : Tag → Option VR) (t : Elems) (h : canonical ts dict t = true) :
    readDataset ts dict (encElems ts t) = .ok t := by
  obtain ⟨_, hc, hs⟩ := canonical_parts h
  unfold readDataset
  rw [reader_ref ts dict t h]
  simp only
  rw [buildObject_ref ts dict t hc hs _ (Nat.lt_succ_self _)]
  simp [elemsOfList_toList]

/-- **Reading a canonical stream and writing it back keeping the recorded lengths reproduces it byte
for byte.** -/
theorem rewrite_identity (ts : Syntax) (dict : Tag → Option VR) (bs : Bytes) (h : Canonical ts dict bs) :
    ∃ t, readDataset ts dict bs = .ok t ∧ writeDataset ts .noChange t = .ok bs := by
  obtain ⟨t, hc, rfl⟩ := h
  exact ⟨t, read_ref ts dict t hc, writer_eq_ref ts dict t hc⟩

/-- **When every sequence and item has undefined length, the default writer settings reproduce it too.** -/
theorem rewrite_identity_default (ts : Syntax) (dict : Tag → Option VR) (bs : Bytes)
    (h : CanonicalUndefined ts dict bs) :
    ∃ t, readDataset ts dict bs = .ok t ∧ writeDataset ts .setUndefined t = .ok bs := by
  obtain ⟨t, hc, hu, rfl⟩ := h
  exact ⟨t, read_ref ts dict t hc, writer_eq_ref_default ts dict t hc hu⟩

/-- the header written by each of the three encoders of dicom-rs is the PS3.5 layout of the reference
encoder (no length truncation: a 16-bit-length VR needs `len < 65536`) -/
theorem header_eq_ref (ts : Syntax) (t : Tag) (vr : VR) (len : Nat)
    (hs : ts.explicit = true → short16 vr = true → len < 65536) :
    encodeHeader ts ⟨t, vr, len⟩ = .ok (header ts t vr len, (header ts t vr len).length) :=
  encodeHeader_ref ts t vr len hs

/-- every length the reference encoder produces for a canonical tree is even -/
theorem ref_length_even (ts : Syntax) (dict : Tag → Option VR) (t : Elems) (h : canonical ts dict t = true) :
    (encElems ts t).length % 2 = 0 :=
  even_elems ts dict t (canonical_parts h).2.1

/-! ### the hypotheses are satisfiable: nested explicit lengths, pixel data, all three syntaxes -/

/-- (0008,0060) CS "MR" inside an explicit-length item of an explicit-length sequence, an empty
undefined-length sequence, encapsulated pixel data with an empty offset table, a zero-length fragment and a
2-byte fragment -/
def sample (ts : Syntax) : Elems := fixElems ts
  (.cons (.seq ⟨0x0008, 0x1140⟩ 0 (.cons 0 (.cons (.prim ⟨0x0008, 0x0060⟩ .CS 0 (.strs [[0x4D, 0x52]])) .nil)
      (.cons undefinedLen .nil .nil)))
   (.cons (.seq ⟨0x0040, 0x0275⟩ undefinedLen .nil)
   (.cons (.pix [] [[], [1, 2]]) .nil)))

def sampleDict : Tag → Option VR := fun t =>
  if t = ⟨0x0008, 0x1140⟩ ∨ t = ⟨0x0040, 0x0275⟩ then some .SQ else if t = ⟨0x0008, 0x0060⟩ then some .CS else none

example : canonical .explicitLE sampleDict (sample .explicitLE) = true := by decide +kernel
example : canonical .explicitBE sampleDict (sample .explicitBE) = true := by decide +kernel
example : canonical .implicitLE sampleDict (sample .implicitLE) = true := by decide +kernel

/-- a value of odd length is not canonical (the premise "even value lengths" is not vacuous) -/
example : canonical .explicitLE sampleDict
    (.cons (.prim ⟨0x0008, 0x0060⟩ .CS 3 (.strs [[0x4D, 0x52, 0x20]])) .nil) = false := by decide +kernel

end Dicom.C02
