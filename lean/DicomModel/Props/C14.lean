/-
C14 — Tags, keywords and attribute selectors have a lossless text syntax.

Model: `Model/TagText.lean` (`Display`/`FromStr` for `Tag`, selector `Display`,
`DataDictionary::parse_tag` / `parse_selector`), instantiated with the standard dictionary of C15 in
`Model/TagTextStd.lean`. Texts are UTF-8 byte strings; `utf8Encode cs` ranges over all Rust strings.
-/
import DicomModel.Lemmas.TagText
import DicomModel.Model.TagTextStd
import DicomModel.Props.C15
namespace Dicom.TagText
open Dicom.Dict

def Tag.Valid (t : Tag) : Prop := t.1 < 65536 ∧ t.2 < 65536

/-! ## tags -/

/-- **Every tag printed in any of its accepted text forms parses back to the same tag**:
3 layouts × upper/lower case, all 2^32 tags. -/
theorem tag_forms_rt (f : Form) (upper : Bool) (t : Tag) (h : t.Valid) :
    parseTag (tagForm f upper t) = .ok t :=
  (parseTag_ok_iff _ _).mpr (specTagOfText_tagForm f upper t h.1 h.2)

/-- `Display` then `FromStr` -/
theorem tag_display_rt (t : Tag) (h : t.Valid) : parseTag (printTag t) = .ok t :=
  tag_forms_rt .paren true t h

/-- what "one of the accepted forms of `t`" means, spelled out: eight hexadecimal digit characters
(each of either case) whose values are the nibbles of group and element, laid out in one of the
three ways -/
def IsTagText (s : Bytes) (t : Tag) : Prop :=
  ∃ a b c d e f g h, specHex4 a b c d = some t.1 ∧ specHex4 e f g h = some t.2 ∧
    (s = [0x28, a, b, c, d, 0x2C, e, f, g, h, 0x29] ∨ s = [a, b, c, d, 0x2C, e, f, g, h] ∨
      s = [a, b, c, d, e, f, g, h])

theorem specPair_eq_some {x y : Option Nat} {t : Tag} (h : specPair x y = some t) :
    x = some t.1 ∧ y = some t.2 := by
  unfold specPair at h
  cases x <;> cases y <;> simp at h
  subst h; exact ⟨rfl, rfl⟩

theorem spec_iff_isTagText (s : Bytes) (t : Tag) : specTagOfText s = some t ↔ IsTagText s t := by
  constructor
  · intro h
    unfold specTagOfText at h
    split at h
    · rename_i p a b c d q e f g h' r
      split at h
      · rename_i hc
        obtain ⟨h1, h2⟩ := specPair_eq_some h
        obtain ⟨rfl, rfl, rfl⟩ := hc
        exact ⟨a, b, c, d, e, f, g, h', h1, h2, Or.inl rfl⟩
      · cases h
    · rename_i a b c d q e f g h'
      split at h
      · rename_i hc
        obtain ⟨h1, h2⟩ := specPair_eq_some h
        subst hc
        exact ⟨a, b, c, d, e, f, g, h', h1, h2, Or.inr (Or.inl rfl)⟩
      · cases h
    · rename_i a b c d e f g h'
      obtain ⟨h1, h2⟩ := specPair_eq_some h
      exact ⟨a, b, c, d, e, f, g, h', h1, h2, Or.inr (Or.inr rfl)⟩
    · cases h
  · rintro ⟨a, b, c, d, e, f, g, h, h1, h2, rfl | rfl | rfl⟩ <;>
      simp [specTagOfText, h1, h2, specPair]

/-- **Parsing accepts exactly those forms** — over arbitrary byte strings `s`:
`s.parse::<Tag>() = Ok(t)` iff `s` is one of the forms of `t`. -/
theorem tag_accepts_exactly (s : Bytes) (t : Tag) : parseTag s = .ok t ↔ IsTagText s t :=
  (parseTag_ok_iff s t).trans (spec_iff_isTagText s t)

/-- an accepted text denotes a valid (16-bit, 16-bit) tag -/
theorem tag_parsed_valid {s : Bytes} {t : Tag} (h : parseTag s = .ok t) : t.Valid := by
  obtain ⟨a, b, c, d, e, f, g, h', h1, h2, _⟩ := (tag_accepts_exactly s t).mp h
  exact ⟨specHex4_lt h1, specHex4_lt h2⟩

/-- **No panic**: for every Rust string (any sequence of Unicode scalar values) the parser returns. -/
theorem tag_parse_no_panic (cs : List Char) : parseTag (utf8Encode cs) ≠ .panic :=
  parseTag_ne_panic (okAfterAscii_utf8 cs)

/-- **Any other string is rejected with an error.** -/
theorem tag_rejects (cs : List Char) (h : ∀ t, ¬ IsTagText (utf8Encode cs) t) :
    ∃ e, parseTag (utf8Encode cs) = .err e := by
  cases hp : parseTag (utf8Encode cs) with
  | ok t => exact absurd ((tag_accepts_exactly _ t).mp hp) (h t)
  | err e => exact ⟨e, rfl⟩
  | panic => exact absurd hp (tag_parse_no_panic cs)

/-- the input of defect #1 (`"abc\u{e9}abc"`, 8 bytes, byte 4 inside a character) is an error of the
repaired parser, not a panic; a valid lower-case form and a mixed-case form are accepted -/
example : parseTag [0x61, 0x62, 0x63, 0xC3, 0xA9, 0x61, 0x62, 0x63] = .err .number ∧
    parseTag [0x37, 0x66, 0x65, 0x30, 0x30, 0x30, 0x31, 0x30] = .ok (0x7FE0, 0x0010) ∧
    parseTag [0x28, 0x37, 0x46, 0x65, 0x30, 0x2C, 0x30, 0x30, 0x31, 0x30, 0x29] = .ok (0x7FE0, 0x0010) ∧
    parseTag [0x28, 0x37, 0x46, 0x65, 0x30, 0x2C, 0x30, 0x30, 0x31, 0x30, 0x20] = .err .end_ := by
  decide

/-! ## selectors -/

def Selector.Valid (s : Selector) : Prop :=
  (∀ p ∈ s.path, Tag.Valid p.1 ∧ p.2 < 4294967296) ∧ Tag.Valid s.leaf

/-- a printed tag is a selector key for its tag, whatever the dictionary -/
theorem keyText_printTag (byName : Bytes → Option Tag) (t : Tag) (h : t.Valid) :
    KeyText byName (printTag t) t where
  resolves := by unfold dictParseTag; rw [tag_display_rt t h]
  noDot := fun hm => by have := mem_printTag hm; omega
  noBracket := fun hm => by have := mem_printTag hm; omega
  noClose := by rw [printTag_getLast]; simp

/-- **Every attribute selector printed as text parses back to the same selector** — any depth, any
item indices below 2^32, with any dictionary. -/
theorem selector_rt (byName : Bytes → Option Tag) (s : Selector) (h : s.Valid) :
    parseSelector byName (printSelector s) = .ok s := by
  have hp : printSelector s =
      joinDots ((s.path.map fun p => (⟨printTag p.1, p.1, p.2, true⟩ : KeyStep)).map KeyStep.text ++
        [printTag s.leaf]) := by
    simp [printSelector, Selector.steps, printStep, KeyStep.text, nestedText, Function.comp_def]
  rw [hp, parseSelector_keys _ _ s.leaf _ (keyText_printTag byName s.leaf h.2)]
  · simp [Function.comp_def]
  · intro st hst
    obtain ⟨p, hp, rfl⟩ := List.mem_map.mp hst
    exact ⟨keyText_printTag byName p.1 (h.1 p hp).1, (h.1 p hp).2, by simp⟩

/-- the hypotheses of `selector_rt` are met by a concrete 3-step selector, which round-trips -/
example : stdParseSelector (printSelector ⟨[((0x0040, 0xA730), 1), ((0x0040, 0xA168), 4294967295)], (0x0008, 0x0100)⟩)
    = .ok ⟨[((0x0040, 0xA730), 1), ((0x0040, 0xA168), 4294967295)], (0x0008, 0x0100)⟩ :=
  selector_rt _ _ ⟨by simp [Tag.Valid], by simp [Tag.Valid]⟩

/-! ## keywords -/

set_option maxRecDepth 100000 in
/-- every keyword of the generated table is such a text (kernel evaluation over the table) -/
theorem keywords_ok : Gen.entries.all (fun r => keywordOk r.alias) = true := by decide +kernel

/-- **Every dictionary keyword resolves to that keyword's tag**: `parse_tag(keyword)` is the tag of
the entry carrying the keyword. -/
theorem keyword_resolves {r : Row} (hr : r ∈ Gen.entries) :
    stdParseTag (bytesOf r.alias) = .tag (r.group, r.elem) ∧
      KeyText stdByName (bytesOf r.alias) (r.group, r.elem) := by
  obtain ⟨hal, _, hnat, herr⟩ := keywordOk_spec (List.all_eq_true.mp keywords_ok r hr)
  obtain ⟨h1, h2, h3, h4⟩ := alnum_facts hal
  have hres : stdParseTag (bytesOf r.alias) = .tag (r.group, r.elem) := by
    unfold stdParseTag dictParseTag
    cases hp : parseTag (bytesOf r.alias) with
    | ok t => rw [hp] at herr; cases herr
    | panic => rw [hp] at herr; cases herr
    | err e =>
      simp only []
      have : stdByName (bytesOf r.alias) = some (r.group, r.elem) := by
        unfold stdByName
        rw [if_neg h4, hnat, by_name_consistent hr]; rfl
      rw [this]
  exact ⟨hres, ⟨hres, h1, h2, h3⟩⟩

/-- **…used in a selector**: a selector written with dictionary keywords (items written or omitted)
parses to the selector of the keywords' tags. Stated for path entries `(row, item, written?)`. -/
theorem keyword_selector (path : List (Row × Nat × Bool)) (leaf : Row)
    (hp : ∀ p ∈ path, p.1 ∈ Gen.entries ∧ p.2.1 < 4294967296 ∧ (p.2.2 = false → p.2.1 = 0))
    (hl : leaf ∈ Gen.entries) :
    stdParseSelector (joinDots ((path.map fun p =>
        (⟨bytesOf p.1.alias, (p.1.group, p.1.elem), p.2.1, p.2.2⟩ : KeyStep).text) ++ [bytesOf leaf.alias])) =
      .ok ⟨path.map (fun p => ((p.1.group, p.1.elem), p.2.1)), (leaf.group, leaf.elem)⟩ := by
  have := parseSelector_keys (byName := stdByName)
    (path.map fun p => (⟨bytesOf p.1.alias, (p.1.group, p.1.elem), p.2.1, p.2.2⟩ : KeyStep))
    (bytesOf leaf.alias) (leaf.group, leaf.elem)
    (by
      intro st hst
      obtain ⟨p, hpm, rfl⟩ := List.mem_map.mp hst
      exact ⟨(keyword_resolves (hp p hpm).1).2, (hp p hpm).2.1, (hp p hpm).2.2⟩)
    (keyword_resolves hl).2
  simpa [stdParseSelector, Function.comp_def] using this

end Dicom.TagText
