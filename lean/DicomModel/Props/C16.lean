import DicomModel.Model.Registry
import DicomModel.Gen.Registry
/-
C16 — Every registered transfer syntax is described consistently.

Two layers.
(1) General theorems about the *code* of the registry, for every map, every registration sequence
    (built-ins and plug-ins alike) and every string: trimming makes `get` blind to trailing
    NUL/whitespace, `register` keeps keys unique, never drops a key, and never loses a capability
    of an already registered UID; the seven capability queries are coherent functions of the codec.
(2) Facts about the *contents* of the real registry, dumped at run time by the translator into
    `Gen/Registry.lean` for the two feature sets of the property (`Gen.tools`: rle+jpeg+deflate as
    the tools link it; `Gen.dflt`: default features): decided on the whole (finite) table.
-/
namespace Dicom.Registry

/-! ## (1a) `get` and padding -/

def AllPad (p : Str) : Prop := ∀ c ∈ p, isPad c = true

instance (p : Str) : Decidable (AllPad p) := by unfold AllPad; exact inferInstance

theorem trimEnd_allPad {p : Str} (h : AllPad p) : trimEnd p = [] := by
  induction p with
  | nil => rfl
  | cons c cs ih =>
    have hc : isPad c = true := h c (by simp)
    have hcs : AllPad cs := fun x hx => h x (by simp [hx])
    simp [trimEnd, ih hcs, hc]

/-- trailing padding (any mix of NUL and Unicode whitespace, any length) is invisible to `trimEnd` -/
theorem trimEnd_append_pad (s : Str) {p : Str} (h : AllPad p) : trimEnd (s ++ p) = trimEnd s := by
  induction s with
  | nil => simp [trimEnd_allPad h, trimEnd]
  | cons c cs ih => simp [trimEnd, ih]

/-- a string that does not end in a padding character is left alone -/
theorem trimEnd_clean : ∀ (s : Str), (∀ c, s.getLast? = some c → isPad c = false) → trimEnd s = s
  | [], _ => rfl
  | [c], h => by
    have : isPad c = false := h c (by simp)
    simp [trimEnd, this]
  | c :: d :: cs, h => by
    have ih := trimEnd_clean (d :: cs) (fun x hx => h x (by simpa [List.getLast?_cons_cons] using hx))
    simp only [trimEnd] at ih ⊢
    rw [ih]

theorem trimEnd_idem (s : Str) : trimEnd (trimEnd s) = trimEnd s := by
  induction s with
  | nil => rfl
  | cons c cs ih =>
    simp only [trimEnd]
    cases h : trimEnd cs with
    | nil =>
      by_cases hc : isPad c = true
      · simp [hc, trimEnd]
      · simp [hc, trimEnd]
    | cons d ds =>
      rw [h] at ih
      simp only [trimEnd] at ih ⊢
      rw [ih]

/-- **get_padded** (every map, every string, every padding): looking up `uid ++ pad` is looking up `uid`. -/
theorem get_padded (m : Map) (uid : Str) {pad : Str} (h : AllPad pad) :
    get m (uid ++ pad) = get m uid := by
  simp [get, trimEnd_append_pad uid h]

/-- NULs and spaces are padding (the two paddings DICOM uses for UIDs) -/
theorem nul_space_allPad (pad : Str) (h : ∀ c ∈ pad, c = 0 ∨ c = 32) : AllPad pad := by
  intro c hc
  rcases h c hc with rfl | rfl <;> decide

/-! ## (1b) `register`: unique keys, precedence -/

theorem eqStr_iff : ∀ (a b : Str), eqStr a b = true ↔ a = b
  | [], [] => by simp [eqStr]
  | [], _ :: _ => by simp [eqStr]
  | _ :: _, [] => by simp [eqStr]
  | a :: as, b :: bs => by simp [eqStr, eqStr_iff as bs]

theorem eqStr_eq_decide (a b : Str) : eqStr a b = decide (a = b) := by
  rw [Bool.eq_iff_iff]; simp [eqStr_iff]

theorem lookup_eq (m : Map) (k : Str) : lookup m k = m.find? (fun e => decide (e.uid = k)) := by
  simp only [lookup, eqStr_eq_decide]

theorem replaceKey_eq (m : Map) (t : Ts) : replaceKey m t = m.map fun e => if e.uid = t.uid then t else e := by
  simp only [replaceKey, eqStr_eq_decide, decide_eq_true_eq]

def keys (m : Map) : List Str := m.map (·.uid)

theorem lookup_none_iff {m : Map} {k : Str} : lookup m k = none ↔ k ∉ keys m := by
  induction m with
  | nil => simp [lookup, keys]
  | cons e es ih =>
    simp only [lookup_eq, keys, List.find?_cons, List.map_cons, List.mem_cons, not_or] at ih ⊢
    by_cases h : e.uid = k
    · simp [h]
    · simp only [h, decide_false]
      constructor
      · intro hn; exact ⟨fun e' => h e'.symm, ih.mp hn⟩
      · intro hn; exact ih.mpr hn.2

theorem lookup_some_uid {m : Map} {k : Str} {t : Ts} (h : lookup m k = some t) : t.uid = k ∧ t ∈ m := by
  rw [lookup_eq] at h
  have h1 := List.find?_some h
  have h2 := List.mem_of_find?_eq_some h
  exact ⟨by simpa using h1, h2⟩

theorem keys_replaceKey (m : Map) (t : Ts) : keys (replaceKey m t) = keys m := by
  simp only [keys, replaceKey_eq, List.map_map]
  apply List.map_congr_left
  intro e _
  by_cases h : e.uid = t.uid <;> simp [h]

/-- the key set after `register`: unchanged, or one new key at the end -/
theorem keys_register (m : Map) (t : Ts) :
    keys (register m t).1 = if t.uid ∈ keys m then keys m else keys m ++ [t.uid] := by
  unfold register
  cases h : lookup m t.uid with
  | none =>
    have hn := lookup_none_iff.mp h
    rw [if_neg hn]; simp [keys]
  | some old =>
    have hin : t.uid ∈ keys m := by
      have := lookup_some_uid h
      rw [← this.1]; exact List.mem_map_of_mem this.2
    by_cases hr : replaces old.codec t.codec = true
    · simp [hr, hin, keys_replaceKey]
    · simp [hr, hin]

/-- **uids_unique, general form**: `register` preserves uniqueness of keys … -/
theorem register_nodup (m : Map) (t : Ts) (h : (keys m).Nodup) : (keys (register m t).1).Nodup := by
  rw [keys_register]
  by_cases hin : t.uid ∈ keys m
  · simp [hin, h]
  · simp only [hin, if_false]
    exact List.nodup_append.mpr ⟨h, by simp, by
      intro a ha b hb
      simp at hb; subst hb; intro e; exact hin (e ▸ ha)⟩

theorem foldl_register_nodup (l : List Ts) (m : Map) (h : (keys m).Nodup) :
    (keys (l.foldl (fun m t => (register m t).1) m)).Nodup := by
  induction l generalizing m with
  | nil => exact h
  | cons t ts ih => exact ih _ (register_nodup m t h)

/-- … so whatever is registered in whatever order (built-ins, inventory plug-ins, duplicates),
the registry never holds two entries with the same UID. -/
theorem build_nodup (l : List Ts) : (keys (build l)).Nodup :=
  foldl_register_nodup l [] (by simp [keys])

/-- a registered UID is never dropped by later registrations -/
theorem register_keeps_keys (m : Map) (t : Ts) {k : Str} (h : k ∈ keys m) : k ∈ keys (register m t).1 := by
  rw [keys_register]
  by_cases hin : t.uid ∈ keys m <;> simp [hin, h]

theorem lookup_mem {m : Map} (hn : (keys m).Nodup) {t : Ts} (ht : t ∈ m) : lookup m t.uid = some t := by
  induction m with
  | nil => cases ht
  | cons e es ih =>
    simp only [keys, List.map_cons, List.nodup_cons] at hn
    simp only [lookup_eq, List.find?_cons] at ih ⊢
    rcases List.mem_cons.mp ht with rfl | hmem
    · simp
    · have hne : e.uid ≠ t.uid := fun e' => hn.1 (e' ▸ List.mem_map_of_mem hmem)
      simp only [hne, decide_false]
      exact ih hn.2 hmem

theorem lookup_append_new {m : Map} {t : Ts} (h : lookup m t.uid = none) (k : Str) :
    lookup (m ++ [t]) k = if k = t.uid then some t else lookup m k := by
  rw [lookup_eq] at h
  simp only [lookup_eq, List.find?_append]
  by_cases hk : k = t.uid
  · subst hk
    have : List.find? (fun e => decide (e.uid = t.uid)) m = none := h
    simp [this]
  · cases hf : List.find? (fun e => decide (e.uid = k)) m with
    | some x => simp [hk]
    | none =>
      have : ¬ t.uid = k := fun e => hk e.symm
      simp [hk, this]

theorem lookup_replaceKey (m : Map) (t : Ts) (k : Str) :
    lookup (replaceKey m t) k =
      if k = t.uid then (if t.uid ∈ keys m then some t else none) else lookup m k := by
  induction m with
  | nil => simp [lookup, replaceKey, keys]
  | cons e es ih =>
    simp only [lookup_eq, replaceKey_eq, keys, List.map_cons, List.find?_cons, List.mem_cons] at ih ⊢
    by_cases he : e.uid = t.uid
    · by_cases hk : k = t.uid
      · simp [he, hk]
      · have h1 : ¬ t.uid = k := fun e' => hk e'.symm
        have h2 : ¬ e.uid = k := fun e' => hk (he ▸ e'.symm)
        simp only [he, if_true, h1, hk, decide_false, if_false] at ih ⊢
        exact ih
    · by_cases hk : k = t.uid
      · have h2 : ¬ e.uid = k := fun e' => he (hk ▸ e')
        have h3 : ¬ t.uid = e.uid := fun e' => he e'.symm
        simp only [he, if_false, decide_false, hk, if_true, h3, false_or] at ih ⊢
        simpa [hk] using ih
      · by_cases hek : e.uid = k
        · simp [hek, hk]
        · simp only [he, if_false, hek, decide_false, hk] at ih ⊢
          exact ih

/-- **register precedence**: what `lookup` answers after `register m t`. -/
theorem lookup_register (m : Map) (t : Ts) (k : Str) :
    lookup (register m t).1 k =
      if k = t.uid then
        (match lookup m t.uid with
         | none => some t
         | some old => if replaces old.codec t.codec then some t else some old)
      else lookup m k := by
  unfold register
  cases h : lookup m t.uid with
  | none => simp [lookup_append_new h]
  | some old =>
    have hin : t.uid ∈ keys m := by
      have := lookup_some_uid h
      rw [← this.1]; exact List.mem_map_of_mem this.2
    by_cases hr : replaces old.codec t.codec = true
    · simp only [hr, if_true, lookup_replaceKey, hin]
    · by_cases hk : k = t.uid
      · simp [hr, hk, h]
      · simp [hr, hk]

/-- a replacement only ever *adds* capabilities -/
theorem replaces_le {a b : Codec} (h : replaces a b = true) : Codec.le a b = true := by
  cases a with
  | none => simp [replaces] at h
  | encap r w =>
    cases b with
    | encap r' w' => revert h; cases r <;> cases w <;> cases r' <;> cases w' <;> decide
    | none => simp [replaces] at h
    | dataset d => cases r <;> cases w <;> simp [replaces] at h
  | dataset d =>
    cases b with
    | dataset d' => revert h; cases d <;> cases d' <;> decide
    | none => cases d <;> simp [replaces] at h
    | encap r w => cases d <;> simp [replaces] at h

theorem Codec.le_refl (a : Codec) : Codec.le a a = true := by
  cases a with
  | none => decide
  | encap r w => cases r <;> cases w <;> decide
  | dataset d => cases d <;> decide

/-- **register_never_loses**: if a UID resolves before a registration, it still resolves after it,
to an entry of the same UID offering at least the same capabilities (fully supported stays fully
supported, decodable stays decodable, reader/writer stay present). -/
theorem register_never_loses (m : Map) (t : Ts) {k : Str} {old : Ts} (h : lookup m k = some old) :
    ∃ new, lookup (register m t).1 k = some new ∧ new.uid = k ∧ Codec.le old.codec new.codec = true := by
  rw [lookup_register]
  by_cases hk : k = t.uid
  · subst hk
    simp only [if_true, h]
    by_cases hr : replaces old.codec t.codec = true
    · exact ⟨t, by simp [hr], rfl, replaces_le hr⟩
    · exact ⟨old, by simp [hr], (lookup_some_uid h).1, Codec.le_refl _⟩
  · exact ⟨old, by simp [hk, h], (lookup_some_uid h).1, Codec.le_refl _⟩

/-- a fresh UID is registered as given -/
theorem register_vacant (m : Map) (t : Ts) (h : lookup m t.uid = none) :
    lookup (register m t).1 t.uid = some t ∧ (register m t).2 = true := by
  constructor
  · rw [lookup_register]; simp [h]
  · simp [register, h]

/-- **get_of_mem**: in any map with unique keys, an entry whose UID does not itself end in padding is
found under its UID followed by any padding. -/
theorem get_of_mem {m : Map} (hn : (keys m).Nodup) {t : Ts} (ht : t ∈ m) (hclean : trimEnd t.uid = t.uid)
    {pad : Str} (hp : AllPad pad) : get m (t.uid ++ pad) = some t := by
  rw [get_padded _ _ hp]
  simp only [get, hclean]
  exact lookup_mem hn ht

/-- **get_registered**: … in particular in any registry built by `register`. -/
theorem get_registered (l : List Ts) {t : Ts} (ht : t ∈ build l) (hclean : trimEnd t.uid = t.uid)
    {pad : Str} (hp : AllPad pad) : get (build l) (t.uid ++ pad) = some t :=
  get_of_mem (build_nodup l) ht hclean hp

/-! ## (1c) the capability queries are coherent, for every codec -/

theorem fully_supported_decodes_all (c : Codec) : c.isFullySupported = true → c.canDecodeAll = true := by
  cases c with
  | none => decide
  | encap r w => cases r <;> cases w <;> decide
  | dataset d => cases d <;> decide

theorem decode_all_decodes_dataset (c : Codec) : c.canDecodeAll = true → c.canDecodeDataset = true := by
  cases c with
  | none => decide
  | encap r w => cases r <;> cases w <;> decide
  | dataset d => cases d <;> decide

theorem codec_free_fully_supported (c : Codec) : c.isCodecFree = true → c.isFullySupported = true := by
  cases c with
  | none => decide
  | encap r w => cases r <;> cases w <;> decide
  | dataset d => cases d <;> decide

theorem unsupported_iff_not_decodable (c : Codec) : c.isUnsupported = true ↔ c.canDecodeDataset = false := by
  cases c with
  | none => decide
  | encap r w => cases r <;> cases w <;> decide
  | dataset d => cases d <;> decide

theorem fully_supported_iff (c : Codec) :
    c.isFullySupported = true ↔
      c.canDecodeDataset = true ∧ (c.isEncapsulatedPixelData = true → c.hasPixelReader = true ∧ c.hasPixelWriter = true) := by
  cases c with
  | none => decide
  | encap r w => cases r <;> cases w <;> decide
  | dataset d => cases d <;> decide

theorem decode_all_iff (c : Codec) :
    c.canDecodeAll = true ↔
      c.canDecodeDataset = true ∧ (c.isEncapsulatedPixelData = true → c.hasPixelReader = true) := by
  cases c with
  | none => decide
  | encap r w => cases r <;> cases w <;> decide
  | dataset d => cases d <;> decide

theorem unsupported_pixel_iff (c : Codec) :
    c.isUnsupportedPixelEncapsulation = true ↔
      c.isUnsupported = true ∨ (c.isEncapsulatedPixelData = true ∧ c.hasPixelReader = false ∧ c.hasPixelWriter = false) := by
  cases c with
  | none => decide
  | encap r w => cases r <;> cases w <;> decide
  | dataset d => cases d <;> decide

/-- decoder and encoder are offered together and for the same encoding; only the (unregistered)
implicit-VR big-endian combination has none -/
theorem coder_present_iff (t : Ts) : t.coder.isSome = true ↔ ¬ (t.big = true ∧ t.explicit = false) := by
  cases t with
  | mk uid name big explicit codec => cases big <;> cases explicit <;> simp [Ts.coder, coderOf]

/-! ## (2) the dumped registries -/

theorem Coder.beq_iff (a b : Coder) : a.beq b = true ↔ a = b := by cases a <;> cases b <;> decide

theorem optCoderBeq_iff (a b : Option Coder) : optCoderBeq a b = true ↔ a = b := by
  cases a <;> cases b <;> simp [optCoderBeq, Coder.beq_iff]

theorem Queries.beq_iff (a b : Queries) : a.beq b = true ↔ a = b := by
  cases a; cases b; simp [Queries.beq, and_assoc]

theorem Codec.beq_iff (a b : Codec) : a.beq b = true ↔ a = b := by
  cases a <;> cases b <;> simp [Codec.beq]

/-! strictly ascending lists have no duplicates -/

theorem ltStr_irrefl : ∀ (a : Str), ltStr a a = false
  | [] => rfl
  | a :: as => by
    have h : Nat.blt a a = false := by
      rw [Bool.eq_false_iff, ne_eq, Nat.blt_eq]; omega
    simp [ltStr, ltStr_irrefl as, h]

theorem ltStr_trans : ∀ (a b c : Str), ltStr a b = true → ltStr b c = true → ltStr a c = true
  | [], [], _, h, _ => by simp [ltStr] at h
  | [], _ :: _, [], _, h => by simp [ltStr] at h
  | [], _ :: _, _ :: _, _, _ => by simp [ltStr]
  | _ :: _, [], _, h, _ => by simp [ltStr] at h
  | _ :: _, _ :: _, [], _, h => by simp [ltStr] at h
  | a :: as, b :: bs, c :: cs, h1, h2 => by
    simp only [ltStr, Bool.or_eq_true, Bool.and_eq_true, Nat.blt_eq, Nat.beq_eq] at h1 h2 ⊢
    rcases h1 with h1 | ⟨e1, h1⟩ <;> rcases h2 with h2 | ⟨e2, h2⟩
    · left; omega
    · left; omega
    · left; omega
    · right; exact ⟨by omega, ltStr_trans as bs cs h1 h2⟩

theorem ascB_head : ∀ (l : List Str) (a : Str), ascB (a :: l) = true → ∀ x ∈ l, ltStr a x = true
  | [], _, _, x, hx => by cases hx
  | b :: r, a, h, x, hx => by
    simp only [ascB, Bool.and_eq_true] at h
    rcases List.mem_cons.mp hx with rfl | hx
    · exact h.1
    · exact ltStr_trans a b x h.1 (ascB_head r b h.2 x hx)

theorem ascB_tail {a : Str} {l : List Str} (h : ascB (a :: l) = true) : ascB l = true := by
  cases l with
  | nil => rfl
  | cons b r => simp only [ascB, Bool.and_eq_true] at h; exact h.2

theorem ascB_nodup : ∀ (l : List Str), ascB l = true → l.Nodup
  | [], _ => List.nodup_nil
  | a :: l, h => by
    refine List.nodup_cons.mpr ⟨?_, ascB_nodup l (ascB_tail h)⟩
    intro hm
    have := ascB_head l a h a hm
    rw [ltStr_irrefl] at this; cases this

/-- registering entries with pairwise distinct UIDs one by one yields exactly that list: nothing is
shadowed, replaced or reordered -/
theorem foldl_register_distinct (l : List Ts) (m : Map) (h : (keys (m ++ l)).Nodup) :
    l.foldl (fun m t => (register m t).1) m = m ++ l := by
  induction l generalizing m with
  | nil => simp
  | cons t ts ih =>
    have hnot : t.uid ∉ keys m := by
      simp only [keys, List.map_append, List.map_cons] at h
      have := (List.nodup_append.mp h).2.2
      intro hin
      exact this _ hin _ (by simp) rfl
    have hreg : (register m t).1 = m ++ [t] := by
      simp [register, lookup_none_iff.mpr hnot]
    simp only [List.foldl_cons, hreg]
    rw [ih (m ++ [t]) (by simpa using h)]
    simp

theorem build_distinct (l : List Ts) (h : (keys l).Nodup) : build l = l := by
  have := foldl_register_distinct l [] (by simpa using h)
  simpa [build] using this

/-- what the Boolean per-entry check means -/
theorem Row.ok_sound {r : Row} (h : r.ok = true) :
    r = r.ts.row ∧
    (r.ts.explicit = false ↔ r.ts.uid = implicitLeUid) ∧
    (r.ts.big = true ↔ r.ts.uid = explicitBeUid) ∧
    (r.q.decodeDataset = true →
      r.dec.isSome = true ∧ r.enc.isSome = true ∧ r.dec = r.enc ∧ r.dec ≠ some .other) ∧
    trimEnd r.ts.uid = r.ts.uid := by
  simp only [Row.ok, Bool.and_eq_true] at h
  obtain ⟨⟨⟨⟨h1, h2⟩, h3⟩, h4⟩, h5⟩ := h
  refine ⟨?_, ?_, ?_, ?_, (eqStr_iff _ _).mp h5⟩
  · cases r with
    | mk ts q dec enc pr pw bb =>
      simp only [Row.agrees, Bool.and_eq_true, Queries.beq_iff, optCoderBeq_iff, beq_iff_eq] at h1
      obtain ⟨⟨⟨⟨⟨a, b⟩, c⟩, d⟩, e⟩, f⟩ := h1
      simp only [Ts.row, Row.mk.injEq, true_and]
      exact ⟨a, b, c, d, e, f⟩
  · simp only [Row.onlyImplicitOk, beq_iff_eq] at h2
    rw [← eqStr_iff, ← h2]; cases r.ts.explicit <;> simp
  · simp only [Row.onlyBigOk, beq_iff_eq] at h3
    rw [← eqStr_iff, ← h3]
  · intro hd
    simp only [Row.decodableOk, hd, Bool.not_true, Bool.false_or, Bool.and_eq_true, optCoderBeq_iff,
      Bool.not_eq_true'] at h4
    obtain ⟨⟨⟨a, b⟩, c⟩, d⟩ := h4
    refine ⟨a, b, c, ?_⟩
    intro e
    have := (optCoderBeq_iff r.dec (some .other)).mpr e
    rw [this] at d; cases d

theorem tableOk_sound {t : List Row} (h : tableOk t = true) {r : Row} (hr : r ∈ t) : r.ok = true :=
  List.all_eq_true.mp h r hr

/-- the dumped registry, as a map of the model -/
def registryTools : Map := Gen.tools.map (·.ts)
def registryDefault : Map := Gen.dflt.map (·.ts)

theorem keys_map_ts (t : List Row) : keys (t.map (·.ts)) = uidsOf t := by
  simp [keys, uidsOf, List.map_map, Function.comp_def]

/-- all per-entry clauses hold of every entry of both dumped registries (one linear pass each) -/
theorem tables_ok : tableOk Gen.tools = true ∧ tableOk Gen.dflt = true := by decide +kernel

/-- **uids_unique** — no two entries of the real registry share a UID
(the dump is sorted by UID: strict ascent is checked in one pass) -/
theorem uids_unique_tools : (uidsOf Gen.tools).Nodup :=
  ascB_nodup _ (by decide +kernel)

theorem uids_unique_default : (uidsOf Gen.dflt).Nodup :=
  ascB_nodup _ (by decide +kernel)

/-- registering the dumped entries one by one with the model of `register` reproduces exactly the
dumped registry: no entry shadows or replaces another -/
theorem build_tables : build registryTools = registryTools ∧ build registryDefault = registryDefault :=
  ⟨build_distinct _ (by rw [registryTools, keys_map_ts]; exact uids_unique_tools),
   build_distinct _ (by rw [registryDefault, keys_map_ts]; exact uids_unique_default)⟩

/-- **only_implicit_is_implicit** (and Implicit VR Little Endian is registered) -/
theorem only_implicit_is_implicit :
    (∀ r ∈ Gen.tools, r.ts.explicit = false ↔ r.ts.uid = implicitLeUid) ∧
    (∀ r ∈ Gen.dflt, r.ts.explicit = false ↔ r.ts.uid = implicitLeUid) ∧
    (get registryTools implicitLeUid).isSome = true ∧ (get registryDefault implicitLeUid).isSome = true :=
  ⟨fun _ hr => (Row.ok_sound (tableOk_sound tables_ok.1 hr)).2.1,
   fun _ hr => (Row.ok_sound (tableOk_sound tables_ok.2 hr)).2.1, by decide +kernel, by decide +kernel⟩

/-- **only_be_is_be** (and Explicit VR Big Endian is registered) -/
theorem only_be_is_be :
    (∀ r ∈ Gen.tools, r.ts.big = true ↔ r.ts.uid = explicitBeUid) ∧
    (∀ r ∈ Gen.dflt, r.ts.big = true ↔ r.ts.uid = explicitBeUid) ∧
    (get registryTools explicitBeUid).isSome = true ∧ (get registryDefault explicitBeUid).isSome = true :=
  ⟨fun _ hr => (Row.ok_sound (tableOk_sound tables_ok.1 hr)).2.2.1,
   fun _ hr => (Row.ok_sound (tableOk_sound tables_ok.2 hr)).2.2.1, by decide +kernel, by decide +kernel⟩

/-- **decodable_has_codecs**: every entry whose data sets can be decoded (as answered by the real
`can_decode_dataset`) offered a data set decoder and an encoder, both for the same one of the
three encodings -/
theorem decodable_has_codecs :
    ∀ r, r ∈ Gen.tools ∨ r ∈ Gen.dflt → r.q.decodeDataset = true →
      r.dec.isSome = true ∧ r.enc.isSome = true ∧ r.dec = r.enc ∧ r.dec ≠ some .other := by
  intro r hr
  rcases hr with hr | hr
  · exact (Row.ok_sound (tableOk_sound tables_ok.1 hr)).2.2.2.1
  · exact (Row.ok_sound (tableOk_sound tables_ok.2 hr)).2.2.2.1

/-- **queries_agree**: every answer of the real code (7 capability queries, decoder(), encoder(),
pixel reader/writer, basic decoder) equals the model's function of the entry's codec shape and flags -/
theorem queries_agree : ∀ r, r ∈ Gen.tools ∨ r ∈ Gen.dflt → r = r.ts.row := by
  intro r hr
  rcases hr with hr | hr
  · exact (Row.ok_sound (tableOk_sound tables_ok.1 hr)).1
  · exact (Row.ok_sound (tableOk_sound tables_ok.2 hr)).1

theorem uids_clean :
    (∀ t ∈ registryTools, trimEnd t.uid = t.uid) ∧ (∀ t ∈ registryDefault, trimEnd t.uid = t.uid) := by
  constructor
  · intro t ht
    obtain ⟨r, hr, rfl⟩ := List.mem_map.mp ht
    exact (Row.ok_sound (tableOk_sound tables_ok.1 hr)).2.2.2.2
  · intro t ht
    obtain ⟨r, hr, rfl⟩ := List.mem_map.mp ht
    exact (Row.ok_sound (tableOk_sound tables_ok.2 hr)).2.2.2.2

/-- **get_padded, on the real registry contents**: every registered UID, followed by any run of
NULs/whitespace, resolves to exactly its own entry (both feature sets). -/
theorem get_padded_tools {t : Ts} (ht : t ∈ registryTools) {pad : Str} (hp : AllPad pad) :
    get registryTools (t.uid ++ pad) = some t :=
  get_of_mem (by rw [registryTools, keys_map_ts]; exact uids_unique_tools) ht (uids_clean.1 t ht) hp

theorem get_padded_default {t : Ts} (ht : t ∈ registryDefault) {pad : Str} (hp : AllPad pad) :
    get registryDefault (t.uid ++ pad) = some t :=
  get_of_mem (by rw [registryDefault, keys_map_ts]; exact uids_unique_default) ht (uids_clean.2 t ht) hp

/-- the default feature set registers the same UIDs with the same flags; the tools' feature set only
adds capabilities (stubs replaced by implementations) -/
theorem default_below_tools : tablesLe Gen.dflt Gen.tools = true := by decide +kernel

/-- the three mandatory transfer syntaxes are codec free, hence fully supported, in both feature sets -/
theorem mandatory_fully_supported :
    [implicitLeUid, implicitLeUid ++ [46, 49], explicitBeUid].all (fun u =>
      ((get registryTools (u ++ [0])).any fun t => eqStr t.uid u && t.codec.isCodecFree) &&
      ((get registryDefault (u ++ [32])).any fun t => eqStr t.uid u && t.codec.isCodecFree)) = true := by
  decide +kernel

/-- non-vacuity: the hypotheses of `get_padded_tools` are met, and the lookup really is non-trivial -/
example : AllPad [0, 32, 0] ∧
    (get registryTools (explicitBeUid ++ [0, 32, 0])).map (·.uid) = some explicitBeUid ∧
    get registryTools (explicitBeUid ++ [0, 48]) = none ∧ get registryTools (32 :: explicitBeUid) = none := by
  decide +kernel

end Dicom.Registry
