import DicomModel.Model.CmdSet
import DicomModel.Lemmas.Bytes
/-
C31 — a command set records in its Command Group Length (0000,0000) exactly the number of bytes the
remaining command elements occupy when written in Implicit VR Little Endian.

`cmdLen` is the `u32` sum of `command_from_iter_with_dict`, `encodeImplicit` what the data set writer
emits. Values: Empty, Str, Strs, U16, U32, Tags of any length and multiplicity, any VR (the VR only
selects the padding byte), default repertoire (one byte per character).
-/
namespace Dicom.Cmd

/-! ### lengths of written values -/

theorem joinBs_length_cons (s : Bytes) (ss : List Bytes) :
    (joinBs (s :: ss)).length + 1 = sumLen1 (s :: ss) := by
  induction ss generalizing s with
  | nil => simp [joinBs, sumLen1]
  | cons t ts ih =>
    have := ih t
    simp only [joinBs, sumLen1, List.length_append, List.length_cons] at *
    omega

theorem padTo_length (vr : VR) (b : Bytes) : (padTo vr b).length = (b.length + 1) / 2 * 2 := by
  unfold padTo
  split
  · simp only [List.length_append, List.length_cons, List.length_nil]; omega
  · omega

theorem flatMap_const_length {α} (f : α → Bytes) (k : Nat) (h : ∀ a, (f a).length = k) (l : List α) :
    (l.flatMap f).length = l.length * k := by
  induction l with
  | nil => simp
  | cons a as ih => simp [List.flatMap_cons, ih, h, Nat.add_mul]; omega

theorem tagBytes_length (t : Nat) : (tagBytes t).length = 4 := by simp [tagBytes]

/-- the writer emits exactly `calculate_byte_len` rounded up to even — for every variant, every
multiplicity, including the `Strs` formula `Σ(len+1) & !1` -/
theorem valueBytes_length (vr : VR) (v : Val) :
    (valueBytes vr v).length = (calcByteLen v + 1) / 2 * 2 := by
  cases v with
  | empty => simp [valueBytes, calcByteLen]
  | str s => simp [valueBytes, calcByteLen, padTo_length]
  | strs ss =>
    cases ss with
    | nil => simp [valueBytes, calcByteLen, padTo, joinBs, sumLen1]
    | cons s ss =>
      have := joinBs_length_cons s ss
      simp only [valueBytes, calcByteLen, padTo_length]
      omega
  | u16s l =>
    simp only [valueBytes, calcByteLen, flatMap_const_length le16 2 le16_length]; omega
  | u32s l =>
    simp only [valueBytes, calcByteLen, flatMap_const_length le32 4 le32_length]; omega
  | tags l =>
    simp only [valueBytes, calcByteLen, flatMap_const_length tagBytes 4 tagBytes_length]; omega

theorem implHeader_length (t n : Nat) : (implHeader t n).length = 8 := by simp [implHeader]

theorem encodeElem_length (e : Elem) :
    (encodeElem e).length = 8 + (calcByteLen e.val + 1) / 2 * 2 := by
  simp [encodeElem, implHeader_length, valueBytes_length]

/-- one element's contribution is its written size, as `u32` arithmetic sees it (no size bound:
the undefined-length escape `l = 0xFFFF_FFFF` agrees with the wrapped `even_len`) -/
theorem contrib_mod (e : Elem) (h : e.group = 0 ∧ e.element ≠ 0) :
    contrib e % U32 = (encodeElem e).length % U32 := by
  rw [encodeElem_length]
  have hc : contrib e =
      (if valueLength e.val ≠ 0xFFFFFFFF then evenLen (valueLength e.val) else 0) + 8 := by
    simp [contrib, h]
  rw [hc]
  by_cases hv : valueLength e.val = 0xFFFFFFFF
  · rw [if_neg (by simp [hv])]; simp only [valueLength, U32] at hv ⊢; omega
  · rw [if_pos hv]; simp only [valueLength, evenLen, U32] at hv ⊢; omega

theorem contrib_other (e : Elem) (h : ¬ (e.group = 0 ∧ e.element ≠ 0)) : contrib e = 0 := by
  simp [contrib, h]

/-- **Main statement, `u32` form**: for *any* list of elements the running sum equals the written
size of the command elements other than (0000,0000), modulo 2^32. -/
theorem cmd_group_length_mod (es : List Elem) :
    cmdLen es = (encodeImplicit (others es)).length % U32 := by
  induction es with
  | nil => simp [cmdLen, others, encodeImplicit]
  | cons e es ih =>
    by_cases h : e.group = 0 ∧ e.element ≠ 0
    · have hc := contrib_mod e h
      have : others (e :: es) = e :: others es := by simp [others, h]
      rw [this]
      simp only [cmdLen, encodeImplicit, List.flatMap_cons, List.length_append] at *
      rw [ih]; simp only [U32] at *; omega
    · have : others (e :: es) = others es := by simp [others, h]
      rw [this]
      simp only [cmdLen, contrib_other e h, Nat.zero_add]
      rw [ih]; simp [U32]

/-- **C31, the statement as given**: when the command elements fit a `u32` count, the recorded
length is exactly the number of bytes they occupy in Implicit VR LE. -/
theorem cmd_group_length (es : List Elem) (h : (encodeImplicit (others es)).length < U32) :
    cmdLen es = (encodeImplicit (others es)).length := by
  rw [cmd_group_length_mod, Nat.mod_eq_of_lt h]

/-! ### the map: what the built object contains and how it is written -/

def KeysGt (k : Nat) (m : List Elem) : Prop := ∀ x ∈ m, k < x.tag

/-- strictly ascending tags (the `BTreeMap` iteration order, no duplicate keys) -/
def Sorted : List Elem → Prop
  | [] => True
  | x :: xs => KeysGt x.tag xs ∧ Sorted xs

theorem insert_mem {e x : Elem} {m : List Elem} (h : x ∈ insert e m) : x = e ∨ x ∈ m := by
  induction m with
  | nil => simp [insert] at h; exact Or.inl h
  | cons y ys ih =>
    simp only [insert] at h
    split at h
    · simp at h; rcases h with h | h | h <;> simp [h]
    · split at h
      · simp at h; rcases h with h | h <;> simp [h]
      · simp at h; rcases h with h | h
        · simp [h]
        · rcases ih h with h | h <;> simp [h]

theorem insert_sorted (e : Elem) (m : List Elem) (h : Sorted m) : Sorted (insert e m) := by
  induction m with
  | nil => simp [insert, Sorted, KeysGt]
  | cons y ys ih =>
    simp only [insert]
    split
    · rename_i hlt
      refine ⟨?_, h⟩
      intro x hx
      rcases List.mem_cons.mp hx with hx | hx
      · rw [hx]; exact hlt
      · exact Nat.lt_trans hlt (h.1 x hx)
    · split
      · rename_i _ heq
        refine ⟨?_, h.2⟩
        intro x hx; rw [heq]; exact h.1 x hx
      · rename_i h1 h2
        refine ⟨?_, ih h.2⟩
        intro x hx
        rcases insert_mem hx with hx | hx
        · rw [hx]; omega
        · exact h.1 x hx

theorem collect_sorted_aux (es m : List Elem) (h : Sorted m) :
    Sorted (es.foldl (fun m e => insert e m) m) := by
  induction es generalizing m with
  | nil => exact h
  | cons e es ih => exact ih _ (insert_sorted e m h)

theorem collect_sorted (es : List Elem) : Sorted (collect es) :=
  collect_sorted_aux es [] trivial

/-- inserting the group length (tag 0) puts it first and removes at most an old tag-0 entry -/
theorem insert_zero (n : Nat) (m : List Elem) (h : Sorted m) :
    ∃ rest, insert (groupLengthElem n) m = groupLengthElem n :: rest ∧ KeysGt 0 rest ∧ Sorted rest ∧
      cmdLen rest = cmdLen m ∧ (∀ x, x ∈ rest → x ∈ m) := by
  cases m with
  | nil => exact ⟨[], by simp [insert], by simp [KeysGt], trivial, rfl, by simp⟩
  | cons y ys =>
    by_cases hy : 0 < y.tag
    · refine ⟨y :: ys, by simp [insert, groupLengthElem, hy], ?_, h, rfl, by simp⟩
      intro x hx
      rcases List.mem_cons.mp hx with hx | hx
      · rw [hx]; exact hy
      · exact Nat.lt_trans hy (h.1 x hx)
    · have hy0 : y.tag = 0 := by omega
      refine ⟨ys, by simp [insert, groupLengthElem, hy0], ?_, h.2, ?_, by simp +contextual⟩
      · intro x hx; have := h.1 x hx; omega
      · have : contrib y = 0 := by
          apply contrib_other; simp [Elem.element, hy0]
        simp only [cmdLen, this, Nat.zero_add]
        have hlt : cmdLen ys < U32 := by
          cases ys with
          | nil => simp [cmdLen, U32]
          | cons z zs => simp only [cmdLen]; exact Nat.mod_lt _ (by simp [U32])
        exact (Nat.mod_eq_of_lt hlt).symm

theorem others_of_group0 (m : List Elem) (h0 : KeysGt 0 m) (hg : ∀ x ∈ m, x.group = 0) :
    others m = m := by
  apply List.filter_eq_self.mpr
  intro x hx
  have h1 := h0 x hx
  have h2 := hg x hx
  refine decide_eq_true ⟨h2, ?_⟩
  simp only [Elem.group, Elem.element] at *
  omega

theorem encode_groupLength (n : Nat) :
    encodeElem (groupLengthElem n) = implHeader 0 4 ++ le32 n := by
  simp [encodeElem, groupLengthElem, headerLen, calcByteLen, evenLen, valueBytes, U32]

/-- **The written command set is self-consistent** (repaired construction, *any* input elements —
duplicate tags, a caller-supplied (0000,0000), elements of other groups): it starts with
(0000,0000) UL of length 4 whose value is the byte count of the command elements that follow. -/
theorem cmd_set_written (es : List Elem) :
    ∃ rest n, command es = groupLengthElem n :: rest ∧ Sorted rest ∧ KeysGt 0 rest ∧
      encodeImplicit (command es) = implHeader 0 4 ++ le32 n ++ encodeImplicit rest ∧
      n = (encodeImplicit (others rest)).length % U32 := by
  obtain ⟨rest, h1, h2, h3, h4, _⟩ := insert_zero (cmdLen (collect es)) (collect es) (collect_sorted es)
  refine ⟨rest, cmdLen (collect es), h1, h3, h2, ?_, ?_⟩
  · simp only [command] at *
    rw [h1]; simp [encodeImplicit, encode_groupLength]
  · rw [← h4]; exact cmd_group_length_mod rest

/-- … and for a pure command set (every element in group 0000, total below 2^32): the value is the
number of **all** bytes that follow the group length element. -/
theorem cmd_set_written_pure (es : List Elem) (hg : ∀ e ∈ es, e.group = 0)
    (hsz : ∀ rest n, command es = groupLengthElem n :: rest → (encodeImplicit rest).length < U32) :
    ∃ tail n, encodeImplicit (command es) = implHeader 0 4 ++ le32 n ++ tail ∧ n = tail.length := by
  obtain ⟨rest, h1, h2, h3, h4, h5⟩ := insert_zero (cmdLen (collect es)) (collect es) (collect_sorted es)
  have hmem : ∀ (es m : List Elem) x, x ∈ es.foldl (fun m e => insert e m) m → x ∈ es ∨ x ∈ m := by
    intro es
    induction es with
    | nil => intro m x hx; exact Or.inr hx
    | cons e es ih =>
      intro m x hx
      rcases ih _ x hx with h | h
      · exact Or.inl (List.mem_cons_of_mem _ h)
      · rcases insert_mem h with h | h
        · exact Or.inl (by simp [h])
        · exact Or.inr h
  have hgr : ∀ x ∈ rest, x.group = 0 := by
    intro x hx
    rcases hmem es [] x (h5 x hx) with h | h
    · exact hg x h
    · cases h
  have ho := others_of_group0 rest h2 hgr
  refine ⟨encodeImplicit rest, cmdLen (collect es), ?_, ?_⟩
  · simp only [command] at *
    rw [h1]; simp [encodeImplicit, encode_groupLength]
  · rw [← h4, cmd_group_length_mod rest, ho]
    exact Nat.mod_eq_of_lt (hsz rest _ (by simpa [command] using h1))

/-! ### the snapshot's construction (sum over the input sequence) -/

theorem insert_of_keysGt (e : Elem) (m : List Elem) (h : ∀ x ∈ m, x.tag ≠ e.tag) :
    cmdLen (insert e m) = (contrib e + cmdLen m) % U32 := by
  induction m with
  | nil => simp [insert, cmdLen]
  | cons y ys ih =>
    have hy : y.tag ≠ e.tag := h y (by simp)
    simp only [insert]
    split
    · simp [cmdLen]
    · split
      · rename_i heq; exact absurd heq.symm hy
      · have := ih (fun x hx => h x (List.mem_cons_of_mem _ hx))
        simp only [cmdLen, this, U32]; omega

/-- With pairwise distinct tags the input-order sum of the snapshot equals the sum over the map, so
the unrepaired construction builds the same object. -/
theorem commandInputSum_eq_of_distinct (es : List Elem) (hd : (es.map (·.tag)).Nodup) :
    commandInputSum es = command es := by
  suffices h : cmdLen (collect es) = cmdLen es by simp [commandInputSum, command, h]
  -- generalise over the accumulator of the fold, processing the input from the right
  have key : ∀ (es : List Elem), (es.map (·.tag)).Nodup →
      cmdLen (es.foldr (fun e m => insert e m) []) = cmdLen es ∧
      (∀ x ∈ es.foldr (fun e m => insert e m) [], x ∈ es) := by
    intro es
    induction es with
    | nil => intro _; simp [cmdLen]
    | cons e es ih =>
      intro hd
      simp only [List.map_cons] at hd
      have hd' := List.nodup_cons.mp hd
      obtain ⟨h1, h2⟩ := ih hd'.2
      simp only [List.foldr_cons]
      constructor
      · rw [insert_of_keysGt]
        · simp only [cmdLen, h1]
        · intro x hx heq
          exact hd'.1 (List.mem_map.mpr ⟨x, h2 x hx, heq⟩)
      · intro x hx
        rcases insert_mem hx with h | h
        · simp [h]
        · exact List.mem_cons_of_mem _ (h2 x h)
  -- cmdLen does not depend on the order of a duplicate-free input: use the reversed list
  have hrev : ∀ l : List Elem, cmdLen l.reverse = cmdLen l := by
    have app : ∀ a b : List Elem, cmdLen (a ++ b) = (cmdLen a + cmdLen b) % U32 := by
      intro a b
      induction a with
      | nil =>
        cases b with
        | nil => simp [cmdLen]
        | cons z zs => simp [cmdLen, U32]
      | cons x xs ih => simp only [List.cons_append, cmdLen, ih, U32]; omega
    intro l
    induction l with
    | nil => rfl
    | cons x xs ih =>
      rw [List.reverse_cons, app, ih]; simp only [cmdLen, U32]; omega
  have hdr : (es.reverse.map (·.tag)).Nodup := by
    rw [List.map_reverse]
    exact List.pairwise_reverse.mpr (List.Pairwise.imp (fun h => Ne.symm h) hd)
  have := (key es.reverse hdr).1
  rw [List.foldr_reverse] at this
  rw [collect, this, hrev]

/-- The distinct-tags hypothesis is needed for the snapshot's construction: with a repeated tag the
element is kept once but counted twice (recorded 20, written 10). -/
theorem commandInputSum_dup_counted_twice :
    let e : Elem := ⟨0x00000100, .US, .u16s [1]⟩
    commandInputSum [e, e] = [groupLengthElem 20, e] ∧
    (encodeImplicit (others [e])).length = 10 := by decide

/-! ### the byte-level oracle used by the driver is sound for encoder output -/

/-- an element the `u32` header can describe: 32-bit tag, value shorter than 2^32 -/
def Fits (e : Elem) : Prop := e.tag < U32 ∧ calcByteLen e.val + 1 < U32

theorem walk_encode (es : List Elem) (hf : ∀ e ∈ es, Fits e) (fuel : Nat) (hfuel : es.length < fuel) :
    walk fuel (encodeImplicit es) = some (es.map fun e => (e.tag, (encodeElem e).length)) := by
  induction es generalizing fuel with
  | nil =>
    cases fuel with
    | zero => omega
    | succ f => simp [encodeImplicit, walk]
  | cons e es ih =>
    cases fuel with
    | zero => omega
    | succ f =>
      have he := hf e (by simp)
      have hrest := ih (fun x hx => hf x (List.mem_cons_of_mem _ hx)) f (by simp at hfuel; omega)
      have hlen : evenLen (headerLen e.vr e.val) = (valueBytes e.vr e.val).length := by
        have hv := valueBytes_length e.vr e.val
        have : headerLen e.vr e.val = (valueBytes e.vr e.val).length ∨
               headerLen e.vr e.val = calcByteLen e.val := by
          unfold headerLen
          have hb : calcByteLen e.val < U32 := by have := he.2; omega
          have hvb : (valueBytes e.vr e.val).length < U32 := by
            rw [hv]; have := he.2; simp only [U32] at *; omega
          split
          · exact Or.inl (Nat.mod_eq_of_lt hvb)
          · exact Or.inl (Nat.mod_eq_of_lt hvb)
          · exact Or.inr (Nat.mod_eq_of_lt hb)
        have h2 := he.2
        rcases this with h | h <;> rw [h] <;> simp only [evenLen, U32] at * <;> omega
      have hg : e.tag / 65536 < 65536 := by have := he.1; simp only [U32] at this; omega
      have hel : e.tag % 65536 < 65536 := by omega
      have hl32 : (valueBytes e.vr e.val).length < 4294967296 := by
        rw [valueBytes_length]; have := he.2; simp only [U32] at this; omega
      have hne : encodeImplicit (e :: es) ≠ [] := by
        simp [encodeImplicit, encodeElem, implHeader, le16]
      have hshape : encodeImplicit (e :: es) =
          le16 (e.tag / 65536) ++ (le16 (e.tag % 65536) ++ (le32 (valueBytes e.vr e.val).length ++
            (valueBytes e.vr e.val ++ encodeImplicit es))) := by
        simp [encodeImplicit, encodeElem, implHeader, hlen, List.append_assoc]
      have hw : walk (f + 1) (encodeImplicit (e :: es)) =
          (match rdLe16 (encodeImplicit (e :: es)) with
          | none => none
          | some (g, r1) =>
            match rdLe16 r1 with
            | none => none
            | some (e', r2) =>
              match rdLe32 r2 with
              | none => none
              | some (len, r3) =>
                match takeN len r3 with
                | none => none
                | some (_, rest) =>
                  match walk f rest with
                  | none => none
                  | some l => some ((g * 65536 + e', 8 + len) :: l)) := by
        generalize hb : encodeImplicit (e :: es) = b at hne
        cases b with
        | nil => exact absurd rfl hne
        | cons x xs => rfl
      rw [hw, hshape]
      simp only [rdLe16_le16 _ hg, rdLe16_le16 _ hel, rdLe32_le32 _ hl32, takeN_append, hrest]
      simp only [List.map_cons, encodeElem, List.length_append, implHeader_length]
      congr 2
      · congr 1; omega

/-- **Oracle soundness**: on the bytes of a pure command set built by the (repaired) construction
the driver's oracle computes `(recorded, actual)` with `recorded = actual` — so a `PROP-FAIL` from
the oracle on real bytes can only come from an implementation that deviates from the model. -/
theorem oracle_on_model (es : List Elem) (hg : ∀ e ∈ es, e.group = 0)
    (hf : ∀ e ∈ command es, Fits e) (hsz : (encodeImplicit (command es)).length < U32) :
    ∃ n, recordedVsActual (encodeImplicit (command es)) = some (n, n) := by
  obtain ⟨rest, n, h1, h2, h3, h4, h5⟩ := cmd_set_written es
  have hw := walk_encode (command es) hf ((encodeImplicit (command es)).length + 1) (by
    have : ∀ l : List Elem, l.length ≤ (encodeImplicit l).length := by
      intro l
      induction l with
      | nil => simp
      | cons x xs ih =>
        simp only [encodeImplicit, List.flatMap_cons, List.length_append, List.length_cons] at *
        have := encodeElem_length x; omega
    have := this (command es); omega)
  have hnlt : n < U32 := by rw [h5]; exact Nat.mod_lt _ (by simp [U32])
  refine ⟨n, ?_⟩
  unfold recordedVsActual
  rw [hw]
  have hgl : (encodeElem (groupLengthElem n)).length = 12 := by
    rw [encode_groupLength]; simp [implHeader_length]
  have hgt : (groupLengthElem n).tag = 0 := rfl
  have hd : List.drop 8 (encodeImplicit (command es)) = le32 n ++ encodeImplicit rest := by
    rw [h4, List.append_assoc]
    have : (implHeader 0 4).length = 8 := implHeader_length _ _
    rw [← this, List.drop_left]
  rw [hd, rdLe32_le32 _ hnlt, h1]
  simp only [List.map_cons, hgl, hgt]
  -- all of `rest` is in group 0, so the filter keeps everything and the sum is the written size
  have hmem : ∀ x ∈ rest, x.group = 0 := by
    intro x hx
    have hx' : x ∈ command es := by rw [h1]; exact List.mem_cons_of_mem _ hx
    have hmemc : ∀ (es m : List Elem) x, x ∈ es.foldl (fun m e => insert e m) m → x ∈ es ∨ x ∈ m := by
      intro es
      induction es with
      | nil => intro m x hx; exact Or.inr hx
      | cons e es ih =>
        intro m x hx
        rcases ih _ x hx with h | h
        · exact Or.inl (List.mem_cons_of_mem _ h)
        · rcases insert_mem h with h | h
          · exact Or.inl (by simp [h])
          · exact Or.inr h
    simp only [command] at hx'
    rcases insert_mem hx' with h | h
    · have := h3 x hx; rw [h] at this; simp [groupLengthElem] at this
    · rcases hmemc es [] x h with h | h
      · exact hg x h
      · cases h
  have hsum : ∀ l : List Elem, (∀ x ∈ l, x.group = 0) →
      (((l.map fun e => (e.tag, (encodeElem e).length)).filter fun p => p.1 / 65536 = 0).map (·.2)).sum
        = (encodeImplicit l).length := by
    intro l
    induction l with
    | nil => intro _; simp [encodeImplicit]
    | cons x xs ih =>
      intro hall
      have hx0 : x.tag / 65536 = 0 := hall x (by simp)
      have := ih (fun y hy => hall y (List.mem_cons_of_mem _ hy))
      simp only [List.map_cons, List.filter_cons, hx0, decide_true, if_true, List.sum_cons,
        encodeImplicit, List.flatMap_cons, List.length_append] at *
      omega
  have ho := others_of_group0 rest h3 hmem
  rw [ho] at h5
  have hrl : (encodeImplicit rest).length < U32 := by
    rw [h4] at hsz; simp only [List.length_append] at hsz; omega
  rw [Nat.mod_eq_of_lt hrl] at h5
  simp only [Elem.group] at hmem
  rw [hsum rest hmem, h5]

/-! ### non-vacuity -/

/-- C-ECHO-RQ-like command: the hypotheses of the theorems are met and the value is 56. -/
example :
    let es : List Elem := [
      ⟨0x00000002, .UI, .str [0x31, 0x2e, 0x32, 0x2e, 0x38, 0x34, 0x30, 0x2e, 0x31, 0x30, 0x30, 0x30, 0x38, 0x2e, 0x31, 0x2e, 0x31]⟩,
      ⟨0x00000100, .US, .u16s [0x30]⟩, ⟨0x00000110, .US, .u16s [1]⟩, ⟨0x00000800, .US, .u16s [0x0101]⟩]
    (∀ e ∈ es, e.group = 0) ∧ (es.map (·.tag)).Nodup ∧ cmdLen es = 56 ∧
    (encodeImplicit (others es)).length = 56 ∧
    recordedVsActual (encodeImplicit (command es)) = some (56, 56) := by decide

end Dicom.Cmd
