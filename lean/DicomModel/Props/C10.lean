import DicomModel.Model.Charset
import DicomModel.Lemmas.Utf8
import DicomModel.Props.C16
/-
C10 — Text is encoded and decoded faithfully in every supported character set.

(1) defined terms: `name_roundtrip` for all 16 sets, every alias of `from_code` resolves to the set
    it is listed under, trailing blanks are ignored, decode and encode arms are bound to the same
    codec.
(2) single-byte sets (10 of the 16; their pages are dumped exhaustively from the running `encoding`
    crate): the two dumped maps are mutually inverse (decided on the tables), hence for every string
    `decode (encode s) = s`, encoding fails exactly on strings with a character outside the
    repertoire, `encode (decode bs) = bs` on hole-free bytes; the backslash byte is only produced by
    the backslash.
(3) data sets: for any codec environment, text written after a Specific Character Set element reads
    back unchanged (up to the even-length padding) GIVEN, for the sets in force, `CodecRT`
    (decode ∘ encode = id), `NoSep` (no backslash byte in the encoding of backslash-free text) and
    `PadOK` (a trailing blank decodes to a blank). The three hypotheses are *proved* for the
    single-byte sets and for UTF-8 (`known_hypotheses`: 11 of the 16 sets); for the other multi-byte
    sets they are assumptions about the `encoding` crate, tested by the correspondence run — and
    FALSE in places (see findings C10-*: byte 0x5C inside multi-byte characters, ISO 2022 state at
    the end of a value, U+00A5/U+203E, ESC, GB18030 U+E5E5).
    VRs restricted to the default repertoire are written with the default codec whatever the
    character set in force (`default_vrs_unaffected`).
-/
namespace Dicom.Charset
open Dicom.CodePage Dicom.Charset.Gen
open Dicom.Registry (eqStr isWhitespace eqStr_iff)

/-! ## (1) defined terms -/

/-- **name_roundtrip**: the defined term of every supported set maps back to that set. -/
theorem name_roundtrip : ∀ cs : Cs, fromCode cs.term = some cs := by
  intro cs; cases cs <;> decide +kernel

/-- distinct sets have distinct defined terms -/
theorem term_injective {a b : Cs} (h : a.term = b.term) : a = b := by
  have ha := name_roundtrip a
  rw [h, name_roundtrip b] at ha
  exact (Option.some.inj ha).symm

/-- every code string listed in `from_code` resolves to the set it is listed under
(no arm is shadowed by an earlier one) -/
theorem aliases_resolve :
    (Gen.fromCodeTable.all fun e => match fromCode e.1 with
      | some c => decide (c = e.2)
      | none => false) = true := by decide +kernel

def AllWs (p : Str) : Prop := ∀ c ∈ p, isWhitespace c = true

theorem trimEndWs_allWs {p : Str} (h : AllWs p) : trimEndWs p = [] := by
  induction p with
  | nil => rfl
  | cons c cs ih =>
    have hc : isWhitespace c = true := h c (by simp)
    have hcs : AllWs cs := fun x hx => h x (by simp [hx])
    simp [trimEndWs, ih hcs, hc]

theorem trimEndWs_append (s : Str) {p : Str} (h : AllWs p) : trimEndWs (s ++ p) = trimEndWs s := by
  induction s with
  | nil => simp [trimEndWs_allWs h, trimEndWs]
  | cons c cs ih => simp [trimEndWs, ih]

/-- trailing blanks (the padding of CS values) never change which set a code selects -/
theorem fromCode_padded (code : Str) {pad : Str} (h : AllWs pad) : fromCode (code ++ pad) = fromCode code := by
  simp [fromCode, trimEndWs_append code h]

/-- in particular the padded defined term still selects the set -/
theorem name_roundtrip_padded (cs : Cs) {pad : Str} (h : AllWs pad) : fromCode (cs.term ++ pad) = some cs := by
  rw [fromCode_padded _ h, name_roundtrip]

/-- decode and encode of every set are bound to the same `encoding` constant -/
theorem bindings_agree : ∀ cs : Cs, cs.decBinding = cs.encBinding := by
  intro cs; cases cs <;> rfl

/-- `Cs.all` lists every set -/
theorem all_complete : ∀ cs : Cs, cs ∈ Cs.all := by
  intro cs; cases cs <;> decide

end Dicom.Charset

namespace Dicom.CodePage

/-! ## (2) single-byte pages -/

theorem optIs_iff {o : Option Nat} {y : Nat} : optIs o y = true ↔ o = some y := by
  cases o with
  | none => simp [optIs]
  | some x => simp [optIs, Nat.beq_eq]

theorem find_mem_aux (t : Tree) (acc : List (Nat × Nat)) {k v : Nat} (h : t.find k = some v) :
    (k, v) ∈ t.toListAux acc := by
  induction t generalizing acc with
  | leaf => simp [Tree.find] at h
  | node l key val r ihl ihr =>
    simp only [Tree.find] at h
    simp only [Tree.toListAux]
    by_cases h1 : Nat.blt k key = true
    · simp only [h1, if_true] at h; exact ihl _ h
    · simp only [h1] at h
      by_cases h2 : Nat.blt key k = true
      · simp only [h2, if_true] at h
        have := ihr acc h
        exact mem_toListAux_acc l _ (List.mem_cons_of_mem _ this)
      · simp only [h2] at h
        have hk : k = key := by
          simp only [Nat.blt_eq] at h1 h2; omega
        have hv : val = v := by simpa using h
        subst hk; subst hv
        exact mem_toListAux_acc l _ (List.mem_cons_self ..)
where
  mem_toListAux_acc (t : Tree) (acc : List (Nat × Nat)) {x : Nat × Nat} (h : x ∈ acc) : x ∈ t.toListAux acc := by
    induction t generalizing acc with
    | leaf => exact h
    | node l key val r ihl ihr =>
      simp only [Tree.toListAux]
      exact ihl _ (List.mem_cons_of_mem _ (ihr _ h))

/-- whatever `find` returns is an entry of the table -/
theorem find_mem {t : Tree} {k v : Nat} (h : t.find k = some v) : (k, v) ∈ t.toList :=
  find_mem_aux t [] h

theorem inverseIn_sound {a b : Tree} (h : inverseIn a b = true) {k v : Nat} (hk : a.find k = some v) :
    b.find v = some k := by
  have := List.all_eq_true.mp h (k, v) (find_mem hk)
  exact optIs_iff.mp this

/-- a page whose two dumped maps are mutually inverse -/
def Page.Good (p : Page) : Prop := p.good = true

theorem Page.Good.dec_of_enc {p : Page} (h : p.Good) {c b : Nat} (he : p.encodeChar c = some b) :
    p.dec.find b = some c := by
  have h2 : inverseIn p.enc p.dec = true := by
    have := h; simp only [Page.Good, Page.good, Bool.and_eq_true] at this; exact this.2
  exact inverseIn_sound h2 he

theorem Page.Good.enc_of_dec {p : Page} (h : p.Good) {c b : Nat} (hd : p.dec.find b = some c) :
    p.encodeChar c = some b := by
  have h1 : inverseIn p.dec p.enc = true := by
    have := h; simp only [Page.Good, Page.good, Bool.and_eq_true] at this; exact this.1
  exact inverseIn_sound h1 hd

/-- a character is in the repertoire of a page iff some byte decodes to it -/
def Page.InRepertoire (p : Page) (c : Nat) : Prop := ∃ b, p.dec.find b = some c

/-- the encoder accepts exactly the repertoire -/
theorem Page.Good.encodable_iff {p : Page} (h : p.Good) (c : Nat) :
    (p.encodeChar c).isSome = true ↔ p.InRepertoire c := by
  constructor
  · intro hs
    obtain ⟨b, hb⟩ := Option.isSome_iff_exists.mp hs
    exact ⟨b, h.dec_of_enc hb⟩
  · rintro ⟨b, hb⟩
    rw [h.enc_of_dec hb]; rfl

/-- **singlebyte_rt** (general form): on a good page, whatever `encode` accepts decodes back to
the original string — for every string. -/
theorem Page.Good.decode_encode {p : Page} (h : p.Good) :
    ∀ (s : Str) (bs : List Nat), p.encode s = some bs → p.decode bs = s
  | [], bs, he => by
    simp only [Page.encode, Option.some.injEq] at he; subst he; rfl
  | c :: cs, bs, he => by
    simp only [Page.encode] at he
    cases hc : p.encodeChar c with
    | none => simp [hc] at he
    | some b =>
      cases hr : p.encode cs with
      | none => simp [hc, hr] at he
      | some rest =>
        simp only [hc, hr, Option.some.injEq] at he
        subst he
        simp only [Page.decode, Page.decodeByte, h.dec_of_enc hc, h.decode_encode cs rest hr]
        rfl

/-- encoding fails — it never substitutes — as soon as one character is outside the repertoire -/
theorem Page.Good.encode_fails_outside {p : Page} (h : p.Good) :
    ∀ (s : Str) (c : Nat), c ∈ s → ¬ p.InRepertoire c → p.encode s = none
  | x :: xs, c, hm, hout => by
    simp only [Page.encode]
    rcases List.mem_cons.mp hm with rfl | hm'
    · have : p.encodeChar c = none := by
        cases hc : p.encodeChar c with
        | none => rfl
        | some b => exact absurd ((h.encodable_iff c).mp (by rw [hc]; rfl)) hout
      simp [this]
    · have := h.encode_fails_outside xs c hm' hout
      cases p.encodeChar x <;> simp [this]

/-- and succeeds on every string over the repertoire -/
theorem Page.Good.encode_total {p : Page} (h : p.Good) :
    ∀ (s : Str), (∀ c ∈ s, p.InRepertoire c) → ∃ bs, p.encode s = some bs
  | [], _ => ⟨[], rfl⟩
  | c :: cs, hall => by
    obtain ⟨b, hb⟩ := Option.isSome_iff_exists.mp ((h.encodable_iff c).mpr (hall c (by simp)))
    obtain ⟨bs, hbs⟩ := h.encode_total cs (fun x hx => hall x (by simp [hx]))
    exact ⟨b :: bs, by simp [Page.encode, hb, hbs]⟩

/-- conversely, bytes without holes encode back to themselves -/
theorem Page.Good.encode_decode {p : Page} (h : p.Good) :
    ∀ (bs : List Nat), (∀ b ∈ bs, (p.dec.find b).isSome = true) → p.encode (p.decode bs) = some bs
  | [], _ => rfl
  | b :: bs, hall => by
    obtain ⟨c, hc⟩ := Option.isSome_iff_exists.mp (hall b (by simp))
    have ih := h.encode_decode bs (fun x hx => hall x (by simp [hx]))
    simp only [Page.decode, Page.decodeByte, hc, List.cons_append, List.nil_append, Page.encode,
      h.enc_of_dec hc, ih]

/-- decoding is a homomorphism (single bytes are decoded independently) -/
theorem Page.decode_append (p : Page) (a b : List Nat) : p.decode (a ++ b) = p.decode a ++ p.decode b := by
  induction a with
  | nil => rfl
  | cons x xs ih => simp [Page.decode, ih]

/-- ASCII bytes and characters are mapped identically -/
def Page.Ascii (p : Page) : Prop := p.asciiOk = true

theorem Page.Ascii.dec {p : Page} (h : p.Ascii) {b : Nat} (hb : b < 128) : p.dec.find b = some b := by
  have := List.all_eq_true.mp h b (List.mem_range.mpr hb)
  simp only [Bool.and_eq_true] at this
  exact optIs_iff.mp this.1

theorem Page.Ascii.enc {p : Page} (h : p.Ascii) {c : Nat} (hc : c < 128) : p.encodeChar c = some c := by
  have := List.all_eq_true.mp h c (List.mem_range.mpr hc)
  simp only [Bool.and_eq_true] at this
  exact optIs_iff.mp this.2

/-- the backslash byte is produced by the backslash character only -/
theorem Page.backslash_only {p : Page} (hg : p.Good) (ha : p.Ascii) {c : Nat}
    (h : p.encodeChar c = some 92) : c = 92 := by
  have h1 := hg.dec_of_enc h
  rw [ha.dec (by decide : 92 < 128)] at h1
  exact (Option.some.inj h1).symm

end Dicom.CodePage

namespace Dicom.Charset
open Dicom.CodePage Dicom.Charset.Gen
open Dicom.Registry (eqStr isWhitespace eqStr_iff)

/-- **the dumped pages**: every page generated from the running crate is good (the two maps are mutually
inverse) and ASCII-transparent — decided on the whole tables: 256 bytes and every accepted character -/
theorem pages_good : Gen.pageOfTerm.all (fun e => e.2.good && e.2.asciiOk) = true := by decide +kernel

/-- every set that has a page has a good one -/
theorem pageOf_good (cs : Cs) (p : Page) (h : pageOf cs = some p) : p.Good ∧ p.Ascii := by
  simp only [pageOf, Option.map_eq_some_iff] at h
  obtain ⟨e, he, rfl⟩ := h
  have := List.all_eq_true.mp pages_good e (List.mem_of_find?_eq_some he)
  simp only [Bool.and_eq_true] at this
  exact this

/-- **singlebyte_rt**: for each of the single-byte sets (ISO_IR 6, 100, 101, 109, 110, 126, 127, 138,
144, 166) and every string: if `encode` accepts it, decoding the bytes gives it back; `encode` accepts
it iff all its characters are in the set's repertoire. -/
theorem singlebyte_rt (cs : Cs) (p : Page) (h : pageOf cs = some p) (s : Str) :
    (∀ bs, p.encode s = some bs → p.decode bs = s) ∧
    ((p.encode s).isSome = true ↔ ∀ c ∈ s, p.InRepertoire c) := by
  have hg := (pageOf_good cs p h).1
  refine ⟨fun bs => hg.decode_encode s bs, ?_, ?_⟩
  · intro hs c hc
    apply Classical.byContradiction
    intro hout
    rw [hg.encode_fails_outside s c hc hout] at hs
    cases hs
  · intro hall
    obtain ⟨bs, hbs⟩ := hg.encode_total s hall
    rw [hbs]; rfl

/-- which sets are single-byte (as dumped) -/
theorem singlebyte_sets :
    Cs.all.filter (fun cs => (pageOf cs).isSome) =
      [.Default, .IsoIr100, .IsoIr101, .IsoIr109, .IsoIr110, .IsoIr126, .IsoIr127, .IsoIr138, .IsoIr144, .IsoIr166] := by
  decide +kernel

/-- a hole of a page decodes to the octal escape, which is not silently the original byte: e.g.
byte 0xA5 of ISO_IR 109 (ISO-8859-3) -/
example : (Gen.pageOfTerm.find? fun e => eqStr e.1 Cs.IsoIr109.term).map (fun e => e.2.decode [0xA5]) =
    some [92, 50, 52, 53] := by decide +kernel

/-! ## (3) data sets -/

/-- decode ∘ encode = id -/
def CodecRT (c : Codec) : Prop := ∀ s bs, c.encode s = some bs → c.decode bs = s
/-- backslash-free text has backslash-free bytes -/
def NoSep (c : Codec) : Prop := ∀ s bs, c.encode s = some bs → 92 ∉ s → 92 ∉ bs
/-- a padding blank after an encoded text decodes to a blank after that text -/
def PadOK (c : Codec) : Prop := ∀ s bs, c.encode s = some bs → c.decode (bs ++ [32]) = c.decode bs ++ [32]
/-- ASCII text is encoded and decoded as itself -/
def AsciiTransparent (c : Codec) : Prop :=
  ∀ s : Str, (∀ x ∈ s, x < 128) → c.encode s = some s ∧ c.decode s = s

theorem page_codecRT {p : Page} (hg : p.Good) : CodecRT (pageCodec p) := fun s bs h => hg.decode_encode s bs h

theorem page_noSep {p : Page} (hg : p.Good) (ha : p.Ascii) : NoSep (pageCodec p) := by
  intro s
  induction s with
  | nil => intro bs h _; simp [pageCodec, Page.encode] at h; subst h; simp
  | cons c cs ih =>
    intro bs h hs
    simp only [pageCodec, Page.encode] at h
    cases hc : p.encodeChar c with
    | none => simp [hc] at h
    | some b =>
      cases hr : p.encode cs with
      | none => simp [hc, hr] at h
      | some rest =>
        simp only [hc, hr, Option.some.injEq] at h
        subst h
        have hcs : 92 ∉ cs := fun m => hs (by simp [m])
        have hrest := ih rest hr hcs
        intro hm
        rcases List.mem_cons.mp hm with e | e
        · have : c = 92 := Page.backslash_only hg ha (by rw [hc, ← e])
          exact hs (by simp [this])
        · exact hrest e

theorem page_padOK {p : Page} (ha : p.Ascii) : PadOK (pageCodec p) := by
  intro _ bs _
  simp only [pageCodec, Page.decode_append, Page.decode, Page.decodeByte, ha.dec (by decide : 32 < 128)]
  rfl

theorem page_asciiTransparent {p : Page} (ha : p.Ascii) : AsciiTransparent (pageCodec p) := by
  intro s
  induction s with
  | nil => intro _; exact ⟨rfl, rfl⟩
  | cons c cs ih =>
    intro h
    have hc : c < 128 := h c (by simp)
    obtain ⟨h1, h2⟩ := ih (fun x hx => h x (by simp [hx]))
    simp only [pageCodec] at h1 h2 ⊢
    exact ⟨by simp [Page.encode, ha.enc hc, h1], by simp [Page.decode, Page.decodeByte, ha.dec hc, h2]⟩

/-- the three hypotheses of the data set theorem hold for every single-byte set, in any environment -/
theorem singlebyte_hypotheses (ext : Cs → Codec) (cs : Cs) (p : Page) (h : pageOf cs = some p) :
    CodecRT (codecOf ext cs) ∧ NoSep (codecOf ext cs) ∧ PadOK (codecOf ext cs) ∧
    AsciiTransparent (codecOf ext cs) := by
  obtain ⟨hg, ha⟩ := pageOf_good cs p h
  have : codecOf ext cs = pageCodec p := by simp [codecOf, known, h]
  rw [this]
  exact ⟨page_codecRT hg, page_noSep hg ha, page_padOK ha, page_asciiTransparent ha⟩

/-- UTF-8 (ISO_IR 192) satisfies the three hypotheses as well (`Lemmas/Utf8.lean`) -/
theorem utf8_hypotheses : CodecRT utf8Codec ∧ NoSep utf8Codec ∧ PadOK utf8Codec := by
  have hall : ∀ (s : Str) (bs : List Nat), utf8Codec.encode s = some bs →
      (∀ n ∈ s, n < 0x110000) ∧ bs = utf8Enc s := by
    intro s bs h
    simp only [utf8Codec] at h
    by_cases hv : s.all (· < 0x110000) = true
    · simp only [hv, if_true, Option.some.injEq] at h
      exact ⟨fun n hn => by simpa using List.all_eq_true.mp hv n hn, h.symm⟩
    · simp [hv] at h
  refine ⟨?_, ?_, ?_⟩
  · intro s bs h
    obtain ⟨hv, rfl⟩ := hall s bs h
    exact utf8_rt s hv
  · intro s bs h h92
    obtain ⟨_, rfl⟩ := hall s bs h
    exact utf8Enc_no92 s h92
  · intro s bs h
    obtain ⟨hv, rfl⟩ := hall s bs h
    have h1 : utf8Enc s ++ [32] = utf8Enc (s ++ [32]) := by simp [utf8Enc, utf8EncodeNat]
    show utf8Dec (utf8Enc s ++ [32]) = utf8Dec (utf8Enc s) ++ [32]
    rw [h1, utf8_rt (s ++ [32]) (by intro n hn; rcases List.mem_append.mp hn with h | h; exact hv n h; simp at h; omega),
      utf8_rt s hv]

/-- the sets for which the hypotheses of the data set theorem are theorems: the 10 single-byte sets
and ISO_IR 192 — in any environment -/
theorem known_hypotheses (ext : Cs → Codec) (cs : Cs) (h : ∀ p : Known, known cs = p → p ≠ .ext) :
    CodecRT (codecOf ext cs) ∧ NoSep (codecOf ext cs) ∧ PadOK (codecOf ext cs) := by
  cases hk : known cs with
  | page p =>
    have hp : pageOf cs = some p := by
      simp only [known] at hk
      cases hq : pageOf cs with
      | none => simp only [hq] at hk; split at hk <;> cases hk
      | some q => simp only [hq, Known.page.injEq] at hk; rw [hk]
    exact ⟨(singlebyte_hypotheses ext cs p hp).1, (singlebyte_hypotheses ext cs p hp).2.1, (singlebyte_hypotheses ext cs p hp).2.2.1⟩
  | utf8 =>
    have : codecOf ext cs = utf8Codec := by simp [codecOf, hk]
    rw [this]; exact utf8_hypotheses
  | ext => exact absurd rfl (h _ hk)

/-! splitting the joined bytes gives the parts back -/

theorem splitBs_no92 : ∀ (a : List Nat), 92 ∉ a → splitBs a = [a]
  | [], _ => rfl
  | x :: xs, h => by
    have hx : x ≠ 92 := fun e => h (by simp [e])
    have := splitBs_no92 xs (fun m => h (by simp [m]))
    simp [splitBs, hx, this]

theorem splitBs_append : ∀ (a rest : List Nat), 92 ∉ a →
    splitBs (a ++ 92 :: rest) = a :: splitBs rest
  | [], rest, _ => by simp [splitBs]
  | x :: xs, rest, h => by
    have hx : x ≠ 92 := fun e => h (by simp [e])
    have := splitBs_append xs rest (fun m => h (by simp [m]))
    simp [splitBs, hx, this]

theorem splitBs_join : ∀ (parts : List (List Nat)), parts ≠ [] → (∀ p ∈ parts, 92 ∉ p) →
    splitBs (joinBs parts) = parts
  | [a], _, h => by simpa [joinBs] using splitBs_no92 a (h a (by simp))
  | a :: b :: r, _, h => by
    have := splitBs_join (b :: r) (by simp) (fun p hp => h p (by simp [hp]))
    simp only [joinBs]
    rw [splitBs_append a _ (h a (by simp)), this]

/-- append one element to the last list -/
def appendLast : List (List Nat) → Nat → List (List Nat)
  | [], x => [[x]]
  | [a], x => [a ++ [x]]
  | a :: b :: r, x => a :: appendLast (b :: r) x

theorem joinBs_appendLast : ∀ (parts : List (List Nat)) (x : Nat), parts ≠ [] →
    joinBs (appendLast parts x) = joinBs parts ++ [x]
  | [a], x, _ => by simp [appendLast, joinBs]
  | a :: b :: r, x, _ => by
    have ih := joinBs_appendLast (b :: r) x (by simp)
    cases hq : appendLast (b :: r) x with
    | nil => cases r <;> simp [appendLast] at hq
    | cons q qs =>
      rw [hq] at ih
      simp only [appendLast, hq, joinBs, List.append_assoc, List.cons_append]
      rw [ih]

theorem appendLast_no92 : ∀ (parts : List (List Nat)) (x : Nat), x ≠ 92 → (∀ p ∈ parts, 92 ∉ p) →
    ∀ p ∈ appendLast parts x, 92 ∉ p
  | [], x, hx, _ => by simp [appendLast]; exact fun e => hx e.symm
  | [a], x, hx, h => by
    simp only [appendLast, List.mem_singleton]
    rintro p rfl
    simp only [List.mem_append, List.mem_singleton, not_or]
    exact ⟨h a (by simp), fun e => hx e.symm⟩
  | a :: b :: r, x, hx, h => by
    simp only [appendLast, List.mem_cons]
    rintro p (rfl | hp)
    · exact h p (by simp)
    · exact appendLast_no92 (b :: r) x hx (fun q hq => h q (by simp [hq])) p (by simpa using hp)

theorem map_appendLast {c : Codec} (hrt : CodecRT c) (hpad : PadOK c) :
    ∀ {vals : List Str} {parts : List (List Nat)}, mapM' c.encode vals = some parts → vals ≠ [] →
    (appendLast parts 32).map c.decode = appendLast vals 32
  | [], _, _, hne => absurd rfl hne
  | [v], parts, h, _ => by
    simp only [mapM'] at h
    cases hv : c.encode v with
    | none => simp [hv] at h
    | some b =>
      simp only [hv, Option.some.injEq] at h
      subst h
      simp [appendLast, hpad v b hv, hrt v b hv]
  | v :: w :: vs, parts, h, _ => by
    simp only [mapM'] at h
    cases hv : c.encode v with
    | none => simp [hv] at h
    | some b =>
      cases hr : mapM' c.encode (w :: vs) with
      | none =>
        simp only [mapM'] at hr
        simp [hv, hr] at h
      | some bs =>
        have hr' := hr
        simp only [mapM'] at hr'
        simp only [hv, hr', Option.some.injEq] at h
        subst h
        have ih := map_appendLast hrt hpad hr (by simp)
        cases bs with
        | nil =>
          cases hw : c.encode w <;> cases hvs : mapM' c.encode vs <;> simp [hw, hvs] at hr'
        | cons q qs =>
          cases qs with
          | nil =>
            simp only [appendLast, List.map_cons, List.map_nil] at ih ⊢
            rw [hrt v b hv]
            cases vs with
            | nil => simpa [appendLast] using ih
            | cons x xs =>
              cases hw : c.encode w <;> cases hx : c.encode x <;> cases hxs : mapM' c.encode xs <;>
                simp [mapM', hw, hx, hxs] at hr'
          | cons q2 qs2 =>
            simp only [appendLast, List.map_cons] at ih ⊢
            rw [hrt v b hv, ih]

theorem appendLast_ne_nil (parts : List (List Nat)) (x : Nat) : appendLast parts x ≠ [] := by
  cases parts with
  | nil => simp [appendLast]
  | cons a r => cases r <;> simp [appendLast]

theorem map_decode_parts {c : Codec} (hrt : CodecRT c) : ∀ {vals : List Str} {parts : List (List Nat)},
    mapM' c.encode vals = some parts → parts.map c.decode = vals
  | [], parts, h => by simp [mapM'] at h; subst h; rfl
  | v :: vs, parts, h => by
    simp only [mapM'] at h
    cases hv : c.encode v with
    | none => simp [hv] at h
    | some b =>
      cases hr : mapM' c.encode vs with
      | none => simp [hv, hr] at h
      | some bs =>
        simp only [hv, hr, Option.some.injEq] at h
        subst h
        simp [hrt v b hv, map_decode_parts hrt hr]

theorem parts_no92 {c : Codec} (hns : NoSep c) : ∀ {vals : List Str} {parts : List (List Nat)},
    mapM' c.encode vals = some parts → (∀ v ∈ vals, 92 ∉ v) → ∀ p ∈ parts, 92 ∉ p
  | [], parts, h, _ => by simp [mapM'] at h; subst h; simp
  | v :: vs, parts, h, hv92 => by
    simp only [mapM'] at h
    cases hv : c.encode v with
    | none => simp [hv] at h
    | some b =>
      cases hr : mapM' c.encode vs with
      | none => simp [hv, hr] at h
      | some bs =>
        simp only [hv, hr, Option.some.injEq] at h
        subst h
        intro p hp
        rcases List.mem_cons.mp hp with rfl | hp
        · exact hns v _ hv (hv92 v (by simp))
        · exact parts_no92 hns hr (fun x hx => hv92 x (by simp [hx])) p hp

theorem parts_ne_nil {c : Codec} {vals : List Str} {parts : List (List Nat)}
    (h : mapM' c.encode vals = some parts) (hne : vals ≠ []) : parts ≠ [] := by
  intro e; subst e
  cases vals with
  | nil => exact hne rfl
  | cons v vs =>
    simp only [mapM'] at h
    cases hv : c.encode v <;> cases hr : mapM' c.encode vs <;> simp [hv, hr] at h

/-- the value list with the padding blank that the writer may have added to its last value -/
def padLast (vals : List Str) (padded : Bool) : List Str :=
  if padded then appendLast vals 32 else vals

/-- **value_rt_strs**: a multi-valued text value (backslash-free values, VR not UI) written by
`encode_texts_element` and read by `read_value_strs` comes back as the same list of values, the last
one followed by the padding blank when the byte length was odd. -/
theorem value_rt_strs {c : Codec} (hrt : CodecRT c) (hns : NoSep c) (hpad : PadOK c)
    {vals : List Str} (hne : vals ≠ []) (h92 : ∀ v ∈ vals, 92 ∉ v) {vr : VR} (hvr : vr ≠ .UI)
    {parts : List (List Nat)} (henc : mapM' c.encode vals = some parts) :
    (splitBs (padEven vr (joinBs parts))).map c.decode =
      padLast vals (decide ((joinBs parts).length % 2 = 1)) := by
  have hpne := parts_ne_nil henc hne
  have hno := parts_no92 hns henc h92
  have hdec := map_decode_parts hrt henc
  by_cases hodd : (joinBs parts).length % 2 = 1
  · simp only [padEven, hodd, if_true, hvr, if_false, padLast, decide_true]
    rw [← joinBs_appendLast parts 32 hpne,
      splitBs_join _ (appendLast_ne_nil parts 32) (appendLast_no92 parts 32 (by decide) hno),
      map_appendLast hrt hpad henc hne]
  · simp only [padEven, hodd, if_false, padLast, decide_false, Bool.false_eq_true]
    rw [splitBs_join parts hpne hno, hdec]

/-- **value_rt_str**: a single text (ST, LT, UT: read without splitting) comes back unchanged up to the
padding blank — backslashes inside are irrelevant here. -/
theorem value_rt_str {c : Codec} (hrt : CodecRT c) (hpad : PadOK c) {s : Str} {vr : VR} (hvr : vr ≠ .UI)
    {bs : List Nat} (henc : c.encode s = some bs) :
    c.decode (padEven vr bs) = if bs.length % 2 = 1 then s ++ [32] else s := by
  by_cases hodd : bs.length % 2 = 1
  · simp only [padEven, hodd, if_true, hvr, if_false]
    rw [hpad s bs henc, hrt s bs henc]
  · simp only [padEven, hodd, if_false]
    exact hrt s bs henc

/-- both sides switch to the same set: the reader sees the first value of (0008,0005), decoded with
the default codec and possibly padded, and `from_code` ignores the padding -/
theorem switch_agrees (cur : Cs) (name : Str) :
    switchTo cur (some (name ++ [32])) = switchTo cur (some name) := by
  simp only [switchTo]
  rw [fromCode_padded name (pad := [32]) (by intro c hc; simp at hc; subst hc; decide)]

/-- the elements the property speaks about -/
inductive TextElem (e : Elem) : Prop
  /-- LO, SH, PN, UC: a non-empty list of backslash-free values, encoded with the set in force -/
  | strs (hvr : e.vr = .LO ∨ e.vr = .SH ∨ e.vr = .PN ∨ e.vr = .UC) (hform : e.form = .strs)
      (hne : e.vals ≠ []) (h92 : ∀ v ∈ e.vals, 92 ∉ v) (htag : e.tag ≠ scsTag)
  /-- ST, LT, UT: one text (may contain backslashes), encoded with the set in force -/
  | str (hvr : e.vr = .ST ∨ e.vr = .LT ∨ e.vr = .UT) (hform : e.form = .str)
      (hone : ∃ s, e.vals = [s]) (htag : e.tag ≠ scsTag)
  /-- the Specific Character Set element itself: CS, always the default codec -/
  | scs (htag : e.tag = scsTag) (hvr : e.vr = .CS) (hform : e.form = .strs)
      (hne : e.vals ≠ []) (h92 : ∀ v ∈ e.vals, 92 ∉ v)

/-- same element, the last value possibly followed by the padding blank -/
def SameUpToPad (e r : Elem) : Prop :=
  r.tag = e.tag ∧ r.vr = e.vr ∧ r.form = e.form ∧ ∃ padded, r.vals = padLast e.vals padded

theorem head_padLast (v : Str) (vs : List Str) (padded : Bool) :
    (padLast (v :: vs) padded).head? = some (if padded = true ∧ vs = [] then v ++ [32] else v) := by
  cases padded
  · simp [padLast]
  · cases vs with
    | nil => simp [padLast, appendLast]
    | cons x xs => simp [padLast, appendLast]

/-- **dataset_text_rt** (one element, any codec environment): GIVEN `CodecRT`, `NoSep`, `PadOK` for
the codecs involved, what `readElem` returns for what `writeElem` produced is the element itself up to
the padding of its last value, and writer and reader end up with the same character set — also
across a Specific Character Set element. -/
theorem elem_rt (codec : Cs → Codec)
    (H : ∀ cs, CodecRT (codec cs) ∧ NoSep (codec cs) ∧ PadOK (codec cs))
    (cur : Cs) (e : Elem) (he : TextElem e)
    {w : Wire} {cur' : Cs} (hw : writeElem codec cur e = some (w, cur')) (hnz : w.bytes ≠ []) :
    ∃ r, readElem codec cur w = (r, cur') ∧ SameUpToPad e r := by
  obtain ⟨tag, vr, form, vals⟩ := e
  cases he with
  | strs hvr hform hne h92 htag =>
    simp only at hvr hform hne h92 htag
    subst hform
    have hd : writerUsesDefault vr = false := by rcases hvr with h | h | h | h <;> subst h <;> rfl
    have hk : readKind vr = .strsDeclared := by rcases hvr with h | h | h | h <;> subst h <;> rfl
    have hui : vr ≠ .UI := by rcases hvr with h | h | h | h <;> subst h <;> decide
    simp only [writeElem, hd, htag, if_false, Bool.false_eq_true] at hw
    cases henc : mapM' (codec cur).encode vals with
    | none => simp [henc] at hw
    | some parts =>
      simp only [henc, Option.map_some, Option.some.injEq, Prod.mk.injEq] at hw
      obtain ⟨hw1, hw2⟩ := hw
      subst hw1; subst hw2
      refine ⟨⟨tag, vr, .strs, padLast vals (decide ((joinBs parts).length % 2 = 1))⟩, ?_, rfl, rfl, rfl, _, rfl⟩
      simp only [readElem, hnz, if_false, hk]
      rw [value_rt_strs (H cur).1 (H cur).2.1 (H cur).2.2 hne h92 hui henc]
  | str hvr hform hone htag =>
    simp only at hvr hform hone htag
    subst hform
    obtain ⟨s, hs⟩ := hone
    subst hs
    have hd : writerUsesDefault vr = false := by rcases hvr with h | h | h <;> subst h <;> rfl
    have hk : readKind vr = .str := by rcases hvr with h | h | h <;> subst h <;> rfl
    have hui : vr ≠ .UI := by rcases hvr with h | h | h <;> subst h <;> decide
    simp only [writeElem, hd, htag, if_false, List.headD_cons, Bool.false_eq_true] at hw
    cases henc : (codec cur).encode s with
    | none => simp [henc] at hw
    | some bs =>
      simp only [henc, Option.some.injEq, Prod.mk.injEq] at hw
      obtain ⟨hw1, hw2⟩ := hw
      subst hw1; subst hw2
      refine ⟨⟨tag, vr, .str, padLast [s] (decide (bs.length % 2 = 1))⟩, ?_, rfl, rfl, rfl, _, rfl⟩
      simp only [readElem, hnz, if_false, hk]
      rw [value_rt_str (H cur).1 (H cur).2.2 hui henc]
      by_cases hodd : bs.length % 2 = 1 <;> simp [hodd, padLast, appendLast]
  | scs htag hvr hform hne h92 =>
    simp only at hvr hform hne h92 htag
    subst hform; subst hvr; subst htag
    simp only [writeElem, writerUsesDefault, if_true] at hw
    cases henc : mapM' (codec .Default).encode vals with
    | none => simp [henc] at hw
    | some parts =>
      simp only [henc, Option.map_some, Option.some.injEq, Prod.mk.injEq] at hw
      obtain ⟨hw1, hw2⟩ := hw
      subst hw1; subst hw2
      refine ⟨⟨scsTag, .CS, .strs, padLast vals (decide ((joinBs parts).length % 2 = 1))⟩, ?_, rfl, rfl, rfl, _, rfl⟩
      simp only [readElem, hnz, if_false, readKind, and_self, if_true]
      rw [value_rt_strs (H .Default).1 (H .Default).2.1 (H .Default).2.2 hne h92 (by decide) henc]
      congr 1
      cases vals with
      | nil => exact absurd rfl hne
      | cons v vs =>
        rw [head_padLast]
        simp only [List.head?_cons]
        by_cases hp : (decide ((joinBs parts).length % 2 = 1) = true ∧ vs = [])
        · simp only [hp, and_self, if_true]
          exact switch_agrees cur v
        · simp only [hp, if_false]

/-- pointwise relation of two element lists -/
inductive AllSame : List Elem → List Elem → Prop
  | nil : AllSame [] []
  | cons {e r : Elem} {es rs : List Elem} : SameUpToPad e r → AllSame es rs → AllSame (e :: es) (r :: rs)

/-- **dataset_text_rt** (whole data set, by induction over its elements, the character set being
switched whenever a Specific Character Set element passes): every element reads back as written, up
to padding. -/
theorem dataset_text_rt (codec : Cs → Codec)
    (H : ∀ cs, CodecRT (codec cs) ∧ NoSep (codec cs) ∧ PadOK (codec cs)) :
    ∀ (es : List Elem) (cur : Cs) (ws : List Wire), (∀ e ∈ es, TextElem e) →
      writeElems codec cur es = some ws → (∀ w ∈ ws, w.bytes ≠ []) →
      AllSame es (readElems codec cur ws) := by
  intro es
  induction es with
  | nil =>
    intro cur ws _ hw _
    simp only [writeElems, Option.some.injEq] at hw
    subst hw
    exact .nil
  | cons e es ih =>
    intro cur ws hall hw hnz
    simp only [writeElems] at hw
    cases h1 : writeElem codec cur e with
    | none => simp [h1] at hw
    | some wc =>
      obtain ⟨w, cur'⟩ := wc
      cases h2 : writeElems codec cur' es with
      | none => simp [h1, h2] at hw
      | some ws' =>
        simp only [h1, h2, Option.some.injEq] at hw
        subst hw
        obtain ⟨r, hr, hsame⟩ := elem_rt codec H cur e (hall e (by simp)) h1 (hnz w (by simp))
        simp only [readElems, hr]
        exact .cons hsame (ih cur' ws' (fun x hx => hall x (by simp [hx])) h2 (fun x hx => hnz x (by simp [hx])))

/-- **default_vrs_unaffected**: what is written for a VR restricted to the default repertoire
(AE AS CS DA DS DT IS TM UI) does not depend on the character set in force … -/
theorem default_vrs_unaffected (codec : Cs → Codec) (cur cur₂ : Cs) (e : Elem)
    (h : writerUsesDefault e.vr = true) :
    (writeElem codec cur e).map (·.1) = (writeElem codec cur₂ e).map (·.1) := by
  simp only [writeElem, h, if_true]
  cases e.form <;> simp only <;>
    (first
      | (cases (codec Cs.Default).encode (e.vals.headD []) <;> rfl)
      | (cases (mapM' (codec Cs.Default).encode e.vals) <;> rfl))

/-- … and ASCII text in such a VR is written as exactly its ASCII bytes (joined by backslashes, padded
to even length), whatever the set in force -/
theorem default_vrs_ascii (codec : Cs → Codec) (hd : AsciiTransparent (codec .Default)) (cur : Cs)
    (tag : Nat) (vr : VR) (vals : List Str) (h : writerUsesDefault vr = true)
    (hascii : ∀ v ∈ vals, ∀ x ∈ v, x < 128) :
    (writeElem codec cur ⟨tag, vr, .strs, vals⟩).map (·.1.bytes) = some (padEven vr (joinBs vals)) := by
  have hm : ∀ (vs : List Str), (∀ v ∈ vs, ∀ x ∈ v, x < 128) → mapM' (codec .Default).encode vs = some vs := by
    intro vs
    induction vs with
    | nil => intro _; rfl
    | cons v vs ih =>
      intro hv
      simp [mapM', (hd v (hv v (by simp))).1, ih (fun x hx => hv x (by simp [hx]))]
  simp [writeElem, h, hm vals hascii]

/-- the AE / AS / CS values are also *read* with the default codec, whatever the set in force -/
theorem default_vrs_read_unaffected (codec : Cs → Codec) (cur cur₂ : Cs) (w : Wire)
    (h : w.vr = .AE ∨ w.vr = .AS ∨ (w.vr = .CS ∧ w.tag ≠ scsTag)) :
    (readElem codec cur w).1.vals = (readElem codec cur₂ w).1.vals := by
  by_cases hb : w.bytes = []
  · simp [readElem, hb]
  · rcases h with h | h | ⟨h, _⟩ <;> simp [readElem, hb, h, readKind]

/-- non-vacuity: the hypotheses of `dataset_text_rt` are satisfiable — the environment in which every
set is bound to the ISO_IR 100 page — and a concrete data set goes through model writer and reader -/
example : ∃ codec : Cs → Codec, (∀ cs, CodecRT (codec cs) ∧ NoSep (codec cs) ∧ PadOK (codec cs)) := by
  obtain ⟨hg, ha⟩ := pageOf_good .Default Gen.page0 rfl
  exact ⟨fun _ => pageCodec Gen.page0, fun _ => ⟨page_codecRT hg, page_noSep hg ha, page_padOK ha⟩⟩

example :
    let es : List Elem := [⟨scsTag, .CS, .strs, [Cs.IsoIr144.term]⟩, ⟨0x00100010, .PN, .strs, [[0x418, 0x432, 0x430, 0x43D]]⟩]
    (writeElems (codecOf (fun _ => utf8Codec)) .Default es).map (fun ws => (readElems (codecOf (fun _ => utf8Codec)) .Default ws).map (·.vals)) =
      some [[Cs.IsoIr144.term], [[0x418, 0x432, 0x430, 0x43D]]] := by decide +kernel

end Dicom.Charset
