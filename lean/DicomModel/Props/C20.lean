import DicomModel.Model.Rle
import DicomModel.Lemmas.Bytes
import DicomModel.Lemmas.Rle
/-
C20 — RLE Lossless decoding reproduces the encoded samples.
-/
namespace Dicom.Rle

/-- PackBits decoding of a serialised run list followed by anything -/
theorem unpack_serialise_append (runs : List Run) (hv : ∀ r ∈ runs, r.Valid) (rest : Bytes) :
    unpack (serialise runs ++ rest) = (unpack rest).map (expand runs ++ ·) := by
  induction runs with
  | nil => simp [serialise, expand]
  | cons r rs ih =>
    have hr : r.Valid := hv r (by simp)
    have ih' := ih (fun x hx => hv x (by simp [hx]))
    simp only [serialise, expand, List.flatMap_cons, List.append_assoc] at ih' ⊢
    cases r with
    | noop =>
      rw [Run.bytes, Run.expand, List.cons_append, List.nil_append, unpack_cons]
      simp [ih']
    | rep n b =>
      simp only [Run.Valid] at hr
      rw [Run.bytes, Run.expand]
      simp only [List.cons_append, List.nil_append]
      rw [unpack_cons]
      have h1 : ¬ (257 - n < 128) := by omega
      have h2 : ¬ (257 - n = 128) := by omega
      have h3 : 257 - (257 - n) = n := by omega
      simp only [h1, h2, if_false, ih', h3]
      cases unpack rest <;> simp
    | lit bs =>
      simp only [Run.Valid] at hr
      rw [Run.bytes, Run.expand, List.cons_append, unpack_cons]
      have h1 : bs.length - 1 < 128 := by omega
      have h2 : bs.length - 1 + 1 = bs.length := by omega
      simp only [h1, if_true, h2, List.drop_left, List.take_left, ih']
      cases unpack rest <;> simp

/-- **packbits_decode_expand**: for every list of valid runs (any split of the data into literal
runs of 1..128 bytes, replicate runs of 2..128 copies and no-op bytes, in any order), the
decoder's PackBits reader returns exactly the expansion of the runs. -/
theorem packbits_decode_expand (runs : List Run) (hv : ∀ r ∈ runs, r.Valid) :
    unpack (serialise runs) = some (expand runs) := by
  have := unpack_serialise_append runs hv []
  simpa [unpack_nil] using this

/-- a padded serialised segment still decodes to the expansion of its runs -/
theorem unpack_padEven (pad : Bool) (runs : List Run) (hv : ∀ r ∈ runs, r.Valid) :
    unpack (padEven pad (serialise runs)) = some (expand runs) := by
  unfold padEven
  split
  · rw [unpack_serialise_append runs hv [0], unpack_zero]; simp
  · exact packbits_decode_expand runs hv

/-! ### The encoded frame: header and segments -/

theorem flatMap_le32_length (l : List Nat) : (l.flatMap le32).length = 4 * l.length := by
  induction l with
  | nil => rfl
  | cons a r ih => simp [List.flatMap_cons, ih]; omega

/-- the 64-byte header written by the reference encoder -/
def header (segs : List Bytes) : Bytes :=
  le32 segs.length ++ (segOffsets 64 segs ++ List.replicate (15 - segs.length) 0).flatMap le32

theorem encodeFrame_eq (segs : List Bytes) : encodeFrame segs = header segs ++ segs.flatten := by
  simp [encodeFrame, header]

theorem header_length (segs : List Bytes) (h : segs.length ≤ 15) : (header segs).length = 64 := by
  rw [header, List.length_append, flatMap_le32_length, List.length_append, segOffsets_length,
    List.length_replicate, le32_length]; omega

theorem encodeFrame_length (segs : List Bytes) (h : segs.length ≤ 15) :
    (encodeFrame segs).length = 64 + segs.flatten.length := by
  rw [encodeFrame_eq, List.length_append, header_length segs h]

/-- `read_rle_header` returns the offsets the encoder wrote -/
theorem readRleHeader_encodeFrame (segs : List Bytes) (h15 : segs.length ≤ 15)
    (hsz : (encodeFrame segs).length < 4294967296) :
    readRleHeader (encodeFrame segs) = .ok (segOffsets 64 segs) := by
  have hlen := encodeFrame_length segs h15
  have hoffs : ∀ o ∈ segOffsets 64 segs, o < 4294967296 := by
    intro o ho
    have := segOffsets_le segs 64 o ho
    omega
  unfold readRleHeader
  have h1 : rdLe32 (encodeFrame segs) = some (segs.length,
      (segOffsets 64 segs ++ List.replicate (15 - segs.length) 0).flatMap le32 ++ segs.flatten) := by
    simp only [encodeFrame, List.append_assoc]
    exact rdLe32_le32 _ (by omega) _
  rw [h1]
  simp only []
  have h2 : (segs.length + 1) % 4294967296 = segs.length + 1 := Nat.mod_eq_of_lt (by omega)
  rw [h2, if_neg (by omega)]
  have h3 : (encodeFrame segs).drop 4 =
      (segOffsets 64 segs).flatMap le32 ++ ((List.replicate (15 - segs.length) 0).flatMap le32 ++ segs.flatten) := by
    simp [encodeFrame, le32, List.flatMap_append]
  have h4 := rdLe32s_flatMap (segOffsets 64 segs)
    ((List.replicate (15 - segs.length) 0).flatMap le32 ++ segs.flatten) hoffs
  rw [segOffsets_length] at h4
  rw [h3, h4]

/-! ### Placement of the segments of a valid frame -/

/-- output column (byte position inside one pixel) written by segment `(sample, byte_offset)` -/
def col (bps sn bo : Nat) : Nat := sn * bps + (bps - 1 - bo)

/-- the byte the property wants at column `c` of pixel `q`: little-endian, pixel-interleaved -/
def want (spp bps : Nat) (frame : List Nat) (q c : Nat) : Nat :=
  byteOf (frame.getD (q * spp + c / bps) 0) (c % bps)

theorem col_lt {bps spp sn bo : Nat} (hsn : sn < spp) (hbo : bo < bps) :
    col bps sn bo < bps * spp := by
  have : (sn + 1) * bps ≤ spp * bps := Nat.mul_le_mul_right _ hsn
  rw [Nat.succ_mul] at this
  unfold col; rw [Nat.mul_comm bps spp]; omega

theorem col_div {bps sn bo : Nat} (hbo : bo < bps) : col bps sn bo / bps = sn := by
  unfold col
  rw [Nat.mul_comm, Nat.mul_add_div (by omega), Nat.div_eq_of_lt (by omega)]; simp

theorem col_mod {bps sn bo : Nat} (hbo : bo < bps) : col bps sn bo % bps = bps - 1 - bo := by
  unfold col
  rw [Nat.mul_comm, Nat.mul_add_mod, Nat.mod_eq_of_lt (by omega)]

/-- what "`frame` was encoded as RLE Lossless per Annex G with some split into runs" means:
`runs[ii]` is any valid run list that expands to byte plane `ii` of the frame. -/
structure ValidFrame (P : Params) (frame : List Nat) (pad : Bool) (runs : List (List Run)) : Prop where
  bps_pos : 0 < P.bps
  spp_pos : 0 < P.spp
  len : frame.length = P.rows * P.cols * P.spp
  nruns : runs.length = P.spp * P.bps
  n15 : P.spp * P.bps ≤ 15
  valid : ∀ rs ∈ runs, ∀ r ∈ rs, r.Valid
  exp : ∀ ii (h : ii < runs.length), expand runs[ii] = plane P.spp P.bps frame ii
  size : (encodeFrameRuns pad runs).length < 4294967296

def Inv (P : Params) (frame : List Nat) (S : Nat × Nat → Prop) (dst : Bytes) : Prop :=
  ∀ p, S p → p.1 < P.spp ∧ p.2 < P.bps ∧ ∀ q, q < P.rows * P.cols →
    dst[q * P.step + col P.bps p.1 p.2]? = some (want P.spp P.bps frame q (col P.bps p.1 p.2))

theorem frameSize_eq (P : Params) : P.frameSize = P.rows * P.cols * P.step := by
  simp only [Params.frameSize, Params.step]; ac_rfl

/-- the offsets list used by the decoder for a frame of the reference encoder -/
theorem offsets_eq (segs : List Bytes) (h15 : segs.length ≤ 15)
    (hsz : (encodeFrame segs).length < 4294967296) :
    segOffsets 64 segs ++ [(encodeFrame segs).length % 4294967296] = offsAll (header segs).length segs := by
  rw [Nat.mod_eq_of_lt hsz, encodeFrame_length segs h15, header_length segs h15]; rfl

theorem place_step {P : Params} {frame : List Nat} {pad : Bool} {runs : List (List Run)}
    (V : ValidFrame P frame pad runs) (S : Nat × Nat → Prop) (dst : Bytes)
    (hd : dst.length = P.rows * P.cols * P.step) (hI : Inv P frame S dst)
    (sn bo : Nat) (hsn : sn < P.spp) (hbo : bo < P.bps) :
    ∃ dst', placeSegment P (encodeFrameRuns pad runs)
        (segOffsets 64 (runs.map fun r => padEven pad (serialise r))
          ++ [(encodeFrameRuns pad runs).length % 4294967296]) 0 dst sn bo = .ok dst'
      ∧ dst'.length = P.rows * P.cols * P.step
      ∧ Inv P frame (fun p => p = (sn, bo) ∨ S p) dst' := by
  have hsegs : (runs.map fun r => padEven pad (serialise r)).length = P.spp * P.bps := by
    simp [V.nruns]
  generalize hsg : (runs.map fun r => padEven pad (serialise r)) = segs at hsegs
  have hfrag : encodeFrameRuns pad runs = encodeFrame segs := by simp [encodeFrameRuns, hsg]
  have h15 : segs.length ≤ 15 := by rw [hsegs]; exact V.n15
  have hsz : (encodeFrame segs).length < 4294967296 := by rw [← hfrag]; exact V.size
  have hii : sn * P.bps + bo < segs.length := by
    have : (sn + 1) * P.bps ≤ P.spp * P.bps := Nat.mul_le_mul_right _ hsn
    rw [Nat.succ_mul] at this; omega
  have hiir : sn * P.bps + bo < runs.length := by rw [V.nruns, ← hsegs]; exact hii
  obtain ⟨a, b, ha, hb, hab, hbl, hslice⟩ := slice_seg segs (header segs) (sn * P.bps + bo) hii
  rw [hfrag, offsets_eq segs h15 hsz]
  rw [← encodeFrame_eq] at hbl hslice
  have hseg : segs[sn * P.bps + bo]?.getD [] = padEven pad (serialise runs[sn * P.bps + bo]) := by
    rw [← hsg]; simp [hiir]
  have hplane : expand runs[sn * P.bps + bo] = plane P.spp P.bps frame (sn * P.bps + bo) := V.exp _ hiir
  have hvalid : ∀ r ∈ runs[sn * P.bps + bo], r.Valid := V.valid _ (List.getElem_mem hiir)
  have hpl : (plane P.spp P.bps frame (sn * P.bps + bo)).length = P.rows * P.cols := by
    rw [plane_length, V.len, Nat.mul_div_cancel _ V.spp_pos]
  have hcol : col P.bps sn bo < P.step := col_lt hsn hbo
  obtain ⟨dst', h1, h2, h3⟩ := scatter_spec (step := P.step) (n := P.rows * P.cols) hcol
    (plane P.spp P.bps frame (sn * P.bps + bo)) 0 dst (by omega) hd
  refine ⟨dst', ?_, h2, ?_⟩
  · unfold placeSegment
    simp only [ha, hb]
    rw [if_neg (by omega), hslice, hseg, unpack_padEven pad _ hvalid, hplane]
    simp only []
    rw [List.take_of_length_le (by omega), frameSize_eq]
    simpa [col] using h1
  · intro p hp
    have hpb : p.1 < P.spp ∧ p.2 < P.bps := by
      rcases hp with hp | hp
      · rw [hp]; exact ⟨hsn, hbo⟩
      · exact ⟨(hI p hp).1, (hI p hp).2.1⟩
    refine ⟨hpb.1, hpb.2, ?_⟩
    intro q hq
    rw [h3 q _ (col_lt hpb.1 hpb.2)]
    by_cases hc : col P.bps p.1 p.2 = col P.bps sn bo
    · simp only [hc, Nat.zero_le, and_self, if_true, Nat.sub_zero]
      rw [plane_getElem? _ _ _ _ _ (by rw [V.len, Nat.mul_div_cancel _ V.spp_pos]; exact hq)]
      have e1 : (sn * P.bps + bo) / P.bps = sn := by
        rw [Nat.mul_comm, Nat.mul_add_div V.bps_pos, Nat.div_eq_of_lt hbo]; simp
      have e2 : (sn * P.bps + bo) % P.bps = bo := by
        rw [Nat.mul_comm, Nat.mul_add_mod, Nat.mod_eq_of_lt hbo]
      simp only [want, col_div hbo, col_mod hbo, e1, e2]
    · rw [if_neg (by intro h; exact hc h.1)]
      rcases hp with hp | hp
      · exact absurd (by rw [hp]) hc
      · exact (hI p hp).2.2 q hq

theorem placeAll_spec {P : Params} {frame : List Nat} {pad : Bool} {runs : List (List Run)}
    (V : ValidFrame P frame pad runs) : ∀ (todo : List (Nat × Nat)) (S : Nat × Nat → Prop) (dst : Bytes),
    (∀ p ∈ todo, p.1 < P.spp ∧ p.2 < P.bps) →
    dst.length = P.rows * P.cols * P.step → Inv P frame S dst →
    ∃ dst', placeAll P (encodeFrameRuns pad runs)
        (segOffsets 64 (runs.map fun r => padEven pad (serialise r))
          ++ [(encodeFrameRuns pad runs).length % 4294967296]) 0 todo dst = .ok dst'
      ∧ dst'.length = P.rows * P.cols * P.step
      ∧ Inv P frame (fun p => p ∈ todo ∨ S p) dst' := by
  intro todo
  induction todo with
  | nil =>
    intro S dst _ hd hI
    exact ⟨dst, rfl, hd, fun p hp => hI p (by simpa using hp)⟩
  | cons p rest ih =>
    intro S dst hb hd hI
    obtain ⟨sn, bo⟩ := p
    have hp := hb (sn, bo) (by simp)
    obtain ⟨d1, h1, h2, h3⟩ := place_step V S dst hd hI sn bo hp.1 hp.2
    obtain ⟨d2, g1, g2, g3⟩ := ih _ d1 (fun x hx => hb x (by simp [hx])) h2 h3
    refine ⟨d2, ?_, g2, ?_⟩
    · simp only [placeAll, h1]; exact g1
    · intro x hx
      apply g3 x
      rcases hx with hx | hx
      · rcases List.mem_cons.mp hx with hx | hx
        · exact Or.inr (Or.inl hx)
        · exact Or.inl hx
      · exact Or.inr (Or.inr hx)

theorem mem_segOrder (P : Params) (sn bo : Nat) : (sn, bo) ∈ segOrder P ↔ sn < P.spp ∧ bo < P.bps := by
  simp [segOrder]

/-- One fragment of the reference encoder, decoded into a zeroed frame buffer, gives the frame's
samples as little-endian, pixel-interleaved bytes. -/
theorem decodeFragment_valid {P : Params} {frame : List Nat} {pad : Bool} {runs : List (List Run)}
    (V : ValidFrame P frame pad runs) :
    decodeFragmentInto P (encodeFrameRuns pad runs) 0 (List.replicate P.frameSize 0)
      = .ok (leInterleaved P.bps frame) := by
  have hsegs : (runs.map fun r => padEven pad (serialise r)).length ≤ 15 := by
    simp [V.nruns]; exact V.n15
  have hhdr := readRleHeader_encodeFrame (runs.map fun r => padEven pad (serialise r)) hsegs
    (by have := V.size; simpa [encodeFrameRuns] using this)
  obtain ⟨dst', h1, h2, h3⟩ := placeAll_spec V (segOrder P) (fun _ => False)
    (List.replicate P.frameSize 0)
    (fun p hp => (mem_segOrder P p.1 p.2).mp hp)
    (by simp [frameSize_eq]) (fun p hp => hp.elim)
  unfold decodeFragmentInto
  have hfr : encodeFrameRuns pad runs = encodeFrame (runs.map fun r => padEven pad (serialise r)) := rfl
  rw [hfr, hhdr]
  simp only []
  rw [← hfr, h1]
  congr 1
  apply List.ext_getElem?
  intro j
  have hbps := V.bps_pos
  have hstep : 0 < P.step := Nat.mul_pos V.bps_pos V.spp_pos
  by_cases hj : j < P.rows * P.cols * P.step
  · -- j = q * step + c,  c = s * bps + b
    have hjq : j / P.step < P.rows * P.cols := by
      rw [Nat.div_lt_iff_lt_mul hstep]; exact hj
    have hc : j % P.step < P.step := Nat.mod_lt _ hstep
    have hdecomp : j = (j / P.step) * P.step + j % P.step := by
      rw [Nat.mul_comm]; exact (Nat.div_add_mod j P.step).symm
    generalize j / P.step = q at hjq hdecomp
    generalize j % P.step = c at hc hdecomp
    have hs : c / P.bps < P.spp := by
      rw [Nat.div_lt_iff_lt_mul hbps, Nat.mul_comm]; exact hc
    have hb : P.bps - 1 - c % P.bps < P.bps := by omega
    have hcm : c % P.bps < P.bps := Nat.mod_lt _ hbps
    have hcol : col P.bps (c / P.bps) (P.bps - 1 - c % P.bps) = c := by
      unfold col
      have : P.bps - 1 - (P.bps - 1 - c % P.bps) = c % P.bps := by omega
      rw [this, Nat.mul_comm]; exact Nat.div_add_mod c P.bps
    have := (h3 (c / P.bps, P.bps - 1 - c % P.bps)
      (Or.inl ((mem_segOrder P _ _).mpr ⟨hs, hb⟩))).2.2 q hjq
    simp only [hcol] at this
    rw [hdecomp, this]
    -- the same index in the expected output
    have hidx : q * P.step + c = (q * P.spp + c / P.bps) * P.bps + c % P.bps := by
      have e := (Nat.div_add_mod c P.bps).symm
      rw [Nat.add_mul, Nat.add_assoc, Nat.mul_comm (c / P.bps) P.bps, ← e]
      simp only [Params.step]; rw [Nat.mul_assoc, Nat.mul_comm P.spp P.bps]
    have hlt : q * P.spp + c / P.bps < frame.length := by
      rw [V.len]
      have : (q + 1) * P.spp ≤ P.rows * P.cols * P.spp := Nat.mul_le_mul_right _ hjq
      rw [Nat.succ_mul] at this; omega
    rw [hidx, leInterleaved_getElem? P.bps frame _ _ hcm]
    simp [want, List.getD_eq_getElem?_getD, List.getElem?_eq_getElem hlt]
  · rw [List.getElem?_eq_none (by omega), List.getElem?_eq_none]
    rw [leInterleaved_length, V.len]
    have : P.rows * P.cols * P.spp * P.bps = P.rows * P.cols * P.step := by
      simp only [Params.step]; ac_rfl
    omega

/-! ### Locality: a frame is decoded inside its own window of the output buffer -/

theorem placeSegment_length {P : Params} {frag : Bytes} {offs : List Nat} {base : Nat} {dst dst' : Bytes}
    {sn bo : Nat} (h : placeSegment P frag offs base dst sn bo = .ok dst') : dst'.length = dst.length := by
  simp only [placeSegment] at h
  split at h
  · split at h
    · simp at h
    · split at h
      · simp at h
      · exact scatter_length _ _ _ _ h
  · simp at h

theorem placeSegment_local (P : Params) (frag : Bytes) (offs : List Nat) (pre mid post : Bytes)
    (sn bo : Nat) (hm : P.frameSize ≤ mid.length) :
    placeSegment P frag offs pre.length (pre ++ mid ++ post) sn bo
      = (placeSegment P frag offs 0 mid sn bo).map (fun m => pre ++ m ++ post) := by
  simp only [placeSegment]
  split
  · split
    · rfl
    · split
      · rfl
      · simp only [Nat.zero_add]
        exact scatter_local pre post _ _ mid hm
  · rfl

theorem placeAll_local (P : Params) (frag : Bytes) (offs : List Nat) (pre post : Bytes) :
    ∀ (todo : List (Nat × Nat)) (mid : Bytes), P.frameSize ≤ mid.length →
    placeAll P frag offs pre.length todo (pre ++ mid ++ post)
      = (placeAll P frag offs 0 todo mid).map (fun m => pre ++ m ++ post) := by
  intro todo
  induction todo with
  | nil => intro mid _; rfl
  | cons p rest ih =>
    intro mid hm
    obtain ⟨sn, bo⟩ := p
    simp only [placeAll]
    rw [placeSegment_local P frag offs pre mid post sn bo hm]
    cases hps : placeSegment P frag offs 0 mid sn bo with
    | ok m' =>
      simp only [Outcome.map]
      exact ih m' (by rw [placeSegment_length hps]; exact hm)
    | err => rfl
    | panic => rfl

theorem decodeFragmentInto_local (P : Params) (frag : Bytes) (pre mid post : Bytes)
    (hm : P.frameSize ≤ mid.length) :
    decodeFragmentInto P frag pre.length (pre ++ mid ++ post)
      = (decodeFragmentInto P frag 0 mid).map (fun m => pre ++ m ++ post) := by
  unfold decodeFragmentInto
  cases readRleHeader frag with
  | ok offs => exact placeAll_local P frag _ pre post _ mid hm
  | err => rfl
  | panic => rfl

theorem placeAll_length {P : Params} {frag : Bytes} {offs : List Nat} {base : Nat} :
    ∀ (todo : List (Nat × Nat)) (dst dst' : Bytes),
    placeAll P frag offs base todo dst = .ok dst' → dst'.length = dst.length := by
  intro todo
  induction todo with
  | nil => intro dst dst' h; simp [placeAll] at h; rw [h]
  | cons p rest ih =>
    intro dst dst' h
    obtain ⟨sn, bo⟩ := p
    simp only [placeAll] at h
    cases hps : placeSegment P frag offs base dst sn bo with
    | ok m' => rw [hps] at h; rw [ih m' dst' h, placeSegment_length hps]
    | err => rw [hps] at h; simp at h
    | panic => rw [hps] at h; simp at h

theorem decodeFragmentInto_length {P : Params} {frag : Bytes} {base : Nat} {dst dst' : Bytes}
    (h : decodeFragmentInto P frag base dst = .ok dst') : dst'.length = dst.length := by
  unfold decodeFragmentInto at h
  cases hh : readRleHeader frag with
  | ok offs => rw [hh] at h; exact placeAll_length _ _ _ h
  | err => rw [hh] at h; simp at h
  | panic => rw [hh] at h; simp at h

/-- what one fragment decodes to on its own (empty destination) -/
def frameResult (P : Params) (frag : Bytes) : Outcome Bytes :=
  decodeFragmentInto P frag 0 (List.replicate P.frameSize 0)

/-- `decode_frame` appends the frame's own result to whatever was in `dst` -/
theorem decodeFrame_eq (P : Params) (frags : List Bytes) (f : Nat) (dst0 : Bytes)
    (hb : P.bits = 8 ∨ P.bits = 16) (frag : Bytes) (hf : frags[f]? = some frag) :
    decodeFrame P frags f dst0 = (frameResult P frag).map (dst0 ++ ·) := by
  unfold decodeFrame frameResult
  rw [if_neg (by omega), hf]
  simp only []
  have := decodeFragmentInto_local P frag dst0 (List.replicate P.frameSize 0) [] (by simp)
  simp only [List.append_nil] at this
  exact this

/-- sequential results of all frames: the first failure wins -/
def seqFrames : List (Outcome Bytes) → Outcome (List Bytes)
  | [] => .ok []
  | .ok b :: rest =>
    match seqFrames rest with
    | .ok bs => .ok (b :: bs)
    | .err => .err
    | .panic => .panic
  | .err :: _ => .err
  | .panic :: _ => .panic

theorem decodeFrames_eq (P : Params) (base0 : Nat) : ∀ (frags : List Bytes) (i : Nat) (pre : Bytes),
    pre.length = base0 + i * P.frameSize →
    decodeFrames P base0 i frags (pre ++ List.replicate (P.frameSize * frags.length) 0)
      = (seqFrames (frags.map (frameResult P))).map (fun ds => pre ++ ds.flatten) := by
  intro frags
  induction frags with
  | nil => intro i pre _; simp [decodeFrames, seqFrames, Outcome.map]
  | cons frag rest ih =>
    intro i pre hpre
    have hsplit : pre ++ List.replicate (P.frameSize * (frag :: rest).length) 0
        = pre ++ List.replicate P.frameSize 0 ++ List.replicate (P.frameSize * rest.length) 0 := by
      rw [List.length_cons, Nat.mul_succ, Nat.add_comm, ← List.replicate_append_replicate, List.append_assoc]
    simp only [decodeFrames, List.map_cons]
    rw [hsplit, ← hpre, decodeFragmentInto_local P frag pre _ _ (by simp)]
    unfold frameResult
    cases hfr : decodeFragmentInto P frag 0 (List.replicate P.frameSize 0) with
    | ok m =>
      simp only [Outcome.map]
      have hm : m.length = P.frameSize := by rw [decodeFragmentInto_length hfr]; simp
      have := ih (i + 1) (pre ++ m) (by rw [List.length_append, hm, hpre, Nat.succ_mul]; omega)
      rw [this]
      simp only [seqFrames]
      change _ = Outcome.map _ (match seqFrames (rest.map (frameResult P)) with
        | .ok bs => .ok (m :: bs) | .err => .err | .panic => .panic)
      cases seqFrames (rest.map (frameResult P)) with
      | ok bs => simp [Outcome.map]
      | err => rfl
      | panic => rfl
    | err => rfl
    | panic => rfl

/-- **rle_whole_concat** (every input, well-formed or not): decoding the whole object gives the
concatenation of what `decode_frame` gives for frame 0, 1, … (appended to the previous contents
of the output vector), and fails exactly when one of the frames fails. -/
theorem rle_whole_concat (P : Params) (frags : List Bytes) (dst0 : Bytes) (hb : P.bits = 8 ∨ P.bits = 16) :
    decodeAll P frags dst0
      = (seqFrames ((List.range frags.length).map fun f => decodeFrame P frags f [])).map
          (fun ds => dst0 ++ ds.flatten) := by
  have hfr : (List.range frags.length).map (fun f => decodeFrame P frags f [])
      = frags.map (frameResult P) := by
    apply List.ext_getElem?
    intro f
    by_cases hf : f < frags.length
    · simp only [List.getElem?_map, List.getElem?_range hf, List.getElem?_eq_getElem hf, Option.map_some]
      rw [decodeFrame_eq P frags f [] hb frags[f] (List.getElem?_eq_getElem hf)]
      cases frameResult P frags[f] <;> simp [Outcome.map]
    · simp [hf]
  unfold decodeAll
  rw [if_neg (by omega), hfr]
  have := decodeFrames_eq P dst0.length frags 0 dst0 (by simp)
  exact this

/-! ### Main theorems -/

/-- **rle_frame_rt**: a frame with 8 or 16 bits allocated and any number of samples per pixel that
fits the 15-segment header (in particular 1 and 3), encoded per PS3.5 Annex G with *any* valid
run lists whose expansions are the byte planes of the frame (`ValidFrame`), decodes — as frame `f`
of any object that carries this fragment at position `f` — to the frame's samples as little-endian,
pixel-interleaved bytes appended to the destination. -/
theorem rle_frame_rt {P : Params} (hb : P.bits = 8 ∨ P.bits = 16)
    {frame : List Nat} {pad : Bool} {runs : List (List Run)} (V : ValidFrame P frame pad runs)
    (frags : List Bytes) (f : Nat) (hf : frags[f]? = some (encodeFrameRuns pad runs)) (dst0 : Bytes) :
    decodeFrame P frags f dst0 = .ok (dst0 ++ leInterleaved P.bps frame) := by
  rw [decodeFrame_eq P frags f dst0 hb _ hf, frameResult, decodeFragment_valid V]; rfl

theorem seqFrames_ok {α : Type} (g : α → Bytes) : ∀ (l : List α),
    seqFrames (l.map fun e => Outcome.ok (g e)) = .ok (l.map g) := by
  intro l
  induction l with
  | nil => rfl
  | cons a r ih => simp only [List.map_cons, seqFrames, ih]

/-- **rle_whole_rt**: whole-object decoding of any number of frames, each encoded with its own
arbitrary valid run lists, yields all samples, little-endian and pixel-interleaved, frame after
frame. -/
theorem rle_whole_rt {P : Params} (hb : P.bits = 8 ∨ P.bits = 16) (pad : Bool)
    (encs : List (List Nat × List (List Run))) (hV : ∀ e ∈ encs, ValidFrame P e.1 pad e.2)
    (dst0 : Bytes) :
    decodeAll P (encs.map fun e => encodeFrameRuns pad e.2) dst0
      = .ok (dst0 ++ (encs.map fun e => leInterleaved P.bps e.1).flatten) := by
  unfold decodeAll
  rw [if_neg (by omega)]
  have h := decodeFrames_eq P dst0.length (encs.map fun e => encodeFrameRuns pad e.2) 0 dst0 (by simp)
  rw [h, List.map_map]
  have : (encs.map (frameResult P ∘ fun e => encodeFrameRuns pad e.2))
      = encs.map fun e => Outcome.ok (leInterleaved P.bps e.1) := by
    apply List.map_congr_left
    intro e he
    exact decodeFragment_valid (hV e he)
  rw [this, seqFrames_ok]; rfl

/-! ### The pipeline's encoder (`rleEncode` with a choice stream) is an instance -/

theorem bps_of_bits {P : Params} (hb : P.bits = 8 ∨ P.bits = 16) : P.bps = 1 ∨ P.bps = 2 := by
  rcases hb with h | h <;> simp [Params.bps, h]

/-- the runs picked by the choice stream form a valid Annex G encoding of the frame -/
theorem frameRuns_valid {P : Params} (hb : P.bits = 8 ∨ P.bits = 16) (hs : P.spp = 1 ∨ P.spp = 3)
    (frame : List Nat) (hlen : frame.length = P.rows * P.cols * P.spp) (pad : Bool) (choices : List Nat)
    (hsz : (encodeFrameRuns pad (frameRuns P.spp P.bps frame choices)).length < 4294967296) :
    ValidFrame P frame pad (frameRuns P.spp P.bps frame choices) where
  bps_pos := by rcases bps_of_bits hb with h | h <;> omega
  spp_pos := by omega
  len := hlen
  nruns := by simp [frameRuns]
  n15 := by rcases bps_of_bits hb with h | h <;> rcases hs with h' | h' <;> simp [h, h']
  valid := by
    intro rs hrs r hr
    simp only [frameRuns, List.mem_map] at hrs
    obtain ⟨ii, _, rfl⟩ := hrs
    exact (chooseRuns_spec _ _).1 r hr
  exp := by
    intro ii h
    simp only [frameRuns, List.length_map, List.length_range] at h
    simp only [frameRuns, List.getElem_map, List.getElem_range]
    exact (chooseRuns_spec _ _).2
  size := hsz

/-- **rle_frame_rt_pipeline**: for the inputs the correspondence run feeds to the real decoder
(`rleEncode` of random frames with a random choice stream), every frame decodes to its
little-endian interleaved samples. -/
theorem rle_frame_rt_pipeline {P : Params} (hb : P.bits = 8 ∨ P.bits = 16) (hs : P.spp = 1 ∨ P.spp = 3)
    (frames : List (List Nat)) (hlen : ∀ fr ∈ frames, fr.length = P.rows * P.cols * P.spp)
    (pad : Bool) (choices : List Nat)
    (hsz : ∀ frag ∈ rleEncode P.spp P.bps pad frames choices, frag.length < 4294967296)
    (f : Nat) (hf : f < frames.length) (dst0 : Bytes) :
    decodeFrame P (rleEncode P.spp P.bps pad frames choices) f dst0
      = .ok (dst0 ++ leInterleaved P.bps frames[f]) := by
  have hfrag : (rleEncode P.spp P.bps pad frames choices)[f]? = some (encodeFrameRuns pad
      (frameRuns P.spp P.bps frames[f] ((splitChoices frames.length choices).getD f []))) := by
    simp [rleEncode, hf, List.getD_eq_getElem?_getD]
  have hmem := List.mem_of_getElem? hfrag
  exact rle_frame_rt hb
    (frameRuns_valid hb hs frames[f] (hlen _ (List.getElem_mem hf)) pad _ (hsz _ hmem)) _ f hfrag dst0

/-- **rle_whole_pipeline**: whole-object decoding of the pipeline's encoding is the concatenation
of all frames' little-endian interleaved samples. -/
theorem rle_whole_rt_pipeline {P : Params} (hb : P.bits = 8 ∨ P.bits = 16) (hs : P.spp = 1 ∨ P.spp = 3)
    (frames : List (List Nat)) (hlen : ∀ fr ∈ frames, fr.length = P.rows * P.cols * P.spp)
    (pad : Bool) (choices : List Nat)
    (hsz : ∀ frag ∈ rleEncode P.spp P.bps pad frames choices, frag.length < 4294967296) (dst0 : Bytes) :
    decodeAll P (rleEncode P.spp P.bps pad frames choices) dst0
      = .ok (dst0 ++ (frames.map (leInterleaved P.bps)).flatten) := by
  rw [rle_whole_concat P _ dst0 hb]
  have hl : (rleEncode P.spp P.bps pad frames choices).length = frames.length := by simp [rleEncode]
  rw [hl]
  have : ((List.range frames.length).map fun f => decodeFrame P (rleEncode P.spp P.bps pad frames choices) f [])
      = (List.range frames.length).map fun f => Outcome.ok (leInterleaved P.bps (frames.getD f [])) := by
    apply List.map_congr_left
    intro f hf
    have hf' : f < frames.length := List.mem_range.mp hf
    rw [rle_frame_rt_pipeline hb hs frames hlen pad choices hsz f hf' []]
    simp [List.getD_eq_getElem?_getD, hf']
  have hmap : ((List.range frames.length).map fun f => leInterleaved P.bps (frames.getD f []))
      = frames.map (leInterleaved P.bps) := by
    apply List.ext_getElem?
    intro i
    by_cases hi : i < frames.length
    · simp [hi, List.getD_eq_getElem?_getD]
    · simp [hi]
  rw [this, seqFrames_ok, hmap]; rfl

/-! ### Non-vacuity -/

/-- the hypotheses are satisfiable: the 2x2 8-bit monochrome frame `[10,20,30,40]` (the input of
defect #10) split into a no-op, a literal and a replicate run is a `ValidFrame` … -/
theorem validFrame_witness_mono8 :
    ValidFrame ⟨2, 2, 1, 8⟩ [10, 20, 30, 30] true [[.noop, .lit [10, 20], .rep 2 30]] where
  bps_pos := by decide
  spp_pos := by decide
  len := by decide
  nruns := by decide
  n15 := by decide
  valid := by decide
  exp := by decide
  size := by decide

/-- … and so decodes to itself (the unrepaired code returned `[0,10,20,30]`-like shifted output). -/
example : decodeFrame ⟨2, 2, 1, 8⟩ [encodeFrameRuns true [[.noop, .lit [10, 20], .rep 2 30]]] 0 []
    = .ok [10, 20, 30, 30] :=
  rle_frame_rt (Or.inl rfl) validFrame_witness_mono8 _ 0 rfl []

/-- 16-bit RGB, one pixel, samples 0x0102 0x0304 0x0506: the output is little-endian (defect #11) -/
theorem validFrame_witness_rgb16 :
    ValidFrame ⟨1, 1, 3, 16⟩ [0x0102, 0x0304, 0x0506] true
      [[.lit [1]], [.lit [2]], [.lit [3]], [.lit [4]], [.lit [5]], [.lit [6]]] where
  bps_pos := by decide
  spp_pos := by decide
  len := by decide
  nruns := by decide
  n15 := by decide
  valid := by decide
  exp := by decide
  size := by decide

example : decodeFrame ⟨1, 1, 3, 16⟩ [encodeFrameRuns true
      [[.lit [1]], [.lit [2]], [.lit [3]], [.lit [4]], [.lit [5]], [.lit [6]]]] 0 [9]
    = .ok [9, 2, 1, 4, 3, 6, 5] :=
  rle_frame_rt (Or.inr rfl) validFrame_witness_rgb16 _ 0 rfl [9]

end Dicom.Rle
