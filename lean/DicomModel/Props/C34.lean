import DicomModel.Lemmas.Fault
/-
C34 — I/O failures are always reported.

Every theorem quantifies over ALL behaviours of the underlying writer / reader: the sink (source)
answers each call through an arbitrary state machine `beh` (so every script `Ok n | Err | Ok 0`,
also adaptive ones), over all call sequences `ops` of the encoder, all data, all buffer contents.
"The failure was reached" is the ghost counter `fails` of the sink: it counts the `Err` / `Ok(0)`
answers actually handed to the stack.

Proved in full: direct writer stack (`write_dataset_with_ts`, `FileMetaTable::write`, `write_pdu`),
`BufWriter` stack with the final flush (`FileDicomObject::write_all` / `write_dataset`),
`PDataWriter` + `finish`, `read_pdu_from_wire`, `PDataReader`, reader programs for non-EOF errors.
False of the real code, negation proved on witnesses (and reproduced by the correspondence run):
the deflated writers finish the stream in `Drop` (`deflate_*_swallowed`), and a reader `Err` of
kind `UnexpectedEof` is taken for the end of the data set (`read_eofkind_swallowed`).
-/
namespace Dicom.Fault

/-! ## writing straight to the caller's writer -/

theorem res_cases (r : Res Unit) (hp : r ≠ .panic) (hk : r ≠ .ok ()) : r = .err := by
  cases r with
  | ok u => exact absurd rfl hk
  | err => rfl
  | panic => exact absurd rfl hp

/-- `InMemDicomObject::write_dataset_with_ts` (plain syntaxes), `FileMetaTable::write`, `write_pdu`:
if the sink failed at any call that was reached, the operation returns `Err`. -/
theorem direct_fault_reported (ops : List Op) (s : Sink β)
    (h : (pubDirect ops s).2.fails > s.fails) : (pubDirect ops s).1 = .err := by
  apply res_cases
  · exact runOps_no_panic _ (sink_noPanic β) ops s
  · intro hk
    have := runOps_ok _ (sink_honest β) ops s hk
    simp only [pubDirect, sinkLayer] at h this; omega

/-- … and `Ok` means the whole output, in order, was accepted by the sink. -/
theorem direct_ok_complete (ops : List Op) (s : Sink β) (h : (pubDirect ops s).1 = .ok ()) :
    (pubDirect ops s).2.content = s.content ++ opsData ops := by
  have := runOps_content _ (sink_faithful β) ops s h
  simpa [sinkLayer, pubDirect] using this

theorem direct_no_panic (ops : List Op) (s : Sink β) : (pubDirect ops s).1 ≠ .panic :=
  runOps_no_panic _ (sink_noPanic β) ops s

/-! ## `FileDicomObject::write_all` / `write_dataset`: `BufWriter`, final flush, drop -/

theorem file_no_panic (ops : List Op) (s : Sink β) : (pubFile ops s).1 ≠ .panic :=
  runOps_no_panic _ (buf_noPanic _ (sink_noPanic β)) ops _

theorem opsData_snoc_f (ops : List Op) : opsData (ops ++ [.f]) = opsData ops := by
  induction ops with
  | nil => rfl
  | cons op rest ih => cases op <;> simp [opsData, ih]

/-- what `pubFile` returns when it returns `Ok`: no failure anywhere (including the drop-flush,
which has nothing left to write), and the sink holds the complete output. -/
theorem file_ok (ops : List Op) (s : Sink β) (h : (pubFile (ops ++ [.f]) s).1 = .ok ()) :
    (pubFile (ops ++ [.f]) s).2.inner.fails = s.fails ∧
    (pubFile (ops ++ [.f]) s).2.inner.content = s.content ++ opsData ops := by
  let LB := bufLayer (sinkLayer β)
  have HB : Honest LB := buf_honest _ (sink_honest β)
  have FB : Faithful LB := buf_faithful _ (sink_honest β) (sink_faithful β)
  have h : (runOps LB (ops ++ [.f]) ⟨s, [], bufCap⟩).1 = .ok () := h
  have hok := runOps_ok LB HB (ops ++ [.f]) ⟨s, [], bufCap⟩ h
  have hpe := runOps_flushed LB FB ops ⟨s, [], bufCap⟩ h
  have hco := runOps_content LB FB (ops ++ [.f]) ⟨s, [], bufCap⟩ h
  have hdr := FB.drop_idle _ hpe
  rw [hpe] at hco
  have hd := opsData_snoc_f ops
  simp only [pubFile, runOwned]
  constructor
  · have := hdr.2; simp only [LB, bufLayer, sinkLayer] at this hok ⊢; rw [this, hok]
  · have := hdr.1; simp only [LB, bufLayer, sinkLayer, List.append_nil] at this hco ⊢
    rw [this, hco, hd]

/-- **fault_reported** for the file writer: if the sink failed at any call reached by the
operation — inside any `write_all`, the meta group flush, the final flush or the `BufWriter`'s
drop — the operation returns `Err`. -/
theorem file_fault_reported (ops : List Op) (s : Sink β)
    (h : (pubFile (ops ++ [.f]) s).2.inner.fails > s.fails) :
    (pubFile (ops ++ [.f]) s).1 = .err := by
  apply res_cases _ (file_no_panic _ s)
  intro hk
  have := (file_ok ops s hk).1; omega

/-- … never `Ok` with incomplete output. -/
theorem file_ok_complete (ops : List Op) (s : Sink β) (h : (pubFile (ops ++ [.f]) s).1 = .ok ()) :
    (pubFile (ops ++ [.f]) s).2.inner.content = s.content ++ opsData ops := (file_ok ops s h).2

/-- a sink that refuses every call -/
def alwaysErr : Sink Unit := ⟨fun _ _ _ => (.err false, ()), (), [], 0, 0⟩

/-- The final `flush` in `write_dataset_impl` is what makes the theorem true: without it the
buffered bytes are written by the `BufWriter`'s destructor, which swallows the error. -/
theorem file_needs_final_flush :
    (pubFile [.w [1, 2, 3]] alwaysErr).1 = .ok () ∧
    (pubFile [.w [1, 2, 3]] alwaysErr).2.inner.fails = 1 ∧
    (pubFile [.w [1, 2, 3]] alwaysErr).2.inner.content = [] := by
  simp [pubFile, runOwned, runOps, bufLayer, sinkLayer, BufW.writeAll, BufW.drop, BufW.flushBuf,
    drain, alwaysErr, Sink.write, Sink.content, bufCap]

/-! ## the deflated transfer syntax -/

/-- Partial (all that is true of the code): while the encoder's calls run — every `write_all` and
the final `flush` — no failure of the sink is hidden by the deflate adapter or the `BufWriter`
under it; an `Ok` of that phase means the sink failed at no call so far. -/
theorem deflate_calls_fault_reported_partial (C : Comp) (L : Layer σ) (H : Honest L)
    (ops : List Op) (d : Defl C σ) (h : (runOps (deflLayer C L) ops d).1 = .ok ()) :
    L.fails (runOps (deflLayer C L) ops d).2.inner = L.fails d.inner :=
  runOps_ok (deflLayer C L) (defl_honest L H) ops d h

/-- … and after a successful `flush` the adapter holds no compressed byte back. -/
theorem deflate_flush_delivers (C : Comp) (L : Layer σ) (H : Honest L) (d : Defl C σ)
    (h : (d.flush L).1 = .ok ()) : (d.flush L).2.pending = [] := (defl_flush_ok L H d h).2

theorem deflate_no_panic (C : Comp) (z0 : C.Z) (ops : List Op) (s : Sink β) :
    (pubDatasetDeflate C z0 ops s).1 ≠ .panic :=
  runOps_no_panic _ (defl_noPanic _ (sink_noPanic β)) ops _

/-- a compressor that buffers its input, emits two bytes on a sync flush and one final byte -/
def comp1 : Comp := ⟨Unit, fun _ _ => ((), []), fun _ => ((), [1, 2]), fun _ => ((), [3])⟩

/-- a sink that accepts `n` bytes and refuses every call after that -/
def errAfter (n : Nat) : Sink Unit :=
  ⟨fun _ pos r => match r with
      | .write len => if pos < n then (.ok (min len (n - pos)), ()) else (.err false, ())
      | .flush => (.ok 0, ()), (), [], 0, 0⟩

/-- **The full statement is false for `FileDicomObject::write_all` with a deflated syntax**: the
final deflate block is produced by `Drop for zio::Writer` (`let _ = self.finish()`), after the last
`flush` — a sink that fails there goes unnoticed: `Ok`, one failure, output one byte short. -/
theorem deflate_file_final_block_swallowed :
    let r := pubFileDeflate comp1 () [.w [9], .f] [.w [7, 7], .f] (errAfter 3)
    r.1 = .ok () ∧ r.2.inner.inner.fails = 1 ∧ r.2.inner.inner.content = [9, 1, 2] := by
  simp [pubFileDeflate, runOwned, runOps, deflLayer, bufLayer, sinkLayer, writeAllLoop, Defl.write,
    Defl.dump, Defl.drop, Defl.finish, Defl.flush, BufW.writeAll, BufW.write, BufW.flush,
    BufW.drop, BufW.flushBuf, drain, comp1, errAfter, Sink.write, Sink.flush, Sink.content, bufCap]

/-- **… and for `InMemDicomObject::write_dataset_with_ts`**, which never flushes the adapter: with
a small data set *nothing* reaches the sink before the destructor runs; every failure is lost. -/
theorem deflate_dataset_swallowed :
    let r := pubDatasetDeflate comp1 () [.w [7, 7]] alwaysErr
    r.1 = .ok () ∧ r.2.inner.fails = 1 ∧ r.2.inner.content = [] := by
  simp [pubDatasetDeflate, runOwned, runOps, deflLayer, sinkLayer, writeAllLoop, Defl.write,
    Defl.dump, Defl.drop, Defl.finish, drain, comp1, alwaysErr, Sink.write, Sink.content]

/-! ## `PDataWriter` -/

theorem pdata_finish_idle (L : Layer σ) (p : PDataW σ) (h : p.buffer = []) :
    p.finish L = (.ok (), p) := by
  unfold PDataW.finish; simp [h]

/-- what `Ok` from `write_all`… + `finish()` means: the stream failed at no call, and the buffer is
empty — the last PDU went out (the `Drop` that follows has nothing to send). -/
theorem pdata_ok (chunks : List Bytes) (pcid maxPdu : Nat) (s : Sink β)
    (hk : (pubPData chunks pcid maxPdu s).1 = .ok ()) :
    (pubPData chunks pcid maxPdu s).2.inner.fails = s.fails ∧
    (pubPData chunks pcid maxPdu s).2.buffer = [] := by
  have HL : Honest (pdataLayer (sinkLayer β)) := pdata_honest _ (sink_honest β)
  have hr := runOps_ok _ HL (chunks.map .w) (PDataW.new s pcid maxPdu)
  unfold pubPData at hk ⊢
  simp only at hk ⊢
  split
  · rename_i heq
    rw [heq] at hk; simp only at hk
    have hf := pdata_finish_ok (sinkLayer β) (sink_honest β) _ hk
    have h1 := hr heq
    have hdrop : ∀ q : PDataW (Sink β), q.buffer = [] → (pdataLayer (sinkLayer β)).drop q = q := by
      intro q hq
      show (q.finish (sinkLayer β)).2 = q
      rw [pdata_finish_idle _ _ hq]
    rw [hdrop _ hf.2]
    have e1 : (pdataLayer (sinkLayer β)).fails = fun p => p.inner.fails := rfl
    have e2 : (sinkLayer β).fails = Sink.fails := rfl
    rw [e1] at h1; rw [e2] at hf
    exact ⟨by rw [hf.1]; exact h1, hf.2⟩
  · rename_i r hne
    simp only at hk
    exact absurd hk hne

theorem pdata_no_panic (chunks : List Bytes) (pcid maxPdu : Nat) (s : Sink β) (hm : 6 ≤ maxPdu) :
    (pubPData chunks pcid maxPdu s).1 ≠ .panic := by
  have N := sink_noPanic β
  -- invariant of the chunk loop
  have hloop : ∀ (cs : List Bytes) (p : PDataW (Sink β)), PDataW.Wf p →
      (runOps (pdataLayer (sinkLayer β)) (cs.map .w) p).1 ≠ .panic ∧
      PDataW.Wf (runOps (pdataLayer (sinkLayer β)) (cs.map .w) p).2 := by
    intro cs
    induction cs with
    | nil => intro p hp; exact ⟨nofun, hp⟩
    | cons c rest ih =>
      intro p hp
      have hd := drain_inv (PDataW.write (sinkLayer β)) PDataW.Wf
        (fun q b hq => ⟨(pdata_write_wf _ N q b hq).1, (pdata_write_wf _ N q b hq).2.1⟩) p c hp
      simp only [List.map_cons, runOps]
      split
      · rename_i p' heq
        have : (drain (PDataW.write (sinkLayer β)) p c).2.1 = p' := by
          have := congrArg Prod.snd heq; simpa [pdataLayer, writeAllLoop] using this
        rw [this] at hd
        exact ih p' hd.2
      · rename_i r p' hne heq
        have h1 : (drain (PDataW.write (sinkLayer β)) p c).1 = r := by
          have := congrArg Prod.fst heq; simpa [pdataLayer, writeAllLoop] using this
        have h2 : (drain (PDataW.write (sinkLayer β)) p c).2.1 = p' := by
          have := congrArg Prod.snd heq; simpa [pdataLayer, writeAllLoop] using this
        rw [h1, h2] at hd
        exact hd
  have hnew : PDataW.Wf (PDataW.new s pcid maxPdu) := by
    simp only [PDataW.Wf, PDataW.new, pdvHeader, List.length_cons, List.length_nil]; omega
  have hl := hloop chunks _ hnew
  unfold pubPData
  simp only
  split
  · exact pdata_finish_no_panic _ N _ hl.2
  · exact hl.1

/-- **fault_reported** for `PDataWriter`: if the stream failed at any call reached by the
`write_all`s, `finish` or the destructor, the user sees `Err` (for any negotiated maximum PDU
length ≥ 6; the association layer guarantees ≥ 4096). -/
theorem pdata_fault_reported (chunks : List Bytes) (pcid maxPdu : Nat) (s : Sink β)
    (hm : 6 ≤ maxPdu) (h : (pubPData chunks pcid maxPdu s).2.inner.fails > s.fails) :
    (pubPData chunks pcid maxPdu s).1 = .err := by
  apply res_cases _ (pdata_no_panic chunks pcid maxPdu s hm)
  intro hk
  have := (pdata_ok chunks pcid maxPdu s hk).1; omega

/-- the hypothesis on the maximum PDU length is needed: with a smaller one the slice
`&buf[..total_len - self.buffer.len()]` underflows -/
theorem pdata_small_max_panics :
    (pubPData [[1, 2, 3]] 1 2 alwaysErr).1 = .panic := by
  simp [pubPData, runOps, pdataLayer, writeAllLoop, drain, PDataW.write, PDataW.new]

/-! ## reading -/

/-- **`read_pdu_from_wire`**: for every framing function, every source behaviour and every content
of the read buffer — if any read of the source returned `Err` (any kind), the result is `Err`.
(Termination of the loop is part of the definition: every round consumes ≥ 1 byte of the stream.) -/
theorem wire_fault_reported (frame : Bytes → Frame) (s : Src β) (rb : Bytes)
    (h : s.pos ≤ s.data.length) (hf : (wireLoop frame s rb h).2.fails > s.fails) :
    ∃ e, (wireLoop frame s rb h).1 = .err e := by
  cases hr : (wireLoop frame s rb h).1 with
  | ok x => have := wireLoop_ok frame s rb h x hr; omega
  | err e => exact ⟨e, rfl⟩

/-- **`PDataReader`** read to the end: the same, over any number of PDUs. -/
theorem pdata_read_fault_reported (frame : Bytes → Frame) :
    ∀ (fuel : Nat) (s : Src β) (rb : Bytes) (h : s.pos ≤ s.data.length) (x : Bytes),
      (pdataReadAll frame fuel s rb h).1 = .ok x → (pdataReadAll frame fuel s rb h).2.fails = s.fails := by
  intro fuel
  induction fuel with
  | zero => intro s rb h x hk; simp [pdataReadAll] at hk
  | succ n ih =>
    intro s rb h x
    unfold pdataReadAll
    split
    · intro hk; cases hk
    · rename_i pdu rb' s' heq
      have hw := wireLoop_ok frame s rb h (pdu, rb') (by rw [heq])
      rw [heq] at hw
      split
      · intro hk; cases hk
      · split
        · intro hk; cases hk
        · rename_i vs _
          split
          · intro _; exact hw
          · split
            · rename_i h'
              have := ih s' rb' h'
              split
              · rename_i more s'' heq2
                intro _
                have := this more (by rw [heq2])
                rw [heq2] at this; simp only at this ⊢; rw [this]; exact hw
              · intro hk; cases hk
            · intro hk; cases hk

/-- **file / data set readers** (`from_reader`, `read_dataset_with_ts`, `FileMetaTable::from_reader`)
as reader programs: whatever the program, if a read failed with an error whose kind is not
`UnexpectedEof`, the operation does not return `Ok`. -/
theorem read_io_fault_reported (p : Prog) (s : Src β)
    (h : (pubRead p s).2.inner.ioFails > s.ioFails) : (pubRead p s).1 = false := by
  cases hr : (pubRead p s).1 with
  | false => rfl
  | true => have := Prog.run_ok p ⟨s, []⟩ hr; simp only [pubRead] at h this; omega

theorem read_file_io_fault_reported (p : Prog) (s : Src β)
    (h : (pubReadFile p s).2.inner.ioFails > s.ioFails) : (pubReadFile p s).1 = false := by
  cases hr : (pubReadFile p s).1 with
  | false => rfl
  | true =>
    exfalso
    unfold pubReadFile at h hr
    have hd : (detectPreamble (⟨s, []⟩ : BufR β)).1 ≠ .err false →
        (detectPreamble (⟨s, []⟩ : BufR β)).2.inner.ioFails = s.ioFails := by
      unfold detectPreamble
      have hf := BufR.fillBuf_spec (⟨s, []⟩ : BufR β)
      split
      · rename_i e b1 heq; rw [heq] at hf; exact hf
      · rename_i b1 heq; rw [heq] at hf
        split
        · intro _; exact hf nofun
        · split
          · have hx := BufR.readExact_spec b1 128
            split
            · rename_i b2 heq2; rw [heq2] at hx; intro _; rw [hx nofun]; exact hf nofun
            · rename_i e b2 heq2; rw [heq2] at hx; intro hne
              cases e with
              | true => rw [hx nofun]; exact hf nofun
              | false => exact absurd rfl hne
          · intro _; exact hf nofun
    rcases hdp : detectPreamble (⟨s, []⟩ : BufR β) with ⟨r, b⟩
    rw [hdp] at h hr hd
    cases r with
    | ok u =>
      simp only at h hr hd
      have := Prog.run_ok (magicThen p) b hr
      have h2 := hd nofun
      omega
    | err e => simp only at hr; cases hr

/-- a source whose every read fails with an `io::Error` of kind `UnexpectedEof` -/
def alwaysEofErr (data : Bytes) : Src Unit := ⟨fun _ _ _ => (.err true, ()), (), data, 0, 0, 0⟩

/-- a data set reader: element header of 8 bytes or a graceful end on `UnexpectedEof`
(`parser/src/dataset/read.rs`, the `ReadHeaderTag` arm) -/
def headerOrEnd : Prog := .need 8 (fun _ => .done true) (.done true)

/-- **The full statement is false of the data set readers for errors of kind `UnexpectedEof`**:
the reader cannot tell such an `Err` from the end of the stream and reports success. -/
theorem read_eofkind_swallowed :
    (pubRead headerOrEnd (alwaysEofErr [1, 2, 3])).1 = true ∧
    (pubRead headerOrEnd (alwaysEofErr [1, 2, 3])).2.inner.eofFails = 1 := by
  simp [pubRead, headerOrEnd, Prog.run, BufR.readExact, Fault.readExact, BufR.read, BufR.fillBuf,
    alwaysEofErr, Src.read, rdCap]

/-- non-vacuity: the hypotheses of the positive theorems are met by concrete failing runs -/
example : (pubDirect [.w [1, 2]] alwaysErr).2.fails > alwaysErr.fails ∧
    (pubDirect [.w [1, 2]] alwaysErr).1 = .err := by
  simp [pubDirect, runOps, sinkLayer, writeAllLoop, drain, alwaysErr, Sink.write]

example : (pubFile ([.w [1, 2]] ++ [.f]) alwaysErr).2.inner.fails > alwaysErr.fails ∧
    (pubFile ([.w [1, 2]] ++ [.f]) alwaysErr).1 = .err := by
  simp [pubFile, runOwned, runOps, bufLayer, sinkLayer, BufW.writeAll, BufW.flush, BufW.drop,
    BufW.flushBuf, drain, alwaysErr, Sink.write, bufCap]

end Dicom.Fault
