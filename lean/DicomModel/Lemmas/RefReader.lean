import DicomModel.Model.Build
import DicomModel.Lemmas.RefWriter2
/-
C02, reader side, part 1: headers and values. The stateful decoder of dicom-rs (`Dec`) on the bytes
the reference encoder produces for a canonical element.
-/
set_option linter.unusedSimpArgs false
set_option linter.unusedVariables false
namespace Dicom.Ref

/-! ### headers -/

theorem implicitVr_eq (dict : Tag → Option VR) (t : Tag) : implicitVr dict t = resolveImplicitVr dict t := by
  unfold implicitVr resolveImplicitVr
  by_cases h1 : t = Tag.pixelData
  · subst h1
    simp [Tag.pixelData]
  · have h1' : ¬ t = ⟨0x7FE0, 0x0010⟩ := h1
    by_cases h2 : t.group / 256 = 0x60 ∧ t.elem = 0x3000
    · simp [h1, h2]
    · simp only [h1, h1', h2, if_false, false_or]
      cases dict t <;> rfl

/-- the VR a reader reports for an element header -/
def readVr (ts : Syntax) (dict : Tag → Option VR) (t : Tag) (vr : VR) : VR :=
  if ts.explicit then vr else implicitVr dict t

/-- decoding a reference header followed by anything -/
theorem decodeHeader_ref (ts : Syntax) (dict : Tag → Option VR) (t : Tag) (vr : VR) (len : Nat)
    (ht : tagOk t = true) (hl : len < 4294967296)
    (hs : ts.explicit = true → short16 vr = true → len < 65536) (rest : Bytes) :
    decodeHeader ts dict (header ts t vr len ++ rest) =
      some (⟨t, readVr ts dict t vr, len⟩, (header ts t vr len).length, rest) := by
  obtain ⟨hv, hg⟩ := tagOk_valid ht
  have henc := encodeHeader_ref ts t vr len hs
  cases hts : ts.explicit
  · have : ts = .implicitLE := by cases ts <;> simp_all [Syntax.explicit]
    subst this
    have := (C03.header_rt_implicit dict ⟨t, vr, len⟩ hv hl _ _ henc rest).1
    simpa [readVr, Syntax.explicit, implicitVr_eq] using this
  · have := C03.header_rt_explicit ts hts dict ⟨t, vr, len⟩ hv hg hl _ _ henc rest
    simpa [readVr, hts] using this

/-- a tag of the item group met by the element header decoder: tag and 32-bit length (8 bytes);
the VR is UN in explicit VR and the dictionary's in Implicit VR -/
theorem decodeHeader_delim (ts : Syntax) (dict : Tag → Option VR) (e : Nat) (he : e < 65536) (rest : Bytes) :
    ∃ vr, decodeHeader ts dict (tagBytes ts.bigEndian ⟨0xFFFE, e⟩ ++ enc32 ts.bigEndian 0 ++ rest) =
      some (⟨⟨0xFFFE, e⟩, vr, 0⟩, 8, rest) ∧ (ts.explicit = true → vr = .UN) ∧
      (ts.explicit = false → vr = implicitVr dict ⟨0xFFFE, e⟩) := by
  cases hts : ts.explicit
  · have : ts = .implicitLE := by cases ts <;> simp_all [Syntax.explicit]
    subst this
    refine ⟨implicitVr dict ⟨0xFFFE, e⟩, ?_, by simp, by simp⟩
    have hv : (Tag.mk 0xFFFE e).Valid := ⟨(by decide : 0xFFFE < 65536), he⟩
    have := decodeTag_encodeTag false ⟨0xFFFE, e⟩ hv (le32 0 ++ rest)
    simp [decodeHeader, Syntax.bigEndian, tagBytes_eq, enc32, List.append_assoc, this,
      rdLe32_le32 0 (by decide), implicitVr_eq]
  · refine ⟨.UN, ?_, by simp, by simp⟩
    have := C03.explicit_group_fffe ts hts dict e 0 he (by decide) rest
    simpa [tagBytes_eq] using this

/-! ### values -/

theorem splitBackslash_ne_nil : ∀ bs : Bytes, splitBackslash bs ≠ []
  | [] => by simp [splitBackslash]
  | b :: r => by
    unfold splitBackslash
    split
    · simp
    · split <;> simp

theorem split_comp : ∀ x : Bytes, component x = true → splitBackslash x = [x]
  | [], _ => rfl
  | b :: r, h => by
    simp only [component, List.all_cons, Bool.and_eq_true, decide_eq_true_eq, bne_iff_ne, ne_eq] at h
    have ih := split_comp r (by simpa [component] using h.2)
    simp [splitBackslash, h.1.2, ih]

theorem split_comp_append : ∀ (x r : Bytes), component x = true →
    splitBackslash (x ++ 0x5C :: r) = x :: splitBackslash r
  | [], r, _ => by simp [splitBackslash]
  | b :: x, r, h => by
    simp only [component, List.all_cons, Bool.and_eq_true, decide_eq_true_eq, bne_iff_ne, ne_eq] at h
    have ih := split_comp_append x r (by simpa [component] using h.2)
    simp [splitBackslash, h.1.2, ih]

theorem split_join : ∀ l : List Bytes, l ≠ [] → l.all component = true →
    splitBackslash (joinBackslash l) = l
  | [], h, _ => absurd rfl h
  | [x], _, h => by
    simp only [List.all_cons, List.all_nil, Bool.and_true] at h
    simpa [joinBackslash] using split_comp x h
  | x :: y :: r, _, h => by
    simp only [List.all_cons, Bool.and_eq_true] at h
    have ih := split_join (y :: r) (by simp) (by simpa using h.2)
    simp only [joinBackslash]
    rw [split_comp_append x _ h.1, ih]

theorem textDecode_plain (s : Bytes) (h : plainText s = true) : textDecode s = some s := by
  unfold textDecode; unfold plainText at h; simp [h]

theorem textDecodeAll_id : ∀ l : List Bytes, l.all component = true → textDecodeAll l = some l
  | [], _ => rfl
  | s :: r, h => by
    simp only [List.all_cons, Bool.and_eq_true] at h
    simp [textDecodeAll, textDecode_plain s (plain_of_component s h.1), textDecodeAll_id r h.2]

/-- reading back `n` fixed-width numbers -/
theorem rdMany_flatMap {α : Type} (rd : Bytes → Option (Nat × Bytes)) (enc : α → Bytes) (val : α → Nat)
    (P : α → Prop) (h : ∀ a r, P a → rd (enc a ++ r) = some (val a, r)) (rest : Bytes) :
    ∀ l : List α, (∀ a ∈ l, P a) → rdMany rd l.length (l.flatMap enc ++ rest) = some (l.map val, rest)
  | [], _ => rfl
  | a :: r, hp => by
    have ih := rdMany_flatMap rd enc val P h rest r (fun b hb => hp b (by simp [hb]))
    simp [rdMany, List.flatMap_cons, List.append_assoc, h a _ (hp a (by simp)), ih]

theorem rdTags_flatMap (be : Bool) (rest : Bytes) :
    ∀ l : List Tag, (∀ t ∈ l, t.Valid) → rdTags be l.length (l.flatMap (tagBytes be) ++ rest) = some (l, rest)
  | [], _ => rfl
  | a :: r, hp => by
    have ih := rdTags_flatMap be rest r (fun b hb => hp b (by simp [hb]))
    have := decodeTag_encodeTag be a (hp a (by simp)) (r.flatMap (tagBytes be) ++ rest)
    simp only [List.length_cons, rdTags, List.flatMap_cons, List.append_assoc]
    rw [tagBytes_eq be a, this]
    simp only [ih]

theorem fromTwos16 (v : Int) (h1 : -32768 ≤ v) (h2 : v < 32768) : fromTwos 16 (unsigned 65536 v) = v := by
  unfold fromTwos unsigned
  have e1 : (2 : Nat) ^ (16 - 1) = 32768 := by decide
  have e2 : ((2 ^ 16 : Nat) : Int) = 65536 := by decide
  rw [e1, e2]
  split <;> split <;> omega
theorem fromTwos32 (v : Int) (h1 : -2147483648 ≤ v) (h2 : v < 2147483648) :
    fromTwos 32 (unsigned 4294967296 v) = v := by
  unfold fromTwos unsigned
  have e1 : (2 : Nat) ^ (32 - 1) = 2147483648 := by decide
  have e2 : ((2 ^ 32 : Nat) : Int) = 4294967296 := by decide
  rw [e1, e2]
  split <;> split <;> omega
theorem fromTwos64 (v : Int) (h1 : -9223372036854775808 ≤ v) (h2 : v < 9223372036854775808) :
    fromTwos 64 (unsigned 18446744073709551616 v) = v := by
  unfold fromTwos unsigned
  have e1 : (2 : Nat) ^ (64 - 1) = 9223372036854775808 := by decide
  have e2 : ((2 ^ 64 : Nat) : Int) = 18446744073709551616 := by decide
  rw [e1, e2]
  split <;> split <;> omega

theorem unsigned_lt16 (v : Int) (h1 : -32768 ≤ v) (h2 : v < 32768) : unsigned 65536 v < 65536 := by
  unfold unsigned; split <;> omega
theorem unsigned_lt32 (v : Int) (h1 : -2147483648 ≤ v) (h2 : v < 2147483648) :
    unsigned 4294967296 v < 4294967296 := by
  unfold unsigned; split <;> omega
theorem unsigned_lt64 (v : Int) (h1 : -9223372036854775808 ≤ v) (h2 : v < 9223372036854775808) :
    unsigned 18446744073709551616 v < 18446744073709551616 := by
  unfold unsigned; split <;> omega

/-! ### `read_value_preserved` on the value field of a canonical element -/

theorem take_append (ts : Syntax) (dict : Tag → Option VR) (a rest : Bytes) (pos n : Nat) (hn : n = a.length) :
    (Dec.mk ts dict (a ++ rest) pos).take n = .ok (a, ⟨ts, dict, rest, pos⟩) := by
  subst hn
  simp [Dec.take, takeN_append]

theorem takeN_zero (r : Bytes) : takeN 0 r = some ([], r) := by simp [takeN]

theorem readNums_ok {α : Type} (ts : Syntax) (dict : Tag → Option VR) (pos : Nat) (rest : Bytes) (l : List α)
    (enc : α → Bytes) (val : α → Nat) (P : α → Prop) (rd : Bytes → Option (Nat × Bytes)) (k shift : Nat)
    (hk : 2 ^ shift = k) (hk0 : 0 < k)
    (hrd : ∀ a r, P a → rd (enc a ++ r) = some (val a, r)) (hp : ∀ a ∈ l, P a)
    (mk : List Nat → PValue) (len : Nat) (hlen : len = l.length * k) :
    (Dec.mk ts dict (l.flatMap enc ++ rest) pos).readNums len shift rd mk =
      .ok (mk (l.map val), ⟨ts, dict, rest, pos + len⟩) := by
  unfold Dec.readNums
  have h1 : len / 2 ^ shift = l.length := by rw [hk, hlen]; exact Nat.mul_div_cancel _ hk0
  have h2 : len % 2 ^ shift = 0 := by rw [hk, hlen]; exact Nat.mul_mod_left _ _
  simp only [h1, h2, rdMany_flatMap rd enc val P hrd rest l hp, takeN_zero]

theorem len_ne_undef {len : Nat} (h : len < 4294967295) : len ≠ undefinedLen := by
  simp only [undefinedLen]; omega

theorem read_strs (ts : Syntax) (dict : Tag → Option VR) (t : Tag) (vr : VR) (len : Nat) (l : List Bytes)
    (rest : Bytes) (pos : Nat) (hvr : valueFits vr (.strs l) = true) (hlen : len = (joinBackslash l).length)
    (hz : len ≠ 0) (hlt : len < 4294967295) :
    (Dec.mk ts dict (joinBackslash l ++ rest) pos).readValuePreserved ⟨t, vr, len⟩ =
      .ok (.strs l, ⟨ts, dict, rest, pos + len⟩) := by
  have hc := fits_strs hvr
  have hne : l ≠ [] := by
    intro h; subst h; simp [joinBackslash] at hlen; exact hz hlen
  have hund := len_ne_undef hlt
  have htake := take_append ts dict (joinBackslash l) rest pos len hlen
  cases vr <;> simp [valueFits] at hvr <;>
    simp [Dec.readValuePreserved, hz, hund, htake, split_join l hne hc, textDecodeAll_id l hc]

theorem read_str (ts : Syntax) (dict : Tag → Option VR) (t : Tag) (vr : VR) (len : Nat) (s : Bytes)
    (rest : Bytes) (pos : Nat) (hvr : valueFits vr (.str s) = true) (hlen : len = s.length)
    (hz : len ≠ 0) (hlt : len < 4294967295) :
    (Dec.mk ts dict (s ++ rest) pos).readValuePreserved ⟨t, vr, len⟩ =
      .ok (.str s, ⟨ts, dict, rest, pos + len⟩) := by
  have hc := fits_str hvr
  have hund := len_ne_undef hlt
  have htake := take_append ts dict s rest pos len hlen
  cases vr <;> simp [valueFits] at hvr <;>
    simp [Dec.readValuePreserved, hz, hund, htake, textDecode_plain s hc]

theorem read_u8 (ts : Syntax) (dict : Tag → Option VR) (t : Tag) (vr : VR) (len : Nat) (l : List Nat)
    (rest : Bytes) (pos : Nat) (hvr : valueFits vr (.u8 l) = true) (hlen : len = l.length)
    (hz : len ≠ 0) (hlt : len < 4294967295) :
    (Dec.mk ts dict (l ++ rest) pos).readValuePreserved ⟨t, vr, len⟩ =
      .ok (.u8 l, ⟨ts, dict, rest, pos + len⟩) := by
  have hund := len_ne_undef hlt
  have htake := take_append ts dict l rest pos len hlen
  cases vr <;> simp [valueFits] at hvr <;>
    simp [Dec.readValuePreserved, hz, hund, htake]

theorem read_tags (ts : Syntax) (dict : Tag → Option VR) (t : Tag) (vr : VR) (len : Nat) (l : List Tag)
    (rest : Bytes) (pos : Nat) (hvr : valueFits vr (.tags l) = true) (hlen : len = l.length * 4)
    (hz : len ≠ 0) (hlt : len < 4294967295) :
    (Dec.mk ts dict (l.flatMap (tagBytes ts.bigEndian) ++ rest) pos).readValuePreserved ⟨t, vr, len⟩ =
      .ok (.tags l, ⟨ts, dict, rest, pos + len⟩) := by
  have hund := len_ne_undef hlt
  have h1 : len / 4 = l.length := by rw [hlen]; exact Nat.mul_div_cancel _ (by decide)
  have h2 : len % 4 = 0 := by rw [hlen]; exact Nat.mul_mod_left _ _
  cases vr <;> simp [valueFits] at hvr
  have hv : ∀ t ∈ l, t.Valid := fun t ht => ⟨(hvr t ht).1, (hvr t ht).2⟩
  simp [Dec.readValuePreserved, hz, hund, h1, h2, rdTags_flatMap ts.bigEndian rest l hv, takeN_zero]

end Dicom.Ref
