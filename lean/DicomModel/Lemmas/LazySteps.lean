import DicomModel.Lemmas.LazyEager
import DicomModel.Lemmas.DecConsume
/-
Annotated steps of the lazy reader: what `advance` yields and where the decoder stands once the announced
value has been consumed — by `into_owned`, by `skip`, by `read_to_vec` or by `read_value_preserved` alike.
-/
set_option linter.unusedSimpArgs false
set_option linter.unusedVariables false
namespace Dicom.LS
open Dicom.LE Dicom.DC

/-- tokens that carry no value -/
def structural : Token → Bool
  | .elementHeader _ | .sequenceStart _ _ | .pixelSequenceStart | .sequenceEnd | .itemStart _ | .itemEnd => true
  | _ => false

/-- with nothing peeked, a plain token out of `advance` is a structural one -/
theorem advance_tok_structural {l l' : LState} {t : Token} (hp : l.peeked = none)
    (h : l.advance = (some (.ok (.tok t)), l')) : structural t = true := by
  unfold LState.advance at h
  split at h
  · cases h
  · rw [hp] at h
    simp only at h
    have body : ∀ x : LState, x.advanceBody = (some (.ok (.tok t)), l') → structural t = true := by
      intro x hb
      unfold LState.advanceBody at hb
      repeat' (first | split at hb | dsimp only at hb)
      all_goals first
        | (injection hb with h1 h2; injection h1 with h1; injection h1 with h1; injection h1 with h1; subst h1; rfl)
        | (injection hb with h1 h2; injection h1 with h1; injection h1 with h1; cases h1; done)
        | (injection hb with h1 h2; injection h1 with h1; cases h1; done)
        | (injection hb with h1 h2; cases h1; done)
    split at h
    · split at h
      · injection h with h1 h2; injection h1 with h1; cases h1
      · rename_i tok sx hu
        injection h with h1 h2; injection h1 with h1; injection h1 with h1; injection h1 with h1
        subst h1
        have : ∀ (s : LState) (tk : Token) (s' : LState), s.updateSeqDelimiters = (.ok (some tk), s') →
            tk = .itemEnd ∨ tk = .sequenceEnd := by
          intro s tk s' hu
          unfold LState.updateSeqDelimiters at hu
          repeat' (first | split at hu | dsimp only at hu)
          all_goals first
            | (injection hu with h1 h2; injection h1 with h1; injection h1 with h1; subst h1; simp; done)
            | (injection hu with h1 h2; cases h1; done)
            | (injection hu with h1 h2; injection h1 with h1; cases h1; done)
        rcases this _ _ _ hu with rfl | rfl <;> rfl
      · rename_i sx hu
        exact body sx h
    · exact body l h

/-- what consuming the announced value amounts to -/
def Consumes (lt : LTok) (d0 : Dec) (t : Token) (d : Dec) : Prop :=
  match lt with
  | .tok t0 => t = t0 ∧ d = d0
  | .lazyValue h => ∃ v, t = .primitiveValue v ∧ d0.readValuePreserved h = .ok (v, d) ∧ d = after d0 h.len
  | .lazyItemValue len => t = .itemValue (d0.rest.take len) ∧ d = after d0 len

/-- one annotated step: from `l` (nothing peeked) `advance` announces a token whose materialised form is `t`;
after the value has been consumed the reader is `l'` (nothing peeked, not fused) -/
def LStep (l : LState) (t : Token) (l' : LState) : Prop :=
  l.peeked = none ∧ l'.peeked = none ∧ l'.hardBreak = false ∧ l'.dec.ts = l.dec.ts ∧
  ∃ lt l0, l.advance = (some (.ok lt), l0) ∧ Consumes lt l0.dec t l'.dec ∧ l' = { l0 with dec := l'.dec }

theorem lstep_of_nextOwned {l L : LState} {t : Token} (hp : l.peeked = none) (hq : L.peeked = none)
    (hb : L.hardBreak = false) (hts : L.dec.ts = l.dec.ts) (h : l.nextOwned = (some (.ok t), L)) : LStep l t L := by
  refine ⟨hp, hq, hb, hts, ?_⟩
  unfold LState.nextOwned at h
  rcases ha : l.advance with ⟨r, l0⟩
  rw [ha] at h
  cases r with
  | none => cases h
  | some x =>
    cases x with
    | error e => simp at h
    | ok lt =>
      simp only at h
      refine ⟨lt, l0, rfl, ?_⟩
      cases lt with
      | tok t0 =>
        simp only [LTok.intoOwned] at h
        injection h with h1 h2; injection h1 with h1; injection h1 with h1
        subst h1; subst h2
        exact ⟨⟨rfl, rfl⟩, rfl⟩
      | lazyValue hh =>
        simp only [LTok.intoOwned] at h
        rcases hv : l0.dec.readValuePreserved hh with e | ⟨v, d⟩
        · simp [hv] at h
        · simp only [hv] at h
          injection h with h1 h2; injection h1 with h1; injection h1 with h1
          subst h1; subst h2
          exact ⟨⟨v, rfl, hv, readValuePreserved_after _ _ _ _ hv⟩, rfl⟩
      | lazyItemValue len =>
        simp only [LTok.intoOwned, Dec.readToVec] at h
        injection h with h1 h2; injection h1 with h1; injection h1 with h1
        subst h1; subst h2
        exact ⟨⟨rfl, rfl⟩, rfl⟩

/-- a structural token: `advance` returns it and nothing else happens -/
theorem LStep.tok_inv {l l' : LState} {t : Token} (h : LStep l t l') (hs : structural t = true) :
    l.advance = (some (.ok (.tok t)), l') := by
  obtain ⟨_, _, _, _, lt, l0, ha, hc, hl⟩ := h
  cases lt with
  | tok t0 =>
    obtain ⟨h1, h2⟩ := hc
    subst h1
    rw [ha, hl, h2]
  | lazyValue hh => obtain ⟨v, h1, _⟩ := hc; subst h1; cases hs
  | lazyItemValue len => obtain ⟨h1, _⟩ := hc; subst h1; cases hs

/-- an element value: `advance` announces `LazyValue`, reading it gives `v` and leaves `l'` -/
theorem LStep.value_inv {l l' : LState} {v : PValue} (h : LStep l (.primitiveValue v) l') :
    ∃ hh l0, l.advance = (some (.ok (.lazyValue hh)), l0) ∧ l0.dec.readValuePreserved hh = .ok (v, l'.dec) ∧
      l'.dec = after l0.dec hh.len ∧ l' = { l0 with dec := l'.dec } := by
  obtain ⟨hp, _, _, _, lt, l0, ha, hc, hl⟩ := h
  cases lt with
  | tok t0 =>
    obtain ⟨h1, _⟩ := hc
    subst h1
    have := advance_tok_structural hp ha
    cases this
  | lazyValue hh =>
    obtain ⟨v', h1, h2, h3⟩ := hc
    injection h1 with h1; subst h1
    exact ⟨hh, l0, ha, h2, h3, hl⟩
  | lazyItemValue len => obtain ⟨h1, _⟩ := hc; cases h1

/-- an item value: `advance` announces `LazyItemValue len`, the value is the next `len` bytes -/
theorem LStep.item_inv {l l' : LState} {b : Bytes} (h : LStep l (.itemValue b) l') :
    ∃ len l0, l.advance = (some (.ok (.lazyItemValue len)), l0) ∧ b = l0.dec.rest.take len ∧
      l'.dec = after l0.dec len ∧ l' = { l0 with dec := l'.dec } := by
  obtain ⟨hp, _, _, _, lt, l0, ha, hc, hl⟩ := h
  cases lt with
  | tok t0 =>
    obtain ⟨h1, _⟩ := hc
    subst h1
    have := advance_tok_structural hp ha
    cases this
  | lazyValue hh => obtain ⟨v', h1, _⟩ := hc; cases h1
  | lazyItemValue len =>
    obtain ⟨h1, h2⟩ := hc
    injection h1 with h1
    exact ⟨len, l0, ha, h1, h2, hl⟩

/-- successive annotated steps -/
inductive LRun : LState → List Token → LState → Prop
  | nil (l : LState) : LRun l [] l
  | cons {l l1 l2 : LState} {t : Token} {ts : List Token} : LStep l t l1 → LRun l1 ts l2 → LRun l (t :: ts) l2

theorem LStep.ts {l l' : LState} {t : Token} (h : LStep l t l') : l'.dec.ts = l.dec.ts := h.2.2.2.1

theorem LRun.split {l l' : LState} : ∀ (a : List Token) {b : List Token}, LRun l (a ++ b) l' →
    ∃ m, LRun l a m ∧ LRun m b l'
  | [], _, h => ⟨l, .nil l, h⟩
  | t :: a, b, h => by
    cases h with
    | cons st r =>
      obtain ⟨m, r1, r2⟩ := LRun.split a r
      exact ⟨m, .cons st r1, r2⟩

theorem LRun.head {l l' : LState} {t : Token} {ts : List Token} (h : LRun l (t :: ts) l') :
    ∃ m, LStep l t m ∧ LRun m ts l' := by
  cases h with
  | cons st r => exact ⟨_, st, r⟩

end Dicom.LS
