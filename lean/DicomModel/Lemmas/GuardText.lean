import DicomModel.Model.GuardText
import DicomModel.Lemmas.TagText
import DicomModel.Model.Header
/-
The checked slices / indexes / unwraps of `Model/GuardText.lean` are never out of range:
no-panic lemmas for the date, time, date-time and range text parsers (used by `Props/C05.lean`).
-/
namespace Dicom.Guard
open Dicom.Digits Dicom.Partial

/-- not the panic outcome -/
def NPO {α : Type} (x : PO α) : Prop := x ≠ .panic

theorem NPO_ok {α : Type} (a : α) : NPO (PO.ok a) := nofun
theorem NPO_err {α : Type} : NPO (PO.err : PO α) := nofun
theorem NPO_ofOption {α : Type} (o : Option α) : NPO (PO.ofOption o) := by cases o <;> exact nofun

theorem NPO_bind {α β : Type} {x : PO α} {f : α → PO β} (hx : NPO x)
    (hf : ∀ a, x = .ok a → NPO (f a)) : NPO (x.bind f) := by
  cases x with
  | ok a => exact hf a rfl
  | err => exact NPO_err
  | panic => exact absurd rfl hx

theorem slice_eq {bs : Bytes} {a b : Nat} (h1 : a ≤ b) (h2 : b ≤ bs.length) :
    slice bs a b = .ok ((bs.drop a).take (b - a)) := by simp [slice, h1, h2]
theorem slice_np {bs : Bytes} {a b : Nat} (h1 : a ≤ b) (h2 : b ≤ bs.length) : NPO (slice bs a b) := by
  rw [slice_eq h1 h2]; exact NPO_ok _
theorem sliceFrom_eq {bs : Bytes} {a : Nat} (h : a ≤ bs.length) : sliceFrom bs a = .ok (bs.drop a) := by
  simp [sliceFrom, h]
theorem sliceFrom_np {bs : Bytes} {a : Nat} (h : a ≤ bs.length) : NPO (sliceFrom bs a) := by
  rw [sliceFrom_eq h]; exact NPO_ok _
theorem sliceFrom_val {bs : Bytes} {a : Nat} {r : Bytes} (h : sliceFrom bs a = .ok r) : r = bs.drop a := by
  unfold sliceFrom at h; split at h
  · cases h; rfl
  · cases h
theorem byteAt_np {bs : Bytes} {i : Nat} (h : i < bs.length) : NPO (byteAt bs i) := by
  unfold byteAt
  rw [List.getElem?_eq_getElem h]; exact NPO_ok _
theorem natAt_np {l : List Nat} {i : Nat} (h : i < l.length) : NPO (natAt l i) := by
  unfold natAt
  rw [List.getElem?_eq_getElem h]; exact NPO_ok _
theorem natAt_mem {l : List Nat} {i v : Nat} (h : natAt l i = .ok v) : v ∈ l := by
  unfold natAt at h
  split at h
  · rename_i b hb; cases h; exact List.mem_of_getElem? hb
  · cases h
theorem splitAt_np {bs : Bytes} {i : Nat} (h : i ≤ bs.length) : NPO (splitAt bs i) := by
  simp [splitAt, h, NPO]
theorem splitAt_val {bs : Bytes} {i : Nat} {p : Bytes × Bytes} (h : splitAt bs i = .ok p) :
    p = (bs.take i, bs.drop i) ∧ i ≤ bs.length := by
  unfold splitAt at h; split at h
  · rename_i hi; cases h; exact ⟨rfl, hi⟩
  · cases h
theorem toU8_np {n : Nat} (h : n < 256) : NPO (toU8 n) := by simp [toU8, h, NPO]

/-- `read_number`: `buf[0]` and `&buf[1..]` of `read_number_unchecked` are only reached for a
non-empty text -/
theorem readNumberG_np (text : Bytes) : NPO (readNumberG text) := by
  unfold readNumberG
  split
  · exact NPO_err
  · rename_i h
    split
    · exact NPO_err
    · have hne : 0 < text.length := by
        cases text with
        | nil => simp at h
        | cons _ _ => simp
      exact NPO_bind (byteAt_np hne) fun b0 _ =>
        NPO_bind (sliceFrom_np (by omega)) fun rest _ => NPO_ok _

theorem leadingDigits_le (bs : Bytes) : leadingDigits bs ≤ bs.length := by
  induction bs with
  | nil => simp [leadingDigits]
  | cons b r ih => simp only [leadingDigits]; split <;> simp <;> omega

theorem parseDateG_np (buf : Bytes) : NPO (parseDateG buf) := by
  unfold parseDateG
  split
  · exact NPO_err
  split
  · exact NPO_err
  split
  · rename_i h8
    refine NPO_bind (slice_np (by omega) (by omega)) fun y _ => NPO_bind (readNumberG_np _) fun year _ => ?_
    refine NPO_bind (slice_np (by omega) (by omega)) fun m _ => NPO_bind (readNumberG_np _) fun month _ => ?_
    split
    · exact NPO_err
    refine NPO_bind (slice_np (by omega) (by omega)) fun d _ => NPO_bind (readNumberG_np _) fun day _ => ?_
    split
    · exact NPO_err
    · exact NPO_ofOption _
  · exact NPO_err

theorem ofOpt_pair_np {α β : Type} (o : Option α) (b : β) :
    NPO ((PO.ofOption o).bind fun d => PO.ok (d, b)) :=
  NPO_bind (NPO_ofOption _) fun _ _ => NPO_ok _

theorem parseDatePartialG_np (buf : Bytes) : NPO (parseDatePartialG buf) := by
  unfold parseDatePartialG
  split
  · exact NPO_err
  refine NPO_bind (slice_np (by omega) (by omega)) fun y _ => NPO_bind (readNumberG_np _) fun year _ => ?_
  refine NPO_bind (sliceFrom_np (by omega)) fun buf1 _ => ?_
  split
  · exact ofOpt_pair_np _ _
  refine NPO_bind (slice_np (by omega) (by omega)) fun m _ => ?_
  have hm := readNumberG_np m
  split
  · rename_i heq; exact absurd heq hm
  · exact ofOpt_pair_np _ _
  · refine NPO_bind (sliceFrom_np (by omega)) fun buf2 _ => ?_
    split
    · exact ofOpt_pair_np _ _
    refine NPO_bind (slice_np (by omega) (by omega)) fun dd _ => ?_
    have hd := readNumberG_np dd
    split
    · rename_i heq; exact absurd heq hd
    · exact ofOpt_pair_np _ _
    · exact NPO_bind (sliceFrom_np (by omega)) fun buf3 _ => ofOpt_pair_np _ _

theorem parseTimePartialG_np (buf : Bytes) : NPO (parseTimePartialG buf) := by
  unfold parseTimePartialG
  split
  · exact NPO_err
  refine NPO_bind (slice_np (by omega) (by omega)) fun h _ => NPO_bind (readNumberG_np _) fun hour _ => ?_
  refine NPO_bind (sliceFrom_np (by omega)) fun buf1 _ => ?_
  split
  · exact ofOpt_pair_np _ _
  refine NPO_bind (slice_np (by omega) (by omega)) fun m _ => ?_
  have hm := readNumberG_np m
  split
  · rename_i heq; exact absurd heq hm
  · exact ofOpt_pair_np _ _
  · refine NPO_bind (sliceFrom_np (by omega)) fun buf2 _ => ?_
    split
    · exact ofOpt_pair_np _ _
    refine NPO_bind (slice_np (by omega) (by omega)) fun s _ => ?_
    have hs := readNumberG_np s
    split
    · rename_i heq; exact absurd heq hs
    · exact ofOpt_pair_np _ _
    · refine NPO_bind (sliceFrom_np (by omega)) fun buf3 _ => ?_
      split
      · refine NPO_bind (byteAt_np (by omega)) fun c _ => ?_
        split
        · refine NPO_bind (sliceFrom_np (by omega)) fun buf4 _ => ?_
          have hl := leadingDigits_le buf4
          have hn : Nat.min 6 (leadingDigits buf4) ≤ buf4.length := Nat.le_trans (Nat.min_le_right _ _) hl
          have h6 : Nat.min 6 (leadingDigits buf4) ≤ 6 := Nat.min_le_left _ _
          simp only
          refine NPO_bind (slice_np (Nat.zero_le _) hn) fun f _ => NPO_bind (readNumberG_np _) fun fr _ => ?_
          refine NPO_bind (sliceFrom_np hn) fun buf5 _ => ?_
          refine NPO_bind (toU8_np (by omega)) fun fp _ => ?_
          exact ofOpt_pair_np _ _
        · exact ofOpt_pair_np _ _
      · exact ofOpt_pair_np _ _

theorem parseTimeG_np (buf : Bytes) : NPO (parseTimeG buf) := by
  unfold parseTimeG
  simp only
  split
  · exact NPO_err
  split
  · exact NPO_err
  split
  · rename_i h6
    refine NPO_bind (slice_np (by omega) (by omega)) fun h _ => NPO_bind (readNumberG_np _) fun hour _ => ?_
    split
    · exact NPO_err
    refine NPO_bind (slice_np (by omega) (by omega)) fun m _ => NPO_bind (readNumberG_np _) fun minute _ => ?_
    split
    · exact NPO_err
    refine NPO_bind (slice_np (by omega) (by omega)) fun s _ => NPO_bind (readNumberG_np _) fun second _ => ?_
    split
    · exact NPO_err
    exact NPO_bind (sliceFrom_np (by omega)) fun rest _ => ofOpt_pair_np _ _
  split
  · rename_i h8
    refine NPO_bind (slice_np (by omega) (by omega)) fun h _ => NPO_bind (readNumberG_np _) fun hour _ => ?_
    split
    · exact NPO_err
    refine NPO_bind (slice_np (by omega) (by omega)) fun m _ => NPO_bind (readNumberG_np _) fun minute _ => ?_
    split
    · exact NPO_err
    refine NPO_bind (slice_np (by omega) (by omega)) fun s _ => NPO_bind (readNumberG_np _) fun second _ => ?_
    split
    · exact NPO_err
    refine NPO_bind (sliceFrom_np (by omega)) fun buf1 e1 => ?_
    have hb1 := sliceFrom_val e1
    have hl1 : 2 ≤ buf1.length := by rw [hb1, List.length_drop]; omega
    refine NPO_bind (byteAt_np (by omega)) fun c _ => ?_
    split
    · exact NPO_err
    refine NPO_bind (sliceFrom_np (by omega)) fun buf2 _ => ?_
    have hl := leadingDigits_le buf2
    have hn : Nat.min 6 (leadingDigits buf2) ≤ buf2.length := Nat.le_trans (Nat.min_le_right _ _) hl
    refine NPO_bind (slice_np (Nat.zero_le _) hn) fun f _ => NPO_bind (readNumberG_np _) fun fr _ => ?_
    refine NPO_bind (sliceFrom_np hn) fun rest _ => ?_
    split
    · exact NPO_err
    · exact ofOpt_pair_np _ _
  · exact NPO_err

theorem parseTzSuffixG_np (buf : Bytes) : NPO (parseTzSuffixG buf) := by
  unfold parseTzSuffixG
  split
  · exact NPO_ok _
  split
  · rename_i h4
    refine NPO_bind (byteAt_np (by omega)) fun sign _ => ?_
    refine NPO_bind (sliceFrom_np (by omega)) fun b1 e1 => ?_
    have hb1 := sliceFrom_val e1
    have hl1 : 4 ≤ b1.length := by rw [hb1, List.length_drop]; omega
    refine NPO_bind (slice_np (by omega) (by omega)) fun h _ => NPO_bind (readNumberG_np _) fun tzH _ => ?_
    refine NPO_bind (slice_np (by omega) (by omega)) fun m _ => NPO_bind (readNumberG_np _) fun tzM _ => ?_
    simp only
    split
    · split
      · exact NPO_bind (NPO_ofOption _) fun _ _ => NPO_ok _
      · exact NPO_err
    · split
      · split
        · exact NPO_bind (NPO_ofOption _) fun _ _ => NPO_ok _
        · exact NPO_err
      · exact NPO_err
  · exact NPO_err

theorem parseDateTimePartialG_np (buf : Bytes) : NPO (parseDateTimePartialG buf) := by
  unfold parseDateTimePartialG
  refine NPO_bind (parseDatePartialG_np _) fun ⟨date, rest⟩ _ => ?_
  have ht := parseTimePartialG_np rest
  simp only
  split
  · rename_i heq; exact absurd heq ht
  · refine NPO_bind (parseTzSuffixG_np _) fun tz _ => ?_
    split
    · exact NPO_ofOption _
    · exact NPO_ok _
    · exact NPO_ofOption _
    · exact NPO_ok _

theorem dashPosition_lt : ∀ (buf : Bytes) (sep : Nat), dashPosition buf = some sep → sep < buf.length := by
  intro buf
  induction buf with
  | nil => intro sep h; simp [dashPosition] at h
  | cons b r ih =>
    intro sep h
    simp only [dashPosition] at h
    split at h
    · cases h; simp
    · cases hr : dashPosition r with
      | none => rw [hr] at h; simp at h
      | some k =>
        rw [hr] at h; simp at h; subst h
        have := ih k hr
        simp; omega

theorem parseDateRangeG_np (buf : Bytes) : NPO (parseDateRangeG buf) := by
  unfold parseDateRangeG
  split
  · exact NPO_err
  split
  · exact NPO_err
  · rename_i sep hs
    have hlt := dashPosition_lt buf sep hs
    refine NPO_bind (splitAt_np (by omega)) fun p hp => ?_
    obtain ⟨hp1, _⟩ := splitAt_val hp
    subst hp1
    refine NPO_bind (sliceFrom_np (by simp only [List.length_drop]; omega)) fun stop _ => ?_
    simp only
    have dp := parseDatePartialG_np
    split
    · exact NPO_bind (dp _) fun ⟨d, _⟩ _ => NPO_bind (NPO_ofOption _) fun _ _ => NPO_ok _
    split
    · exact NPO_bind (dp _) fun ⟨d, _⟩ _ => NPO_bind (NPO_ofOption _) fun _ _ => NPO_ok _
    · exact NPO_bind (dp _) fun ⟨a, _⟩ _ => NPO_bind (NPO_ofOption _) fun _ _ =>
        NPO_bind (dp _) fun ⟨b, _⟩ _ => NPO_bind (NPO_ofOption _) fun _ _ => NPO_ofOption _

theorem parseTimeRangeG_np (buf : Bytes) : NPO (parseTimeRangeG buf) := by
  unfold parseTimeRangeG
  split
  · exact NPO_err
  split
  · exact NPO_err
  · rename_i sep hs
    have hlt := dashPosition_lt buf sep hs
    refine NPO_bind (splitAt_np (by omega)) fun p hp => ?_
    obtain ⟨hp1, _⟩ := splitAt_val hp
    subst hp1
    refine NPO_bind (sliceFrom_np (by simp only [List.length_drop]; omega)) fun stop _ => ?_
    simp only
    have dp := parseTimePartialG_np
    split
    · exact NPO_bind (dp _) fun ⟨d, _⟩ _ => NPO_bind (NPO_ofOption _) fun _ _ => NPO_ok _
    split
    · exact NPO_bind (dp _) fun ⟨d, _⟩ _ => NPO_bind (NPO_ofOption _) fun _ _ => NPO_ok _
    · exact NPO_bind (dp _) fun ⟨a, _⟩ _ => NPO_bind (NPO_ofOption _) fun _ _ =>
        NPO_bind (dp _) fun ⟨b, _⟩ _ => NPO_bind (NPO_ofOption _) fun _ _ => NPO_ofOption _

theorem dashIndexesFrom_lt : ∀ (buf : Bytes) (i d : Nat), d ∈ dashIndexesFrom i buf → d < i + buf.length := by
  intro buf
  induction buf with
  | nil => intro i d h; simp [dashIndexesFrom] at h
  | cons b r ih =>
    intro i d h
    simp only [dashIndexesFrom] at h
    split at h
    · rcases List.mem_cons.mp h with h | h
      · subst h; simp
      · have := ih (i + 1) d h; simp; omega
    · have := ih (i + 1) d h; simp; omega

theorem dtRangeAtG_np (mk : Precise → Precise → Option DateTimeRange) (buf : Bytes) (sep : Nat)
    (h : sep < buf.length) : NPO (dtRangeAtG mk buf sep) := by
  unfold dtRangeAtG
  refine NPO_bind (splitAt_np (by omega)) fun p hp => ?_
  obtain ⟨hp1, _⟩ := splitAt_val hp
  subst hp1
  refine NPO_bind (sliceFrom_np (by simp only [List.length_drop]; omega)) fun stop _ => ?_
  exact NPO_bind (parseDateTimePartialG_np _) fun a _ => NPO_bind (NPO_ofOption _) fun _ _ =>
    NPO_bind (parseDateTimePartialG_np _) fun b _ => NPO_bind (NPO_ofOption _) fun _ _ => NPO_ofOption _

theorem parseDateTimeRangeG_np (mk : Precise → Precise → Option DateTimeRange) (buf : Bytes) :
    NPO (parseDateTimeRangeG mk buf) := by
  unfold parseDateTimeRangeG
  split
  · exact NPO_err
  rename_i h5
  refine NPO_bind (byteAt_np (by omega)) fun c0 _ => ?_
  split
  · exact NPO_bind (sliceFrom_np (by omega)) fun b _ =>
      NPO_bind (parseDateTimePartialG_np _) fun v _ => NPO_bind (NPO_ofOption _) fun e _ => NPO_ok _
  refine NPO_bind (byteAt_np (by omega)) fun cl _ => ?_
  split
  · exact NPO_bind (slice_np (Nat.zero_le _) (by omega)) fun b _ =>
      NPO_bind (parseDateTimePartialG_np _) fun v _ => NPO_bind (NPO_ofOption _) fun e _ => NPO_ok _
  have hd : ∀ d, d ∈ dashIndexes buf → d < buf.length := by
    intro d hm; have := dashIndexesFrom_lt buf 0 d hm; omega
  have at_np : ∀ i, i < (dashIndexes buf).length →
      NPO ((natAt (dashIndexes buf) i).bind fun d => dtRangeAtG mk buf d) := by
    intro i hi
    exact NPO_bind (natAt_np hi) fun d hdv => dtRangeAtG_np mk buf d (hd d (natAt_mem hdv))
  simp only
  split
  · exact NPO_err
  split
  · rename_i h1; exact at_np 0 (by omega)
  split
  · rename_i h2
    refine NPO_bind (natAt_np (by omega)) fun d0 hd0 => ?_
    have hlt := hd d0 (natAt_mem hd0)
    refine NPO_bind (splitAt_np (by omega)) fun p hp => ?_
    obtain ⟨hp1, _⟩ := splitAt_val hp
    subst hp1
    refine NPO_bind (sliceFrom_np (by simp only [List.length_drop]; omega)) fun end1 _ => ?_
    have ha := parseDateTimePartialG_np (buf.take d0)
    have hb := parseDateTimePartialG_np end1
    split
    · rename_i heq; exact absurd heq ha
    · rename_i heq _; exact absurd heq hb
    · refine NPO_bind (NPO_ofOption _) fun s _ => NPO_bind (NPO_ofOption _) fun e _ => ?_
      split
      · exact NPO_ok _
      · exact at_np 1 (by omega)
    · exact at_np 1 (by omega)
  split
  · rename_i h3; exact at_np 1 (by omega)
  · exact NPO_err

/-! ### no wrap-around in `read_number_unchecked` -/

theorem foldl_digits_lt : ∀ (rest : Bytes) (acc k : Nat), (∀ v ∈ rest, isDigit v = true) → acc < 10 ^ k →
    rest.foldl (fun acc v => acc * 10 + (v - 48)) acc < 10 ^ (k + rest.length) := by
  intro rest
  induction rest with
  | nil => intro acc k _ h; simpa using h
  | cons v r ih =>
    intro acc k hd h
    have hv : isDigit v = true := hd v (by simp)
    have hv' : v - 48 ≤ 9 := by simp [isDigit] at hv; omega
    have := ih (acc * 10 + (v - 48)) (k + 1) (fun w hw => hd w (by simp [hw])) (by rw [Nat.pow_succ]; omega)
    simp only [List.foldl_cons, List.length_cons]
    have e : k + 1 + r.length = k + (r.length + 1) := by omega
    rw [e] at this; exact this

/-- the value `read_number` returns for a text of `n` digits is below `10^n` -/
theorem readNumberG_lt (text : Bytes) (v : Nat) (h : readNumberG text = .ok v) : v < 10 ^ text.length := by
  unfold readNumberG at h
  split at h
  · cases h
  · split at h
    · cases h
    · rename_i hne hdig
      cases text with
      | nil => simp at hne
      | cons b0 rest =>
        simp only [byteAt, List.getElem?_cons_zero, PO.bind, sliceFrom, List.length_cons,
          Nat.le_add_left, if_true, List.drop_succ_cons, List.drop_zero] at h
        injection h with h
        subst h
        have hall : ∀ w ∈ b0 :: rest, isDigit w = true := by
          intro w hw
          have : ¬ ((b0 :: rest).any fun b => !isDigit b) = true := hdig
          simp only [List.any_eq_true, not_exists, not_and] at this
          have := this w hw
          simpa using this
        have hb : b0 - 48 < 10 ^ 1 := by
          have := hall b0 (by simp); simp [isDigit] at this; omega
        have := foldl_digits_lt rest (b0 - 48) 1 (fun w hw => hall w (by simp [hw])) hb
        simp only [List.length_cons]
        have e : 1 + rest.length = rest.length + 1 := by omega
        rw [e] at this; exact this

/-! ### `parse_selector` slices -/

open TagText in
theorem okAfterAscii_getElem : ∀ (s : Bytes) (i a b : Nat), okAfterAscii s = true →
    s[i]? = some a → a < 128 → s[i + 1]? = some b → isContinuation b = false := by
  intro s
  induction s with
  | nil => intro i a b _ h; simp at h
  | cons x r ih =>
    intro i a b hok ha hlt hb
    cases i with
    | zero =>
      cases r with
      | nil => simp at hb
      | cons y r' =>
        simp at ha hb; subst ha; subst hb
        exact okAfterAscii_head hok hlt
    | succ j =>
      simp only [List.getElem?_cons_succ] at ha hb
      exact ih j a b (okAfterAscii_tail hok) ha hlt hb

open TagText in
theorem findByte_spec (c : Nat) : ∀ (s : Bytes) (i : Nat), findByte c s = some i → s[i]? = some c := by
  intro s
  induction s with
  | nil => intro i h; simp [findByte] at h
  | cons b r ih =>
    intro i h
    simp only [findByte] at h
    split at h
    · rename_i hb; cases h; simp [hb]
    · cases hr : findByte c r with
      | none => rw [hr] at h; simp at h
      | some k => rw [hr] at h; simp at h; subst h; simpa using ih k hr

open TagText in
/-- the two slices of an intermediate selector part are in range and on char boundaries for every
part of a Rust string (`okAfterAscii`: the byte after an ASCII byte starts a character) -/
theorem selectorSlicesG_np (part : Bytes) (hok : okAfterAscii part = true) : NPO (selectorSlicesG part) := by
  unfold selectorSlicesG
  split
  · rename_i hlast
    split
    · exact NPO_ok _
    · rename_i i hf
      have hi := findByte_spec 0x5B part i hf
      have hlen : 0 < part.length := by
        cases part with
        | nil => simp at hlast
        | cons _ _ => simp
      have hl : part[part.length - 1]? = some 0x5D := by
        rw [← List.getLast?_eq_getElem?]; exact hlast
      have hil : i < part.length := by
        rcases Nat.lt_or_ge i part.length with h | h
        · exact h
        · rw [List.getElem?_eq_none h] at hi; cases hi
      have hne : i ≠ part.length - 1 := by
        intro e; rw [e, hl] at hi; cases hi
      have hi1 : i + 1 ≤ part.length - 1 := by omega
      -- boundaries
      have b0 : isCharBoundary part 0 = true := by simp [isCharBoundary]
      have bi : isCharBoundary part i = true := by
        unfold isCharBoundary
        split
        · rfl
        · rw [hi]; simp [isContinuation]
      have bi1 : isCharBoundary part (i + 1) = true := by
        unfold isCharBoundary
        simp only [Nat.add_one_ne_zero, if_false]
        have hlt : i + 1 < part.length := by omega
        rw [List.getElem?_eq_getElem hlt]
        have := okAfterAscii_getElem part i 0x5B part[i + 1] hok hi (by decide)
          (List.getElem?_eq_getElem hlt)
        simp [this]
      have bl : isCharBoundary part (part.length - 1) = true := by
        unfold isCharBoundary
        split
        · rfl
        · rw [hl]; simp [isContinuation]
      have e1 : strSlice part 0 i = .ok ((part.drop 0).take (i - 0)) := by
        unfold strSlice; simp [b0, bi]; omega
      have e2 : strSlice part (i + 1) (part.length - 1) =
          .ok ((part.drop (i + 1)).take (part.length - 1 - (i + 1))) := by
        unfold strSlice; simp [bi1, bl]; omega
      rw [e1, e2]
      exact NPO_ok _
  · exact NPO_ok _

/-! ### header decoders, value readers -/

/-- every constant range used by the header decoders lies inside its fixed-size array -/
theorem headerSliceSites_in_range :
    headerSliceSites.all (fun (n, a, b) => decide (a ≤ b ∧ b ≤ n)) = true := by decide

theorem remainderSlice_np (len : Nat) :
    NPO (remainderSlice (len % 2)) ∧ NPO (remainderSlice (len % 4)) ∧ NPO (remainderSlice (len % 8)) := by
  refine ⟨slice_np (Nat.zero_le _) ?_, slice_np (Nat.zero_le _) ?_, slice_np (Nat.zero_le _) ?_⟩ <;>
    (simp only [List.length_replicate]; omega)

theorem trimTrailG_np : ∀ (f : Nat) (x : Bytes), x.length ≤ f → NPO (trimTrailG f x) := by
  intro f
  induction f with
  | zero =>
    intro x h
    have : x = [] := List.eq_nil_of_length_eq_zero (by omega)
    subst this; simp [trimTrailG, NPO]
  | succ f ih =>
    intro x h
    simp only [trimTrailG]
    split
    · rename_i hl
      have hpos : 0 < x.length := by
        cases x with
        | nil => simp at hl
        | cons _ _ => simp
      rw [slice_eq (Nat.zero_le _) (by omega)]
      simp only [PO.bind]
      apply ih
      simp only [List.drop_zero, List.length_take]; omega
    · exact NPO_ok _

theorem decodeTag_rest {be : Bool} {bs : Bytes} {t : Tag} {r : Bytes} (h : decodeTag be bs = some (t, r)) :
    r.length + 4 = bs.length := by
  unfold decodeTag at h
  cases be <;> simp only [rd16, Bool.false_eq_true, if_false, if_true] at h
  all_goals
    match bs, h with
    | a :: b :: c :: d :: r', h =>
      simp [rdLe16, rdBe16] at h
      obtain ⟨_, rfl⟩ := h; simp

theorem rd16_rest {be : Bool} {bs : Bytes} {v : Nat} {r : Bytes} (h : rd16 be bs = some (v, r)) :
    r.length + 2 = bs.length := by
  cases be <;> simp only [rd16, Bool.false_eq_true, if_false, if_true] at h
  all_goals
    match bs, h with
    | a :: b :: r', h =>
      simp [rdLe16, rdBe16] at h
      obtain ⟨_, rfl⟩ := h; simp

theorem rd32_rest {be : Bool} {bs : Bytes} {v : Nat} {r : Bytes} (h : rd32 be bs = some (v, r)) :
    r.length + 4 = bs.length := by
  cases be <;> simp only [rd32, Bool.false_eq_true, if_false, if_true] at h
  all_goals
    match bs, h with
    | a :: b :: c :: d :: r', h =>
      simp [rdLe32, rdBe32] at h
      obtain ⟨_, rfl⟩ := h; simp

theorem decodeExplicitWith_progress (short : List VR) (be : Bool) (bs : Bytes)
    (h : ElemHeader) (n : Nat) (r : Bytes) (hd : decodeExplicitWith short be bs = some (h, n, r)) :
    (n = 8 ∨ n = 12) ∧ r.length + n = bs.length := by
  unfold decodeExplicitWith at hd
  split at hd
  · cases hd
  · rename_i t r0 ht
    have h0 := decodeTag_rest ht
    split at hd
    · split at hd
      · rename_i len r' hl
        have := rd32_rest hl
        cases hd; exact ⟨.inl rfl, by omega⟩
      · cases hd
    · split at hd
      · rename_i a b r1
        simp only at hd
        split at hd
        · split at hd
          · rename_i len r' hl
            have := rd16_rest hl
            cases hd; simp only [List.length_cons] at h0; exact ⟨.inl rfl, by omega⟩
          · cases hd
        · split at hd
          · rename_i x y r2
            split at hd
            · rename_i len r' hl
              have := rd32_rest hl
              cases hd; simp only [List.length_cons] at h0; exact ⟨.inr rfl, by omega⟩
            · cases hd
          · cases hd
      · cases hd

/-- every successful element header decode of the three decoders consumes 8 or 12 bytes of the
input: a reader that loops over headers makes progress (`input length / 8 + 1` rounds at most) -/
theorem decodeHeader_progress (ts : Syntax) (dict : Tag → Option VR) (bs : Bytes)
    (h : ElemHeader) (n : Nat) (r : Bytes) (hd : decodeHeader ts dict bs = some (h, n, r)) :
    (n = 8 ∨ n = 12) ∧ r.length + n = bs.length := by
  cases ts with
  | implicitLE =>
    simp only [decodeHeader] at hd
    split at hd
    · cases hd
    · rename_i t r0 ht
      have h0 := decodeTag_rest ht
      split at hd
      · rename_i len r' hl
        have : r'.length + 4 = r0.length := rd32_rest (be := false) (by simpa [rd32] using hl)
        cases hd; exact ⟨.inl rfl, by omega⟩
      · cases hd
  | explicitLE => exact decodeExplicitWith_progress _ _ _ _ _ _ hd
  | explicitBE => exact decodeExplicitWith_progress _ _ _ _ _ _ hd

end Dicom.Guard
