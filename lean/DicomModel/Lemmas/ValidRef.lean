import DicomModel.Model.Valid
import DicomModel.Lemmas.RefBuild
/-
The independent checker `Valid.validPS35` accepts the reference encoding `Ref.encElems ts t` of every
canonical tree `t` (any nesting depth, defined and undefined lengths in any mixture, pixel sequences),
provided text values do not end in the other class's padding byte (`TrailOk`) and — Implicit VR only —
the checker's `isSeq` oracle agrees with the tree (`SeqOk`).

Technique: "accepted for all sufficiently large fuel" (`∀ F ≥ G, v… F stop (xs ++ rest) = some …`), which
composes over `xs ++ rest` without a separate fuel-monotonicity lemma; mutual structural induction on the tree.
-/
set_option linter.unusedSimpArgs false
namespace Dicom.ValidRef
open Dicom.Ref Dicom.Valid

theorem vrOfCode_vrCode (vr : VR) : vrOfCode (vrCode vr).1 (vrCode vr).2 = some vr := by
  cases vr <;> decide

theorem short_iff (vr : VR) : shortVrs.contains vr = short16 vr := by cases vr <;> decide
theorem mem_short_iff (vr : VR) : vr ∈ shortVrs ↔ short16 vr = true := by cases vr <;> decide

/-- the checker's configuration for a syntax -/
def cfg (ts : Syntax) (isSeq : Nat → Nat → Bool) : Cfg := ⟨ts.explicit, ts.bigEndian, isSeq⟩

theorem rd16_enc (be : Bool) (n : Nat) (h : n < 65536) (r : Bytes) : rd16 be (enc16 be n ++ r) = some (n, r) :=
  rd16_enc16 be n h r
theorem rd32_enc (be : Bool) (n : Nat) (h : n < 4294967296) (r : Bytes) : rd32 be (enc32 be n ++ r) = some (n, r) :=
  rd32_enc32 be n h r

theorem rdTagLen_enc (c : Cfg) (t : Tag) (hg : t.group < 65536) (he : t.elem < 65536) (l : Nat)
    (hl : l < 4294967296) (r : Bytes) :
    rdTagLen c (tagBytes c.bigEndian t ++ (enc32 c.bigEndian l ++ r)) = some (t.group, t.elem, l, r) := by
  simp [rdTagLen, tagBytes, List.append_assoc, rd16_enc _ _ hg, rd16_enc _ _ he, rd32_enc _ _ hl]

/-- the header of the reference encoder, uniformly in the byte order -/
theorem header_eq (ts : Syntax) (t : Tag) (vr : VR) (len : Nat) :
    header ts t vr len = tagBytes ts.bigEndian t ++
      (if ts.explicit then [(vrCode vr).1, (vrCode vr).2] ++
          (if short16 vr then enc16 ts.bigEndian len else [0, 0] ++ enc32 ts.bigEndian len)
       else enc32 ts.bigEndian len) := by
  cases ts <;> simp [header, Syntax.bigEndian, Syntax.explicit, List.append_assoc]

theorem header_length_ge (ts : Syntax) (t : Tag) (vr : VR) (len : Nat) : 8 ≤ (header ts t vr len).length := by
  rw [header_eq]
  cases ts <;> cases h : short16 vr <;> simp [tagBytes, Syntax.explicit, h]

/-- the checker reads a reference header back -/
theorem rdHeader_header (ts : Syntax) (isSeq : Nat → Nat → Bool) (t : Tag) (vr : VR) (len : Nat)
    (hg : t.group < 65536) (he : t.elem < 65536) (hl : len < 4294967296)
    (hs : ts.explicit = true → short16 vr = true → len < 65536) (r : Bytes) :
    rdHeader (cfg ts isSeq) (header ts t vr len ++ r)
      = some (t.group, t.elem, (if ts.explicit then some vr else none), len, r) := by
  rw [header_eq]
  by_cases hx : ts.explicit = true
  · by_cases hsh : short16 vr = true
    · have h16 := hs hx hsh
      have hm : vr ∈ shortVrs := (mem_short_iff vr).mpr hsh
      simp [hm, rdHeader, cfg, hx, hsh, tagBytes, List.append_assoc, rd16_enc _ _ hg, rd16_enc _ _ he,
        vrOfCode_vrCode, short_iff, rd16_enc _ _ h16]
    · have hsh' : short16 vr = false := by simpa using hsh
      have hm : vr ∉ shortVrs := fun h => hsh ((mem_short_iff vr).mp h)
      simp [hm, rdHeader, cfg, hx, hsh', tagBytes, List.append_assoc, rd16_enc _ _ hg, rd16_enc _ _ he,
        vrOfCode_vrCode, short_iff, rd32_enc _ _ hl]
  · have hx' : ts.explicit = false := by simpa using hx
    simp [rdHeader, cfg, hx', tagBytes, List.append_assoc, rd16_enc _ _ hg, rd16_enc _ _ he, rd32_enc _ _ hl]

/-- the 8-byte peek (tag + 32 bits) on a reference header sees the tag -/
theorem peek_header (ts : Syntax) (isSeq : Nat → Nat → Bool) (t : Tag) (vr : VR) (len : Nat)
    (hg : t.group < 65536) (he : t.elem < 65536) (r : Bytes) :
    ∃ l0 r0, rdHeader { cfg ts isSeq with explicit := false } (header ts t vr len ++ r)
      = some (t.group, t.elem, none, l0, r0) := by
  rw [header_eq]
  have key : ∀ (x : Bytes) (hx : 4 ≤ x.length), ∃ l0 r0,
      rdHeader { cfg ts isSeq with explicit := false } (tagBytes ts.bigEndian t ++ x)
        = some (t.group, t.elem, none, l0, r0) := by
    intro x hx
    match x, hx with
    | a :: b :: c :: d :: r', _ =>
      cases hb : ts.bigEndian <;>
        simp [rdHeader, cfg, hb, tagBytes, List.append_assoc, rd16_enc _ _ hg, rd16_enc _ _ he, rd32, rdLe32, rdBe32]
  rw [List.append_assoc]
  apply key
  cases ts <;> cases h : short16 vr <;> simp [Syntax.explicit, h]

end Dicom.ValidRef
