/-
Lemmas for the dictionary model (C15, used by C14):
* `nodup_of_checkIdx` — soundness of the translator's "value ↦ position" certificate;
* association-list (`HashMap`) facts under distinct keys;
* what `init_dictionary` builds;
* the masks `& 0xFF00`, `& 1` as arithmetic.
-/
import DicomModel.Model.DictCore
namespace Dicom.Dict

/-! ### certificate check: a column has no duplicates -/

/-- every element of the list is mapped by `h` to its own position (counted from `i`) -/
def checkIdx (h : Nat → Option Nat) : List Nat → Nat → Bool
  | [], _ => true
  | x :: xs, i => (match h x with | some j => Nat.beq j i | none => false) && checkIdx h xs (i + 1)

theorem checkIdx_bound {h : Nat → Option Nat} {l : List Nat} {i : Nat} (hc : checkIdx h l i = true) :
    ∀ x ∈ l, ∃ j, i ≤ j ∧ h x = some j := by
  induction l generalizing i with
  | nil => intro x hx; cases hx
  | cons a as ih =>
    intro x hx
    simp only [checkIdx, Bool.and_eq_true] at hc
    rcases List.mem_cons.mp hx with rfl | hm
    · cases hh : h x with
      | none => rw [hh] at hc; exact absurd hc.1 (by simp)
      | some j =>
        rw [hh] at hc
        have : j = i := Nat.eq_of_beq_eq_true hc.1
        exact ⟨j, by omega, rfl⟩
    · obtain ⟨j, hj, hx'⟩ := ih hc.2 x hm
      exact ⟨j, by omega, hx'⟩

/-- If some function sends every element of `l` to its position, `l` has no duplicates. -/
theorem nodup_of_checkIdx {h : Nat → Option Nat} {l : List Nat} {i : Nat}
    (hc : checkIdx h l i = true) : l.Nodup := by
  induction l generalizing i with
  | nil => exact List.nodup_nil
  | cons a as ih =>
    have hc' := hc
    simp only [checkIdx, Bool.and_eq_true] at hc
    refine List.nodup_cons.mpr ⟨?_, ih hc.2⟩
    intro hm
    obtain ⟨j, hj, hx⟩ := checkIdx_bound hc.2 a hm
    rw [hx] at hc
    have : j = i := Nat.eq_of_beq_eq_true hc.1
    omega

/-! ### lists as finite maps -/

theorem mem_map_of_mem' {α β : Type} {f : α → β} {l : List α} {x : α} (h : x ∈ l) : f x ∈ l.map f :=
  List.mem_map.mpr ⟨x, h, rfl⟩

/-- distinct keys: two members with the same key are the same element -/
theorem eq_of_key_eq {α : Type} {f : α → Nat} {l : List α} (hn : (l.map f).Nodup) {x y : α}
    (hx : x ∈ l) (hy : y ∈ l) (h : f x = f y) : x = y := by
  induction l with
  | nil => cases hx
  | cons a as ih =>
    simp only [List.map_cons, List.nodup_cons] at hn
    rcases List.mem_cons.mp hx with rfl | hx' <;> rcases List.mem_cons.mp hy with rfl | hy'
    · rfl
    · exact absurd (h ▸ mem_map_of_mem' hy') hn.1
    · exact absurd (h ▸ mem_map_of_mem' hx') hn.1
    · exact ih hn.2 hx' hy'

/-- `find?` returns the only element satisfying the predicate -/
theorem find?_eq_some_of_unique {α : Type} {p : α → Bool} {l : List α} {r : α}
    (hr : r ∈ l) (hp : p r = true) (hu : ∀ x ∈ l, p x = true → x = r) : l.find? p = some r := by
  cases hf : l.find? p with
  | none => exact absurd hp (List.find?_eq_none.mp hf r hr)
  | some x => rw [hu x (List.mem_of_find?_eq_some hf) (List.find?_some hf)]

theorem mapGet_map {α : Type} (f : α → Nat) (l : List α) (k : Nat) :
    mapGet (l.map fun r => (f r, r)) k = l.find? (fun r => f r == k) := by
  induction l with
  | nil => rfl
  | cons a as ih =>
    unfold mapGet at ih ⊢
    simp only [List.map_cons, List.find?_cons]
    cases h : f a == k
    · simpa using ih
    · rfl

theorem mapGet_append {β : Type} (l₁ l₂ : List (Nat × β)) (k : Nat) :
    mapGet (l₁ ++ l₂) k = (mapGet l₁ k).or (mapGet l₂ k) := by
  unfold mapGet
  rw [List.find?_append]
  cases List.find? (fun p => p.1 == k) l₁ <;> simp

theorem setContains_iff (s : List Nat) (k : Nat) : setContains s k = true ↔ k ∈ s := by
  unfold setContains
  simp [List.any_eq_true]

/-! ### what `init_dictionary` builds -/

theorem foldl_index (es : List Row) (d : Registry) :
    es.foldl Registry.index d =
      { byName := es.reverse.map (fun r => (r.alias, Ans.entry r)) ++ d.byName
        byTag := es.reverse.map (fun r => (r.key, r)) ++ d.byTag
        ggxx := (es.reverse.filter (fun r => r.kind = 1)).map Row.key ++ d.ggxx
        eexx := (es.reverse.filter (fun r => r.kind = 2)).map Row.key ++ d.eexx } := by
  induction es generalizing d with
  | nil => simp
  | cons a as ih =>
    rw [List.foldl_cons, ih]
    simp only [Registry.index, List.reverse_cons, List.map_append, List.filter_append, List.append_assoc]
    by_cases h1 : a.kind = 1 <;> by_cases h2 : a.kind = 2 <;> simp [h1, h2]

theorem initDictionary_byTag (es : List Row) :
    (initDictionary es).byTag = es.reverse.map (fun r => (r.key, r)) := by
  simp [initDictionary, foldl_index, Registry.new]

theorem initDictionary_ggxx (es : List Row) :
    (initDictionary es).ggxx = (es.reverse.filter (fun r => r.kind = 1)).map Row.key := by
  simp [initDictionary, foldl_index, Registry.new]

theorem initDictionary_eexx (es : List Row) :
    (initDictionary es).eexx = (es.reverse.filter (fun r => r.kind = 2)).map Row.key := by
  simp [initDictionary, foldl_index, Registry.new]

theorem initDictionary_byName (es : List Row) :
    (initDictionary es).byName =
      (glAlias, Ans.groupLength) :: es.reverse.map (fun r => (r.alias, Ans.entry r)) := by
  simp [initDictionary, foldl_index, Registry.new]

/-- `by_tag.get(k)` of the built registry, as a scan of the table (latest entry first) -/
theorem byTag_get (es : List Row) (k : Nat) :
    mapGet (initDictionary es).byTag k = es.reverse.find? (fun r => r.key == k) := by
  rw [initDictionary_byTag, mapGet_map]

theorem ggxx_contains (es : List Row) (k : Nat) :
    setContains (initDictionary es).ggxx k = true ↔ ∃ r ∈ es, r.kind = 1 ∧ r.key = k := by
  rw [setContains_iff, initDictionary_ggxx]
  simp only [List.mem_map, List.mem_filter, List.mem_reverse, decide_eq_true_eq]
  constructor
  · rintro ⟨r, ⟨hr, hk⟩, rfl⟩; exact ⟨r, hr, hk, rfl⟩
  · rintro ⟨r, hr, hk, rfl⟩; exact ⟨r, ⟨hr, hk⟩, rfl⟩

theorem eexx_contains (es : List Row) (k : Nat) :
    setContains (initDictionary es).eexx k = true ↔ ∃ r ∈ es, r.kind = 2 ∧ r.key = k := by
  rw [setContains_iff, initDictionary_eexx]
  simp only [List.mem_map, List.mem_filter, List.mem_reverse, decide_eq_true_eq]
  constructor
  · rintro ⟨r, ⟨hr, hk⟩, rfl⟩; exact ⟨r, hr, hk, rfl⟩
  · rintro ⟨r, hr, hk, rfl⟩; exact ⟨r, ⟨hr, hk⟩, rfl⟩

/-! ### masks -/

theorem and_ff00_hi : ∀ h, h < 256 → (256 * h) &&& 0xFF00 = 256 * h := by decide +kernel
theorem and_ff00_lo : ∀ l, l < 256 → l &&& 0xFF00 = 0 := by decide +kernel

theorem and_ff00_aux (h l : Nat) (hh : h < 256) (hl : l < 256) :
    (256 * h + l) &&& 0xFF00 = 256 * h := by
  have hl' : l < 2 ^ 8 := by omega
  have := Nat.two_pow_add_eq_or_of_lt hl' h
  simp only [Nat.reducePow] at this
  rw [this, Nat.and_or_distrib_right, and_ff00_hi h hh, and_ff00_lo l hl, Nat.or_zero]

/-- `x & 0xFF00` on a 16-bit value clears the low byte -/
theorem and_ff00 (g : Nat) (hg : g < 65536) : g &&& 0xFF00 = g / 256 * 256 := by
  have := and_ff00_aux (g / 256) (g % 256) (by omega) (by omega)
  have e : 256 * (g / 256) + g % 256 = g := by omega
  rw [e] at this; omega

theorem tagKey_inj {g e g' e' : Nat} (he : e < 65536) (he' : e' < 65536)
    (h : tagKey g e = tagKey g' e') : g = g' ∧ e = e' := by
  unfold tagKey at h; omega

end Dicom.Dict
