import DicomModel.Lemmas.RefReader6
/-
C02: `build_object` / `build_sequence` / `build_encapsulated_data` on the token stream of a canonical
tree give the tree back (elements are inserted into a tag-sorted map; tags ascend).
-/
set_option linter.unusedSimpArgs false
set_option linter.unusedVariables false
namespace Dicom.Ref

def toList : Elems → List Elem
  | .nil => []
  | .cons e r => e :: toList r
def itemsToList : Items → List (Nat × Elems)
  | .nil => []
  | .cons l es r => (l, es) :: itemsToList r

theorem elemsOfList_toList : ∀ es : Elems, elemsOfList (toList es) = es
  | .nil => rfl
  | .cons e r => by simp [toList, elemsOfList, elemsOfList_toList r]
theorem itemsOfList_toList : ∀ its : Items, itemsOfList (itemsToList its) = its
  | .nil => rfl
  | .cons l es r => by simp [itemsToList, itemsOfList, itemsOfList_toList r]

/-! ### tag order -/

theorem tagOf_eq (e : Elem) : tagOf e = e.tag := by cases e <;> rfl
theorem tagLt_eq (a b : Tag) : tagLt a b = Tag.lt a b := rfl

theorem lt_iff (a b : Tag) : Tag.lt a b = true ↔ (a.group < b.group ∨ (a.group = b.group ∧ a.elem < b.elem)) := by
  simp [Tag.lt]

theorem lt_trans {a b c : Tag} (h1 : Tag.lt a b = true) (h2 : Tag.lt b c = true) : Tag.lt a c = true := by
  rw [lt_iff] at *; omega
theorem lt_asymm {a b : Tag} (h1 : Tag.lt a b = true) : Tag.lt b a = false := by
  cases h : Tag.lt b a
  · rfl
  · rw [lt_iff] at *; omega
theorem lt_ne {a b : Tag} (h1 : Tag.lt a b = true) : a ≠ b := by
  intro e; subst e; rw [lt_iff] at h1; omega

/-- the relation "strictly smaller tag" on elements -/
def ELt (a b : Elem) : Prop := Tag.lt a.tag b.tag = true

theorem insert_last (e : Elem) : ∀ acc : List Elem, (∀ x ∈ acc, ELt x e) → insertElem e acc = acc ++ [e]
  | [], _ => rfl
  | x :: r, h => by
    have hx : ELt x e := h x (by simp)
    have ih := insert_last e r (fun y hy => h y (by simp [hy]))
    simp [insertElem, lt_asymm hx, lt_ne hx, ih]

theorem sortedFrom_pairwise : ∀ (es : Elems) (prev : Tag), sortedFrom prev es = true →
    (∀ x ∈ toList es, Tag.lt prev x.tag = true) ∧ (toList es).Pairwise ELt
  | .nil, _, _ => by simp [toList]
  | .cons e r, prev, h => by
    simp only [sortedFrom, Bool.and_eq_true, tagOf_eq, tagLt_eq] at h
    obtain ⟨ih1, ih2⟩ := sortedFrom_pairwise r e.tag h.2
    constructor
    · intro x hx
      simp only [toList, List.mem_cons] at hx
      rcases hx with rfl | hx
      · exact h.1
      · exact lt_trans h.1 (ih1 x hx)
    · simp only [toList, List.pairwise_cons]
      exact ⟨fun x hx => ih1 x hx, ih2⟩

theorem sorted_pairwise (es : Elems) (h : sortedElems es = true) : (toList es).Pairwise ELt := by
  cases es with
  | nil => simp [toList]
  | cons e r =>
    simp only [sortedElems] at h
    obtain ⟨h1, h2⟩ := sortedFrom_pairwise r (tagOf e) h
    simp only [toList, List.pairwise_cons]
    exact ⟨fun x hx => by simpa [ELt, tagOf_eq] using h1 x hx, h2⟩

/-! ### encapsulated pixel data -/

theorem build_frags (rest : List Token) (t : List Nat) : ∀ (frags : List Bytes) (fr : List Bytes),
    (∀ f ∈ frags, f.length % 2 = 0 ∧ f.length < 4294967295) →
    buildEncapsulated (frags.flatMap fragTokens ++ .sequenceEnd :: rest) (some t) fr false =
      .ok (t, fr ++ frags, rest)
  | [], fr, _ => by simp [buildEncapsulated]
  | f :: r, fr, hf => by
    have ih := fun fr' => build_frags rest t r fr' (fun g hg => hf g (by simp [hg]))
    simp only [List.flatMap_cons, List.append_assoc]
    by_cases hz : f = []
    · subst hz
      have hft : fragTokens [] = [.itemStart 0, .itemEnd] := by simp [fragTokens]
      rw [hft]
      simp [buildEncapsulated, ih]
    · have he : f.isEmpty = false := by cases f <;> simp_all
      have hft : fragTokens f = [.itemStart (f.length % 4294967296), .itemValue f, .itemEnd] := by
        simp [fragTokens, he]
      rw [hft]
      simp [buildEncapsulated, ih]

theorem build_pix {bot : List Nat} {frags : List Bytes} (ok : PixOk bot frags) (rest : List Token) :
    buildEncapsulated (botTokens bot ++ (frags.flatMap fragTokens ++ .sequenceEnd :: rest)) none [] false =
      .ok (bot, frags, rest) := by
  have hm : bot.length * 4 % 4294967296 = bot.length * 4 := Nat.mod_eq_of_lt (by have := ok.botLen; omega)
  unfold botTokens
  rw [hm]
  by_cases hz : bot.length * 4 = 0
  · have hb0 : bot = [] := by
      cases bot with
      | nil => rfl
      | cons a r => simp at hz
    subst hb0
    simp [buildEncapsulated, build_frags rest [] frags [] ok.frags]
  · simp [hz, buildEncapsulated, build_frags rest bot frags [] ok.frags]

/-! ### data sets -/

def cnt : Elems → Nat
  | .nil => 0
  | .cons _ r => cnt r + 1

theorem cnt_le_tokens {ts : Syntax} {dict : Tag → Option VR} : ∀ es : Elems, canonElems ts dict es = true →
    cnt es ≤ es.tokens.length
  | .nil, _ => by simp [cnt]
  | .cons e r, h => by
    simp only [canonElems, Bool.and_eq_true] at h
    have ih := cnt_le_tokens r h.2
    have : 1 ≤ e.tokens.length := by
      cases e with
      | prim t vr len v => rw [prim_tokens (primOk_of_canon h.1)]; simp
      | seq t l its => simp [Elem.tokens]
      | pix b f => simp [Elem.tokens]
    simp only [cnt, Elems.tokens, List.length_append]
    omega

mutual
theorem build_elems (ts : Syntax) (dict : Tag → Option VR) : ∀ (es : Elems), canonElems ts dict es = true →
    ∀ (fuel : Nat) (inItem : Bool) (rest : List Token) (acc : List Elem), es.tokens.length < fuel →
    (acc ++ toList es).Pairwise ELt →
    buildObject fuel inItem (es.tokens ++ rest) acc = buildObject (fuel - cnt es) inItem rest (acc ++ toList es)
  | .nil, _, fuel, inItem, rest, acc, _, _ => by simp [Elems.tokens, toList, cnt]
  | .cons (.prim t vr len v) more, hc, fuel, inItem, rest, acc, hf, hs => by
    simp only [canonElems, Bool.and_eq_true] at hc
    have htok := prim_tokens (primOk_of_canon hc.1)
    cases fuel with
    | zero => simp at hf
    | succ f =>
      have hall : ∀ x ∈ acc, ELt x (Elem.prim t vr len v) := by
        intro x hx
        have := List.pairwise_append.mp hs
        exact this.2.2 x hx _ (by simp [toList])
      have hs' : ((acc ++ [Elem.prim t vr len v]) ++ toList more).Pairwise ELt := by
        simpa [toList, List.append_assoc] using hs
      have hf' : more.tokens.length < f := by
        simp only [Elems.tokens, htok, List.length_append, List.length_cons, List.length_nil] at hf; omega
      have ih := build_elems ts dict more hc.2 f inItem rest (acc ++ [Elem.prim t vr len v]) hf' hs'
      simp only [Elems.tokens, htok, List.cons_append, List.nil_append, buildObject]
      rw [insert_last _ acc hall, ih]
      simp [toList, cnt, List.append_assoc]
  | .cons (.pix bot frags) more, hc, fuel, inItem, rest, acc, hf, hs => by
    simp only [canonElems, Bool.and_eq_true] at hc
    have ok := pixOk_of_canon hc.1
    cases fuel with
    | zero => simp at hf
    | succ f =>
      have hall : ∀ x ∈ acc, ELt x (Elem.pix bot frags) := by
        intro x hx
        have := List.pairwise_append.mp hs
        exact this.2.2 x hx _ (by simp [toList])
      have hs' : ((acc ++ [Elem.pix bot frags]) ++ toList more).Pairwise ELt := by
        simpa [toList, List.append_assoc] using hs
      have hf' : more.tokens.length < f := by
        simp only [Elems.tokens, Elem.tokens, List.length_append, List.length_cons, List.length_nil] at hf; omega
      have ih := build_elems ts dict more hc.2 f inItem rest (acc ++ [Elem.pix bot frags]) hf' hs'
      have hb := build_pix ok (more.tokens ++ rest)
      simp only [Elems.tokens, Elem.tokens, List.cons_append, List.append_assoc, List.nil_append, buildObject]
      rw [hb]
      simp only
      rw [insert_last _ acc hall, ih]
      simp [toList, cnt, List.append_assoc]
  | .cons (.seq tag len items) more, hc, fuel, inItem, rest, acc, hf, hs => by
    simp only [canonElems, Bool.and_eq_true] at hc
    have ok := seqOk_of_canon hc.1
    cases fuel with
    | zero => simp at hf
    | succ f =>
      have hall : ∀ x ∈ acc, ELt x (Elem.seq tag len items) := by
        intro x hx
        have := List.pairwise_append.mp hs
        exact this.2.2 x hx _ (by simp [toList])
      have hs' : ((acc ++ [Elem.seq tag len items]) ++ toList more).Pairwise ELt := by
        simpa [toList, List.append_assoc] using hs
      have hlen : (Elems.tokens (.cons (.seq tag len items) more)).length =
          items.tokens.length + 2 + more.tokens.length := by
        simp [Elems.tokens, Elem.tokens]; omega
      have hf' : more.tokens.length < f := by rw [hlen] at hf; omega
      have ih := build_elems ts dict more hc.2 f inItem rest (acc ++ [Elem.seq tag len items]) hf' hs'
      have hb := build_items ts dict items ok.items f (more.tokens ++ rest) [] (by rw [hlen] at hf; omega)
      simp only [Elems.tokens, Elem.tokens, List.cons_append, List.append_assoc, List.nil_append, buildObject]
      rw [hb]
      simp only [List.nil_append, itemsOfList_toList]
      rw [insert_last _ acc hall, ih]
      simp [toList, cnt, List.append_assoc]
theorem build_items (ts : Syntax) (dict : Tag → Option VR) : ∀ (its : Items), canonItems ts dict its = true →
    ∀ (fuel : Nat) (rest : List Token) (acc : List (Nat × Elems)), its.tokens.length < fuel →
    buildSequence fuel (its.tokens ++ .sequenceEnd :: rest) acc = .ok (acc ++ itemsToList its, rest)
  | .nil, _, fuel, rest, acc, hf => by
    cases fuel with
    | zero => simp at hf
    | succ f => simp [Items.tokens, buildSequence, itemsToList]
  | .cons len es more, hc, fuel, rest, acc, hf => by
    obtain ⟨ok, hmore⟩ := itemOk_of_canon hc
    cases fuel with
    | zero => simp at hf
    | succ f =>
      have hlen : (Items.tokens (.cons len es more)).length = es.tokens.length + 2 + more.tokens.length := by
        simp [Items.tokens]; omega
      rw [hlen] at hf
      have hcnt := cnt_le_tokens es ok.elems
      have h1 := build_elems ts dict es ok.elems f true (.itemEnd :: (more.tokens ++ .sequenceEnd :: rest)) []
        (by omega) (by simpa using sorted_pairwise es ok.sorted)
      have h2 : buildObject (f - cnt es) true (.itemEnd :: (more.tokens ++ .sequenceEnd :: rest)) ([] ++ toList es) =
          .ok (toList es, more.tokens ++ .sequenceEnd :: rest) := by
        have : f - cnt es = (f - cnt es - 1) + 1 := by omega
        rw [this]
        simp [buildObject]
      have ih := build_items ts dict more hmore f rest (acc ++ [(len, es)]) (by omega)
      simp only [Items.tokens, List.cons_append, List.append_assoc, buildSequence]
      rw [h1, h2]
      simp only [elemsOfList_toList]
      rw [ih]
      simp [itemsToList, List.append_assoc]
end

/-- `build_object` on the tokens of a canonical, tag-sorted data set returns its elements in order -/
theorem buildObject_ref (ts : Syntax) (dict : Tag → Option VR) (t : Elems) (hc : canonElems ts dict t = true)
    (hs : sortedElems t = true) (fuel : Nat) (hf : t.tokens.length < fuel) :
    buildObject fuel false t.tokens [] = .ok (toList t, []) := by
  have h := build_elems ts dict t hc fuel false [] [] hf (by simpa using sorted_pairwise t hs)
  rw [List.append_nil] at h
  rw [h]
  have hcnt := cnt_le_tokens t hc
  have : fuel - cnt t = (fuel - cnt t - 1) + 1 := by omega
  rw [this]
  simp [buildObject]

end Dicom.Ref
