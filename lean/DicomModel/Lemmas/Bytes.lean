import DicomModel.Model.Bytes
/-
Round-trip, length and byte-range lemmas for the integer codecs. All closed by `omega`/`simp`.
-/
namespace Dicom

@[simp] theorem le16_length (n : Nat) : (le16 n).length = 2 := rfl
@[simp] theorem be16_length (n : Nat) : (be16 n).length = 2 := rfl
@[simp] theorem le32_length (n : Nat) : (le32 n).length = 4 := rfl
@[simp] theorem be32_length (n : Nat) : (be32 n).length = 4 := rfl
@[simp] theorem le64_length (n : Nat) : (le64 n).length = 8 := rfl
@[simp] theorem be64_length (n : Nat) : (be64 n).length = 8 := rfl
@[simp] theorem enc16_length (be : Bool) (n : Nat) : (enc16 be n).length = 2 := by cases be <;> rfl
@[simp] theorem enc32_length (be : Bool) (n : Nat) : (enc32 be n).length = 4 := by cases be <;> rfl
@[simp] theorem enc64_length (be : Bool) (n : Nat) : (enc64 be n).length = 8 := by cases be <;> rfl

theorem rdLe16_le16 (n : Nat) (h : n < 65536) (r : Bytes) : rdLe16 (le16 n ++ r) = some (n, r) := by
  simp [rdLe16, le16]; omega
theorem rdBe16_be16 (n : Nat) (h : n < 65536) (r : Bytes) : rdBe16 (be16 n ++ r) = some (n, r) := by
  simp [rdBe16, be16]; omega
theorem rdLe32_le32 (n : Nat) (h : n < 4294967296) (r : Bytes) : rdLe32 (le32 n ++ r) = some (n, r) := by
  simp [rdLe32, le32]; omega
theorem rdBe32_be32 (n : Nat) (h : n < 4294967296) (r : Bytes) : rdBe32 (be32 n ++ r) = some (n, r) := by
  simp [rdBe32, be32]; omega
theorem rdLe64_le64 (n : Nat) (h : n < 18446744073709551616) (r : Bytes) :
    rdLe64 (le64 n ++ r) = some (n, r) := by
  have h1 : n % 4294967296 < 4294967296 := Nat.mod_lt _ (by omega)
  have h2 : n / 4294967296 < 4294967296 := by omega
  simp [rdLe64, le64, List.append_assoc, rdLe32_le32 _ h1, rdLe32_le32 _ h2]; omega
theorem rdBe64_be64 (n : Nat) (h : n < 18446744073709551616) (r : Bytes) :
    rdBe64 (be64 n ++ r) = some (n, r) := by
  have h1 : n % 4294967296 < 4294967296 := Nat.mod_lt _ (by omega)
  have h2 : n / 4294967296 < 4294967296 := by omega
  simp [rdBe64, be64, List.append_assoc, rdBe32_be32 _ h1, rdBe32_be32 _ h2]; omega

theorem rd16_enc16 (be : Bool) (n : Nat) (h : n < 65536) (r : Bytes) :
    rd16 be (enc16 be n ++ r) = some (n, r) := by
  cases be <;> simp [rd16, enc16, rdLe16_le16 _ h, rdBe16_be16 _ h]
theorem rd32_enc32 (be : Bool) (n : Nat) (h : n < 4294967296) (r : Bytes) :
    rd32 be (enc32 be n ++ r) = some (n, r) := by
  cases be <;> simp [rd32, enc32, rdLe32_le32 _ h, rdBe32_be32 _ h]
theorem rd64_enc64 (be : Bool) (n : Nat) (h : n < 18446744073709551616) (r : Bytes) :
    rd64 be (enc64 be n ++ r) = some (n, r) := by
  cases be <;> simp [rd64, enc64, rdLe64_le64 _ h, rdBe64_be64 _ h]

theorem le16_isBytes (n : Nat) : IsBytes (le16 n) := by
  intro b hb; simp [le16] at hb; omega
theorem be16_isBytes (n : Nat) : IsBytes (be16 n) := by
  intro b hb; simp [be16] at hb; omega
theorem le32_isBytes (n : Nat) : IsBytes (le32 n) := by
  intro b hb; simp [le32] at hb; omega
theorem be32_isBytes (n : Nat) : IsBytes (be32 n) := by
  intro b hb; simp [be32] at hb; omega

theorem IsBytes.append {a b : Bytes} (ha : IsBytes a) (hb : IsBytes b) : IsBytes (a ++ b) := by
  intro x hx; rcases List.mem_append.mp hx with h | h
  · exact ha x h
  · exact hb x h

/-- decoding is the inverse on byte lists: the decoded number re-encodes to the same bytes -/
theorem le16_rdLe16 (a b : Nat) (ha : a < 256) (hb : b < 256) : le16 (a + 256 * b) = [a, b] := by
  simp [le16]; omega
theorem le32_rdLe32 (a b c d : Nat) (ha : a < 256) (hb : b < 256) (hc : c < 256) (hd : d < 256) :
    le32 (a + 256 * b + 65536 * c + 16777216 * d) = [a, b, c, d] := by
  simp [le32]; omega

theorem takeN_append (a r : Bytes) : takeN a.length (a ++ r) = some (a, r) := by
  simp [takeN]

theorem takeN_short {n : Nat} {bs : Bytes} (h : bs.length < n) : takeN n bs = none := by
  simp [takeN]; omega

end Dicom
