import DicomModel.Lemmas.RefReader4
/-
C02, reader side, part 5: sequences, items, data sets (mutual induction), and the whole read.
-/
set_option linter.unusedSimpArgs false
set_option linter.unusedVariables false
namespace Dicom.Ref

def itemsNil : Items → Bool
  | .nil => true
  | _ => false
def elemsNil : Elems → Bool
  | .nil => true
  | _ => false

theorem encItems_nil_of_len {ts : Syntax} {its : Items} (h : (encItems ts its).length = 0) : itemsNil its = true := by
  cases its with
  | nil => rfl
  | cons l es r => simp [encItems, itemHdr_length] at h
theorem encElem_pos (ts : Syntax) (e : Elem) : 0 < (encElem ts e).length := by
  cases e with
  | prim t vr len v => have := header_pos ts t vr len; simp only [encElem, List.length_append]; omega
  | seq t len its => have := header_pos ts t .SQ len; simp only [encElem, List.length_append]; omega
  | pix b f => have := header_pos ts Tag.pixelData .OB undefinedLen; simp only [encElem, List.length_append]; omega

theorem encElems_nil_of_len {ts : Syntax} {es : Elems} (h : (encElems ts es).length = 0) : elemsNil es = true := by
  cases es with
  | nil => rfl
  | cons e r =>
    exfalso
    have := encElem_pos ts e
    simp only [encElems, List.length_append] at h
    omega

/-- what follows the items of a sequence / the elements of an item -/
def seqTail (be : Bool) (len : Nat) : Bytes := if len = undefinedLen then seqDelim be else []
def itemTail (be : Bool) (len : Nat) : Bytes := if len = undefinedLen then itemDelim be else []

theorem readVr_seq {ts : Syntax} {dict : Tag → Option VR} {tag : Tag} {len : Nat} {items : Items}
    (ok : SeqOk ts dict tag len items) :
    readVr ts dict tag .SQ = .SQ ∨ len = undefinedLen := by
  unfold readVr
  cases h : ts.explicit
  · rcases ok.len with h1 | ⟨_, _, h3⟩
    · exact Or.inr h1
    · left; simpa using h3 h
  · left; simp

/-- the item delimitation item met inside an item (read by the element header decoder) -/
theorem step_itemEndDelim (ts : Syntax) (dict : Tag → Option VR) (hdk : dictOk ts dict = true)
    (rest : Bytes) (pos : Nat) (p : Bool) (it : RSeqTok) (stack : List RSeqTok)
    (hpl : Plain (it :: stack)) (hu : it.len = undefinedLen) :
    StepTo (stE ts dict (itemDelim ts.bigEndian ++ rest) pos p (it :: stack)) .itemEnd
      (stI ts dict rest (pos + 8) true stack) := by
  refine StepTo.of_plain (fun fuel => ?_) (by intro vs h; cases h)
  obtain ⟨vr, hdec, he, hi⟩ := decodeHeader_delim ts dict 0xE00D (by decide) rest
  have hvr : vr ≠ .SQ := by
    cases hx : ts.explicit
    · rw [hi hx]
      simp only [dictOk, hx, Bool.false_or, bne_iff_ne, ne_eq] at hdk
      unfold implicitVr
      have h1 : (Tag.mk 0xFFFE 0xE00D) ≠ Tag.pixelData := by decide
      have h2 : ¬ ((Tag.mk 0xFFFE 0xE00D).group / 256 = 0x60 ∧ (Tag.mk 0xFFFE 0xE00D).elem = 0x3000) := by decide
      simp only [h1, h2, if_false]
      cases hd : dict ⟨0xFFFE, 0xE00D⟩ with
      | none => simp
      | some v =>
        simp only
        intro hv; subst hv; exact hdk hd
    · rw [he hx]; decide
  have hd : (Dec.mk ts dict (itemDelim ts.bigEndian ++ rest) pos).decodeHeader =
      .ok (⟨⟨0xFFFE, 0xE00D⟩, vr, 0⟩, ⟨ts, dict, rest, pos + 8⟩) := by
    have : itemDelim ts.bigEndian ++ rest = tagBytes ts.bigEndian ⟨0xFFFE, 0xE00D⟩ ++ enc32 ts.bigEndian 0 ++ rest := by
      simp [itemDelim, List.append_assoc]
    rw [this]
    simp only [Dec.decodeHeader, hdec]
  refine next_body _ _ _ fuel rfl (fun _ => Or.inl hu) ?_
  exact body_itemEndDelim _ _ false it stack _ hpl.noPixTop hd hvr rfl

mutual
theorem run_elem (ts : Syntax) (dict : Tag → Option VR) (hdk : dictOk ts dict = true) :
    ∀ (e : Elem), canonElem ts dict e = true →
    ∀ (rest : Bytes) (pos : Nat) (p : Bool) (stack : List RSeqTok), Plain stack →
      Room stack pos (encElem ts e).length →
      Run (stE ts dict (encElem ts e ++ rest) pos p stack) e.tokens
        (stE ts dict rest (pos + (encElem ts e).length) true stack)
  | .prim t vr len v, hc, rest, pos, p, stack, hpl, hroom => run_prim (primOk_of_canon hc) rest pos p stack hpl hroom
  | .pix bot frags, hc, rest, pos, p, stack, hpl, hroom => run_pix (pixOk_of_canon hc) rest pos p stack hpl hroom
  | .seq tag len items, hc, rest, pos, p, stack, hpl, hroom => by
    have ok := seqOk_of_canon hc
    have hlen : (encElem ts (.seq tag len items)).length =
        (header ts tag .SQ len).length + ((encItems ts items).length + (seqTail ts.bigEndian len).length) := by
      simp [encElem, seqTail]
    have hl32 : len < 4294967296 := by
      rcases ok.len with h | ⟨_, h, _⟩
      · rw [h]; decide
      · omega
    have hdec := dec_decodeHeader ts dict tag .SQ len ok.tagok hl32 (fun _ h => by simp [short16_SQ] at h)
      (encItems ts items ++ (seqTail ts.bigEndian len ++ rest)) pos
    -- SequenceStart
    have s1 : StepTo (stE ts dict (encElem ts (.seq tag len items) ++ rest) pos p stack) (.sequenceStart tag len)
        (stI ts dict (encItems ts items ++ (seqTail ts.bigEndian len ++ rest)) (pos + (header ts tag .SQ len).length) (len == 0)
          (⟨false, len, false, pos + (header ts tag .SQ len).length⟩ :: stack)) := by
      have henc : encElem ts (.seq tag len items) ++ rest =
          header ts tag .SQ len ++ (encItems ts items ++ (seqTail ts.bigEndian len ++ rest)) := by
        simp [encElem, seqTail, List.append_assoc]
      rw [henc]
      refine StepTo.of_plain (fun fuel => ?_) (by intro vs h; cases h)
      refine next_body _ _ _ fuel rfl (fun _ => hroom.open (by rw [hlen]; have := header_pos ts tag .SQ len; omega)) ?_
      refine body_seqStart _ _ false stack ⟨tag, readVr ts dict tag .SQ, len⟩ hpl.noPixTop hdec ?_
      rcases readVr_seq ok with h | h
      · exact Or.inl h
      · exact Or.inr ⟨h, tagOk_ne_delim ok.tagok, encaps_false_of_tag ok.notPix⟩
    -- the items
    have hpl2 : Plain (⟨false, len, false, pos + (header ts tag .SQ len).length⟩ :: stack) := by
      intro f hf
      rcases List.mem_cons.mp hf with h | h
      · subst h; rfl
      · exact hpl f h
    have hroom2 : Room (⟨false, len, false, pos + (header ts tag .SQ len).length⟩ :: stack) (pos + (header ts tag .SQ len).length) (encItems ts items).length := by
      simp only [Room]
      rcases ok.len with h | ⟨h, _, _⟩
      · exact Or.inl h
      · right; omega
    have r2 := run_items ts dict hdk items ok.items (seqTail ts.bigEndian len ++ rest) (pos + (header ts tag .SQ len).length) (len == 0)
      ⟨false, len, false, pos + (header ts tag .SQ len).length⟩ stack hpl2 hroom2
    -- SequenceEnd
    have s3 : StepTo (stI ts dict (seqTail ts.bigEndian len ++ rest) (pos + (header ts tag .SQ len).length + (encItems ts items).length)
        (if itemsNil items then (len == 0) else true) (⟨false, len, false, pos + (header ts tag .SQ len).length⟩ :: stack)) .sequenceEnd
        (stE ts dict rest (pos + (header ts tag .SQ len).length + (encItems ts items).length + (seqTail ts.bigEndian len).length) true stack) := by
      refine StepTo.of_plain (fun fuel => ?_) (by intro vs h; cases h)
      by_cases hu : len = undefinedLen
      · simp only [seqTail, hu, if_true, seqDelim_length]
        refine next_body _ _ _ fuel rfl (fun _ => by simp [Open]) ?_
        exact body_seqEndDelim _ _ false _ none (dec_seqDelim ts dict rest _)
      · have hle : len = (encItems ts items).length := by
          rcases ok.len with h | ⟨h, _, _⟩
          · exact absurd h hu
          · exact h
        have hp : (if itemsNil items then (len == 0) else true) = true := by
          cases hn : itemsNil items
          · simp
          · cases items with
            | nil => simp [encItems] at hle; simp [hle]
            | cons a b c => simp [itemsNil] at hn
        rw [hp]
        simp only [seqTail, hu, if_false, List.nil_append, List.length_nil, Nat.add_zero]
        have := next_end ⟨ts, dict, rest, pos + (header ts tag .SQ len).length + (encItems ts items).length⟩ true false
          ⟨false, len, false, pos + (header ts tag .SQ len).length⟩ stack none fuel hu (by simp only; omega)
        simpa using this
    have all := (Run.cons s1 r2).append (Run.single s3)
    have htok : Elem.tokens (.seq tag len items) = (.sequenceStart tag len :: items.tokens) ++ [.sequenceEnd] := by
      simp [Elem.tokens]
    rw [htok]
    exact all.cast (stE_pos (by rw [hlen]; omega))
theorem run_items (ts : Syntax) (dict : Tag → Option VR) (hdk : dictOk ts dict = true) :
    ∀ (its : Items), canonItems ts dict its = true →
    ∀ (rest : Bytes) (pos : Nat) (p : Bool) (sq : RSeqTok) (stack : List RSeqTok), Plain (sq :: stack) →
      Room (sq :: stack) pos (encItems ts its).length →
      Run (stI ts dict (encItems ts its ++ rest) pos p (sq :: stack)) its.tokens
        (stI ts dict rest (pos + (encItems ts its).length) (if itemsNil its then p else true) (sq :: stack))
  | .nil, _, rest, pos, p, sq, stack, _, _ => by simpa [encItems, Items.tokens, itemsNil] using Run.nil _
  | .cons len es more, hc, rest, pos, p, sq, stack, hpl, hroom => by
    obtain ⟨ok, hmore⟩ := itemOk_of_canon hc
    have hlen : (encItems ts (.cons len es more)).length =
        8 + ((encElems ts es).length + ((itemTail ts.bigEndian len).length + (encItems ts more).length)) := by
      simp [encItems, itemHdr_length, itemTail]
    have hl32 : len < 4294967296 := by
      rcases ok.len with h | ⟨_, h⟩
      · rw [h]; decide
      · omega
    have hsqp : sq.pixelData = false := hpl sq (by simp)
    let it : RSeqTok := ⟨true, len, false, pos + 8⟩
    -- ItemStart
    have s1 : StepTo (stI ts dict (encItems ts (.cons len es more) ++ rest) pos p (sq :: stack)) (.itemStart len)
        (stE ts dict (encElems ts es ++ (itemTail ts.bigEndian len ++ (encItems ts more ++ rest))) (pos + 8) (len == 0) (it :: sq :: stack)) := by
      refine StepTo.of_plain (fun fuel => ?_) (by intro vs h; cases h)
      refine next_body _ _ _ fuel rfl (fun _ => hroom.open (by rw [hlen]; omega)) ?_
      have := body_itemStart _ _ false sq stack none len
        (dec_itemHeader ts dict len hl32 (encElems ts es ++ (itemTail ts.bigEndian len ++ (encItems ts more ++ rest))) pos)
      rw [hsqp] at this
      simpa [encItems, List.append_assoc, itemTail] using this
    have hpl2 : Plain (it :: sq :: stack) := by
      intro f hf
      rcases List.mem_cons.mp hf with h | h
      · subst h; rfl
      · exact hpl f h
    have hroom2 : Room (it :: sq :: stack) (pos + 8) (encElems ts es).length := by
      simp only [Room, it]
      rcases ok.len with h | ⟨h, _⟩
      · exact Or.inl h
      · right; omega
    have r2 := run_elems ts dict hdk es ok.elems (itemTail ts.bigEndian len ++ (encItems ts more ++ rest)) (pos + 8) (len == 0)
      (it :: sq :: stack) hpl2 hroom2
    -- ItemEnd
    have s3 : StepTo (stE ts dict (itemTail ts.bigEndian len ++ (encItems ts more ++ rest)) (pos + 8 + (encElems ts es).length)
        (if elemsNil es then (len == 0) else true) (it :: sq :: stack)) .itemEnd
        (stI ts dict (encItems ts more ++ rest) (pos + 8 + (encElems ts es).length + (itemTail ts.bigEndian len).length) true (sq :: stack)) := by
      by_cases hu : len = undefinedLen
      · simp only [itemTail, hu, if_true, itemDelim_length]
        exact step_itemEndDelim ts dict hdk _ _ _ it (sq :: stack) hpl2 hu
      · refine StepTo.of_plain (fun fuel => ?_) (by intro vs h; cases h)
        have hle : len = (encElems ts es).length := by
          rcases ok.len with h | ⟨h, _⟩
          · exact absurd h hu
          · exact h
        have hp : (if elemsNil es then (len == 0) else true) = true := by
          cases hn : elemsNil es
          · simp
          · cases es with
            | nil => simp [encElems] at hle; simp [hle]
            | cons a b => simp [elemsNil] at hn
        rw [hp]
        simp only [itemTail, hu, if_false, List.nil_append, List.length_nil, Nat.add_zero]
        have := next_end ⟨ts, dict, encItems ts more ++ rest, pos + 8 + (encElems ts es).length⟩ false false
          it (sq :: stack) none fuel hu (by simp only [it]; omega)
        simpa [it] using this
    have hroom4 : Room (sq :: stack) (pos + 8 + (encElems ts es).length + (itemTail ts.bigEndian len).length) (encItems ts more).length :=
      hroom.mono (by rw [hlen]; omega)
    have r4 := run_items ts dict hdk more hmore rest (pos + 8 + (encElems ts es).length + (itemTail ts.bigEndian len).length) true sq stack
      hpl hroom4
    have all := (Run.cons s1 r2).append (Run.cons s3 r4)
    have htok : Items.tokens (.cons len es more) = (.itemStart len :: es.tokens) ++ (.itemEnd :: more.tokens) := by
      simp [Items.tokens]
    rw [htok]
    have hfin : (if itemsNil more then true else true) = true := by cases itemsNil more <;> rfl
    rw [hfin] at all
    simp only [itemsNil, Bool.false_eq_true, if_false]
    exact all.cast (stI_pos (by rw [hlen]; omega))
theorem run_elems (ts : Syntax) (dict : Tag → Option VR) (hdk : dictOk ts dict = true) :
    ∀ (es : Elems), canonElems ts dict es = true →
    ∀ (rest : Bytes) (pos : Nat) (p : Bool) (stack : List RSeqTok), Plain stack →
      Room stack pos (encElems ts es).length →
      Run (stE ts dict (encElems ts es ++ rest) pos p stack) es.tokens
        (stE ts dict rest (pos + (encElems ts es).length) (if elemsNil es then p else true) stack)
  | .nil, _, rest, pos, p, stack, _, _ => by simpa [encElems, Elems.tokens, elemsNil] using Run.nil _
  | .cons e more, hc, rest, pos, p, stack, hpl, hroom => by
    simp only [canonElems, Bool.and_eq_true] at hc
    have hlen : (encElems ts (.cons e more)).length = (encElem ts e).length + (encElems ts more).length := by
      simp [encElems]
    have r1 := run_elem ts dict hdk e hc.1 (encElems ts more ++ rest) pos p stack hpl (hroom.mono (by rw [hlen]; omega))
    have r2 := run_elems ts dict hdk more hc.2 rest (pos + (encElem ts e).length) true stack hpl
      (hroom.mono (by rw [hlen]; omega))
    have all := r1.append r2
    have hfin : (if elemsNil more then true else true) = true := by cases elemsNil more <;> rfl
    rw [hfin] at all
    simp only [elemsNil, Bool.false_eq_true, if_false, Elems.tokens, encElems, List.append_assoc]
    exact all.cast (stE_pos (by simp [List.length_append]; omega))
end

end Dicom.Ref
