import DicomModel.Model.Adaptive
/-
Step lemmas for C07 over the reader model (Model/DsReader.lean): every branch of `next` that returns a
token adds to `position` exactly the number of bytes it takes from the source (`Exact`), and every header
decoder of the model reports its byte count truthfully (`HdrExact`).
-/
set_option linter.unusedSimpArgs false
set_option linter.unusedVariables false
namespace Dicom.Rd
variable {σ : Type}

/-- the step from `s` to `s'` took exactly as many bytes from the source as it added to `position` -/
def Exact (s s' : RSt) : Prop :=
  s'.pos + s'.src.length = s.pos + s.src.length ∧ s.pos ≤ s'.pos

theorem Exact.refl (s : RSt) : Exact s s := ⟨rfl, Nat.le_refl _⟩
theorem Exact.trans {a b c : RSt} (h1 : Exact a b) (h2 : Exact b c) : Exact a c :=
  ⟨h2.1.trans h1.1, Nat.le_trans h1.2 h2.2⟩

theorem rd16_len {be : Bool} {bs r : Bytes} {v : Nat} (h : rd16 be bs = some (v, r)) : r.length + 2 = bs.length := by
  unfold rd16 at h
  cases be <;> simp only [Bool.false_eq_true, if_false, if_true] at h
  · match bs, h with
    | a :: b :: r', h => simp [rdLe16] at h; rw [← h.2]; simp
  · match bs, h with
    | a :: b :: r', h => simp [rdBe16] at h; rw [← h.2]; simp

theorem rd32_len {be : Bool} {bs r : Bytes} {v : Nat} (h : rd32 be bs = some (v, r)) : r.length + 4 = bs.length := by
  unfold rd32 at h
  cases be <;> simp only [Bool.false_eq_true, if_false, if_true] at h
  · match bs, h with
    | a :: b :: c :: d :: r', h => simp [rdLe32] at h; rw [← h.2]; simp
  · match bs, h with
    | a :: b :: c :: d :: r', h => simp [rdBe32] at h; rw [← h.2]; simp

theorem decodeTag_len {be : Bool} {bs r : Bytes} {t : Tag} (h : decodeTag be bs = some (t, r)) :
    r.length + 4 = bs.length := by
  unfold decodeTag at h
  cases h1 : rd16 be bs with
  | none => simp [h1] at h
  | some p =>
    obtain ⟨g, r1⟩ := p
    simp only [h1] at h
    cases h2 : rd16 be r1 with
    | none => simp [h2] at h
    | some q =>
      obtain ⟨e, r2⟩ := q
      simp only [h2] at h
      have := rd16_len h1
      have := rd16_len h2
      simp at h
      rw [← h.2]; omega

theorem decodeItemHeader_len {be : Bool} {bs r : Bytes} {ih : ItemHeader}
    (h : decodeItemHeader be bs = .ok (ih, r)) : r.length + 8 = bs.length := by
  unfold decodeItemHeader at h
  cases h1 : decodeTag be bs with
  | none => simp [h1] at h
  | some p =>
    obtain ⟨t, r1⟩ := p
    simp only [h1] at h
    cases h2 : rd32 be r1 with
    | none => simp [h2] at h
    | some q =>
      obtain ⟨len, r2⟩ := q
      simp only [h2] at h
      have := decodeTag_len h1
      have := rd32_len h2
      cases h3 : ItemHeader.new t len with
      | error e => simp [h3] at h
      | ok hh =>
        simp only [h3] at h
        injection h with h
        injection h with _ h
        rw [← h]; omega

theorem takeN_len {n : Nat} {bs v r : Bytes} (h : takeN n bs = some (v, r)) :
    r.length + n = bs.length ∧ v.length = n := by
  unfold takeN at h
  split at h
  · simp at h; rw [← h.1, ← h.2]; simp; omega
  · simp at h


theorem updateSeqDelimiters_tok {s s' : RSt} {t : Tok} (h : updateSeqDelimiters s = .tok t s') : Exact s s' := by
  unfold updateSeqDelimiters at h
  split at h
  · split at h
    · simp only at h
      split at h
      · split at h <;> (injection h with _ h; rw [← h]; simp [Exact, RSt.pop])
      · split at h <;> simp at h
    · simp at h
  · simp at h

theorem updateSeqDelimiters_none {s s' : RSt} (h : updateSeqDelimiters s = .none s') :
    s' = { s with pending := false } := by
  unfold updateSeqDelimiters at h
  split at h
  · split at h
    · simp only at h
      split at h
      · split at h <;> simp at h
      · split at h
        · simp at h
        · injection h with h; exact h.symm
    · injection h with h; exact h.symm
  · injection h with h; exact h.symm

theorem nextInSeq_exact (cfg : Cfg) (be g : Bool) (s s' : RSt) (t : Tok)
    (h : nextInSeq cfg be g s = (.tok t, s')) : Exact s s' := by
  unfold nextInSeq at h
  split at h
  · rename_i len rest hd
    have hl := decodeItemHeader_len hd
    simp only at h
    split at h
    · simp at h
    · split at h
      · simp at h
      · simp only [Prod.mk.injEq] at h
        rw [← h.2]
        split <;> simp [Exact, RSt.push] <;> omega
  · rename_i rest hd
    have hl := decodeItemHeader_len hd
    simp only [Prod.mk.injEq] at h
    rw [← h.2]; simp [Exact, RSt.pop]; omega
  · rename_i rest hd
    have hl := decodeItemHeader_len hd
    simp only [Prod.mk.injEq] at h
    rw [← h.2]; simp [Exact, RSt.pop]; omega
  · simp only [Prod.mk.injEq] at h
    obtain ⟨h1, _⟩ := h
    split at h1 <;> (split at h1 <;> simp at h1)
  · simp at h

theorem nextPixelStart_exact (cfg : Cfg) (be : Bool) (s s' : RSt) (t : Tok)
    (h : nextPixelStart cfg be s = (.tok t, s')) : Exact s s' := by
  unfold nextPixelStart at h
  simp only [RSt.push] at h
  split at h
  · rename_i len rest hd
    have hl := decodeItemHeader_len hd
    split at h
    · simp at h
    · simp only [Prod.mk.injEq] at h
      rw [← h.2]
      split <;> simp [Exact, RSt.push] <;> omega
  · rename_i rest hd
    have hl := decodeItemHeader_len hd
    simp only [Prod.mk.injEq] at h
    rw [← h.2]; simp [Exact, RSt.pop]; omega
  · simp at h
  · simp at h
  · simp at h

theorem readValue_exact (cfg : Cfg) (be : Bool) (h : ElemHeader) (s s' : RSt) (v : RVal)
    (hr : readValue cfg be h s = some (v, s')) :
    s'.pos = s.pos + h.len ∧ s'.src = s.src.drop h.len ∧ h.len ≤ s.src.length := by
  unfold readValue at hr
  split at hr
  · rename_i h0
    simp at hr; rw [← hr.2, h0]; simp
  · split at hr
    · simp at hr
    · split at hr
      · simp at hr
      · rename_i vv rest htk
        have hlen := takeN_len htk
        have hdrop : rest = s.src.drop h.len := by
          unfold takeN at htk
          split at htk
          · simp at htk; exact htk.2.symm
          · simp at htk
        split at hr
        · simp at hr
          rw [← hr.2]
          simp [hdrop]
          omega
        · simp at hr


theorem readToVec_exact (len : Nat) (s : RSt) (h : len ≤ s.src.length) :
    Exact s (readToVec len s).2 := by
  simp [readToVec, Exact]; omega

theorem readU32ToVec_exact (be : Bool) (len : Nat) (s s' : RSt) (l : List Nat) (h : len ≤ s.src.length)
    (hr : readU32ToVec be len s = some (l, s')) : Exact s s' := by
  unfold readU32ToVec at hr
  simp only at hr
  split at hr
  · simp at hr
  · rename_i v rest htk
    have := takeN_len htk
    simp at hr
    rw [← hr.2]
    simp [Exact]
    omega

/-- the header decoder reports the number of bytes it took -/
def HdrExact (D : Dec σ) : Prop :=
  ∀ d bs h n rest d', D.header d bs = (.ok h n rest, d') → rest.length + n = bs.length

theorem headerStep_tok_exact {cfg : Cfg} {r : HdrRes} {s s' : RSt} {t : Tok}
    (hr : ∀ h n rest, r = .ok h n rest → rest.length + n = s.src.length)
    (h : headerStep cfg r s = .ret (.tok t) s') : Exact s s' := by
  cases r with
  | eofTag => simp [headerStep] at h
  | err => simp [headerStep] at h
  | ok h0 n rest =>
    have hl := hr h0 n rest rfl
    simp only [headerStep] at h
    repeat' split at h
    all_goals first
      | (cases h; done)
      | (injection h with h1 h2; rw [← h2]; simp [Exact, RSt.push, RSt.pop]; omega)

theorem headerStep_go_exact {cfg : Cfg} {r : HdrRes} {s s' : RSt}
    (hr : ∀ h n rest, r = .ok h n rest → rest.length + n = s.src.length)
    (h : headerStep cfg r s = .go s') : Exact s s' ∧ s'.stack = [] := by
  cases r with
  | eofTag => simp [headerStep] at h
  | err => simp [headerStep] at h
  | ok h0 n rest =>
    have hl := hr h0 n rest rfl
    simp only [headerStep] at h
    repeat' split at h
    all_goals first
      | (cases h; done)
      | (rename_i hs; injection h with h2; rw [← h2]; simp [Exact] at hs ⊢; exact ⟨by omega, hs⟩)


/-- an item value / offset table about to be read lies completely inside the source -/
def ItemReadOk (s : RSt) : Prop :=
  match s.stack with
  | ⟨true, len, true, _⟩ :: _ => s.inSeq = false → len ≠ undefinedLen → len ≤ s.src.length
  | _ => True

theorem preBody_tok_exact {cfg : Cfg} {be g : Bool} {s s' : RSt} {t : Tok} (hok : ItemReadOk s)
    (h : preBody cfg be g s = .ret (.tok t) s') : Exact s s' := by
  unfold preBody at h
  split at h
  · -- in sequence
    cases hn : nextInSeq cfg be g s with
    | mk o s1 =>
      rw [hn] at h
      simp only at h
      injection h with h1 h2
      subst h1; subst h2
      exact nextInSeq_exact cfg be g s _ t hn
  · rename_i hin
    split at h
    · rename_i len b tl hst
      unfold ItemReadOk at hok
      rw [hst] at hok
      simp only at hok
      split at h
      · simp at h
      · rename_i hund
        have hle : len ≤ s.src.length := hok (by simpa using hin) hund
        split at h
        · simp only at h
          split at h
          · rename_i tt s2 hrd
            injection h with h1 h2
            subst h2
            have := readU32ToVec_exact be len _ _ _ (by simpa using hle) hrd
            simpa [Exact] using this
          · simp at h
        · simp only at h
          injection h with h1 h2
          subst h2
          have := readToVec_exact len { s with pending := true } (by simpa using hle)
          simpa [Exact] using this
    · split at h
      · rename_i hh hlast
        split at h
        · cases hn : nextPixelStart cfg be s with
          | mk o s1 =>
            rw [hn] at h
            simp only at h
            injection h with h1 h2
            subst h1; subst h2
            exact nextPixelStart_exact cfg be s _ t hn
        · split at h
          · simp at h
          · rename_i v s2 hrv
            injection h with h1 h2
            subst h2
            have := readValue_exact cfg be hh s s2 v hrv
            simp [Exact, this.1, this.2.1]
            omega
      · simp at h

theorem preBody_go {cfg : Cfg} {be g : Bool} {s s' : RSt} (h : preBody cfg be g s = .go s') : s' = s := by
  unfold preBody at h
  split at h
  · cases hn : nextInSeq cfg be g s with
    | mk o s1 => rw [hn] at h; simp at h
  · split at h
    · split at h
      · simp at h
      · split at h
        · simp only at h
          split at h <;> simp at h
        · simp at h
    · split at h
      · split at h
        · cases hn : nextPixelStart cfg be s with
          | mk o s1 => rw [hn] at h; simp at h
        · split at h <;> simp at h
      · injection h with h; exact h.symm


theorem ItemReadOk_pending {s : RSt} (b : Bool) (h : ItemReadOk s) : ItemReadOk { s with pending := b } := by
  unfold ItemReadOk at *
  exact h

theorem preHeader_tok_exact {cfg : Cfg} {be g : Bool} {s s' : RSt} {t : Tok} (hok : ItemReadOk s)
    (h : preHeader cfg be g s = .ret (.tok t) s') : Exact s s' := by
  unfold preHeader at h
  split at h
  · split at h
    · rename_i t1 s1 hu
      injection h with h1 h2
      subst h2
      exact updateSeqDelimiters_tok hu
    · simp at h
    · rename_i s1 hu
      have := updateSeqDelimiters_none hu
      subst this
      have := preBody_tok_exact (ItemReadOk_pending false hok) h
      simpa [Exact] using this
  · exact preBody_tok_exact hok h

theorem preHeader_go {cfg : Cfg} {be g : Bool} {s s' : RSt} (h : preHeader cfg be g s = .go s') :
    Exact s s' ∧ s'.stack = s.stack := by
  unfold preHeader at h
  split at h
  · split at h
    · simp at h
    · simp at h
    · rename_i s1 hu
      have := updateSeqDelimiters_none hu
      subst this
      have := preBody_go h
      subst this
      simp [Exact]
  · have := preBody_go h
    subst this
    exact ⟨Exact.refl _, rfl⟩

theorem ItemReadOk_of_stack_nil {s : RSt} (h : s.stack = []) : ItemReadOk s := by
  unfold ItemReadOk; rw [h]; trivial

/-! ### the header decoders report their byte count truthfully -/

theorem decodeExplicitWith_len {short : List VR} {be : Bool} {bs rest : Bytes} {h : ElemHeader} {n : Nat}
    (hd : decodeExplicitWith short be bs = some (h, n, rest)) : rest.length + n = bs.length := by
  unfold decodeExplicitWith at hd
  cases ht : decodeTag be bs with
  | none => simp [ht] at hd
  | some p =>
    obtain ⟨t, r⟩ := p
    have hl := decodeTag_len ht
    simp only [ht] at hd
    split at hd
    · cases h32 : rd32 be r with
      | none => simp [h32] at hd
      | some q =>
        have := rd32_len h32
        simp [h32] at hd
        rw [← hd.2.1, ← hd.2.2]; omega
    · match r, hd with
      | [], hd => simp at hd
      | [_], hd => simp at hd
      | a :: b :: r1, hd =>
        simp only at hd
        simp only [List.length_cons] at hl
        split at hd
        · cases h16 : rd16 be r1 with
          | none => simp [h16] at hd
          | some q =>
            have := rd16_len h16
            simp [h16] at hd
            rw [← hd.2.1, ← hd.2.2]; omega
        · match r1, hd with
          | [], hd => simp at hd
          | [_], hd => simp at hd
          | _ :: _ :: r2, hd =>
            simp only at hd
            simp only [List.length_cons] at hl
            cases h32 : rd32 be r2 with
            | none => simp [h32] at hd
            | some q =>
              have := rd32_len h32
              simp [h32] at hd
              rw [← hd.2.1, ← hd.2.2]; omega

theorem decodeHeader_len {ts : Syntax} {dict : Tag → Option VR} {bs rest : Bytes} {h : ElemHeader} {n : Nat}
    (hd : decodeHeader ts dict bs = some (h, n, rest)) : rest.length + n = bs.length := by
  cases ts with
  | implicitLE =>
    simp only [decodeHeader] at hd
    cases ht : decodeTag false bs with
    | none => simp [ht] at hd
    | some p =>
      obtain ⟨t, r⟩ := p
      have hl := decodeTag_len ht
      simp only [ht] at hd
      cases h32 : rdLe32 r with
      | none => simp [h32] at hd
      | some q =>
        have : rd32 false r = some q := by simp [rd32, h32]
        have := rd32_len this
        simp [h32] at hd
        rw [← hd.2.1, ← hd.2.2]; omega
  | explicitLE => exact decodeExplicitWith_len hd
  | explicitBE => exact decodeExplicitWith_len hd

theorem hdrOf_ok {bs rest : Bytes} {o : Option (ElemHeader × Nat × Bytes)} {h : ElemHeader} {n : Nat}
    (hh : hdrOf bs o = .ok h n rest) : o = some (h, n, rest) := by
  cases o with
  | none => simp only [hdrOf] at hh; split at hh <;> simp at hh
  | some p => obtain ⟨a, b, c⟩ := p; simp [hdrOf] at hh; simp [hh]

/-- the three plain decoders -/
theorem plainDec_exact (ts : Syntax) (dict : Tag → Option VR) : HdrExact (plainDec ts dict) := by
  intro d bs h n rest d' hh
  simp only [plainDec, Prod.mk.injEq] at hh
  exact decodeHeader_len (hdrOf_ok hh.1)

theorem hdrOf_none_ne_ok {bs rest : Bytes} {h : ElemHeader} {n : Nat} : hdrOf bs none ≠ .ok h n rest := by
  simp only [hdrOf]; split <;> simp

theorem implicitRest_len {dictV : Tag → Option VVr} {t : Tag} {bs r rest : Bytes} {h : ElemHeader} {n : Nat}
    {st : VrState} (hh : implicitRest dictV t bs r = (.ok h n rest, st)) : rest.length + n = r.length + 4 := by
  unfold implicitRest at hh
  cases h32 : rdLe32 r with
  | none => simp [h32] at hh; exact absurd hh.1 hdrOf_none_ne_ok
  | some q =>
    have : rd32 false r = some q := by simp [rd32, h32]
    have := rd32_len this
    simp [h32] at hh
    rw [← hh.1.2.1, ← hh.1.2.2]; omega

theorem explicitLength_len {t : Tag} {vr : VR} {bs r1 rest : Bytes} {h : ElemHeader} {n : Nat}
    (hh : explicitLength t vr bs r1 = .ok h n rest) : rest.length + n = r1.length + 6 := by
  unfold explicitLength at hh
  split at hh
  · cases h16 : rdLe16 r1 with
    | none => simp [h16] at hh; exact absurd hh hdrOf_none_ne_ok
    | some q =>
      have : rd16 false r1 = some q := by simp [rd16, h16]
      have := rd16_len this
      simp [h16] at hh
      rw [← hh.2.1, ← hh.2.2]; omega
  · match r1, hh with
    | [], hh => exact absurd hh hdrOf_none_ne_ok
    | [_], hh => exact absurd hh hdrOf_none_ne_ok
    | _ :: _ :: r2, hh =>
      simp only at hh
      cases h32 : rdLe32 r2 with
      | none => simp [h32] at hh; exact absurd hh hdrOf_none_ne_ok
      | some q =>
        have : rd32 false r2 = some q := by simp [rd32, h32]
        have := rd32_len this
        simp [h32] at hh
        rw [← hh.2.1, ← hh.2.2]; simp; omega

/-- the adaptive decoder, in any of its states -/
theorem adaptiveDec_exact (dictV : Tag → Option VVr) : HdrExact (adaptiveDec dictV) := by
  intro d bs h n rest d' hh
  simp only [adaptiveDec] at hh
  unfold adaptiveHeader at hh
  cases ht : decodeTag false bs with
  | none => rw [ht] at hh; simp only [Prod.mk.injEq] at hh; exact absurd hh.1 hdrOf_none_ne_ok
  | some p =>
    obtain ⟨t, r⟩ := p
    have hl := decodeTag_len ht
    rw [ht] at hh
    simp only at hh
    split at hh
    · cases h32 : rdLe32 r with
      | none => simp [h32] at hh; exact absurd hh.1 hdrOf_none_ne_ok
      | some q =>
        have : rd32 false r = some q := by simp [rd32, h32]
        have := rd32_len this
        simp [h32] at hh
        rw [← hh.1.2.1, ← hh.1.2.2]; omega
    · cases d with
      | implicit => simp only at hh; have := implicitRest_len hh; omega
      | explicit =>
        simp only at hh
        match r, hh with
        | [], hh => simp only [Prod.mk.injEq] at hh; exact absurd hh.1 hdrOf_none_ne_ok
        | [_], hh => simp only [Prod.mk.injEq] at hh; exact absurd hh.1 hdrOf_none_ne_ok
        | a :: b :: r1, hh =>
          simp only [Prod.mk.injEq] at hh
          have := explicitLength_len hh.1
          simp only [List.length_cons] at hl; omega
      | unknown =>
        simp only at hh
        match r, hh with
        | [], hh => simp only [Prod.mk.injEq] at hh; exact absurd hh.1 hdrOf_none_ne_ok
        | [_], hh => simp only [Prod.mk.injEq] at hh; exact absurd hh.1 hdrOf_none_ne_ok
        | a :: b :: r1, hh =>
          simp only at hh
          simp only [List.length_cons] at hl
          repeat' split at hh
          all_goals first
            | (have := implicitRest_len hh; simp only [List.length_cons] at this; omega)
            | (simp only [Prod.mk.injEq] at hh; have := explicitLength_len hh.1; omega)



end Dicom.Rd
