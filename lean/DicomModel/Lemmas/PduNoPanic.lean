import DicomModel.Model.Pdu
import DicomModel.Lemmas.Pdu
/-
No-panic lemmas for the PDU reader model (`Model/Pdu.lean`), used by `Props/C05.lean`:
every unguarded `Buf` access (`u8P`, `u16P`, `u32P`, `takeP`) is preceded by a sufficient length test.
-/
namespace Dicom.C05
open Pdu

/-- the unguarded-`Buf`-access panic is not the outcome -/
def NP {α : Type} (r : Res α) : Prop := r ≠ .err .panic

theorem NP_ok {α : Type} (a : α) : NP (Res.ok a) := by intro h; cases h
theorem NP_inc {α : Type} : NP (Res.inc : Res α) := by intro h; cases h
theorem NP_err {α : Type} {e : RErr} (h : e ≠ .panic) : NP (Res.err e : Res α) := by
  intro h'; cases h'; exact h rfl

theorem NP_bind {α β : Type} {x : Res α} {f : α → Res β} (hx : NP x)
    (hf : ∀ a, x = .ok a → NP (f a)) : NP (x >>= f) := by
  cases x with
  | ok a => exact hf a rfl
  | inc => exact NP_inc
  | err e => intro h; apply hx; simpa using h

theorem u8I_np (bs : Bytes) : NP (u8I bs) := by cases bs <;> simp [u8I, NP]
theorem u16I_np (bs : Bytes) : NP (u16I bs) := by
  match bs with
  | [] => simp [u16I, NP]
  | [_] => simp [u16I, NP]
  | _ :: _ :: _ => simp [u16I, NP]
theorem u32I_np (bs : Bytes) : NP (u32I bs) := by
  match bs with
  | [] => simp [u32I, NP]
  | [_] => simp [u32I, NP]
  | [_, _] => simp [u32I, NP]
  | [_, _, _] => simp [u32I, NP]
  | _ :: _ :: _ :: _ :: _ => simp [u32I, NP]
theorem takeI_np (n : Nat) (bs : Bytes) : NP (takeI n bs) := by
  unfold takeI; split <;> simp [NP]

theorem subHeader_np (bs : Bytes) : NP (subHeader bs) := by
  unfold subHeader
  refine NP_bind (u8I_np _) fun ⟨t, bs⟩ _ => ?_
  refine NP_bind (u8I_np _) fun ⟨_, bs⟩ _ => ?_
  refine NP_bind (u16I_np _) fun ⟨len, bs⟩ _ => ?_
  exact NP_ok _

theorem readPcProposedSubs_np : ∀ (f : Nat) (bs : Bytes) (a : Option Str) (ts : List Str),
    NP (readPcProposedSubs f bs a ts) := by
  intro f
  induction f with
  | zero => intro bs a ts; cases bs <;> simp [readPcProposedSubs, NP]
  | succ f ih =>
    intro bs a ts
    cases bs with
    | nil => simp [readPcProposedSubs, NP]
    | cons b bs' =>
      simp only [readPcProposedSubs]
      refine NP_bind (subHeader_np _) fun ⟨t, len, bs⟩ _ => ?_
      simp only
      split
      · refine NP_bind (takeI_np _ _) fun ⟨x, bs⟩ _ => ih _ _ _
      · split
        · refine NP_bind (takeI_np _ _) fun ⟨x, bs⟩ _ => ih _ _ _
        · exact NP_err (by decide)

theorem readPcResultSubs_np : ∀ (f : Nat) (bs : Bytes) (ts : Option Str),
    NP (readPcResultSubs f bs ts) := by
  intro f
  induction f with
  | zero => intro bs ts; cases bs <;> simp [readPcResultSubs, NP]
  | succ f ih =>
    intro bs ts
    cases bs with
    | nil => simp [readPcResultSubs, NP]
    | cons b bs' =>
      simp only [readPcResultSubs]
      refine NP_bind (subHeader_np _) fun ⟨t, len, bs⟩ _ => ?_
      simp only
      split
      · cases ts with
        | some _ => exact NP_err (by decide)
        | none => exact NP_bind (takeI_np _ _) fun ⟨x, bs⟩ _ => ih _ _
      · exact NP_err (by decide)

theorem takeP_np {n : Nat} {bs : Bytes} (h : n ≤ bs.length) : NP (takeP n bs) := by
  unfold takeP
  have : ¬ bs.length < n := by omega
  simp [this, NP]

theorem takeP_eq {n : Nat} {bs : Bytes} {x : Bytes × Bytes} (h : takeP n bs = .ok x) :
    x = (bs.take n, bs.drop n) := by
  unfold takeP at h
  split at h
  · cases h
  · cases h; rfl

theorem readUserVarBody_np (t len : Nat) (bs : Bytes) : NP (readUserVarBody t len bs) := by
  unfold readUserVarBody
  split
  · exact NP_bind (u32I_np _) fun ⟨n, bs⟩ _ => NP_ok _
  split
  · exact NP_bind (takeI_np _ _) fun ⟨x, bs⟩ _ => NP_ok _
  split
  · refine NP_bind (u16I_np _) fun ⟨ul, bs⟩ _ => ?_
    refine NP_bind (takeI_np _ _) fun ⟨uid, bs⟩ _ => ?_
    refine NP_bind (u8I_np _) fun ⟨scu, bs⟩ _ => ?_
    exact NP_bind (u8I_np _) fun ⟨scp, bs⟩ _ => NP_ok _
  split
  · exact NP_bind (takeI_np _ _) fun ⟨x, bs⟩ _ => NP_ok _
  split
  · refine NP_bind (u16I_np _) fun ⟨ul, bs⟩ _ => ?_
    simp only
    split
    · exact NP_inc
    · split
      · exact NP_err (by decide)
      · rename_i hlen _
        refine NP_bind (takeP_np (by omega)) fun ⟨uid, bs⟩ _ => ?_
        exact NP_bind (takeI_np _ _) fun ⟨d, bs⟩ _ => NP_ok _
  split
  · refine NP_bind (u8I_np _) fun ⟨ty, bs⟩ _ => ?_
    refine NP_bind (u8I_np _) fun ⟨prr, bs⟩ _ => ?_
    refine NP_bind (u16I_np _) fun ⟨pl, bs⟩ _ => ?_
    refine NP_bind (takeI_np _ _) fun ⟨prim, bs⟩ _ => ?_
    refine NP_bind (u16I_np _) fun ⟨sl, bs⟩ _ => ?_
    refine NP_bind (takeI_np _ _) fun ⟨sec, bs⟩ _ => ?_
    simp only
    split <;> exact NP_ok _
  · exact NP_bind (takeI_np _ _) fun ⟨d, bs⟩ _ => NP_ok _

theorem readUserVar_np (bs : Bytes) : NP (readUserVar bs) := by
  unfold readUserVar
  exact NP_bind (subHeader_np _) fun ⟨t, len, bs⟩ _ => readUserVarBody_np _ _ _

theorem readUserVarLoop_np : ∀ (f : Nat) (bs : Bytes) (acc : List UserVar),
    NP (readUserVarLoop f bs acc) := by
  intro f
  induction f with
  | zero => intro bs acc; cases bs <;> simp [readUserVarLoop, NP]
  | succ f ih =>
    intro bs acc
    cases bs with
    | nil => simp [readUserVarLoop, NP]
    | cons b bs' =>
      simp only [readUserVarLoop]
      refine NP_bind (readUserVar_np _) fun ⟨v, bs⟩ _ => ?_
      cases v <;> exact ih _ _

theorem readVarBody_np (t : Nat) (body rest : Bytes) : NP (readVarBody t body rest) := by
  unfold readVarBody
  split
  · exact NP_ok _
  split
  · refine NP_bind (u8I_np _) fun ⟨id, b⟩ _ => ?_
    refine NP_bind (u8I_np _) fun ⟨_, b⟩ _ => ?_
    refine NP_bind (u8I_np _) fun ⟨_, b⟩ _ => ?_
    refine NP_bind (u8I_np _) fun ⟨_, b⟩ _ => ?_
    refine NP_bind (readPcProposedSubs_np _ _ _ _) fun ⟨a, tss⟩ _ => ?_
    cases a
    · exact NP_err (by decide)
    · exact NP_ok _
  split
  · refine NP_bind (u8I_np _) fun ⟨id, b⟩ _ => ?_
    refine NP_bind (u8I_np _) fun ⟨_, b⟩ _ => ?_
    refine NP_bind (u8I_np _) fun ⟨rc, b⟩ _ => ?_
    simp only
    split
    · exact NP_err (by decide)
    · refine NP_bind (u8I_np _) fun ⟨_, b⟩ _ => ?_
      refine NP_bind (readPcResultSubs_np _ _ _) fun ts _ => ?_
      cases ts
      · exact NP_err (by decide)
      · exact NP_ok _
  split
  · exact NP_bind (readUserVarLoop_np _ _ _) fun vs _ => NP_ok _
  · exact NP_ok _

theorem readPduVariable_np (bs : Bytes) : NP (readPduVariable bs) := by
  unfold readPduVariable
  refine NP_bind (subHeader_np _) fun ⟨t, len, bs⟩ _ => ?_
  exact NP_bind (takeI_np _ _) fun ⟨body, rest⟩ _ => readVarBody_np _ _ _

theorem readPduVariable'_np (bs : Bytes) : NP (readPduVariable' bs) := by
  unfold readPduVariable'
  have := readPduVariable_np bs
  split
  · exact NP_err (by decide)
  · exact this

theorem readRqVars_np : ∀ (f : Nat) (bs : Bytes) (acn : Option Str) (pcs : List PcProposed)
    (uvs : List UserVar), NP (readRqVars f bs acn pcs uvs) := by
  intro f
  induction f with
  | zero => intro bs acn pcs uvs; cases bs <;> simp [readRqVars, NP]
  | succ f ih =>
    intro bs acn pcs uvs
    cases bs with
    | nil => simp [readRqVars, NP]
    | cons b bs' =>
      simp only [readRqVars]
      refine NP_bind (readPduVariable'_np _) fun ⟨it, bs⟩ _ => ?_
      cases it <;> first | exact ih _ _ _ _ | exact NP_err (by decide)

theorem readAcVars_np : ∀ (f : Nat) (bs : Bytes) (acn : Option Str) (pcs : List PcResult)
    (uvs : List UserVar), NP (readAcVars f bs acn pcs uvs) := by
  intro f
  induction f with
  | zero => intro bs acn pcs uvs; cases bs <;> simp [readAcVars, NP]
  | succ f ih =>
    intro bs acn pcs uvs
    cases bs with
    | nil => simp [readAcVars, NP]
    | cons b bs' =>
      simp only [readAcVars]
      refine NP_bind (readPduVariable'_np _) fun ⟨it, bs⟩ _ => ?_
      cases it <;> first | exact ih _ _ _ _ | exact NP_err (by decide)

theorem u8P_ok {bs : Bytes} (h : 1 ≤ bs.length) : ∃ v, u8P bs = .ok (v, bs.drop 1) := by
  cases bs with
  | nil => simp at h
  | cons b r => exact ⟨b, rfl⟩

theorem u16P_ok {bs : Bytes} (h : 2 ≤ bs.length) : ∃ v, u16P bs = .ok (v, bs.drop 2) := by
  match bs, h with
  | a :: b :: r, _ => exact ⟨_, rfl⟩
  | [], h => simp at h
  | [_], h => simp at h

theorem u32P_ok {bs : Bytes} (h : 4 ≤ bs.length) : ∃ v, u32P bs = .ok (v, bs.drop 4) := by
  match bs, h with
  | a :: b :: c :: d :: r, _ => exact ⟨_, rfl⟩
  | [], h => simp at h
  | [_], h => simp at h
  | [_, _], h => simp at h
  | [_, _, _], h => simp at h

theorem takeP_ok {n : Nat} {bs : Bytes} (h : n ≤ bs.length) :
    takeP n bs = .ok (bs.take n, bs.drop n) := by
  unfold takeP
  have : ¬ bs.length < n := by omega
  simp [this]

theorem readAssocFixed_np (body : Bytes) : NP (readAssocFixed body) := by
  unfold readAssocFixed
  split
  · exact NP_err (by decide)
  · rename_i h
    have hl : 68 ≤ body.length := by omega
    obtain ⟨pv, e1⟩ := u16P_ok (bs := body) (by omega)
    obtain ⟨r2, e2⟩ := u16P_ok (bs := body.drop 2) (by simp only [List.length_drop]; omega)
    have e3 := takeP_ok (n := 16) (bs := (body.drop 2).drop 2) (by simp only [List.length_drop]; omega)
    have e4 := takeP_ok (n := 16) (bs := (((body.drop 2).drop 2).drop 16))
      (by simp only [List.length_drop]; omega)
    have e5 := takeP_ok (n := 32) (bs := ((((body.drop 2).drop 2).drop 16).drop 16))
      (by simp only [List.length_drop]; omega)
    simp only [Res.bind_eq, e1, Res.bind_ok, e2, e3, e4, e5, Res.pure_eq]
    exact NP_ok _

/-- the P-DATA value loop neither panics nor runs out of fuel when given its input length as fuel
(every round consumes at least 6 bytes) -/
theorem readPdvs_np : ∀ (f : Nat) (bs : Bytes) (acc : List Pdv), bs.length ≤ f →
    NP (readPdvs f bs acc) ∧ readPdvs f bs acc ≠ .err .fuel := by
  intro f
  induction f with
  | zero =>
    intro bs acc h
    have : bs = [] := List.eq_nil_of_length_eq_zero (by omega)
    subst this; simp [readPdvs, NP]
  | succ f ih =>
    intro bs acc h
    cases bs with
    | nil => simp [readPdvs, NP]
    | cons b bs' =>
      simp only [readPdvs]
      split
      · exact ⟨NP_err (by decide), by simp⟩
      · rename_i hl
        obtain ⟨len, e1⟩ := u32P_ok (bs := b :: bs') (by omega)
        simp only [Res.bind_eq, e1, Res.bind_ok]
        split
        · exact ⟨NP_err (by decide), by simp⟩
        · obtain ⟨pcid, e2⟩ := u8P_ok (bs := (b :: bs').drop 4) (by simp only [List.length_drop]; omega)
          obtain ⟨hh, e3⟩ := u8P_ok (bs := ((b :: bs').drop 4).drop 1)
            (by simp only [List.length_drop]; omega)
          simp only [e2, Res.bind_ok, e3]
          split
          · exact ⟨NP_err (by decide), by simp⟩
          · rename_i hlen
            rw [takeP_ok (by omega)]
            simp only [Res.bind_ok]
            apply ih
            simp only [List.length_drop, List.length_cons] at *
            omega

theorem readBody_np (t : Nat) (body : Bytes) : NP (readBody t body) := by
  unfold readBody
  split
  · refine NP_bind (readAssocFixed_np _) fun ⟨pv, called, calling, b⟩ _ => ?_
    refine NP_bind (readRqVars_np _ _ _ _ _) fun ⟨acn, pcs, uvs⟩ _ => ?_
    cases acn
    · exact NP_err (by decide)
    · exact NP_ok _
  split
  · refine NP_bind (readAssocFixed_np _) fun ⟨pv, called, calling, b⟩ _ => ?_
    refine NP_bind (readAcVars_np _ _ _ _ _) fun ⟨acn, pcs, uvs⟩ _ => ?_
    cases acn
    · exact NP_err (by decide)
    · exact NP_ok _
  split
  · split
    · exact NP_err (by decide)
    · rename_i hl
      obtain ⟨x1, e1⟩ := u8P_ok (bs := body) (by omega)
      obtain ⟨r, e2⟩ := u8P_ok (bs := body.drop 1) (by simp only [List.length_drop]; omega)
      simp only [Res.bind_eq, e1, Res.bind_ok, e2]
      split
      · exact NP_err (by decide)
      · obtain ⟨s', e3⟩ := u8P_ok (bs := (body.drop 1).drop 1) (by simp only [List.length_drop]; omega)
        obtain ⟨q, e4⟩ := u8P_ok (bs := ((body.drop 1).drop 1).drop 1)
          (by simp only [List.length_drop]; omega)
        simp only [e3, Res.bind_ok, e4]
        split
        · exact NP_err (by decide)
        · exact NP_ok _
  split
  · exact NP_bind (readPdvs_np _ _ _ (Nat.le_refl _)).1 fun vs _ => NP_ok _
  split
  · split
    · exact NP_err (by decide)
    · exact NP_ok _
  split
  · split
    · exact NP_err (by decide)
    · exact NP_ok _
  split
  · split
    · exact NP_err (by decide)
    · rename_i hl
      rw [takeP_ok (n := 2) (bs := body) (by omega)]
      obtain ⟨s', e3⟩ := u8P_ok (bs := body.drop 2) (by simp only [List.length_drop]; omega)
      obtain ⟨q, e4⟩ := u8P_ok (bs := (body.drop 2).drop 1) (by simp only [List.length_drop]; omega)
      simp only [Res.bind_eq, Res.bind_ok, e3, e4]
      split
      · exact NP_err (by decide)
      · exact NP_ok _
  · exact NP_ok _


end Dicom.C05
