import DicomModel.Model.Digits
/-
Fixed-width decimal print/parse lemmas (`Dicom.Digits`): lengths, digit-ness, the round trip
`readNumber (fixed w n) = n`, and the link between Rust's `{:0w}` / `to_string` and `fixed`.
-/
namespace Dicom.Digits

@[simp] theorem fixed_length (w n : Nat) : (fixed w n).length = w := by
  induction w generalizing n with
  | zero => rfl
  | succ w ih => simp [fixed, ih]

theorem fixed_isDigit (w n : Nat) : ∀ b ∈ fixed w n, isDigit b = true := by
  induction w generalizing n with
  | zero => simp [fixed]
  | succ w ih =>
    intro b hb
    simp only [fixed, List.mem_append, List.mem_singleton] at hb
    rcases hb with hb | hb
    · exact ih _ b hb
    · subst hb; simp [isDigit]; omega

theorem fixed_any_nondigit (w n : Nat) : (fixed w n).any (fun b => !isDigit b) = false := by
  rw [List.any_eq_false]
  intro b hb
  simp [fixed_isDigit w n b hb]

theorem readUnchecked_eq_foldl (l : Bytes) :
    readUnchecked l = l.foldl (fun acc v => acc * 10 + (v - 48)) 0 := by
  cases l with
  | nil => rfl
  | cons b r => simp [readUnchecked]

theorem foldl_fixed (w n acc : Nat) :
    (fixed w n).foldl (fun acc v => acc * 10 + (v - 48)) acc = acc * 10 ^ w + n % 10 ^ w := by
  induction w generalizing n acc with
  | zero => simp [fixed, Nat.mod_one]
  | succ w ih =>
    simp only [fixed, List.foldl_append, List.foldl_cons, List.foldl_nil, ih]
    have h1 : 48 + n % 10 - 48 = n % 10 := by omega
    rw [h1, Nat.pow_succ]
    have h2 : n % (10 ^ w * 10) = (n / 10 % 10 ^ w) * 10 + n % 10 := by
      rw [Nat.mul_comm (10 ^ w) 10, Nat.mod_mul, Nat.mul_comm]; omega
    rw [h2, Nat.add_mul, Nat.mul_assoc]; omega

/-- a `w`-digit field (1 ≤ w ≤ 9) holding `n < 10^w` reads back as `n` -/
theorem readNumber_fixed {w n : Nat} (h1 : 1 ≤ w) (h9 : w ≤ 9) (hn : n < 10 ^ w) :
    readNumber (fixed w n) = some n := by
  have hne : (fixed w n).isEmpty = false := by
    cases h : fixed w n with
    | nil => have := fixed_length w n; rw [h] at this; simp at this; omega
    | cons _ _ => rfl
  have hlen : ¬ (fixed w n).length > 9 := by simp; omega
  simp only [readNumber, hne, Bool.false_or, decide_eq_true_eq, hlen, if_false,
    fixed_any_nondigit, Bool.false_eq_true, readUnchecked_eq_foldl, foldl_fixed]
  simp [Nat.mod_eq_of_lt hn]

theorem fixed_zero (w : Nat) : fixed w 0 = List.replicate w 48 := by
  induction w with
  | zero => rfl
  | succ w ih => simp [fixed, ih, List.replicate_succ']

theorem toDecAux_fuel (f g n : Nat) (hf : n < f) (hg : n < g) : toDecAux f n = toDecAux g n := by
  induction f generalizing g n with
  | zero => omega
  | succ f ih =>
    cases g with
    | zero => omega
    | succ g =>
      simp only [toDecAux]
      by_cases hn : n < 10
      · simp [hn]
      · simp only [hn, if_false]
        rw [ih g (n / 10) (by omega) (by omega)]

theorem toDec_lt {n : Nat} (h : n < 10) : toDec n = [48 + n] := by
  simp [toDec, toDecAux, h]

theorem toDec_ge {n : Nat} (h : 10 ≤ n) : toDec n = toDec (n / 10) ++ [48 + n % 10] := by
  have hn : ¬ n < 10 := by omega
  show toDecAux (n + 1) n = toDecAux (n / 10 + 1) (n / 10) ++ [48 + n % 10]
  rw [toDecAux.eq_2]
  simp only [hn, if_false]
  rw [toDecAux_fuel n (n / 10 + 1) (n / 10) (by omega) (by omega)]

/-- below `10^w` the decimal string has at most `w` characters, and padding it gives `fixed` -/
theorem pad_toDec {w n : Nat} (h1 : 1 ≤ w) (hn : n < 10 ^ w) :
    (toDec n).length ≤ w ∧ List.replicate (w - (toDec n).length) 48 ++ toDec n = fixed w n := by
  induction w generalizing n with
  | zero => omega
  | succ w ih =>
    by_cases hlt : n < 10
    · rw [toDec_lt hlt]
      have hz : n / 10 = 0 := by omega
      have hm : n % 10 = n := by omega
      simp [fixed, hz, hm, fixed_zero]
    · have hge : 10 ≤ n := by omega
      have hw : 1 ≤ w := by
        cases w with
        | zero => simp at hn; omega
        | succ _ => omega
      have hq : n / 10 < 10 ^ w := by rw [Nat.pow_succ] at hn; omega
      obtain ⟨hl, he⟩ := ih hw hq
      rw [toDec_ge hge]
      refine ⟨by simp; omega, ?_⟩
      simp only [fixed, ← he, List.length_append, List.length_singleton, List.append_assoc]
      congr 2
      omega

/-- `format!("{:0w}", n)` is the fixed-width field whenever the value fits -/
theorem fmtPad_eq_fixed {w n : Nat} (h1 : 1 ≤ w) (hn : n < 10 ^ w) : fmtPad w n = fixed w n :=
  (pad_toDec h1 hn).2

/-- `(10^w + f).to_string()` is `'1'` followed by the `w`-digit field of `f` -/
theorem toDec_pow_add {w f : Nat} (hf : f < 10 ^ w) : toDec (10 ^ w + f) = 49 :: fixed w f := by
  induction w generalizing f with
  | zero => simp at hf; subst hf; rfl
  | succ w ih =>
    have hp : 10 ^ (w + 1) = 10 ^ w * 10 := Nat.pow_succ ..
    have hpos : 0 < 10 ^ w := Nat.pow_pos (by omega)
    have hge : 10 ≤ 10 ^ (w + 1) + f := by omega
    rw [toDec_ge hge]
    have hd : (10 ^ (w + 1) + f) / 10 = 10 ^ w + f / 10 := by omega
    have hm : (10 ^ (w + 1) + f) % 10 = f % 10 := by omega
    rw [hd, hm, ih (by omega : f / 10 < 10 ^ w)]
    simp [fixed]

@[simp] theorem leadingDigits_fixed_append (w n : Nat) (r : Bytes) :
    leadingDigits (fixed w n ++ r) = w + leadingDigits r := by
  have : ∀ l : Bytes, (∀ b ∈ l, isDigit b = true) → leadingDigits (l ++ r) = l.length + leadingDigits r := by
    intro l
    induction l with
    | nil => simp
    | cons b t ih =>
      intro h
      have hb := h b (by simp)
      have ht := ih (fun x hx => h x (by simp [hx]))
      simp [leadingDigits, hb, ht]; omega
  simpa using this (fixed w n) (fixed_isDigit w n)

/-- a text whose first byte is not a digit is not a number -/
theorem readNumber_cons_nondigit {b : Nat} (h : isDigit b = false) (r : Bytes) :
    readNumber (b :: r) = none := by
  simp [readNumber, h]

end Dicom.Digits
