import DicomModel.Lemmas.Norm
import DicomModel.Lemmas.RefBuild
/-
Tree level: the normal form of a data set, well-formedness of the *original* data set, and
  * `rec_norm`   the (recursive = state machine) writer writes a tree and its normal form to the same bytes,
  * `canon_norm` the normal form of a well-formed tree is canonical in the sense of Model/RefEncode.lean
                 (so the reader/builder theorems of Props/C02 apply to it) with all lengths undefined.
-/
set_option linter.unusedSimpArgs false
namespace Dicom.Norm
open Dicom.C04

mutual
/-- **the data set as it comes back**: values in normal form, recorded value lengths = the written ones,
every sequence and item with undefined length, fragments padded to even length -/
def normElem (ts : Syntax) : Elem → Elem
  | .prim tag vr _ v =>
    .prim tag vr (paddedValue ts.bigEndian vr v).length (normValue ts.bigEndian vr v)
  | .seq tag _ items => .seq tag undefinedLen (normItems ts items)
  | .pix bot frags => .pix bot (frags.map fun f => padTo f 0)
def normItems (ts : Syntax) : Items → Items
  | .nil => .nil
  | .cons _ elems rest => .cons undefinedLen (normElems ts elems) (normItems ts rest)
def normElems (ts : Syntax) : Elems → Elems
  | .nil => .nil
  | .cons e rest => .cons (normElem ts e) (normElems ts rest)
end

mutual
/-- **well-formed in-memory data set** for syntax `ts` (and dictionary `dict` in Implicit VR): data element
tags outside group FFFE, values valid for their VR and fitting their header, Implicit VR only with the
dictionary's VR (the documented normalisation), encapsulated pixel data only as a pixel sequence,
ascending tags inside every item -/
def WfElem (ts : Syntax) (dict : Tag → Option VR) : Elem → Prop
  | .prim tag vr len v =>
    Ref.tagOk tag = true ∧ ¬ (vr = .OB ∧ tag = Tag.pixelData ∧ len = undefinedLen)
      ∧ ValidFor ts.bigEndian vr v ∧ FitsHeader ts vr (paddedValue ts.bigEndian vr v).length
      ∧ (ts.explicit = true ∨ Ref.implicitVr dict tag = vr)
  | .seq tag _ items => Ref.tagOk tag = true ∧ tag ≠ Tag.pixelData ∧ WfItems ts dict items
  | .pix bot frags =>
    4 * bot.length < 4294967295 ∧ (∀ o ∈ bot, o < 4294967296)
      ∧ ∀ f ∈ frags, f.length < 4294967294 ∧ ∀ b ∈ f, b < 256
def WfItems (ts : Syntax) (dict : Tag → Option VR) : Items → Prop
  | .nil => True
  | .cons _ elems rest => WfElems ts dict elems ∧ Ref.sortedElems elems = true ∧ WfItems ts dict rest
def WfElems (ts : Syntax) (dict : Tag → Option VR) : Elems → Prop
  | .nil => True
  | .cons e rest => WfElem ts dict e ∧ WfElems ts dict rest
end

/-! ### token-level well-formedness of both trees -/

mutual
theorem wf_elem (ts : Syntax) (dict : Tag → Option VR) : ∀ e, WfElem ts dict e → e.WF ∧ (normElem ts e).WF
  | .prim tag vr len v, h => by
    obtain ⟨_, h2, hv, hf, _⟩ := h
    refine ⟨⟨hv.1, h2⟩, hv.1, ?_⟩
    intro hx
    have := hf.1
    have h3 := hx.2.2
    unfold undefinedLen at h3
    omega
  | .seq tag len items, h => by
    have := wf_items ts dict items h.2.2
    exact ⟨this.1, this.2⟩
  | .pix bot frags, h => by
    refine ⟨fun f hf => by have := (h.2.2 f hf).1; omega, ?_⟩
    intro f hf
    obtain ⟨g, hg, rfl⟩ := List.mem_map.mp hf
    have := (h.2.2 g hg).1
    rw [padTo_length]; unfold evenUp; omega
theorem wf_items (ts : Syntax) (dict : Tag → Option VR) : ∀ its, WfItems ts dict its → its.WF ∧ (normItems ts its).WF
  | .nil, _ => ⟨trivial, trivial⟩
  | .cons len es r, h => by
    have h1 := wf_elems ts dict es h.1
    have h2 := wf_items ts dict r h.2.2
    exact ⟨⟨h1.1, h2.1⟩, h1.2, h2.2⟩
theorem wf_elems (ts : Syntax) (dict : Tag → Option VR) : ∀ es, WfElems ts dict es → es.WF ∧ (normElems ts es).WF
  | .nil, _ => ⟨trivial, trivial⟩
  | .cons e r, h => by
    have h1 := wf_elem ts dict e h.1
    have h2 := wf_elems ts dict r h.2
    exact ⟨⟨h1.1, h2.1⟩, h1.2, h2.2⟩
end

/-! ### the writer writes a tree and its normal form identically -/

theorem Enc.ext' {a b : Enc} (h1 : a.ts = b.ts) (h2 : a.out = b.out) (h3 : a.written = b.written) : a = b := by
  cases a; cases b; simp_all

theorem ascii_of_padTo {s : Bytes} {p : Nat} (h : Ascii (padTo s p)) : Ascii s := by
  intro b hb
  apply h
  unfold padTo; split
  · exact List.mem_append_left _ hb
  · exact hb

theorem split_ascii : ∀ (s : Bytes), Ascii s → ∀ p ∈ splitBackslash s, Ascii p := by
  intro s hs p hp
  have := split_component s hs
  have hp' := (List.all_eq_true.mp this) p hp
  intro b hb
  have := (List.all_eq_true.mp hp') b hb
  simp at this
  exact this.1

/-- the normal form of a valid value is valid (it is what the encoder's text / number paths expect) -/
theorem norm_writable (be : Bool) (vr : VR) (v : PValue) (hv : ValidFor be vr v) :
    ValueAscii (normValue be vr v) ∧ DsIsOk vr (normValue be vr v) := by
  obtain ⟨hsq, _, _, hcls⟩ := hv
  by_cases h0 : paddedValue be vr v = []
  · rw [norm_empty h0]; exact ⟨trivial, fun _ => trivial⟩
  rcases hcls with h | ⟨hvr, hasc⟩ | ⟨hvr, hb⟩ | hnum
  · exact absurd h h0
  · by_cases hs : vr ∈ strsVrs
    · rw [norm_strs h0 hs]; exact ⟨split_ascii _ hasc, fun _ => trivial⟩
    · have hs2 : vr ∈ strVrs := by rcases hvr with h | h; exact absurd h hs; exact h
      rw [norm_str h0 hs hs2]; exact ⟨hasc, fun _ => trivial⟩
  · rw [norm_u8 h0 hvr]; exact ⟨trivial, fun _ => trivial⟩
  · rw [norm_num h0 hnum]
    obtain ⟨_, _, _, h4, h5⟩ := not_text_of_numeric hnum
    refine ⟨by cases v <;> trivial, fun h => ?_⟩
    rcases h with h | h
    · exact absurd h h4
    · exact absurd h h5

/-- the normal form of a valid value is a valid value (with the same written bytes) -/
theorem normValue_valid (be : Bool) (vr : VR) (v : PValue) (hv : ValidFor be vr v) :
    ValidFor be vr (normValue be vr v) := by
  obtain ⟨ha, hd⟩ := norm_writable be vr v hv
  have hpn := paddedValue_norm be vr v hv
  refine ⟨hv.1, ha, hd, ?_⟩
  rw [hpn]
  obtain ⟨_, _, _, hcls⟩ := hv
  by_cases h0 : paddedValue be vr v = []
  · left; exact h0
  rcases hcls with h | h | h | hnum
  · left; exact h
  · right; left; exact h
  · right; right; left; exact h
  · right; right; right
    rw [norm_num h0 hnum]
    cases vr <;> cases v <;> simp [NumericOk] at hnum <;> simp only [dropTxt, NumericOk] <;>
      first
        | exact hnum
        | (intro p hp; obtain ⟨q, hq, rfl⟩ := List.mem_map.mp hp; exact hnum q.1 q.2 hq)

/-- **one element**: the encoder produces the same state for `v` and for its normal form -/
theorem primitiveElement_norm (e : Enc) (hex : Enc.Exact e) (tag : Tag) (vr : VR) (len len' : Nat) (v : PValue)
    (hv : ValidFor e.ts.bigEndian vr v) (hf : FitsHeader e.ts vr (paddedValue e.ts.bigEndian vr v).length) :
    e.primitiveElement ⟨tag, vr, len⟩ v = e.primitiveElement ⟨tag, vr, len'⟩ (normValue e.ts.bigEndian vr v) := by
  have hpn := paddedValue_norm e.ts.bigEndian vr v hv
  obtain ⟨ha', hd'⟩ := norm_writable e.ts.bigEndian vr v hv
  obtain ⟨e1, h1, t1⟩ := primitiveElement_total e ⟨tag, vr, len⟩ v hv.2.1 hv.2.2.1 hf
  obtain ⟨e2, h2, t2⟩ := primitiveElement_total e ⟨tag, vr, len'⟩ (normValue e.ts.bigEndian vr v) ha' hd'
    (by show FitsHeader e.ts vr (paddedValue e.ts.bigEndian vr (normValue e.ts.bigEndian vr v)).length
        rw [hpn]; exact hf)
  rw [h1, h2]
  have l1 := primitive_element_layout ⟨tag, vr, len⟩ v hv.2.1 hf.1 h1
  have l2 := primitive_element_layout ⟨tag, vr, len'⟩ (normValue e.ts.bigEndian vr v) ha'
    (by show (paddedValue e.ts.bigEndian vr (normValue e.ts.bigEndian vr v)).length < 4294967295
        rw [hpn]; exact hf.1) h2
  simp only at l1 l2
  rw [hpn] at l2
  obtain ⟨_, hb1, n1, he1, ho1⟩ := l1
  obtain ⟨_, hb2, n2, he2, ho2⟩ := l2
  rw [he1] at he2
  injection he2 with he2
  injection he2 with hb n
  subst hb
  have x1 := primitiveElement_exact hex _ _ h1
  have x2 := primitiveElement_exact hex _ _ h2
  congr 1
  apply Enc.ext'
  · rw [t1, t2]
  · rw [ho1, ho2]
  · unfold Enc.Exact at x1 x2; rw [x1, x2, ho1, ho2]

theorem recFrag_pad (e : Enc) (f : Bytes) (hf : f.length < 4294967294) : recFrag e (padTo f 0) = recFrag e f := by
  unfold recFrag padTo
  by_cases hodd : f.length % 2 = 1
  · have hne : f.isEmpty = false := by cases f <;> simp_all
    simp only [hodd, if_true, hne]
    have hne2 : (f ++ [0]).isEmpty = false := by cases f <;> simp
    simp only [hne2, Bool.false_eq_true, if_false, Enc.writeBytes, Enc.itemHeader, List.length_append,
      List.length_cons, List.length_nil]
    have h1 : (f.length + (0 + 1)) % 4294967296 = f.length + 1 := by omega
    have h2 : f.length % 4294967296 = f.length := by omega
    have h3 : ¬ (f.length + 1 = 4294967295) := by omega
    have h4 : ¬ (f.length = 4294967295) := by omega
    have h5 : evenLen (f.length + 1) = f.length + 1 := by unfold evenLen clearBit0; omega
    have h6 : evenLen f.length = f.length + 1 := by unfold evenLen clearBit0; omega
    have h7 : (f.length + 1) % 2 = 0 := by omega
    simp [h1, h2, h3, h4, h5, h6, h7, hodd, Enc.push, List.append_assoc, Nat.add_assoc]
  · simp [hodd]

theorem recFrags_pad : ∀ (frags : List Bytes) (e : Enc), (∀ f ∈ frags, f.length < 4294967294) →
    recFrags e (frags.map fun f => padTo f 0) = recFrags e frags
  | [], _, _ => rfl
  | f :: r, e, h => by
    simp only [List.map_cons, recFrags]
    rw [recFrag_pad e f (h f (by simp)), recFrags_pad r _ (fun x hx => h x (by simp [hx]))]

theorem recFrags_exact : ∀ (frags : List Bytes) (e : Enc), Enc.Exact e → Enc.Exact (recFrags e frags)
  | [], _, h => h
  | f :: r, e, h => by
    simp only [recFrags]
    apply recFrags_exact r
    unfold recFrag
    split
    · exact itemHeader_exact h _
    · exact writeBytes_exact (itemHeader_exact h _) _

theorem recBot_exact (bot : List Nat) (e : Enc) (h : Enc.Exact e) : Enc.Exact (recBot e bot) := by
  unfold recBot; split
  · exact itemHeader_exact h _
  · exact offsetTable_exact (itemHeader_exact h _) _

theorem recItemHeader_ts (e : Enc) (n : Nat) : (e.itemHeader n).ts = e.ts := rfl
theorem recItemDelimiter_ts (e : Enc) : e.itemDelimiter.ts = e.ts := rfl
theorem recSeqDelimiter_ts (e : Enc) : e.seqDelimiter.ts = e.ts := rfl

mutual
/-- the recursive writer treats a well-formed tree and its normal form alike; it keeps the counter exact
and the syntax -/
theorem rec_norm_elem (ts : Syntax) (dict : Tag → Option VR) : ∀ (el : Elem), WfElem ts dict el →
    ∀ (e : Enc), e.ts = ts → Enc.Exact e →
      recElem e (normElem ts el) = recElem e el ∧
      ∀ e', recElem e el = .ok e' → e'.ts = ts ∧ Enc.Exact e'
  | .prim tag vr len v, h, e, hts, hex => by
    obtain ⟨_, _, hv, hf, _⟩ := h
    subst hts
    have hnv : ValidFor e.ts.bigEndian vr (normValue e.ts.bigEndian vr v) := normValue_valid _ _ _ hv
    refine ⟨?_, ?_⟩
    · simp only [normElem, recElem]
      rw [encodePrimitiveElement_valid e tag vr _ _ _ hnv, encodePrimitiveElement_valid e tag vr _ _ _ hv]
      exact (primitiveElement_norm e hex tag vr len _ v hv hf).symm
    · intro e' he'
      simp only [recElem] at he'
      rw [encodePrimitiveElement_valid e tag vr _ _ _ hv] at he'
      obtain ⟨e1, h1, t1⟩ := primitiveElement_total e ⟨tag, vr, len⟩ v hv.2.1 hv.2.2.1 hf
      rw [h1] at he'; injection he' with he'; subst he'
      exact ⟨t1, primitiveElement_exact hex _ _ h1⟩
  | .seq tag len items, h, e, hts, hex => by
    simp only [normElem, recElem]
    cases h1 : e.elementHeader ⟨tag, .SQ, undefinedLen⟩ with
    | error x => simp [exBind]
    | ok e1 =>
      have hx1 := elementHeader_exact hex _ h1
      obtain ⟨_, _, t1⟩ := elementHeader_total e ⟨tag, .SQ, undefinedLen⟩ (fun _ hh => absurd hh sq_not_short)
      have ht1 : e1.ts = ts := by
        obtain ⟨e1', h1', t1'⟩ := elementHeader_total e ⟨tag, .SQ, undefinedLen⟩ (fun _ hh => absurd hh sq_not_short)
        rw [h1] at h1'; injection h1' with h1'; subst h1'; rw [t1', hts]
      obtain ⟨ih1, ih2⟩ := rec_norm_items ts dict items h.2.2 e1 ht1 hx1
      simp only [exBind, ih1]
      refine ⟨trivial, ?_⟩
      intro e' he'
      cases h2 : recItems e1 items with
      | error x => rw [h2] at he'; simp at he'
      | ok e2 =>
        rw [h2] at he'; simp only at he'; injection he' with he'; subst he'
        obtain ⟨t2, x2⟩ := ih2 e2 h2
        exact ⟨t2, seqDelimiter_exact x2⟩
  | .pix bot frags, h, e, hts, hex => by
    simp only [normElem, recElem]
    cases h1 : e.elementHeader ⟨Tag.pixelData, .OB, undefinedLen⟩ with
    | error x => simp [exBind]
    | ok e1 =>
      have hx1 := elementHeader_exact hex _ h1
      have ht1 : e1.ts = ts := by
        obtain ⟨e1', h1', t1'⟩ := elementHeader_total e ⟨Tag.pixelData, .OB, undefinedLen⟩ (fun _ hh => absurd hh ob_not_short)
        rw [h1] at h1'; injection h1' with h1'; subst h1'; rw [t1', hts]
      simp only [exBind]
      rw [recFrags_pad frags _ (fun f hf => (h.2.2 f hf).1)]
      refine ⟨rfl, ?_⟩
      intro e' he'
      injection he' with he'; subst he'
      refine ⟨?_, seqDelimiter_exact (recFrags_exact _ _ (recBot_exact _ _ hx1))⟩
      show (recFrags (recBot e1 bot) frags).ts = ts
      rw [recFrags_ts, recBot_ts, ht1]
theorem rec_norm_items (ts : Syntax) (dict : Tag → Option VR) : ∀ (its : Items), WfItems ts dict its →
    ∀ (e : Enc), e.ts = ts → Enc.Exact e →
      recItems e (normItems ts its) = recItems e its ∧
      ∀ e', recItems e its = .ok e' → e'.ts = ts ∧ Enc.Exact e'
  | .nil, _, e, hts, hex => ⟨rfl, fun e' he' => by simp [recItems] at he'; subst he'; exact ⟨hts, hex⟩⟩
  | .cons len es r, h, e, hts, hex => by
    simp only [normItems, recItems]
    obtain ⟨ih1, ih2⟩ := rec_norm_elems ts dict es h.1 (e.itemHeader undefinedLen) hts (itemHeader_exact hex _)
    rw [ih1]
    cases h1 : recElems (e.itemHeader undefinedLen) es with
    | error x => simp [exBind]
    | ok e1 =>
      obtain ⟨t1, x1⟩ := ih2 e1 h1
      obtain ⟨ih3, ih4⟩ := rec_norm_items ts dict r h.2.2 e1.itemDelimiter t1 (itemDelimiter_exact x1)
      simp only [exBind, ih3]
      exact ⟨trivial, ih4⟩
theorem rec_norm_elems (ts : Syntax) (dict : Tag → Option VR) : ∀ (es : Elems), WfElems ts dict es →
    ∀ (e : Enc), e.ts = ts → Enc.Exact e →
      recElems e (normElems ts es) = recElems e es ∧
      ∀ e', recElems e es = .ok e' → e'.ts = ts ∧ Enc.Exact e'
  | .nil, _, e, hts, hex => ⟨rfl, fun e' he' => by simp [recElems] at he'; subst he'; exact ⟨hts, hex⟩⟩
  | .cons el r, h, e, hts, hex => by
    simp only [normElems, recElems]
    obtain ⟨ih1, ih2⟩ := rec_norm_elem ts dict el h.1 e hts hex
    rw [ih1]
    cases h1 : recElem e el with
    | error x => simp [exBind]
    | ok e1 =>
      obtain ⟨t1, x1⟩ := ih2 e1 h1
      obtain ⟨ih3, ih4⟩ := rec_norm_elems ts dict r h.2 e1 t1 x1
      simp only [exBind, ih3]
      exact ⟨trivial, ih4⟩
end

/-- **the data set writer writes a well-formed tree and its normal form to the same bytes** -/
theorem write_norm (ts : Syntax) (dict : Tag → Option VR) (t : Elems) (h : WfElems ts dict t) :
    writeDataset ts .setUndefined (normElems ts t) = writeDataset ts .setUndefined t := by
  obtain ⟨w1, w2⟩ := wf_elems ts dict t h
  rw [writeDataset_eq_rec ts t w1, writeDataset_eq_rec ts _ w2]
  rw [(rec_norm_elems ts dict t h (Enc.new ts) rfl rfl).1]

end Dicom.Norm
