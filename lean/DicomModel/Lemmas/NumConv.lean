import DicomModel.Model.NumConv
import DicomModel.Model.NumConvSpec
/-
Helper lemmas for C11: ranges of the integer types, `as` casts, the accumulation loops of
`from_str_radix` against the denotation of a decimal text, decimal printing, `collect`.
-/
namespace Dicom.NumConv

/-! ### ranges -/

theorem lo_le_zero (T : IntTy) : T.lo ≤ 0 := by
  cases T <;> simp [IntTy.lo, IntTy.signed, IntTy.bits]

theorem zero_le_hi (T : IntTy) : 0 ≤ T.hi := by
  cases T <;> simp [IntTy.hi, IntTy.signed, IntTy.bits]

theorem lo_neg_signed {T : IntTy} (h : T.lo < 0) : T.signed = true := by
  cases T <;> simp_all [IntTy.lo, IntTy.signed]

theorem unsigned_lo {T : IntTy} (h : T.signed = false) : T.lo = 0 := by
  cases T <;> simp_all [IntTy.lo, IntTy.signed]

theorem numCast_eq_some {T : IntTy} {n m : Int} : numCast T n = some m ↔ m = n ∧ InRange T n := by
  unfold numCast
  split <;> simp_all <;> omega

theorem asCast_inRange (T : IntTy) (n : Int) : InRange T (asCast T n) := by
  have h0 : 0 ≤ n % (2 ^ T.bits : Int) := Int.emod_nonneg _ (by cases T <;> simp [IntTy.bits])
  have h1 : n % (2 ^ T.bits : Int) < 2 ^ T.bits := Int.emod_lt_of_pos _ (by cases T <;> simp [IntTy.bits])
  unfold asCast InRange
  cases T <;> simp only [IntTy.lo, IntTy.hi, IntTy.signed, IntTy.bits] at * <;> simp at * <;>
    (try split) <;> omega

theorem asCast_id {T : IntTy} {n : Int} (h : InRange T n) : asCast T n = n := by
  unfold asCast
  unfold InRange at h
  cases T <;> simp only [IntTy.lo, IntTy.hi, IntTy.signed, IntTy.bits] at * <;> simp at * <;>
    (try split) <;> omega

/-- an `as` cast changes a number by a multiple of `2^bits` only -/
theorem asCast_congr (T : IntTy) (n : Int) : (asCast T n - n) % (2 ^ T.bits : Int) = 0 := by
  unfold asCast
  cases T <;> simp only [IntTy.signed, IntTy.bits] <;> simp <;> (try split) <;> omega

/-! ### digits -/

theorem digitVal_range {c : Char} {d : Int} (h : digitVal c = some d) : 0 ≤ d ∧ d ≤ 9 := by
  unfold digitVal at h
  split at h
  · next hc =>
    simp at h
    have h1 : 48 ≤ c.toNat := by
      have := hc.1; rw [Char.le_def, UInt32.le_iff_toNat_le] at this; exact this
    have h2 : c.toNat ≤ 57 := by
      have := hc.2; rw [Char.le_def, UInt32.le_iff_toNat_le] at this; exact this
    omega
  · simp at h

theorem digitsFold_ge : ∀ (cs : List Char) (r n : Int), 0 ≤ r → digitsFold r cs = some n → r ≤ n
  | [], r, n, _, h => by simp [digitsFold] at h; omega
  | c :: cs, r, n, hr, h => by
    unfold digitsFold at h
    cases hd : digitVal c with
    | none => simp [hd] at h
    | some d =>
      simp only [hd] at h
      have := digitVal_range hd
      have := digitsFold_ge cs (r * 10 + d) n (by omega) h
      omega

theorem accPos_iff (T : IntTy) : ∀ (cs : List Char) (r n : Int), 0 ≤ r → r ≤ T.hi →
    (accPos T r cs = some n ↔ digitsFold r cs = some n ∧ n ≤ T.hi)
  | [], r, n, _, hh => by
    simp only [accPos, digitsFold, Option.some.injEq]
    constructor
    · intro e; subst e; exact ⟨rfl, hh⟩
    · intro e; exact e.1
  | c :: cs, r, n, hr, hh => by
    unfold accPos digitsFold
    cases hd : digitVal c with
    | none => simp
    | some d =>
      have hdr := digitVal_range hd
      simp only []
      split
      · next hc => exact accPos_iff T cs (r * 10 + d) n (by omega) hc.2
      · next hc =>
        constructor
        · intro e; cases e
        · intro ⟨e, hn⟩
          have := digitsFold_ge cs (r * 10 + d) n (by omega) e
          exact absurd ⟨by omega, by omega⟩ hc

theorem accNeg_iff (T : IntTy) : ∀ (cs : List Char) (r n : Int), r ≤ 0 → T.lo ≤ r →
    (accNeg T r cs = some n ↔ digitsFold (-r) cs = some (-n) ∧ T.lo ≤ n)
  | [], r, n, _, hh => by
    simp only [accNeg, digitsFold, Option.some.injEq]
    constructor
    · intro e; subst e; exact ⟨rfl, hh⟩
    · intro e; omega
  | c :: cs, r, n, hr, hh => by
    unfold accNeg digitsFold
    cases hd : digitVal c with
    | none => simp
    | some d =>
      have hdr := digitVal_range hd
      have e1 : -r * 10 + d = -(r * 10 - d) := by omega
      simp only [e1]
      split
      · next hc => exact accNeg_iff T cs (r * 10 - d) n (by omega) hc.2
      · next hc =>
        constructor
        · intro e; cases e
        · intro ⟨e, hn⟩
          have := digitsFold_ge cs (-(r * 10 - d)) (-n) (by omega) e
          exact absurd ⟨by omega, by omega⟩ hc

theorem digitsFold_append : ∀ (a b : List Char) (r : Int),
    digitsFold r (a ++ b) = (digitsFold r a).bind fun r' => digitsFold r' b
  | [], b, r => by simp [digitsFold]
  | c :: a, b, r => by
    simp only [List.cons_append, digitsFold]
    cases digitVal c with
    | none => simp
    | some d => exact digitsFold_append a b _

/-! ### the shape of a parsed text -/

theorem digitVal_plus : digitVal '+' = none := by decide
theorem digitVal_minus : digitVal '-' = none := by decide

theorem parseInt_other {T : IntTy} {c : Char} {rest : List Char} (h1 : c ≠ '+') (h2 : c ≠ '-') :
    parseInt T (c :: rest) = accPos T 0 (c :: rest) := by
  unfold parseInt
  split <;> simp_all

theorem parseInt_plus {T : IntTy} {c : Char} {rest : List Char} :
    parseInt T ('+' :: c :: rest) = accPos T 0 (c :: rest) := by
  simp [parseInt]

theorem parseInt_minus {T : IntTy} {c : Char} {rest : List Char} :
    parseInt T ('-' :: c :: rest) =
      if T.signed then accNeg T 0 (c :: rest) else none := by
  simp only [parseInt]
  split
  · rfl
  · simp [accPos, digitVal_minus]

theorem denote_other {c : Char} {rest : List Char} (h1 : c ≠ '+') (h2 : c ≠ '-') :
    denote (c :: rest) = digitsFold 0 (c :: rest) := by
  unfold denote
  split <;> simp_all [digitsVal]

/-! ### decimal printing -/

theorem digitVal_digitChar {d : Nat} (h : d < 10) : digitVal (digitChar d) = some (d : Int) := by
  have : ∀ d : Fin 10, digitVal (digitChar d.val) = some (d.val : Int) := by decide
  exact this ⟨d, h⟩

theorem digitChar_props {d : Nat} (h : d < 10) :
    digitChar d ≠ '+' ∧ digitChar d ≠ '-' ∧ wsOrNull (digitChar d) = false := by
  have : ∀ d : Fin 10, digitChar d.val ≠ '+' ∧ digitChar d.val ≠ '-' ∧
      wsOrNull (digitChar d.val) = false := by decide
  exact this ⟨d, h⟩

theorem showNat_ne_nil (n : Nat) : showNat n ≠ [] := by
  unfold showNat
  split <;> simp

theorem showNat_digits (n : Nat) : ∀ c ∈ showNat n, ∃ d, d < 10 ∧ c = digitChar d := by
  induction n using Nat.strongRecOn with
  | _ n ih =>
    intro c hc
    unfold showNat at hc
    split at hc
    · next h => simp at hc; exact ⟨n, h, hc⟩
    · next h =>
      simp only [List.mem_append, List.mem_singleton] at hc
      rcases hc with hc | hc
      · exact ih (n / 10) (by omega) c hc
      · exact ⟨n % 10, by omega, hc⟩

theorem digitsFold_showNat (n : Nat) : digitsFold 0 (showNat n) = some (n : Int) := by
  induction n using Nat.strongRecOn with
  | _ n ih =>
    unfold showNat
    split
    · next h => simp [digitsFold, digitVal_digitChar h]
    · next h =>
      rw [digitsFold_append, ih (n / 10) (by omega)]
      simp only [Option.bind_some, digitsFold, digitVal_digitChar (show n % 10 < 10 by omega)]
      congr 1
      omega

theorem denote_showInt (n : Int) : denote (showInt n) = some n := by
  unfold showInt
  split
  · next h =>
    simp only [denote, digitsVal]
    have := showNat_ne_nil n.natAbs
    cases hs : showNat n.natAbs with
    | nil => exact absurd hs this
    | cons c r =>
      rw [← hs, digitsFold_showNat]
      simp [hs]
      omega
  · next h =>
    have hne := showNat_ne_nil n.natAbs
    cases hs : showNat n.natAbs with
    | nil => exact absurd hs hne
    | cons c r =>
      obtain ⟨d, hd, hc⟩ := showNat_digits n.natAbs c (by simp [hs])
      have hp := digitChar_props hd
      rw [denote_other (hc ▸ hp.1) (hc ▸ hp.2.1), ← hs, digitsFold_showNat]
      congr 1
      omega

theorem showInt_head (n : Int) : ∀ c, (showInt n).head? = some c → (c = '-' ↔ n < 0) := by
  intro c hc
  unfold showInt at hc
  split at hc
  · next h => simp at hc; simp [← hc, h]
  · next h =>
    cases hs : showNat n.natAbs with
    | nil => exact absurd hs (showNat_ne_nil _)
    | cons a r =>
      obtain ⟨d, hd, ha⟩ := showNat_digits n.natAbs a (by simp [hs])
      simp [hs] at hc
      subst hc
      have := (digitChar_props hd).2.1
      constructor
      · intro e; exact absurd (ha ▸ e) this
      · intro e; exact absurd e h

theorem showInt_not_ws (n : Int) : ∀ c ∈ showInt n, wsOrNull c = false := by
  intro c hc
  unfold showInt at hc
  have hd : ∀ c ∈ showNat n.natAbs, wsOrNull c = false := by
    intro c hc
    obtain ⟨d, hd, e⟩ := showNat_digits _ c hc
    exact e ▸ (digitChar_props hd).2.2
  split at hc
  · simp only [List.mem_cons] at hc
    rcases hc with hc | hc
    · subst hc; decide
    · exact hd c hc
  · exact hd c hc

theorem dropWhile_id' {p : Char → Bool} {l : List Char}
    (h : ∀ x, l.head? = some x → p x = false) : l.dropWhile p = l := by
  cases l with
  | nil => rfl
  | cons a t => simp [List.dropWhile, h a rfl]

theorem trimWN_id {s : List Char} (h : ∀ c ∈ s, wsOrNull c = false) : trimWN s = s := by
  unfold trimWN
  have h1 : ∀ x, s.head? = some x → wsOrNull x = false :=
    fun x hx => h x (List.mem_of_head? hx)
  have h2 : ∀ x, s.reverse.head? = some x → wsOrNull x = false := by
    intro x hx
    rw [List.head?_reverse] at hx
    exact h x (List.mem_of_getLast? hx)
  rw [dropWhile_id' h1, dropWhile_id' h2, List.reverse_reverse]

/-! ### `collect::<Result<Vec<_>, _>>` -/

theorem collectOpt_eq_some {α β : Type} (f : α → Option β) :
    ∀ (l : List α) (r : List β), collectOpt f l = some r ↔ l.map f = r.map some
  | [], r => by cases r <;> simp [collectOpt]
  | x :: xs, r => by
    unfold collectOpt
    cases hx : f x with
    | none => cases r <;> simp [hx]
    | some y =>
      cases hc : collectOpt f xs with
      | none =>
        cases r with
        | nil => simp
        | cons a t =>
          simp [hx]
          intro _ e
          have := (collectOpt_eq_some f xs t).mpr e
          simp [hc] at this
      | some ys =>
        have ih := (collectOpt_eq_some f xs ys).mp hc
        cases r with
        | nil => simp
        | cons a t =>
          simp [hx, ih]
          intro _
          constructor
          · intro e; rw [e]
          · intro e; exact (List.map_inj_right (fun _ _ h => Option.some.inj h)).mp e

theorem collectOpt_length {α β : Type} {f : α → Option β} {l : List α} {r : List β}
    (h : collectOpt f l = some r) : r.length = l.length := by
  have := congrArg List.length ((collectOpt_eq_some f l r).mp h)
  simpa using this.symm

theorem collectOpt_append {α β : Type} (f : α → Option β) (a b : List α) :
    collectOpt f (a ++ b) =
      (collectOpt f a).bind fun ra => (collectOpt f b).map fun rb => ra ++ rb := by
  induction a with
  | nil => simp [collectOpt]
  | cons x xs ih =>
    simp only [List.cons_append, collectOpt]
    cases f x with
    | none => simp
    | some y =>
      simp only [ih]
      cases collectOpt f xs with
      | none => simp
      | some ys => cases collectOpt f b <;> simp

theorem collectOpt_map_some {α β : Type} (f : α → Option β) (g : α → β) (l : List α)
    (h : ∀ x ∈ l, f x = some (g x)) : collectOpt f l = some (l.map g) := by
  rw [collectOpt_eq_some]
  simp only [List.map_map]
  exact List.map_congr_left fun x hx => by simp [h x hx]

end Dicom.NumConv
