import DicomModel.Model.PersonName
/-
Helper lemmas for C17 (person names): `split('^')` of a `'^'`-joined text, `trim` is the identity
on a text whose ends are not white space, decomposition of a component list into its stripped
part and trailing absent components.
-/
namespace Dicom.PN

/-! ### split / join -/

theorem split_nocaret {s : List Char} (h : '^' ∉ s) : splitCaret s = [s] := by
  induction s with
  | nil => rfl
  | cons c cs ih =>
    have hc : c ≠ '^' := fun e => h (by simp [e])
    have hcs : '^' ∉ cs := fun m => h (by simp [m])
    simp [splitCaret, hc, ih hcs]

theorem split_append {s : List Char} (h : '^' ∉ s) (r : List Char) :
    splitCaret (s ++ '^' :: r) = s :: splitCaret r := by
  induction s with
  | nil => simp [splitCaret]
  | cons c cs ih =>
    have hc : c ≠ '^' := fun e => h (by simp [e])
    have hcs : '^' ∉ cs := fun m => h (by simp [m])
    simp [splitCaret, hc, ih hcs]

def NoCaret (c : Comp) : Prop := ∀ s, c = some s → '^' ∉ s

theorem noCaret_getD {c : Comp} (h : NoCaret c) : '^' ∉ c.getD [] := by
  cases c with
  | none => simp
  | some s => exact h s rfl

/-- splitting the joined text gives back the component texts (absent ↦ empty). -/
theorem split_join : ∀ (cs : List Comp), cs ≠ [] → (∀ c ∈ cs, NoCaret c) →
    splitCaret (joinCaret cs) = cs.map (·.getD [])
  | [], h, _ => absurd rfl h
  | [c], _, hc => by
    simp [joinCaret, split_nocaret (noCaret_getD (hc c (by simp)))]
  | c :: c' :: r, _, hc => by
    have h1 := noCaret_getD (hc c (by simp))
    have ih := split_join (c' :: r) (by simp) (fun x hx => hc x (by simp [hx]))
    simp only [joinCaret, split_append h1, ih, List.map_cons]

/-! ### trim is the identity on the produced text -/

theorem dropWhile_id {p : Char → Bool} {l : List Char}
    (h : ∀ x, l.head? = some x → p x = false) : l.dropWhile p = l := by
  cases l with
  | nil => rfl
  | cons a t => simp [List.dropWhile, h a rfl]

theorem trim_id {s : List Char} (hh : ∀ x, s.head? = some x → isWs x = false)
    (hl : ∀ x, s.getLast? = some x → isWs x = false) : trim s = s := by
  unfold trim
  rw [dropWhile_id hh, dropWhile_id (by simpa using hl), List.reverse_reverse]

theorem compOk_noCaret {c : Comp} (h : CompOk c = true) : NoCaret c := by
  intro s e; subst e
  simp [CompOk, strOk] at h
  exact h.1.1

theorem isWs_caret : isWs '^' = false := by decide

theorem compOk_head {c : Comp} (h : CompOk c = true) :
    ∀ x, (c.getD []).head? = some x → isWs x = false := by
  intro x hx
  cases c with
  | none => simp at hx
  | some s =>
    simp [CompOk, strOk] at h
    cases s with
    | nil => simp at hx
    | cons a t => simp at hx; subst hx; simpa using h.1.2

theorem compOk_last {c : Comp} (h : CompOk c = true) :
    ∀ x, (c.getD []).getLast? = some x → isWs x = false := by
  intro x hx
  cases c with
  | none => simp at hx
  | some s =>
    simp [CompOk, strOk] at h
    simp only [Option.getD_some] at hx
    have := h.2
    simp [hx] at this
    exact this

theorem join_head : ∀ (cs : List Comp), (∀ c ∈ cs, CompOk c = true) →
    ∀ x, (joinCaret cs).head? = some x → isWs x = false
  | [], _, x, hx => by simp [joinCaret] at hx
  | [c], h, x, hx => compOk_head (h c (by simp)) x (by simpa [joinCaret] using hx)
  | c :: c' :: r, h, x, hx => by
    simp only [joinCaret] at hx
    cases hc : c.getD [] with
    | nil => simp [hc] at hx; subst hx; exact isWs_caret
    | cons a t =>
      simp [hc] at hx; subst hx
      exact compOk_head (h c (by simp)) a (by simp [hc])

theorem join_last : ∀ (cs : List Comp), (∀ c ∈ cs, CompOk c = true) →
    ∀ x, (joinCaret cs).getLast? = some x → isWs x = false
  | [], _, x, hx => by simp [joinCaret] at hx
  | [c], h, x, hx => compOk_last (h c (by simp)) x (by simpa [joinCaret] using hx)
  | c :: c' :: r, h, x, hx => by
    have ih := join_last (c' :: r) (fun y hy => h y (by simp [hy]))
    simp only [joinCaret] at hx
    rw [List.getLast?_append] at hx
    cases hj : (joinCaret (c' :: r)).getLast? with
    | none =>
      simp [List.getLast?_cons, hj] at hx
      subst hx; exact isWs_caret
    | some y =>
      simp [List.getLast?_cons, hj] at hx
      subst hx; exact ih y hj

/-! ### trailing absent components -/

theorem strip_spec (cs : List Comp) :
    ∃ k, cs = stripTrailingNone cs ++ List.replicate k none := by
  refine ⟨(cs.reverse.takeWhile (·.isNone)).length, ?_⟩
  have h := List.takeWhile_append_dropWhile (p := fun c : Comp => c.isNone) (l := cs.reverse)
  have h2 : cs = (cs.reverse.dropWhile (·.isNone)).reverse ++ (cs.reverse.takeWhile (·.isNone)).reverse := by
    rw [← List.reverse_append, h, List.reverse_reverse]
  have h3 : (cs.reverse.takeWhile (·.isNone)).reverse
      = List.replicate (cs.reverse.takeWhile (·.isNone)).length none := by
    rw [List.eq_replicate_iff]
    refine ⟨by simp, ?_⟩
    intro b hb
    have hall := List.all_takeWhile (p := fun c : Comp => c.isNone) (l := cs.reverse)
    rw [List.all_eq_true] at hall
    have hb' := hall b (List.mem_reverse.mp hb)
    cases b with
    | none => rfl
    | some v => simp at hb'
  unfold stripTrailingNone
  rw [← h3]; exact h2

theorem strip_subset (cs : List Comp) : ∀ c ∈ stripTrailingNone cs, c ∈ cs := by
  intro c hc
  obtain ⟨k, hk⟩ := strip_spec cs
  rw [hk]; exact List.mem_append_left _ hc

theorem getElem?_join_strip (cs : List Comp) (i : Nat) :
    (stripTrailingNone cs)[i]?.join = cs[i]?.join := by
  obtain ⟨k, hk⟩ := strip_spec cs
  generalize stripTrailingNone cs = A at hk
  subst hk
  by_cases hi : i < A.length
  · rw [List.getElem?_append_left hi]
  · have hi' : A.length ≤ i := Nat.le_of_not_lt hi
    rw [List.getElem?_append_right hi', List.getElem?_eq_none hi']
    simp [List.getElem?_replicate]
    split <;> simp

/-- the last element left by `stripTrailingNone` is a present component -/
theorem strip_last (cs : List Comp) : (stripTrailingNone cs).getLast? ≠ some none := by
  unfold stripTrailingNone
  rw [List.getLast?_reverse]
  cases h : cs.reverse.dropWhile (·.isNone) with
  | nil => simp
  | cons a t =>
    have := List.head?_dropWhile_not (fun c : Comp => c.isNone) cs.reverse
    rw [h] at this
    simp at this
    simp
    intro e; subst e; simp at this

/-! ### components of the parsed text -/

theorem component_map (A : List Comp) (i : Nat) :
    component (A.map (·.getD [])) i = normEmpty (A[i]?.join) := by
  unfold component
  rw [List.getElem?_map]
  cases A[i]? with
  | none => rfl
  | some c =>
    cases c with
    | none => rfl
    | some s => cases s <;> rfl

theorem component_empty (i : Nat) : component [[]] i = none := by
  cases i <;> simp [component]

end Dicom.PN
