import DicomModel.Model.Partial
import DicomModel.Lemmas.Digits
/-
Helper lemmas for C12 (`Dicom.Partial`): validity predicates, canonical form of the encodings,
parser steps over `fixed`-width fields.
-/
namespace Dicom.Partial
open Dicom.Digits

/-! ## validity = what the constructors accept -/

def DicomDate.Valid : DicomDate → Prop
  | .year y => y ≤ 9999
  | .month y m => y ≤ 9999 ∧ 1 ≤ m ∧ m ≤ 12
  | .day y m d => y ≤ 9999 ∧ 1 ≤ m ∧ m ≤ 12 ∧ 1 ≤ d ∧ d ≤ 31

def DicomTime.Valid : DicomTime → Prop
  | .hour h => h ≤ 23
  | .minute h m => h ≤ 23 ∧ m ≤ 59
  | .second h m s => h ≤ 23 ∧ m ≤ 59 ∧ s ≤ 60
  | .fraction h m s f fp => h ≤ 23 ∧ m ≤ 59 ∧ s ≤ 60 ∧ 1 ≤ fp ∧ fp ≤ 6 ∧ f < 10 ^ fp

/-- DICOM `&ZZXX`: whole minutes within −12:00 … +14:00 (what the DT parser accepts) -/
def OffsetValid (o : Int) : Prop := o % 60 = 0 ∧ -43200 ≤ o ∧ o ≤ 50400

def DicomDateTime.Valid (v : DicomDateTime) : Prop :=
  v.date.Valid ∧ (∀ t, v.time = some t → t.Valid ∧ v.date.isPrecise = true) ∧
  (∀ o, v.tz = some o → OffsetValid o)

instance : DecidablePred DicomDate.Valid := fun v => by cases v <;> unfold DicomDate.Valid <;> infer_instance
instance : DecidablePred DicomTime.Valid := fun v => by cases v <;> unfold DicomTime.Valid <;> infer_instance
instance : DecidablePred OffsetValid := fun o => by unfold OffsetValid; infer_instance

theorem fromY_eq (y : Nat) : DicomDate.fromY y = if y ≤ 9999 then some (.year y) else none := by
  simp [DicomDate.fromY, checkComponent]
theorem fromYm_eq (y m : Nat) :
    DicomDate.fromYm y m = if y ≤ 9999 ∧ 1 ≤ m ∧ m ≤ 12 then some (.month y m) else none := by
  simp [DicomDate.fromYm, checkComponent]
theorem fromYmd_eq (y m d : Nat) :
    DicomDate.fromYmd y m d =
      if y ≤ 9999 ∧ 1 ≤ m ∧ m ≤ 12 ∧ 1 ≤ d ∧ d ≤ 31 then some (.day y m d) else none := by
  simp [DicomDate.fromYmd, checkComponent, and_assoc]

theorem fromH_eq (h : Nat) : DicomTime.fromH h = if h ≤ 23 then some (.hour h) else none := by
  simp [DicomTime.fromH, checkComponent]
theorem fromHm_eq (h m : Nat) :
    DicomTime.fromHm h m = if h ≤ 23 ∧ m ≤ 59 then some (.minute h m) else none := by
  simp [DicomTime.fromHm, checkComponent]
theorem fromHms_eq (h m s : Nat) :
    DicomTime.fromHms h m s = if h ≤ 23 ∧ m ≤ 59 ∧ s ≤ 60 then some (.second h m s) else none := by
  simp [DicomTime.fromHms, checkComponent, and_assoc]

theorem pow_split {fp : Nat} (h1 : 1 ≤ fp) (h6 : fp ≤ 6) :
    fp = 1 ∨ fp = 2 ∨ fp = 3 ∨ fp = 4 ∨ fp = 5 ∨ fp = 6 := by omega

theorem frac_key {f fp : Nat} (h1 : 1 ≤ fp) (h6 : fp ≤ 6) :
    (¬ (10 ^ fp < f) ∧ f * 10 ^ (6 - fp) ≤ 999999) ↔ f < 10 ^ fp := by
  rcases pow_split h1 h6 with rfl | rfl | rfl | rfl | rfl | rfl <;> simp <;> omega

theorem fromHmsf_eq (h m s f fp : Nat) :
    DicomTime.fromHmsf h m s f fp =
      if h ≤ 23 ∧ m ≤ 59 ∧ s ≤ 60 ∧ 1 ≤ fp ∧ fp ≤ 6 ∧ f < 10 ^ fp then some (.fraction h m s f fp)
      else none := by
  unfold DicomTime.fromHmsf
  by_cases hfp : 1 ≤ fp ∧ fp ≤ 6
  · have key := frac_key (f := f) hfp.1 hfp.2
    by_cases hf : f < 10 ^ fp
    · obtain ⟨a, b⟩ := key.mpr hf
      by_cases hh : h ≤ 23 <;> by_cases hm : m ≤ 59 <;> by_cases hs : s ≤ 60 <;>
        simp [checkComponent, hfp.1, hfp.2, a, b, hf, hh, hm, hs]
    · have : 10 ^ fp < f ∨ ¬ f * 10 ^ (6 - fp) ≤ 999999 := by
        by_cases c : 10 ^ fp < f
        · exact Or.inl c
        · exact Or.inr (fun d => hf (key.mp ⟨c, d⟩))
      rcases this with c | c <;> simp [checkComponent, hfp.1, hfp.2, c, hf]
  · have : ¬ (1 ≤ fp ∧ fp ≤ 6 ∧ f < 10 ^ fp) := fun h => hfp ⟨h.1, h.2.1⟩
    have h2 : (1 ≤ fp && fp ≤ 6) = false := by simp; omega
    simp [h2]
    intro _ _ _ a b; omega

/-! ## canonical form of the encodings -/

theorem take_fixed (w n : Nat) (r : Bytes) : (fixed w n ++ r).take w = fixed w n :=
  List.take_left' (fixed_length w n)
theorem drop_fixed (w n : Nat) (r : Bytes) : (fixed w n ++ r).drop w = r :=
  List.drop_left' (fixed_length w n)

theorem date_enc {v : DicomDate} (hv : v.Valid) :
    v.toEncoded = match v with
      | .year y => fixed 4 y
      | .month y m => fixed 4 y ++ fixed 2 m
      | .day y m d => fixed 4 y ++ (fixed 2 m ++ fixed 2 d) := by
  cases v with
  | year y => simp only [DicomDate.Valid] at hv; simp only [DicomDate.toEncoded]; rw [fmtPad_eq_fixed (by omega) (by omega)]
  | month y m =>
    simp only [DicomDate.Valid] at hv; simp only [DicomDate.toEncoded]
    rw [fmtPad_eq_fixed (by omega) (by omega), fmtPad_eq_fixed (by omega) (by omega)]
  | day y m d =>
    simp only [DicomDate.Valid] at hv; simp only [DicomDate.toEncoded]
    rw [fmtPad_eq_fixed (by omega) (by omega), fmtPad_eq_fixed (by omega) (by omega),
      fmtPad_eq_fixed (by omega) (by omega), List.append_assoc]

/-- the text after a year or month does not continue with two digits -/
def NoDigitPair (rest : Bytes) : Prop := rest.length < 2 ∨ readNumber (rest.take 2) = none

theorem rn4 {y : Nat} (h : y ≤ 9999) : readNumber (fixed 4 y) = some y :=
  readNumber_fixed (by omega) (by omega) (by omega)
theorem rn2 {m : Nat} (h : m ≤ 99) : readNumber (fixed 2 m) = some m :=
  readNumber_fixed (by omega) (by omega) (by omega)

theorem parseDate_ext {v : DicomDate} (hv : v.Valid) (rest : Bytes)
    (hr : v.isPrecise = true ∨ NoDigitPair rest) :
    parseDatePartial (v.toEncoded ++ rest) = some (v, rest) := by
  rw [date_enc hv]
  cases v with
  | year y =>
    simp only [DicomDate.Valid] at hv
    have hr : NoDigitPair rest := by simpa [DicomDate.isPrecise, DicomDate.dy] using hr
    simp only [parseDatePartial, List.length_append, fixed_length, take_fixed, drop_fixed, rn4 hv]
    rcases hr with hr | hr
    · simp [show ¬ (4 + rest.length < 4) by omega, hr, fromY_eq, hv]
    · by_cases hl : rest.length < 2
      · simp [show ¬ (4 + rest.length < 4) by omega, hl, fromY_eq, hv]
      · simp [show ¬ (4 + rest.length < 4) by omega, hl, hr, fromY_eq, hv]
  | month y m =>
    simp only [DicomDate.Valid] at hv
    have hr : NoDigitPair rest := by simpa [DicomDate.isPrecise, DicomDate.dy] using hr
    simp only [parseDatePartial, List.append_assoc, List.length_append, fixed_length, take_fixed, drop_fixed,
      rn4 hv.1, rn2 (show m ≤ 99 by omega)]
    rcases hr with hr | hr
    · simp [show ¬ (4 + (2 + rest.length) < 4) by omega, show ¬ (2 + rest.length < 2) by omega, hr, fromYm_eq, hv]
    · by_cases hl : rest.length < 2
      · simp [show ¬ (4 + (2 + rest.length) < 4) by omega, show ¬ (2 + rest.length < 2) by omega, hl, fromYm_eq, hv]
      · simp [show ¬ (4 + (2 + rest.length) < 4) by omega, show ¬ (2 + rest.length < 2) by omega, hl, hr, fromYm_eq, hv]
  | day y m d =>
    simp only [DicomDate.Valid] at hv
    simp only [parseDatePartial, List.append_assoc, List.length_append, fixed_length, take_fixed, drop_fixed,
      rn4 hv.1, rn2 (show m ≤ 99 by omega), rn2 (show d ≤ 99 by omega)]
    simp [show ¬ (4 + (2 + (2 + rest.length)) < 4) by omega, show ¬ (2 + (2 + rest.length) < 2) by omega,
      show ¬ (2 + rest.length < 2) by omega, fromYmd_eq, hv]
theorem frac_enc {f fp : Nat} (hf : f < 10 ^ fp) : (toDec (10 ^ fp + f)).drop 1 = fixed fp f := by
  rw [toDec_pow_add hf]; rfl

theorem time_enc {v : DicomTime} (hv : v.Valid) :
    v.toEncoded = match v with
      | .hour h => fixed 2 h
      | .minute h m => fixed 2 h ++ fixed 2 m
      | .second h m s => fixed 2 h ++ (fixed 2 m ++ fixed 2 s)
      | .fraction h m s f fp => fixed 2 h ++ (fixed 2 m ++ (fixed 2 s ++ 46 :: fixed fp f)) := by
  cases v with
  | hour h => simp only [DicomTime.Valid] at hv; simp only [DicomTime.toEncoded]; rw [fmtPad_eq_fixed (by omega) (by omega)]
  | minute h m =>
    simp only [DicomTime.Valid] at hv; simp only [DicomTime.toEncoded]
    rw [fmtPad_eq_fixed (by omega) (by omega), fmtPad_eq_fixed (by omega) (by omega)]
  | second h m s =>
    simp only [DicomTime.Valid] at hv; simp only [DicomTime.toEncoded]
    rw [fmtPad_eq_fixed (by omega) (by omega), fmtPad_eq_fixed (by omega) (by omega),
      fmtPad_eq_fixed (by omega) (by omega), List.append_assoc]
  | fraction h m s f fp =>
    simp only [DicomTime.Valid] at hv; simp only [DicomTime.toEncoded]
    rw [fmtPad_eq_fixed (by omega) (by omega), fmtPad_eq_fixed (by omega) (by omega),
      fmtPad_eq_fixed (by omega) (by omega), frac_enc hv.2.2.2.2.2, List.append_assoc, List.append_assoc]

/-- what may follow an encoded time so that the parser stops exactly there -/
def TimeStop : DicomTime → Bytes → Prop
  | .hour _, rest => NoDigitPair rest
  | .minute _ _, rest => NoDigitPair rest
  | .second _ _ _, rest => ¬ (rest.length > 1 ∧ rest.head? = some 46)
  | .fraction _ _ _ _ fp, rest => fp = 6 ∨ leadingDigits rest = 0

theorem parseTime_ext {v : DicomTime} (hv : v.Valid) (rest : Bytes) (hr : TimeStop v rest) :
    parseTimePartial (v.toEncoded ++ rest) = some (v, rest) := by
  rw [time_enc hv]
  cases v with
  | hour h =>
    simp only [DicomTime.Valid] at hv
    simp only [TimeStop] at hr
    simp only [parseTimePartial, List.length_append, fixed_length, take_fixed, drop_fixed, rn2 (show h ≤ 99 by omega)]
    rcases hr with hr | hr
    · simp [show ¬ (2 + rest.length < 2) by omega, hr, fromH_eq, hv]
    · by_cases hl : rest.length < 2
      · simp [show ¬ (2 + rest.length < 2) by omega, hl, fromH_eq, hv]
      · simp [show ¬ (2 + rest.length < 2) by omega, hl, hr, fromH_eq, hv]
  | minute h m =>
    simp only [DicomTime.Valid] at hv
    simp only [TimeStop] at hr
    simp only [parseTimePartial, List.append_assoc, List.length_append, fixed_length, take_fixed, drop_fixed,
      rn2 (show h ≤ 99 by omega), rn2 (show m ≤ 99 by omega)]
    rcases hr with hr | hr
    · simp [show ¬ (2 + (2 + rest.length) < 2) by omega, show ¬ (2 + rest.length < 2) by omega, hr, fromHm_eq, hv]
    · by_cases hl : rest.length < 2
      · simp [show ¬ (2 + (2 + rest.length) < 2) by omega, show ¬ (2 + rest.length < 2) by omega, hl, fromHm_eq, hv]
      · simp [show ¬ (2 + (2 + rest.length) < 2) by omega, show ¬ (2 + rest.length < 2) by omega, hl, hr, fromHm_eq, hv]
  | second h m s =>
    simp only [DicomTime.Valid] at hv
    simp only [TimeStop] at hr
    simp only [parseTimePartial, List.append_assoc, List.length_append, fixed_length, take_fixed, drop_fixed,
      rn2 (show h ≤ 99 by omega), rn2 (show m ≤ 99 by omega), rn2 (show s ≤ 99 by omega)]
    have hc : (decide (rest.length > 1) && rest.head? == some 46) = false := by
      by_cases a : rest.length > 1
      · have : rest.head? ≠ some 46 := fun b => hr ⟨a, b⟩
        simp [a, this]
      · simp [a]
    simp [show ¬ (2 + (2 + (2 + rest.length)) < 2) by omega, show ¬ (2 + (2 + rest.length) < 2) by omega,
      show ¬ (2 + rest.length < 2) by omega, hc, fromHms_eq, hv]
  | fraction h m s f fp =>
    simp only [DicomTime.Valid] at hv
    simp only [TimeStop] at hr
    obtain ⟨hh, hm, hs, h1, h6, hf⟩ := hv
    simp only [parseTimePartial, List.append_assoc, List.length_append, fixed_length, take_fixed, drop_fixed,
      rn2 (show h ≤ 99 by omega), rn2 (show m ≤ 99 by omega), rn2 (show s ≤ 99 by omega)]
    have hn : Nat.min 6 (fp + leadingDigits rest) = fp := by
      rcases hr with hr | hr
      · subst hr; simp
      · rw [hr]; simp [Nat.min_def]; omega
    have hrd : readNumber (fixed fp f) = some f := readNumber_fixed h1 (by omega) hf
    simp [show ¬ (2 + (2 + (2 + (fp + 1 + rest.length))) < 2) by omega,
      show ¬ (2 + (2 + (fp + 1 + rest.length)) < 2) by omega,
      show ¬ (2 + (fp + 1 + rest.length) < 2) by omega, show 1 < fp + 1 + rest.length by omega,
      hn, take_fixed, drop_fixed, hrd, fromHmsf_eq, hh, hm, hs, h1, h6, hf]
/-! ## time-zone suffix -/

theorem filter_fixed (w n : Nat) : (fixed w n).filter (· != 58) = fixed w n := by
  rw [List.filter_eq_self]
  intro b hb
  have := fixed_isDigit w n b hb
  simp [isDigit] at this
  simp; omega

/-- canonical form of the encoded offset: sign, two hour digits, two minute digits -/
theorem offset_enc {o : Int} (ho : OffsetValid o) :
    offsetEncoded o =
      (if o < 0 then 45 else 43) :: (fixed 2 (o.natAbs / 3600) ++ fixed 2 (o.natAbs / 60 % 60)) := by
  obtain ⟨h60, hlo, hhi⟩ := ho
  have hs : o.natAbs % 60 = 0 := by omega
  have hh : o.natAbs / 60 / 60 = o.natAbs / 3600 := by omega
  have hb : o.natAbs / 3600 < 10 ^ 2 := by omega
  have hm : o.natAbs / 60 % 60 < 10 ^ 2 := by omega
  simp only [offsetEncoded, offsetToString, hs, if_true, hh]
  rw [fmtPad_eq_fixed (by omega) hb, fmtPad_eq_fixed (by omega) hm]
  by_cases hneg : o < 0 <;> simp [hneg, List.filter_cons, filter_fixed]

theorem offset_enc_length {o : Int} (ho : OffsetValid o) : (offsetEncoded o).length = 5 := by
  rw [offset_enc ho]; simp

theorem parseTz_nil : parseTzSuffix [] = some none := by simp [parseTzSuffix]

theorem parseTz_offset {o : Int} (ho : OffsetValid o) (extra : Bytes) :
    parseTzSuffix (offsetEncoded o ++ extra) = some (some o) := by
  rw [offset_enc ho]
  obtain ⟨h60, hlo, hhi⟩ := ho
  have hb : o.natAbs / 3600 ≤ 99 := by omega
  have hm : o.natAbs / 60 % 60 ≤ 99 := by omega
  simp only [parseTzSuffix, List.cons_append, List.append_assoc, List.length_cons, List.length_append, fixed_length,
    take_fixed, drop_fixed, rn2 hb, rn2 hm]
  have hs : (o.natAbs / 3600 * 60 + o.natAbs / 60 % 60) * 60 = o.natAbs := by omega
  rw [hs]
  by_cases hneg : o < 0
  · have : o.natAbs ≤ 12 * 3600 := by omega
    have e : -(Int.ofNat o.natAbs) = o := by simp only [Int.ofNat_eq_coe]; omega
    rw [e]
    simp [hneg, checkComponent, this, fixedOffsetOpt]
    omega
  · have : o.natAbs ≤ 14 * 3600 := by omega
    have e : Int.ofNat o.natAbs = o := by simp only [Int.ofNat_eq_coe]; omega
    rw [e]
    simp [hneg, checkComponent, this, fixedOffsetOpt]
    omega

/-- an encoded offset (or nothing) stops every date and time parser -/
theorem noDigitPair_nil : NoDigitPair [] := Or.inl (by simp)
theorem noDigitPair_offset {o : Int} (ho : OffsetValid o) (extra : Bytes) : NoDigitPair (offsetEncoded o ++ extra) := by
  right
  rw [offset_enc ho]
  by_cases hneg : o < 0 <;> simp [hneg, readNumber, isDigit]

theorem timeStop_nil (t : DicomTime) : TimeStop t [] := by
  cases t <;> simp [TimeStop, noDigitPair_nil, leadingDigits]
theorem timeStop_offset (t : DicomTime) {o : Int} (ho : OffsetValid o) (extra : Bytes) :
    TimeStop t (offsetEncoded o ++ extra) := by
  cases t
  · exact noDigitPair_offset ho extra
  · exact noDigitPair_offset ho extra
  · rw [offset_enc ho]; by_cases hneg : o < 0 <;> simp [TimeStop, hneg]
  · rw [offset_enc ho]; by_cases hneg : o < 0 <;> simp [TimeStop, hneg, leadingDigits, isDigit]

theorem parseTime_nil : parseTimePartial [] = none := by simp [parseTimePartial]
theorem parseTime_offset {o : Int} (ho : OffsetValid o) (extra : Bytes) :
    parseTimePartial (offsetEncoded o ++ extra) = none := by
  rw [offset_enc ho]
  by_cases hneg : o < 0 <;> simp [hneg, parseTimePartial, readNumber, isDigit]

/-! ## calendar arithmetic (the model of chrono's `NaiveDate`) -/

theorem isLeap_iff (y : Nat) : isLeap y = true ↔ (y % 4 = 0 ∧ (y % 100 ≠ 0 ∨ y % 400 = 0)) := by
  simp [isLeap]

theorem daysBeforeYear_succ (y : Nat) :
    daysBeforeYear (y + 1) = daysBeforeYear y + 365 + (if isLeap y then 1 else 0) := by
  cases y with
  | zero => rfl
  | succ k =>
    have d4 : (k + 1) / 4 = k / 4 + (if (k + 1) % 4 = 0 then 1 else 0) := by split <;> omega
    have d100 : (k + 1) / 100 = k / 100 + (if (k + 1) % 100 = 0 then 1 else 0) := by split <;> omega
    have d400 : (k + 1) / 400 = k / 400 + (if (k + 1) % 400 = 0 then 1 else 0) := by split <;> omega
    have g1 : k / 100 ≤ k / 4 := by omega
    simp only [daysBeforeYear, Nat.succ_ne_zero, if_false, Nat.add_sub_cancel, d4, d100, d400]
    by_cases c4 : (k + 1) % 4 = 0 <;> by_cases c100 : (k + 1) % 100 = 0 <;> by_cases c400 : (k + 1) % 400 = 0 <;>
      simp [isLeap, c4, c100, c400] <;> omega

theorem daysBeforeYear_mono {a b : Nat} (h : a ≤ b) : daysBeforeYear a ≤ daysBeforeYear b := by
  induction h with
  | refl => exact Nat.le_refl _
  | step _ ih => rw [daysBeforeYear_succ]; omega

theorem month_cases {m : Nat} (h1 : 1 ≤ m) (h12 : m ≤ 12) :
    m = 1 ∨ m = 2 ∨ m = 3 ∨ m = 4 ∨ m = 5 ∨ m = 6 ∨ m = 7 ∨ m = 8 ∨ m = 9 ∨ m = 10 ∨ m = 11 ∨ m = 12 := by
  omega

/-- days before the first of the month after `m` (month 13 = next January) -/
theorem daysBeforeMonth_next (y m : Nat) (h1 : 1 ≤ m) (h12 : m ≤ 12) :
    daysBeforeMonth (isLeap y) m + daysInMonth y m =
      if m = 12 then 365 + (if isLeap y then 1 else 0) else daysBeforeMonth (isLeap y) (m + 1) := by
  by_cases hl : isLeap y = true <;>
    rcases month_cases h1 h12 with rfl | rfl | rfl | rfl | rfl | rfl | rfl | rfl | rfl | rfl | rfl | rfl <;>
    simp [daysBeforeMonth, daysInMonth, hl]

/-- `(first of next month − first of this month).num_days()` is the length of the month -/
theorem next_month_days (y m : Nat) (h1 : 1 ≤ m) (h12 : m ≤ 12) :
    (if m = 12 then (NaiveDate.mk (y + 1) 1 1).dayNumber else (NaiveDate.mk y (m + 1) 1).dayNumber)
      - (NaiveDate.mk y m 1).dayNumber = daysInMonth y m := by
  have h := daysBeforeMonth_next y m h1 h12
  by_cases hm : m = 12
  · subst hm
    simp only [if_true] at h ⊢
    simp only [NaiveDate.dayNumber, daysBeforeYear_succ]
    simp [daysBeforeMonth] at h ⊢
    omega
  · simp only [hm, if_false] at h ⊢
    simp only [NaiveDate.dayNumber]
    omega

theorem daysInMonth_pos (y m : Nat) : 28 ≤ daysInMonth y m ∧ daysInMonth y m ≤ 31 := by
  unfold daysInMonth; split <;> (try split) <;> omega

theorem fromYmdOpt_eq (y m d : Nat) :
    NaiveDate.fromYmdOpt y m d = if 1 ≤ m ∧ m ≤ 12 ∧ 1 ≤ d ∧ d ≤ daysInMonth y m then some ⟨y, m, d⟩ else none := rfl

/-- the value denotes at least one calendar day (chrono accepts its day for its month) -/
def DicomDate.Denotes : DicomDate → Prop
  | .day y m d => d ≤ daysInMonth y m
  | _ => True

theorem date_earliest_eq {v : DicomDate} (hv : v.Valid) (hd : v.Denotes) :
    v.earliest = some ⟨v.yr, v.mon.getD 1, v.dy.getD 1⟩ := by
  cases v with
  | year y => simp [DicomDate.earliest, DicomDate.yr, DicomDate.mon, DicomDate.dy, fromYmdOpt_eq, daysInMonth]
  | month y m =>
    simp only [DicomDate.Valid] at hv
    have := daysInMonth_pos y m
    simp [DicomDate.earliest, DicomDate.yr, DicomDate.mon, DicomDate.dy, fromYmdOpt_eq, hv]; omega
  | day y m d =>
    simp only [DicomDate.Valid] at hv
    simp only [DicomDate.Denotes] at hd
    simp [DicomDate.earliest, DicomDate.yr, DicomDate.mon, DicomDate.dy, fromYmdOpt_eq, hv, hd]

theorem date_latest_eq {v : DicomDate} (hv : v.Valid) (hd : v.Denotes) :
    v.latest = some ⟨v.yr, v.mon.getD 12, v.dy.getD (daysInMonth v.yr (v.mon.getD 12))⟩ := by
  cases v with
  | year y =>
    have h := next_month_days y 12 (by omega) (by omega)
    simp only [if_true] at h
    simp only [DicomDate.latest, DicomDate.yr, DicomDate.mon, DicomDate.dy, Option.getD_none, if_true]
    have e1 : NaiveDate.fromYmdOpt (y + 1) 1 1 = some ⟨y + 1, 1, 1⟩ := by simp [fromYmdOpt_eq, daysInMonth]
    have e2 : NaiveDate.fromYmdOpt y 12 1 = some ⟨y, 12, 1⟩ := by simp [fromYmdOpt_eq, daysInMonth]
    simp only [e1, e2, h]
    simp [fromYmdOpt_eq, daysInMonth]
  | month y m =>
    simp only [DicomDate.Valid] at hv
    have h := next_month_days y m hv.2.1 hv.2.2
    have hp := daysInMonth_pos y m
    have hp1 := daysInMonth_pos y (m + 1)
    simp only [DicomDate.latest, DicomDate.yr, DicomDate.mon, DicomDate.dy, Option.getD_some, Option.getD_none]
    have e2 : NaiveDate.fromYmdOpt y m 1 = some ⟨y, m, 1⟩ := by simp [fromYmdOpt_eq, hv]; omega
    by_cases hm : m = 12
    · have e1 : NaiveDate.fromYmdOpt (y + 1) 1 1 = some ⟨y + 1, 1, 1⟩ := by simp [fromYmdOpt_eq, daysInMonth]
      simp only [hm, if_true] at h ⊢
      subst hm
      simp only [e1, e2, h]
      simp [fromYmdOpt_eq, daysInMonth]
    · have e1 : NaiveDate.fromYmdOpt y (m + 1) 1 = some ⟨y, m + 1, 1⟩ := by simp [fromYmdOpt_eq]; omega
      simp only [hm, if_false] at h ⊢
      simp only [e1, e2, h]
      simp [fromYmdOpt_eq, hv]; omega
  | day y m d =>
    simp only [DicomDate.Valid] at hv
    simp only [DicomDate.Denotes] at hd
    simp [DicomDate.latest, DicomDate.yr, DicomDate.mon, DicomDate.dy, fromYmdOpt_eq, hv, hd]

/-! ## orders -/

/-- a calendar date chrono can represent (`from_ymd_opt` returns it) -/
def NaiveDate.Valid (d : NaiveDate) : Prop := 1 ≤ d.m ∧ d.m ≤ 12 ∧ 1 ≤ d.d ∧ d.d ≤ daysInMonth d.y d.m

theorem fromYmdOpt_some {y m d : Nat} {nd : NaiveDate} (h : NaiveDate.fromYmdOpt y m d = some nd) :
    nd = ⟨y, m, d⟩ ∧ nd.Valid := by
  rw [fromYmdOpt_eq] at h
  split at h <;> simp at h
  subst h
  exact ⟨rfl, by assumption⟩

theorem NaiveDate.le_iff (a b : NaiveDate) :
    a.le b = true ↔ a.y < b.y ∨ (a.y = b.y ∧ (a.m < b.m ∨ (a.m = b.m ∧ a.d ≤ b.d))) := by
  simp [NaiveDate.le]

theorem NaiveDate.ext_iff' (a b : NaiveDate) : a = b ↔ a.y = b.y ∧ a.m = b.m ∧ a.d = b.d := by
  cases a; cases b; simp

theorem daysBeforeMonth_step (y m : Nat) (h1 : 1 ≤ m) (h11 : m ≤ 11) :
    daysBeforeMonth (isLeap y) (m + 1) = daysBeforeMonth (isLeap y) m + daysInMonth y m := by
  have := daysBeforeMonth_next y m h1 (by omega)
  have hm : m ≠ 12 := by omega
  simp only [hm, if_false] at this
  omega

theorem daysBeforeMonth_mono (y : Nat) {a b : Nat} (h1 : 1 ≤ a) (hab : a ≤ b) (hb : b ≤ 12) :
    daysBeforeMonth (isLeap y) a ≤ daysBeforeMonth (isLeap y) b := by
  induction hab with
  | refl => exact Nat.le_refl _
  | @step k hk ih =>
    have hk' : a ≤ k := hk
    have hb' : k + 1 ≤ 12 := hb
    have e1 := daysBeforeMonth_step y k (by omega) (by omega)
    have e2 := ih (by omega)
    show daysBeforeMonth (isLeap y) a ≤ daysBeforeMonth (isLeap y) (k + 1)
    omega

theorem daysBeforeMonth_le (y m : Nat) (h1 : 1 ≤ m) (h12 : m ≤ 12) :
    daysBeforeMonth (isLeap y) m + daysInMonth y m ≤ 365 + (if isLeap y then 1 else 0) := by
  by_cases hm : m = 12
  · have := daysBeforeMonth_next y m h1 h12
    simp only [hm, if_true] at this ⊢
    omega
  · have := daysBeforeMonth_next y m h1 h12
    simp only [hm, if_false] at this
    have h2 := daysBeforeMonth_mono y (a := m + 1) (b := 12) (by omega) (by omega) (by omega)
    have h3 := daysBeforeMonth_next y 12 (by omega) (by omega)
    simp only [if_true] at h3
    have := daysInMonth_pos y 12
    omega

/-- the day number is strictly monotone in chrono's (lexicographic) date order -/
theorem dayNumber_lt {a b : NaiveDate} (ha : a.Valid) (hb : b.Valid) (h : a.le b = true) (hne : a ≠ b) :
    a.dayNumber < b.dayNumber := by
  obtain ⟨ay, am, ad⟩ := a
  obtain ⟨by_, bm, bd⟩ := b
  simp only [NaiveDate.Valid] at ha hb
  rw [NaiveDate.le_iff] at h
  simp only [ne_eq, NaiveDate.mk.injEq] at hne
  simp only at h
  simp only [NaiveDate.dayNumber]
  rcases h with h | ⟨rfl, h⟩
  · -- earlier year
    have e1 := daysBeforeMonth_le ay am ha.1 ha.2.1
    have e2 := daysBeforeYear_succ ay
    have e3 := daysBeforeYear_mono (show ay + 1 ≤ by_ from h)
    omega
  · rcases h with h | ⟨rfl, h⟩
    · -- same year, earlier month
      have e1 := daysBeforeMonth_step ay am ha.1 (by omega)
      have e2 := daysBeforeMonth_mono ay (a := am + 1) (b := bm) (by omega) h hb.2.1
      omega
    · have : ad ≠ bd := fun e => hne ⟨rfl, rfl, e⟩
      omega

theorem dayNumber_le {a b : NaiveDate} (ha : a.Valid) (hb : b.Valid) (h : a.le b = true) :
    a.dayNumber ≤ b.dayNumber := by
  by_cases e : a = b
  · subst e; exact Nat.le_refl _
  · exact Nat.le_of_lt (dayNumber_lt ha hb h e)

theorem NaiveDate.le_total (a b : NaiveDate) : a.le b = true ∨ b.le a = true := by
  rw [NaiveDate.le_iff, NaiveDate.le_iff]; omega

theorem NaiveDate.le_antisymm {a b : NaiveDate} (h1 : a.le b = true) (h2 : b.le a = true) : a = b := by
  rw [NaiveDate.le_iff] at h1 h2
  rw [NaiveDate.ext_iff']; omega

/-- a time of day chrono can represent (`from_hms_micro_opt` returns it); microseconds from
1 000 000 on are chrono's representation of a leap second and need second 59 -/
def NaiveTime.Valid (t : NaiveTime) : Prop :=
  t.h < 24 ∧ t.m < 60 ∧ t.s < 60 ∧ (t.f < 1000000 ∨ (t.s = 59 ∧ t.f < 2000000))

theorem fromHmsMicroOpt_eq (h m s f : Nat) :
    NaiveTime.fromHmsMicroOpt h m s f =
      if h < 24 ∧ m < 60 ∧ s < 60 ∧ (f < 1000000 ∨ (s = 59 ∧ f < 2000000)) then some ⟨h, m, s, f⟩ else none := rfl

theorem NaiveTime.le_iff (a b : NaiveTime) :
    a.le b = true ↔ a.secs < b.secs ∨ (a.secs = b.secs ∧ a.f ≤ b.f) := by
  simp [NaiveTime.le]

theorem frac_bounds {f fp : Nat} (h1 : 1 ≤ fp) (h6 : fp ≤ 6) (hf : f < 10 ^ fp) :
    1 ≤ 10 ^ (6 - fp) ∧ f * 10 ^ (6 - fp) + 10 ^ (6 - fp) - 1 < 1000000 := by
  rcases pow_split h1 h6 with rfl | rfl | rfl | rfl | rfl | rfl <;>
    simp only [Nat.reducePow, Nat.reduceSub] at hf ⊢ <;> omega

theorem frac_match {fp : Nat} (x f : Nat) (h1 : 1 ≤ fp) (h6 : fp ≤ 6) :
    x / 10 ^ (6 - fp) = f ↔ (f * 10 ^ (6 - fp) ≤ x ∧ x ≤ f * 10 ^ (6 - fp) + 10 ^ (6 - fp) - 1) := by
  rcases pow_split h1 h6 with rfl | rfl | rfl | rfl | rfl | rfl <;>
    simp only [Nat.reducePow, Nat.reduceSub] <;> omega




/-! ## (date, time) order and local second count -/

theorem naiveLe_iff (d1 : NaiveDate) (t1 : NaiveTime) (d2 : NaiveDate) (t2 : NaiveTime) :
    naiveLe d1 t1 d2 t2 = true ↔ (d1.le d2 = true ∧ d1 ≠ d2) ∨ (d1 = d2 ∧ t1.le t2 = true) := by
  simp [naiveLe]

theorem secs_lt {t : NaiveTime} (ht : t.Valid) : t.secs < 86400 := by
  simp only [NaiveTime.Valid] at ht; simp only [NaiveTime.secs]; omega

/-- for real dates and times the (date, time) order is the order of the local second count,
ties broken by the fraction -/
theorem naiveLe_iff_localSecs {d1 d2 : NaiveDate} {t1 t2 : NaiveTime} (hd1 : d1.Valid) (hd2 : d2.Valid)
    (ht1 : t1.Valid) (ht2 : t2.Valid) :
    naiveLe d1 t1 d2 t2 = true ↔
      (localSecs d1 t1 < localSecs d2 t2 ∨ (localSecs d1 t1 = localSecs d2 t2 ∧ t1.f ≤ t2.f)) := by
  have s1 := secs_lt ht1
  have s2 := secs_lt ht2
  rw [naiveLe_iff, NaiveTime.le_iff]
  simp only [localSecs, Int.ofNat_eq_natCast]
  rcases NaiveDate.le_total d1 d2 with h | h
  · by_cases e : d1 = d2
    · subst e; simp; omega
    · have := dayNumber_lt hd1 hd2 h e
      simp [h, e]; omega
  · by_cases e : d1 = d2
    · subst e; simp; omega
    · have := dayNumber_lt hd2 hd1 h (Ne.symm e)
      have hn : ¬ d1.le d2 = true := fun c => e (NaiveDate.le_antisymm c h)
      simp [hn, e]; omega

/-- two aware instants with the same offset compare like their local readings -/
theorem awareLe_same_offset {d1 d2 : NaiveDate} {t1 t2 : NaiveTime} (o : Int) (hd1 : d1.Valid) (hd2 : d2.Valid)
    (ht1 : t1.Valid) (ht2 : t2.Valid) : awareLe d1 t1 o d2 t2 o = naiveLe d1 t1 d2 t2 := by
  have h := naiveLe_iff_localSecs hd1 hd2 ht1 ht2
  have : awareLe d1 t1 o d2 t2 o = true ↔
      (localSecs d1 t1 < localSecs d2 t2 ∨ (localSecs d1 t1 = localSecs d2 t2 ∧ t1.f ≤ t2.f)) := by
    simp [awareLe] <;> omega
  rw [Bool.eq_iff_iff, this, h]


end Dicom.Partial
