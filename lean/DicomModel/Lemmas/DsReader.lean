import DicomModel.Model.Adaptive
/-
Lemmas about the reader model (Model/DsReader.lean) used by C08 (and available to C07):
simulation of two header decoders under the same reader, and independence of the run from the way the
end of input inside an item header is reported (up to the final record).
-/
set_option linter.unusedSimpArgs false
namespace Dicom.Rd
variable {σ σ1 σ2 : Type}

/-! ### simulation of two header decoders under the same reader -/

/-- relatedness of two steps: same continuation state, outputs related by `Q` -/
def StepRel (Q : Out → Out → Prop) : Step → Step → Prop
  | .ret o1 s1, .ret o2 s2 => Q o1 o2 ∧ s1 = s2
  | .go s1, .go s2 => s1 = s2
  | _, _ => False

structure GoodQ (Q : Out → Out → Prop) : Prop where
  refl : ∀ o, Q o o
  tokL : ∀ t o, Q (.tok t) o → o = .tok t
  tokR : ∀ t o, Q o (.tok t) → o = .tok t

theorem StepRel.refl {Q : Out → Out → Prop} (hQ : GoodQ Q) (x : Step) : StepRel Q x x := by
  cases x <;> simp [StepRel, hQ.refl]

theorem next_sim (cfg : Cfg) (D1 : Dec σ1) (D2 : Dec σ2) (Q : Out → Out → Prop) (hQ : GoodQ Q)
    (R : σ1 → σ2 → Prop)
    (hpre : ∀ s, StepRel Q (preHeader cfg D1.be D1.itemEofGraceful s) (preHeader cfg D2.be D2.itemEofGraceful s))
    (hhdr : ∀ d1 d2 bs, R d1 d2 → (D1.header d1 bs).1 = (D2.header d2 bs).1 ∧
      R (D1.header d1 bs).2 (D2.header d2 bs).2) :
    ∀ fuel d1 d2 s, R d1 d2 →
      Q (next cfg D1 fuel (d1, s)).1 (next cfg D2 fuel (d2, s)).1 ∧
      (next cfg D1 fuel (d1, s)).2.2 = (next cfg D2 fuel (d2, s)).2.2 ∧
      R (next cfg D1 fuel (d1, s)).2.1 (next cfg D2 fuel (d2, s)).2.1 := by
  intro fuel
  induction fuel with
  | zero => intro d1 d2 s hR; simp [next, hQ.refl, hR]
  | succ fuel ih =>
    intro d1 d2 s hR
    unfold next
    by_cases hb : s.hardBreak = true
    · simp [hb, hQ.refl, hR]
    · simp only [hb, Bool.false_eq_true, if_false]
      have hp := hpre s
      cases h1 : preHeader cfg D1.be D1.itemEofGraceful s with
      | ret o1 s1 =>
        cases h2 : preHeader cfg D2.be D2.itemEofGraceful s with
        | ret o2 s2 =>
          rw [h1, h2] at hp
          simp only [StepRel] at hp
          simp [hp.1, hp.2, hR]
        | go s2 => rw [h1, h2] at hp; simp [StepRel] at hp
      | go s1 =>
        cases h2 : preHeader cfg D2.be D2.itemEofGraceful s with
        | ret o2 s2 => rw [h1, h2] at hp; simp [StepRel] at hp
        | go s2 =>
          rw [h1, h2] at hp
          simp only [StepRel] at hp
          subst hp
          have hh := hhdr d1 d2 s1.src hR
          simp only
          rw [← hh.1]
          cases hs : headerStep cfg (D1.header d1 s1.src).1 s1 with
          | ret o s' => simp [hQ.refl, hh.2]
          | go s' => simpa using ih _ _ s' hh.2

def mapOut (f : Out → Out) (r : Rec) : Rec := { r with out := f r.out }

theorem run_sim (cfg : Cfg) (D1 : Dec σ1) (D2 : Dec σ2) (Q : Out → Out → Prop) (hQ : GoodQ Q)
    (f : Out → Out) (hf : ∀ o1 o2, Q o1 o2 → f o1 = f o2)
    (R : σ1 → σ2 → Prop)
    (hpre : ∀ s, StepRel Q (preHeader cfg D1.be D1.itemEofGraceful s) (preHeader cfg D2.be D2.itemEofGraceful s))
    (hhdr : ∀ d1 d2 bs, R d1 d2 → (D1.header d1 bs).1 = (D2.header d2 bs).1 ∧
      R (D1.header d1 bs).2 (D2.header d2 bs).2) (total : Nat) :
    ∀ cap d1 d2 s, R d1 d2 →
      (run cfg D1 total cap (d1, s)).map (mapOut f) = (run cfg D2 total cap (d2, s)).map (mapOut f) := by
  intro cap
  induction cap with
  | zero => intro d1 d2 s _; simp [run]
  | succ cap ih =>
    intro d1 d2 s hR
    have hn := next_sim cfg D1 D2 Q hQ R hpre hhdr (s.src.length + 1) d1 d2 s hR
    unfold run
    simp only
    generalize next cfg D1 (s.src.length + 1) (d1, s) = x1 at hn
    generalize next cfg D2 (s.src.length + 1) (d2, s) = x2 at hn
    obtain ⟨o1, e1, s1⟩ := x1
    obtain ⟨o2, e2, s2⟩ := x2
    simp only at hn
    obtain ⟨hq, hs, hr⟩ := hn
    subst hs
    cases o1 with
    | tok t =>
      have := hQ.tokL t o2 hq
      subst this
      simp [mapOut, ih e1 e2 s1 hr]
    | err e =>
      cases o2 with
      | tok t => have := hQ.tokR t _ hq; simp at this
      | err e' => simp [mapOut, hf _ _ hq]
      | done => simp [mapOut, hf _ _ hq]
    | done =>
      cases o2 with
      | tok t => have := hQ.tokR t _ hq; simp at this
      | err e' => simp [mapOut, hf _ _ hq]
      | done => simp [mapOut]

/-- the two ways the end of input inside an item header is reported -/
def OutEq (o1 o2 : Out) : Prop :=
  o1 = o2 ∨ ((o1 = .done ∨ o1 = .err .readItemHeader) ∧ (o2 = .done ∨ o2 = .err .readItemHeader))

/-- an end-of-input error in an item header and the graceful end are identified -/
def normOut : Out → Out
  | .err .readItemHeader => .done
  | o => o

theorem OutEq.norm {o1 o2 : Out} (h : OutEq o1 o2) : normOut o1 = normOut o2 := by
  rcases h with h | ⟨h1, h2⟩
  · rw [h]
  · rcases h1 with h1 | h1 <;> rcases h2 with h2 | h2 <;> simp [h1, h2, normOut]

theorem nextInSeq_flag (cfg : Cfg) (be g1 g2 : Bool) (s : RSt) :
    OutEq (nextInSeq cfg be g1 s).1 (nextInSeq cfg be g2 s).1 ∧
    (nextInSeq cfg be g1 s).2 = (nextInSeq cfg be g2 s).2 := by
  unfold nextInSeq
  split
  · simp [OutEq]
  · simp [OutEq]
  · simp [OutEq]
  · simp only [and_true]; split <;> split <;> simp [OutEq]
  · simp [OutEq]


theorem goodQ_eq : GoodQ (· = ·) := ⟨fun _ => rfl, fun _ _ h => h.symm, fun _ _ h => h⟩

theorem goodQ_outEq : GoodQ OutEq := by
  refine ⟨fun _ => Or.inl rfl, ?_, ?_⟩
  · intro t o h
    rcases h with h | ⟨h1, _⟩
    · exact h.symm
    · rcases h1 with h1 | h1 <;> simp at h1
  · intro t o h
    rcases h with h | ⟨_, h2⟩
    · exact h
    · rcases h2 with h2 | h2 <;> simp at h2

theorem preBody_flag (cfg : Cfg) (be g1 g2 : Bool) (s : RSt) :
    StepRel OutEq (preBody cfg be g1 s) (preBody cfg be g2 s) := by
  unfold preBody
  by_cases hin : s.inSeq = true
  · have := nextInSeq_flag cfg be g1 g2 s
    simp only [hin, if_true]
    exact ⟨this.1, this.2⟩
  · simp only [hin]
    exact StepRel.refl goodQ_outEq _

theorem preHeader_flag (cfg : Cfg) (be g1 g2 : Bool) (s : RSt) :
    StepRel OutEq (preHeader cfg be g1 s) (preHeader cfg be g2 s) := by
  unfold preHeader
  split
  · split
    · exact StepRel.refl goodQ_outEq _
    · exact StepRel.refl goodQ_outEq _
    · exact preBody_flag cfg be g1 g2 _
  · exact preBody_flag cfg be g1 g2 _

end Dicom.Rd
