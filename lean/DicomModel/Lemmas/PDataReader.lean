import DicomModel.Lemmas.PData
/-
Lemmas for C26, reader: wire form of general P-DATA-TF PDUs, `read_pdu` on complete and on
incomplete input, the receive loop over a segmented source.
-/
namespace Dicom.PData
open Dicom.Gen.Ul

/-- wire form of one presentation data value item -/
def encPdv (v : Pdv) : Bytes := be32 (v.data.length + 2) ++ [v.ctx, v.ctrl] ++ v.data

/-- wire form of a P-DATA-TF PDU with the given values -/
def encPdu (vs : List Pdv) : Bytes :=
  [4, 0] ++ be32 ((vs.map encPdv).flatten.length) ++ (vs.map encPdv).flatten

/-- lengths fit their 32-bit fields -/
def WfPdu (vs : List Pdv) : Prop :=
  (∀ v ∈ vs, v.data.length + 2 < u32) ∧ (vs.map encPdv).flatten.length < u32

theorem parsePdvs_enc : ∀ (vs : List Pdv), (∀ v ∈ vs, v.data.length + 2 < u32) →
    parsePdvs ((vs.map encPdv).flatten) = some vs := by
  intro vs
  induction vs with
  | nil => intro _; simp only [List.map_nil, List.flatten_nil]; rw [parsePdvs]
  | cons v vs ih =>
    intro h
    have hv := h v (by simp)
    have hr := ih (fun x hx => h x (by simp [hx]))
    have hval := be_val (v.data.length + 2) hv
    generalize hbody : (vs.map encPdv).flatten = body at hr
    have hshape : ((v :: vs).map encPdv).flatten
        = (v.data.length + 2) / 16777216 % 256 :: (v.data.length + 2) / 65536 % 256
          :: (v.data.length + 2) / 256 % 256 :: (v.data.length + 2) % 256 :: v.ctx :: v.ctrl
          :: (v.data ++ body) := by
      simp [encPdv, be32, hbody]
    rw [hshape, parsePdvs]
    have h1 : ¬ v.data.length + 2 < 2 := by omega
    have h2 : ¬ (v.data ++ body).length < v.data.length + 2 - 2 := by
      simp
    have h3 : (v.data ++ body).drop (v.data.length + 2 - 2) = body := by
      have : v.data.length + 2 - 2 = v.data.length := by omega
      rw [this, List.drop_left]
    have h4 : (v.data ++ body).take (v.data.length + 2 - 2) = v.data := by
      have : v.data.length + 2 - 2 = v.data.length := by omega
      rw [this, List.take_left]
    simp only [hval, h1, h2, if_false, h3, h4, hr]

theorem encPdu_length (vs : List Pdv) : (encPdu vs).length = (vs.map encPdv).flatten.length + 6 := by
  simp [encPdu]; omega

theorem readPdu_complete {max : Nat} (hmin : minimumPduSize ≤ max) (hmax : max ≤ maximumPduSize)
    (vs : List Pdv) (hw : WfPdu vs) (t : Bytes) :
    readPdu max (encPdu vs ++ t) = .pdata vs (encPdu vs).length := by
  have hr : ¬ (max < minimumPduSize ∨ maximumPduSize < max) := by omega
  have hval := be_val _ hw.2
  have hp := parsePdvs_enc vs hw.1
  simp only [readPdu, hr, if_false, encPdu, be32, List.cons_append, List.nil_append, hval]
  generalize (vs.map encPdv).flatten = body at *
  have h1 : ¬ (body ++ t).length < body.length := by simp
  simp only [h1, if_false, if_true, List.take_left, hp]
  simp; omega

theorem readPdu_incomplete {max : Nat} (hmin : minimumPduSize ≤ max) (hmax : max ≤ maximumPduSize)
    (vs : List Pdv) (hw : WfPdu vs) (m : Nat) (hm : m < (encPdu vs).length) :
    readPdu max ((encPdu vs).take m) = .incomplete := by
  have hr : ¬ (max < minimumPduSize ∨ maximumPduSize < max) := by omega
  have hval := be_val _ hw.2
  rw [encPdu_length] at hm
  simp only [readPdu, hr, if_false, encPdu, be32, List.cons_append, List.nil_append]
  generalize (vs.map encPdv).flatten = body at *
  match m, hm with
  | 0, _ => simp
  | 1, _ => simp
  | 2, _ => simp
  | 3, _ => simp
  | 4, _ => simp
  | 5, _ => simp
  | m + 6, hm =>
    simp only [List.take_succ_cons, hval, List.length_take]
    have : min m body.length < body.length := by omega
    simp only [this, if_true]

/-- The receive loop of `read`: whatever way the bytes `pdu ++ tail` are split between the shared
buffer and the (non-empty) segments still to come, the PDU is returned and exactly `tail` is left
in buffer + source. -/
theorem fetch_spec {max : Nat} (hmin : minimumPduSize ≤ max) (hmax : max ≤ maximumPduSize)
    (vs : List Pdv) (hw : WfPdu vs) (tail : Bytes) :
    ∀ (src : List Bytes) (rb : Bytes), rb ++ src.flatten = encPdu vs ++ tail →
      (∀ seg ∈ src, seg ≠ []) →
      ∃ rb' src', fetch max rb src = .ok vs rb' src' ∧ rb' ++ src'.flatten = tail ∧
        (∀ seg ∈ src', seg ≠ []) := by
  have hdone : ∀ (rb F : Bytes), rb ++ F = encPdu vs ++ tail → (encPdu vs).length ≤ rb.length →
      readPdu max rb = .pdata vs (encPdu vs).length ∧ rb.drop (encPdu vs).length ++ F = tail := by
    intro rb F he hl
    have h1 : rb.take (encPdu vs).length = encPdu vs := by
      have := congrArg (List.take (encPdu vs).length) he
      rwa [List.take_append_of_le_length hl, List.take_left] at this
    have h2 : rb.drop (encPdu vs).length ++ F = tail := by
      have := congrArg (List.drop (encPdu vs).length) he
      rwa [List.drop_append_of_le_length hl, List.drop_left] at this
    refine ⟨?_, h2⟩
    rw [← List.take_append_drop (encPdu vs).length rb, h1]
    exact readPdu_complete hmin hmax vs hw _
  have hpart : ∀ (rb F : Bytes), rb ++ F = encPdu vs ++ tail → rb.length < (encPdu vs).length →
      readPdu max rb = .incomplete := by
    intro rb F he hl
    have h1 : rb = (encPdu vs).take rb.length := by
      have := congrArg (List.take rb.length) he
      rw [List.take_left, List.take_append_of_le_length (by omega)] at this
      exact this
    rw [h1]
    exact readPdu_incomplete hmin hmax vs hw _ hl
  intro src
  induction src with
  | nil =>
    intro rb he _
    have hl : (encPdu vs).length ≤ rb.length := by
      have := congrArg List.length he
      simp only [List.flatten_nil, List.append_nil, List.length_append] at this; omega
    obtain ⟨h1, h2⟩ := hdone rb [] (by simpa using he) hl
    exact ⟨rb.drop (encPdu vs).length, [], by simp [fetch, h1], by simpa using h2, by simp⟩
  | cons seg rest ih =>
    intro rb he hne
    by_cases hl : (encPdu vs).length ≤ rb.length
    · obtain ⟨h1, h2⟩ := hdone rb (seg :: rest).flatten he hl
      exact ⟨rb.drop (encPdu vs).length, seg :: rest, by simp [fetch, h1], h2, hne⟩
    · have h1 := hpart rb (seg :: rest).flatten he (by omega)
      have hseg : seg.isEmpty = false := by
        have := hne seg (by simp)
        cases seg <;> simp_all
      obtain ⟨rb', src', h3, h4, h5⟩ := ih (rb ++ seg) (by simpa [List.append_assoc] using he)
        (fun x hx => hne x (by simp [hx]))
      exact ⟨rb', src', by simp [fetch, h1, hseg, h3], h4, h5⟩

/-! ### a whole message through `read` -/

/-- payload carried by one PDU / by a sequence of PDUs -/
def pduData (vs : List Pdv) : Bytes := vs.flatMap (·.data)
def msgData (pdus : List (List Pdv)) : Bytes := pdus.flatMap pduData
def encMsg (pdus : List (List Pdv)) : Bytes := (pdus.map encPdu).flatten

/-- A message as the reader's property sees it: well-formed PDUs; every PDU before the final one
carries some data and its final value is not marked last; the final PDU's final value is marked
last. -/
def MsgOk : List (List Pdv) → Prop
  | [] => False
  | [p] => WfPdu p ∧ ∃ v, p.getLast? = some v ∧ v.isLast = true
  | p :: q :: ps => WfPdu p ∧ (∃ v, p.getLast? = some v ∧ v.isLast = false) ∧ pduData p ≠ [] ∧
      MsgOk (q :: ps)

theorem read_nonempty (max : Nat) (q : Bytes) (last : Bool) (rb : Bytes) (src : List Bytes) (k : Nat)
    (hq : q ≠ []) :
    read max ⟨q, last, rb, src⟩ k = (⟨q.drop k, last, rb, src⟩, .data (q.take k)) := by
  have : q.isEmpty = false := by cases q <;> simp_all
  simp [read, this]

theorem read_fetch {max : Nat} {rb : Bytes} {src : List Bytes} {p : List Pdv} {rb1 : Bytes}
    {src1 : List Bytes} {v : Pdv} (hf : fetch max rb src = .ok p rb1 src1) (hv : p.getLast? = some v)
    (k : Nat) :
    read max ⟨[], false, rb, src⟩ k
      = (⟨(pduData p).drop k, v.isLast, rb1, src1⟩, .data ((pduData p).take k)) := by
  simp [read, hf, hv, pduData]

theorem readLoop_step {max : Nat} {rs rs' : RS} {k : Nat} {d : Bytes} (ks : List Nat) (acc : Bytes)
    (hr : read max rs k = (rs', .data d)) (hd : d ≠ []) :
    readLoop max rs (k :: ks) acc = readLoop max rs' ks (acc ++ d) := by
  cases d with
  | nil => exact absurd rfl hd
  | cons b bs => simp [readLoop, hr]

theorem readLoop_eof {max : Nat} {rs rs' : RS} {k : Nat} (ks : List Nat) (acc : Bytes)
    (hr : read max rs k = (rs', .data [])) :
    readLoop max rs (k :: ks) acc = (rs', acc, .eof) := by
  simp [readLoop, hr]

theorem take_ne_nil {q : Bytes} {k : Nat} (hq : q ≠ []) (hk : 1 ≤ k) : q.take k ≠ [] := by
  cases q with
  | nil => exact absurd rfl hq
  | cons x xs => cases k with
    | zero => omega
    | succ k => simp

/-- Generalised invariant of a caller reading until end of stream. -/
theorem readLoop_spec {max : Nat} (hmin : minimumPduSize ≤ max) (hmax : max ≤ maximumPduSize)
    (rest : Bytes) : ∀ (ks : List Nat) (q : Bytes) (last : Bool) (rb : Bytes) (src : List Bytes)
      (pdus : List (List Pdv)) (acc : Bytes),
      (∀ k ∈ ks, 1 ≤ k) → (∀ seg ∈ src, seg ≠ []) →
      ((last = true ∧ pdus = []) ∨ (last = false ∧ MsgOk pdus)) →
      rb ++ src.flatten = encMsg pdus ++ rest →
      q.length + (msgData pdus).length + pdus.length < ks.length →
      ∃ rb' src', readLoop max ⟨q, last, rb, src⟩ ks acc
          = (⟨[], true, rb', src'⟩, acc ++ q ++ msgData pdus, .eof) ∧
        rb' ++ src'.flatten = rest ∧ (∀ seg ∈ src', seg ≠ []) := by
  intro ks
  induction ks with
  | nil => intro q last rb src pdus acc _ _ _ _ hl; simp at hl
  | cons k ks ih =>
    intro q last rb src pdus acc hks hsrc hst he hl
    have hk : 1 ≤ k := hks k (by simp)
    have hks' : ∀ k ∈ ks, 1 ≤ k := fun x hx => hks x (by simp [hx])
    by_cases hq : q = []
    · subst hq
      rcases hst with ⟨hlast, hp⟩ | ⟨hlast, hp⟩
      · subst hlast; subst hp
        refine ⟨rb, src, ?_, by simpa [encMsg] using he, hsrc⟩
        simp [readLoop, read, msgData]
      · subst hlast
        match pdus, hp with
        | [p], hp =>
          obtain ⟨hw, v, hv, hvl⟩ := hp
          have he' : rb ++ src.flatten = encPdu p ++ rest := by simpa [encMsg] using he
          obtain ⟨rb1, src1, hf, hrest, hsrc1⟩ := fetch_spec hmin hmax p hw rest src rb he' hsrc
          have hrd := read_fetch hf hv k
          rw [hvl] at hrd
          have hmd : msgData [p] = pduData p := by simp [msgData]
          by_cases hd : pduData p = []
          · refine ⟨rb1, src1, ?_, hrest, hsrc1⟩
            rw [hd] at hrd
            simp only [List.take_nil, List.drop_nil] at hrd
            rw [readLoop_eof ks acc hrd, hmd, hd]; simp
          · rw [readLoop_step ks acc hrd (take_ne_nil hd hk)]
            obtain ⟨rb', src', h1, h2, h3⟩ := ih ((pduData p).drop k) true rb1 src1 [] (acc ++ (pduData p).take k)
              hks' hsrc1 (.inl ⟨rfl, rfl⟩) (by simpa [encMsg] using hrest)
              (by rw [hmd] at hl
                  simp only [List.length_cons, List.length_nil, List.length_drop, msgData,
                    List.flatMap_nil] at hl ⊢; omega)
            refine ⟨rb', src', ?_, h2, h3⟩
            rw [h1, hmd]
            simp [msgData, List.append_assoc]
        | p :: p2 :: ps, hp =>
          obtain ⟨hw, ⟨v, hv, hvl⟩, hd, hp'⟩ := hp
          have he' : rb ++ src.flatten = encPdu p ++ (encMsg (p2 :: ps) ++ rest) := by
            simpa [encMsg, List.append_assoc] using he
          obtain ⟨rb1, src1, hf, hrest, hsrc1⟩ :=
            fetch_spec hmin hmax p hw (encMsg (p2 :: ps) ++ rest) src rb he' hsrc
          have hrd := read_fetch hf hv k
          rw [hvl] at hrd
          have hmd : msgData (p :: p2 :: ps) = pduData p ++ msgData (p2 :: ps) := by
            simp [msgData]
          rw [readLoop_step ks acc hrd (take_ne_nil hd hk)]
          obtain ⟨rb', src', h1, h2, h3⟩ := ih ((pduData p).drop k) false rb1 src1 (p2 :: ps)
            (acc ++ (pduData p).take k) hks' hsrc1 (.inr ⟨rfl, hp'⟩) hrest
            (by rw [hmd] at hl
                simp only [List.length_cons, List.length_append, List.length_drop,
                  List.length_nil] at hl ⊢; omega)
          refine ⟨rb', src', ?_, h2, h3⟩
          rw [h1, hmd]
          simp [List.append_assoc]
    · have hrd := read_nonempty max q last rb src k hq
      rw [readLoop_step ks acc hrd (take_ne_nil hq hk)]
      obtain ⟨rb', src', h1, h2, h3⟩ := ih (q.drop k) last rb src pdus (acc ++ q.take k) hks' hsrc hst he
        (by have : (q.take k).length ≥ 1 := by
              have := take_ne_nil hq hk
              exact List.length_pos_iff.mpr this
            simp only [List.length_cons, List.length_drop, List.length_take] at hl this ⊢; omega)
      refine ⟨rb', src', ?_, h2, h3⟩
      rw [h1]
      simp [List.append_assoc]
