import DicomModel.Lemmas.ValidAccept
import DicomModel.Lemmas.NormKeepCanon
/-
The checker's side conditions hold for the normal forms of a well-formed data set, with the sequence
oracle given by the dictionary (`dictSeq`), provided the padded values satisfy the visible padding rule.
-/
set_option linter.unusedSimpArgs false
namespace Dicom.ValidRef
open Dicom.Ref Dicom.Valid Dicom.Norm Dicom.C04

/-- Implicit VR: the checker's sequence oracle = "the dictionary says SQ" -/
def dictSeq (dict : Tag → Option VR) : Nat → Nat → Bool := fun g e => implicitVr dict ⟨g, e⟩ == .SQ

mutual
/-- the content of text values does not end in the *other* class's padding byte: after padding, a text value
does not end in NUL and a UI value does not end in a space (automatically true when a pad byte was added) -/
def PadVisible (ts : Syntax) : Elem → Prop
  | .prim _ vr _ v =>
    trailOk (if ts.explicit then some vr else none) (paddedValue ts.bigEndian vr v) = true
  | .seq _ _ items => PadVisibleItems ts items
  | .pix _ _ => True
def PadVisibleItems (ts : Syntax) : Items → Prop
  | .nil => True
  | .cons _ es r => PadVisibleElems ts es ∧ PadVisibleItems ts r
def PadVisibleElems (ts : Syntax) : Elems → Prop
  | .nil => True
  | .cons e r => PadVisible ts e ∧ PadVisibleElems ts r
end

theorem dictSeq_pixel (dict : Tag → Option VR) : dictSeq dict 0x7FE0 0x0010 = false := by
  simp [dictSeq, implicitVr, Tag.pixelData]

mutual
theorem side_norm_elem (ts : Syntax) (dict : Tag → Option VR) : ∀ e, WfElem ts dict e → PadVisible ts e →
    Side ts (dictSeq dict) (normElem ts e)
  | .prim tag vr len v, h, hp => by
    obtain ⟨_, _, hv, _, himp⟩ := h
    refine ⟨?_, ?_⟩
    · show trailOk _ (value ts.bigEndian (normValue ts.bigEndian vr v)) = true
      rw [refValue_norm ts.bigEndian vr v hv]; exact hp
    · intro hx
      rcases himp with h1 | h1
      · rw [hx] at h1; cases h1
      · simp [dictSeq, h1, hv.1]
  | .seq tag len items, h, hp => ⟨fun _ hne => absurd rfl hne, side_norm_items ts dict items h.2.2 hp⟩
  | .pix bot frags, _, _ => fun _ => dictSeq_pixel dict
theorem side_norm_items (ts : Syntax) (dict : Tag → Option VR) : ∀ its, WfItems ts dict its → PadVisibleItems ts its →
    SideItems ts (dictSeq dict) (normItems ts its)
  | .nil, _, _ => trivial
  | .cons _ es r, h, hp => ⟨side_norm_elems ts dict es h.1 hp.1, side_norm_items ts dict r h.2.2 hp.2⟩
theorem side_norm_elems (ts : Syntax) (dict : Tag → Option VR) : ∀ es, WfElems ts dict es → PadVisibleElems ts es →
    SideElems ts (dictSeq dict) (normElems ts es)
  | .nil, _, _ => trivial
  | .cons e r, h, hp => ⟨side_norm_elem ts dict e h.1 hp.1, side_norm_elems ts dict r h.2 hp.2⟩
end

mutual
theorem side_keep_elem (ts : Syntax) (dict : Tag → Option VR) : ∀ e, WfElem ts dict e → LenOkElem ts dict e →
    PadVisible ts e → Side ts (dictSeq dict) (keepElem ts e)
  | .prim tag vr len v, h, _, hp => side_norm_elem ts dict (.prim tag vr len v) h hp
  | .pix bot frags, _, _, _ => fun _ => dictSeq_pixel dict
  | .seq tag len items, h, hl, hp => by
    refine ⟨?_, side_keep_items ts dict items h.2.2 hl.2 hp⟩
    intro hx hne
    rcases hl.1 with h1 | ⟨_, _, h3⟩
    · exact absurd h1 hne
    · rcases h3 with h3 | h3
      · rw [hx] at h3; cases h3
      · simp [dictSeq, h3]
theorem side_keep_items (ts : Syntax) (dict : Tag → Option VR) : ∀ its, WfItems ts dict its → LenOkItems ts dict its →
    PadVisibleItems ts its → SideItems ts (dictSeq dict) (keepItems ts its)
  | .nil, _, _, _ => trivial
  | .cons _ es r, h, hl, hp =>
    ⟨side_keep_elems ts dict es h.1 hl.2.1 hp.1, side_keep_items ts dict r h.2.2 hl.2.2 hp.2⟩
theorem side_keep_elems (ts : Syntax) (dict : Tag → Option VR) : ∀ es, WfElems ts dict es → LenOkElems ts dict es →
    PadVisibleElems ts es → SideElems ts (dictSeq dict) (keepElems ts es)
  | .nil, _, _, _ => trivial
  | .cons e r, h, hl, hp => ⟨side_keep_elem ts dict e h.1 hl.1 hp.1, side_keep_elems ts dict r h.2 hl.2 hp.2⟩
end

end Dicom.ValidRef
