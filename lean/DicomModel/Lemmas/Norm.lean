import DicomModel.Props.C04
import DicomModel.Model.RefEncode
import DicomModel.Model.Build
/-
The normal form of a value / tree = what comes back after write + read, and the facts that connect an
arbitrary well-formed tree with a *canonical* one (Model/RefEncode.lean, Props/C02):
  * the writer writes `v` and its normal form to the same bytes (`paddedValue_norm`, `primitiveElement_norm`);
  * the reference value field of the normal form is the padded value field (`refValue_norm`);
  * the normal form has the shape a reader delivers for the VR (`valueFits_norm`).
-/
set_option linter.unusedSimpArgs false
namespace Dicom.Norm
open Dicom.C04

def strsVrs : List VR := [.AE, .AS, .PN, .SH, .LO, .UC, .UI, .IS, .DS, .DA, .TM, .DT, .CS]
def strVrs : List VR := [.UT, .ST, .UR, .LT]

/-- **normal form of a value under a VR**: empty ↦ `Empty`; text VRs ↦ the components of the padded
text (multi-valued VRs) or the padded string (UT/ST/UR/LT); OB/UN ↦ the padded bytes; numbers ↦ themselves
(floats lose their `Display` text, which is not part of the value) -/
def normValue (be : Bool) (vr : VR) (v : PValue) : PValue :=
  if paddedValue be vr v = [] then .empty
  else if vr ∈ strsVrs then .strs (splitBackslash (paddedValue be vr v))
  else if vr ∈ strVrs then .str (paddedValue be vr v)
  else if vr = .OB ∨ vr = .UN then .u8 (paddedValue be vr v)
  else match v with
    | .f32 l => .f32 (l.map fun p => (p.1, []))
    | .f64 l => .f64 (l.map fun p => (p.1, []))
    | v => v

/-- numbers valid for a numeric VR: the matching variant, every number in the range of its type -/
def NumericOk : VR → PValue → Prop
  | .US, .u16 l | .OW, .u16 l => ∀ x ∈ l, x < 65536
  | .SS, .i16 l => ∀ x ∈ l, -32768 ≤ x ∧ x < 32768
  | .UL, .u32 l | .OL, .u32 l => ∀ x ∈ l, x < 4294967296
  | .SL, .i32 l => ∀ x ∈ l, -2147483648 ≤ x ∧ x < 2147483648
  | .UV, .u64 l | .OV, .u64 l => ∀ x ∈ l, x < 18446744073709551616
  | .SV, .i64 l => ∀ x ∈ l, -9223372036854775808 ≤ x ∧ x < 9223372036854775808
  | .FL, .f32 l | .OF, .f32 l => ∀ p ∈ l, p.1 < 4294967296
  | .FD, .f64 l | .OD, .f64 l => ∀ p ∈ l, p.1 < 18446744073709551616
  | .AT, .tags l => ∀ t ∈ l, t.group < 65536 ∧ t.elem < 65536
  | _, _ => False

/-- **a value valid for its VR** (the property's "values valid for the VR"): text VRs take any value whose
written form is default-repertoire text (strings, typed dates/times, numbers under DS/IS); OB/UN take
bytes; the numeric VRs their own numbers; an empty value is valid everywhere -/
def ValidFor (be : Bool) (vr : VR) (v : PValue) : Prop :=
  vr ≠ .SQ ∧ ValueAscii v ∧ DsIsOk vr v ∧
  (paddedValue be vr v = [] ∨
   ((vr ∈ strsVrs ∨ vr ∈ strVrs) ∧ Ascii (paddedValue be vr v)) ∨
   ((vr = .OB ∨ vr = .UN) ∧ ∀ b ∈ paddedValue be vr v, b < 256) ∨
   NumericOk vr v)

theorem paddedValue_even (be : Bool) (vr : VR) (v : PValue) : (paddedValue be vr v).length % 2 = 0 := by
  unfold paddedValue
  split
  · exact padTo_even _ _
  · exact padTo_even _ _
  · rfl
  · split <;> exact padTo_even _ _

theorem padTo_self_of_even {bs : Bytes} (h : bs.length % 2 = 0) (p : Nat) : padTo bs p = bs := by
  unfold padTo; split
  · omega
  · rfl

theorem splitBackslash_ne : ∀ (s : Bytes), splitBackslash s ≠ []
  | [] => by simp [splitBackslash]
  | b :: r => by
    simp only [splitBackslash]
    split
    · simp
    · split <;> simp

/-- joining the components of a split text gives the text back (any text) -/
theorem join_split : ∀ (s : Bytes), joinBackslash (splitBackslash s) = s
  | [] => rfl
  | b :: r => by
    have ih := join_split r
    have hne := splitBackslash_ne r
    simp only [splitBackslash]
    split
    · rename_i hb
      subst hb
      cases hsp : splitBackslash r with
      | nil => exact absurd hsp hne
      | cons x xs => rw [hsp] at ih; simp [joinBackslash, ih]
    · cases hsp : splitBackslash r with
      | nil => exact absurd hsp hne
      | cons x xs =>
        rw [hsp] at ih
        cases xs with
        | nil => simp [joinBackslash] at ih ⊢; exact ih
        | cons y ys => simp [joinBackslash] at ih ⊢; exact ih

theorem norm_empty {be : Bool} {vr : VR} {v : PValue} (h0 : paddedValue be vr v = []) :
    normValue be vr v = .empty := by
  unfold normValue; rw [if_pos h0]

theorem norm_strs {be : Bool} {vr : VR} {v : PValue} (h0 : paddedValue be vr v ≠ []) (hs : vr ∈ strsVrs) :
    normValue be vr v = .strs (splitBackslash (paddedValue be vr v)) := by
  unfold normValue; rw [if_neg h0, if_pos hs]

theorem norm_str {be : Bool} {vr : VR} {v : PValue} (h0 : paddedValue be vr v ≠ []) (hs : vr ∉ strsVrs)
    (hs2 : vr ∈ strVrs) : normValue be vr v = .str (paddedValue be vr v) := by
  unfold normValue; rw [if_neg h0, if_neg hs, if_pos hs2]

theorem norm_u8 {be : Bool} {vr : VR} {v : PValue} (h0 : paddedValue be vr v ≠ []) (hvr : vr = .OB ∨ vr = .UN) :
    normValue be vr v = .u8 (paddedValue be vr v) := by
  have h1 : vr ∉ strsVrs := by rcases hvr with h | h <;> subst h <;> decide
  have h2 : vr ∉ strVrs := by rcases hvr with h | h <;> subst h <;> decide
  unfold normValue; rw [if_neg h0, if_neg h1, if_neg h2, if_pos hvr]

/-- erase the `Display` text of floats -/
def dropTxt : PValue → PValue
  | .f32 l => .f32 (l.map fun p => (p.1, []))
  | .f64 l => .f64 (l.map fun p => (p.1, []))
  | v => v

theorem not_text_of_numeric {vr : VR} {v : PValue} (h : NumericOk vr v) :
    vr ∉ strsVrs ∧ vr ∉ strVrs ∧ ¬ (vr = .OB ∨ vr = .UN) ∧ vr ≠ .DS ∧ vr ≠ .IS := by
  cases vr <;> cases v <;> simp [NumericOk] at h <;> simp [strsVrs, strVrs]

theorem norm_num {be : Bool} {vr : VR} {v : PValue} (h0 : paddedValue be vr v ≠ []) (h : NumericOk vr v) :
    normValue be vr v = dropTxt v := by
  obtain ⟨h1, h2, h3, _, _⟩ := not_text_of_numeric h
  unfold normValue; rw [if_neg h0, if_neg h1, if_neg h2, if_neg h3]
  cases v <;> rfl

/-- numeric value field: what `encode_primitive` writes (even length, no pad) -/
theorem paddedValue_numeric {be : Bool} {vr : VR} {v : PValue} (h : NumericOk vr v) :
    paddedValue be vr v = (encodePrimitive be v).1 ∧ paddedValue be vr (dropTxt v) = (encodePrimitive be v).1 := by
  obtain ⟨_, _, _, h4, h5⟩ := not_text_of_numeric h
  have hl : (encodePrimitive be v).1.length % 2 = 0 := by
    have := primitive_count be v
    cases vr <;> cases v <;> simp [NumericOk] at h <;> simp only [encodePrimitive] at this ⊢ <;> omega
  have e1 : paddedValue be vr v = padTo (encodePrimitive be v).1 (binPad vr) := by
    cases vr <;> cases v <;> simp [NumericOk] at h <;> simp [paddedValue]
  have e2 : paddedValue be vr (dropTxt v) = padTo (encodePrimitive be v).1 (binPad vr) := by
    cases vr <;> cases v <;> simp [NumericOk] at h <;>
      simp [paddedValue, dropTxt, encodePrimitive, List.flatMap_map]
  rw [e1, e2, padTo_self_of_even hl]
  exact ⟨rfl, rfl⟩

/-- **the writer cannot tell a value from its normal form** -/
theorem paddedValue_norm (be : Bool) (vr : VR) (v : PValue) (hv : ValidFor be vr v) :
    paddedValue be vr (normValue be vr v) = paddedValue be vr v := by
  obtain ⟨hsq, _, _, hcls⟩ := hv
  have heven := paddedValue_even be vr v
  by_cases h0 : paddedValue be vr v = []
  · rw [norm_empty h0, h0]; rfl
  rcases hcls with h | ⟨hvr, _⟩ | ⟨hvr, _⟩ | hnum
  · exact absurd h h0
  · by_cases hs : vr ∈ strsVrs
    · rw [norm_strs h0 hs]
      show padTo (joinBackslash (splitBackslash (paddedValue be vr v))) (textPad vr) = _
      rw [join_split]
      exact padTo_self_of_even heven _
    · have hs2 : vr ∈ strVrs := by rcases hvr with h | h; exact absurd h hs; exact h
      rw [norm_str h0 hs hs2]
      show padTo (paddedValue be vr v) (textPad vr) = _
      exact padTo_self_of_even heven _
  · rw [norm_u8 h0 hvr]
    have h4 : ¬ (vr = .DS ∨ vr = .IS) := by rcases hvr with h | h <;> subst h <;> decide
    show (if vr = .DS ∨ vr = .IS then _ else padTo (encodePrimitive be (.u8 (paddedValue be vr v))).1 (binPad vr)) = _
    rw [if_neg h4]
    show padTo (paddedValue be vr v) (binPad vr) = _
    exact padTo_self_of_even heven _
  · rw [norm_num h0 hnum]
    obtain ⟨e1, e2⟩ := paddedValue_numeric (be := be) hnum
    rw [e1, e2]

/-! ### the reference encoder's value field of a normal form -/

theorem join5C_eq : ∀ l : List Bytes, Ref.join5C l = joinBackslash l
  | [] => rfl
  | [_] => rfl
  | x :: y :: r => by simp [Ref.join5C, joinBackslash, join5C_eq (y :: r)]

theorem unsigned_twos16 (v : Int) (h : -32768 ≤ v ∧ v < 32768) : Ref.unsigned 65536 v = twos 16 v := by
  unfold Ref.unsigned twos; simp only [show (2:Nat)^16 = 65536 by decide]; split <;> omega
theorem unsigned_twos32 (v : Int) (h : -2147483648 ≤ v ∧ v < 2147483648) :
    Ref.unsigned 4294967296 v = twos 32 v := by
  unfold Ref.unsigned twos; simp only [show (2:Nat)^32 = 4294967296 by decide]; split <;> omega
theorem unsigned_twos64 (v : Int) (h : -9223372036854775808 ≤ v ∧ v < 9223372036854775808) :
    Ref.unsigned 18446744073709551616 v = twos 64 v := by
  unfold Ref.unsigned twos; simp only [show (2:Nat)^64 = 18446744073709551616 by decide]; split <;> omega

theorem flatMap_congr' {α : Type} (f g : α → Bytes) (l : List α) (h : ∀ a ∈ l, f a = g a) :
    l.flatMap f = l.flatMap g := by
  induction l with
  | nil => rfl
  | cons a r ih =>
    simp only [List.flatMap_cons, h a (by simp), ih (fun x hx => h x (by simp [hx]))]

/-- for a numeric value, the reference value field is what `encode_primitive` writes -/
theorem refValue_numeric {be : Bool} {vr : VR} {v : PValue} (h : NumericOk vr v) :
    Ref.value be (dropTxt v) = (encodePrimitive be v).1 := by
  cases vr <;> cases v <;> simp [NumericOk] at h <;>
    simp only [Ref.value, dropTxt, encodePrimitive, Ref.tagBytes, List.flatMap_map] <;>
    first
      | rfl
      | (apply flatMap_congr'; intro a ha; first
          | rw [unsigned_twos16 a (h a ha)]
          | rw [unsigned_twos32 a (h a ha)]
          | rw [unsigned_twos64 a (h a ha)])

/-- **the reference value field of the normal form is the padded value field the writer emits** -/
theorem refValue_norm (be : Bool) (vr : VR) (v : PValue) (hv : ValidFor be vr v) :
    Ref.value be (normValue be vr v) = paddedValue be vr v := by
  obtain ⟨hsq, _, _, hcls⟩ := hv
  by_cases h0 : paddedValue be vr v = []
  · rw [norm_empty h0, h0]; rfl
  rcases hcls with h | ⟨hvr, _⟩ | ⟨hvr, _⟩ | hnum
  · exact absurd h h0
  · by_cases hs : vr ∈ strsVrs
    · rw [norm_strs h0 hs]
      show Ref.join5C _ = _
      rw [join5C_eq, join_split]
    · have hs2 : vr ∈ strVrs := by rcases hvr with h | h; exact absurd h hs; exact h
      rw [norm_str h0 hs hs2]; rfl
  · rw [norm_u8 h0 hvr]; rfl
  · rw [norm_num h0 hnum, refValue_numeric hnum, (paddedValue_numeric (be := be) hnum).1]

/-! ### the normal form has the shape a reader delivers -/

theorem split_component : ∀ (s : Bytes), Ascii s → (splitBackslash s).all Ref.component = true
  | [], _ => by simp [splitBackslash, Ref.component]
  | b :: r, h => by
    have hr : Ascii r := fun x hx => h x (by simp [hx])
    have hb : b < 128 := h b (by simp)
    have ih := split_component r hr
    simp only [splitBackslash]
    split
    · simp [Ref.component, ih]
    · rename_i hne
      cases hsp : splitBackslash r with
      | nil => simp [Ref.component, hb, hne]
      | cons x xs =>
        rw [hsp] at ih
        simp only [List.all_cons, Bool.and_eq_true] at ih ⊢
        refine ⟨?_, ih.2⟩
        simp only [Ref.component, List.all_cons, Bool.and_eq_true] at ih ⊢
        exact ⟨by simp [hb, hne], ih.1⟩

theorem valueFits_strs {vr : VR} (h : vr ∈ strsVrs) (l : List Bytes) :
    Ref.valueFits vr (.strs l) = l.all Ref.component := by
  simp only [strsVrs, List.mem_cons, List.mem_nil_iff, or_false] at h
  rcases h with h | h | h | h | h | h | h | h | h | h | h | h | h <;> subst h <;> rfl

theorem valueFits_str {vr : VR} (h : vr ∈ strVrs) (s : Bytes) :
    Ref.valueFits vr (.str s) = Ref.plainText s := by
  simp only [strVrs, List.mem_cons, List.mem_nil_iff, or_false] at h
  rcases h with h | h | h | h <;> subst h <;> rfl

theorem all_of_forall {α : Type} (p : α → Bool) (l : List α) (h : ∀ a ∈ l, p a = true) : l.all p = true :=
  List.all_eq_true.mpr h

theorem valueFits_numeric {vr : VR} {v : PValue} (h : NumericOk vr v) : Ref.valueFits vr (dropTxt v) = true := by
  cases vr <;> cases v <;> simp [NumericOk] at h <;>
    simp only [Ref.valueFits, dropTxt] <;> apply all_of_forall <;> intro a ha <;>
    first
      | (have := h a ha; simp; omega)
      | (have := h a ha; simp [this])
      | (obtain ⟨b, hb, rfl⟩ := List.mem_map.mp ha; have := h b hb; simp; omega)
      | (obtain ⟨b, hb, rfl⟩ := List.mem_map.mp ha; have := h b.1 b.2 hb; simp; omega)

theorem valueFits_norm (be : Bool) (vr : VR) (v : PValue) (hv : ValidFor be vr v)
    (h0 : paddedValue be vr v ≠ []) : Ref.valueFits vr (normValue be vr v) = true := by
  obtain ⟨hsq, _, _, hcls⟩ := hv
  rcases hcls with h | ⟨hvr, hasc⟩ | ⟨hvr, hb⟩ | hnum
  · exact absurd h h0
  · by_cases hs : vr ∈ strsVrs
    · rw [norm_strs h0 hs, valueFits_strs hs]; exact split_component _ hasc
    · have hs2 : vr ∈ strVrs := by rcases hvr with h | h; exact absurd h hs; exact h
      rw [norm_str h0 hs hs2, valueFits_str hs2]
      exact all_of_forall _ _ (fun a ha => by simpa using hasc a ha)
  · rw [norm_u8 h0 hvr]
    rcases hvr with h | h <;> subst h <;>
      exact all_of_forall _ _ (fun a ha => by simpa using hb a ha)
  · rw [norm_num h0 hnum]; exact valueFits_numeric hnum

/-! ### the OW/U8 arm of `encode_primitive_element` is inert on valid values and on normal forms
(`ValidFor` does not include non-empty `U8` under OW: that combination is re-packed into words by the
writer and is checked by the correspondence run only) -/

theorem owWords_ne_ow {vr : VR} (h : vr ≠ .OW) (v : PValue) : owWords vr v = v := by
  cases v <;> simp [owWords, h]

theorem owWords_not_u8 (vr : VR) {v : PValue} (h : ∀ b, v ≠ .u8 b) : owWords vr v = v := by
  cases v <;> first | rfl | exact absurd rfl (h _)

theorem primitiveElement_u8_nil (e : Enc) (de : ElemHeader) (h1 : de.vr ≠ .DS) (h2 : de.vr ≠ .IS) :
    e.primitiveElement de (.u16 []) = e.primitiveElement de (.u8 []) := by
  simp [Enc.primitiveElement, h1, h2, PValue.calculateByteLen, encodePrimitive]

/-- on a valid value the full `encode_primitive_element` is its main part -/
theorem encodePrimitiveElement_valid (e : Enc) (tag : Tag) (vr : VR) (len : Nat) (v : PValue) (be : Bool)
    (hv : ValidFor be vr v) :
    e.encodePrimitiveElement ⟨tag, vr, len⟩ v = e.primitiveElement ⟨tag, vr, len⟩ v := by
  unfold Enc.encodePrimitiveElement
  by_cases hvr : vr = .OW
  · subst hvr
    cases v with
    | u8 b =>
      obtain ⟨_, _, _, hcls⟩ := hv
      have hpv : paddedValue be .OW (.u8 b) = padTo b 0 := by simp [paddedValue, encodePrimitive, binPad]
      have hb : b = [] := by
        rcases hcls with h | ⟨h, _⟩ | ⟨h, _⟩ | h
        · rw [hpv] at h
          cases b with
          | nil => rfl
          | cons x r => unfold padTo at h; split at h <;> simp at h
        · rcases h with h | h <;> simp [strsVrs, strVrs] at h
        · rcases h with h | h <;> cases h
        · exact absurd h (by simp [NumericOk])
      subst hb
      simp only [owWords, if_true, packWords]
      exact primitiveElement_u8_nil e _ (by show VR.OW ≠ .DS; decide) (by show VR.OW ≠ .IS; decide)
    | _ => rfl
  · rw [owWords_ne_ow hvr]

/-- a normal form is never bytes under OW -/
theorem owWords_norm (be : Bool) (vr : VR) (v : PValue) (hv : ValidFor be vr v) :
    owWords vr (normValue be vr v) = normValue be vr v := by
  obtain ⟨hsq, _, _, hcls⟩ := hv
  by_cases h0 : paddedValue be vr v = []
  · rw [norm_empty h0]; rfl
  rcases hcls with h | ⟨hvr, _⟩ | ⟨hvr, _⟩ | hnum
  · exact absurd h h0
  · by_cases hs : vr ∈ strsVrs
    · rw [norm_strs h0 hs]; rfl
    · have hs2 : vr ∈ strVrs := by rcases hvr with h | h; exact absurd h hs; exact h
      rw [norm_str h0 hs hs2]; rfl
  · rw [norm_u8 h0 hvr]
    exact owWords_ne_ow (by rcases hvr with h | h <;> subst h <;> decide) _
  · rw [norm_num h0 hnum]
    apply owWords_not_u8
    intro b hb
    cases vr <;> cases v <;> simp [NumericOk] at hnum <;> simp [dropTxt] at hb

end Dicom.Norm
