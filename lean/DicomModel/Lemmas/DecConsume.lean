import DicomModel.Model.LazyReader
/-
`read_value_preserved`, when it succeeds, consumes exactly the declared length: the decoder is left
`len` bytes further, whatever the VR — so reading a value, skipping it (`skip_bytes`) and copying it
(`read_to_vec`) leave the decoder in the same place. For every input.
-/
set_option linter.unusedSimpArgs false
set_option linter.unusedVariables false
namespace Dicom.DC

/-- the decoder `n` bytes further -/
def after (d : Dec) (n : Nat) : Dec := ⟨d.ts, d.dict, d.rest.drop n, d.pos + n⟩

theorem takeN_drop {n : Nat} {bs a r : Bytes} (h : takeN n bs = some (a, r)) : r = bs.drop n ∧ n ≤ bs.length := by
  unfold takeN at h
  split at h
  · injection h with h; injection h with _ h2; exact ⟨h2.symm, by assumption⟩
  · cases h

theorem rd16_drop {be : Bool} {bs r : Bytes} {v : Nat} (h : rd16 be bs = some (v, r)) : r = bs.drop 2 ∧ 2 ≤ bs.length := by
  cases be <;> simp only [rd16, Bool.false_eq_true, if_false, if_true] at h
  all_goals
    match bs, h with
    | a :: b :: r', h => simp [rdLe16, rdBe16] at h; simp [h.2]
theorem rd32_drop {be : Bool} {bs r : Bytes} {v : Nat} (h : rd32 be bs = some (v, r)) : r = bs.drop 4 ∧ 4 ≤ bs.length := by
  cases be <;> simp only [rd32, Bool.false_eq_true, if_false, if_true] at h
  all_goals
    match bs, h with
    | a :: b :: c :: d :: r', h => simp [rdLe32, rdBe32] at h; simp [h.2]
theorem rd64_drop {be : Bool} {bs r : Bytes} {v : Nat} (h : rd64 be bs = some (v, r)) : r = bs.drop 8 ∧ 8 ≤ bs.length := by
  cases be <;> simp only [rd64, Bool.false_eq_true, if_false, if_true, rdLe64, rdBe64] at h
  all_goals
    match bs, h with
    | a :: b :: c :: d :: e :: f :: g :: i :: r', h => simp [rdLe32, rdBe32] at h; simp [h.2]

theorem rdMany_drop (rd : Bytes → Option (Nat × Bytes)) (w : Nat)
    (hrd : ∀ bs v r, rd bs = some (v, r) → r = bs.drop w ∧ w ≤ bs.length) :
    ∀ (n : Nat) (bs : Bytes) (vs : List Nat) (r : Bytes), rdMany rd n bs = some (vs, r) →
      r = bs.drop (n * w) ∧ n * w ≤ bs.length
  | 0, bs, vs, r, h => by simp [rdMany] at h; simp [h.2]
  | n + 1, bs, vs, r, h => by
    simp only [rdMany] at h
    split at h
    · rename_i v r1 h1
      split at h
      · rename_i vs' r' h2
        injection h with h; injection h with _ h3
        obtain ⟨e1, l1⟩ := hrd bs v r1 h1
        obtain ⟨e2, l2⟩ := rdMany_drop rd w hrd n r1 vs' r' h2
        subst e1
        rw [← h3, e2, List.drop_drop]
        simp only [List.length_drop] at l2
        constructor
        · congr 1; rw [Nat.add_mul]; omega
        · rw [Nat.add_mul]; omega
      · cases h
    · cases h

theorem decodeTag_drop {be : Bool} {bs r : Bytes} {t : Tag} (h : decodeTag be bs = some (t, r)) :
    r = bs.drop 4 ∧ 4 ≤ bs.length := by
  unfold decodeTag at h
  split at h
  · rename_i g r1 h1
    split at h
    · rename_i e r2 h2
      injection h with h; injection h with _ h3
      obtain ⟨e1, l1⟩ := rd16_drop h1
      obtain ⟨e2, l2⟩ := rd16_drop h2
      subst e1
      rw [← h3, e2, List.drop_drop]
      simp only [List.length_drop] at l2
      exact ⟨rfl, by omega⟩
    · cases h
  · cases h

theorem rdTags_drop (be : Bool) : ∀ (n : Nat) (bs : Bytes) (ts : List Tag) (r : Bytes),
    rdTags be n bs = some (ts, r) → r = bs.drop (n * 4) ∧ n * 4 ≤ bs.length
  | 0, bs, ts, r, h => by simp [rdTags] at h; simp [h.2]
  | n + 1, bs, ts, r, h => by
    simp only [rdTags] at h
    split at h
    · rename_i t r1 h1
      split at h
      · rename_i ts' r' h2
        injection h with h; injection h with _ h3
        obtain ⟨e1, l1⟩ := decodeTag_drop h1
        obtain ⟨e2, l2⟩ := rdTags_drop be n r1 ts' r' h2
        subst e1
        rw [← h3, e2, List.drop_drop]
        simp only [List.length_drop] at l2
        constructor
        · congr 1; omega
        · omega
      · cases h
    · cases h

theorem readNums_after (d d' : Dec) (len shift : Nat) (rd : Bytes → Option (Nat × Bytes)) (w : Nat)
    (hw : 2 ^ shift = w) (hw0 : 0 < w)
    (hrd : ∀ bs v r, rd bs = some (v, r) → r = bs.drop w ∧ w ≤ bs.length)
    (mk : List Nat → PValue) (v : PValue) (h : d.readNums len shift rd mk = .ok (v, d')) : d' = after d len := by
  unfold Dec.readNums at h
  split at h
  · rename_i vs r h1
    split at h
    · rename_i x r' h2
      injection h with h; injection h with _ h3
      obtain ⟨e1, l1⟩ := rdMany_drop rd w hrd _ _ _ _ h1
      obtain ⟨e2, l2⟩ := takeN_drop h2
      rw [← h3, e2, e1, List.drop_drop, hw]
      have : len / w * w + len % w = len := by
        have := Nat.div_add_mod len w
        rw [Nat.mul_comm] at this; exact this
      simp only [after, this]
    · cases h
  · cases h

theorem take_after (d d' : Dec) (len : Nat) (buf : Bytes) (h : d.take len = .ok (buf, d')) :
    d' = ⟨d.ts, d.dict, d.rest.drop len, d.pos⟩ := by
  unfold Dec.take at h
  split at h
  · rename_i a r h1
    injection h with h; injection h with _ h3
    rw [← h3, (takeN_drop h1).1]
  · cases h

/-- **`read_value_preserved` consumes exactly the declared length** -/
theorem readValuePreserved_after (d d' : Dec) (h : ElemHeader) (v : PValue)
    (hr : d.readValuePreserved h = .ok (v, d')) : d' = after d h.len := by
  unfold Dec.readValuePreserved at hr
  by_cases hz : h.len = 0
  · simp only [hz, if_true] at hr
    injection hr with hr; injection hr with _ h2
    subst h2; simp [after, hz]
  · simp only [hz, if_false] at hr
    by_cases hsq : h.vr = .SQ
    · simp [hsq] at hr
    · simp only [hsq, if_false] at hr
      by_cases hu : h.len = undefinedLen
      · simp [hu] at hr
      · simp only [hu, if_false] at hr
        have text : ∀ (mk : Bytes → Option PValue), (match d.take h.len with
            | .error e => (.error e : Except RErr (PValue × Dec))
            | .ok (buf, d1) => match mk buf with
              | some pv => .ok (pv, { d1 with pos := d1.pos + h.len })
              | none => .error .text) = .ok (v, d') → d' = after d h.len := by
          intro mk hx
          split at hx
          · cases hx
          · rename_i buf d1 ht
            split at hx
            · injection hx with hx; injection hx with _ h3
              rw [← h3, take_after d d1 h.len buf ht]; rfl
            · cases hx
        have n16 := fun mk hh => readNums_after d d' h.len 1 (rd16 d.ts.bigEndian) 2 rfl (by decide) (fun bs v r => rd16_drop) mk v hh
        have n32 := fun mk hh => readNums_after d d' h.len 2 (rd32 d.ts.bigEndian) 4 rfl (by decide) (fun bs v r => rd32_drop) mk v hh
        have n64 := fun mk hh => readNums_after d d' h.len 3 (rd64 d.ts.bigEndian) 8 rfl (by decide) (fun bs v r => rd64_drop) mk v hh
        cases hvr : h.vr <;> simp only [hvr] at hr hsq
        all_goals first
          | exact n16 _ hr
          | exact n32 _ hr
          | exact n64 _ hr
          | (cases hr; done)
          | (-- AT
             split at hr
             · rename_i ts r h1
               split at hr
               · rename_i x r' h2
                 injection hr with hr; injection hr with _ h3
                 obtain ⟨e1, l1⟩ := rdTags_drop _ _ _ _ _ h1
                 obtain ⟨e2, l2⟩ := takeN_drop h2
                 rw [← h3, e2, e1, List.drop_drop]
                 have : h.len / 4 * 4 + h.len % 4 = h.len := by omega
                 simp only [after, this]
               · cases hr
             · cases hr)
          | (-- text and byte VRs
             split at hr
             · cases hr
             · rename_i buf d1 ht
               have hd1 := take_after d d1 h.len buf ht
               first
                 | (split at hr
                    · injection hr with hr; injection hr with _ h3
                      rw [← h3, hd1]; rfl
                    · cases hr)
                 | (injection hr with hr; injection hr with _ h3
                    rw [← h3, hd1]; rfl))

theorem skip_after (d : Dec) (n : Nat) : d.skip n = .ok (after d n) := rfl
theorem readToVec_after (d : Dec) (n : Nat) : d.readToVec n = .ok (d.rest.take n, after d n) := rfl

end Dicom.DC
