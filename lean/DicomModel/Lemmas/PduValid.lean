import DicomModel.Lemmas.Pdu
/-
Lemmas about the independent PS3.8 structure check (`validPS38`): tilings by items.
-/
namespace Dicom.Pdu

theorem tile16_fuel : ∀ (f1 f2 : Nat) (a : Bytes), a.length ≤ f1 → a.length ≤ f2 →
    tile16 f1 a = tile16 f2 a := by
  intro f1
  induction f1 with
  | zero =>
    intro f2 a h1 _
    have : a = [] := by cases a <;> simp_all
    subst this
    cases f2 <;> simp [tile16]
  | succ f1 ih =>
    intro f2 a h1 h2
    match a, h1, h2 with
    | [], _, _ => cases f2 <;> simp [tile16]
    | [_], _, h2 =>
      cases f2 with
      | zero => simp at h2
      | succ f2 => simp [tile16]
    | [_, _], _, h2 =>
      cases f2 with
      | zero => simp at h2
      | succ f2 => simp [tile16]
    | [_, _, _], _, h2 =>
      cases f2 with
      | zero => simp at h2
      | succ f2 => simp [tile16]
    | t :: z :: p :: q :: r, h1, h2 =>
      cases f2 with
      | zero => simp at h2
      | succ f2 =>
        simp only [tile16]
        by_cases hlen : r.length < 256 * p + q
        · simp [hlen]
        · simp only [hlen, if_false]
          rw [ih f2 (r.drop (256 * p + q)) (by simp at h1 ⊢; omega) (by simp at h2 ⊢; omega)]

/-- one encoded item in front of `rest` -/
theorem tile16_item (f : Nat) (t : Nat) (c rest : Bytes) (hl : c.length ≤ 65535)
    (hf : (t :: 0 :: (be16 c.length ++ c) ++ rest).length ≤ f) :
    tile16 f (t :: 0 :: (be16 c.length ++ c) ++ rest) =
      (tile16 rest.length rest).map (fun its => (t, c) :: its) := by
  cases f with
  | zero => simp at hf
  | succ f =>
    have e : 256 * (c.length / 256 % 256) + c.length % 256 = c.length := by omega
    have hlen : ¬ ((c ++ rest).length < c.length) := by simp
    simp only [be16, List.cons_append, List.nil_append, tile16, e, hlen, if_false, List.drop_left,
      List.take_left]
    rw [tile16_fuel f rest.length rest (by simp [be16] at hf; omega) (Nat.le_refl _)]
    cases tile16 rest.length rest <;> simp

/-- tilings compose -/
theorem tile16_append : ∀ (f : Nat) (a : Bytes) (x : List (Nat × Bytes)), tile16 f a = some x →
    ∀ (b : Bytes) (y : List (Nat × Bytes)), tile16 b.length b = some y →
      tile16 (a ++ b).length (a ++ b) = some (x ++ y) := by
  intro f
  induction f with
  | zero =>
    intro a x h b y hb
    cases a with
    | nil => simp [tile16] at h; subst h; simpa using hb
    | cons _ _ => simp [tile16] at h
  | succ f ih =>
    intro a x h b y hb
    match a, h with
    | [], h => simp [tile16] at h; subst h; simpa using hb
    | [_], h => simp [tile16] at h
    | [_, _], h => simp [tile16] at h
    | [_, _, _], h => simp [tile16] at h
    | t :: z :: p :: q :: r, h =>
      simp only [tile16] at h
      by_cases hlen : r.length < 256 * p + q
      · simp [hlen] at h
      · simp only [hlen, if_false] at h
        cases hr : tile16 f (r.drop (256 * p + q)) with
        | none => simp [hr] at h
        | some x' =>
          simp [hr] at h
          subst h
          have hle : 256 * p + q ≤ r.length := by omega
          have h2 := ih (r.drop (256 * p + q)) x' hr b y hb
          have hlen2 : ¬ ((r ++ b).length < 256 * p + q) := by simp; omega
          simp only [List.cons_append, List.length_cons, tile16, hlen2, if_false,
            List.drop_append_of_le_length hle, List.take_append_of_le_length hle]
          rw [tile16_fuel _ (r.drop (256 * p + q) ++ b).length _ (by simp; omega) (Nat.le_refl _), h2]
theorem tile_tsList (tss : List Str) : ∀ b, writeTsList tss = .ok b →
    ∃ its, tile16 b.length b = some its ∧ ∀ it ∈ its, it.1 = 0x40 := by
  induction tss with
  | nil =>
    intro b hw
    simp [writeTsList] at hw; subst hw
    exact ⟨[], by simp [tile16], by simp⟩
  | cons ts tss ih =>
    intro b hw
    simp only [writeTsList] at hw
    obtain ⟨x, y, hx, hy, rfl⟩ := wcat_ok.1 hw
    obtain ⟨c, hc, hl, rfl⟩ := item16_ok.1 hx
    obtain ⟨its, h1, h2⟩ := ih y hy
    refine ⟨(0x40, c) :: its, ?_, ?_⟩
    · rw [tile16_item _ _ _ _ hl (Nat.le_refl _), h1]; rfl
    · intro it hit
      rcases List.mem_cons.1 hit with h | h
      · subst h; rfl
      · exact h2 it h

theorem be16At_be16 (n : Nat) (h : n ≤ 65535) (r : Bytes) : be16At (be16 n ++ r) = some n := by
  simp [be16At, be16]; omega

theorem valid_pcProposed {pc : PcProposed} {b : Bytes} (hw : writePcProposed pc = .ok b) :
    ∃ c, b = 0x20 :: 0 :: (be16 c.length ++ c) ∧ c.length ≤ 65535 ∧ validVarItem true (0x20, c) = true := by
  simp only [writePcProposed] at hw
  obtain ⟨c, hc, hl, rfl⟩ := item16_ok.1 hw
  refine ⟨c, rfl, hl, ?_⟩
  obtain ⟨x, y, hx, hy, rfl⟩ := wcat_ok.1 hc
  cases hx
  obtain ⟨p, q, hp, hq, rfl⟩ := wcat_ok.1 hy
  obtain ⟨a, ha, hal, rfl⟩ := item16_ok.1 hp
  obtain ⟨its, h1, h2⟩ := tile_tsList _ q hq
  have ht : tile16 ([pc.id, 0, 0, 0] ++ (0x30 :: 0 :: (be16 a.length ++ a) ++ q)).length
      (0x30 :: 0 :: (be16 a.length ++ a) ++ q) = some ((0x30, a) :: its) := by
    rw [tile16_item _ _ _ _ hal (by simp), h1]; rfl
  have hall : its.all (fun s => s.1 = 48 || s.1 = 64) = true := by
    simp only [List.all_eq_true]; intro it hit; simp [h2 it hit]
  have hf : its.filter (fun s => decide (s.1 = 48)) = [] := by
    simp only [List.filter_eq_nil_iff]; intro it hit; simp [h2 it hit]
  simp only [validVarItem]
  rw [if_neg (by decide), if_pos trivial]
  have hd : List.drop 4 ([pc.id, 0, 0, 0] ++ (0x30 :: 0 :: (be16 a.length ++ a) ++ q))
      = 0x30 :: 0 :: (be16 a.length ++ a) ++ q := rfl
  rw [hd, ht]
  simp [hall, hf]

theorem valid_pcResult {pc : PcResult} {b : Bytes} (hw : writePcResult pc = .ok b) :
    ∃ c, b = 0x21 :: 0 :: (be16 c.length ++ c) ∧ c.length ≤ 65535 ∧ validVarItem false (0x21, c) = true := by
  simp only [writePcResult] at hw
  obtain ⟨c, hc, hl, rfl⟩ := item16_ok.1 hw
  refine ⟨c, rfl, hl, ?_⟩
  obtain ⟨x, y, hx, hy, rfl⟩ := wcat_ok.1 hc
  cases hx
  obtain ⟨a, ha, hal, rfl⟩ := item16_ok.1 hy
  have ht : tile16 ([pc.id, 0, pc.reason.code, 0] ++ (0x40 :: 0 :: (be16 a.length ++ a))).length
      (0x40 :: 0 :: (be16 a.length ++ a) ++ []) = some [(0x40, a)] := by
    rw [tile16_item _ _ _ _ hal (by simp)]; simp [tile16]
  simp only [validVarItem]
  rw [if_neg (by decide), if_neg (by decide), if_pos trivial]
  simp only [List.append_nil] at ht
  have hd : List.drop 4 ([pc.id, 0, pc.reason.code, 0] ++ (0x40 :: 0 :: (be16 a.length ++ a)))
      = 0x40 :: 0 :: (be16 a.length ++ a) := rfl
  rw [hd, ht]
  simp
theorem valid_userVar {v : UserVar} {b : Bytes} (hw : writeUserVar v = .ok b) (hwf : wfUserVar v = true) :
    ∃ t c, b = t :: 0 :: (be16 c.length ++ c) ∧ c.length ≤ 65535 ∧ validUserSub (t, c) = true := by
  cases v with
  | maxLength n =>
    simp only [writeUserVar] at hw
    obtain ⟨c, hc, hl, rfl⟩ := item16_ok.1 hw
    cases hc
    exact ⟨_, _, rfl, hl, by simp [validUserSub]⟩
  | implClassUid s =>
    simp only [writeUserVar] at hw
    obtain ⟨c, hc, hl, rfl⟩ := item16_ok.1 hw
    exact ⟨_, _, rfl, hl, by simp [validUserSub]⟩
  | implVersionName s =>
    simp only [writeUserVar] at hw
    obtain ⟨c, hc, hl, rfl⟩ := item16_ok.1 hw
    exact ⟨_, _, rfl, hl, by simp [validUserSub]⟩
  | unknown t d =>
    simp only [writeUserVar] at hw
    obtain ⟨c, hc, hl, rfl⟩ := item16_ok.1 hw
    simp [wfUserVar, knownUserVarCode] at hwf
    exact ⟨_, _, rfl, hl, by simp [validUserSub, hwf]⟩
  | roleSelection uid scu scp =>
    simp only [writeUserVar] at hw
    obtain ⟨c, hc, hl, rfl⟩ := item16_ok.1 hw
    obtain ⟨x, y, hx, hy, rfl⟩ := wcat_ok.1 hc
    cases hy
    obtain ⟨u, hu, hul, rfl⟩ := chunk16_ok.1 hx
    refine ⟨_, _, rfl, hl, ?_⟩
    simp only [validUserSub, List.append_assoc, be16At_be16 _ hul]
    simp; omega
  | sopClassExt uid d =>
    simp only [writeUserVar] at hw
    obtain ⟨c, hc, hl, rfl⟩ := item16_ok.1 hw
    obtain ⟨x, y, hx, hy, rfl⟩ := wcat_ok.1 hc
    cases hy
    obtain ⟨u, hu, hul, rfl⟩ := chunk16_ok.1 hx
    refine ⟨_, _, rfl, hl, ?_⟩
    simp only [validUserSub, List.append_assoc, be16At_be16 _ hul]
    simp
  | userIdentity u =>
    simp only [writeUserVar] at hw
    obtain ⟨c, hc, hl, rfl⟩ := item16_ok.1 hw
    obtain ⟨x, y, hx, hy, rfl⟩ := wcat_ok.1 hc
    cases hx
    obtain ⟨p, q, hp, hq, rfl⟩ := wcat_ok.1 hy
    obtain ⟨p', hp', hpl, rfl⟩ := chunk16_ok.1 hp
    obtain ⟨q', hq', hql, rfl⟩ := chunk16_ok.1 hq
    cases hp'; cases hq'
    refine ⟨_, _, rfl, hl, ?_⟩
    have h1 : List.drop 2 ([u.type.code, b2n u.positiveResponseRequested] ++
        (be16 u.primary.length ++ u.primary ++ (be16 u.secondary.length ++ u.secondary)))
        = be16 u.primary.length ++ (u.primary ++ (be16 u.secondary.length ++ u.secondary)) := by simp
    have h2 : List.drop (4 + u.primary.length) ([u.type.code, b2n u.positiveResponseRequested] ++
        (be16 u.primary.length ++ u.primary ++ (be16 u.secondary.length ++ u.secondary)))
        = be16 u.secondary.length ++ (u.secondary ++ []) := by
      have : ([u.type.code, b2n u.positiveResponseRequested] ++
        (be16 u.primary.length ++ u.primary ++ (be16 u.secondary.length ++ u.secondary)))
        = ([u.type.code, b2n u.positiveResponseRequested] ++ be16 u.primary.length ++ u.primary) ++
          (be16 u.secondary.length ++ (u.secondary ++ [])) := by simp
      rw [this, List.drop_left' (by simp; omega)]
    simp only [validUserSub]
    rw [if_neg (by decide), if_neg (by decide), if_neg (by decide), if_pos trivial, h1,
      be16At_be16 _ hpl]
    simp only []
    rw [h2, be16At_be16 _ hql]
    simp; omega

theorem tile_userVarList (vs : List UserVar) : ∀ b, writeUserVarList vs = .ok b →
    (∀ v ∈ vs, wfUserVar v = true) →
    ∃ its, tile16 b.length b = some its ∧ ∀ it ∈ its, validUserSub it = true := by
  induction vs with
  | nil =>
    intro b hw _
    simp [writeUserVarList] at hw; subst hw
    exact ⟨[], by simp [tile16], by simp⟩
  | cons v vs ih =>
    intro b hw hwf
    simp only [writeUserVarList] at hw
    obtain ⟨x, y, hx, hy, rfl⟩ := wcat_ok.1 hw
    obtain ⟨t, c, rfl, hl, hv⟩ := valid_userVar hx (hwf v (by simp))
    obtain ⟨its, h1, h2⟩ := ih y hy (fun w hw' => hwf w (by simp [hw']))
    refine ⟨(t, c) :: its, ?_, ?_⟩
    · rw [tile16_item _ _ _ _ hl (Nat.le_refl _), h1]; rfl
    · intro it hit
      rcases List.mem_cons.1 hit with h | h
      · subst h; exact hv
      · exact h2 it h

/-- the user-information item, or nothing for an empty list -/
theorem valid_userVars {vs : List UserVar} {b : Bytes} (hw : writeUserVars vs = .ok b)
    (hwf : ∀ v ∈ vs, wfUserVar v = true) (rq : Bool) :
    ∃ its, tile16 b.length b = some its ∧ ∀ it ∈ its, validVarItem rq it = true ∧ it.1 = 0x50 := by
  by_cases hne : vs = []
  · subst hne
    simp [writeUserVars] at hw; subst hw
    exact ⟨[], by simp [tile16], by simp⟩
  · have : vs.isEmpty = false := by cases vs <;> simp_all
    simp only [writeUserVars, this] at hw
    obtain ⟨c, hc, hl, rfl⟩ := item16_ok.1 hw
    obtain ⟨its, h1, h2⟩ := tile_userVarList vs c hc hwf
    refine ⟨[(0x50, c)], ?_, ?_⟩
    · have := tile16_item (0x50 :: 0 :: (be16 c.length ++ c) ++ []).length 0x50 c [] hl (Nat.le_refl _)
      simp only [List.append_nil] at this
      rw [this]; simp [tile16]
    · intro it hit
      simp at hit; subst hit
      refine ⟨?_, rfl⟩
      simp only [validVarItem]
      rw [if_neg (by decide), if_neg (by decide), if_neg (by decide), if_pos trivial, h1]
      simp only [List.all_eq_true]
      exact h2
theorem tile_pcProposedList (pcs : List PcProposed) : ∀ b, writePcProposedList pcs = .ok b →
    ∃ its, tile16 b.length b = some its ∧ ∀ it ∈ its, validVarItem true it = true ∧ it.1 = 0x20 := by
  induction pcs with
  | nil =>
    intro b hw
    simp [writePcProposedList] at hw; subst hw
    exact ⟨[], by simp [tile16], by simp⟩
  | cons pc pcs ih =>
    intro b hw
    simp only [writePcProposedList] at hw
    obtain ⟨x, y, hx, hy, rfl⟩ := wcat_ok.1 hw
    obtain ⟨c, rfl, hl, hv⟩ := valid_pcProposed hx
    obtain ⟨its, h1, h2⟩ := ih y hy
    refine ⟨(0x20, c) :: its, ?_, ?_⟩
    · rw [tile16_item _ _ _ _ hl (Nat.le_refl _), h1]; rfl
    · intro it hit
      rcases List.mem_cons.1 hit with h | h
      · subst h; exact ⟨hv, rfl⟩
      · exact h2 it h

theorem tile_pcResultList (pcs : List PcResult) : ∀ b, writePcResultList pcs = .ok b →
    ∃ its, tile16 b.length b = some its ∧ ∀ it ∈ its, validVarItem false it = true ∧ it.1 = 0x21 := by
  induction pcs with
  | nil =>
    intro b hw
    simp [writePcResultList] at hw; subst hw
    exact ⟨[], by simp [tile16], by simp⟩
  | cons pc pcs ih =>
    intro b hw
    simp only [writePcResultList] at hw
    obtain ⟨x, y, hx, hy, rfl⟩ := wcat_ok.1 hw
    obtain ⟨c, rfl, hl, hv⟩ := valid_pcResult hx
    obtain ⟨its, h1, h2⟩ := ih y hy
    refine ⟨(0x21, c) :: its, ?_, ?_⟩
    · rw [tile16_item _ _ _ _ hl (Nat.le_refl _), h1]; rfl
    · intro it hit
      rcases List.mem_cons.1 hit with h | h
      · subst h; exact ⟨hv, rfl⟩
      · exact h2 it h

/-- variable items of an association body: the application context item, then items of type `pt`
(presentation contexts), then at most the user information item -/
theorem valid_assocVars {γ : Type} {writePcs : List γ → W} {a : Assoc γ} {body : Bytes} (rq : Bool) (pt : Nat)
    (hpt : pt ≠ 0x10)
    (hpcs : ∀ b, writePcs a.pcs = .ok b →
      ∃ its, tile16 b.length b = some its ∧ ∀ it ∈ its, validVarItem rq it = true ∧ it.1 = pt)
    (hw : writeAssocBody writePcs a = .ok body) (huv : ∀ v ∈ a.uvs, wfUserVar v = true) :
    68 ≤ body.length ∧ ∃ items, tile16 body.length (body.drop 68) = some items ∧
      items.all (validVarItem rq) = true ∧ (items.filter (fun s => s.1 = 0x10)).length = 1 := by
  simp only [writeAssocBody] at hw
  obtain ⟨b0, r0, h0, hr0, rfl⟩ := wcat_ok.1 hw
  cases h0
  obtain ⟨ae1, r1, h1, hr1, rfl⟩ := wcat_ok.1 hr0
  obtain ⟨ae2, r2, h2, hr2, rfl⟩ := wcat_ok.1 hr1
  obtain ⟨z32, r3, h3, hr3, rfl⟩ := wcat_ok.1 hr2
  cases h3
  obtain ⟨x, r4, hx, hr4, rfl⟩ := wcat_ok.1 hr3
  obtain ⟨y, z, hy, hz, rfl⟩ := wcat_ok.1 hr4
  obtain ⟨-, l1⟩ := writeAe_ok h1
  obtain ⟨-, l2⟩ := writeAe_ok h2
  simp only [writeAcn] at hx
  obtain ⟨c, hc, hl, rfl⟩ := item16_ok.1 hx
  obtain ⟨ys, hy1, hy2⟩ := hpcs y hy
  obtain ⟨zs, hz1, hz2⟩ := valid_userVars hz huv rq
  have hyz := tile16_append _ y ys hy1 z zs hz1
  have hd : List.drop 68 (be16 a.protocolVersion ++ [0, 0] ++ (ae1 ++ (ae2 ++ (List.replicate 32 0 ++
      (0x10 :: 0 :: (be16 c.length ++ c) ++ (y ++ z)))))) = 0x10 :: 0 :: (be16 c.length ++ c) ++ (y ++ z) := by
    have : be16 a.protocolVersion ++ [0, 0] ++ (ae1 ++ (ae2 ++ (List.replicate 32 0 ++
      (0x10 :: 0 :: (be16 c.length ++ c) ++ (y ++ z))))) =
      (be16 a.protocolVersion ++ [0, 0] ++ ae1 ++ ae2 ++ List.replicate 32 0) ++
        (0x10 :: 0 :: (be16 c.length ++ c) ++ (y ++ z)) := by simp
    rw [this, List.drop_left' (by simp [l1, l2])]
  refine ⟨by simp [l1, l2]; omega, (0x10, c) :: (ys ++ zs), ?_, ?_, ?_⟩
  · rw [hd, tile16_item _ _ _ _ hl (by simp; omega), hyz]; rfl
  · simp only [List.all_cons, List.all_append, Bool.and_eq_true, List.all_eq_true]
    refine ⟨by simp [validVarItem], fun it hit => (hy2 it hit).1, fun it hit => (hz2 it hit).1⟩
  · have e1 : ys.filter (fun s => decide (s.1 = 0x10)) = [] := by
      simp only [List.filter_eq_nil_iff]; intro it hit; simp [(hy2 it hit).2, hpt]
    have e2 : zs.filter (fun s => decide (s.1 = 0x10)) = [] := by
      simp only [List.filter_eq_nil_iff]; intro it hit; simp [(hz2 it hit).2]
    simp [e1, e2]
theorem tile32_fuel : ∀ (f1 f2 : Nat) (a : Bytes), a.length ≤ f1 → a.length ≤ f2 →
    tile32 f1 a = tile32 f2 a := by
  intro f1
  induction f1 with
  | zero =>
    intro f2 a h1 _
    have : a = [] := by cases a <;> simp_all
    subst this
    cases f2 <;> simp [tile32]
  | succ f1 ih =>
    intro f2 a h1 h2
    match a, h1, h2 with
    | [], _, _ => cases f2 <;> simp [tile32]
    | [_], _, h2 =>
      cases f2 with
      | zero => simp at h2
      | succ f2 => simp [tile32]
    | [_, _], _, h2 =>
      cases f2 with
      | zero => simp at h2
      | succ f2 => simp [tile32]
    | [_, _, _], _, h2 =>
      cases f2 with
      | zero => simp at h2
      | succ f2 => simp [tile32]
    | p :: q :: s :: u :: r, h1, h2 =>
      cases f2 with
      | zero => simp at h2
      | succ f2 =>
        simp only [tile32]
        by_cases hlen : 16777216 * p + 65536 * q + 256 * s + u < 2 ∨ r.length < 16777216 * p + 65536 * q + 256 * s + u
        · simp [hlen]
        · simp only [hlen, if_false]
          rw [ih f2 (r.drop (16777216 * p + 65536 * q + 256 * s + u)) (by simp at h1 ⊢; omega) (by simp at h2 ⊢; omega)]

theorem tile32_pdvList (vs : List Pdv) : ∀ b, writePdvList vs = .ok b → (tile32 b.length b).isSome = true := by
  induction vs with
  | nil =>
    intro b hw
    simp [writePdvList] at hw; subst hw
    simp [tile32]
  | cons v vs ih =>
    intro b hw
    simp only [writePdvList] at hw
    obtain ⟨x, y, hx, hy, rfl⟩ := wcat_ok.1 hw
    simp only [writePdv] at hx
    obtain ⟨c, hc, hl, rfl⟩ := chunk32_ok.1 hx
    cases hc
    have ih' := ih y hy
    have e : 16777216 * ((v.data.length + 2) / 16777216 % 256) + 65536 * ((v.data.length + 2) / 65536 % 256)
        + 256 * ((v.data.length + 2) / 256 % 256) + (v.data.length + 2) % 256 = v.data.length + 2 := by
      simp at hl; omega
    have hc : ¬ (v.data.length + 2 < 2 ∨ v.data.length + y.length + 1 + 1 < v.data.length + 2) := by
      omega
    have hd : List.drop (v.data.length + 2) (v.pcid :: pdvHeader v :: v.data ++ y) = y := by
      have : v.pcid :: pdvHeader v :: v.data ++ y = (v.pcid :: pdvHeader v :: v.data) ++ y := by simp
      rw [this, List.drop_left' (by simp)]
    simp only [be32, List.length_cons, List.cons_append, List.nil_append, List.length_append, tile32]
    simp only [List.cons_append] at hd
    rw [e, if_neg hc, hd, tile32_fuel _ y.length y (by omega) (Nat.le_refl _)]
    cases h : tile32 y.length y with
    | none => simp [h] at ih'
    | some its => simp
end Dicom.Pdu
