import DicomModel.Lemmas.PData
/-
Lemmas for C26, asynchronous writer: under a transport script without `Err` and `Ready(0)` the
asynchronous session is a stuttering copy of the synchronous one.
-/
namespace Dicom.PData
open Dicom.Gen.Ul

/-- a transport script with no error and no zero-length write -/
def NoFault (s : List Ev) : Prop := ∀ e ∈ s, e ≠ .err ∧ e ≠ .ready 0

theorem NoFault.tail {e : Ev} {s : List Ev} (h : NoFault (e :: s)) : NoFault s :=
  fun x hx => h x (by simp [hx])

theorem noFault_nil : NoFault [] := fun _ h => by simp at h

theorem setupHeader_some_length {buf b : Bytes} {l : Bool} (h : setupHeader buf l = some b) :
    12 ≤ b.length := by
  unfold setupHeader at h
  split at h
  · simp at h
  · rename_i hc
    simp only [Option.some.injEq] at h
    subst h
    simp [be32] at hc ⊢
    omega

/-- the sending loop on a fault-free script: either everything left goes out, or it suspends
having sent a prefix of what was left -/
theorem drain_spec (buf : Bytes) : ∀ (s : List Ev) (pos : Nat) (out : Bytes), NoFault s →
    pos < buf.length →
    (∃ s', drain buf pos out s = .done (out ++ buf.drop pos) s' ∧ NoFault s' ∧ s'.length ≤ s.length) ∨
    (∃ pos' out' s', drain buf pos out s = .susp pos' out' s' ∧
      out' ++ buf.drop pos' = out ++ buf.drop pos ∧ pos' < buf.length ∧ NoFault s' ∧
      s'.length < s.length) := by
  intro s
  induction s with
  | nil => intro pos out _ _; exact .inl ⟨[], by simp [drain], noFault_nil, by simp⟩
  | cons e s ih =>
    intro pos out hnf hpos
    have hnf' := hnf.tail
    cases e with
    | err => exact absurd rfl (hnf .err (by simp)).1
    | pending =>
      exact .inr ⟨pos, out, s, by simp [drain], rfl, hpos, hnf', by simp⟩
    | ready n =>
      have hn : n ≠ 0 := fun h => (hnf (.ready n) (by simp)).2 (by rw [h])
      have hk : min n (buf.length - pos) ≠ 0 := by omega
      simp only [drain, hk, if_false]
      by_cases hfull : pos + min n (buf.length - pos) = buf.length
      · left
        refine ⟨s, ?_, hnf', by simp⟩
        simp only [hfull, if_true]
        have : (buf.drop pos).take (min n (buf.length - pos)) = buf.drop pos := by
          apply List.take_of_length_le; simp only [List.length_drop]; omega
        rw [this]
      · simp only [hfull, if_false]
        have hlt : pos + min n (buf.length - pos) < buf.length := by omega
        have hsplit : out ++ (buf.drop pos).take (min n (buf.length - pos))
            ++ buf.drop (pos + min n (buf.length - pos)) = out ++ buf.drop pos := by
          rw [List.append_assoc, ← List.drop_drop, List.take_append_drop]
        rcases ih (pos + min n (buf.length - pos))
            (out ++ (buf.drop pos).take (min n (buf.length - pos))) hnf' hlt with
          ⟨s', h1, h2, h3⟩ | ⟨pos', out', s', h1, h2, h3, h4, h5⟩
        · left
          refine ⟨s', ?_, h2, by simp; omega⟩
          rw [h1, hsplit]
        · right
          refine ⟨pos', out', s', h1, ?_, h3, h4, by simp; omega⟩
          rw [h2, hsplit]

/-- tokio's `write_all` on the transport, fault-free script: everything goes out -/
theorem sendAll_spec (buf : Bytes) : ∀ (s : List Ev) (pos : Nat) (out : Bytes), NoFault s →
    pos < buf.length →
    ∃ s', sendAll buf pos out s = (out ++ buf.drop pos, .ok, s') ∧ NoFault s' := by
  intro s
  induction s with
  | nil => intro pos out _ _; exact ⟨[], by simp [sendAll], noFault_nil⟩
  | cons e s ih =>
    intro pos out hnf hpos
    have hnf' := hnf.tail
    cases e with
    | err => exact absurd rfl (hnf .err (by simp)).1
    | pending =>
      obtain ⟨s', h1, h2⟩ := ih pos out hnf' hpos
      exact ⟨s', by simp [sendAll, h1], h2⟩
    | ready n =>
      have hn : n ≠ 0 := fun h => (hnf (.ready n) (by simp)).2 (by rw [h])
      have hk : min n (buf.length - pos) ≠ 0 := by omega
      simp only [sendAll, hk, if_false]
      by_cases hfull : pos + min n (buf.length - pos) = buf.length
      · refine ⟨s, ?_, hnf'⟩
        simp only [hfull, if_true]
        have : (buf.drop pos).take (min n (buf.length - pos)) = buf.drop pos := by
          apply List.take_of_length_le; simp only [List.length_drop]; omega
        rw [this]
      · simp only [hfull, if_false]
        have hlt : pos + min n (buf.length - pos) < buf.length := by omega
        have hsplit : out ++ (buf.drop pos).take (min n (buf.length - pos))
            ++ buf.drop (pos + min n (buf.length - pos)) = out ++ buf.drop pos := by
          rw [List.append_assoc, ← List.drop_drop, List.take_append_drop]
        obtain ⟨s', h1, h2⟩ := ih (pos + min n (buf.length - pos))
            (out ++ (buf.drop pos).take (min n (buf.length - pos))) hnf' hlt
        exact ⟨s', by rw [h1, hsplit], h2⟩

/-- outcome of one pass through the sending loop of `poll_write` -/
theorem pollSend_cases (max : Nat) (b : Bytes) (pos c : Nat) (keep : Option (Nat × Nat))
    (out chunk : Bytes) (s : List Ev) (hnf : NoFault s) (hpos : pos < b.length) :
    (∃ s', pollSend max b pos c keep out chunk s
        = (⟨(refill max (b.take 12) c chunk).1, none, out ++ b.drop pos⟩,
           .ready (refill max (b.take 12) c chunk).2, s') ∧ NoFault s' ∧ s'.length ≤ s.length) ∨
    (∃ pos' out' s', pollSend max b pos c keep out chunk s = (⟨b, some (pos', c), out'⟩, .pending, s') ∧
      out' ++ b.drop pos' = out ++ b.drop pos ∧ pos' < b.length ∧ NoFault s' ∧
      s'.length < s.length) := by
  rcases drain_spec b s pos out hnf hpos with ⟨s', h1, h2, h3⟩ | ⟨pos', out', s', h1, h2, h3, h4, h5⟩
  · left; exact ⟨s', by simp [pollSend, h1, pduPdvHeaderSize_eq], h2, h3⟩
  · right; exact ⟨pos', out', s', by simp [pollSend, h1], h2, h3, h4, h5⟩

/-- what `write_all` does after a `write` that returned `k` and left state `s1` -/
def syncCont (max : Nat) (s1 : SW) (k : Nat) (chunk : Bytes) : SW × Res :=
  match k with
  | 0 => (s1, .writeZero)
  | k' + 1 => writeAll max s1 (chunk.drop (k' + 1))

theorem writeAll_unfold {max : Nat} {s : SW} {chunk : Bytes} (hc : chunk ≠ []) :
    writeAll max s chunk = match write max s chunk with
      | none => (s, .panic)
      | some (s', k) => syncCont max s' k chunk := by
  rw [writeAll]
  simp only [hc, dite_false]
  cases h : write max s chunk with
  | none => rfl
  | some p =>
    obtain ⟨s', k⟩ := p
    cases k <;> simp [syncCont]

theorem writeAllA_unfold {max : Nat} {w : AW} {chunk : Bytes} {s : List Ev} (hc : chunk ≠ []) :
    writeAllA max w chunk s = match pollWrite max w chunk s with
      | (w', .fail r, s') => (w', r, s')
      | (w', .ready 0, s') => (w', .writeZero, s')
      | (w', .ready (k + 1), s') => writeAllA max w' (chunk.drop (k + 1)) s'
      | (w', .pending, s') => writeAllA max w' chunk s' := by
  rw [writeAllA]
  simp only [hc, dite_false]
  split <;> rename_i h <;> rw [h]

theorem writeAll_nil (max : Nat) (s : SW) : writeAll max s [] = (s, .ok) := by
  rw [writeAll]; simp

/-- an asynchronous outcome that mirrors a synchronous one -/
def lift (x : SW × Res) (s' : List Ev) : AW × Res × List Ev := (⟨x.1.buf, none, x.1.out⟩, x.2, s')

/-- Simulation of `write_all`: from the `Ready` state the asynchronous `write_all` ends like the
synchronous one; from `Writing(pos, c)` it ends like the synchronous one after the `write` whose
PDU is in flight. -/
theorem writeAllA_sim (max : Nat) : ∀ (n : Nat) (w : AW) (chunk : Bytes) (s : List Ev),
    s.length + chunk.length = n → NoFault s →
    (w.st = none → ∃ s', NoFault s' ∧
      writeAllA max w chunk s = lift (writeAll max ⟨w.buf, w.out⟩ chunk) s') ∧
    (∀ pos c, w.st = some (pos, c) → pos < w.buf.length → chunk ≠ [] → ∃ s', NoFault s' ∧
      writeAllA max w chunk s
        = lift (syncCont max ⟨(refill max (w.buf.take 12) c chunk).1, w.out ++ w.buf.drop pos⟩
                 (refill max (w.buf.take 12) c chunk).2 chunk) s') := by
  intro n
  induction n using Nat.strongRecOn with
  | ind n ih =>
    intro w chunk s hn hnf
    -- continuation shared by both states once a poll returned `Ready(k)`
    have hcont : ∀ (s1 : SW) (k : Nat) (s' : List Ev), NoFault s' → s'.length ≤ s.length →
        chunk ≠ [] → ∃ s'', NoFault s'' ∧
        (match k with
          | 0 => ((⟨s1.buf, none, s1.out⟩ : AW), Res.writeZero, s')
          | k' + 1 => writeAllA max ⟨s1.buf, none, s1.out⟩ (chunk.drop (k' + 1)) s')
          = lift (syncCont max s1 k chunk) s'' := by
      intro s1 k s' hnf' hle hc
      cases k with
      | zero => exact ⟨s', hnf', by simp [syncCont, lift]⟩
      | succ k' =>
        have hpos : 0 < chunk.length := List.length_pos_iff.mpr hc
        have hlt : s'.length + (chunk.drop (k' + 1)).length < n := by
          simp only [List.length_drop]; omega
        obtain ⟨s'', h1, h2⟩ := (ih _ hlt ⟨s1.buf, none, s1.out⟩ (chunk.drop (k' + 1)) s' rfl hnf').1 rfl
        exact ⟨s'', h1, by simpa [syncCont] using h2⟩
    -- the sending phase, shared by both states
    have hsend : ∀ (b : Bytes) (pos c : Nat) (keep : Option (Nat × Nat)) (out : Bytes),
        pos < b.length → chunk ≠ [] →
        ∃ s'', NoFault s'' ∧
        (match pollSend max b pos c keep out chunk s with
          | (w', .fail r, s') => (w', r, s')
          | (w', .ready 0, s') => (w', .writeZero, s')
          | (w', .ready (k + 1), s') => writeAllA max w' (chunk.drop (k + 1)) s'
          | (w', .pending, s') => writeAllA max w' chunk s')
          = lift (syncCont max ⟨(refill max (b.take 12) c chunk).1, out ++ b.drop pos⟩
                   (refill max (b.take 12) c chunk).2 chunk) s'' := by
      intro b pos c keep out hpos hc
      rcases pollSend_cases max b pos c keep out chunk s hnf hpos with
        ⟨s', h1, h2, h3⟩ | ⟨pos', out', s', h1, h2, h3, h4, h5⟩
      · rw [h1]
        obtain ⟨s'', h4, h5⟩ := hcont ⟨(refill max (b.take 12) c chunk).1, out ++ b.drop pos⟩
          (refill max (b.take 12) c chunk).2 s' h2 h3 hc
        refine ⟨s'', h4, ?_⟩
        rw [← h5]
        cases (refill max (b.take 12) c chunk).2 <;> rfl
      · rw [h1]
        have hlt : s'.length + chunk.length < n := by omega
        obtain ⟨s'', h6, h7⟩ :=
          (ih _ hlt ⟨b, some (pos', c), out'⟩ chunk s' rfl h4).2 pos' c rfl h3 hc
        refine ⟨s'', h6, ?_⟩
        simp only at h7 ⊢
        rw [h7, h2]
    constructor
    · intro hst
      by_cases hc : chunk = []
      · subst hc
        refine ⟨s, hnf, ?_⟩
        rw [writeAllA, writeAll_nil]; simp only [dite_true, lift]
        cases w; simp_all
      · rw [writeAllA_unfold hc]
        rw [writeAll_unfold hc]
        unfold pollWrite write
        simp only [hst]
        by_cases hfit : w.buf.length + chunk.length ≤ totalLen max
        · simp only [hfit, if_true]
          obtain ⟨s'', h1, h2⟩ := hcont ⟨w.buf ++ chunk, w.out⟩ chunk.length s hnf (Nat.le_refl _) hc
          refine ⟨s'', h1, ?_⟩
          rw [← h2]
          cases chunk.length <;> rfl
        · simp only [hfit, if_false]
          by_cases hpan : totalLen max < w.buf.length
          · simp only [hpan, if_true]
            exact ⟨s, hnf, by simp [lift]; cases w; simp_all⟩
          · simp only [hpan, if_false, dispatch]
            cases hsh : setupHeader (w.buf ++ chunk.take (totalLen max - w.buf.length)) false with
            | none => exact ⟨s, hnf, by simp [lift]; cases w; simp_all⟩
            | some b =>
              have hb := setupHeader_some_length hsh
              obtain ⟨s'', h1, h2⟩ := hsend b 0 (totalLen max - w.buf.length) none w.out
                (by omega) hc
              refine ⟨s'', h1, ?_⟩
              simp only [List.drop_zero] at h2
              simp only [pduPdvHeaderSize_eq]
              exact h2
    · intro pos c hst hpos hc
      rw [writeAllA_unfold hc]
      unfold pollWrite
      simp only [hst]
      exact hsend w.buf pos c (some (pos, c)) w.out hpos hc

theorem writeAllA_ready (max : Nat) (buf out chunk : Bytes) (s : List Ev) (hnf : NoFault s) :
    ∃ s', NoFault s' ∧ writeAllA max ⟨buf, none, out⟩ chunk s = lift (writeAll max ⟨buf, out⟩ chunk) s' :=
  (writeAllA_sim max _ ⟨buf, none, out⟩ chunk s rfl hnf).1 rfl

/-- an asynchronous result (writer, status, script left) mirroring a synchronous (writer, status) -/
theorem writeChunksA_sim (max : Nat) : ∀ (chunks : List Bytes) (buf out : Bytes) (s : List Ev),
    NoFault s → ∃ s', NoFault s' ∧
      writeChunksA max ⟨buf, none, out⟩ chunks s = lift (writeChunks max ⟨buf, out⟩ chunks) s' := by
  intro chunks
  induction chunks with
  | nil => intro buf out s hnf; exact ⟨s, hnf, by simp [writeChunksA, writeChunks, lift]⟩
  | cons c cs ih =>
    intro buf out s hnf
    obtain ⟨s1, h1, h2⟩ := writeAllA_ready max buf out c s hnf
    simp only [writeChunksA, writeChunks, h2]
    rcases hw : writeAll max ⟨buf, out⟩ c with ⟨sw, r⟩
    cases r with
    | ok =>
      obtain ⟨s2, h3, h4⟩ := ih sw.buf sw.out s1 h1
      refine ⟨s2, h3, ?_⟩
      simp only [lift]
      rw [h4]
      cases sw; rfl
    | writeZero => exact ⟨s1, h1, by simp [lift]⟩
    | brokenPipe => exact ⟨s1, h1, by simp [lift]⟩
    | io => exact ⟨s1, h1, by simp [lift]⟩
    | panic => exact ⟨s1, h1, by simp [lift]⟩

/-- `finish_impl` of a writer in the `Ready` state, fault-free script: same bytes as the
synchronous `finish_impl` -/
theorem finishA_sim (buf out : Bytes) (s : List Ev) (hnf : NoFault s) :
    (∀ sw', finishImpl ⟨buf, out⟩ = some sw' →
      ∃ s', NoFault s' ∧ finishA ⟨buf, none, out⟩ s = (⟨sw'.buf, none, sw'.out⟩, .ok, s')) ∧
    (finishImpl ⟨buf, out⟩ = none → finishA ⟨buf, none, out⟩ s = (⟨buf, none, out⟩, .panic, s)) := by
  unfold finishImpl finishA
  simp only
  by_cases he : buf.isEmpty
  · simp only [he, if_true]
    exact ⟨fun sw' h => ⟨s, hnf, by cases h; rfl⟩, fun h => by simp at h⟩
  · simp only [he]
    cases hsh : setupHeader buf true with
    | none => exact ⟨fun sw' h => by simp at h, fun _ => by simp⟩
    | some b =>
      have hb := setupHeader_some_length hsh
      obtain ⟨s', h1, h2⟩ := sendAll_spec b s 0 out hnf (by omega)
      refine ⟨fun sw' h => ⟨s', h2, ?_⟩, fun h => by simp at h⟩
      simp only [Bool.false_eq_true, if_false, Option.some.injEq] at h
      subst h
      simp [h1]
