import DicomModel.Model.Fault
/-
Layer specifications for the C34 stacks and their proofs:
`Honest`   — no write-side call of a layer hides a failure of the bottom sink;
`Faithful` — identity layers conserve the byte stream (accepted = delivered ++ buffered);
`NoPanic`  — no call panics.
-/
namespace Dicom.Fault

/-! ### the `drain` loop (write_all / flush_buf / dump) -/

theorem drain_fails_mono (w : σ → Bytes → Res Nat × σ) (fails : σ → Nat)
    (hm : ∀ s b, fails s ≤ fails (w s b).2) :
    ∀ s buf, fails s ≤ fails (drain w s buf).2.1 := by
  intro s buf
  fun_induction drain w s buf with
  | case1 s => exact Nat.le_refl _
  | case2 s buf _ s' hw => have := hm s buf; rw [hw] at this; exact this
  | case3 s buf _ n s' hw ih => have := hm s buf; rw [hw] at this; exact Nat.le_trans this ih
  | case4 s buf _ s' hw => have := hm s buf; rw [hw] at this; exact this
  | case5 s buf _ s' hw => have := hm s buf; rw [hw] at this; exact this

theorem drain_ok (w : σ → Bytes → Res Nat × σ) (fails : σ → Nat)
    (hok : ∀ s b n, (w s b).1 = .ok (n+1) → fails (w s b).2 = fails s) :
    ∀ s buf, (drain w s buf).1 = .ok () →
      fails (drain w s buf).2.1 = fails s ∧ (drain w s buf).2.2 = [] := by
  intro s buf
  fun_induction drain w s buf with
  | case1 s => intro _; exact ⟨rfl, rfl⟩
  | case2 s buf _ s' hw => intro h; cases h
  | case3 s buf _ n s' hw ih =>
    intro h
    have h1 := hok s buf n (by rw [hw])
    rw [hw] at h1
    have := ih h
    exact ⟨by rw [this.1, h1], this.2⟩
  | case4 s buf _ s' hw => intro h; cases h
  | case5 s buf _ s' hw => intro h; cases h

theorem drain_content (w : σ → Bytes → Res Nat × σ) (content : σ → Bytes)
    (hok : ∀ s b n, (w s b).1 = .ok n → content (w s b).2 = content s ++ b.take n) :
    ∀ s buf, (drain w s buf).1 = .ok () → content (drain w s buf).2.1 = content s ++ buf := by
  intro s buf
  fun_induction drain w s buf with
  | case1 s => intro _; simp
  | case2 s buf _ s' hw => intro h; cases h
  | case3 s buf _ n s' hw ih =>
    intro h
    have h1 := hok s buf (n+1) (by rw [hw])
    rw [hw] at h1
    rw [ih h, h1, List.append_assoc, List.take_append_drop]
  | case4 s buf _ s' hw => intro h; cases h
  | case5 s buf _ s' hw => intro h; cases h

/-- even when it fails, `drain` loses nothing: delivered ++ remaining = before ++ buf,
provided a failing `w` call delivers nothing -/
theorem drain_conserve (w : σ → Bytes → Res Nat × σ) (content : σ → Bytes)
    (hok : ∀ s b n, (w s b).1 = .ok n → content (w s b).2 = content s ++ b.take n)
    (herr : ∀ s b, (w s b).1 = .err → content (w s b).2 = content s) :
    ∀ s buf, (drain w s buf).1 ≠ .panic →
      content (drain w s buf).2.1 ++ (drain w s buf).2.2 = content s ++ buf := by
  intro s buf
  fun_induction drain w s buf with
  | case1 s => intro _; simp
  | case2 s buf _ s' hw =>
    intro _
    have h1 := hok s buf 0 (by rw [hw]); rw [hw] at h1; simp at h1; simp [h1]
  | case3 s buf _ n s' hw ih =>
    intro h
    have h1 := hok s buf (n+1) (by rw [hw])
    rw [hw] at h1
    rw [ih h, h1, List.append_assoc, List.take_append_drop]
  | case4 s buf _ s' hw =>
    intro _
    have h1 := herr s buf (by rw [hw]); rw [hw] at h1; simp [h1]
  | case5 s buf _ s' hw => intro h; exact absurd rfl h

theorem drain_no_panic (w : σ → Bytes → Res Nat × σ) (hnp : ∀ s b, (w s b).1 ≠ .panic) :
    ∀ s buf, (drain w s buf).1 ≠ .panic := by
  intro s buf
  fun_induction drain w s buf with
  | case1 s => intro h; cases h
  | case2 s buf _ s' hw => intro h; cases h
  | case3 s buf _ n s' hw ih => exact ih
  | case4 s buf _ s' hw => intro h; cases h
  | case5 s buf _ s' hw => exact absurd (by rw [hw]) (hnp s buf)

/-! ### layer specifications -/

/-- no write-side call hides a failure of the bottom sink; destructors may (they only count) -/
structure Honest (L : Layer σ) : Prop where
  write_mono : ∀ s b, L.fails s ≤ L.fails (L.write s b).2
  write_ok : ∀ s b n, (L.write s b).1 = .ok (n+1) → L.fails (L.write s b).2 = L.fails s
  writeAll_mono : ∀ s b, L.fails s ≤ L.fails (L.writeAll s b).2
  writeAll_ok : ∀ s b, (L.writeAll s b).1 = .ok () → L.fails (L.writeAll s b).2 = L.fails s
  flush_mono : ∀ s, L.fails s ≤ L.fails (L.flush s).2
  flush_ok : ∀ s, (L.flush s).1 = .ok () → L.fails (L.flush s).2 = L.fails s
  drop_mono : ∀ s, L.fails s ≤ L.fails (L.drop s)

/-- identity layers: what was accepted from above is delivered or still buffered, in order -/
structure Faithful (L : Layer σ) : Prop where
  write_ok : ∀ s b n, (L.write s b).1 = .ok n →
    L.out (L.write s b).2 ++ L.pend (L.write s b).2 = L.out s ++ L.pend s ++ b.take n
  write_err : ∀ s b, (L.write s b).1 = .err →
    L.out (L.write s b).2 ++ L.pend (L.write s b).2 = L.out s ++ L.pend s
  writeAll_ok : ∀ s b, (L.writeAll s b).1 = .ok () →
    L.out (L.writeAll s b).2 ++ L.pend (L.writeAll s b).2 = L.out s ++ L.pend s ++ b
  flush_ok : ∀ s, (L.flush s).1 = .ok () →
    L.pend (L.flush s).2 = [] ∧ L.out (L.flush s).2 = L.out s ++ L.pend s
  drop_idle : ∀ s, L.pend s = [] → L.out (L.drop s) = L.out s ∧ L.fails (L.drop s) = L.fails s

structure NoPanic (L : Layer σ) : Prop where
  write : ∀ s b, (L.write s b).1 ≠ .panic
  writeAll : ∀ s b, (L.writeAll s b).1 ≠ .panic
  flush : ∀ s, (L.flush s).1 ≠ .panic

/-! ### the sink -/

theorem Sink.write_mono (s : Sink β) (b : Bytes) : s.fails ≤ (s.write b).2.fails := by
  unfold Sink.write
  split
  · exact Nat.le_refl _
  · split
    · simp only; split <;> omega
    · simp only; omega

theorem Sink.write_ok (s : Sink β) (b : Bytes) (n : Nat) (h : (s.write b).1 = .ok (n+1)) :
    (s.write b).2.fails = s.fails := by
  unfold Sink.write at h ⊢
  split
  · rfl
  · rename_i hb
    simp only [hb, if_false] at h
    split
    · rename_i heq
      simp only [heq] at h ⊢
      injection h with h
      simp [h]
    · rename_i heq; simp [heq] at h

theorem Sink.write_content (s : Sink β) (b : Bytes) (n : Nat) (h : (s.write b).1 = .ok n) :
    (s.write b).2.content = s.content ++ b.take n := by
  unfold Sink.write at h ⊢
  split
  · rename_i hb; simp only [hb, if_true] at h; injection h with h; subst h; simp
  · rename_i hb
    simp only [hb, if_false] at h
    split
    · rename_i heq
      simp only [heq] at h ⊢
      injection h with h
      simp [Sink.content, h]
    · rename_i heq; simp [heq] at h

theorem Sink.write_err_content (s : Sink β) (b : Bytes) (h : (s.write b).1 = .err) :
    (s.write b).2.content = s.content := by
  unfold Sink.write at h ⊢
  split
  · rfl
  · rename_i hb
    simp only [hb, if_false] at h
    split
    · rename_i heq; simp [heq] at h
    · rfl

theorem Sink.write_no_panic (s : Sink β) (b : Bytes) : (s.write b).1 ≠ .panic := by
  unfold Sink.write
  split
  · intro h; cases h
  · split <;> (intro h; cases h)

theorem Sink.flush_spec (s : Sink β) :
    s.fails ≤ (s.flush).2.fails ∧ ((s.flush).1 = .ok () → (s.flush).2.fails = s.fails) ∧
    (s.flush).2.content = s.content ∧ (s.flush).1 ≠ .panic := by
  unfold Sink.flush
  split
  · refine ⟨Nat.le_refl _, fun _ => rfl, rfl, ?_⟩
    intro h; cases h
  · refine ⟨Nat.le_succ _, ?_, rfl, ?_⟩
    · intro h; cases h
    · intro h; cases h

/-! ### `write_all` over any `write` -/

theorem writeAllLoop_mono (w : σ → Bytes → Res Nat × σ) (fails : σ → Nat)
    (hm : ∀ s b, fails s ≤ fails (w s b).2) (s : σ) (b : Bytes) :
    fails s ≤ fails (writeAllLoop w s b).2 := drain_fails_mono w fails hm s b

theorem writeAllLoop_ok (w : σ → Bytes → Res Nat × σ) (fails : σ → Nat)
    (hok : ∀ s b n, (w s b).1 = .ok (n+1) → fails (w s b).2 = fails s) (s : σ) (b : Bytes)
    (h : (writeAllLoop w s b).1 = .ok ()) : fails (writeAllLoop w s b).2 = fails s :=
  (drain_ok w fails hok s b h).1

theorem writeAllLoop_content (w : σ → Bytes → Res Nat × σ) (content : σ → Bytes)
    (hok : ∀ s b n, (w s b).1 = .ok n → content (w s b).2 = content s ++ b.take n) (s : σ)
    (b : Bytes) (h : (writeAllLoop w s b).1 = .ok ()) :
    content (writeAllLoop w s b).2 = content s ++ b := drain_content w content hok s b h

theorem writeAllLoop_no_panic (w : σ → Bytes → Res Nat × σ) (hnp : ∀ s b, (w s b).1 ≠ .panic)
    (s : σ) (b : Bytes) : (writeAllLoop w s b).1 ≠ .panic := drain_no_panic w hnp s b

theorem sink_honest (β : Type) : Honest (sinkLayer β) where
  write_mono := Sink.write_mono
  write_ok := Sink.write_ok
  writeAll_mono := writeAllLoop_mono _ Sink.fails Sink.write_mono
  writeAll_ok := writeAllLoop_ok _ Sink.fails Sink.write_ok
  flush_mono := fun s => (Sink.flush_spec s).1
  flush_ok := fun s => (Sink.flush_spec s).2.1
  drop_mono := fun _ => Nat.le_refl _

theorem sink_faithful (β : Type) : Faithful (sinkLayer β) where
  write_ok := fun s b n h => by
    simpa [sinkLayer] using Sink.write_content s b n h
  write_err := fun s b h => by
    simpa [sinkLayer] using Sink.write_err_content s b h
  writeAll_ok := fun s b h => by
    simpa [sinkLayer] using writeAllLoop_content _ Sink.content Sink.write_content s b h
  flush_ok := fun s _ => by
    simpa [sinkLayer] using (Sink.flush_spec s).2.2.1
  drop_idle := fun _ _ => ⟨rfl, rfl⟩

theorem sink_noPanic (β : Type) : NoPanic (sinkLayer β) where
  write := Sink.write_no_panic
  writeAll := writeAllLoop_no_panic _ Sink.write_no_panic
  flush := fun s => (Sink.flush_spec s).2.2.2

/-! ### `BufWriter` -/

section Buf
variable {σ : Type} (L : Layer σ)

/-- everything the `BufWriter` and the layers below hold or have delivered, in stream order -/
def BufW.total (b : BufW σ) : Bytes := L.out b.inner ++ L.pend b.inner ++ b.buf

theorem flushBuf_mono (H : Honest L) (b : BufW σ) :
    L.fails b.inner ≤ L.fails (b.flushBuf L).2.inner :=
  drain_fails_mono L.write L.fails H.write_mono b.inner b.buf

theorem flushBuf_ok (H : Honest L) (b : BufW σ) (h : (b.flushBuf L).1 = .ok ()) :
    L.fails (b.flushBuf L).2.inner = L.fails b.inner ∧ (b.flushBuf L).2.buf = [] :=
  drain_ok L.write L.fails H.write_ok b.inner b.buf h

theorem flushBuf_cap (b : BufW σ) : (b.flushBuf L).2.cap = b.cap := rfl

theorem flushBuf_total (F : Faithful L) (b : BufW σ) (h : (b.flushBuf L).1 ≠ .panic) :
    BufW.total L (b.flushBuf L).2 = BufW.total L b := by
  have := drain_conserve L.write (fun i => L.out i ++ L.pend i)
    (fun s b n h => by simpa using F.write_ok s b n h)
    (fun s b h => by simpa using F.write_err s b h) b.inner b.buf h
  simpa [BufW.total, BufW.flushBuf] using this

theorem flushBuf_no_panic (N : NoPanic L) (b : BufW σ) : (b.flushBuf L).1 ≠ .panic :=
  drain_no_panic L.write N.write b.inner b.buf

theorem prep_mono (H : Honest L) (b : BufW σ) (n : Nat) :
    L.fails b.inner ≤ L.fails (b.prep L n).2.inner := by
  unfold BufW.prep; split
  · exact flushBuf_mono L H b
  · exact Nat.le_refl _

theorem prep_ok (H : Honest L) (b : BufW σ) (n : Nat) (h : (b.prep L n).1 = .ok ()) :
    L.fails (b.prep L n).2.inner = L.fails b.inner ∧ (b.prep L n).2.cap = b.cap ∧
    ((b.prep L n).2.buf = [] ∨ ((b.prep L n).2.buf = b.buf ∧ n ≤ b.cap - b.buf.length)) := by
  unfold BufW.prep at h ⊢; split
  · rename_i hn
    simp only [hn, if_true] at h
    exact ⟨(flushBuf_ok L H b h).1, rfl, .inl (flushBuf_ok L H b h).2⟩
  · rename_i hn
    exact ⟨rfl, rfl, .inr ⟨rfl, by omega⟩⟩

theorem prep_total (F : Faithful L) (b : BufW σ) (n : Nat) (h : (b.prep L n).1 ≠ .panic) :
    BufW.total L (b.prep L n).2 = BufW.total L b := by
  unfold BufW.prep at h ⊢; split
  · rename_i hn; simp only [hn, if_true] at h; exact flushBuf_total L F b h
  · rfl

theorem prep_no_panic (N : NoPanic L) (b : BufW σ) (n : Nat) : (b.prep L n).1 ≠ .panic := by
  unfold BufW.prep; split
  · exact flushBuf_no_panic L N b
  · intro h; cases h

theorem buf_write_mono (H : Honest L) (b : BufW σ) (d : Bytes) :
    L.fails b.inner ≤ L.fails (b.write L d).2.inner := by
  unfold BufW.write; split
  · exact Nat.le_refl _
  · have hm := prep_mono L H b d.length
    split
    · rename_i b1 heq
      rw [heq] at hm
      split
      · exact Nat.le_trans hm (H.write_mono b1.inner d)
      · exact hm
    · rename_i b1 heq; rw [heq] at hm; exact hm
    · rename_i b1 heq; rw [heq] at hm; exact hm

theorem buf_write_ok (H : Honest L) (b : BufW σ) (d : Bytes) (n : Nat)
    (h : (b.write L d).1 = .ok (n+1)) : L.fails (b.write L d).2.inner = L.fails b.inner := by
  unfold BufW.write at h ⊢; split
  · rfl
  · rename_i hfit
    simp only [hfit, if_false] at h
    split
    · rename_i b1 heq
      have hp := prep_ok L H b d.length (by rw [heq])
      rw [heq] at hp h
      simp only at h
      split
      · rename_i hc
        simp only [hc, if_true] at h
        rw [H.write_ok b1.inner d n h]; exact hp.1
      · exact hp.1
    · rename_i b1 heq; rw [heq] at h; cases h
    · rename_i b1 heq; rw [heq] at h; cases h

theorem buf_writeAll_mono (H : Honest L) (b : BufW σ) (d : Bytes) :
    L.fails b.inner ≤ L.fails (b.writeAll L d).2.inner := by
  unfold BufW.writeAll; split
  · exact Nat.le_refl _
  · have hm := prep_mono L H b d.length
    split
    · rename_i b1 heq
      rw [heq] at hm
      split
      · exact Nat.le_trans hm (H.writeAll_mono b1.inner d)
      · exact hm
    · rename_i b1 heq; rw [heq] at hm; exact hm
    · rename_i b1 heq; rw [heq] at hm; exact hm

theorem buf_writeAll_ok (H : Honest L) (b : BufW σ) (d : Bytes)
    (h : (b.writeAll L d).1 = .ok ()) : L.fails (b.writeAll L d).2.inner = L.fails b.inner := by
  unfold BufW.writeAll at h ⊢; split
  · rfl
  · rename_i hfit
    simp only [hfit, if_false] at h
    split
    · rename_i b1 heq
      have hp := prep_ok L H b d.length (by rw [heq])
      rw [heq] at hp h
      simp only at h
      split
      · rename_i hc
        simp only [hc, if_true] at h
        rw [H.writeAll_ok b1.inner d h]; exact hp.1
      · exact hp.1
    · rename_i b1 heq; rw [heq] at h; cases h
    · rename_i b1 heq; rw [heq] at h; cases h

theorem buf_flush_mono (H : Honest L) (b : BufW σ) :
    L.fails b.inner ≤ L.fails (b.flush L).2.inner := by
  unfold BufW.flush
  have hm := flushBuf_mono L H b
  split
  · rename_i b1 heq; rw [heq] at hm; exact Nat.le_trans hm (H.flush_mono b1.inner)
  · rename_i r b1 _ heq; rw [heq] at hm; exact hm

theorem buf_flush_ok (H : Honest L) (b : BufW σ) (h : (b.flush L).1 = .ok ()) :
    L.fails (b.flush L).2.inner = L.fails b.inner ∧ (b.flush L).2.buf = [] ∧
    (L.flush (b.flushBuf L).2.inner).1 = .ok () ∧ (b.flushBuf L).1 = .ok () ∧
    (b.flush L).2.inner = (L.flush (b.flushBuf L).2.inner).2 := by
  unfold BufW.flush at h ⊢
  split
  · rename_i b1 heq
    have hf := flushBuf_ok L H b (by rw [heq])
    rw [heq] at hf h ⊢
    simp only at h hf ⊢
    exact ⟨by rw [H.flush_ok b1.inner h]; exact hf.1, hf.2, h, trivial, trivial⟩
  · rename_i r b1 hne heq
    rw [heq] at h
    simp only at h
    exact absurd h hne

theorem buf_drop_mono (H : Honest L) (b : BufW σ) :
    L.fails b.inner ≤ L.fails (b.drop L).inner :=
  Nat.le_trans (flushBuf_mono L H b) (H.drop_mono _)

theorem buf_honest (H : Honest L) : Honest (bufLayer L) where
  write_mono := buf_write_mono L H
  write_ok := buf_write_ok L H
  writeAll_mono := buf_writeAll_mono L H
  writeAll_ok := buf_writeAll_ok L H
  flush_mono := buf_flush_mono L H
  flush_ok := fun b h => (buf_flush_ok L H b h).1
  drop_mono := buf_drop_mono L H

theorem buf_write_total (H : Honest L) (F : Faithful L) (b : BufW σ) (d : Bytes) (n : Nat)
    (h : (b.write L d).1 = .ok n) :
    BufW.total L (b.write L d).2 = BufW.total L b ++ d.take n := by
  unfold BufW.write at h ⊢; split
  · rename_i hfit
    simp only [hfit, if_true] at h
    injection h with h; subst h
    simp [BufW.total]
  · rename_i hfit
    simp only [hfit, if_false] at h
    split
    · rename_i b1 heq
      have hp := prep_ok L H b d.length (by rw [heq])
      have ht := prep_total L F b d.length (by rw [heq]; intro h; cases h)
      rw [heq] at hp ht h
      simp only at h hp ht
      split
      · rename_i hc
        simp only [hc, if_true] at h
        have hw := F.write_ok b1.inner d n h
        rw [← ht]
        rcases hp.2.2 with he | ⟨he, hle⟩
        · simp only [BufW.total, he, List.append_nil] at *; exact hw
        · -- nothing was flushed, the data is at least `cap` long and fits: the buffer is empty
          --   or the data is
          by_cases hd : d = []
          · subst hd
            have hw' := hw; simp only [List.take_nil, List.append_nil] at hw'
            simp only [BufW.total, List.take_nil, List.append_nil]; rw [hw']
          · have hpos : 0 < d.length := List.length_pos_iff.mpr hd
            have : b1.buf = [] := by
              rw [he]; apply List.eq_nil_of_length_eq_zero
              have := hp.2.1; omega
            simp only [BufW.total, this, List.append_nil] at *; exact hw
      · rename_i hc
        simp only [hc, if_false] at h
        injection h with h; subst h
        rw [← ht]; simp [BufW.total]
    · rename_i b1 heq; rw [heq] at h; cases h
    · rename_i b1 heq; rw [heq] at h; cases h

theorem buf_writeAll_total (H : Honest L) (F : Faithful L) (b : BufW σ) (d : Bytes)
    (h : (b.writeAll L d).1 = .ok ()) :
    BufW.total L (b.writeAll L d).2 = BufW.total L b ++ d := by
  unfold BufW.writeAll at h ⊢; split
  · simp [BufW.total]
  · rename_i hfit
    simp only [hfit, if_false] at h
    split
    · rename_i b1 heq
      have hp := prep_ok L H b d.length (by rw [heq])
      have ht := prep_total L F b d.length (by rw [heq]; intro h; cases h)
      rw [heq] at hp ht h
      simp only at h hp ht
      split
      · rename_i hc
        simp only [hc, if_true] at h
        have hw := F.writeAll_ok b1.inner d h
        rw [← ht]
        rcases hp.2.2 with he | ⟨he, hle⟩
        · simp only [BufW.total, he, List.append_nil] at *; exact hw
        · by_cases hd : d = []
          · subst hd
            have hw' := hw; simp only [List.append_nil] at hw'
            simp only [BufW.total, List.append_nil]; rw [hw']
          · have hpos : 0 < d.length := List.length_pos_iff.mpr hd
            have : b1.buf = [] := by
              rw [he]; apply List.eq_nil_of_length_eq_zero
              have := hp.2.1; omega
            simp only [BufW.total, this, List.append_nil] at *; exact hw
      · rw [← ht]; simp [BufW.total]
    · rename_i b1 heq; rw [heq] at h; cases h
    · rename_i b1 heq; rw [heq] at h; cases h

theorem buf_write_err_total (F : Faithful L) (b : BufW σ) (d : Bytes)
    (h : (b.write L d).1 = .err) : BufW.total L (b.write L d).2 = BufW.total L b := by
  unfold BufW.write at h ⊢; split
  · rename_i hfit; simp only [hfit, if_true] at h; cases h
  · rename_i hfit
    simp only [hfit, if_false] at h
    split
    · rename_i b1 heq
      have ht := prep_total L F b d.length (by rw [heq]; intro h; cases h)
      rw [heq] at ht h
      simp only at h ht
      split
      · rename_i hc
        simp only [hc, if_true] at h
        have hw := F.write_err b1.inner d h
        rw [← ht]; simp only [BufW.total]; rw [hw]
      · rename_i hc; simp only [hc, if_false] at h; cases h
    · rename_i b1 heq
      have ht := prep_total L F b d.length (by rw [heq]; intro h; cases h)
      rw [heq] at ht; exact ht
    · rename_i b1 heq; rw [heq] at h; cases h

theorem buf_flush_total (H : Honest L) (F : Faithful L) (b : BufW σ)
    (h : (b.flush L).1 = .ok ()) :
    L.pend (b.flush L).2.inner ++ (b.flush L).2.buf = [] ∧
    L.out (b.flush L).2.inner = L.out b.inner ++ (L.pend b.inner ++ b.buf) := by
  unfold BufW.flush at h ⊢
  split
  · rename_i b1 heq
    have hf := flushBuf_ok L H b (by rw [heq])
    have ht := flushBuf_total L F b (by rw [heq]; intro h; cases h)
    rw [heq] at hf ht h
    simp only at h hf ht ⊢
    have hfl := F.flush_ok b1.inner h
    refine ⟨by rw [hfl.1, hf.2]; rfl, ?_⟩
    rw [hfl.2]
    simp only [BufW.total, hf.2, List.append_nil] at ht
    rw [ht, List.append_assoc]
  · rename_i r b1 hne heq
    rw [heq] at h
    simp only at h
    exact absurd h hne

theorem buf_drop_idle (F : Faithful L) (b : BufW σ) (h : L.pend b.inner ++ b.buf = []) :
    L.out (b.drop L).inner = L.out b.inner ∧ L.fails (b.drop L).inner = L.fails b.inner := by
  have hb : b.buf = [] := (List.append_eq_nil_iff.mp h).2
  have hp : L.pend b.inner = [] := (List.append_eq_nil_iff.mp h).1
  have : (b.flushBuf L).2.inner = b.inner := by
    simp only [BufW.flushBuf, hb]; unfold drain; simp
  unfold BufW.drop
  simp only [this]
  exact F.drop_idle b.inner hp

theorem buf_faithful (H : Honest L) (F : Faithful L) : Faithful (bufLayer L) where
  write_ok := fun b d n h => by
    have := buf_write_total L H F b d n h
    simpa [bufLayer, BufW.total, List.append_assoc] using this
  write_err := fun b d h => by
    have := buf_write_err_total L F b d h
    simpa [bufLayer, BufW.total, List.append_assoc] using this
  writeAll_ok := fun b d h => by
    have := buf_writeAll_total L H F b d h
    simpa [bufLayer, BufW.total, List.append_assoc] using this
  flush_ok := fun b h => buf_flush_total L H F b h
  drop_idle := fun b h => buf_drop_idle L F b h

theorem buf_noPanic (N : NoPanic L) : NoPanic (bufLayer L) where
  write := fun b d => by
    show (b.write L d).1 ≠ .panic
    unfold BufW.write; split
    · intro h; cases h
    · have hp := prep_no_panic L N b d.length
      split
      · split
        · exact N.write _ _
        · intro h; cases h
      · intro h; cases h
      · rename_i b1 heq; rw [heq] at hp; exact absurd rfl hp
  writeAll := fun b d => by
    show (b.writeAll L d).1 ≠ .panic
    unfold BufW.writeAll; split
    · intro h; cases h
    · have hp := prep_no_panic L N b d.length
      split
      · split
        · exact N.writeAll _ _
        · intro h; cases h
      · intro h; cases h
      · rename_i b1 heq; rw [heq] at hp; exact absurd rfl hp
  flush := fun b => by
    show (b.flush L).1 ≠ .panic
    unfold BufW.flush
    have hp := flushBuf_no_panic L N b
    split
    · exact N.flush _
    · rename_i r b1 _ heq; rw [heq] at hp; exact hp

end Buf

/-! ### sequences of calls -/

section Ops
variable {σ : Type} (L : Layer σ)

theorem runOps_mono (H : Honest L) : ∀ ops s, L.fails s ≤ L.fails (runOps L ops s).2 := by
  intro ops
  induction ops with
  | nil => intro s; exact Nat.le_refl _
  | cons op rest ih =>
    intro s
    cases op with
    | w d =>
      have hm := H.writeAll_mono s d
      simp only [runOps]
      split
      · rename_i s' heq; rw [heq] at hm; exact Nat.le_trans hm (ih s')
      · rename_i r s' _ heq; rw [heq] at hm; exact hm
    | f =>
      have hm := H.flush_mono s
      simp only [runOps]
      split
      · rename_i s' heq; rw [heq] at hm; exact Nat.le_trans hm (ih s')
      · rename_i r s' _ heq; rw [heq] at hm; exact hm

theorem runOps_ok (H : Honest L) : ∀ ops s, (runOps L ops s).1 = .ok () →
    L.fails (runOps L ops s).2 = L.fails s := by
  intro ops
  induction ops with
  | nil => intro s _; rfl
  | cons op rest ih =>
    intro s
    cases op with
    | w d =>
      have hk := H.writeAll_ok s d
      simp only [runOps]
      split
      · rename_i s' heq; rw [heq] at hk; intro h; rw [ih s' h]; exact hk rfl
      · rename_i r s' hne heq; intro h; exact absurd h hne
    | f =>
      have hk := H.flush_ok s
      simp only [runOps]
      split
      · rename_i s' heq; rw [heq] at hk; intro h; rw [ih s' h]; exact hk rfl
      · rename_i r s' hne heq; intro h; exact absurd h hne

theorem runOps_content (F : Faithful L) : ∀ ops s, (runOps L ops s).1 = .ok () →
    L.out (runOps L ops s).2 ++ L.pend (runOps L ops s).2 = L.out s ++ L.pend s ++ opsData ops := by
  intro ops
  induction ops with
  | nil => intro s _; simp [runOps, opsData]
  | cons op rest ih =>
    intro s
    cases op with
    | w d =>
      have hk := F.writeAll_ok s d
      simp only [runOps, opsData]
      split
      · rename_i s' heq; rw [heq] at hk; intro h
        rw [ih s' h, hk rfl, List.append_assoc]
      · rename_i r s' hne heq; intro h; exact absurd h hne
    | f =>
      have hk := F.flush_ok s
      simp only [runOps, opsData]
      split
      · rename_i s' heq; rw [heq] at hk; intro h
        rw [ih s' h, (hk rfl).1, (hk rfl).2]; simp
      · rename_i r s' hne heq; intro h; exact absurd h hne

theorem runOps_append (a b : List Op) (s : σ) :
    runOps L (a ++ b) s =
      match runOps L a s with
      | (.ok (), s') => runOps L b s'
      | (r, s') => (r, s') := by
  induction a generalizing s with
  | nil => simp [runOps]
  | cons op rest ih =>
    cases op with
    | w d =>
      simp only [List.cons_append, runOps]
      split
      · rename_i s' heq; exact ih s'
      · rename_i r s' hne heq
        cases r with
        | ok u => exact absurd rfl hne
        | err => rfl
        | panic => rfl
    | f =>
      simp only [List.cons_append, runOps]
      split
      · rename_i s' heq; exact ih s'
      · rename_i r s' hne heq
        cases r with
        | ok u => exact absurd rfl hne
        | err => rfl
        | panic => rfl

/-- after a successful final `flush` nothing is left in any buffer -/
theorem runOps_flushed (F : Faithful L) (ops : List Op) (s : σ)
    (h : (runOps L (ops ++ [.f]) s).1 = .ok ()) : L.pend (runOps L (ops ++ [.f]) s).2 = [] := by
  rw [runOps_append] at h ⊢
  split at h
  · rename_i s' heq
    simp only [runOps] at h ⊢
    have hk := F.flush_ok s'
    split at h
    · rename_i s'' heq2; rw [heq2] at hk; exact (hk rfl).1
    · rename_i r s'' hne heq2; exact absurd h hne
  · rename_i r s' hne heq
    exact absurd h hne

theorem runOps_no_panic (N : NoPanic L) : ∀ ops s, (runOps L ops s).1 ≠ .panic := by
  intro ops
  induction ops with
  | nil => intro s h; cases h
  | cons op rest ih =>
    intro s
    cases op with
    | w d =>
      have hk := N.writeAll s d
      simp only [runOps]
      split
      · rename_i s' heq; exact ih s'
      · rename_i r s' _ heq; rw [heq] at hk; exact hk
    | f =>
      have hk := N.flush s
      simp only [runOps]
      split
      · rename_i s' heq; exact ih s'
      · rename_i r s' _ heq; rw [heq] at hk; exact hk

end Ops

/-! ### the deflate adapter -/

section Deflate
variable {σ : Type} {C : Comp} (L : Layer σ)

theorem dump_mono (H : Honest L) (d : Defl C σ) :
    L.fails d.inner ≤ L.fails (d.dump L).2.inner :=
  drain_fails_mono L.write L.fails H.write_mono d.inner d.pending

theorem dump_ok (H : Honest L) (d : Defl C σ) (h : (d.dump L).1 = .ok ()) :
    L.fails (d.dump L).2.inner = L.fails d.inner ∧ (d.dump L).2.pending = [] :=
  drain_ok L.write L.fails H.write_ok d.inner d.pending h

theorem dump_no_panic (N : NoPanic L) (d : Defl C σ) : (d.dump L).1 ≠ .panic :=
  drain_no_panic L.write N.write d.inner d.pending

theorem defl_write_mono (H : Honest L) (d : Defl C σ) (b : Bytes) :
    L.fails d.inner ≤ L.fails (d.write L b).2.inner := by
  unfold Defl.write
  have hm := dump_mono L H d
  split <;> (rename_i d1 heq; rw [heq] at hm; exact hm)

theorem defl_write_ok (H : Honest L) (d : Defl C σ) (b : Bytes) (n : Nat)
    (h : (d.write L b).1 = .ok n) : L.fails (d.write L b).2.inner = L.fails d.inner := by
  unfold Defl.write at h ⊢
  split
  · rename_i d1 heq
    have := dump_ok L H d (by rw [heq]); rw [heq] at this; exact this.1
  · rename_i d1 heq; rw [heq] at h; cases h
  · rename_i d1 heq; rw [heq] at h; cases h

theorem defl_flush_mono (H : Honest L) (d : Defl C σ) :
    L.fails d.inner ≤ L.fails (d.flush L).2.inner := by
  unfold Defl.flush
  simp only
  have hm := dump_mono L H
    ({ d with z := (C.sync d.z).1, pending := d.pending ++ (C.sync d.z).2 } : Defl C σ)
  split
  · rename_i d1 heq; rw [heq] at hm; exact Nat.le_trans hm (H.flush_mono d1.inner)
  · rename_i r d1 _ heq; rw [heq] at hm; exact hm

/-- a successful `flush` reports every failure so far and leaves nothing pending in the adapter -/
theorem defl_flush_ok (H : Honest L) (d : Defl C σ) (h : (d.flush L).1 = .ok ()) :
    L.fails (d.flush L).2.inner = L.fails d.inner ∧ (d.flush L).2.pending = [] := by
  unfold Defl.flush at h ⊢
  simp only at h ⊢
  split
  · rename_i d1 heq
    have hd := dump_ok L H _ (by rw [heq])
    rw [heq] at hd h
    simp only at h hd ⊢
    exact ⟨by rw [H.flush_ok d1.inner h]; exact hd.1, hd.2⟩
  · rename_i r d1 hne heq
    rw [heq] at h; simp only at h; exact absurd h hne

theorem defl_finish_mono (H : Honest L) (d : Defl C σ) :
    L.fails d.inner ≤ L.fails (d.finish L).2.inner := by
  unfold Defl.finish
  have hm := dump_mono L H d
  split
  · rename_i d1 heq; rw [heq] at hm
    exact Nat.le_trans hm (dump_mono L H
      ({ d1 with z := (C.fin d1.z).1, pending := d1.pending ++ (C.fin d1.z).2 } : Defl C σ))
  · rename_i r d1 _ heq; rw [heq] at hm; exact hm

theorem defl_honest (H : Honest L) : Honest (deflLayer C L) where
  write_mono := defl_write_mono L H
  write_ok := fun d b n h => defl_write_ok L H d b (n+1) h
  writeAll_mono := writeAllLoop_mono _ (fun (d : Defl C σ) => L.fails d.inner) (defl_write_mono L H)
  writeAll_ok := writeAllLoop_ok _ (fun (d : Defl C σ) => L.fails d.inner)
    (fun d b n h => defl_write_ok L H d b (n+1) h)
  flush_mono := defl_flush_mono L H
  flush_ok := fun d h => (defl_flush_ok L H d h).1
  drop_mono := fun d => Nat.le_trans (defl_finish_mono L H d) (H.drop_mono _)

theorem defl_noPanic (N : NoPanic L) : NoPanic (deflLayer C L) := by
  have hw : ∀ (d : Defl C σ) b, (d.write L b).1 ≠ .panic := by
    intro d b
    unfold Defl.write
    have hp := dump_no_panic L N d
    split
    · intro h; cases h
    · intro h; cases h
    · rename_i d1 heq; rw [heq] at hp; exact absurd rfl hp
  refine ⟨hw, writeAllLoop_no_panic _ hw, ?_⟩
  intro d
  show (d.flush L).1 ≠ .panic
  unfold Defl.flush
  simp only
  have hp := dump_no_panic L N
    ({ d with z := (C.sync d.z).1, pending := d.pending ++ (C.sync d.z).2 } : Defl C σ)
  split
  · exact N.flush _
  · rename_i r d1 _ heq; rw [heq] at hp; exact hp

end Deflate

/-! ### `PDataWriter` -/

theorem drain_inv (w : σ → Bytes → Res Nat × σ) (Inv : σ → Prop)
    (hstep : ∀ s b, Inv s → (w s b).1 ≠ .panic ∧ Inv (w s b).2) :
    ∀ s buf, Inv s → (drain w s buf).1 ≠ .panic ∧ Inv (drain w s buf).2.1 := by
  intro s buf
  fun_induction drain w s buf with
  | case1 s => intro h; exact ⟨nofun, h⟩
  | case2 s buf _ s' hw => intro h; have := hstep s buf h; rw [hw] at this; exact ⟨nofun, this.2⟩
  | case3 s buf _ n s' hw ih => intro h; have := hstep s buf h; rw [hw] at this; exact ih this.2
  | case4 s buf _ s' hw => intro h; have := hstep s buf h; rw [hw] at this; exact ⟨nofun, this.2⟩
  | case5 s buf _ s' hw => intro h; have := hstep s buf h; rw [hw] at this; exact absurd rfl this.1

section PData
variable {σ : Type} (L : Layer σ)

/-- while the writer is alive (`finish` consumes it) the buffer starts with the 12 header bytes
and never exceeds one maximum-size PDU -/
def PDataW.Wf (p : PDataW σ) : Prop :=
  pdvHeader ≤ p.buffer.length ∧ p.buffer.length ≤ p.maxPdu + 6

theorem setupHeader_some (b : Bytes) (l : Bool) (h : pdvHeader ≤ b.length) :
    ∃ b', setupHeader b l = some b' ∧ b'.length = b.length := by
  unfold setupHeader
  have : ¬ b.length < pdvHeader := by omega
  simp only [this, if_false]
  refine ⟨_, rfl, ?_⟩
  simp only [List.length_append, List.length_take, List.length_drop, be32, List.length_cons,
    List.length_nil, pdvHeader] at *
  omega

theorem dispatch_mono (H : Honest L) (p : PDataW σ) :
    L.fails p.inner ≤ L.fails (p.dispatch L).2.inner := by
  unfold PDataW.dispatch
  split
  · exact Nat.le_refl _
  · rename_i b _
    have hm := H.writeAll_mono p.inner b
    split <;> (rename_i heq; rw [heq] at hm; exact hm)

theorem dispatch_ok (H : Honest L) (p : PDataW σ) (h : (p.dispatch L).1 = .ok ()) :
    L.fails (p.dispatch L).2.inner = L.fails p.inner := by
  unfold PDataW.dispatch at h ⊢
  split
  · rename_i heq; simp only [heq] at h; cases h
  · rename_i b heq
    simp only [heq] at h
    have hk := H.writeAll_ok p.inner b
    split
    · rename_i i' heq2; rw [heq2] at hk; exact hk rfl
    · rename_i r i' hne heq2; rw [heq2] at h; simp only at h; exact absurd h hne

theorem pdata_write_mono (H : Honest L) (p : PDataW σ) (d : Bytes) :
    L.fails p.inner ≤ L.fails (p.write L d).2.inner := by
  unfold PDataW.write
  simp only
  split
  · exact Nat.le_refl _
  · split
    · exact Nat.le_refl _
    · have hm := dispatch_mono L H
        ({ p with buffer := p.buffer ++ d.take (p.maxPdu + 6 - p.buffer.length) } : PDataW σ)
      split
      · rename_i heq; rw [heq] at hm; split <;> exact hm
      · rename_i heq; rw [heq] at hm; exact hm
      · rename_i heq; rw [heq] at hm; exact hm

theorem pdata_write_ok (H : Honest L) (p : PDataW σ) (d : Bytes) (n : Nat)
    (h : (p.write L d).1 = .ok n) : L.fails (p.write L d).2.inner = L.fails p.inner := by
  unfold PDataW.write at h ⊢
  simp only at h ⊢
  split
  · rfl
  · rename_i h1
    simp only [h1, if_false] at h
    split
    · rename_i h2; simp only [h2, if_true] at h; cases h
    · rename_i h2
      simp only [h2, if_false] at h
      have hk := dispatch_ok L H
        ({ p with buffer := p.buffer ++ d.take (p.maxPdu + 6 - p.buffer.length) } : PDataW σ)
      split
      · rename_i p' heq; rw [heq] at hk; split <;> exact hk rfl
      · rename_i p' heq; rw [heq] at h; cases h
      · rename_i p' heq; rw [heq] at h; cases h

theorem pdata_finish_mono (H : Honest L) (p : PDataW σ) :
    L.fails p.inner ≤ L.fails (p.finish L).2.inner := by
  unfold PDataW.finish
  split
  · exact Nat.le_refl _
  · split
    · exact Nat.le_refl _
    · rename_i b _
      have hm := H.writeAll_mono p.inner b
      split <;> (rename_i heq; rw [heq] at hm; exact hm)

/-- a successful `finish` reports every failure and leaves the buffer empty: the last PDU went out -/
theorem pdata_finish_ok (H : Honest L) (p : PDataW σ) (h : (p.finish L).1 = .ok ()) :
    L.fails (p.finish L).2.inner = L.fails p.inner ∧ (p.finish L).2.buffer = [] := by
  unfold PDataW.finish at h ⊢
  split
  · rename_i hb; exact ⟨rfl, hb⟩
  · rename_i hb
    simp only [hb, if_false] at h
    split
    · rename_i heq; simp only [heq] at h; cases h
    · rename_i b heq
      simp only [heq] at h
      have hk := H.writeAll_ok p.inner b
      split
      · rename_i i' heq2; rw [heq2] at hk; exact ⟨hk rfl, rfl⟩
      · rename_i r i' hne heq2; rw [heq2] at h; simp only at h; exact absurd h hne

theorem pdata_honest (H : Honest L) : Honest (pdataLayer L) where
  write_mono := pdata_write_mono L H
  write_ok := fun p d n h => pdata_write_ok L H p d (n+1) h
  writeAll_mono := writeAllLoop_mono _ (fun (p : PDataW σ) => L.fails p.inner) (pdata_write_mono L H)
  writeAll_ok := writeAllLoop_ok _ (fun (p : PDataW σ) => L.fails p.inner)
    (fun p d n h => pdata_write_ok L H p d (n+1) h)
  flush_mono := fun _ => Nat.le_refl _
  flush_ok := fun _ _ => rfl
  drop_mono := pdata_finish_mono L H

theorem pdata_dispatch_wf (N : NoPanic L) (p : PDataW σ) (hw : PDataW.Wf p) :
    (p.dispatch L).1 ≠ .panic ∧ PDataW.Wf (p.dispatch L).2 ∧ (p.dispatch L).2.maxPdu = p.maxPdu := by
  obtain ⟨h1, h2⟩ := hw
  obtain ⟨b, hb, hl⟩ := setupHeader_some p.buffer false h1
  unfold PDataW.dispatch
  simp only [hb]
  have hn := N.writeAll p.inner b
  split
  · rename_i i' heq
    refine ⟨nofun, ⟨?_, ?_⟩, rfl⟩
    · simp only [List.length_take]; omega
    · simp only [List.length_take]; omega
  · rename_i r i' hne heq
    rw [heq] at hn
    exact ⟨hn, ⟨by simp only [hl]; exact h1, by simp only [hl]; exact h2⟩, rfl⟩

theorem pdata_write_wf (N : NoPanic L) (p : PDataW σ) (d : Bytes) (hw : PDataW.Wf p) :
    (p.write L d).1 ≠ .panic ∧ PDataW.Wf (p.write L d).2 ∧ (p.write L d).2.maxPdu = p.maxPdu := by
  obtain ⟨h1, h2⟩ := hw
  unfold PDataW.write
  simp only
  split
  · rename_i hfit
    refine ⟨nofun, ⟨?_, ?_⟩, rfl⟩
    · simp only [List.length_append]; omega
    · simp only [List.length_append]; omega
  · rename_i hfit
    split
    · omega
    · have hd := pdata_dispatch_wf L N
        ({ p with buffer := p.buffer ++ d.take (p.maxPdu + 6 - p.buffer.length) } : PDataW σ)
        ⟨by simp only [List.length_append]; omega,
         by simp only [List.length_append, List.length_take]; omega⟩
      split
      · rename_i p' heq; rw [heq] at hd
        split
        · exact ⟨nofun, hd.2⟩
        · obtain ⟨_, ⟨w1, w2⟩, w3⟩ := hd
          simp only at w1 w2 w3
          refine ⟨nofun, ⟨?_, ?_⟩, w3⟩
          · simp only [List.length_append]; omega
          · simp only [List.length_append, List.length_take, w3]; omega
      · rename_i p' heq; rw [heq] at hd; exact ⟨nofun, hd.2⟩
      · rename_i p' heq; rw [heq] at hd; exact absurd rfl hd.1

theorem pdata_finish_no_panic (N : NoPanic L) (p : PDataW σ) (hw : PDataW.Wf p) :
    (p.finish L).1 ≠ .panic := by
  obtain ⟨h1, h2⟩ := hw
  obtain ⟨b, hb, hl⟩ := setupHeader_some p.buffer true h1
  unfold PDataW.finish
  split
  · nofun
  · simp only [hb]
    have hn := N.writeAll p.inner b
    split
    · nofun
    · rename_i r i' hne heq; rw [heq] at hn; exact hn

end PData

/-! ### reading -/

/-- all `Err` answers the source has given -/
def Src.fails (s : Src β) : Nat := s.ioFails + s.eofFails

theorem Src.read_spec (s : Src β) (n : Nat) :
    (∀ g, (s.read n).1 = .ok g → (s.read n).2.ioFails = s.ioFails ∧ (s.read n).2.eofFails = s.eofFails) ∧
    ((s.read n).1 = .err true → (s.read n).2.ioFails = s.ioFails) ∧
    s.ioFails ≤ (s.read n).2.ioFails ∧ s.eofFails ≤ (s.read n).2.eofFails := by
  unfold Src.read
  split
  · exact ⟨fun _ _ => ⟨rfl, rfl⟩, fun _ => rfl, Nat.le_refl _, Nat.le_refl _⟩
  · split
    · exact ⟨fun _ _ => ⟨rfl, rfl⟩, fun _ => rfl, Nat.le_refl _, Nat.le_refl _⟩
    · rename_i eof st' heq
      cases eof with
      | true => exact ⟨nofun, fun _ => rfl, Nat.le_refl _, Nat.le_succ _⟩
      | false => exact ⟨nofun, nofun, Nat.le_succ _, Nat.le_refl _⟩

/-- `read_pdu_from_wire` returns a PDU only if no read of the source failed -/
theorem wireLoop_ok (frame : Bytes → Frame) (s : Src β) (rb : Bytes) (h : s.pos ≤ s.data.length)
    (x : Bytes × Bytes) (hok : (wireLoop frame s rb h).1 = .ok x) :
    (wireLoop frame s rb h).2.fails = s.fails := by
  fun_induction wireLoop frame s rb h with
  | case1 s rb h hf => cases hok
  | case2 s rb h n hf => rfl
  | case3 s rb h hf e s' hr => cases hok
  | case4 s rb h hf s' hr => cases hok
  | case5 s rb h hf g gs s' hr ih =>
    rw [ih hok]
    have := (Src.read_spec s rdCap).1 (g :: gs) (by rw [hr])
    rw [hr] at this
    simp only at this
    simp only [Src.fails]; omega

theorem readExact_spec (rd : σ → Nat → RRes Bytes × σ) (iof : σ → Nat)
    (hok : ∀ s n g, (rd s n).1 = .ok g → iof (rd s n).2 = iof s)
    (heof : ∀ s n, (rd s n).1 = .err true → iof (rd s n).2 = iof s) :
    ∀ s n acc, (readExact rd s n acc).1 ≠ .err false → iof (readExact rd s n acc).2 = iof s := by
  intro s n acc
  fun_induction readExact rd s n acc with
  | case1 s acc => intro _; rfl
  | case2 s n acc _ s' hr =>
    intro _; have := hok s n [] (by rw [hr]); rw [hr] at this; exact this
  | case3 s n acc _ g gs s' hr got ih =>
    intro h; rw [ih h]; have := hok s n (g :: gs) (by rw [hr]); rw [hr] at this; exact this
  | case4 s n acc _ e s' hr =>
    intro h
    cases e with
    | true => have := heof s n (by rw [hr]); rw [hr] at this; exact this
    | false => exact absurd rfl h

theorem BufR.fillBuf_spec (b : BufR β) :
    ((b.fillBuf).1 ≠ .err false → (b.fillBuf).2.inner.ioFails = b.inner.ioFails) := by
  unfold BufR.fillBuf
  split
  · have hs := Src.read_spec b.inner rdCap
    split
    · rename_i g i' heq; rw [heq] at hs; intro _; exact (hs.1 g rfl).1
    · rename_i e i' heq; rw [heq] at hs
      intro h
      cases e with
      | true => exact hs.2.1 rfl
      | false => exact absurd rfl h
  · intro _; rfl

theorem BufR.read_spec (b : BufR β) (n : Nat) :
    ((b.read n).1 ≠ .err false → (b.read n).2.inner.ioFails = b.inner.ioFails) := by
  unfold BufR.read
  split
  · have hs := Src.read_spec b.inner n
    intro h
    simp only at h ⊢
    cases hr : (b.inner.read n).1 with
    | ok g => exact (hs.1 g hr).1
    | err e =>
      cases e with
      | true => exact hs.2.1 hr
      | false => rw [hr] at h; exact absurd rfl h
  · have hf := BufR.fillBuf_spec b
    split
    · rename_i b1 heq; rw [heq] at hf; intro _; exact hf nofun
    · rename_i e b1 heq; rw [heq] at hf
      intro h
      cases e with
      | true => exact hf nofun
      | false => exact absurd rfl h

theorem BufR.readExact_spec (b : BufR β) (n : Nat) :
    ((b.readExact n).1 ≠ .err false → (b.readExact n).2.inner.ioFails = b.inner.ioFails) := by
  unfold BufR.readExact
  split
  · intro _; rfl
  · exact Fault.readExact_spec BufR.read (fun b => b.inner.ioFails)
      (fun s n g h => BufR.read_spec s n (by rw [h]; nofun))
      (fun s n h => BufR.read_spec s n (by rw [h]; nofun)) b n []

/-- the reader program succeeds only if no read failed with a non-EOF error -/
theorem Prog.run_ok (p : Prog) : ∀ (b : BufR β), (p.run b).1 = true →
    (p.run b).2.inner.ioFails = b.inner.ioFails := by
  induction p with
  | done ok => intro b _; rfl
  | need n k onEof ihk ihe =>
    intro b
    have hs := BufR.readExact_spec b n
    simp only [Prog.run]
    split
    · rename_i bs b' heq; rw [heq] at hs; intro h; rw [ihk bs b' h]; exact hs nofun
    · rename_i b' heq; rw [heq] at hs; intro h; rw [ihe b' h]; exact hs nofun
    · intro h; cases h

end Dicom.Fault
