import DicomModel.Lemmas.NormCanon
/-
The `NoChange` strategy (and, in fact, any strategy): the data set writer state machine cannot tell a
well-formed tree from its length-keeping normal form `keepElems` (values in normal form, recorded sequence /
item lengths kept). With recorded lengths that are consistent (`LenOk`: every defined length = the length of
the reference encoding of the content) the normal form is canonical, so the NoChange writer emits the
reference encoding and the reader returns the normal form.
-/
set_option linter.unusedSimpArgs false
namespace Dicom.Norm
open Dicom.C04 Dicom.Ref

mutual
/-- normal form keeping the recorded sequence and item lengths -/
def keepElem (ts : Syntax) : Elem → Elem
  | .prim tag vr _ v =>
    .prim tag vr (paddedValue ts.bigEndian vr v).length (normValue ts.bigEndian vr v)
  | .seq tag len items => .seq tag len (keepItems ts items)
  | .pix bot frags => .pix bot (frags.map fun f => padTo f 0)
def keepItems (ts : Syntax) : Items → Items
  | .nil => .nil
  | .cons len elems rest => .cons len (keepElems ts elems) (keepItems ts rest)
def keepElems (ts : Syntax) : Elems → Elems
  | .nil => .nil
  | .cons e rest => .cons (keepElem ts e) (keepElems ts rest)
end

mutual
/-- **recorded lengths are consistent**: a defined sequence / item length is the length of (the reference
encoding of) its content, representable in 32 bits; Implicit VR: a defined-length sequence is one the
dictionary knows as SQ (otherwise no reader could tell it from a primitive value) -/
def LenOkElem (ts : Syntax) (dict : Tag → Option VR) : Elem → Prop
  | .seq tag len items =>
    (len = undefinedLen ∨
      (len = (encItems ts (keepItems ts items)).length ∧ len < 4294967295
        ∧ (ts.explicit = true ∨ implicitVr dict tag = .SQ)))
    ∧ LenOkItems ts dict items
  | _ => True
def LenOkItems (ts : Syntax) (dict : Tag → Option VR) : Items → Prop
  | .nil => True
  | .cons len elems rest =>
    (len = undefinedLen ∨ (len = (encElems ts (keepElems ts elems)).length ∧ len < 4294967295))
    ∧ LenOkElems ts dict elems ∧ LenOkItems ts dict rest
def LenOkElems (ts : Syntax) (dict : Tag → Option VR) : Elems → Prop
  | .nil => True
  | .cons e rest => LenOkElem ts dict e ∧ LenOkElems ts dict rest
end

/-! ### steps of the writer that are not value tokens keep the syntax -/

theorem elementHeader_ts {e e' : Enc} {hd : ElemHeader} (h : e.elementHeader hd = .ok e') : e'.ts = e.ts := by
  unfold Enc.elementHeader at h
  dsimp only at h
  split at h
  · injection h with h; subst h; rfl
  · cases h

/-- one writer step on a structural token (anything but a primitive value) keeps the syntax -/
theorem write_struct_ts {w w' : Writer} {tok : Token} (hnp : ∀ v, tok ≠ .primitiveValue v)
    (h : w.write tok = .ok w') : w'.enc.ts = w.enc.ts := by
  have himpl : ∀ (u u' : Writer) (t : Token), (∀ v, t ≠ .primitiveValue v) → u.writeImpl t = .ok u' →
      u'.enc.ts = u.enc.ts := by
    intro u u' t hn hu
    cases t <;> simp only [Writer.writeImpl] at hu
    case elementHeader hd =>
      split at hu
      · rename_i e1 h1; injection hu with hu; subst hu; exact elementHeader_ts h1
      · cases hu
    case sequenceStart tag len =>
      split at hu
      · rename_i e1 h1; injection hu with hu; subst hu; exact elementHeader_ts h1
      · cases hu
    case pixelSequenceStart =>
      split at hu
      · rename_i e1 h1; injection hu with hu; subst hu; exact elementHeader_ts h1
      · cases hu
    case sequenceEnd => injection hu with hu; subst hu; rfl
    case itemStart len => injection hu with hu; subst hu; rfl
    case itemEnd => injection hu with hu; subst hu; rfl
    case primitiveValue v => exact absurd rfl (hn v)
    case itemValue bs =>
      injection hu with hu; subst hu
      simp only [Enc.writeBytes]; split <;> rfl
    case offsetTable t => injection hu with hu; subst hu; rfl
    case panic => cases hu
  unfold Writer.write at h
  split at h
  · split at h <;> (have hh := himpl _ _ _ (by intro v hv; cases hv) h; exact hh)
  · split at h <;> (try dsimp only at h) <;> (have hh := himpl _ _ _ (by intro v hv; cases hv) h; exact hh)
  · split at h
    · dsimp only at h
      split at h
      · (have hh := himpl _ _ _ (by intro v hv; cases hv) h; exact hh)
      · injection h with h; subst h; rfl
    · injection h with h; subst h; rfl
  · split at h
    · dsimp only at h
      split at h
      · (have hh := himpl _ _ _ (by intro v hv; cases hv) h; exact hh)
      · injection h with h; subst h; rfl
    · injection h with h; subst h; rfl
  · injection h with h; subst h; rfl
  · (have hh := himpl _ _ _ (by intro v hv; cases hv) h; exact hh)
  · (have hh := himpl _ _ _ hnp h; exact hh)
  · exact absurd rfl (hnp _)
  · (have hh := himpl _ _ _ hnp h; exact hh)
  · (have hh := himpl _ _ _ hnp h; exact hh)

/-- the invariant carried through the induction -/
def Good (ts : Syntax) (w : Writer) : Prop := w.enc.ts = ts ∧ Enc.Exact w.enc

theorem good_step {ts : Syntax} {w w' : Writer} {tok : Token} (hnp : ∀ v, tok ≠ .primitiveValue v)
    (hg : Good ts w) (h : w.write tok = .ok w') : Good ts w' :=
  ⟨(write_struct_ts hnp h).trans hg.1, write_exact hg.2 tok h⟩

/-- a run over structural tokens only keeps the invariant -/
theorem good_run {ts : Syntax} : ∀ (toks : List Token), (∀ t ∈ toks, ∀ v, t ≠ .primitiveValue v) →
    ∀ (w w' : Writer), Good ts w → w.writeAll toks = .ok w' → Good ts w'
  | [], _, w, w', hg, h => by simp only [Writer.writeAll] at h; injection h with h; subst h; exact hg
  | t :: r, hn, w, w', hg, h => by
    simp only [Writer.writeAll] at h
    split at h
    · rename_i w1 h1
      exact good_run r (fun x hx => hn x (by simp [hx])) w1 w'
        (good_step (hn t (by simp)) hg h1) h
    · cases h

/-! ### fragments: padded or not, the same writer state results -/

/-- the fragment items of a pixel sequence under either strategy (`SetUndefined` needs the pixel header
in `last_de`, which is where the writer keeps it) -/
theorem frag_run (f : Bytes) (hf : f.length < 4294967295) (w : Writer)
    (hs : w.strat = .noChange ∨ w.lastDe = some pixHdr) :
    w.writeAll (fragTokens f) = .ok { w with enc := recFrag w.enc f } := by
  have hflen : f.length % 4294967296 ≠ undefinedLen := by unfold undefinedLen; omega
  obtain ⟨enc, st, ld, sr⟩ := w
  unfold fragTokens recFrag
  rcases hs with hs | hs
  · simp only at hs; subst hs
    by_cases he : f.isEmpty = true
    · simp [he, Writer.writeAll, Writer.write, Writer.writeImpl, undefinedLen]
    · simp [he, Writer.writeAll, Writer.write, Writer.writeImpl, hflen]
  · simp only at hs; subst hs
    cases sr
    · by_cases he : f.isEmpty = true
      · simp [he, Writer.writeAll, Writer.write, Writer.writeImpl, pixHdr, ElemHeader.isEncapsulatedPixeldata,
          undefinedLen]
      · simp [he, Writer.writeAll, Writer.write, Writer.writeImpl, pixHdr, ElemHeader.isEncapsulatedPixeldata,
          hflen]
    · by_cases he : f.isEmpty = true
      · simp [he, Writer.writeAll, Writer.write, Writer.writeImpl, undefinedLen]
      · simp [he, Writer.writeAll, Writer.write, Writer.writeImpl, hflen]

theorem frags_run : ∀ (frags : List Bytes), (∀ f ∈ frags, f.length < 4294967295) → ∀ (w : Writer),
    (w.strat = .noChange ∨ w.lastDe = some pixHdr) →
    w.writeAll (frags.flatMap fragTokens) = .ok { w with enc := recFrags w.enc frags }
  | [], _, w, _ => rfl
  | f :: r, hf, w, hs => by
    rw [List.flatMap_cons, writeAll_append, frag_run f (hf f (by simp)) w hs]
    simp only [exBind]
    have := frags_run r (fun x hx => hf x (by simp [hx])) { w with enc := recFrag w.enc f } hs
    rw [this]
    rfl

theorem frags_keep (frags : List Bytes) (hf : ∀ f ∈ frags, f.length < 4294967294) (w : Writer)
    (hs : w.strat = .noChange ∨ w.lastDe = some pixHdr) :
    w.writeAll ((frags.map fun f => padTo f 0).flatMap fragTokens) = w.writeAll (frags.flatMap fragTokens) := by
  rw [frags_run frags (fun f h => by have := hf f h; omega) w hs]
  rw [frags_run _ (fun f h => by
    obtain ⟨g, hg, rfl⟩ := List.mem_map.mp h
    have := hf g hg
    rw [padTo_length]; unfold evenUp; omega) w hs]
  rw [recFrags_pad frags _ hf]

/-- after `PixelSequenceStart` the writer is in a state where fragments keep their length -/
theorem pix_start_state {w w1 : Writer} (h : w.write .pixelSequenceStart = .ok w1) :
    w1.strat = .noChange ∨ w1.lastDe = some pixHdr := by
  right
  simp only [Writer.write, Writer.writeImpl] at h
  split at h
  · injection h with h; subst h; rfl
  · cases h

theorem bot_tokens_struct (bot : List Nat) : ∀ t ∈ botTokens bot, ∀ v, t ≠ .primitiveValue v := by
  intro t ht v hv
  unfold botTokens at ht
  split at ht
  · simp at ht; rcases ht with h | h <;> subst h <;> cases hv
  · simp at ht; rcases ht with h | h | h <;> subst h <;> cases hv

/-- the state needed for fragments survives the offset table item -/
theorem bot_keeps {w w' : Writer} (bot : List Nat) (hs : w.strat = .noChange ∨ w.lastDe = some pixHdr)
    (h : w.writeAll (botTokens bot) = .ok w') : w'.strat = .noChange ∨ w'.lastDe = some pixHdr := by
  obtain ⟨enc, st, ld, sr⟩ := w
  unfold botTokens at h
  have hu : bot.length * 4 % 4294967296 ≠ undefinedLen := by unfold undefinedLen; omega
  rcases hs with hs | hs <;> simp only at hs <;> subst hs
  · split at h
    · simp [Writer.writeAll, Writer.write, Writer.writeImpl, undefinedLen] at h; subst h; left; rfl
    · simp [Writer.writeAll, Writer.write, Writer.writeImpl, hu] at h; subst h; left; rfl
  · cases sr
    · split at h
      · simp [Writer.writeAll, Writer.write, Writer.writeImpl, pixHdr, ElemHeader.isEncapsulatedPixeldata,
          undefinedLen] at h
        subst h; right; rfl
      · simp [Writer.writeAll, Writer.write, Writer.writeImpl, pixHdr, ElemHeader.isEncapsulatedPixeldata, hu] at h
        subst h; right; rfl
    · split at h
      · simp [Writer.writeAll, Writer.write, Writer.writeImpl, undefinedLen] at h; subst h; left; rfl
      · simp [Writer.writeAll, Writer.write, Writer.writeImpl, hu] at h; subst h; left; rfl

/-! ### the writer on a tree and on its length-keeping normal form -/

mutual
theorem keep_elem (ts : Syntax) (dict : Tag → Option VR) : ∀ (el : Elem), WfElem ts dict el →
    ∀ (w : Writer), Good ts w → w.lastDe = none →
      w.writeAll (keepElem ts el).tokens = w.writeAll el.tokens ∧
      ∀ w', w.writeAll el.tokens = .ok w' → Good ts w' ∧ w'.lastDe = none
  | .prim tag vr len v, h, w, hg, hl => by
    obtain ⟨_, h2, hv, hf, _⟩ := h
    obtain ⟨hts, hex⟩ := hg
    have hlen' : ¬ (vr = .OB ∧ tag = Tag.pixelData ∧ (paddedValue ts.bigEndian vr v).length = undefinedLen) := by
      intro hx; have := hf.1; have h3 := hx.2.2; unfold undefinedLen at h3; omega
    subst hts
    have hn := primitiveElement_norm w.enc hex tag vr len (paddedValue w.enc.ts.bigEndian vr v).length v hv hf
    obtain ⟨e1, h1, t1⟩ := primitiveElement_total w.enc ⟨tag, vr, len⟩ v hv.2.1 hv.2.2.1 hf
    have hnv := normValue_valid w.enc.ts.bigEndian vr v hv
    have ev1 := encodePrimitiveElement_valid w.enc tag vr len v _ hv
    have ev2 := encodePrimitiveElement_valid w.enc tag vr (paddedValue w.enc.ts.bigEndian vr v).length _ _ hnv
    refine ⟨?_, ?_⟩
    · simp only [keepElem, Elem.tokens, hv.1, h2, hlen', if_false, Writer.writeAll, Writer.write, Writer.writeImpl,
        ev1, ev2]
      rw [← hn]
    · intro w' hw'
      simp only [Elem.tokens, hv.1, h2, if_false, Writer.writeAll, Writer.write, Writer.writeImpl, ev1, h1] at hw'
      injection hw' with hw'; subst hw'
      exact ⟨⟨t1, primitiveElement_exact hex _ _ h1⟩, rfl⟩
  | .seq tag len items, h, w, hg, hl => by
    simp only [keepElem, Elem.tokens, Writer.writeAll]
    cases h1 : w.write (.sequenceStart tag len) with
    | error x => exact ⟨rfl, fun w' hw' => by simp at hw'⟩
    | ok w1 =>
      have hg1 : Good ts w1 := good_step (by intro v hv; cases hv) hg h1
      have hl1 : w1.lastDe = none := by
        simp only [Writer.write] at h1
        split at h1 <;> simp only [Writer.writeImpl] at h1 <;> split at h1 <;>
          first | (injection h1 with h1; subst h1; exact hl) | cases h1
      simp only
      rw [writeAll_append, writeAll_append]
      obtain ⟨ih1, ih2⟩ := keep_items ts dict items h.2.2 w1 hg1 hl1
      rw [ih1]
      refine ⟨rfl, ?_⟩
      intro w' hw'
      cases h2 : w1.writeAll items.tokens with
      | error x => rw [h2] at hw'; simp [exBind] at hw'
      | ok w2 =>
        rw [h2] at hw'
        simp only [exBind, Writer.writeAll] at hw'
        obtain ⟨hg2, hl2⟩ := ih2 w2 h2
        cases h3 : w2.write .sequenceEnd with
        | error x => rw [h3] at hw'; simp at hw'
        | ok w3 =>
          rw [h3] at hw'; simp only at hw'; injection hw' with hw'; subst hw'
          refine ⟨good_step (by intro v hv; cases hv) hg2 h3, ?_⟩
          simp only [Writer.write] at h3
          split at h3
          · (try dsimp only at h3)
            split at h3
            · simp only [Writer.writeImpl] at h3; injection h3 with h3; subst h3; rfl
            · injection h3 with h3; subst h3; rfl
          · injection h3 with h3; subst h3; rfl
  | .pix bot frags, h, w, hg, hl => by
    simp only [keepElem, Elem.tokens, Writer.writeAll]
    cases h1 : w.write .pixelSequenceStart with
    | error x => exact ⟨rfl, fun w' hw' => by simp at hw'⟩
    | ok w1 =>
      have hg1 : Good ts w1 := good_step (by intro v hv; cases hv) hg h1
      have hs1 := pix_start_state h1
      simp only
      rw [List.append_assoc, List.append_assoc, writeAll_append, writeAll_append]
      cases h2 : w1.writeAll (botTokens bot) with
      | error x => exact ⟨rfl, fun w' hw' => by simp [exBind] at hw'⟩
      | ok w2 =>
        have hg2 : Good ts w2 := good_run _ (bot_tokens_struct bot) w1 w2 hg1 h2
        have hs2 := bot_keeps bot hs1 h2
        simp only [exBind]
        rw [writeAll_append, writeAll_append, frags_keep frags (fun f hf => (h.2.2 f hf).1) w2 hs2]
        refine ⟨rfl, ?_⟩
        intro w' hw'
        rw [frags_run frags (fun f hf => by have := (h.2.2 f hf).1; omega) w2 hs2] at hw'
        simp only [exBind, Writer.writeAll] at hw'
        have hg3 : Good ts { w2 with enc := recFrags w2.enc frags } :=
          ⟨by show (recFrags w2.enc frags).ts = ts; rw [recFrags_ts]; exact hg2.1, recFrags_exact _ _ hg2.2⟩
        cases h3 : ({ w2 with enc := recFrags w2.enc frags } : Writer).write .sequenceEnd with
        | error x => rw [h3] at hw'; simp at hw'
        | ok w3 =>
          rw [h3] at hw'; simp only at hw'; injection hw' with hw'; subst hw'
          refine ⟨good_step (by intro v hv; cases hv) hg3 h3, ?_⟩
          simp only [Writer.write] at h3
          split at h3
          · (try dsimp only at h3)
            split at h3
            · simp only [Writer.writeImpl] at h3; injection h3 with h3; subst h3; rfl
            · injection h3 with h3; subst h3; rfl
          · injection h3 with h3; subst h3; rfl
theorem keep_items (ts : Syntax) (dict : Tag → Option VR) : ∀ (its : Items), WfItems ts dict its →
    ∀ (w : Writer), Good ts w → w.lastDe = none →
      w.writeAll (keepItems ts its).tokens = w.writeAll its.tokens ∧
      ∀ w', w.writeAll its.tokens = .ok w' → Good ts w' ∧ w'.lastDe = none
  | .nil, _, w, hg, hl => ⟨rfl, fun w' hw' => by simp [Items.tokens, Writer.writeAll] at hw'; subst hw'; exact ⟨hg, hl⟩⟩
  | .cons len es r, h, w, hg, hl => by
    simp only [keepItems, Items.tokens, Writer.writeAll]
    cases h1 : w.write (.itemStart len) with
    | error x => exact ⟨rfl, fun w' hw' => by simp at hw'⟩
    | ok w1 =>
      have hg1 : Good ts w1 := good_step (by intro v hv; cases hv) hg h1
      have hl1 : w1.lastDe = none := by
        simp only [Writer.write] at h1
        split at h1 <;> (try dsimp only at h1) <;> simp only [Writer.writeImpl] at h1 <;>
          (injection h1 with h1; subst h1; exact hl)
      simp only
      rw [writeAll_append, writeAll_append]
      obtain ⟨ih1, ih2⟩ := keep_elems ts dict es h.1 w1 hg1 hl1
      rw [ih1]
      cases h2 : w1.writeAll es.tokens with
      | error x => exact ⟨rfl, fun w' hw' => by simp [exBind] at hw'⟩
      | ok w2 =>
        obtain ⟨hg2, hl2⟩ := ih2 w2 h2
        simp only [exBind, Writer.writeAll]
        cases h3 : w2.write .itemEnd with
        | error x => exact ⟨rfl, fun w' hw' => by simp at hw'⟩
        | ok w3 =>
          have hg3 : Good ts w3 := good_step (by intro v hv; cases hv) hg2 h3
          have hl3 : w3.lastDe = none := by
            simp only [Writer.write] at h3
            split at h3
            · (try dsimp only at h3)
              split at h3
              · simp only [Writer.writeImpl] at h3; injection h3 with h3; subst h3; exact hl2
              · injection h3 with h3; subst h3; exact hl2
            · injection h3 with h3; subst h3; exact hl2
          simp only
          exact keep_items ts dict r h.2.2 w3 hg3 hl3
theorem keep_elems (ts : Syntax) (dict : Tag → Option VR) : ∀ (es : Elems), WfElems ts dict es →
    ∀ (w : Writer), Good ts w → w.lastDe = none →
      w.writeAll (keepElems ts es).tokens = w.writeAll es.tokens ∧
      ∀ w', w.writeAll es.tokens = .ok w' → Good ts w' ∧ w'.lastDe = none
  | .nil, _, w, hg, hl => ⟨rfl, fun w' hw' => by simp [Elems.tokens, Writer.writeAll] at hw'; subst hw'; exact ⟨hg, hl⟩⟩
  | .cons e r, h, w, hg, hl => by
    simp only [keepElems, Elems.tokens]
    rw [writeAll_append, writeAll_append]
    obtain ⟨ih1, ih2⟩ := keep_elem ts dict e h.1 w hg hl
    rw [ih1]
    cases h1 : w.writeAll e.tokens with
    | error x => exact ⟨rfl, fun w' hw' => by simp [exBind] at hw'⟩
    | ok w1 =>
      obtain ⟨hg1, hl1⟩ := ih2 w1 h1
      simp only [exBind]
      exact keep_elems ts dict r h.2 w1 hg1 hl1
end

/-- **whatever the strategy, the data set writer writes a well-formed tree and its length-keeping normal
form to the same bytes** -/
theorem write_keep (ts : Syntax) (dict : Tag → Option VR) (strat : Strategy) (t : Elems) (h : WfElems ts dict t) :
    writeDataset ts strat (keepElems ts t) = writeDataset ts strat t := by
  unfold writeDataset
  rw [(keep_elems ts dict t h (Writer.new ts strat) ⟨rfl, rfl⟩ rfl).1]

end Dicom.Norm
