/-
Refinement proof for the data element dictionary (C15): for *any* well-formed entry table, the
coded lookup (`indexed_tag` over the registry built by `init_dictionary`) equals the precedence
order of the property statement (`specLookup`). No table is mentioned here; `Props/C15.lean`
instantiates it with the generated table.
-/
import DicomModel.Lemmas.Dict
namespace Dicom.Dict


/-- table invariants used by the refinement proof -/
structure TableOk (es : List Row) : Prop where
  keysNodup : (es.map Row.key).Nodup
  check : tableCheck es = true

section general
variable {es : List Row}

theorem TableOk.fields (ok : TableOk es) {r : Row} (hr : r ∈ es) :
    r.group < 65536 ∧ r.elem < 65536 ∧ r.kind ≤ 2 ∧ (r.kind = 1 → r.group % 256 = 0) ∧
      (r.kind = 2 → r.elem % 256 = 0) := by
  have h := ok.check
  simp only [tableCheck, Bool.and_eq_true, List.all_eq_true] at h
  have := h.1 r hr
  simp only [decide_eq_true_eq, Bool.or_eq_true, bne_iff_ne, ne_eq, beq_iff_eq] at this
  obtain ⟨⟨⟨⟨h1, h2⟩, h3⟩, h4⟩, h5⟩ := this
  refine ⟨h1, h2, h3, ?_, ?_⟩
  · intro hk; rcases h4 with h | h
    · exact absurd hk h
    · exact h
  · intro hk; rcases h5 with h | h
    · exact absurd hk h
    · exact h

theorem TableOk.noOverlap (ok : TableOk es) {r1 r2 : Row} (h1 : r1 ∈ es) (h2 : r2 ∈ es)
    (k1 : r1.kind = 1) (k2 : r2.kind = 2) :
    ¬ (r1.group / 256 = r2.group / 256 ∧ r1.elem / 256 = r2.elem / 256) := by
  have h := ok.check
  simp only [tableCheck, Bool.and_eq_true, List.all_eq_true] at h
  have := h.2 r1 (List.mem_filter.mpr ⟨h1, by simp [k1]⟩) r2 (List.mem_filter.mpr ⟨h2, by simp [k2]⟩)
  have this : ¬r1.group / 256 = r2.group / 256 ∨ ¬r1.elem / 256 = r2.elem / 256 := by simpa using this
  rintro ⟨a, b⟩
  rcases this with h | h
  · exact h a
  · exact h b

/-- two table entries that cover a common tag and are both exact, or both ranges, are the same entry -/
theorem TableOk.cover_unique (ok : TableOk es) {r r' : Row} (hr : r ∈ es) (hr' : r' ∈ es) {g e : Nat}
    (hc : r.covers g e = true) (hc' : r'.covers g e = true)
    (hk : (r.kind = 0 ↔ r'.kind = 0)) : r = r' := by
  obtain ⟨g1, e1, k1, z1, y1⟩ := ok.fields hr
  obtain ⟨g2, e2, k2, z2, y2⟩ := ok.fields hr'
  apply eq_of_key_eq ok.keysNodup hr hr'
  unfold Row.covers at hc hc'
  unfold Row.key tagKey
  have c1 : r.kind = 0 ∨ r.kind = 1 ∨ r.kind = 2 := by omega
  have c2 : r'.kind = 0 ∨ r'.kind = 1 ∨ r'.kind = 2 := by omega
  rcases c1 with a | a | a <;> rcases c2 with b | b | b
  all_goals first
    | (exfalso; omega)
    | (simp [a, b] at hc hc'
       first
        | omega
        | (exfalso
           first
            | exact ok.noOverlap hr hr' a b ⟨by omega, by omega⟩
            | exact ok.noOverlap hr' hr b a ⟨by omega, by omega⟩))

/-- **Refinement**: `indexed_tag` over the registry built by `init_dictionary` from a well-formed
table returns, for every tag, what the statement's precedence order prescribes. -/
theorem indexedTag_eq_spec (ok : TableOk es) (g e : Nat) (hg : g < 65536) (he : e < 65536) :
    indexedTag (initDictionary es) g e = specLookup es g e := by
  have nodupRev : (es.reverse.map Row.key).Nodup := by
    rw [List.map_reverse]; exact ((List.reverse_perm _).nodup_iff).mpr ok.keysNodup
  -- the row found under key `k`, if any, is the unique table row with that key
  have getSome : ∀ {k : Nat} {r : Row}, r ∈ es → r.key = k →
      mapGet (initDictionary es).byTag k = some r := by
    intro k r hr hk
    rw [byTag_get]
    apply find?_eq_some_of_unique (List.mem_reverse.mpr hr) (by simp [hk])
    intro x hx hpx
    exact eq_of_key_eq ok.keysNodup (List.mem_reverse.mp hx) hr (by simpa [hk] using hpx)
  have getNone : ∀ {k : Nat}, (∀ r ∈ es, r.key ≠ k) → mapGet (initDictionary es).byTag k = none := by
    intro k h
    rw [byTag_get, List.find?_eq_none]
    intro x hx; simpa using h x (List.mem_reverse.mp hx)
  have odd : (g &&& 1 = 1) = (g % 2 = 1) := by rw [Nat.and_one_is_mod]
  have mg := and_ff00 g hg
  have me := and_ff00 e he
  -- spec side: finding the (unique) covering row
  have specExact : ∀ {r : Row}, r ∈ es → r.kind = 0 → r.covers g e = true →
      es.find? (fun r => r.kind == 0 && r.covers g e) = some r := by
    intro r hr hk hc
    apply find?_eq_some_of_unique hr (by simp [hk, hc])
    intro x hx hpx
    simp only [Bool.and_eq_true, beq_iff_eq] at hpx
    exact ok.cover_unique hx hr hpx.2 hc (by simp [hpx.1, hk])
  have specRange : ∀ {r : Row}, r ∈ es → r.kind ≠ 0 → r.covers g e = true →
      es.find? (fun r => r.kind != 0 && r.covers g e) = some r := by
    intro r hr hk hc
    apply find?_eq_some_of_unique hr (by simp [hk, hc])
    intro x hx hpx
    simp only [Bool.and_eq_true, bne_iff_ne, ne_eq] at hpx
    exact ok.cover_unique hx hr hpx.2 hc (by simp [hpx.1, hk])
  have coversOfKey : ∀ {r : Row}, r ∈ es → r.key = tagKey g e → r.covers g e = true := by
    intro r hr hk
    obtain ⟨_, e1, _, _, _⟩ := ok.fields hr
    obtain ⟨h1, h2⟩ := tagKey_inj e1 he hk
    unfold Row.covers; simp [h1, h2]
  have keyOfExact : ∀ {r : Row}, r ∈ es → r.kind = 0 → r.covers g e = true → r.key = tagKey g e := by
    intro r _ hk hc
    unfold Row.covers at hc; simp [hk] at hc
    unfold Row.key; rw [hc.1, hc.2]
  by_cases hex : ∃ r ∈ es, r.key = tagKey g e
  · -- the map lookup succeeds
    obtain ⟨r, hr, hk⟩ := hex
    have hc := coversOfKey hr hk
    unfold indexedTag specLookup
    rw [getSome hr hk]
    by_cases k0 : r.kind = 0
    · rw [specExact hr k0 hc]
    · have : es.find? (fun r => r.kind == 0 && r.covers g e) = none := by
        rw [List.find?_eq_none]
        intro x hx hpx
        simp only [Bool.and_eq_true, beq_iff_eq] at hpx
        have := eq_of_key_eq ok.keysNodup hx hr ((keyOfExact hx hpx.1 hpx.2).trans hk.symm)
        exact k0 (this ▸ hpx.1)
      rw [this, specRange hr k0 hc]
  · -- no entry under the tag itself
    have hno : ∀ r ∈ es, r.key ≠ tagKey g e := fun r hr hk => hex ⟨r, hr, hk⟩
    have exactNone : es.find? (fun r => r.kind == 0 && r.covers g e) = none := by
      rw [List.find?_eq_none]
      intro x hx hpx
      simp only [Bool.and_eq_true, beq_iff_eq] at hpx
      exact hno x hx (keyOfExact hx hpx.1 hpx.2)
    -- a covering range row has the trimmed key
    have keyOfG : ∀ {r : Row}, r ∈ es → r.kind = 1 → r.covers g e = true →
        r.key = tagKey (g &&& 0xFF00) e := by
      intro r hr hk hc
      obtain ⟨_, _, _, z, _⟩ := ok.fields hr
      unfold Row.covers at hc; simp [hk] at hc
      unfold Row.key tagKey; rw [mg, hc.2]
      have := z hk; omega
    have keyOfE : ∀ {r : Row}, r ∈ es → r.kind = 2 → r.covers g e = true →
        r.key = tagKey g (e &&& 0xFF00) := by
      intro r hr hk hc
      obtain ⟨_, _, _, _, z⟩ := ok.fields hr
      unfold Row.covers at hc; simp [hk] at hc
      unfold Row.key tagKey; rw [me, hc.1]
      have := z hk; omega
    have coversG : ∀ {r : Row}, r ∈ es → r.kind = 1 → r.key = tagKey (g &&& 0xFF00) e →
        r.covers g e = true := by
      intro r hr hk hkey
      obtain ⟨_, e1, _, _, _⟩ := ok.fields hr
      obtain ⟨h1, h2⟩ := tagKey_inj e1 he hkey
      unfold Row.covers; simp [hk, h2]; rw [h1, mg]; omega
    have coversE : ∀ {r : Row}, r ∈ es → r.kind = 2 → r.key = tagKey g (e &&& 0xFF00) →
        r.covers g e = true := by
      intro r hr hk hkey
      obtain ⟨_, e1, _, _, _⟩ := ok.fields hr
      have he' : e &&& 0xFF00 < 65536 := by rw [me]; omega
      obtain ⟨h1, h2⟩ := tagKey_inj e1 he' hkey
      unfold Row.covers; simp [hk, h1]; rw [h2, me]; omega
    unfold indexedTag specLookup
    rw [getNone hno, exactNone]
    simp only []
    by_cases hG : setContains (initDictionary es).ggxx (tagKey (g &&& 0xFF00) e) = true
    · obtain ⟨r, hr, hk, hkey⟩ := (ggxx_contains es _).mp hG
      rw [if_pos hG, getSome hr hkey, specRange hr (by omega) (coversG hr hk hkey)]
    · rw [if_neg hG]
      have noG : ∀ r ∈ es, r.kind = 1 → r.covers g e = true → False := by
        intro r hr hk hc
        exact hG ((ggxx_contains es _).mpr ⟨r, hr, hk, keyOfG hr hk hc⟩)
      by_cases hE : setContains (initDictionary es).eexx (tagKey g (e &&& 0xFF00)) = true
      · obtain ⟨r, hr, hk, hkey⟩ := (eexx_contains es _).mp hE
        rw [if_pos hE, getSome hr hkey, specRange hr (by omega) (coversE hr hk hkey)]
      · rw [if_neg hE]
        have rangeNone : es.find? (fun r => r.kind != 0 && r.covers g e) = none := by
          rw [List.find?_eq_none]
          intro x hx hpx
          simp only [Bool.and_eq_true, bne_iff_ne, ne_eq] at hpx
          obtain ⟨_, _, k2, _, _⟩ := ok.fields hx
          have c : x.kind = 1 ∨ x.kind = 2 := by omega
          rcases c with c | c
          · exact noG x hx c hpx.2
          · exact hE ((eexx_contains es _).mpr ⟨x, hx, c, keyOfE hx c hpx.2⟩)
        rw [rangeNone]
        simp only [odd]

/-- every table entry is found under its own (inner) tag -/
theorem indexedTag_inner (ok : TableOk es) {r : Row} (hr : r ∈ es) :
    indexedTag (initDictionary es) r.group r.elem = .entry r := by
  unfold indexedTag
  have : mapGet (initDictionary es).byTag (tagKey r.group r.elem) = some r := by
    rw [byTag_get]
    apply find?_eq_some_of_unique (List.mem_reverse.mpr hr) (by simp [Row.key])
    intro x hx hpx
    exact eq_of_key_eq ok.keysNodup (List.mem_reverse.mp hx) hr (by simpa [Row.key] using hpx)
  rw [this]

/-- `by_name` of an entry's keyword returns that entry (same keyword, same tag), provided keywords
are distinct and none is "GenericGroupLength" (which `init_dictionary` adds by hand) -/
theorem byName_entry (hn : (es.map Row.alias).Nodup) (hgl : ∀ r ∈ es, r.alias ≠ glAlias)
    {r : Row} (hr : r ∈ es) : byName (initDictionary es) r.alias = .entry r := by
  unfold byName
  rw [initDictionary_byName]
  have h1 : mapGet ((glAlias, Ans.groupLength) :: es.reverse.map (fun r => (r.alias, Ans.entry r))) r.alias
      = mapGet (es.reverse.map (fun r => (r.alias, Ans.entry r))) r.alias := by
    unfold mapGet
    rw [List.find?_cons]
    have : ((glAlias, Ans.groupLength).1 == r.alias) = false := by
      simpa using fun h => hgl r hr h.symm
    rw [this]
  rw [h1]
  have h2 : ∀ (l : List Row) (k : Nat), mapGet (l.map (fun r => (r.alias, Ans.entry r))) k
      = (l.find? (fun r => r.alias == k)).map Ans.entry := by
    intro l k
    induction l with
    | nil => rfl
    | cons a as ih =>
      unfold mapGet at ih ⊢
      simp only [List.map_cons, List.find?_cons]
      cases h : a.alias == k
      · simpa using ih
      · rfl
  rw [h2]
  have : es.reverse.find? (fun x => x.alias == r.alias) = some r := by
    apply find?_eq_some_of_unique (List.mem_reverse.mpr hr) (by simp)
    intro x hx hpx
    exact eq_of_key_eq hn (List.mem_reverse.mp hx) hr (by simpa using hpx)
  rw [this]; rfl

theorem byName_groupLength : byName (initDictionary es) glAlias = .groupLength := by
  unfold byName
  rw [initDictionary_byName]
  unfold mapGet
  simp

/-- a keyword that no entry carries (and that is not "GenericGroupLength") is unknown -/
theorem byName_none {a : Nat} (h : ∀ r ∈ es, r.alias ≠ a) (hg : a ≠ glAlias) :
    byName (initDictionary es) a = .none := by
  unfold byName
  rw [initDictionary_byName]
  have : mapGet ((glAlias, Ans.groupLength) :: es.reverse.map (fun r => (r.alias, Ans.entry r))) a = none := by
    unfold mapGet
    have : List.find? (fun p => p.1 == a)
        ((glAlias, Ans.groupLength) :: es.reverse.map (fun r => (r.alias, Ans.entry r))) = none := by
      rw [List.find?_eq_none]
      intro x hx
      rcases List.mem_cons.mp hx with rfl | hx
      · simpa using fun h => hg h.symm
      · obtain ⟨r, hr, rfl⟩ := List.mem_map.mp hx
        simpa using h r (List.mem_reverse.mp hr)
    rw [this]
  rw [this]

/-! ### group-local evaluation (used by the driver to evaluate the model on all 2^32 tags) -/

theorem find?_filter_of_imp {α : Type} {p q : α → Bool} {l : List α}
    (h : ∀ x ∈ l, p x = true → q x = true) : (l.filter q).find? p = l.find? p := by
  induction l with
  | nil => rfl
  | cons a as ih =>
    have ih' := ih (fun x hx => h x (List.mem_cons_of_mem _ hx))
    by_cases hq : q a = true
    · rw [List.filter_cons_of_pos hq, List.find?_cons, List.find?_cons, ih']
    · have hp : p a = false := by
        cases hpa : p a
        · rfl
        · exact absurd (h a (List.mem_cons_self ..) hpa) hq
      rw [List.filter_cons_of_neg hq, List.find?_cons, hp, ih']

theorem byTag_get_filter (q : Row → Bool) (k : Nat) (hq : ∀ r ∈ es, r.key = k → q r = true) :
    mapGet (initDictionary (es.filter q)).byTag k = mapGet (initDictionary es).byTag k := by
  rw [byTag_get, byTag_get, ← List.filter_reverse]
  apply find?_filter_of_imp
  intro x hx hpx
  exact hq x (List.mem_reverse.mp hx) (by simpa using hpx)

theorem ggxx_contains_filter (q : Row → Bool) (k : Nat) (hq : ∀ r ∈ es, r.key = k → q r = true) :
    setContains (initDictionary (es.filter q)).ggxx k = setContains (initDictionary es).ggxx k := by
  apply Bool.eq_iff_iff.mpr
  rw [ggxx_contains, ggxx_contains]
  constructor
  · rintro ⟨r, hr, hk⟩; exact ⟨r, (List.mem_filter.mp hr).1, hk⟩
  · rintro ⟨r, hr, hk⟩; exact ⟨r, List.mem_filter.mpr ⟨hr, hq r hr hk.2⟩, hk⟩

theorem eexx_contains_filter (q : Row → Bool) (k : Nat) (hq : ∀ r ∈ es, r.key = k → q r = true) :
    setContains (initDictionary (es.filter q)).eexx k = setContains (initDictionary es).eexx k := by
  apply Bool.eq_iff_iff.mpr
  rw [eexx_contains, eexx_contains]
  constructor
  · rintro ⟨r, hr, hk⟩; exact ⟨r, (List.mem_filter.mp hr).1, hk⟩
  · rintro ⟨r, hr, hk⟩; exact ⟨r, List.mem_filter.mpr ⟨hr, hq r hr hk.2⟩, hk⟩

/-- Evaluating `indexed_tag` for a tag of group `g` only needs the rows of groups `g` and
`g & 0xFF00`: the registry built from those rows alone gives the same answer. -/
theorem indexedTag_filter (hb : ∀ r ∈ es, r.elem < 65536) (g e : Nat) (he : e < 65536) :
    indexedTag (initDictionary (es.filter (relevant g))) g e = indexedTag (initDictionary es) g e := by
  have rel : ∀ (g' e' : Nat), e' < 65536 → (g' = g ∨ g' = g &&& 0xFF00) →
      ∀ r ∈ es, r.key = tagKey g' e' → relevant g r = true := by
    intro g' e' he' hg' r hr hk
    obtain ⟨h1, _⟩ := tagKey_inj (hb r hr) he' hk
    unfold relevant
    rcases hg' with h | h <;> simp [h1, h]
  have he' : e &&& 0xFF00 < 65536 := Nat.lt_of_le_of_lt Nat.and_le_left he
  unfold indexedTag
  simp only []
  rw [byTag_get_filter _ _ (rel g e he (Or.inl rfl)),
    byTag_get_filter _ _ (rel (g &&& 0xFF00) e he (Or.inr rfl)),
    byTag_get_filter _ _ (rel g (e &&& 0xFF00) he' (Or.inl rfl)),
    ggxx_contains_filter _ _ (rel (g &&& 0xFF00) e he (Or.inr rfl)),
    eexx_contains_filter _ _ (rel g (e &&& 0xFF00) he' (Or.inl rfl))]

end general

/-! ### SOP class registry -/

theorem foldl_cons_pairs {α : Type} (f : α → Nat) (l : List α) (m : List (Nat × α)) :
    l.foldl (fun m e => (f e, e) :: m) m = l.reverse.map (fun e => (f e, e)) ++ m := by
  induction l generalizing m with
  | nil => rfl
  | cons a as ih => rw [List.foldl_cons, ih]; simp

/-- a map filled by `extend` from a table with distinct keys returns each row under its key -/
theorem mapGet_foldl_of_nodup {α : Type} (f : α → Nat) (l : List α) (hn : (l.map f).Nodup)
    {r : α} (hr : r ∈ l) : mapGet (l.foldl (fun m e => (f e, e) :: m) []) (f r) = some r := by
  rw [foldl_cons_pairs, List.append_nil, mapGet_map]
  apply find?_eq_some_of_unique (List.mem_reverse.mpr hr) (by simp)
  intro x hx hpx
  exact eq_of_key_eq hn (List.mem_reverse.mp hx) hr (by simpa using hpx)

/-! ### constants table -/

theorem constRowOk_spec {c : Const} {f : Nat × Nat} {r : Row} (h : constRowOk c f r = true) :
    c.name = f.1 ∧ c.group = r.group ∧ c.elem = r.elem ∧ c.docAlias = r.alias ∧
      (c.kind = 3 ∧ r.kind = 0 ∨ c.kind = r.kind) := by
  simp only [constRowOk, Bool.and_eq_true] at h
  obtain ⟨⟨⟨⟨⟨⟨⟨⟨hn, hk⟩, hg⟩, he⟩, ha⟩, _⟩, _⟩, _⟩, _⟩ := h
  have hn := Nat.eq_of_beq_eq_true hn
  have hg := Nat.eq_of_beq_eq_true hg
  have he := Nat.eq_of_beq_eq_true he
  have ha := Nat.eq_of_beq_eq_true ha
  refine ⟨hn, hg.symm, he.symm, ha, ?_⟩
  cases h3 : Nat.beq c.kind 3
  · rw [h3, cond_false, Bool.and_eq_true] at hk
    exact Or.inr (Nat.eq_of_beq_eq_true hk.2).symm
  · rw [h3, cond_true, Bool.and_eq_true] at hk
    exact Or.inl ⟨Nat.eq_of_beq_eq_true h3, Nat.eq_of_beq_eq_true hk.2⟩

theorem constsCheck_forall {cs : List Const} {fs : List (Nat × Nat)} {rs : List Row}
    (h : constsCheck cs fs rs = true) :
    cs.length = rs.length ∧ fs.length = rs.length ∧
      ∀ i (hc : i < cs.length) (hf : i < fs.length) (hr : i < rs.length),
        constRowOk cs[i] fs[i] rs[i] = true := by
  induction cs generalizing fs rs with
  | nil =>
    cases fs <;> cases rs <;> simp [constsCheck] at h ⊢
  | cons c cs ih =>
    cases fs with
    | nil => simp [constsCheck] at h
    | cons f fs =>
      cases rs with
      | nil => simp [constsCheck] at h
      | cons r rs =>
        simp only [constsCheck, Bool.and_eq_true] at h
        obtain ⟨l1, l2, hall⟩ := ih h.2
        refine ⟨by simp [l1], by simp [l2], ?_⟩
        intro i hc hf hr
        cases i with
        | zero => exact h.1
        | succ j => exact hall j (by simpa using hc) (by simpa using hf) (by simpa using hr)


end Dicom.Dict
