import DicomModel.Lemmas.ValidRef
/-
One-step unfoldings of the checker `Valid.vElems / vItems / vFrags` for each shape of input.
-/
set_option linter.unusedSimpArgs false
namespace Dicom.ValidRef
open Dicom.Ref Dicom.Valid

theorem elems_prim_step (c : Cfg) (F0 : Nat) (stop : Stop) (bs : Bytes) (g e l l0 : Nat) (x vr : Option VR)
    (r r0 v r' : Bytes) (g' e' : Nat)
    (hne : bs.isEmpty = false)
    (hpeek : rdHeader { c with explicit := false } bs = some (g, e, x, l0, r0)) (hg : g ≠ 0xFFFE)
    (hh : rdHeader c bs = some (g', e', vr, l, r))
    (hsq : isSqOf c g e vr l = false) (hl : l ≠ undef) (heven : l % 2 = 0)
    (htake : takeN l r = some (v, r')) (htr : trailOk vr v = true)
    (ws : List PVal) (r'' : Bytes) (hk : vElems c F0 stop r' = some (ws, r'')) :
    vElems c (F0 + 1) stop bs = some (⟨g, e, vr, v⟩ :: ws, r'') := by
  rw [vElems]
  simp only [hne, Bool.false_eq_true, if_false, hpeek, hg, hh, hsq, hl, heven, htake, htr, if_true, hk]
  simp

theorem elems_seq_undef_step (c : Cfg) (F0 : Nat) (stop : Stop) (bs : Bytes) (g e l0 : Nat) (x vr : Option VR)
    (r r0 : Bytes) (g' e' : Nat)
    (hne : bs.isEmpty = false)
    (hpeek : rdHeader { c with explicit := false } bs = some (g, e, x, l0, r0)) (hg : g ≠ 0xFFFE)
    (hh : rdHeader c bs = some (g', e', vr, undef, r))
    (hsq : isSqOf c g e vr undef = true)
    (vs ws : List PVal) (r1 r2 : Bytes) (h1 : vItems c F0 .atDelim r = some (vs, r1))
    (h2 : vElems c F0 stop r1 = some (ws, r2)) :
    vElems c (F0 + 1) stop bs = some (vs ++ ws, r2) := by
  rw [vElems]
  simp only [hne, Bool.false_eq_true, if_false, hpeek, hg, hh, hsq, if_true, h1, h2]

theorem elems_seq_def_step (c : Cfg) (F0 : Nat) (stop : Stop) (bs : Bytes) (g e l l0 : Nat) (x vr : Option VR)
    (r r0 region r' : Bytes) (g' e' : Nat)
    (hne : bs.isEmpty = false)
    (hpeek : rdHeader { c with explicit := false } bs = some (g, e, x, l0, r0)) (hg : g ≠ 0xFFFE)
    (hh : rdHeader c bs = some (g', e', vr, l, r))
    (hsq : isSqOf c g e vr l = true) (hl : l ≠ undef) (heven : l % 2 = 0)
    (htake : takeN l r = some (region, r'))
    (vs ws : List PVal) (r2 : Bytes) (h1 : vItems c F0 .atEnd region = some (vs, []))
    (h2 : vElems c F0 stop r' = some (ws, r2)) :
    vElems c (F0 + 1) stop bs = some (vs ++ ws, r2) := by
  rw [vElems]
  simp only [hne, Bool.false_eq_true, if_false, hpeek, hg, hh, hsq, if_true, hl, heven, htake, h1, h2]
  simp

theorem elems_pix_step (c : Cfg) (F0 : Nat) (stop : Stop) (bs : Bytes) (l0 : Nat) (x vr : Option VR)
    (r r0 : Bytes) (g' e' : Nat)
    (hne : bs.isEmpty = false)
    (hpeek : rdHeader { c with explicit := false } bs = some (0x7FE0, 0x0010, x, l0, r0))
    (hh : rdHeader c bs = some (g', e', vr, undef, r))
    (hsq : isSqOf c 0x7FE0 0x0010 vr undef = false) (hvr : vr = none ∨ vr = some VR.OB ∨ vr = some VR.OW)
    (r1 : Bytes) (res : List PVal × Bytes) (h1 : vFrags c F0 r = some r1) (h2 : vElems c F0 stop r1 = some res) :
    vElems c (F0 + 1) stop bs = some res := by
  rw [vElems]
  simp only [hne, Bool.false_eq_true, if_false, hpeek, hh, hsq, if_true, hvr, and_self, h1, h2]
  simp

theorem elems_delim_step (c : Cfg) (F0 : Nat) (bs : Bytes) (x : Option VR) (r0 : Bytes)
    (hne : bs.isEmpty = false)
    (hpeek : rdHeader { c with explicit := false } bs = some (0xFFFE, 0xE00D, x, 0, r0)) :
    vElems c (F0 + 1) .atDelim bs = some ([], r0) := by
  rw [vElems]
  simp only [hne, Bool.false_eq_true, if_false, hpeek, if_true, and_self]

theorem elems_end_step (c : Cfg) (F0 : Nat) : vElems c (F0 + 1) .atEnd [] = some ([], []) := by
  rw [vElems]; simp

theorem items_end_step (c : Cfg) (F0 : Nat) : vItems c (F0 + 1) .atEnd [] = some ([], []) := by
  rw [vItems]; simp

theorem items_seqdelim_step (c : Cfg) (F0 : Nat) (bs r : Bytes) (hne : bs.isEmpty = false)
    (h : rdTagLen c bs = some (0xFFFE, 0xE0DD, 0, r)) :
    vItems c (F0 + 1) .atDelim bs = some ([], r) := by
  rw [vItems]
  simp only [hne, Bool.false_eq_true, if_false, h, if_true]

theorem items_item_undef_step (c : Cfg) (F0 : Nat) (stop : Stop) (bs r : Bytes) (hne : bs.isEmpty = false)
    (h : rdTagLen c bs = some (0xFFFE, 0xE000, undef, r))
    (vs ws : List PVal) (r1 r2 : Bytes) (h1 : vElems c F0 .atDelim r = some (vs, r1))
    (h2 : vItems c F0 stop r1 = some (ws, r2)) :
    vItems c (F0 + 1) stop bs = some (vs ++ ws, r2) := by
  rw [vItems]
  simp only [hne, Bool.false_eq_true, if_false, h, if_true, h1, h2]

theorem items_item_def_step (c : Cfg) (F0 : Nat) (stop : Stop) (bs r region r' : Bytes) (l : Nat)
    (hne : bs.isEmpty = false) (h : rdTagLen c bs = some (0xFFFE, 0xE000, l, r))
    (hl : l ≠ undef) (heven : l % 2 = 0) (htake : takeN l r = some (region, r'))
    (vs ws : List PVal) (r2 : Bytes) (h1 : vElems c F0 .atEnd region = some (vs, []))
    (h2 : vItems c F0 stop r' = some (ws, r2)) :
    vItems c (F0 + 1) stop bs = some (vs ++ ws, r2) := by
  rw [vItems]
  simp only [hne, Bool.false_eq_true, if_false, h, hl, heven, htake, h1, h2]
  simp

theorem frags_delim_step (c : Cfg) (F0 : Nat) (bs r : Bytes)
    (h : rdTagLen c bs = some (0xFFFE, 0xE0DD, 0, r)) : vFrags c (F0 + 1) bs = some r := by
  rw [vFrags]; simp only [h]

theorem frags_item_step (c : Cfg) (F0 : Nat) (bs r v r' : Bytes) (l : Nat)
    (h : rdTagLen c bs = some (0xFFFE, 0xE000, l, r)) (hl : l ≠ undef) (heven : l % 2 = 0)
    (htake : takeN l r = some (v, r')) : vFrags c (F0 + 1) bs = vFrags c F0 r' := by
  rw [vFrags]
  simp only [h, hl, heven, htake]
  simp

end Dicom.ValidRef
