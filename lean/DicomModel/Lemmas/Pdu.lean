import DicomModel.Model.Pdu
import DicomModel.Lemmas.Bytes
/-
Lemmas about the PDU model: the `Res` monad, reader primitives on encoded integers,
decomposition of successful writes.
-/
namespace Dicom.Pdu

@[simp] theorem Res.bind_eq {α β : Type} (x : Res α) (f : α → Res β) : x >>= f = Res.bind x f := rfl
@[simp] theorem Res.pure_eq {α : Type} (a : α) : (pure a : Res α) = Res.ok a := rfl
@[simp] theorem Res.bind_ok {α β : Type} (a : α) (f : α → Res β) : Res.bind (.ok a) f = f a := rfl
@[simp] theorem Res.bind_inc {α β : Type} (f : α → Res β) : Res.bind (.inc) f = .inc := rfl
@[simp] theorem Res.bind_err {α β : Type} (e : RErr) (f : α → Res β) : Res.bind (.err e) f = .err e := rfl

theorem be16_val (n : Nat) (h : n < 65536) : 256 * (n / 256 % 256) + n % 256 = n := by omega

theorem subHeader_item (t n : Nat) (h : n < 65536) (r : Bytes) :
    subHeader (t :: 0 :: (be16 n ++ r)) = .ok (t, n, r) := by
  simp [subHeader, u8I, u16I, be16, be16_val n h]

theorem takeI_append (a r : Bytes) : takeI a.length (a ++ r) = .ok (a, r) := by
  simp [takeI]

theorem takeP_append (a r : Bytes) : takeP a.length (a ++ r) = .ok (a, r) := by
  simp [takeP]

theorem u16I_be16 (n : Nat) (h : n < 65536) (r : Bytes) : u16I (be16 n ++ r) = .ok (n, r) := by
  simp [u16I, be16, be16_val n h]

theorem u32I_be32 (n : Nat) (h : n < 4294967296) (r : Bytes) : u32I (be32 n ++ r) = .ok (n, r) := by
  simp [u32I, be32]; omega

theorem u32P_be32 (n : Nat) (h : n < 4294967296) (r : Bytes) : u32P (be32 n ++ r) = .ok (n, r) := by
  simp [u32P, be32]; omega

theorem wcat_ok {a b : W} {z : Bytes} :
    wcat a b = .ok z ↔ ∃ x y, a = .ok x ∧ b = .ok y ∧ z = x ++ y := by
  cases a <;> cases b <;> simp [wcat, eq_comm]

theorem chunk16_ok {d : W} {z : Bytes} :
    chunk16 d = .ok z ↔ ∃ c, d = .ok c ∧ c.length ≤ 65535 ∧ z = be16 c.length ++ c := by
  cases d with
  | error e => simp [chunk16]
  | ok c => by_cases h : c.length ≤ 65535 <;> simp [chunk16, h, eq_comm]

theorem item16_ok {t : Nat} {d : W} {z : Bytes} :
    item16 t d = .ok z ↔ ∃ c, d = .ok c ∧ c.length ≤ 65535 ∧ z = t :: 0 :: (be16 c.length ++ c) := by
  unfold item16
  cases h : chunk16 d with
  | error e =>
    simp only [reduceCtorEq, false_iff]
    rintro ⟨c, hc, hl, -⟩
    have := (chunk16_ok (d := d) (z := be16 c.length ++ c)).2 ⟨c, hc, hl, rfl⟩
    rw [h] at this; cases this
  | ok c =>
    obtain ⟨c', hc', hl, rfl⟩ := chunk16_ok.1 h
    subst hc'
    simp [hl, eq_comm]

theorem encodeText_ok {s : Str} {b : Bytes} :
    encodeText s = .ok b ↔ (∀ c ∈ s, c < 256) ∧ b = s := by
  unfold encodeText
  by_cases h : s.all (· < 256) = true
  · simp [h, eq_comm]; intro _; simpa using h
  · simp [h]; intro h'; exfalso; apply h; simpa using h'
theorem b2n_ne (b : Bool) : (b2n b != 0) = b := by cases b <;> rfl
theorem b2n_eq1 (b : Bool) : (b2n b == 1) = b := by cases b <;> rfl

theorem IdType.ofCode_code (t : IdType) : IdType.ofCode t.code = some t := by cases t <;> rfl

/-- reading an item `t, 0, len16, content` back: header, then the body reader -/
theorem readUserVar_item (t : Nat) (c r : Bytes) (hl : c.length ≤ 65535) :
    readUserVar (t :: 0 :: (be16 c.length ++ c) ++ r) = readUserVarBody t c.length (c ++ r) := by
  have hl' : c.length < 65536 := by omega
  simp [readUserVar, subHeader_item _ _ hl']

theorem readUserVar_write {v : UserVar} {b : Bytes} (hw : writeUserVar v = .ok b)
    (hwf : wfUserVar v = true) (r : Bytes) :
    readUserVar (b ++ r) = .ok (some (normUserVar v), r) := by
  cases v with
  | maxLength n =>
    simp only [writeUserVar] at hw
    obtain ⟨c, hc, hl, rfl⟩ := item16_ok.1 hw
    cases hc
    have hn : n < 4294967296 := by simpa [wfUserVar] using hwf
    rw [readUserVar_item _ _ _ hl]
    simp [readUserVarBody, u32I_be32 n hn, normUserVar]
  | implClassUid s =>
    simp only [writeUserVar] at hw
    obtain ⟨c, hc, hl, rfl⟩ := item16_ok.1 hw
    obtain ⟨-, rfl⟩ := encodeText_ok.1 hc
    rw [readUserVar_item _ _ _ hl]
    simp [readUserVarBody, takeI_append, normUserVar]
  | implVersionName s =>
    simp only [writeUserVar] at hw
    obtain ⟨c, hc, hl, rfl⟩ := item16_ok.1 hw
    obtain ⟨-, rfl⟩ := encodeText_ok.1 hc
    rw [readUserVar_item _ _ _ hl]
    simp [readUserVarBody, takeI_append, normUserVar]
  | unknown t d =>
    simp only [writeUserVar] at hw
    obtain ⟨c, hc, hl, rfl⟩ := item16_ok.1 hw
    cases hc
    simp [wfUserVar, knownUserVarCode] at hwf
    rw [readUserVar_item _ _ _ hl]
    simp [readUserVarBody, takeI_append, normUserVar, hwf]
  | roleSelection uid scu scp =>
    simp only [writeUserVar] at hw
    obtain ⟨c, hc, hl, rfl⟩ := item16_ok.1 hw
    obtain ⟨x, y, hx, hy, rfl⟩ := wcat_ok.1 hc
    cases hy
    obtain ⟨u, hu, hul, rfl⟩ := chunk16_ok.1 hx
    obtain ⟨-, rfl⟩ := encodeText_ok.1 hu
    rw [readUserVar_item _ _ _ hl]
    simp [readUserVarBody, u16I_be16 _ (Nat.lt_succ_of_le hul), takeI_append, u8I, normUserVar, b2n_ne]
  | sopClassExt uid d =>
    simp only [writeUserVar] at hw
    obtain ⟨c, hc, hl, rfl⟩ := item16_ok.1 hw
    obtain ⟨x, y, hx, hy, rfl⟩ := wcat_ok.1 hc
    cases hy
    obtain ⟨u, hu, hul, rfl⟩ := chunk16_ok.1 hx
    obtain ⟨-, rfl⟩ := encodeText_ok.1 hu
    rw [readUserVar_item _ _ _ hl]
    simp only [List.length_append, be16_length] at hl
    have e2 : (2 + (u.length + d.length) + 131070 - u.length) % 65536 = d.length := by omega
    have e3 : ¬ (u.length + (d.length + r.length) < u.length) := by omega
    simp [readUserVarBody, u16I_be16 _ (Nat.lt_succ_of_le hul), takeI_append, takeP_append, normUserVar,
      e2, e3]
    omega
  | userIdentity u =>
    simp only [writeUserVar] at hw
    obtain ⟨c, hc, hl, rfl⟩ := item16_ok.1 hw
    obtain ⟨x, y, hx, hy, rfl⟩ := wcat_ok.1 hc
    cases hx
    obtain ⟨p, q, hp, hq, rfl⟩ := wcat_ok.1 hy
    obtain ⟨p', hp', hpl, rfl⟩ := chunk16_ok.1 hp
    obtain ⟨q', hq', hql, rfl⟩ := chunk16_ok.1 hq
    cases hp'; cases hq'
    rw [readUserVar_item _ _ _ hl]
    simp [readUserVarBody, u16I_be16 _ (Nat.lt_succ_of_le hpl),
      u16I_be16 _ (Nat.lt_succ_of_le hql), takeI_append, u8I, normUserVar, IdType.ofCode_code, b2n_eq1]
/-- a successful `writeUserVar` starts with a type byte: the output is not empty -/
theorem writeUserVar_ne_nil {v : UserVar} {b : Bytes} (hw : writeUserVar v = .ok b) : ∃ x y, b = x :: y := by
  cases v <;> simp only [writeUserVar] at hw <;> obtain ⟨c, -, -, rfl⟩ := item16_ok.1 hw <;> exact ⟨_, _, rfl⟩

theorem readUserVarLoop_write (vs : List UserVar) :
    ∀ (f : Nat) (b : Bytes) (acc : List UserVar), writeUserVarList vs = .ok b →
      (∀ v ∈ vs, wfUserVar v = true) → b.length ≤ f →
      readUserVarLoop f b acc = .ok (acc ++ vs.map normUserVar) := by
  induction vs with
  | nil =>
    intro f b acc hw _ _
    simp [writeUserVarList] at hw; subst hw
    cases f <;> simp [readUserVarLoop]
  | cons v vs ih =>
    intro f b acc hw hwf hf
    simp only [writeUserVarList] at hw
    obtain ⟨x, y, hx, hy, rfl⟩ := wcat_ok.1 hw
    obtain ⟨x0, x1, rfl⟩ := writeUserVar_ne_nil hx
    cases f with
    | zero => simp at hf
    | succ f =>
      have h1 := readUserVar_write hx (hwf v (by simp)) y
      simp only [List.cons_append] at h1 ⊢
      simp only [readUserVarLoop, h1, Res.bind_eq, Res.bind_ok]
      rw [ih f y (acc ++ [normUserVar v]) hy (fun w hw' => hwf w (by simp [hw'])) (by simp at hf; omega)]
      simp
theorem readPduVariable_item (t : Nat) (c r : Bytes) (hl : c.length ≤ 65535) :
    readPduVariable (t :: 0 :: (be16 c.length ++ c) ++ r) = readVarBody t c r := by
  have hl' : c.length < 65536 := by omega
  simp [readPduVariable, subHeader_item _ _ hl', takeI_append]

theorem readPduVariable_acn {s : Str} {b : Bytes} (hw : writeAcn s = .ok b) (r : Bytes) :
    readPduVariable (b ++ r) = .ok (.acn s, r) := by
  simp only [writeAcn] at hw
  obtain ⟨c, hc, hl, rfl⟩ := item16_ok.1 hw
  obtain ⟨-, rfl⟩ := encodeText_ok.1 hc
  rw [readPduVariable_item _ _ _ hl]
  simp [readVarBody]

theorem readPcProposedSubs_ts (tss : List Str) :
    ∀ (f : Nat) (b : Bytes) (a : Option Str) (acc : List Str), writeTsList tss = .ok b → b.length ≤ f →
      readPcProposedSubs f b a acc = .ok (a, acc ++ tss.map trimWs) := by
  induction tss with
  | nil =>
    intro f b a acc hw _
    simp [writeTsList] at hw; subst hw
    cases f <;> simp [readPcProposedSubs]
  | cons ts tss ih =>
    intro f b a acc hw hf
    simp only [writeTsList] at hw
    obtain ⟨x, y, hx, hy, rfl⟩ := wcat_ok.1 hw
    obtain ⟨c, hc, hl, rfl⟩ := item16_ok.1 hx
    obtain ⟨-, rfl⟩ := encodeText_ok.1 hc
    cases f with
    | zero => simp at hf
    | succ f =>
      have hl' : c.length < 65536 := by omega
      simp only [List.cons_append, List.append_assoc, readPcProposedSubs, subHeader_item _ _ hl',
        Res.bind_eq, Res.bind_ok, takeI_append]
      simp only [show ¬ ((64 : Nat) = 48) by decide, if_false, if_true]
      rw [ih f y a (acc ++ [trimWs c]) hy (by simp at hf; omega)]
      simp

theorem readPduVariable_pcProposed {pc : PcProposed} {b : Bytes} (hw : writePcProposed pc = .ok b)
    (r : Bytes) : readPduVariable (b ++ r) = .ok (.pcProposed (normPcProposed pc), r) := by
  obtain ⟨id, a, tss⟩ := pc
  simp only [writePcProposed] at hw
  obtain ⟨c, hc, hl, rfl⟩ := item16_ok.1 hw
  obtain ⟨x, y, hx, hy, rfl⟩ := wcat_ok.1 hc
  cases hx
  obtain ⟨p, q, hp, hq, rfl⟩ := wcat_ok.1 hy
  obtain ⟨a', ha, hal, rfl⟩ := item16_ok.1 hp
  obtain ⟨-, rfl⟩ := encodeText_ok.1 ha
  rw [readPduVariable_item _ _ _ hl]
  have hal' : a'.length < 65536 := by omega
  have h2 := readPcProposedSubs_ts tss (2 + (a'.length + q.length) + 1) q (some (trimWs a')) [] hq (by omega)
  simp [readVarBody, u8I, readPcProposedSubs, subHeader_item _ _ hal', takeI_append, normPcProposed]
  simp [h2]
theorem takeI_self (a : Bytes) : takeI a.length a = .ok (a, []) := by
  simp [takeI]

theorem PcReason.ofCode_code (t : PcReason) : PcReason.ofCode t.code = some t := by cases t <;> rfl

theorem readPduVariable_pcResult {pc : PcResult} {b : Bytes} (hw : writePcResult pc = .ok b)
    (r : Bytes) : readPduVariable (b ++ r) = .ok (.pcResult (normPcResult pc), r) := by
  obtain ⟨id, reason, ts⟩ := pc
  simp only [writePcResult] at hw
  obtain ⟨c, hc, hl, rfl⟩ := item16_ok.1 hw
  obtain ⟨x, y, hx, hy, rfl⟩ := wcat_ok.1 hc
  cases hx
  obtain ⟨a', ha, hal, rfl⟩ := item16_ok.1 hy
  obtain ⟨-, rfl⟩ := encodeText_ok.1 ha
  rw [readPduVariable_item _ _ _ hl]
  have hal' : a'.length < 65536 := by omega
  simp [readVarBody, u8I, readPcResultSubs, subHeader_item _ _ hal', takeI_self, normPcResult,
    PcReason.ofCode_code]

theorem readPduVariable_userVars {vs : List UserVar} {b : Bytes} (hw : writeUserVars vs = .ok b)
    (hne : vs ≠ []) (hwf : ∀ v ∈ vs, wfUserVar v = true) (r : Bytes) :
    readPduVariable (b ++ r) = .ok (.userVars (vs.map normUserVar), r) := by
  have : vs.isEmpty = false := by cases vs <;> simp_all
  simp only [writeUserVars, this] at hw
  obtain ⟨c, hc, hl, rfl⟩ := item16_ok.1 hw
  rw [readPduVariable_item _ _ _ hl]
  simp [readVarBody, readUserVarLoop_write vs c.length c [] hc hwf (Nat.le_refl _)]
theorem readPduVariable'_ok {bs : Bytes} {x : VarItem × Bytes} (h : readPduVariable bs = .ok x) :
    readPduVariable' bs = .ok x := by
  simp [readPduVariable', h]

/-- the user-information part at the end of the variable items -/
theorem readRqVars_uvs {vs : List UserVar} {b : Bytes} (hw : writeUserVars vs = .ok b)
    (hwf : ∀ v ∈ vs, wfUserVar v = true) (f : Nat) (hf : b.length ≤ f) (acn : Option Str)
    (pcs : List PcProposed) :
    readRqVars f b acn pcs [] = .ok (acn, pcs, vs.map normUserVar) := by
  by_cases hne : vs = []
  · subst hne
    simp [writeUserVars] at hw; subst hw
    cases f <;> simp [readRqVars]
  · have h1 := readPduVariable_userVars hw hne hwf []
    have : vs.isEmpty = false := by cases vs <;> simp_all
    simp only [writeUserVars, this] at hw
    obtain ⟨c, hc, hl, rfl⟩ := item16_ok.1 hw
    cases f with
    | zero => simp at hf
    | succ f =>
      simp only [List.append_nil] at h1
      simp only [readRqVars, readPduVariable'_ok h1, Res.bind_eq, Res.bind_ok]

theorem readRqVars_pcs (pcs : List PcProposed) :
    ∀ (f : Nat) (b t : Bytes) (acn : Option Str) (acc : List PcProposed) (res : List UserVar),
      writePcProposedList pcs = .ok b → (b ++ t).length ≤ f →
      (∀ f', t.length ≤ f' → ∀ acc', readRqVars f' t acn acc' [] = .ok (acn, acc', res)) →
      readRqVars f (b ++ t) acn acc [] = .ok (acn, acc ++ pcs.map normPcProposed, res) := by
  induction pcs with
  | nil =>
    intro f b t acn acc res hw hf ht
    simp [writePcProposedList] at hw; subst hw
    simpa using ht f (by simpa using hf) acc
  | cons pc pcs ih =>
    intro f b t acn acc res hw hf ht
    simp only [writePcProposedList] at hw
    obtain ⟨x, y, hx, hy, rfl⟩ := wcat_ok.1 hw
    have h1 := readPduVariable_pcProposed hx (y ++ t)
    simp only [writePcProposed] at hx
    obtain ⟨c, hc, hl, rfl⟩ := item16_ok.1 hx
    cases f with
    | zero => simp at hf
    | succ f =>
      simp only [List.cons_append, List.append_assoc] at h1 ⊢
      simp only [readRqVars, readPduVariable'_ok h1, Res.bind_eq, Res.bind_ok]
      rw [ih f y t acn (acc ++ [normPcProposed pc]) res hy (by simp at hf ⊢; omega) ht]
      simp
/-- the user-information part at the end of the variable items -/
theorem readAcVars_uvs {vs : List UserVar} {b : Bytes} (hw : writeUserVars vs = .ok b)
    (hwf : ∀ v ∈ vs, wfUserVar v = true) (f : Nat) (hf : b.length ≤ f) (acn : Option Str)
    (pcs : List PcResult) :
    readAcVars f b acn pcs [] = .ok (acn, pcs, vs.map normUserVar) := by
  by_cases hne : vs = []
  · subst hne
    simp [writeUserVars] at hw; subst hw
    cases f <;> simp [readAcVars]
  · have h1 := readPduVariable_userVars hw hne hwf []
    have : vs.isEmpty = false := by cases vs <;> simp_all
    simp only [writeUserVars, this] at hw
    obtain ⟨c, hc, hl, rfl⟩ := item16_ok.1 hw
    cases f with
    | zero => simp at hf
    | succ f =>
      simp only [List.append_nil] at h1
      simp only [readAcVars, readPduVariable'_ok h1, Res.bind_eq, Res.bind_ok]

theorem readAcVars_pcs (pcs : List PcResult) :
    ∀ (f : Nat) (b t : Bytes) (acn : Option Str) (acc : List PcResult) (res : List UserVar),
      writePcResultList pcs = .ok b → (b ++ t).length ≤ f →
      (∀ f', t.length ≤ f' → ∀ acc', readAcVars f' t acn acc' [] = .ok (acn, acc', res)) →
      readAcVars f (b ++ t) acn acc [] = .ok (acn, acc ++ pcs.map normPcResult, res) := by
  induction pcs with
  | nil =>
    intro f b t acn acc res hw hf ht
    simp [writePcResultList] at hw; subst hw
    simpa using ht f (by simpa using hf) acc
  | cons pc pcs ih =>
    intro f b t acn acc res hw hf ht
    simp only [writePcResultList] at hw
    obtain ⟨x, y, hx, hy, rfl⟩ := wcat_ok.1 hw
    have h1 := readPduVariable_pcResult hx (y ++ t)
    simp only [writePcResult] at hx
    obtain ⟨c, hc, hl, rfl⟩ := item16_ok.1 hx
    cases f with
    | zero => simp at hf
    | succ f =>
      simp only [List.cons_append, List.append_assoc] at h1 ⊢
      simp only [readAcVars, readPduVariable'_ok h1, Res.bind_eq, Res.bind_ok]
      rw [ih f y t acn (acc ++ [normPcResult pc]) res hy (by simp at hf ⊢; omega) ht]
      simp
theorem takeP_append' {a : Bytes} {n : Nat} (h : a.length = n) (r : Bytes) :
    takeP n (a ++ r) = .ok (a, r) := by
  subst h; exact takeP_append a r

theorem writeAe_ok {s : Str} {b : Bytes} (h : writeAe s = .ok b) :
    b = (s ++ List.replicate 16 32).take 16 ∧ b.length = 16 := by
  unfold writeAe at h
  cases he : encodeText s with
  | error e => simp [he] at h
  | ok c =>
    obtain ⟨-, rfl⟩ := encodeText_ok.1 he
    simp [he] at h
    subst h
    simp

theorem u16P_be16 (n : Nat) (h : n < 65536) (r : Bytes) : u16P (be16 n ++ r) = .ok (n, r) := by
  simp [u16P, be16, be16_val n h]

theorem readAssocFixed_write (pv : Nat) (hpv : pv < 65536) (ae1 ae2 rest : Bytes)
    (h1 : ae1.length = 16) (h2 : ae2.length = 16) :
    readAssocFixed (be16 pv ++ [0, 0] ++ (ae1 ++ (ae2 ++ (List.replicate 32 0 ++ rest)))) =
      .ok (pv, trimWs ae1, trimWs ae2, rest) := by
  have hlen : ¬ ((be16 pv ++ [0, 0] ++ (ae1 ++ (ae2 ++ (List.replicate 32 0 ++ rest)))).length
      < 2 + 2 + 16 + 16 + 32) := by simp [h1, h2]; omega
  unfold readAssocFixed
  rw [if_neg hlen]
  simp only [List.append_assoc, u16P_be16 pv hpv, Res.bind_eq, Res.bind_ok]
  simp only [List.cons_append, List.nil_append, u16P, Res.bind_ok, takeP_append' h1, takeP_append' h2,
    takeP_append' (List.length_replicate (n := 32) (a := 0)), Res.pure_eq]

theorem readRqVars_write {a : Assoc PcProposed} {x y z : Bytes} (hx : writeAcn a.acn = .ok x)
    (hy : writePcProposedList a.pcs = .ok y) (hz : writeUserVars a.uvs = .ok z)
    (hwf : ∀ v ∈ a.uvs, wfUserVar v = true) :
    readRqVars (x ++ (y ++ z)).length (x ++ (y ++ z)) none [] [] =
      .ok (some a.acn, a.pcs.map normPcProposed, a.uvs.map normUserVar) := by
  have h1 := readPduVariable_acn hx (y ++ z)
  simp only [writeAcn] at hx
  obtain ⟨c, hc, hl, rfl⟩ := item16_ok.1 hx
  simp only [List.cons_append, List.append_assoc, List.length_cons] at h1 ⊢
  simp only [readRqVars, readPduVariable'_ok h1, Res.bind_eq, Res.bind_ok]
  rw [readRqVars_pcs a.pcs _ y z (some a.acn) [] (a.uvs.map normUserVar) hy (by simp; omega)
    (fun f' hf' acc' => readRqVars_uvs hz hwf f' hf' (some a.acn) acc')]
  simp

theorem readAcVars_write {a : Assoc PcResult} {x y z : Bytes} (hx : writeAcn a.acn = .ok x)
    (hy : writePcResultList a.pcs = .ok y) (hz : writeUserVars a.uvs = .ok z)
    (hwf : ∀ v ∈ a.uvs, wfUserVar v = true) :
    readAcVars (x ++ (y ++ z)).length (x ++ (y ++ z)) none [] [] =
      .ok (some a.acn, a.pcs.map normPcResult, a.uvs.map normUserVar) := by
  have h1 := readPduVariable_acn hx (y ++ z)
  simp only [writeAcn] at hx
  obtain ⟨c, hc, hl, rfl⟩ := item16_ok.1 hx
  simp only [List.cons_append, List.append_assoc, List.length_cons] at h1 ⊢
  simp only [readAcVars, readPduVariable'_ok h1, Res.bind_eq, Res.bind_ok]
  rw [readAcVars_pcs a.pcs _ y z (some a.acn) [] (a.uvs.map normUserVar) hy (by simp; omega)
    (fun f' hf' acc' => readAcVars_uvs hz hwf f' hf' (some a.acn) acc')]
  simp
theorem wfAssoc_parts {γ : Type} {wfPc : γ → Bool} {a : Assoc γ} (h : wfAssoc wfPc a = true) :
    a.protocolVersion < 65536 ∧ ∀ v ∈ a.uvs, wfUserVar v = true := by
  simp [wfAssoc] at h
  exact ⟨h.1.1, h.2⟩

theorem readBody_rq {a : Assoc PcProposed} {body : Bytes}
    (hw : writeAssocBody writePcProposedList a = .ok body)
    (hwf : wfAssoc (fun pc : PcProposed => decide (pc.id < 256)) a = true) :
    readBody 0x01 body = .ok (.associationRQ (normAssoc normPcProposed a)) := by
  obtain ⟨hpv, huv⟩ := wfAssoc_parts hwf
  simp only [writeAssocBody] at hw
  obtain ⟨b0, r0, h0, hr0, rfl⟩ := wcat_ok.1 hw
  cases h0
  obtain ⟨ae1, r1, h1, hr1, rfl⟩ := wcat_ok.1 hr0
  obtain ⟨ae2, r2, h2, hr2, rfl⟩ := wcat_ok.1 hr1
  obtain ⟨z32, r3, h3, hr3, rfl⟩ := wcat_ok.1 hr2
  cases h3
  obtain ⟨x, r4, hx, hr4, rfl⟩ := wcat_ok.1 hr3
  obtain ⟨y, z, hy, hz, rfl⟩ := wcat_ok.1 hr4
  obtain ⟨e1, l1⟩ := writeAe_ok h1
  obtain ⟨e2, l2⟩ := writeAe_ok h2
  simp only [readBody, if_true, readAssocFixed_write _ hpv ae1 ae2 _ l1 l2, Res.bind_eq, Res.bind_ok,
    readRqVars_write hx hy hz huv, Res.pure_eq]
  simp [normAssoc, normAe, e1, e2]

theorem readBody_ac {a : Assoc PcResult} {body : Bytes}
    (hw : writeAssocBody writePcResultList a = .ok body)
    (hwf : wfAssoc (fun pc : PcResult => decide (pc.id < 256)) a = true) :
    readBody 0x02 body = .ok (.associationAC (normAssoc normPcResult a)) := by
  obtain ⟨hpv, huv⟩ := wfAssoc_parts hwf
  simp only [writeAssocBody] at hw
  obtain ⟨b0, r0, h0, hr0, rfl⟩ := wcat_ok.1 hw
  cases h0
  obtain ⟨ae1, r1, h1, hr1, rfl⟩ := wcat_ok.1 hr0
  obtain ⟨ae2, r2, h2, hr2, rfl⟩ := wcat_ok.1 hr1
  obtain ⟨z32, r3, h3, hr3, rfl⟩ := wcat_ok.1 hr2
  cases h3
  obtain ⟨x, r4, hx, hr4, rfl⟩ := wcat_ok.1 hr3
  obtain ⟨y, z, hy, hz, rfl⟩ := wcat_ok.1 hr4
  obtain ⟨e1, l1⟩ := writeAe_ok h1
  obtain ⟨e2, l2⟩ := writeAe_ok h2
  simp only [readBody, show ¬ ((2 : Nat) = 1) by decide, if_false, if_true,
    readAssocFixed_write _ hpv ae1 ae2 _ l1 l2, Res.bind_eq, Res.bind_ok,
    readAcVars_write hx hy hz huv, Res.pure_eq]
  simp [normAssoc, normAe, e1, e2]

theorem chunk32_ok {d : W} {z : Bytes} :
    chunk32 d = .ok z ↔ ∃ c, d = .ok c ∧ c.length ≤ 4294967295 ∧ z = be32 c.length ++ c := by
  cases d with
  | error e => simp [chunk32]
  | ok c => by_cases h : c.length ≤ 4294967295 <;> simp [chunk32, h, eq_comm]

theorem pdvHeader_type (v : Pdv) :
    (if pdvHeader v % 2 = 1 then PdvType.command else PdvType.data) = v.type := by
  cases v with | mk p t l d => cases t <;> cases l <;> simp [pdvHeader]

theorem pdvHeader_last (v : Pdv) : decide (pdvHeader v / 2 % 2 = 1) = v.isLast := by
  cases v with | mk p t l d => cases t <;> cases l <;> simp [pdvHeader]

theorem readPdvs_write (vs : List Pdv) :
    ∀ (f : Nat) (b : Bytes) (acc : List Pdv), writePdvList vs = .ok b → b.length ≤ f →
      readPdvs f b acc = .ok (acc ++ vs) := by
  induction vs with
  | nil =>
    intro f b acc hw _
    simp [writePdvList] at hw; subst hw
    cases f <;> simp [readPdvs]
  | cons v vs ih =>
    intro f b acc hw hf
    simp only [writePdvList] at hw
    obtain ⟨x, y, hx, hy, rfl⟩ := wcat_ok.1 hw
    simp only [writePdv] at hx
    obtain ⟨c, hc, hl, rfl⟩ := chunk32_ok.1 hx
    cases hc
    cases f with
    | zero => simp [be32] at hf
    | succ f =>
      have hl' : (v.pcid :: pdvHeader v :: v.data).length < 4294967296 := by omega
      have e : be32 (v.pcid :: pdvHeader v :: v.data).length ++ v.pcid :: pdvHeader v :: v.data ++ y
          = (be32 (v.pcid :: pdvHeader v :: v.data).length).head (by simp [be32]) ::
            ((be32 (v.pcid :: pdvHeader v :: v.data).length).tail ++ v.pcid :: pdvHeader v :: v.data ++ y) := by
        simp [be32]
      rw [e]
      simp only [readPdvs]
      rw [← e]
      have hlen : ¬ ((be32 (v.pcid :: pdvHeader v :: v.data).length ++ v.pcid :: pdvHeader v :: v.data ++ y).length
          < 4 + 1 + 1) := by simp; omega
      rw [if_neg hlen]
      simp only [List.append_assoc, u32P_be32 _ hl', Res.bind_eq, Res.bind_ok]
      have h2 : ¬ ((v.pcid :: pdvHeader v :: v.data).length < 2) := by simp
      rw [if_neg h2]
      simp only [List.cons_append, u8P, Res.bind_ok, List.length_cons]
      have h3 : ¬ ((v.data ++ y).length < v.data.length + 1 + 1 - 2) := by simp
      rw [if_neg h3]
      have e2 : v.data.length + 1 + 1 - 2 = v.data.length := by omega
      rw [e2, takeP_append]
      simp only [Res.bind_ok, pdvHeader_type, pdvHeader_last]
      rw [ih f y _ hy (by simp at hf; omega)]
      simp
theorem RjResult.ofCode_code (t : RjResult) : RjResult.ofCode t.code = some t := by cases t <;> rfl

theorem RjSource.ofCodes_codes (s : RjSource) (h : wfRjSource s = true) :
    RjSource.ofCodes s.codes.1 s.codes.2 = some s := by
  cases s with
  | serviceUser r =>
    cases r with
    | reserved x =>
      simp [wfRjSource] at h
      have h' : x = 4 ∨ x = 5 ∨ x = 6 ∨ x = 8 ∨ x = 9 ∨ x = 10 := by omega
      rcases h' with h | h | h | h | h | h <;> subst h <;> rfl
    | _ => rfl
  | asce r => cases r <;> rfl
  | presentation r =>
    cases r with
    | reserved x =>
      simp [wfRjSource] at h
      have h' : x = 0 ∨ x = 3 ∨ x = 4 ∨ x = 5 ∨ x = 6 ∨ x = 7 := by omega
      rcases h' with h | h | h | h | h | h <;> subst h <;> rfl
    | _ => rfl

theorem AbortSource.ofCodes_codes (s : AbortSource) : AbortSource.ofCodes s.codes.1 s.codes.2 = some s := by
  cases s with
  | serviceProvider r => cases r <;> rfl
  | _ => rfl

/-- a successful `pdu32` write is a 6-byte header followed by the body -/
theorem pdu32_ok {t : Nat} {d : W} {z : Bytes} :
    pdu32 t d = .ok z ↔ ∃ c, d = .ok c ∧ c.length ≤ 4294967295 ∧ z = t :: 0 :: (be32 c.length ++ c) := by
  unfold pdu32
  cases h : chunk32 d with
  | error e =>
    simp only [reduceCtorEq, false_iff]
    rintro ⟨c, hc, hl, -⟩
    have := (chunk32_ok (d := d) (z := be32 c.length ++ c)).2 ⟨c, hc, hl, rfl⟩
    rw [h] at this; cases this
  | ok c =>
    obtain ⟨c', hc', hl, rfl⟩ := chunk32_ok.1 h
    subst hc'
    simp [hl, eq_comm]

def validMax (mx : Nat) : Prop := minimumPduSize ≤ mx ∧ mx ≤ maximumPduSize

/-- framing: with the whole PDU in the buffer `read_pdu` parses exactly the body and leaves the rest -/
theorem readPdu_frame (mx : Nat) (strict : Bool) (t : Nat) (body r : Bytes) (hmx : validMax mx)
    (hL : body.length ≤ 4294967295) (hs : strict = true → body.length ≤ mx) :
    readPdu mx strict (t :: 0 :: (be32 body.length ++ body) ++ r) =
      (readBody t body).bind (fun p => .ok (p, r)) := by
  have h1 : ¬ ¬ (minimumPduSize ≤ mx ∧ mx ≤ maximumPduSize) := fun h => h hmx
  have h2 : ¬ ((t :: 0 :: (be32 body.length ++ body) ++ r).length < 2) := by simp
  have h3 : ¬ (strict = true ∧ mx < body.length) := by
    rintro ⟨a, b⟩; have := hs a; omega
  have h4 : ¬ ((be32 body.length ++ (body ++ r)).length < 4) := by simp
  have h5 : ¬ ((body ++ r).length < body.length) := by simp
  have e2 : takeP 2 (t :: 0 :: (be32 body.length ++ (body ++ r))) = .ok ([t, 0], be32 body.length ++ (body ++ r)) := by
    simp [takeP]
  unfold readPdu
  rw [if_neg h1, if_neg h2]
  simp only [List.cons_append, List.append_assoc, e2, Res.bind_eq, Res.bind_ok, if_neg h4,
    u32P_be32 _ (show body.length < 4294967296 by omega), if_neg h3, if_neg h5, takeP_append, List.headD,
    Res.pure_eq]
end Dicom.Pdu
