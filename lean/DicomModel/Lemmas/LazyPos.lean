import DicomModel.Lemmas.DecConsume
import DicomModel.Model.LazyRun
import DicomModel.Lemmas.DsReaderPos
/-
C07 over the lazy reader model of the C06 builder (Model/LazyReader.lean, imported unchanged; its decoder
is Model/Reader.lean): every token `advance` yields, and every way the consumer deals with an announced
value (`into_owned`, `skip`), adds to `position` exactly what it takes from the source.
-/
set_option linter.unusedSimpArgs false
set_option linter.unusedVariables false
namespace Dicom.LP
open Dicom.DC

/-- from `d` to `d'` the decoder took exactly as many bytes from the source as it added to `position` -/
def DExact (d d' : Dec) : Prop := d'.pos + d'.rest.length = d.pos + d.rest.length ∧ d.pos ≤ d'.pos

theorem DExact.refl (d : Dec) : DExact d d := ⟨rfl, Nat.le_refl _⟩
theorem DExact.trans {a b c : Dec} (h1 : DExact a b) (h2 : DExact b c) : DExact a c :=
  ⟨h2.1.trans h1.1, Nat.le_trans h1.2 h2.2⟩

theorem after_exact (d : Dec) (n : Nat) (h : n ≤ d.rest.length) : DExact d (after d n) := by
  simp [DExact, after]; omega

theorem decodeHeader_exact {d d' : Dec} {h : ElemHeader} (hd : d.decodeHeader = .ok (h, d')) : DExact d d' := by
  unfold Dec.decodeHeader at hd
  split at hd
  · rename_i hh n r hdec
    have := Dicom.Rd.decodeHeader_len hdec
    injection hd with hd; injection hd with _ h2
    rw [← h2]; simp [DExact]; omega
  · cases hd

theorem decodeItemHeader_exact {d d' : Dec} {h : ItemHeader} (hd : d.decodeItemHeader = .ok (h, d')) : DExact d d' := by
  unfold Dec.decodeItemHeader at hd
  split at hd
  · rename_i hh r hdec
    have := Dicom.Rd.decodeItemHeader_len hdec
    injection hd with hd; injection hd with _ h2
    rw [← h2]; simp [DExact]; omega
  · cases hd
  · cases hd

theorem update_dec (s : LState) : s.updateSeqDelimiters.2.dec = s.dec := by
  unfold LState.updateSeqDelimiters
  repeat' (first | split | dsimp only)
  all_goals rfl

/-- every branch of `advance`'s body that yields a token -/
theorem advanceBody_exact {s s' : LState} {t : LTok} (h : s.advanceBody = (some (.ok t), s')) :
    DExact s.dec s'.dec := by
  unfold LState.advanceBody at h
  repeat' (first | split at h | dsimp only at h)
  all_goals try simp only [LState.push] at *
  all_goals first
    | (injection h with h1 h2; injection h1 with h1; cases h1; done)
    | (injection h with h1 h2; cases h1; done)
    | (injection h with h1 h2; rw [← h2]; first
        | exact DExact.refl _
        | exact decodeItemHeader_exact (by assumption)
        | exact decodeHeader_exact (by assumption))


/-- `advance`: every token it yields (structural tokens, `LazyValue`, `LazyItemValue`, a peeked token) -/
theorem advance_exact {s s' : LState} {t : LTok} (h : s.advance = (some (.ok t), s')) : DExact s.dec s'.dec := by
  unfold LState.advance at h
  split at h
  · cases h
  · split at h
    · injection h with h1 h2; rw [← h2]; exact DExact.refl _
    · split at h
      · have hd := update_dec s
        split at h
        · injection h with h1 h2; injection h1 with h1; cases h1
        · rename_i tok sx hu
          injection h with h1 h2
          rw [← h2]
          rw [hu] at hd
          simp only at hd
          rw [hd]; exact DExact.refl _
        · rename_i sx hu
          rw [hu] at hd
          simp only at hd
          have := advanceBody_exact h
          rw [hd] at this; exact this
      · exact advanceBody_exact h

theorem readNums_le (d d' : Dec) (len shift : Nat) (rd : Bytes → Option (Nat × Bytes)) (w : Nat)
    (hw : 2 ^ shift = w) (hw0 : 0 < w)
    (hrd : ∀ bs v r, rd bs = some (v, r) → r = bs.drop w ∧ w ≤ bs.length)
    (mk : List Nat → PValue) (v : PValue) (h : d.readNums len shift rd mk = .ok (v, d')) : len ≤ d.rest.length := by
  unfold Dec.readNums at h
  split at h
  · rename_i vs r h1
    split at h
    · rename_i x r' h2
      obtain ⟨e1, l1⟩ := rdMany_drop rd w hrd _ _ _ _ h1
      obtain ⟨e2, l2⟩ := takeN_drop h2
      rw [e1, List.length_drop, hw] at l2
      rw [hw] at l1
      have : len / w * w + len % w = len := by
        have := Nat.div_add_mod len w
        rw [Nat.mul_comm] at this; exact this
      omega
    · cases h
  · cases h

theorem take_le (d d' : Dec) (len : Nat) (buf : Bytes) (h : d.take len = .ok (buf, d')) : len ≤ d.rest.length := by
  unfold Dec.take at h
  split at h
  · rename_i a r h1; exact (takeN_drop h1).2
  · cases h

/-- a value that `read_value_preserved` delivers lies completely inside the source -/
theorem readValuePreserved_le (d d' : Dec) (h : ElemHeader) (v : PValue)
    (hr : d.readValuePreserved h = .ok (v, d')) : h.len ≤ d.rest.length := by
  unfold Dec.readValuePreserved at hr
  by_cases hz : h.len = 0
  · omega
  · simp only [hz, if_false] at hr
    by_cases hsq : h.vr = .SQ
    · simp [hsq] at hr
    · simp only [hsq, if_false] at hr
      by_cases hu : h.len = undefinedLen
      · simp [hu] at hr
      · simp only [hu, if_false] at hr
        have n16 := fun mk hh => readNums_le d d' h.len 1 (rd16 d.ts.bigEndian) 2 rfl (by decide) (fun bs v r => rd16_drop) mk v hh
        have n32 := fun mk hh => readNums_le d d' h.len 2 (rd32 d.ts.bigEndian) 4 rfl (by decide) (fun bs v r => rd32_drop) mk v hh
        have n64 := fun mk hh => readNums_le d d' h.len 3 (rd64 d.ts.bigEndian) 8 rfl (by decide) (fun bs v r => rd64_drop) mk v hh
        cases hvr : h.vr <;> simp only [hvr] at hr hsq
        all_goals first
          | exact n16 _ hr
          | exact n32 _ hr
          | exact n64 _ hr
          | (cases hr; done)
          | (-- AT
             split at hr
             · rename_i ts r h1
               split at hr
               · rename_i x r' h2
                 obtain ⟨e1, l1⟩ := rdTags_drop _ _ _ _ _ h1
                 obtain ⟨e2, l2⟩ := takeN_drop h2
                 rw [e1, List.length_drop] at l2
                 omega
               · cases hr
             · cases hr)
          | (-- text and byte VRs
             split at hr
             · cases hr
             · rename_i buf d1 ht
               exact take_le d d1 h.len buf ht)


/-- the announced value lies inside the source, where the consumer goes through `io::copy`
(`read_to_vec`, `skip_bytes`): item values always, element values when skipped -/
def ValueInside (u : Use) (t : LTok) (d : Dec) : Prop :=
  match t, u with
  | .lazyItemValue len, _ => len ≤ d.rest.length
  | .lazyValue h, .skip => h.len ≤ d.rest.length
  | _, _ => True

instance (u : Use) (t : LTok) (d : Dec) : Decidable (ValueInside u t d) := by
  unfold ValueInside; split <;> infer_instance

theorem consume_exact {u : Use} {t : LTok} {d d' : Dec} {o : Option Token} (hin : ValueInside u t d)
    (h : consumeTok u t d = .ok (o, d')) : DExact d d' := by
  cases u with
  | read =>
    simp only [consumeTok] at h
    cases t with
    | tok t0 => simp [LTok.intoOwned] at h; rw [← h.2]; exact DExact.refl _
    | lazyValue hh =>
      simp only [LTok.intoOwned] at h
      rcases hv : d.readValuePreserved hh with e | ⟨v, d1⟩
      · simp [hv] at h
      · simp only [hv] at h
        injection h with h
        injection h with _ h
        subst h
        have ha := readValuePreserved_after _ _ _ _ hv
        have hl := readValuePreserved_le _ _ _ _ hv
        rw [ha]; exact after_exact d hh.len hl
    | lazyItemValue len =>
      simp only [LTok.intoOwned, Dec.readToVec] at h
      injection h with h
      injection h with _ h
      subst h
      exact after_exact d len hin
  | skip =>
    simp only [consumeTok] at h
    cases t with
    | tok t0 => simp [LTok.skip] at h; rw [← h.2]; exact DExact.refl _
    | lazyValue hh =>
      simp only [LTok.skip, Dec.skip] at h
      injection h with h
      injection h with _ h
      subst h
      exact after_exact d hh.len hin
    | lazyItemValue len =>
      simp only [LTok.skip, Dec.skip] at h
      injection h with h
      injection h with _ h
      subst h
      exact after_exact d len hin

end Dicom.LP
