import DicomModel.Model.Charset
/-
UTF-8 (ISO_IR 192): the model decoder inverts the model encoder on every string of code points
below 0x110000. (The model functions are compared with the real `UTF_8` codec of the `encoding`
crate on every generated string by the C10 correspondence run.)
-/
namespace Dicom.Charset
open Dicom.CodePage

theorem utf8DecAux_enc_cons (n : Nat) (hn : n < 0x110000) (fuel : Nat) (rest : List Nat) :
    utf8DecAux (fuel + 1) (utf8EncodeNat n ++ rest) = n :: utf8DecAux fuel rest := by
  unfold utf8EncodeNat
  by_cases h1 : n < 0x80
  · simp [h1, utf8DecAux]
  · by_cases h2 : n < 0x800
    · have hb1 : ¬ (0xC0 + n / 64 < 0x80) := by omega
      have hb2 : 0xC0 + n / 64 < 0xE0 := by omega
      simp only [h1, h2, if_false, if_true, List.cons_append, List.nil_append, utf8DecAux, hb1, hb2]
      congr 1
      omega
    · by_cases h3 : n < 0x10000
      · have hb1 : ¬ (0xE0 + n / 4096 < 0x80) := by omega
        have hb2 : ¬ (0xE0 + n / 4096 < 0xE0) := by omega
        have hb3 : 0xE0 + n / 4096 < 0xF0 := by omega
        simp only [h1, h2, h3, if_false, if_true, List.cons_append, List.nil_append, utf8DecAux, hb1, hb2, hb3]
        congr 1
        omega
      · have hb1 : ¬ (0xF0 + n / 262144 < 0x80) := by omega
        have hb2 : ¬ (0xF0 + n / 262144 < 0xE0) := by omega
        have hb3 : ¬ (0xF0 + n / 262144 < 0xF0) := by omega
        simp only [h1, h2, h3, if_false, List.cons_append, List.nil_append, utf8DecAux, hb1, hb2, hb3]
        congr 1
        omega

theorem utf8EncodeNat_length_pos (n : Nat) : 1 ≤ (utf8EncodeNat n).length := by
  unfold utf8EncodeNat
  split
  · simp
  · split
    · simp
    · split <;> simp

theorem utf8DecAux_enc : ∀ (s : Str) (fuel : Nat), (∀ n ∈ s, n < 0x110000) → s.length ≤ fuel →
    utf8DecAux fuel (utf8Enc s) = s
  | [], fuel, _, _ => by cases fuel <;> simp [utf8Enc, utf8DecAux]
  | n :: t, 0, _, hf => by simp at hf
  | n :: t, fuel + 1, hs, hf => by
    have : utf8Enc (n :: t) = utf8EncodeNat n ++ utf8Enc t := by simp [utf8Enc]
    rw [this, utf8DecAux_enc_cons n (hs n (by simp)) fuel]
    rw [utf8DecAux_enc t fuel (fun x hx => hs x (by simp [hx])) (by simpa using hf)]

theorem utf8Enc_length (s : Str) : s.length ≤ (utf8Enc s).length := by
  induction s with
  | nil => simp [utf8Enc]
  | cons n t ih =>
    have : utf8Enc (n :: t) = utf8EncodeNat n ++ utf8Enc t := by simp [utf8Enc]
    rw [this, List.length_append, List.length_cons]
    have := utf8EncodeNat_length_pos n
    have ih' : t.length ≤ (utf8Enc t).length := ih
    omega

/-- **utf8_rt**: decode (encode s) = s for every string of Unicode code points -/
theorem utf8_rt (s : Str) (hs : ∀ n ∈ s, n < 0x110000) : utf8Dec (utf8Enc s) = s :=
  utf8DecAux_enc s _ hs (utf8Enc_length s)

/-- UTF-8 never produces the backslash byte for anything but the backslash -/
theorem utf8EncodeNat_no92 (n : Nat) (h : n ≠ 92) : 92 ∉ utf8EncodeNat n := by
  unfold utf8EncodeNat
  split
  · simp; omega
  · split
    · simp; omega
    · split <;> (simp; omega)

theorem utf8Enc_no92 : ∀ (s : Str), 92 ∉ s → 92 ∉ utf8Enc s
  | [], _ => by simp [utf8Enc]
  | n :: t, h => by
    have : utf8Enc (n :: t) = utf8EncodeNat n ++ utf8Enc t := by simp [utf8Enc]
    rw [this, List.mem_append, not_or]
    exact ⟨utf8EncodeNat_no92 n (fun e => h (by simp [e])), utf8Enc_no92 t (fun m => h (by simp [m]))⟩

end Dicom.Charset
