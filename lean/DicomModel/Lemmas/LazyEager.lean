import DicomModel.Model.LazyReader
/-
C06: the lazy reader simulates the eager reader, step by step, on EVERY input — except at three places
where the two deliberately differ (`Anom`).
-/
set_option linter.unusedSimpArgs false
set_option linter.unusedVariables false
namespace Dicom.LE

/-- the lazy reader's view of an eager reader state (it has no `offset_table_next`) -/
def toLazy (s : RState) : LState :=
  ⟨s.dec, s.inSequence, s.delimiterCheckPending, s.seqDelimiters, s.hardBreak, s.lastHeader, none⟩

/-- an offset table token and the item value token of the same item compare by their bytes -/
def normTok (be : Bool) : Token → Token
  | .offsetTable vs => .itemValue (vs.flatMap (enc32 be))
  | t => t

/-- errors correspond (since fix b2f95f8 the lazy reader reports `UnexpectedItemHeader` where it used to
panic, like the eager reader) -/
def errRel (e : RErr) (le : LErr) : Prop := le = .err e

/-- the value of a pixel data item as both readers see it: the eager reader needs the declared number of
bytes, the lazy consumer takes what is there; an offset table is re-encoded from the numbers read -/
def itemValueAgrees (s : RState) (len : Nat) : Bool :=
  if s.offsetTableNext then
    match rdMany (rd32 s.dec.ts.bigEndian) (len / 4) s.dec.rest with
    | some (vs, r) => decide (len % 4 = 0 ∧ takeN len s.dec.rest = some (vs.flatMap (enc32 s.dec.ts.bigEndian), r))
    | none => false
  else true

/-- the places where the two readers differ by design (state after the delimiter check):
 * an item delimitation item outside any sequence (eager: ignored; lazy: `ItemEnd`),
 * the input ends inside a pixel data sequence (eager: graceful end; lazy: error),
 * an offset table item that is cut short or whose length is not a multiple of 4 -/
def Anom (s : RState) : Bool :=
  if s.inSequence then
    match s.dec.decodeItemHeader with
    | .error .eof => (match s.seqDelimiters with | t :: _ => t.pixelData | [] => false)
    | _ => false
  else
    match s.seqDelimiters with
    | ⟨true, len, true, _⟩ :: _ => len != undefinedLen && !itemValueAgrees s len
    | _ =>
      match s.lastHeader with
      | some _ => false
      | none =>
        match s.dec.decodeHeader with
        | .ok (h, _) => h.vr != .SQ && h.tag == Tag.itemDelim && s.seqDelimiters.isEmpty
        | .error _ => false

/-- `advance` body followed by `into_owned` -/
def bodyOwned (l : LState) : Option (Except LErr Token) × LState :=
  match l.advanceBody with
  | (none, l') => (none, l')
  | (some (.error e), l') => (some (.error e), l')
  | (some (.ok t), l') =>
    match t.intoOwned l'.dec with
    | .ok (tok, d) => (some (.ok tok), { l' with dec := d })
    | .error e => (some (.error (.err e)), l')

/-- outcome of one eager loop body vs one lazy `advance` + `into_owned` -/
def SimRes (be : Bool) : Option (Option (Except RErr Token)) × RState → Option (Except LErr Token) × LState → Prop
  | (some none, _), (none, _) => True
  | (some (some (.error e)), _), (some (.error le), _) => errRel e le
  | (some (some (.ok t)), s'), (some (.ok t'), l') => t' = normTok be t ∧ l' = toLazy s'
  | _, _ => False

theorem body_sim_inSeq (s : RState) (h : Anom s = false) (hs : s.inSequence = true) :
    SimRes s.dec.ts.bigEndian s.nextBody (bodyOwned (toLazy s)) := by
  unfold RState.nextBody bodyOwned LState.advanceBody Anom at *
  simp only [toLazy, hs, if_true] at *
  rcases hd : s.dec.decodeItemHeader with e | ⟨ih, d⟩
  · simp only [hd] at h ⊢
    cases e <;> simp_all [SimRes, errRel]
    all_goals (cases hsd : s.seqDelimiters <;> simp_all [SimRes, errRel])
  · simp only [hd] at h ⊢
    cases ih with
    | item len =>
      cases hsd : s.seqDelimiters with
      | nil => simp [SimRes, errRel, LTok.intoOwned]
      | cons last rest =>
        by_cases hz : len = 0 <;> simp [SimRes, LTok.intoOwned, normTok, toLazy, RState.push, LState.push, hz]
    | itemDelim => simp [SimRes, LTok.intoOwned, normTok, toLazy]
    | seqDelim => simp [SimRes, LTok.intoOwned, normTok, toLazy]

theorem take_of_takeN {n : Nat} {bs v r : Bytes} (h : takeN n bs = some (v, r)) : bs.take n = v ∧ bs.drop n = r := by
  unfold takeN at h
  split at h
  · injection h with h; injection h with h1 h2; exact ⟨h1, h2⟩
  · cases h

theorem body_sim_pixItem (s : RState) (h : Anom s = false) (hs : s.inSequence = false)
    (len base : Nat) (rest : List RSeqTok) (hst : s.seqDelimiters = ⟨true, len, true, base⟩ :: rest) :
    SimRes s.dec.ts.bigEndian s.nextBody (bodyOwned (toLazy s)) := by
  unfold RState.nextBody bodyOwned LState.advanceBody Anom at *
  simp only [toLazy, hs, hst, Bool.false_eq_true, if_false] at *
  by_cases hu : len = undefinedLen
  · simp [hu, SimRes, errRel]
  · have hag : itemValueAgrees s len = true := by
      have hne : (len != undefinedLen) = true := by simp [hu]
      rw [hne] at h
      simpa using h
    unfold itemValueAgrees at hag
    simp only [hu, if_false]
    by_cases ho : s.offsetTableNext = true
    · simp only [ho, if_true] at hag ⊢
      rcases hr : rdMany (rd32 s.dec.ts.bigEndian) (len / 4) s.dec.rest with _ | ⟨vs, r⟩
      · simp [hr] at hag
      · simp only [hr, decide_eq_true_eq] at hag
        obtain ⟨h4, htk⟩ := hag
        obtain ⟨t1, t2⟩ := take_of_takeN htk
        simp [SimRes, LTok.intoOwned, Dec.readToVec, normTok, toLazy, h4, t1, t2]
    · simp only [ho, Bool.false_eq_true, if_false] at hag ⊢
      simp [SimRes, LTok.intoOwned, Dec.readToVec, normTok, toLazy]

/-- the innermost frame is not a pixel data item -/
def PlainTop : List RSeqTok → Prop
  | ⟨true, _, true, _⟩ :: _ => False
  | _ => True

theorem body_sim_plain (s : RState) (h : Anom s = false) (hs : s.inSequence = false)
    (hpl : PlainTop s.seqDelimiters) :
    SimRes s.dec.ts.bigEndian s.nextBody (bodyOwned (toLazy s)) := by
  unfold RState.nextBody bodyOwned LState.advanceBody Anom at *
  simp only [toLazy, hs, Bool.false_eq_true, if_false] at *
  rcases hst : s.seqDelimiters with _ | ⟨⟨i, l, p, b⟩, rest⟩
  all_goals (try (cases i <;> cases p))
  all_goals (simp only [hst, PlainTop] at hpl h ⊢)
  all_goals
    cases hlh : s.lastHeader with
    | some header =>
      simp only [hlh] at h ⊢
      by_cases he : header.isEncapsulatedPixeldata = true
      · simp only [he, if_true, RState.push, LState.push]
        rcases hd : s.dec.decodeItemHeader with e | ⟨ih, d⟩
        · simp [hd, SimRes, errRel]
        · cases ih with
          | item len => by_cases hz : len = 0 <;> simp [hd, SimRes, LTok.intoOwned, normTok, toLazy, hz]
          | itemDelim => simp [hd, SimRes, errRel]
          | seqDelim => simp [hd, SimRes, LTok.intoOwned, normTok, toLazy]
      · simp only [he, Bool.false_eq_true, if_false]
        rcases hv : s.dec.readValuePreserved header with e | ⟨v, d⟩
        · simp [hv, SimRes, errRel, LTok.intoOwned]
        · simp [hv, SimRes, LTok.intoOwned, normTok, toLazy]
    | none =>
      simp only [hlh] at h ⊢
      rcases hd : s.dec.decodeHeader with e | ⟨hh, d⟩
      · by_cases h4 : s.dec.rest.length < 4 <;> simp [hd, h4, SimRes, errRel]
      · simp only [hd] at h ⊢
        by_cases hsq : hh.vr = .SQ
        · by_cases hz : hh.len = 0 <;> simp [hsq, hz, SimRes, LTok.intoOwned, normTok, toLazy, RState.push, LState.push]
        · by_cases hid : hh.tag = Tag.itemDelim
          · simp_all [SimRes, LTok.intoOwned, normTok, toLazy]
          · by_cases hen : hh.isEncapsulatedPixeldata = true
            · simp [hsq, hid, hen, SimRes, LTok.intoOwned, normTok, toLazy]
            · by_cases hun : hh.len = undefinedLen
              · simp [hsq, hid, hen, hun, SimRes, LTok.intoOwned, normTok, toLazy, RState.push, LState.push]
              · simp [hsq, hid, hen, hun, SimRes, LTok.intoOwned, normTok, toLazy]

/-- one loop body of the eager reader vs `advance` body + `into_owned` of the lazy reader -/
theorem body_sim (s : RState) (h : Anom s = false) :
    SimRes s.dec.ts.bigEndian s.nextBody (bodyOwned (toLazy s)) := by
  cases hs : s.inSequence
  · rcases hst : s.seqDelimiters with _ | ⟨⟨i, l, p, b⟩, rest⟩
    · exact body_sim_plain s h hs (by rw [hst]; trivial)
    · cases i <;> cases p
      · exact body_sim_plain s h hs (by rw [hst]; trivial)
      · exact body_sim_plain s h hs (by rw [hst]; trivial)
      · exact body_sim_plain s h hs (by rw [hst]; trivial)
      · exact body_sim_pixItem s h hs l b rest hst
  · exact body_sim_inSeq s h hs

theorem update_sim (s : RState) :
    (toLazy s).updateSeqDelimiters = (s.updateSeqDelimiters.1, toLazy s.updateSeqDelimiters.2) := by
  unfold LState.updateSeqDelimiters RState.updateSeqDelimiters toLazy
  simp only
  repeat' (first | split | dsimp only)
  all_goals (try simp_all)
  all_goals (try omega)

theorem update_tok (s : RState) (t : Token) (s' : RState) (h : s.updateSeqDelimiters = (.ok (some t), s')) :
    t = .itemEnd ∨ t = .sequenceEnd := by
  unfold RState.updateSeqDelimiters at h
  repeat' (first | split at h | dsimp only at h)
  all_goals first
    | (injection h with h1 h2; injection h1 with h1; injection h1 with h1; subst h1; simp; done)
    | (injection h with h1 h2; cases h1; done)
    | (injection h with h1 h2; injection h1 with h1; cases h1; done)

/-- the anomaly test for one `next()` call: evaluated on the state in which the loop body runs -/
def AnomStep (s : RState) : Bool :=
  !s.hardBreak &&
    (if s.delimiterCheckPending then
      match s.updateSeqDelimiters with
      | (.ok none, s') => Anom s'
      | _ => false
    else Anom s)

/-- outcome of one eager `next()` vs one lazy `advance` + `into_owned` -/
def StepRes (be : Bool) : Option (Except RErr Token) × RState → Option (Except LErr Token) × LState → Prop
  | (none, _), (none, _) => True
  | (some (.error e), _), (some (.error le), _) => errRel e le
  | (some (.ok t), s'), (some (.ok t'), l') => t' = normTok be t ∧ l' = toLazy s'
  | _, _ => False

theorem update_dec (s : RState) : s.updateSeqDelimiters.2.dec = s.dec := by
  unfold RState.updateSeqDelimiters
  repeat' (first | split | dsimp only)

theorem nextOwned_body (l : LState) (hb : l.hardBreak = false) (hp : l.peeked = none)
    (hc : l.delimiterCheckPending = false) : l.nextOwned = bodyOwned l := by
  unfold LState.nextOwned LState.advance
  simp only [hb, hp, hc, Bool.false_eq_true, if_false]
  rfl

/-- **one step**: unless the step is one of the three designed differences, one `next()` of the eager
reader and one `advance()` + `into_owned()` of the lazy reader, started in corresponding states, end the
same way (both end / corresponding errors / the same token up to the offset-table representation) and
leave corresponding states. For every state, hence every input. -/
theorem step_sim (s : RState) (h : AnomStep s = false) (fuel : Nat) :
    StepRes s.dec.ts.bigEndian (s.next (fuel + 1)) (toLazy s).nextOwned := by
  unfold AnomStep at h
  cases hb : s.hardBreak
  · simp only [hb, Bool.not_false, Bool.true_and] at h
    cases hp : s.delimiterCheckPending
    · -- no check pending: the loop body
      simp only [hp, Bool.false_eq_true, if_false] at h
      have hb' := body_sim s h
      have hl : (toLazy s).nextOwned = bodyOwned (toLazy s) := nextOwned_body _ (by simp [toLazy, hb]) rfl (by simp [toLazy, hp])
      rw [hl]
      unfold RState.next
      simp only [hb, hp, Bool.false_eq_true, if_false]
      rcases hn : s.nextBody with ⟨r, s''⟩
      rw [hn] at hb'
      rcases hl2 : bodyOwned (toLazy s) with ⟨lr, l'⟩
      rw [hl2] at hb'
      cases r with
      | none => simp [SimRes] at hb'
      | some r =>
        simp only
        cases r with
        | none => cases lr <;> simp_all [SimRes, StepRes]
        | some r =>
          cases r with
          | error e => cases lr with
            | none => simp [SimRes] at hb'
            | some x => cases x <;> simp_all [SimRes, StepRes]
          | ok t => cases lr with
            | none => simp [SimRes] at hb'
            | some x => cases x with
              | error e => simp [SimRes] at hb'
              | ok t' => simp only [SimRes] at hb'; exact hb'
    · -- delimiter check first
      simp only [hp, if_true] at h
      have hu := update_sim s
      rcases hus : s.updateSeqDelimiters with ⟨ur, s1⟩
      rw [hus] at h hu
      simp only at hu
      have hadv : (toLazy s).advance =
          (match (toLazy s).updateSeqDelimiters with
            | (.error e, s') => (some (.error (.err e)), { s' with hardBreak := true })
            | (.ok (some tok), s') => (some (.ok (.tok tok)), s')
            | (.ok none, s') => s'.advanceBody) := by
        unfold LState.advance
        have h1 : (toLazy s).hardBreak = false := by simp [toLazy, hb]
        have h2 : (toLazy s).peeked = none := rfl
        have h3 : (toLazy s).delimiterCheckPending = true := by simp [toLazy, hp]
        simp only [h1, h2, h3, Bool.false_eq_true, if_false, if_true]
        rfl
      unfold RState.next LState.nextOwned
      rw [hadv, hu]
      simp only [hb, hp, Bool.false_eq_true, if_false, if_true, hus]
      cases ur with
      | error e => simp [StepRes, errRel]
      | ok o =>
        cases o with
        | some tok =>
          rcases update_tok s tok s1 hus with rfl | rfl <;>
            simp [StepRes, LTok.intoOwned, normTok, toLazy]
        | none =>
          simp only at h ⊢
          have hb' := body_sim s1 h
          have hs1 : s1.delimiterCheckPending = false ∧ s1.hardBreak = false := by
            unfold RState.updateSeqDelimiters at hus
            repeat' (first | split at hus | dsimp only at hus)
            all_goals first
              | (injection hus with h1 h2; subst h2; exact ⟨rfl, hb⟩)
              | (injection hus with h1 h2; injection h1 with h1; cases h1; done)
              | (injection hus with h1 h2; cases h1; done)
          rcases hn : s1.nextBody with ⟨r, s''⟩
          rw [hn] at hb'
          show StepRes _ _ (bodyOwned (toLazy s1))
          rcases hl2 : bodyOwned (toLazy s1) with ⟨lr, l'⟩
          rw [hl2] at hb'
          cases r with
          | none => simp [SimRes] at hb'
          | some r =>
            simp only
            cases r with
            | none => cases lr <;> simp_all [SimRes, StepRes]
            | some r =>
              cases r with
              | error e => cases lr with
                | none => simp [SimRes] at hb'
                | some x => cases x <;> simp_all [SimRes, StepRes]
              | ok t => cases lr with
                | none => simp [SimRes] at hb'
                | some x => cases x with
                  | error e => simp [SimRes] at hb'
                  | ok t' =>
                    simp only [SimRes] at hb'
                    have hdd : s1.dec = s.dec := by have := update_dec s; rw [hus] at this; exact this
                    rw [hdd] at hb'
                    exact hb'
  · -- fused
    unfold RState.next LState.nextOwned LState.advance
    simp [hb, toLazy, StepRes]

/-! ### whole runs -/

/-- the eager run of `readTokens`, instrumented: it stops and raises the flag when the next step is one of
the designed differences -/
def eagerRunA : Nat → RState → List Token × Option RErr × Bool
  | 0, _ => ([], none, false)
  | fuel + 1, s =>
    if AnomStep s then ([], none, true) else
    match s.next (s.dec.rest.length + 1) with
    | (none, _) => ([], none, false)
    | (some (.error e), _) => ([], some e, false)
    | (some (.ok t), s') =>
      let r := eagerRunA fuel s'
      (t :: r.1, r.2.1, r.2.2)

/-- without a flag the instrumented run is the run -/
theorem eagerRunA_eq : ∀ (fuel : Nat) (s : RState), (eagerRunA fuel s).2.2 = false →
    readTokens fuel s = ((eagerRunA fuel s).1, (eagerRunA fuel s).2.1)
  | 0, _, _ => rfl
  | fuel + 1, s, h => by
    unfold eagerRunA at h ⊢
    unfold readTokens
    by_cases ha : AnomStep s = true
    · simp [ha] at h
    · simp only [ha, Bool.false_eq_true, if_false] at h ⊢
      rcases hn : s.next (s.dec.rest.length + 1) with ⟨r, s'⟩
      rw [hn] at h
      cases r with
      | none => rfl
      | some r =>
        cases r with
        | error e => rfl
        | ok t =>
          simp only at h ⊢
          rw [eagerRunA_eq fuel s' h]

def TokRel (t t' : Token) : Prop := ∃ be, t' = normTok be t

def ToksRel : List Token → List Token → Prop
  | [], [] => True
  | t :: r, t' :: r' => TokRel t t' ∧ ToksRel r r'
  | _, _ => False

def EndRel : Option RErr → Option LErr → Prop
  | none, none => True
  | some e, some le => errRel e le
  | _, _ => False

/-- **materialising the lazy tokens gives the eager token run**, for every starting state (hence every
byte string, valid or not), as long as the eager run does not reach one of the three designed differences:
same number of tokens, each the same up to the offset-table representation, same ending (end of data, or
corresponding errors) -/
theorem lazy_run_eq_eager_run : ∀ (fuel : Nat) (s : RState), (eagerRunA fuel s).2.2 = false →
    ToksRel (eagerRunA fuel s).1 (lazyTokens fuel (toLazy s)).1 ∧
    EndRel (eagerRunA fuel s).2.1 (lazyTokens fuel (toLazy s)).2
  | 0, _, _ => by simp [eagerRunA, lazyTokens, ToksRel, EndRel]
  | fuel + 1, s, h => by
    unfold eagerRunA at h ⊢
    unfold lazyTokens
    by_cases ha : AnomStep s = true
    · simp [ha] at h
    · simp only [ha, Bool.false_eq_true, if_false] at h ⊢
      have hst := step_sim s (by simpa using ha) s.dec.rest.length
      rcases hn : s.next (s.dec.rest.length + 1) with ⟨r, s'⟩
      rcases hl : (toLazy s).nextOwned with ⟨lr, l'⟩
      rw [hn, hl] at hst
      rw [hn] at h
      cases r with
      | none =>
        cases lr with
        | none => simp [ToksRel, EndRel]
        | some x => simp [StepRes] at hst
      | some r =>
        cases r with
        | error e =>
          cases lr with
          | none => simp [StepRes] at hst
          | some x =>
            cases x with
            | error le => simpa [ToksRel, EndRel, StepRes] using hst
            | ok t' => simp [StepRes] at hst
        | ok t =>
          cases lr with
          | none => simp [StepRes] at hst
          | some x =>
            cases x with
            | error le => simp [StepRes] at hst
            | ok t' =>
              simp only [StepRes] at hst
              obtain ⟨htok, hl'⟩ := hst
              have htok : TokRel t t' := ⟨_, htok⟩
              subst hl'
              simp only at h ⊢
              have ih := lazy_run_eq_eager_run fuel s' h
              exact ⟨⟨htok, ih.1⟩, ih.2⟩

/-! ### a step that yields a token other than an offset table is never one of the designed differences -/

theorem not_anom_of_body (s : RState) (t : Token) (s' : RState) (hb : s.nextBody = (some (some (.ok t)), s'))
    (hne : ∀ vs, t ≠ .offsetTable vs) : Anom s = false := by
  cases ha : Anom s
  · rfl
  · exfalso
    unfold Anom at ha
    unfold RState.nextBody at hb
    cases hs : s.inSequence
    · simp only [hs, Bool.false_eq_true, if_false] at ha hb
      rcases hst : s.seqDelimiters with _ | ⟨⟨i, l, p, b⟩, rest⟩
      all_goals (try (cases i <;> cases p))
      all_goals (simp only [hst] at ha hb)
      -- plain top: the only anomaly is the stray delimiter, which yields no token
      all_goals first
        | (cases hlh : s.lastHeader with
            | some header => simp [hlh] at ha
            | none =>
              simp only [hlh] at ha hb
              rcases hd : s.dec.decodeHeader with e | ⟨hh, d⟩
              · simp [hd] at ha
              · simp only [hd, Bool.and_eq_true, bne_iff_ne, ne_eq, beq_iff_eq, List.isEmpty_iff] at ha hb
                obtain ⟨⟨h1, h2⟩, h3⟩ := ha
                simp [h1, h2, h3] at hb)
        | (-- pixel data item
            simp only [Bool.and_eq_true, bne_iff_ne, ne_eq, Bool.not_eq_true'] at ha
            obtain ⟨hu, hag⟩ := ha
            unfold itemValueAgrees at hag
            simp only [hu, if_false] at hb
            by_cases ho : s.offsetTableNext = true
            · simp only [ho, if_true] at hb
              rcases hr : rdMany (rd32 s.dec.ts.bigEndian) (l / 4) s.dec.rest with _ | ⟨vs, r⟩
              · simp [hr] at hb
              · simp only [hr] at hb
                injection hb with h1 h2
                injection h1 with h1; injection h1 with h1; injection h1 with h1
                exact hne vs h1.symm
            · simp [ho] at hag)
    · simp only [hs, if_true] at ha hb
      rcases hd : s.dec.decodeItemHeader with e | ⟨ih, d⟩
      · simp only [hd] at ha hb
        cases e <;> simp at ha
        rcases hst : s.seqDelimiters with _ | ⟨t0, rest⟩
        · simp [hst] at ha
        · simp only [hst] at ha hb
          simp [ha] at hb
      · simp [hd] at ha

/-- from a successful eager step (for every loop fuel) that yields anything but an offset table: the step
is none of the designed differences -/
theorem calm_of_next (s : RState) (t : Token) (s' : RState) (h : s.next 1 = (some (.ok t), s'))
    (hne : ∀ vs, t ≠ .offsetTable vs) : AnomStep s = false := by
  unfold AnomStep
  unfold RState.next at h
  cases hb : s.hardBreak
  · simp only [hb, Bool.false_eq_true, if_false] at h
    simp only [Bool.not_false, Bool.true_and]
    cases hp : s.delimiterCheckPending
    · simp only [hp, Bool.false_eq_true, if_false] at h ⊢
      rcases hn : s.nextBody with ⟨r, s''⟩
      rw [hn] at h
      cases r with
      | none => simp [RState.next] at h
      | some r =>
        simp only at h
        injection h with h1 h2
        subst h1; subst h2
        exact not_anom_of_body s t s'' hn hne
    · simp only [hp, if_true] at h ⊢
      rcases hus : s.updateSeqDelimiters with ⟨ur, s1⟩
      rw [hus] at h
      cases ur with
      | error e => rfl
      | ok o =>
        cases o with
        | some tok => rfl
        | none =>
          simp only at h ⊢
          rcases hn : s1.nextBody with ⟨r, s''⟩
          rw [hn] at h
          cases r with
          | none => simp [RState.next] at h
          | some r =>
            simp only at h
            injection h with h1 h2
            subst h1; subst h2
            exact not_anom_of_body s1 t s'' hn hne
  · simp [hb]

end Dicom.LE
