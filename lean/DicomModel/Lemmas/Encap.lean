import DicomModel.Model.Encap
/-! Helper lemmas for C18 (and C19): chunking, ceil division, prefix offsets, the gather loop. -/
namespace Dicom.Encap

theorem chunksExact_length (sz n : Nat) (bs : Bytes) : (chunksExact sz n bs).length = n := by
  induction n generalizing bs with
  | zero => rfl
  | succ n ih => simp [chunksExact, ih]

theorem chunksExact_mem_len {sz n : Nat} {bs : Bytes} (h : sz * n ≤ bs.length) :
    ∀ f ∈ chunksExact sz n bs, f.length = sz := by
  induction n generalizing bs with
  | zero => intro f hf; simp [chunksExact] at hf
  | succ n ih =>
    intro f hf
    have hmul : sz * (n + 1) = sz * n + sz := Nat.mul_succ sz n
    simp only [chunksExact, List.mem_cons] at hf
    rcases hf with rfl | hf
    · simp only [List.length_take]; omega
    · exact ih (bs := bs.drop sz) (by simp only [List.length_drop]; omega) f hf

theorem chunksExact_flatten {sz n : Nat} {bs : Bytes} (h : sz * n ≤ bs.length) :
    (chunksExact sz n bs).flatten = bs.take (sz * n) := by
  induction n generalizing bs with
  | zero => simp [chunksExact]
  | succ n ih =>
    have hmul : sz * (n + 1) = sz + sz * n := by rw [Nat.mul_succ, Nat.add_comm]
    simp only [chunksExact, List.flatten_cons]
    rw [ih (bs := bs.drop sz) (by simp only [List.length_drop]; omega), hmul, List.take_add]

/-- ceil division: the smallest multiple of `sz` that holds `L` bytes -/
theorem divCeil_bounds (L sz : Nat) (h : 0 < sz) :
    L ≤ sz * divCeil L sz ∧ sz * divCeil L sz < L + sz := by
  unfold divCeil
  have h1 := Nat.div_add_mod (L + sz - 1) sz
  have h2 := Nat.mod_lt (L + sz - 1) h
  constructor <;> omega

theorem effSize_even {len fs sz : Nat} (h : effSize len fs = .ok sz) : sz % 2 = 0 := by
  unfold effSize at h
  simp only at h
  generalize (if fs = 0 then len % (u32Max + 1) else fs) = x at h
  by_cases h1 : x % 2 = 0
  · rw [if_pos h1] at h
    simp only [Outcome.ok.injEq] at h
    omega
  · rw [if_neg h1] at h
    by_cases h2 : x + 1 ≤ u32Max
    · rw [if_pos h2] at h
      simp only [Outcome.ok.injEq] at h
      omega
    · rw [if_neg h2] at h
      cases h

/-- normal form of `Fragments::new` once the effective size is known and non-zero -/
theorem fragmentsNew_eq {data : Bytes} {fs sz : Nat} (h : effSize data.length fs = .ok sz)
    (hsz : sz ≠ 0) :
    fragmentsNew data fs = .ok (chunksExact sz (divCeil data.length sz)
      (data ++ List.replicate (sz * divCeil data.length sz - data.length) 0)) := by
  have hb := divCeil_bounds data.length sz (Nat.pos_of_ne_zero hsz)
  unfold fragmentsNew
  simp only [h, hsz, if_false]
  by_cases hgt : sz * divCeil data.length sz > data.length
  · simp only [hgt, if_true, List.length_append, List.length_replicate]
    have : data.length + (sz * divCeil data.length sz - data.length) = sz * divCeil data.length sz := by omega
    rw [this, Nat.mul_div_cancel_left _ (Nat.pos_of_ne_zero hsz)]
  · simp only [hgt, if_false]
    have e : sz * divCeil data.length sz = data.length := by omega
    have : sz * divCeil data.length sz - data.length = 0 := by omega
    rw [this]
    simp only [List.replicate_zero, List.append_nil]
    conv => lhs; rw [← e, Nat.mul_div_cancel_left _ (Nat.pos_of_ne_zero hsz)]

/-! ### prefix offsets -/

theorem prefixOffsets_length (off : Nat) (frames : List (List Bytes)) :
    (prefixOffsets off frames).length = frames.length := by
  induction frames generalizing off with
  | nil => rfl
  | cons fr rest ih => simp [prefixOffsets, ih]

/-- entry `i` is the sum of the sizes (8 + length per fragment) of all earlier frames -/
theorem prefixOffsets_get (off : Nat) (frames : List (List Bytes)) (i : Nat) (h : i < frames.length) :
    (prefixOffsets off frames)[i]? = some (off + ((frames.take i).map frameLen).sum) := by
  induction frames generalizing off i with
  | nil => simp at h
  | cons fr rest ih =>
    cases i with
    | zero => simp [prefixOffsets]
    | succ i =>
      simp only [prefixOffsets, List.getElem?_cons_succ, List.take_succ_cons, List.map_cons, List.sum_cons]
      rw [ih (off + frameLen fr) i (by simpa using h)]
      simp only [Nat.add_assoc]

theorem fromLoop_table (last : Nat) (frames : List (List Bytes)) (idx cur : Nat)
    (hne : frames ≠ []) (h : idx + frames.length = last + 1) :
    cur :: (fromLoop last idx cur frames).1 = prefixOffsets cur frames := by
  induction frames generalizing idx cur with
  | nil => exact absurd rfl hne
  | cons fr rest ih =>
    cases rest with
    | nil =>
      have : ¬ idx < last := by simp at h; omega
      simp [fromLoop, prefixOffsets, this]
    | cons fr2 rest2 =>
      have hlt : idx < last := by simp at h; omega
      have := ih (idx + 1) (cur + frameLen fr) (by simp) (by simp at h ⊢; omega)
      simp only [fromLoop, hlt, if_true, prefixOffsets, List.cons_append, List.nil_append] at this ⊢
      rw [this]

theorem fromLoop_frags (last : Nat) (frames : List (List Bytes)) (idx cur : Nat) :
    (fromLoop last idx cur frames).2 = frames.flatten := by
  induction frames generalizing idx cur with
  | nil => rfl
  | cons fr rest ih => simp [fromLoop, ih]

/-! ### the default `encode` loop -/

theorem padEven_even (fd : Bytes) : (padEven fd).length % 2 = 0 := by
  unfold padEven
  by_cases h : fd.length % 2 = 1
  · rw [if_pos h]; simp only [List.length_append, List.length_cons, List.length_nil]; omega
  · rw [if_neg h]; omega

theorem padEven_spec (fd : Bytes) : ∃ k, k ≤ 1 ∧ padEven fd = fd ++ List.replicate k 0 := by
  unfold padEven
  by_cases h : fd.length % 2 = 1
  · exact ⟨1, Nat.le_refl 1, by rw [if_pos h]; rfl⟩
  · exact ⟨0, Nat.zero_le 1, by rw [if_neg h]; simp⟩

theorem padEven_of_even {fd : Bytes} (h : fd.length % 2 = 0) : padEven fd = fd := by
  unfold padEven
  have : ¬ fd.length % 2 = 1 := by omega
  rw [if_neg this]

theorem encodeLoop_spec (enc : Nat → Option Bytes) (n frame off : Nat) (ds : List Bytes) (ts : List Nat)
    (h : encodeLoop enc n frame off = some (ds, ts)) :
    ds.length = n ∧ ts = prefixOffsets off (ds.map fun f => [f]) ∧
      ∀ i, i < n → (enc (frame + i)).map padEven = ds[i]? := by
  induction n generalizing frame off ds ts with
  | zero =>
    simp only [encodeLoop, Option.some.injEq, Prod.mk.injEq] at h
    obtain ⟨rfl, rfl⟩ := h
    simp [prefixOffsets]
  | succ n ih =>
    simp only [encodeLoop] at h
    split at h
    · cases h
    · rename_i fd hfd
      split at h
      · cases h
      · rename_i ds' ts' hrec
        simp only [Option.some.injEq, Prod.mk.injEq] at h
        obtain ⟨rfl, rfl⟩ := h
        obtain ⟨h1, h2, h3⟩ := ih (frame + 1) (off + (padEven fd).length + 8) ds' ts' hrec
        refine ⟨by simp [h1], ?_, ?_⟩
        · simp [prefixOffsets, frameLen, h2, Nat.add_assoc]
        · intro i hi
          cases i with
          | zero => simp [hfd]
          | succ i =>
            have := h3 i (by omega)
            simp only [List.getElem?_cons_succ]
            rw [← this]; congr 2; omega

/-! ### attribute store -/

theorem Attrs.get_put (a : Attrs) (t v : Nat) : (a.put t v).get t = some v := by
  simp [Attrs.put, Attrs.get]

/-! ### the gather loop of `frame_pixel_data` -/

theorem frameLen_pos_of_ne_nil {fr : List Bytes} (h : fr ≠ []) : 8 ≤ frameLen fr := by
  cases fr with
  | nil => exact absurd rfl h
  | cons f r => simp only [frameLen, List.map_cons, List.sum_cons]; omega

theorem frameLen_append (a b : List Bytes) : frameLen (a ++ b) = frameLen a + frameLen b := by
  simp [frameLen]

theorem frameLen_cons (f : Bytes) (r : List Bytes) : frameLen (f :: r) = f.length + 8 + frameLen r := by
  simp [frameLen]

/-- fragments that lie before the frame are skipped -/
theorem gather_skip (base : Nat) (next : Option Nat) (pre rest : List Bytes) (off : Nat)
    (hoff : off + frameLen pre = base) (hnext : ∀ n, next = some n → base < n) :
    gather base next off (pre ++ rest) = gather base next base rest := by
  induction pre generalizing off with
  | nil => simp only [frameLen, List.map_nil, List.sum_nil, Nat.add_zero] at hoff; simp [hoff]
  | cons f r ih =>
    rw [frameLen_cons] at hoff
    have hlt : ¬ off ≥ base := by omega
    have ih' := ih (off + f.length + 8) (by omega)
    simp only [List.cons_append, gather, hlt, if_false, List.nil_append]
    cases next with
    | none => simpa using ih'
    | some n =>
      have := hnext n rfl
      have : ¬ off + f.length + 8 ≥ n := by
        have := Nat.zero_le (frameLen r); omega
      simp only [this, if_false]
      exact ih'

/-- all fragments of the frame are taken, and the loop stops at the next frame -/
theorem gather_take (base : Nat) (next : Option Nat) (fr rest : List Bytes) (off : Nat)
    (hoff : base ≤ off) (hne : fr ≠ [])
    (hnext : match next with | some n => off + frameLen fr = n | none => rest = []) :
    gather base next off (fr ++ rest) = fr.flatten := by
  induction fr generalizing off with
  | nil => exact absurd rfl hne
  | cons f r ih =>
    rw [frameLen_cons] at hnext
    have hge : off ≥ base := hoff
    simp only [List.cons_append, gather, hge, if_true, List.flatten_cons]
    cases r with
    | nil =>
      cases next with
      | none =>
        simp only at hnext
        subst hnext
        simp [gather]
      | some n =>
        simp only [frameLen, List.map_nil, List.sum_nil, Nat.add_zero] at hnext
        have : off + f.length + 8 ≥ n := by omega
        simp [this]
    | cons f2 r2 =>
      have ih' := ih (off + f.length + 8) (by omega) (by simp)
      cases next with
      | none =>
        simp only at hnext ih' ⊢
        rw [ih' hnext]
      | some n =>
        simp only at hnext ih' ⊢
        have h8 := frameLen_pos_of_ne_nil (fr := f2 :: r2) (by simp)
        have : ¬ off + f.length + 8 ≥ n := by omega
        simp only [this, if_false]
        rw [ih' (by omega)]

end Dicom.Encap
