import DicomModel.Lemmas.RefReader6
import DicomModel.Lemmas.LazySteps
/-
C06: on the reference encoding of a canonical tree the LAZY reader (every token materialised) yields the
tree's tokens too — by transferring every step of the eager run through the lock-step simulation
(`LE.step_sim`); no step of such a run is one of the designed differences.
-/
set_option linter.unusedSimpArgs false
set_option linter.unusedVariables false
namespace Dicom.Ref
open Dicom.LE

theorem lazy_step_of_stepTo {s s' : RState} {t : Token} (h : StepTo s t s') :
    (toLazy s).nextOwned = (some (.ok (normTok s.dec.ts.bigEndian t)), toLazy s') := by
  have hs := step_sim s h.2.1 0
  rw [h.1 0] at hs
  rcases hl : (toLazy s).nextOwned with ⟨lr, l'⟩
  rw [hl] at hs
  cases lr with
  | none => simp [StepRes] at hs
  | some x =>
    cases x with
    | error e => simp [StepRes] at hs
    | ok t' =>
      simp only [StepRes] at hs
      obtain ⟨h1, h2⟩ := hs
      subst h2; subst h1
      rfl

theorem lazyTokens_of_run {s s' : RState} {toks : List Token} (h : Run s toks s')
    (hend : ∃ l'', (toLazy s').nextOwned = (none, l'')) :
    ∀ fuel, toks.length < fuel → ∃ toks', lazyTokens fuel (toLazy s) = (toks', none) ∧ ToksRel toks toks' := by
  induction h with
  | nil s =>
    intro fuel hf
    cases fuel with
    | zero => simp at hf
    | succ k =>
      obtain ⟨l'', hl⟩ := hend
      exact ⟨[], by simp [lazyTokens, hl], trivial⟩
  | @cons s s1 s2 t ts st _ ih =>
    intro fuel hf
    cases fuel with
    | zero => simp at hf
    | succ k =>
      have h1 := lazy_step_of_stepTo st
      obtain ⟨toks', h3, h4⟩ := ih hend k (by simp at hf; omega)
      refine ⟨normTok s.dec.ts.bigEndian t :: toks', ?_, ⟨⟨s.dec.ts.bigEndian, rfl⟩, h4⟩⟩
      simp only [lazyTokens, h1, h3]

/-- the end of the data set is the end for the lazy reader as well -/
theorem lazy_at_end (ts : Syntax) (dict : Tag → Option VR) (pos : Nat) (p : Bool) :
    ∃ l'', (toLazy (stE ts dict [] pos p [])).nextOwned = (none, l'') := by
  have hcalm : AnomStep (stE ts dict [] pos p []) = false := by
    have hd : (Dec.mk ts dict [] pos).decodeHeader = .error .eof := by
      unfold Dec.decodeHeader
      have : Dicom.decodeHeader ts dict [] = none := by
        cases ts <;> simp [Dicom.decodeHeader, decodeExplicitWith, decodeTag_short]
      simp [this]
    cases p <;> simp [AnomStep, Anom, RState.updateSeqDelimiters, hd]
  obtain ⟨s'', he⟩ := next_at_end ts dict pos p 0
  have hs := step_sim _ hcalm 0
  rw [he] at hs
  rcases hl : (toLazy (stE ts dict [] pos p [])).nextOwned with ⟨lr, l'⟩
  rw [hl] at hs
  cases lr with
  | none => exact ⟨l', rfl⟩
  | some x => simp [StepRes] at hs

/-- the lazy reader on the reference encoding of a canonical tree -/
theorem lazyTokens_ref (ts : Syntax) (dict : Tag → Option VR) (t : Elems)
    (hd : dictOk ts dict = true) (hc : canonElems ts dict t = true) (fuel : Nat) (hf : t.tokens.length < fuel) :
    ∃ toks', lazyTokens fuel (LState.new ts dict (encElems ts t)) = (toks', none) ∧ ToksRel t.tokens toks' := by
  have r := run_elems ts dict hd t hc [] 0 false [] (fun f hf => by simp at hf) trivial
  rw [List.append_nil] at r
  exact lazyTokens_of_run r (lazy_at_end ts dict _ _) fuel hf

/-! ### annotated lazy runs from eager runs -/
open Dicom.LS

theorem lstep_of_stepTo {s s' : RState} {t : Token} (h : StepTo s t s') :
    LStep (toLazy s) (normTok s.dec.ts.bigEndian t) (toLazy s') :=
  lstep_of_nextOwned rfl rfl (by simpa [toLazy] using h.2.2.2) (by simpa [toLazy] using h.2.2.1) (lazy_step_of_stepTo h)

/-- every step of an eager run is an annotated step of the lazy reader (tokens normalised) -/
theorem lrun_of_run {s s' : RState} {toks : List Token} (h : Run s toks s') (ts : Syntax) (hts : s.dec.ts = ts) :
    LRun (toLazy s) (toks.map (normTok ts.bigEndian)) (toLazy s') ∧ s'.dec.ts = ts := by
  induction h with
  | nil s => exact ⟨.nil _, hts⟩
  | @cons s s1 s2 t tl st _ ih =>
    have h1 := lstep_of_stepTo st
    rw [hts] at h1
    obtain ⟨r, e⟩ := ih (st.2.2.1.trans hts)
    exact ⟨.cons h1 r, e⟩

end Dicom.Ref
