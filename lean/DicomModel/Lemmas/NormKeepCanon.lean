import DicomModel.Lemmas.NormKeep
/-
With consistent recorded lengths the length-keeping normal form is canonical; hence the NoChange writer
emits the reference encoding and the reader + builder return the normal form (any depth).
-/
set_option linter.unusedSimpArgs false
namespace Dicom.Norm
open Dicom.C04 Dicom.Ref

theorem tagOf_keep (ts : Syntax) (e : Elem) : tagOf (keepElem ts e) = tagOf e := by cases e <;> rfl

theorem sortedFrom_keep (ts : Syntax) : ∀ (es : Elems) (prev : Tag),
    sortedFrom prev (keepElems ts es) = sortedFrom prev es
  | .nil, _ => rfl
  | .cons e r, prev => by simp only [keepElems, sortedFrom, tagOf_keep, sortedFrom_keep ts r]

theorem sortedElems_keep (ts : Syntax) : ∀ (es : Elems), sortedElems (keepElems ts es) = sortedElems es
  | .nil => rfl
  | .cons e r => by simp only [keepElems, sortedElems, tagOf_keep, sortedFrom_keep]

mutual
theorem canon_keep_elem (ts : Syntax) (dict : Tag → Option VR) : ∀ (e : Elem), WfElem ts dict e →
    LenOkElem ts dict e → canonElem ts dict (keepElem ts e) = true
  | .prim tag vr len v, h, _ => (canon_norm_elem ts dict (.prim tag vr len v) h).1
  | .pix bot frags, h, _ => (canon_norm_elem ts dict (.pix bot frags) h).1
  | .seq tag len items, h, hl => by
    obtain ⟨htag, hpx, hit⟩ := h
    obtain ⟨hlen, hli⟩ := hl
    have c := canon_keep_items ts dict items hit hli
    simp only [keepElem, canonElem, Bool.and_eq_true]
    refine ⟨⟨⟨htag, by simp [hpx]⟩, ?_⟩, c⟩
    rcases hlen with h1 | ⟨h1, h2, h3⟩
    · simp [h1]
    · have : lenTrue len (encItems ts (keepItems ts items)).length = true := by
        unfold lenTrue; simp [← h1, h2]
      rcases h3 with h3 | h3
      · simp [this, h3]
      · simp [this, h3]
theorem canon_keep_items (ts : Syntax) (dict : Tag → Option VR) : ∀ (its : Items), WfItems ts dict its →
    LenOkItems ts dict its → canonItems ts dict (keepItems ts its) = true
  | .nil, _, _ => rfl
  | .cons len es r, h, hl => by
    obtain ⟨hlen, hle, hlr⟩ := hl
    have c1 := canon_keep_elems ts dict es h.1 hle
    have c2 := canon_keep_items ts dict r h.2.2 hlr
    have hs : sortedElems (keepElems ts es) = true := by rw [sortedElems_keep]; exact h.2.1
    have hl' : (len == undefinedLen || lenTrue len (encElems ts (keepElems ts es)).length) = true := by
      rcases hlen with h1 | ⟨h1, h2⟩
      · simp [h1]
      · unfold lenTrue; simp [← h1, h2]
    simp only [keepItems, canonItems, Bool.and_eq_true]
    exact ⟨⟨⟨hl', c1⟩, hs⟩, c2⟩
theorem canon_keep_elems (ts : Syntax) (dict : Tag → Option VR) : ∀ (es : Elems), WfElems ts dict es →
    LenOkElems ts dict es → canonElems ts dict (keepElems ts es) = true
  | .nil, _, _ => rfl
  | .cons e r, h, hl => by
    have c1 := canon_keep_elem ts dict e h.1 hl.1
    have c2 := canon_keep_elems ts dict r h.2 hl.2
    simp [keepElems, canonElems, c1, c2]
end

/-- **write (NoChange) then read**: for every well-formed data set of any depth whose recorded sequence /
item lengths are consistent, the writer that leaves lengths alone succeeds, and reading its output back
yields the length-keeping normal form (same tags, VRs, order, nesting *and recorded lengths*). -/
theorem write_read_keep (ts : Syntax) (dict : Tag → Option VR) (t : Elems)
    (hd : dictOk ts dict = true) (hwf : WfElems ts dict t) (hlen : LenOkElems ts dict t)
    (hsorted : sortedElems t = true) :
    ∃ bs, writeDataset ts .noChange t = .ok bs ∧ readDataset ts dict bs = .ok (keepElems ts t) := by
  have hc := canon_keep_elems ts dict t hwf hlen
  have hs : sortedElems (keepElems ts t) = true := by rw [sortedElems_keep]; exact hsorted
  refine ⟨encElems ts (keepElems ts t), ?_, ?_⟩
  · rw [← write_keep ts dict .noChange t hwf]
    exact writeDataset_ref ts dict .noChange _ hc (Or.inl rfl)
  · unfold readDataset
    have htok := tokens_le_elems ts (keepElems ts t)
    rw [readTokens_ref ts dict _ hd hc _ (by omega)]
    simp only
    rw [buildObject_ref ts dict _ hc hs _ (Nat.lt_succ_self _)]
    simp [elemsOfList_toList]

end Dicom.Norm
