import DicomModel.Model.Json
/-
Lemmas about the DICOM JSON model shared by C23 and C24: tag keys, base64, outcomes.
-/
namespace Dicom.Json

/-! ### outcomes -/

@[simp] theorem Outcome.bind_ok {α β : Type} (a : α) (f : α → Outcome β) : (Outcome.ok a).bind f = f a := rfl
@[simp] theorem Outcome.bind_err {α β : Type} (f : α → Outcome β) : (Outcome.err : Outcome α).bind f = .err := rfl
@[simp] theorem Outcome.bind_panic {α β : Type} (f : α → Outcome β) : (Outcome.panic : Outcome α).bind f = .panic := rfl
@[simp] theorem Outcome.map_ok {α β : Type} (a : α) (f : α → β) : (Outcome.ok a).map f = .ok (f a) := rfl
@[simp] theorem Outcome.map_err {α β : Type} (f : α → β) : (Outcome.err : Outcome α).map f = .err := rfl
@[simp] theorem Outcome.map_panic {α β : Type} (f : α → β) : (Outcome.panic : Outcome α).map f = .panic := rfl

theorem parseVR_vrName (vr : VR) : parseVR (vrName vr) = some vr := by
  cases vr <;> decide

/-! ### tag keys -/

theorem hexUp_upper {x : Nat} (h : x < 16) : isUpperHex (hexUp x) = true := by
  unfold isUpperHex hexUp
  split <;> simp <;> omega

theorem hexUp_lt {x y : Nat} (hx : x < 16) (hy : y < 16) : hexUp x < hexUp y ↔ x < y := by
  unfold hexUp; split <;> split <;> omega

theorem hexUp_eq {x y : Nat} (hx : x < 16) (hy : y < 16) : hexUp x = hexUp y ↔ x = y := by
  unfold hexUp; split <;> split <;> omega

theorem isTagKey_tagKey (t : Nat) : isTagKey (tagKey t) = true := by
  simp [isTagKey, tagKey, hex4, hexUp_upper, Nat.mod_lt]

theorem hex4_lt {x y : Nat} (hxy : x < y) (hy : y < 65536) (r s : Bytes) :
    bytesLt (hex4 x ++ r) (hex4 y ++ s) = true := by
  simp only [hex4, List.cons_append, List.nil_append, bytesLt, Bool.or_eq_true,
    Bool.and_eq_true, decide_eq_true_eq, beq_iff_eq]
  simp only [hexUp_lt (Nat.mod_lt _ (by decide : 16 > 0)) (Nat.mod_lt _ (by decide : 16 > 0)),
    hexUp_eq (Nat.mod_lt _ (by decide : 16 > 0)) (Nat.mod_lt _ (by decide : 16 > 0))]
  have e1 : ∀ n : Nat, n / 256 = n / 16 / 16 := fun n => by rw [Nat.div_div_eq_div_mul]
  have e2 : ∀ n : Nat, n / 4096 = n / 16 / 16 / 16 := fun n => by
    rw [Nat.div_div_eq_div_mul, Nat.div_div_eq_div_mul]
  rw [e1 x, e1 y, e2 x, e2 y]
  omega

theorem hex4_same (x : Nat) (r s : Bytes) :
    bytesLt (hex4 x ++ r) (hex4 x ++ s) = bytesLt r s := by
  simp [hex4, bytesLt]

theorem bytesLt_tagKey {a b : Nat} (hab : a < b) (hb : b < 4294967296) :
    bytesLt (tagKey a) (tagKey b) = true := by
  unfold tagKey
  by_cases h : a / 65536 % 65536 = b / 65536 % 65536
  · rw [h, hex4_same]
    have := hex4_lt (x := a % 65536) (y := b % 65536) (by omega) (by omega) [] []
    simpa using this
  · exact hex4_lt (by omega) (by omega) _ _

/-! ### base64 -/

theorem b64val_char {n : Nat} (h : n < 64) : b64val (b64char n) = some n := by
  have : ∀ m : Fin 64, b64val (b64char m.val) = some m.val := by decide
  exact this ⟨n, h⟩

theorem b64char_ne_pad {n : Nat} (h : n < 64) : b64char n ≠ 61 := by
  have : ∀ m : Fin 64, b64char m.val ≠ 61 := by decide
  exact this ⟨n, h⟩

theorem b64enc_eq_nil {bs : Bytes} : b64enc bs = [] ↔ bs = [] := by
  constructor
  · intro h
    match bs with
    | [] => rfl
    | [_] => simp [b64enc] at h
    | [_, _] => simp [b64enc] at h
    | _ :: _ :: _ :: _ => simp [b64enc] at h
  · intro h; subst h; rfl

/-- decoding an encoding gives the bytes back -/
theorem b64dec_enc : ∀ (bs : Bytes), IsBytes bs → b64dec (b64enc bs) = some bs
  | [], _ => rfl
  | [a], h => by
    have ha : a < 256 := h a (by simp)
    have h1 : a / 4 < 64 := by omega
    have h2 : a % 4 * 16 < 64 := by omega
    simp [b64enc, b64dec, b64last, b64val_char h1, b64val_char h2]
    omega
  | [a, b], h => by
    have ha : a < 256 := h a (by simp)
    have hb : b < 256 := h b (by simp)
    have h1 : a / 4 < 64 := by omega
    have h2 : a % 4 * 16 + b / 16 < 64 := by omega
    have h3 : b % 16 * 4 < 64 := by omega
    simp [b64enc, b64dec, b64last, b64val_char h1, b64val_char h2, b64val_char h3, b64char_ne_pad h3]
    omega
  | a :: b :: c :: r, h => by
    have ha : a < 256 := h a (by simp)
    have hb : b < 256 := h b (by simp)
    have hc : c < 256 := h c (by simp)
    have hr : IsBytes r := fun x hx => h x (by simp [hx])
    have h1 : a / 4 < 64 := by omega
    have h2 : a % 4 * 16 + b / 16 < 64 := by omega
    have h3 : b % 16 * 4 + c / 64 < 64 := by omega
    have h4 : c % 64 < 64 := by omega
    have ih := b64dec_enc r hr
    by_cases hn : r = []
    · subst hn
      simp [b64enc, b64dec, b64last, b64val_char h1, b64val_char h2, b64val_char h3, b64val_char h4,
        b64char_ne_pad h3, b64char_ne_pad h4]
      omega
    · have hne : b64enc r ≠ [] := fun e => hn (b64enc_eq_nil.mp e)
      simp [b64enc, b64dec, hne, ih, b64val_char h1, b64val_char h2, b64val_char h3, b64val_char h4]
      omega

end Dicom.Json
