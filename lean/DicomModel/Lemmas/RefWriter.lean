import DicomModel.Model.RefEncode
import DicomModel.Lemmas.Header
import DicomModel.Props.C03
/-
C02, writer side: on canonical trees the data set writer model (`Writer.writeAll` over the token stream
of the tree, through the stateful encoder `Enc`) produces exactly the bytes of the reference encoder
`Ref.encElems` — with the no-change strategy always, with the default (set-undefined) strategy when
every sequence / item length is undefined.
-/
set_option linter.unusedSimpArgs false
set_option linter.unusedVariables false
namespace Dicom.Ref

/-! ### the two VR tables and header layouts agree -/

theorem toBytes_eq (v : VR) : v.toBytes = vrCode v := by cases v <;> rfl

theorem encLe_contains (v : VR) : Gen.encLeShort.contains v = short16 v := by cases v <;> rfl
theorem encBe_contains (v : VR) : Gen.encBeShort.contains v = short16 v := by cases v <;> rfl
theorem decLe_contains (v : VR) : Gen.decLeShort.contains v = short16 v := by cases v <;> rfl
theorem decBe_contains (v : VR) : Gen.decBeShort.contains v = short16 v := by cases v <;> rfl

theorem tagBytes_eq (be : Bool) (t : Tag) : tagBytes be t = encodeTag be t := rfl

theorem itemHdr_eq (be : Bool) (n : Nat) : itemHdr be n = encodeItemHeader be n := rfl
theorem itemDelim_eq (be : Bool) : itemDelim be = encodeItemDelimiter be := by
  rw [encodeItemDelimiter_eq]; rfl
theorem seqDelim_eq (be : Bool) : seqDelim be = encodeSeqDelimiter be := by
  rw [encodeSeqDelimiter_eq]; rfl

/-- the header encoders of dicom-rs produce the PS3.5 layout -/
theorem encodeHeader_ref (ts : Syntax) (t : Tag) (vr : VR) (len : Nat)
    (hs : ts.explicit = true → short16 vr = true → len < 65536) :
    encodeHeader ts ⟨t, vr, len⟩ = .ok (header ts t vr len, (header ts t vr len).length) := by
  cases ts
  · simp [encodeHeader, header, tagBytes_eq, enc32]
  · have h1 := hs rfl
    cases hv : short16 vr
    · simp only [encodeHeader, encodeExplicitWith, header, tagBytes_eq, encLe_contains, hv, toBytes_eq]
      simp
    · have h2 : ¬ len > 65535 := by have := h1 hv; omega
      simp only [encodeHeader, encodeExplicitWith, header, tagBytes_eq, encLe_contains, hv, toBytes_eq, h2]
      simp
  · have h1 := hs rfl
    cases hv : short16 vr
    · simp only [encodeHeader, encodeExplicitWith, header, tagBytes_eq, encBe_contains, hv, toBytes_eq]
      simp
    · have h2 : ¬ len > 65535 := by have := h1 hv; omega
      simp only [encodeHeader, encodeExplicitWith, header, tagBytes_eq, encBe_contains, hv, toBytes_eq, h2]
      simp

theorem evenLen_id {l : Nat} (h : l % 2 = 0) (h2 : l < 4294967295) : evenLen l = l := by
  unfold evenLen clearBit0; omega

/-- a length field as the canonical form allows it: undefined, or even and below 2^32-1 -/
def LenOk (len : Nat) : Prop := len = undefinedLen ∨ (len % 2 = 0 ∧ len < 4294967295)

theorem enc_elementHeader (e : Enc) (t : Tag) (vr : VR) (len : Nat) (hl : LenOk len)
    (hs : e.ts.explicit = true → short16 vr = true → len < 65536) :
    e.elementHeader ⟨t, vr, len⟩ =
      .ok (e.push (header e.ts t vr len) (header e.ts t vr len).length) := by
  unfold Enc.elementHeader
  have : (if (ElemHeader.mk t vr len).len = undefinedLen then (ElemHeader.mk t vr len)
      else { (ElemHeader.mk t vr len) with len := evenLen (ElemHeader.mk t vr len).len }) = ⟨t, vr, len⟩ := by
    rcases hl with h | ⟨h1, h2⟩
    · simp [h]
    · simp [evenLen_id h1 h2]
  simp only [this, encodeHeader_ref e.ts t vr len hs]

theorem enc_itemHeader (e : Enc) (len : Nat) (hl : LenOk len) :
    e.itemHeader len = e.push (itemHdr e.ts.bigEndian len) 8 := by
  unfold Enc.itemHeader
  rcases hl with h | ⟨h1, h2⟩
  · simp [h, undefinedLen, itemHdr_eq]
  · have : len ≠ 0xFFFFFFFF := by omega
    simp [this, evenLen_id h1 h2, itemHdr_eq]


/-! ### values -/

theorem join5C_eq : ∀ l : List Bytes, join5C l = joinBackslash l
  | [] => rfl
  | [_] => rfl
  | x :: y :: r => by simp [join5C, joinBackslash, join5C_eq (y :: r)]

theorem flatMap_congr' {α : Type} (f g : α → Bytes) : ∀ (l : List α), (∀ a ∈ l, f a = g a) →
    l.flatMap f = l.flatMap g
  | [], _ => rfl
  | a :: r, h => by
    simp only [List.flatMap_cons]
    rw [h a (by simp), flatMap_congr' f g r (fun b hb => h b (by simp [hb]))]

theorem twos16 (v : Int) (h1 : -32768 ≤ v) (h2 : v < 32768) : twos 16 v = unsigned 65536 v := by
  unfold twos unsigned
  have : ((2 ^ 16 : Nat) : Int) = 65536 := by decide
  rw [this]; split <;> omega
theorem twos32 (v : Int) (h1 : -2147483648 ≤ v) (h2 : v < 2147483648) : twos 32 v = unsigned 4294967296 v := by
  unfold twos unsigned
  have : ((2 ^ 32 : Nat) : Int) = 4294967296 := by decide
  rw [this]; split <;> omega
theorem twos64 (v : Int) (h1 : -9223372036854775808 ≤ v) (h2 : v < 9223372036854775808) :
    twos 64 v = unsigned 18446744073709551616 v := by
  unfold twos unsigned
  have : ((2 ^ 64 : Nat) : Int) = 18446744073709551616 := by decide
  rw [this]; split <;> omega

theorem textEncode_plain (s : Bytes) (h : plainText s = true) : textEncode s = some s := by
  unfold textEncode; unfold plainText at h; simp [h]

theorem plain_of_component (s : Bytes) (h : component s = true) : plainText s = true := by
  unfold component at h; unfold plainText
  rw [List.all_eq_true] at h ⊢
  intro c hc; have := h c hc; simp at this ⊢; exact this.1

theorem textEncodeAll_id : ∀ l : List Bytes, l.all component = true → textEncodeAll l = some l
  | [], _ => rfl
  | s :: r, h => by
    simp only [List.all_cons, Bool.and_eq_true] at h
    simp [textEncodeAll, textEncode_plain s (plain_of_component s h.1), textEncodeAll_id r h.2]

/-! ### canonical primitive element, unpacked -/

structure PrimOk (ts : Syntax) (dict : Tag → Option VR) (t : Tag) (vr : VR) (len : Nat) (v : PValue) : Prop where
  tag : tagOk t = true
  notSq : vr ≠ .SQ
  len_eq : len = (value ts.bigEndian v).length
  len_lt : len < 4294967295
  even : len % 2 = 0
  short : ts.explicit = true → short16 vr = true → len < 65536
  dictVr : ts.explicit = false → implicitVr dict t = vr
  fits : if len = 0 then v = .empty else valueFits vr v = true

theorem primOk_of_canon {ts : Syntax} {dict : Tag → Option VR} {t : Tag} {vr : VR} {len : Nat} {v : PValue}
    (h : canonElem ts dict (.prim t vr len v) = true) : PrimOk ts dict t vr len v := by
  simp only [canonElem, lenTrue, Bool.and_eq_true, Bool.or_eq_true, Bool.not_eq_true', beq_iff_eq,
    bne_iff_ne, ne_eq, decide_eq_true_eq] at h
  obtain ⟨⟨⟨⟨⟨⟨h1, h2⟩, h3, h4⟩, h5⟩, h6⟩, h7⟩, h8⟩ := h
  refine ⟨h1, h2, h3, h4, h5, ?_, ?_, ?_⟩
  · intro a b
    rcases h6 with h6 | h6
    · simp [a, b] at h6
    · exact h6
  · intro a
    rcases h7 with h7 | h7
    · simp [a] at h7
    · exact h7
  · split
    · rename_i hz; simpa [hz] using h8
    · rename_i hz; simpa [hz] using h8

theorem tagOk_valid {t : Tag} (h : tagOk t = true) : t.Valid ∧ t.group ≠ 0xFFFE := by
  simp only [tagOk, Bool.and_eq_true, decide_eq_true_eq, bne_iff_ne, ne_eq] at h
  exact ⟨⟨h.1.1, h.1.2⟩, h.2⟩

/-- the stateful encoder's output only: what was appended -/
def Appended (e e' : Enc) (bs : Bytes) : Prop := e'.out = e.out ++ bs ∧ e'.ts = e.ts

theorem push_appended (e : Enc) (bs : Bytes) (n : Nat) : Appended e (e.push bs n) bs := ⟨rfl, rfl⟩

theorem Appended.trans {e e' e'' : Enc} {a b : Bytes} (h1 : Appended e e' a) (h2 : Appended e' e'' b) :
    Appended e e'' (a ++ b) := by
  refine ⟨?_, h2.2.trans h1.2⟩
  rw [h2.1, h1.1, List.append_assoc]

/-- the binary path of `encode_primitive_element` -/
theorem enc_binary (e : Enc) (t : Tag) (vr : VR) (l0 len : Nat) (v : PValue) (bs : Bytes)
    (hv1 : ∀ s, v ≠ .str s) (hv2 : ∀ l, v ≠ .strs l) (hvr : ¬ (vr = .DS ∨ vr = .IS))
    (hcl : v.calculateByteLen = len) (henc : encodePrimitive e.ts.bigEndian v = (bs, len))
    (he : len % 2 = 0) (hlt : len < 4294967295)
    (hs : e.ts.explicit = true → short16 vr = true → len < 65536) :
    ∃ e', e.primitiveElement ⟨t, vr, l0⟩ v = .ok e' ∧ Appended e e' (header e.ts t vr len ++ bs) := by
  unfold Enc.primitiveElement
  split
  · exact absurd rfl (hv1 _)
  · exact absurd rfl (hv2 _)
  · have hm : len % 4294967296 = len := Nat.mod_eq_of_lt (by omega)
    simp only [hvr, if_false, hcl, hm]
    rw [enc_elementHeader e t vr len (Or.inr ⟨he, hlt⟩) hs]
    simp only [henc]
    have : ¬ (len % 2 ≠ 0) := by omega
    simp only [this, if_false]
    exact ⟨_, rfl, (push_appended _ _ _).trans (push_appended _ _ _)⟩

/-! ### what `valueFits` says per variant -/

theorem fits_DS {v : PValue} (h : valueFits .DS v = true) : ∃ l, v = .strs l := by
  cases v <;> first | exact ⟨_, rfl⟩ | (simp [valueFits] at h)
theorem fits_IS {v : PValue} (h : valueFits .IS v = true) : ∃ l, v = .strs l := by
  cases v <;> first | exact ⟨_, rfl⟩ | (simp [valueFits] at h)

theorem fits_strs {vr : VR} {l : List Bytes} (h : valueFits vr (.strs l) = true) : l.all component = true := by
  cases vr <;> first | exact h | (simp [valueFits] at h)
theorem fits_str {vr : VR} {s : Bytes} (h : valueFits vr (.str s) = true) : plainText s = true := by
  cases vr <;> first | exact h | (simp [valueFits] at h)
theorem fits_i16 {vr : VR} {l : List Int} (h : valueFits vr (.i16 l) = true) :
    l.all (fun n => decide (-32768 ≤ n) && decide (n < 32768)) = true := by
  cases vr <;> first | exact h | (simp [valueFits] at h)
theorem fits_i32 {vr : VR} {l : List Int} (h : valueFits vr (.i32 l) = true) :
    l.all (fun n => decide (-2147483648 ≤ n) && decide (n < 2147483648)) = true := by
  cases vr <;> first | exact h | (simp [valueFits] at h)
theorem fits_i64 {vr : VR} {l : List Int} (h : valueFits vr (.i64 l) = true) :
    l.all (fun n => decide (-9223372036854775808 ≤ n) && decide (n < 9223372036854775808)) = true := by
  cases vr <;> first | exact h | (simp [valueFits] at h)
theorem fits_date {vr : VR} {l : List Bytes} (h : valueFits vr (.date l) = true) : False := by
  cases vr <;> simp [valueFits] at h
theorem fits_dateTime {vr : VR} {l : List Bytes} (h : valueFits vr (.dateTime l) = true) : False := by
  cases vr <;> simp [valueFits] at h
theorem fits_time {vr : VR} {l : List Bytes} (h : valueFits vr (.time l) = true) : False := by
  cases vr <;> simp [valueFits] at h
theorem fits_empty {vr : VR} (h : valueFits vr .empty = true) : False := by
  cases vr <;> simp [valueFits] at h

theorem flatMap_len {α : Type} (f : α → Bytes) (k : Nat) (h : ∀ a, (f a).length = k) :
    ∀ l : List α, (l.flatMap f).length = l.length * k
  | [] => by simp
  | a :: r => by simp [List.flatMap_cons, flatMap_len f k h r, h, Nat.add_mul]; omega

/-- `encode_primitive_element` on a canonical element writes the PS3.5 header and value field -/
theorem enc_primitive {ts : Syntax} {dict : Tag → Option VR} (e : Enc) (hts : e.ts = ts)
    {t : Tag} {vr : VR} {len : Nat} {v : PValue} (h : PrimOk ts dict t vr len v) :
    ∃ e', e.primitiveElement ⟨t, vr, len⟩ v = .ok e' ∧
      Appended e e' (header ts t vr len ++ value ts.bigEndian v) := by
  subst hts
  obtain ⟨_, _, hlen, hlt, hev, hsh, _, hfit⟩ := h
  -- DS / IS carry text unless the value is empty
  have hbin : len ≠ 0 → (∀ l, v ≠ .strs l) → ¬ (vr = .DS ∨ vr = .IS) := by
    intro hz hns hvr
    simp only [hz, if_false] at hfit
    rcases hvr with rfl | rfl
    · obtain ⟨l, hl⟩ := fits_DS hfit; exact hns l hl
    · obtain ⟨l, hl⟩ := fits_IS hfit; exact hns l hl
  have hfit' : len ≠ 0 → valueFits vr v = true := fun hz => by simpa [hz] using hfit
  have hz_of : len ≠ 0 ∨ v = .empty := by
    by_cases hz : len = 0
    · right; simpa [hz] using hfit
    · left; exact hz
  cases v with
  | empty =>
    have hz : len = 0 := by simpa [value] using hlen
    subst hz
    by_cases hvr : vr = .DS ∨ vr = .IS
    · unfold Enc.primitiveElement
      simp only [hvr, if_true, Enc.elementAsText]
      rw [enc_elementHeader e t vr 0 (Or.inr ⟨rfl, by decide⟩) (fun _ _ => by decide)]
      exact ⟨_, rfl, by simpa [value] using push_appended e _ _⟩
    · obtain ⟨e', h1, h2⟩ := enc_binary e t vr 0 0 .empty [] (by simp) (by simp) hvr rfl rfl rfl (by decide)
        (fun _ _ => by decide)
      exact ⟨e', h1, by simpa [value] using h2⟩
  | strs l =>
    rcases hz_of with hz | hz
    · have hc := fits_strs (hfit' hz)
      have hl : (joinBackslash l).length = len := by rw [hlen, value, join5C_eq]
      unfold Enc.primitiveElement Enc.textsElement
      simp only [textEncodeAll_id l hc, Enc.headerAndValue]
      have hp : padTo (joinBackslash l) (textPad vr) = joinBackslash l := by
        unfold padTo; rw [hl]; simp; omega
      have hm : len % 4294967296 = len := Nat.mod_eq_of_lt (by omega)
      simp only [hp, hl, hm]
      rw [enc_elementHeader e t vr len (Or.inr ⟨hev, hlt⟩) hsh]
      refine ⟨_, rfl, ?_⟩
      simpa [value, join5C_eq] using (push_appended e _ _).trans (push_appended _ (joinBackslash l) _)
    · cases hz
  | str s =>
    rcases hz_of with hz | hz
    · have hc := fits_str (hfit' hz)
      have hl : s.length = len := by rw [hlen, value]
      unfold Enc.primitiveElement Enc.textElement
      simp only [textEncode_plain s hc, Enc.headerAndValue]
      have hp : padTo s (textPad vr) = s := by
        unfold padTo; rw [hl]; simp; omega
      have hm : len % 4294967296 = len := Nat.mod_eq_of_lt (by omega)
      simp only [hp, hl, hm]
      rw [enc_elementHeader e t vr len (Or.inr ⟨hev, hlt⟩) hsh]
      refine ⟨_, rfl, ?_⟩
      simpa [value] using (push_appended e _ _).trans (push_appended _ s _)
    · cases hz
  | tags l =>
    rcases hz_of with hz | hz
    · have hl : (l.flatMap (tagBytes e.ts.bigEndian)).length = l.length * 4 :=
        flatMap_len _ 4 (by intro a; simp [tagBytes]) l
      exact enc_binary e t vr len len (.tags l) _ (by simp) (by simp) (hbin hz (by simp))
        (by rw [hlen, value, hl]; rfl) (by rw [hlen, value, hl]; rfl) hev hlt hsh
    · cases hz
  | u8 l =>
    rcases hz_of with hz | hz
    · exact enc_binary e t vr len len (.u8 l) _ (by simp) (by simp) (hbin hz (by simp))
        (by rw [hlen, value]; rfl) (by rw [hlen, value]; rfl) hev hlt hsh
    · cases hz
  | u16 l =>
    rcases hz_of with hz | hz
    · have hl : (l.flatMap (enc16 e.ts.bigEndian)).length = l.length * 2 := flatMap_len _ 2 (by simp) l
      exact enc_binary e t vr len len (.u16 l) _ (by simp) (by simp) (hbin hz (by simp))
        (by rw [hlen, value, hl]; rfl) (by rw [hlen, value, hl]; rfl) hev hlt hsh
    · cases hz
  | u32 l =>
    rcases hz_of with hz | hz
    · have hl : (l.flatMap (enc32 e.ts.bigEndian)).length = l.length * 4 := flatMap_len _ 4 (by simp) l
      exact enc_binary e t vr len len (.u32 l) _ (by simp) (by simp) (hbin hz (by simp))
        (by rw [hlen, value, hl]; rfl) (by rw [hlen, value, hl]; rfl) hev hlt hsh
    · cases hz
  | u64 l =>
    rcases hz_of with hz | hz
    · have hl : (l.flatMap (enc64 e.ts.bigEndian)).length = l.length * 8 := flatMap_len _ 8 (by simp) l
      exact enc_binary e t vr len len (.u64 l) _ (by simp) (by simp) (hbin hz (by simp))
        (by rw [hlen, value, hl]; rfl) (by rw [hlen, value, hl]; rfl) hev hlt hsh
    · cases hz
  | f32 l =>
    rcases hz_of with hz | hz
    · have hl : (l.flatMap fun p => enc32 e.ts.bigEndian p.1).length = l.length * 4 := flatMap_len _ 4 (by simp) l
      exact enc_binary e t vr len len (.f32 l) _ (by simp) (by simp) (hbin hz (by simp))
        (by rw [hlen, value, hl]; rfl) (by rw [hlen, value, hl]; rfl) hev hlt hsh
    · cases hz
  | f64 l =>
    rcases hz_of with hz | hz
    · have hl : (l.flatMap fun p => enc64 e.ts.bigEndian p.1).length = l.length * 8 := flatMap_len _ 8 (by simp) l
      exact enc_binary e t vr len len (.f64 l) _ (by simp) (by simp) (hbin hz (by simp))
        (by rw [hlen, value, hl]; rfl) (by rw [hlen, value, hl]; rfl) hev hlt hsh
    · cases hz
  | i16 l =>
    rcases hz_of with hz | hz
    · have hr := fits_i16 (hfit' hz)
      have hc : (l.flatMap fun v => enc16 e.ts.bigEndian (twos 16 v)) =
          l.flatMap fun v => enc16 e.ts.bigEndian (unsigned 65536 v) :=
        flatMap_congr' _ _ l (fun a ha => by
          have := (List.all_eq_true.mp hr) a ha
          simp only [Bool.and_eq_true, decide_eq_true_eq] at this
          rw [twos16 a this.1 this.2])
      have hl : (l.flatMap fun v => enc16 e.ts.bigEndian (unsigned 65536 v)).length = l.length * 2 :=
        flatMap_len _ 2 (by simp) l
      exact enc_binary e t vr len len (.i16 l) _ (by simp) (by simp) (hbin hz (by simp))
        (by rw [hlen, value, hl]; rfl) (by rw [hlen, value, hl, encodePrimitive, hc]) hev hlt hsh
    · cases hz
  | i32 l =>
    rcases hz_of with hz | hz
    · have hr := fits_i32 (hfit' hz)
      have hc : (l.flatMap fun v => enc32 e.ts.bigEndian (twos 32 v)) =
          l.flatMap fun v => enc32 e.ts.bigEndian (unsigned 4294967296 v) :=
        flatMap_congr' _ _ l (fun a ha => by
          have := (List.all_eq_true.mp hr) a ha
          simp only [Bool.and_eq_true, decide_eq_true_eq] at this
          rw [twos32 a this.1 this.2])
      have hl : (l.flatMap fun v => enc32 e.ts.bigEndian (unsigned 4294967296 v)).length = l.length * 4 :=
        flatMap_len _ 4 (by simp) l
      exact enc_binary e t vr len len (.i32 l) _ (by simp) (by simp) (hbin hz (by simp))
        (by rw [hlen, value, hl]; rfl) (by rw [hlen, value, hl, encodePrimitive, hc]) hev hlt hsh
    · cases hz
  | i64 l =>
    rcases hz_of with hz | hz
    · have hr := fits_i64 (hfit' hz)
      have hc : (l.flatMap fun v => enc64 e.ts.bigEndian (twos 64 v)) =
          l.flatMap fun v => enc64 e.ts.bigEndian (unsigned 18446744073709551616 v) :=
        flatMap_congr' _ _ l (fun a ha => by
          have := (List.all_eq_true.mp hr) a ha
          simp only [Bool.and_eq_true, decide_eq_true_eq] at this
          rw [twos64 a this.1 this.2])
      have hl : (l.flatMap fun v => enc64 e.ts.bigEndian (unsigned 18446744073709551616 v)).length = l.length * 8 :=
        flatMap_len _ 8 (by simp) l
      exact enc_binary e t vr len len (.i64 l) _ (by simp) (by simp) (hbin hz (by simp))
        (by rw [hlen, value, hl]; rfl) (by rw [hlen, value, hl, encodePrimitive, hc]) hev hlt hsh
    · cases hz
  | date l =>
    rcases hz_of with hz | hz
    · exact (fits_date (hfit' hz)).elim
    · cases hz
  | dateTime l =>
    rcases hz_of with hz | hz
    · exact (fits_dateTime (hfit' hz)).elim
    · cases hz
  | time l =>
    rcases hz_of with hz | hz
    · exact (fits_time (hfit' hz)).elim
    · cases hz

/-! ### the data set writer, token by token -/

/-- result of some `write` calls: what was appended to the output, the `seq_tokens` stack afterwards;
syntax and strategy never change. (`last_de` is deliberately not part of it.) -/
structure WStep (w w' : Writer) (bs : Bytes) (stack : List SeqTok) : Prop where
  out : w'.enc.out = w.enc.out ++ bs
  ts : w'.enc.ts = w.enc.ts
  stack : w'.seqTokens = stack
  strat : w'.strat = w.strat

/-- feeding `toks` succeeds, appends `bs` and leaves the stack as it was -/
def Writes (w : Writer) (toks : List Token) (bs : Bytes) : Prop :=
  ∃ w', w.writeAll toks = .ok w' ∧ WStep w w' bs w.seqTokens

theorem writeAll_append (w : Writer) (a b : List Token) :
    w.writeAll (a ++ b) = match w.writeAll a with
      | .ok w' => w'.writeAll b
      | .error x => .error x := by
  induction a generalizing w with
  | nil => simp [Writer.writeAll]
  | cons t r ih =>
    simp only [List.cons_append, Writer.writeAll]
    cases w.write t with
    | ok w1 => exact ih w1
    | error x => rfl

theorem Writes.nil (w : Writer) : Writes w [] [] :=
  ⟨w, rfl, ⟨by simp, rfl, rfl, rfl⟩⟩

/-- sequential composition; the second part must hold for whatever writer the first part leaves
(same syntax, strategy and stack) -/
theorem Writes.append {w : Writer} {a b : List Token} {x y : Bytes} (h1 : Writes w a x)
    (h2 : ∀ w' : Writer, w'.enc.ts = w.enc.ts → w'.strat = w.strat → w'.seqTokens = w.seqTokens → Writes w' b y) :
    Writes w (a ++ b) (x ++ y) := by
  obtain ⟨w1, e1, s1⟩ := h1
  obtain ⟨w2, e2, s2⟩ := h2 w1 s1.ts s1.strat s1.stack
  refine ⟨w2, ?_, ?_⟩
  · rw [writeAll_append, e1]; exact e2
  · refine ⟨?_, s2.ts.trans s1.ts, s2.stack.trans s1.stack, s2.strat.trans s1.strat⟩
    rw [s2.out, s1.out, List.append_assoc]

/-- generalisation: a first group of calls that changes the stack, then a group that runs on it -/
theorem step_then {w w1 : Writer} {a b : List Token} {x y : Bytes} {st : List SeqTok}
    (e1 : w.writeAll a = .ok w1) (s1 : WStep w w1 x st)
    {w2 : Writer} {st2 : List SeqTok} (e2 : w1.writeAll b = .ok w2) (s2 : WStep w1 w2 y st2) :
    w.writeAll (a ++ b) = .ok w2 ∧ WStep w w2 (x ++ y) st2 := by
  refine ⟨by rw [writeAll_append, e1]; exact e2, ?_, s2.ts.trans s1.ts, s2.stack, s2.strat.trans s1.strat⟩
  rw [s2.out, s1.out, List.append_assoc]

theorem writeAll_single (w : Writer) (t : Token) : w.writeAll [t] = match w.write t with
    | .ok w' => .ok w'
    | .error x => .error x := by
  simp only [Writer.writeAll]
  cases w.write t <;> rfl

theorem short16_SQ : short16 .SQ = false := rfl
theorem short16_OB : short16 .OB = false := rfl

/-- `SequenceStart` (kept length, or undefined anyway) -/
theorem write_seqStart (w : Writer) (tag : Tag) (len : Nat)
    (hs : w.strat = .noChange ∨ len = undefinedLen) (hl : LenOk len) :
    ∃ w', w.write (.sequenceStart tag len) = .ok w' ∧
      WStep w w' (header w.enc.ts tag .SQ len) (⟨false, len⟩ :: w.seqTokens) := by
  obtain ⟨enc, st, lde, strat⟩ := w
  have hh := enc_elementHeader enc tag .SQ len hl (by simp [short16_SQ])
  cases strat
  · have : len = undefinedLen := by simpa using hs
    subst this
    simp only [Writer.write, Writer.writeImpl, hh]
    exact ⟨_, rfl, rfl, rfl, rfl, rfl⟩
  · simp only [Writer.write, Writer.writeImpl, hh]
    exact ⟨_, rfl, rfl, rfl, rfl, rfl⟩

/-- `SequenceEnd` -/
theorem write_seqEnd (w : Writer) (len : Nat) (rest : List SeqTok) (hst : w.seqTokens = ⟨false, len⟩ :: rest) :
    ∃ w', w.write .sequenceEnd = .ok w' ∧
      WStep w w' (if len = undefinedLen then seqDelim w.enc.ts.bigEndian else []) rest := by
  obtain ⟨enc, st, lde, strat⟩ := w
  simp only at hst
  subst hst
  by_cases h : len = undefinedLen
  · simp only [Writer.write, Writer.writeImpl, h, Bool.false_eq_true, not_false_eq_true, and_self, if_true]
    refine ⟨_, rfl, ?_, rfl, rfl, rfl⟩
    simp [Enc.seqDelimiter, Enc.push, seqDelim_eq]
  · simp only [Writer.write, h, and_false, if_false]
    exact ⟨_, rfl, by simp, rfl, rfl, rfl⟩

/-- `ItemStart` of a data set item (kept length, or undefined anyway) -/
theorem write_itemStart (w : Writer) (len : Nat)
    (hs : w.strat = .noChange ∨ len = undefinedLen) (hl : LenOk len) :
    ∃ w', w.write (.itemStart len) = .ok w' ∧
      WStep w w' (itemHdr w.enc.ts.bigEndian len) (⟨true, len⟩ :: w.seqTokens) := by
  obtain ⟨enc, st, lde, strat⟩ := w
  have hh := enc_itemHeader enc len hl
  cases strat
  · have : len = undefinedLen := by simpa using hs
    subst this
    simp only [Writer.write, Writer.writeImpl, ite_self, hh]
    exact ⟨_, rfl, rfl, rfl, rfl, rfl⟩
  · simp only [Writer.write, Writer.writeImpl, hh]
    exact ⟨_, rfl, rfl, rfl, rfl, rfl⟩

/-- `ItemEnd` -/
theorem write_itemEnd (w : Writer) (len : Nat) (rest : List SeqTok) (hst : w.seqTokens = ⟨true, len⟩ :: rest) :
    ∃ w', w.write .itemEnd = .ok w' ∧
      WStep w w' (if len = undefinedLen then itemDelim w.enc.ts.bigEndian else []) rest ∧ w'.lastDe = w.lastDe := by
  obtain ⟨enc, st, lde, strat⟩ := w
  simp only at hst
  subst hst
  by_cases h : len = undefinedLen
  · simp only [Writer.write, Writer.writeImpl, h, and_self, if_true]
    refine ⟨_, rfl, ⟨?_, rfl, rfl, rfl⟩, rfl⟩
    simp [Enc.itemDelimiter, Enc.push, itemDelim_eq]
  · simp only [Writer.write, h, and_false, if_false]
    exact ⟨_, rfl, ⟨by simp, rfl, rfl, rfl⟩, rfl⟩

end Dicom.Ref
