import DicomModel.Lemmas.CollWhole
/-
C06: the collector on an annotated lazy run over the tokens of a canonical tree — part 2: elements, items,
data sets (mutual induction on the tree).
-/
set_option linter.unusedSimpArgs false
set_option linter.unusedVariables false
namespace Dicom.CW
open Dicom.LE Dicom.LS Dicom.DC Dicom.Ref

mutual
/-- the tree as the collector builds it: the recorded length of every item is lost (undefined) — object
equality of dicom-rs ignores it -/
def cnElem : Elem → Elem
  | .seq t l its => .seq t l (cnItems its)
  | .prim t vr l v => .prim t vr l v
  | .pix b f => .pix b f
def cnItems : Items → Items
  | .nil => .nil
  | .cons _ es r => .cons undefinedLen (cnElems es) (cnItems r)
def cnElems : Elems → Elems
  | .nil => .nil
  | .cons e r => .cons (cnElem e) (cnElems r)
end

theorem cnElem_tag (e : Elem) : (cnElem e).tag = e.tag := by cases e <;> rfl

theorem toList_cn : ∀ es : Elems, toList (cnElems es) = (toList es).map cnElem
  | .nil => rfl
  | .cons e r => by simp [cnElems, toList, toList_cn r]

theorem LRun.ts {l l' : LState} {toks : List Token} (h : LRun l toks l') : l'.dec.ts = l.dec.ts := by
  induction h with
  | nil _ => rfl
  | cons st _ ih => rw [ih, st.ts]

/-- inserting a tag-sorted list into an empty object leaves it as it is -/
theorem foldl_insert_sorted : ∀ (l acc : List Elem), (acc ++ l).Pairwise ELt →
    l.foldl (fun a e => insertElem e a) acc = acc ++ l
  | [], acc, _ => by simp
  | e :: r, acc, h => by
    have hpw := List.pairwise_append.mp h
    have hall : ∀ x ∈ acc, ELt x e := fun x hx => hpw.2.2 x hx e (by simp)
    simp only [List.foldl_cons]
    rw [insert_last e acc hall, foldl_insert_sorted r (acc ++ [e]) (by simpa [List.append_assoc] using h)]
    simp [List.append_assoc]

theorem objectOf_cn (es : Elems) (hs : sortedElems es = true) :
    elemsOfList (objectOf (toList (cnElems es))) = cnElems es := by
  have hp : (toList (cnElems es)).Pairwise ELt := by
    rw [toList_cn]
    have := sorted_pairwise es hs
    rw [List.pairwise_map]
    exact this.imp (fun {a b} hab => by simpa [ELt, cnElem_tag] using hab)
  unfold objectOf
  rw [foldl_insert_sorted _ [] (by simpa using hp)]
  simp [elemsOfList_toList]

/-- peeking a structural token and then taking it -/
theorem peek_of_lstep {l m : LState} {t : Token} (s : LStep l t m) (hs : structural t = true) :
    l.peek = (.ok (some t), { m with peeked := some t }) ∧
    ({ m with peeked := some t } : LState).advance = (some (.ok (.tok t)), m) := by
  have ha := s.tok_inv hs
  obtain ⟨hp, hq, hb, _⟩ := s
  constructor
  · simp [LState.peek, hp, ha]
  · unfold LState.advance
    simp only [hb, Bool.false_eq_true, if_false]
    cases m
    simp_all

theorem tokens_prim_map {ts : Syntax} {dict : Tag → Option VR} {t : Tag} {vr : VR} {len : Nat} {v : PValue}
    (h : PrimOk ts dict t vr len v) (be : Bool) :
    (Elem.tokens (.prim t vr len v)).map (normTok be) = [.elementHeader ⟨t, vr, len⟩, .primitiveValue v] := by
  rw [prim_tokens h]; rfl

mutual
theorem coll_elems (ts : Syntax) (dict : Tag → Option VR) : ∀ (es : Elems), canonElems ts dict es = true →
    ∀ (fuel : Nat) (inItem : Bool) (rest : List Token) (l l' : LState) (st : CState) (acc : List Elem),
    l.dec.ts = ts → LRun l (es.tokens.map (normTok ts.bigEndian) ++ rest) l' → es.tokens.length < fuel →
    ∃ m st', m.dec.ts = ts ∧ LRun m rest l' ∧
      collectElements fuel inItem none none ⟨l, st⟩ acc =
        collectElements (fuel - cnt es) inItem none none ⟨m, st'⟩ (acc ++ toList (cnElems es))
  | .nil, _, fuel, inItem, rest, l, l', st, acc, hts, hr, _ =>
    ⟨l, st, hts, by simpa [Elems.tokens] using hr, by simp [cnt, cnElems, toList]⟩
  | .cons (.prim t vr len v) more, hc, fuel, inItem, rest, l, l', st, acc, hts, hr, hf => by
    simp only [canonElems, Bool.and_eq_true] at hc
    have ok := primOk_of_canon hc.1
    have htok := prim_tokens ok
    simp only [Elems.tokens, htok, List.map_append, List.map_cons, List.map_nil, normTok, List.cons_append,
      List.nil_append, List.append_assoc, List.length_append, List.length_cons, List.length_nil] at hr hf
    obtain ⟨m1, s1, r1⟩ := hr.head
    obtain ⟨m2, s2, r2⟩ := r1.head
    obtain ⟨k, rfl⟩ : ∃ k, fuel = k + 2 := ⟨fuel - 2, by omega⟩
    obtain ⟨hpk, hadv⟩ := peek_of_lstep s1 rfl
    obtain ⟨hh, l0, ha, hv, hd, hl⟩ := s2.value_inv
    have hm2 : ({ l0 with dec := m2.dec } : LState) = m2 := hl.symm
    obtain ⟨m, st', e1, e2, e3⟩ := coll_elems ts dict more hc.2 (k + 1) inItem rest m2 l' .inDataset
      (acc ++ [.prim t vr len v]) (by rw [s2.ts, s1.ts, hts]) r2 (by omega)
    refine ⟨m, st', e1, e2, ?_⟩
    rw [collectElements]
    simp only [hpk, tokTag, stopAt, Bool.or_self, Bool.false_eq_true, if_false]
    have hne : (Token.elementHeader ⟨t, vr, len⟩ = Token.itemEnd) = False := by simp
    simp only [hne, if_false, collectOne, hadv, ha, hv, hm2]
    rw [e3]
    simp [cnt, cnElems, cnElem, toList, List.append_assoc]
  | .cons (.pix bot frags) more, hc, fuel, inItem, rest, l, l', st, acc, hts, hr, hf => by
    simp only [canonElems, Bool.and_eq_true] at hc
    have ok := pixOk_of_canon hc.1
    simp only [Elems.tokens, Elem.tokens, List.map_append, List.map_cons, List.map_nil, normTok, List.cons_append,
      List.nil_append, List.append_assoc, List.length_append, List.length_cons, List.length_nil, norm_frags] at hr hf
    obtain ⟨m1, s1, r1⟩ := hr.head
    obtain ⟨k, rfl⟩ : ∃ k, fuel = k + 2 := ⟨fuel - 2, by omega⟩
    obtain ⟨hpk, hadv⟩ := peek_of_lstep s1 rfl
    have hts1 : m1.dec.ts = ts := by rw [s1.ts, hts]
    obtain ⟨m2, h1, r2⟩ := coll_pix ok ts.bigEndian (more.tokens.map (normTok ts.bigEndian) ++ rest) m1 l'
      (by rw [hts1]) k r1 (by omega)
    have hts2 : m2.dec.ts = ts := by
      -- the decoder's syntax never changes along a run: `m1` and `m2` both run to `l'`
      have e1 := LRun.ts r1
      have e2 := LRun.ts r2
      rw [← e2, e1, hts1]
    obtain ⟨m, st', e1, e2, e3⟩ := coll_elems ts dict more hc.2 (k + 1) inItem rest m2 l' .inPixelData
      (acc ++ [.pix bot frags]) hts2 r2 (by omega)
    refine ⟨m, st', e1, e2, ?_⟩
    rw [collectElements]
    simp only [hpk, tokTag, stopAt, Bool.or_self, Bool.false_eq_true, if_false]
    have hne : (Token.pixelSequenceStart = Token.itemEnd) = False := by simp
    simp only [hne, if_false, collectOne, hadv, h1]
    rw [e3]
    simp [cnt, cnElems, cnElem, toList, List.append_assoc]
  | .cons (.seq tag len items) more, hc, fuel, inItem, rest, l, l', st, acc, hts, hr, hf => by
    simp only [canonElems, Bool.and_eq_true] at hc
    have ok := seqOk_of_canon hc.1
    simp only [Elems.tokens, Elem.tokens, List.map_append, List.map_cons, List.map_nil, normTok, List.cons_append,
      List.nil_append, List.append_assoc, List.length_append, List.length_cons, List.length_nil] at hr hf
    obtain ⟨m1, s1, r1⟩ := hr.head
    obtain ⟨k, rfl⟩ : ∃ k, fuel = k + 2 := ⟨fuel - 2, by omega⟩
    obtain ⟨hpk, hadv⟩ := peek_of_lstep s1 rfl
    have hts1 : m1.dec.ts = ts := by rw [s1.ts, hts]
    obtain ⟨m2, st2, hts2, r2, h1⟩ := coll_items ts dict items ok.items k
      (more.tokens.map (normTok ts.bigEndian) ++ rest) m1 l' .inDataset [] hts1 r1 (by omega)
    obtain ⟨m, st', e1, e2, e3⟩ := coll_elems ts dict more hc.2 (k + 1) inItem rest m2 l' st2
      (acc ++ [.seq tag len (cnItems items)]) hts2 r2 (by omega)
    refine ⟨m, st', e1, e2, ?_⟩
    rw [collectElements]
    simp only [hpk, tokTag, stopAt, Bool.or_self, Bool.false_eq_true, if_false]
    have hne : (Token.sequenceStart tag len = Token.itemEnd) = False := by simp
    simp only [hne, if_false, collectOne, hadv, h1, List.nil_append, itemsOfList_toList]
    rw [e3]
    simp [cnt, cnElems, cnElem, toList, List.append_assoc]
theorem coll_items (ts : Syntax) (dict : Tag → Option VR) : ∀ (its : Items), canonItems ts dict its = true →
    ∀ (fuel : Nat) (rest : List Token) (l l' : LState) (st : CState) (acc : List (Nat × Elems)),
    l.dec.ts = ts → LRun l (its.tokens.map (normTok ts.bigEndian) ++ .sequenceEnd :: rest) l' →
    its.tokens.length < fuel →
    ∃ m st', m.dec.ts = ts ∧ LRun m rest l' ∧
      collectSequence fuel ⟨l, st⟩ acc = .ok (acc ++ itemsToList (cnItems its), ⟨m, st'⟩)
  | .nil, _, fuel, rest, l, l', st, acc, hts, hr, hf => by
    cases fuel with
    | zero => simp at hf
    | succ k =>
      simp only [Items.tokens, List.map_nil, List.nil_append] at hr
      obtain ⟨m, s1, r1⟩ := hr.head
      refine ⟨m, st, by rw [s1.ts, hts], r1, ?_⟩
      simp [collectSequence, lstep_adv s1 rfl, cnItems, itemsToList]
  | .cons len es more, hc, fuel, rest, l, l', st, acc, hts, hr, hf => by
    obtain ⟨ok, hmore⟩ := itemOk_of_canon hc
    simp only [Items.tokens, List.map_append, List.map_cons, normTok, List.cons_append, List.append_assoc,
      List.length_append, List.length_cons] at hr hf
    obtain ⟨m1, s1, r1⟩ := hr.head
    obtain ⟨k, rfl⟩ : ∃ k, fuel = k + 1 := ⟨fuel - 1, by omega⟩
    have hts1 : m1.dec.ts = ts := by rw [s1.ts, hts]
    have hcnt := cnt_le_tokens es ok.elems
    -- the elements of the item, then its end
    obtain ⟨m2, st2, hts2, r2, h1⟩ := coll_elems ts dict es ok.elems k true
      (.itemEnd :: (more.tokens.map (normTok ts.bigEndian) ++ .sequenceEnd :: rest)) m1 l' st [] hts1 r1 (by omega)
    obtain ⟨m3, s3, r3⟩ := r2.head
    obtain ⟨hpk, hadv⟩ := peek_of_lstep s3 rfl
    have hts3 : m3.dec.ts = ts := by rw [s3.ts, hts2]
    obtain ⟨m, st', e1, e2, e3⟩ := coll_items ts dict more hmore k rest m3 l' st2
      (acc ++ [(undefinedLen, cnElems es)]) hts3 r3 (by omega)
    refine ⟨m, st', e1, e2, ?_⟩
    have hstep : collectElements (k - cnt es) true none none ⟨m2, st2⟩ ([] ++ toList (cnElems es)) =
        .ok (toList (cnElems es), ⟨m3, st2⟩) := by
      have : k - cnt es = (k - cnt es - 1) + 1 := by omega
      rw [this, collectElements]
      simp [hpk, hadv]
    rw [collectSequence]
    simp only [lstep_adv s1 rfl, h1, hstep, objectOf_cn es ok.sorted]
    rw [e3]
    simp [cnItems, itemsToList, List.append_assoc]
end

end Dicom.CW
