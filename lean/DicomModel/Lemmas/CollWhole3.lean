import DicomModel.Lemmas.CollWhole2
/-
C06: `read_dataset_to_end` of the collector on the reference encoding of a canonical tree.
-/
set_option linter.unusedSimpArgs false
set_option linter.unusedVariables false
namespace Dicom.CW
open Dicom.LE Dicom.LS Dicom.DC Dicom.Ref

theorem advance_none_of_nextOwned {l l'' : LState} (h : l.nextOwned = (none, l'')) : l.advance = (none, l'') := by
  unfold LState.nextOwned at h
  rcases ha : l.advance with ⟨r, l0⟩
  rw [ha] at h
  cases r with
  | none => simpa using h
  | some x =>
    cases x with
    | error e => simp at h
    | ok t =>
      simp only at h
      cases hi : t.intoOwned l0.dec with
      | error e => simp [hi] at h
      | ok p => simp [hi] at h

theorem LRun.nil_inv {l l' : LState} (h : LRun l [] l') : l = l' := by cases h; rfl

/-- the annotated lazy run over the whole reference encoding of a canonical tree, and its end -/
theorem lrun_ref (ts : Syntax) (dict : Tag → Option VR) (t : Elems)
    (hd : dictOk ts dict = true) (hc : canonElems ts dict t = true) :
    ∃ lend l'', LRun (LState.new ts dict (encElems ts t)) (t.tokens.map (normTok ts.bigEndian)) lend ∧
      lend.advance = (none, l'') ∧ lend.peeked = none := by
  have r := run_elems ts dict hd t hc [] 0 false [] (fun f hf => by simp at hf) trivial
  rw [List.append_nil] at r
  obtain ⟨lr, _⟩ := lrun_of_run r ts rfl
  obtain ⟨l'', he⟩ := lazy_at_end ts dict (0 + (encElems ts t).length) (if elemsNil t then false else true)
  exact ⟨_, l'', lr, advance_none_of_nextOwned he, rfl⟩

/-- **collector = whole file** on conforming input: `read_dataset_to_end` on the encoding of a canonical
data set collects exactly its elements, in order (with the item lengths the collector does not keep) -/
theorem collector_ref (ts : Syntax) (dict : Tag → Option VR) (t : Elems)
    (hd : dictOk ts dict = true) (hc : canonElems ts dict t = true) :
    ∃ c', (Coll.new ts dict (encElems ts t)).readDatasetToEnd ((encElems ts t).length + 2) =
      .ok (toList (cnElems t), c') := by
  obtain ⟨lend, l'', lr, hend, hpk⟩ := lrun_ref ts dict t hd hc
  have hlen := tokens_le_elems ts t
  have hcnt := cnt_le_tokens t hc
  obtain ⟨m, st', _, r2, h1⟩ := coll_elems ts dict t hc ((encElems ts t).length + 2) false [] _ lend .fileMeta []
    rfl (by simpa using lr) (by omega)
  have hm := LRun.nil_inv r2
  subst hm
  unfold Coll.readDatasetToEnd Coll.new
  rw [h1]
  have : (encElems ts t).length + 2 - cnt t = ((encElems ts t).length + 2 - cnt t - 1) + 1 := by omega
  rw [this, collectElements]
  simp [LState.peek, hpk, hend]

end Dicom.CW
