import DicomModel.Model.Collector
/-
C06: the collector's portions. `peek` is idempotent; a portion followed by a further read (with a
stop rule that stops no earlier) is the longer read.
-/
set_option linter.unusedSimpArgs false
set_option linter.unusedVariables false
namespace Dicom.Coll6

/-- after a successful `peek`, peeking again returns the same token and leaves the reader unchanged -/
theorem peek_some_idem {s s' : LState} {t : Token} (h : s.peek = (.ok (some t), s')) :
    s'.peek = (.ok (some t), s') := by
  unfold LState.peek at h
  split at h
  · rename_i t0 hp
    injection h with h1 h2
    subst h2
    simp only [LState.peek, hp]
    exact congrArg (·, s) h1
  · rename_i hp
    split at h
    · cases h
    · cases h
    · rename_i t1 s1 ha
      injection h with h1 h2
      subst h2
      injection h1 with h1; injection h1 with h1; subst h1
      simp [LState.peek]
    · cases h

/-- `advance` returning `None` fuses the reader, with nothing peeked left -/
theorem advance_none {s s' : LState} (hp : s.peeked = none) (h : s.advance = (none, s')) :
    s'.hardBreak = true ∧ s'.peeked = none := by
  unfold LState.advance at h
  split at h
  · rename_i hb
    injection h with _ h2; subst h2
    exact ⟨hb, hp⟩
  · rw [hp] at h
    simp only at h
    have body : ∀ x : LState, x.peeked = none → x.advanceBody = (none, s') → s'.hardBreak = true ∧ s'.peeked = none := by
      intro x hx hb
      unfold LState.advanceBody at hb
      repeat' (first | split at hb | dsimp only at hb)
      all_goals first
        | (injection hb with h1 h2; cases h1; done)
        | (injection hb with h1 h2; subst h2; exact ⟨rfl, hx⟩)
        | (injection hb with h1 h2; subst h2; simp_all [LState.push])
    split at h
    · split at h
      · cases h
      · cases h
      · rename_i sx hu
        refine body sx ?_ h
        unfold LState.updateSeqDelimiters at hu
        repeat' (first | split at hu | dsimp only at hu)
        all_goals first
          | (injection hu with h1 h2; cases h1; done)
          | (injection hu with h1 h2; subst h2; exact hp)
    · exact body s hp h

/-- after `peek` has seen the end, it keeps seeing it -/
theorem peek_none_idem {s s' : LState} (h : s.peek = (.ok none, s')) : s'.peek = (.ok none, s') := by
  unfold LState.peek at h
  split at h
  · cases h
  · rename_i hp
    split at h
    · rename_i s1 ha
      injection h with _ h2; subst h2
      obtain ⟨hb, hq⟩ := advance_none hp ha
      simp [LState.peek, hq, LState.advance, hb]
    · cases h
    · cases h
    · cases h

/-- the second stop rule stops no earlier than the first -/
def StopsLater (ru1 rt1 ru2 rt2 : Option Tag) : Prop :=
  ∀ tag, stopAt ru2 rt2 tag = true → stopAt ru1 rt1 tag = true

/-- **whole ⇒ portions**: if a top-level read under the later rule succeeds, then the read under the
earlier rule succeeds (same fuel) and a further read under the later rule, continuing where the first
stopped and appending to its elements, ends with exactly the elements and the state of the whole read -/
theorem split_whole (ru1 rt1 ru2 rt2 : Option Tag) (hl : StopsLater ru1 rt1 ru2 rt2) :
    ∀ (fuel : Nat) (c : Coll) (acc es : List Elem) (c2 : Coll),
    collectElements fuel false ru2 rt2 c acc = .ok (es, c2) →
    ∃ es1 c1 f2, collectElements fuel false ru1 rt1 c acc = .ok (es1, c1) ∧
      collectElements f2 false ru2 rt2 c1 es1 = .ok (es, c2) := by
  intro fuel
  induction fuel with
  | zero => intro c acc es c2 h; simp [collectElements] at h
  | succ k ih =>
    intro c acc es c2 h
    rw [collectElements] at h ⊢
    rcases hp : c.rd.peek with ⟨r, rd1⟩
    rw [hp] at h
    cases r with
    | error e => simp at h
    | ok o =>
      cases o with
      | none =>
        simp only at h ⊢
        injection h with h; injection h with h1 h2
        refine ⟨acc, { c with rd := rd1 }, 1, rfl, ?_⟩
        rw [collectElements]
        simp only [peek_none_idem hp]
        rw [← h1, ← h2]
      | some tok =>
        simp only at h ⊢
        have hidem := peek_some_idem hp
        by_cases hie : tok = .itemEnd
        · simp [hie] at h
        · simp only [hie, if_false] at h ⊢
          cases htag : tokTag tok with
          | none => simp [htag] at h
          | some tag =>
            simp only [htag] at h ⊢
            by_cases hs2 : stopAt ru2 rt2 tag = true
            · -- the whole read stops here, so does the portion
              simp only [hs2, if_true] at h
              injection h with h; injection h with h1 h2
              simp only [hl tag hs2, if_true]
              refine ⟨acc, { c with rd := rd1 }, 1, rfl, ?_⟩
              rw [collectElements]
              simp only [hidem, hie, if_false, htag, hs2, if_true]
              rw [← h1, ← h2]
            · simp only [hs2, Bool.false_eq_true, if_false] at h
              by_cases hs1 : stopAt ru1 rt1 tag = true
              · -- the portion stops here; the further read does what the whole read does
                simp only [hs1, if_true]
                refine ⟨acc, { c with rd := rd1 }, k + 1, rfl, ?_⟩
                rw [collectElements]
                simp only [hidem, hie, if_false, htag, hs2, Bool.false_eq_true]
                exact h
              · simp only [hs1, Bool.false_eq_true, if_false]
                cases hone : collectOne k tok { c with rd := rd1 } with
                | error e => simp [hone] at h
                | ok p =>
                  obtain ⟨e, c'⟩ := p
                  simp only [hone] at h ⊢
                  exact ih c' (acc ++ [e]) es c2 h

end Dicom.Coll6
