import DicomModel.Lemmas.RefReader5
/-
C02, reader side, part 6: from runs to `readTokens`; the token count is bounded by the byte count.
-/
set_option linter.unusedSimpArgs false
set_option linter.unusedVariables false
namespace Dicom.Ref

theorem readTokens_of_run {s s' : RState} {toks : List Token} (h : Run s toks s')
    (hend : ∀ fuel, ∃ s'', s'.next (fuel + 1) = (none, s'')) :
    ∀ fuel, toks.length < fuel → readTokens fuel s = (toks, none) := by
  induction h with
  | nil s =>
    intro fuel hf
    cases fuel with
    | zero => simp at hf
    | succ k =>
      obtain ⟨s'', hs⟩ := hend s.dec.rest.length
      simp [readTokens, hs]
  | @cons s s1 s2 t ts st _ ih =>
    intro fuel hf
    cases fuel with
    | zero => simp at hf
    | succ k =>
      have := st.1 s.dec.rest.length
      simp only [readTokens, this]
      rw [ih hend k (by simp at hf; omega)]

/-- at the end of the input, outside any sequence, `next()` returns `None` -/
theorem next_at_end (ts : Syntax) (dict : Tag → Option VR) (pos : Nat) (p : Bool) (fuel : Nat) :
    ∃ s'', (stE ts dict [] pos p []).next (fuel + 1) = (none, s'') := by
  obtain ⟨s', hs⟩ := body_end ts dict pos
  exact ⟨s', next_body _ _ _ fuel rfl (fun _ => trivial) hs⟩

/-! ### number of tokens ≤ number of bytes -/

theorem header_ge8 (ts : Syntax) (t : Tag) (vr : VR) (len : Nat) : 8 ≤ (header ts t vr len).length := by
  cases ts <;> cases h : short16 vr <;> simp [header, tagBytes, h]

theorem fragTokens_le (f : Bytes) : (fragTokens f).length ≤ 3 := by
  unfold fragTokens; split <;> simp
theorem botTokens_le (b : List Nat) : (botTokens b).length ≤ 3 := by
  unfold botTokens; split <;> simp

theorem frags_tokens_le (be : Bool) : ∀ frags : List Bytes,
    (frags.flatMap fragTokens).length ≤ (frags.flatMap (fragment be)).length
  | [] => by simp
  | f :: r => by
    have := frags_tokens_le be r
    have h1 := fragTokens_le f
    simp only [List.flatMap_cons, List.length_append, fragment, itemHdr_length]
    omega

theorem prim_tokens_le (t : Tag) (vr : VR) (len : Nat) (v : PValue) : (Elem.tokens (.prim t vr len v)).length ≤ 2 := by
  simp only [Elem.tokens]
  split
  · simp
  · split
    · split <;> simp
    · simp

mutual
theorem tokens_le_elem (ts : Syntax) : ∀ e : Elem, e.tokens.length ≤ (encElem ts e).length
  | .prim t vr len v => by
    have := prim_tokens_le t vr len v
    have := header_ge8 ts t vr len
    simp only [encElem, List.length_append]; omega
  | .seq tag len items => by
    have := tokens_le_items ts items
    have := header_ge8 ts tag .SQ len
    simp only [Elem.tokens, encElem, List.length_append, List.length_cons, List.length_nil]; omega
  | .pix bot frags => by
    have := header_ge8 ts Tag.pixelData .OB undefinedLen
    have := botTokens_le bot
    have := frags_tokens_le ts.bigEndian frags
    simp only [Elem.tokens, encElem, List.length_append, List.length_cons, List.length_nil, itemHdr_length,
      seqDelim_length]
    omega
theorem tokens_le_items (ts : Syntax) : ∀ its : Items, its.tokens.length ≤ (encItems ts its).length
  | .nil => by simp [Items.tokens]
  | .cons len es rest => by
    have := tokens_le_elems ts es
    have := tokens_le_items ts rest
    simp only [Items.tokens, encItems, List.length_append, List.length_cons, itemHdr_length]; omega
theorem tokens_le_elems (ts : Syntax) : ∀ es : Elems, es.tokens.length ≤ (encElems ts es).length
  | .nil => by simp [Elems.tokens]
  | .cons e rest => by
    have := tokens_le_elem ts e
    have := tokens_le_elems ts rest
    simp only [Elems.tokens, encElems, List.length_append]; omega
end

/-- the reader model on the reference encoding of a canonical tree yields the tree's tokens (with the
recorded lengths) and ends without error -/
theorem readTokens_ref (ts : Syntax) (dict : Tag → Option VR) (t : Elems)
    (hd : dictOk ts dict = true) (hc : canonElems ts dict t = true) (fuel : Nat) (hf : t.tokens.length < fuel) :
    readTokens fuel (RState.new ts dict (encElems ts t)) = (t.tokens, none) := by
  have r := run_elems ts dict hd t hc [] 0 false [] (fun f hf => by simp at hf) trivial
  rw [List.append_nil] at r
  exact readTokens_of_run r (fun fuel => next_at_end ts dict _ _ fuel) fuel hf

end Dicom.Ref
