import DicomModel.Lemmas.NormTree
/-
The normal form of a well-formed data set is canonical (Model/RefEncode.lean) with all sequence / item
lengths undefined — hence the reader / builder theorems proved for canonical trees (Props/C02, codec3's
Lemmas/Ref*.lean) apply to what the writer wrote for the ORIGINAL data set.
-/
set_option linter.unusedSimpArgs false
namespace Dicom.Norm
open Dicom.C04 Dicom.Ref

theorem short16_iff (vr : VR) : Ref.short16 vr = true ↔ vr ∈ C03.ps35 := by cases vr <;> decide

theorem tagOf_norm (ts : Syntax) (e : Elem) : Ref.tagOf (normElem ts e) = Ref.tagOf e := by
  cases e <;> rfl

theorem sortedFrom_norm (ts : Syntax) : ∀ (es : Elems) (prev : Tag),
    Ref.sortedFrom prev (normElems ts es) = Ref.sortedFrom prev es
  | .nil, _ => rfl
  | .cons e r, prev => by
    simp only [normElems, Ref.sortedFrom, tagOf_norm, sortedFrom_norm ts r]

theorem sortedElems_norm (ts : Syntax) : ∀ (es : Elems), Ref.sortedElems (normElems ts es) = Ref.sortedElems es
  | .nil => rfl
  | .cons e r => by simp only [normElems, Ref.sortedElems, tagOf_norm, sortedFrom_norm]

theorem padTo_bytes {f : Bytes} (h : ∀ b ∈ f, b < 256) : ∀ b ∈ padTo f 0, b < 256 := by
  intro b hb
  unfold padTo at hb
  split at hb
  · rcases List.mem_append.mp hb with h1 | h1
    · exact h b h1
    · simp at h1; omega
  · exact h b hb

mutual
theorem canon_norm_elem (ts : Syntax) (dict : Tag → Option VR) : ∀ (e : Elem), WfElem ts dict e →
    Ref.canonElem ts dict (normElem ts e) = true ∧ Ref.allUndefElem (normElem ts e) = true
  | .prim tag vr len v, h => by
    obtain ⟨htag, _, hv, hf, himp⟩ := h
    have hrv := refValue_norm ts.bigEndian vr v hv
    have heven := paddedValue_even ts.bigEndian vr v
    refine ⟨?_, rfl⟩
    simp only [normElem, Ref.canonElem, Bool.and_eq_true]
    refine ⟨⟨⟨⟨⟨⟨htag, ?_⟩, ?_⟩, ?_⟩, ?_⟩, ?_⟩, ?_⟩
    · simp [hv.1]
    · unfold Ref.lenTrue; rw [hrv]; simp [hf.1]
    · simp [heven]
    · by_cases hx : ts.explicit = true ∧ Ref.short16 vr = true
      · have := hf.2 hx.1 ((short16_iff vr).mp hx.2)
        simp [hx.1, hx.2]; omega
      · have : (ts.explicit && Ref.short16 vr) = false := by
          cases h1 : ts.explicit <;> cases h2 : Ref.short16 vr <;> simp_all
        simp [this]
    · rcases himp with h1 | h1
      · simp [h1]
      · simp [h1]
    · by_cases h0 : paddedValue ts.bigEndian vr v = []
      · rw [norm_empty h0, h0]; rfl
      · have hl : (paddedValue ts.bigEndian vr v).length ≠ 0 := fun hh => h0 (List.length_eq_zero_iff.mp hh)
        rw [if_neg hl]
        exact valueFits_norm ts.bigEndian vr v hv h0
  | .seq tag len items, h => by
    obtain ⟨htag, hpx, hit⟩ := h
    obtain ⟨c, u⟩ := canon_norm_items ts dict items hit
    refine ⟨?_, by simp [normElem, Ref.allUndefElem, u]⟩
    simp only [normElem, Ref.canonElem, Bool.and_eq_true]
    refine ⟨⟨⟨htag, by simp [hpx]⟩, by simp⟩, c⟩
  | .pix bot frags, h => by
    obtain ⟨hb, ho, hf⟩ := h
    refine ⟨?_, rfl⟩
    simp only [normElem, Ref.canonElem, Bool.and_eq_true]
    refine ⟨⟨by simp [hb], all_of_forall _ _ (fun o ho' => by simpa using ho o ho')⟩, ?_⟩
    apply all_of_forall
    intro f hfm
    obtain ⟨g, hg, rfl⟩ := List.mem_map.mp hfm
    obtain ⟨hl, hbytes⟩ := hf g hg
    have h1 := padTo_even g 0
    have h2 : (padTo g 0).length < 4294967295 := by rw [padTo_length]; unfold evenUp; omega
    have h3 := padTo_bytes hbytes
    simp only [Bool.and_eq_true]
    exact ⟨⟨by simp [h1], by simp [h2]⟩, all_of_forall _ _ (fun b hb' => by simpa using h3 b hb')⟩
theorem canon_norm_items (ts : Syntax) (dict : Tag → Option VR) : ∀ (its : Items), WfItems ts dict its →
    Ref.canonItems ts dict (normItems ts its) = true ∧ Ref.allUndefItems (normItems ts its) = true
  | .nil, _ => ⟨rfl, rfl⟩
  | .cons len es r, h => by
    obtain ⟨c1, u1⟩ := canon_norm_elems ts dict es h.1
    obtain ⟨c2, u2⟩ := canon_norm_items ts dict r h.2.2
    have hs : Ref.sortedElems (normElems ts es) = true := by rw [sortedElems_norm]; exact h.2.1
    exact ⟨by simp [normItems, Ref.canonItems, c1, c2, hs], by simp [normItems, Ref.allUndefItems, u1, u2]⟩
theorem canon_norm_elems (ts : Syntax) (dict : Tag → Option VR) : ∀ (es : Elems), WfElems ts dict es →
    Ref.canonElems ts dict (normElems ts es) = true ∧ Ref.allUndefElems (normElems ts es) = true
  | .nil, _ => ⟨rfl, rfl⟩
  | .cons e r, h => by
    obtain ⟨c1, u1⟩ := canon_norm_elem ts dict e h.1
    obtain ⟨c2, u2⟩ := canon_norm_elems ts dict r h.2
    exact ⟨by simp [normElems, Ref.canonElems, c1, c2], by simp [normElems, Ref.allUndefElems, u1, u2]⟩
end

/-- **write then read**: for every well-formed data set of any nesting depth, in each of the three
uncompressed syntaxes, the default writer succeeds and reading its output back yields exactly the
normal form of the data set. -/
theorem write_read_norm (ts : Syntax) (dict : Tag → Option VR) (t : Elems)
    (hd : Ref.dictOk ts dict = true) (hwf : WfElems ts dict t) (hsorted : Ref.sortedElems t = true) :
    ∃ bs, writeDataset ts .setUndefined t = .ok bs ∧ readDataset ts dict bs = .ok (normElems ts t) := by
  obtain ⟨hc, hu⟩ := canon_norm_elems ts dict t hwf
  have hs : Ref.sortedElems (normElems ts t) = true := by rw [sortedElems_norm]; exact hsorted
  refine ⟨Ref.encElems ts (normElems ts t), ?_, ?_⟩
  · rw [← write_norm ts dict t hwf]
    exact writeDataset_ref ts dict .setUndefined _ hc (Or.inr hu)
  · unfold readDataset
    have htok := tokens_le_elems ts (normElems ts t)
    rw [readTokens_ref ts dict _ hd hc _ (by omega)]
    simp only
    rw [buildObject_ref ts dict _ hc hs _ (Nat.lt_succ_self _)]
    simp [elemsOfList_toList]

end Dicom.Norm
