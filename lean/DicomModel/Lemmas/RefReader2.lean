import DicomModel.Lemmas.RefReader
/-
C02, reader side, part 2: numeric values, and `read_value_preserved` on any canonical element.
-/
set_option linter.unusedSimpArgs false
set_option linter.unusedVariables false
namespace Dicom.Ref

theorem fits_u16 {vr : VR} {l : List Nat} (h : valueFits vr (.u16 l) = true) : ∀ n ∈ l, n < 65536 := by
  cases vr <;> simp [valueFits] at h <;> exact h
theorem fits_u32 {vr : VR} {l : List Nat} (h : valueFits vr (.u32 l) = true) : ∀ n ∈ l, n < 4294967296 := by
  cases vr <;> simp [valueFits] at h <;> exact h
theorem fits_u64 {vr : VR} {l : List Nat} (h : valueFits vr (.u64 l) = true) :
    ∀ n ∈ l, n < 18446744073709551616 := by
  cases vr <;> simp [valueFits] at h <;> exact h
theorem fits_f32 {vr : VR} {l : List (Nat × Bytes)} (h : valueFits vr (.f32 l) = true) :
    ∀ p ∈ l, p.1 < 4294967296 ∧ p.2 = [] := by
  cases vr <;> simp [valueFits] at h <;> exact fun p hp => h p.1 p.2 hp
theorem fits_f64 {vr : VR} {l : List (Nat × Bytes)} (h : valueFits vr (.f64 l) = true) :
    ∀ p ∈ l, p.1 < 18446744073709551616 ∧ p.2 = [] := by
  cases vr <;> simp [valueFits] at h <;> exact fun p hp => h p.1 p.2 hp
theorem fits_i16' {vr : VR} {l : List Int} (h : valueFits vr (.i16 l) = true) :
    ∀ n ∈ l, -32768 ≤ n ∧ n < 32768 := by
  cases vr <;> simp [valueFits] at h <;> exact h
theorem fits_i32' {vr : VR} {l : List Int} (h : valueFits vr (.i32 l) = true) :
    ∀ n ∈ l, -2147483648 ≤ n ∧ n < 2147483648 := by
  cases vr <;> simp [valueFits] at h <;> exact h
theorem fits_i64' {vr : VR} {l : List Int} (h : valueFits vr (.i64 l) = true) :
    ∀ n ∈ l, -9223372036854775808 ≤ n ∧ n < 9223372036854775808 := by
  cases vr <;> simp [valueFits] at h <;> exact h

theorem map_id_of {α : Type} (f : α → α) : ∀ l : List α, (∀ a ∈ l, f a = a) → l.map f = l
  | [], _ => rfl
  | a :: r, h => by simp [h a (by simp), map_id_of f r (fun b hb => h b (by simp [hb]))]

theorem read_u16 (ts : Syntax) (dict : Tag → Option VR) (t : Tag) (vr : VR) (len : Nat) (l : List Nat)
    (rest : Bytes) (pos : Nat) (hvr : valueFits vr (.u16 l) = true) (hlen : len = l.length * 2)
    (hz : len ≠ 0) (hlt : len < 4294967295) :
    (Dec.mk ts dict (l.flatMap (enc16 ts.bigEndian) ++ rest) pos).readValuePreserved ⟨t, vr, len⟩ =
      .ok (.u16 l, ⟨ts, dict, rest, pos + len⟩) := by
  have hund := len_ne_undef hlt
  have key := readNums_ok ts dict pos rest l (enc16 ts.bigEndian) id (· < 65536) (rd16 ts.bigEndian) 2 1 rfl
    (by decide) (fun a r ha => rd16_enc16 _ a ha r) (fits_u16 hvr) .u16 len hlen
  rw [List.map_id] at key
  cases vr <;> simp [valueFits] at hvr <;> simp [Dec.readValuePreserved, hz, hund, key]

theorem read_u32 (ts : Syntax) (dict : Tag → Option VR) (t : Tag) (vr : VR) (len : Nat) (l : List Nat)
    (rest : Bytes) (pos : Nat) (hvr : valueFits vr (.u32 l) = true) (hlen : len = l.length * 4)
    (hz : len ≠ 0) (hlt : len < 4294967295) :
    (Dec.mk ts dict (l.flatMap (enc32 ts.bigEndian) ++ rest) pos).readValuePreserved ⟨t, vr, len⟩ =
      .ok (.u32 l, ⟨ts, dict, rest, pos + len⟩) := by
  have hund := len_ne_undef hlt
  have key := readNums_ok ts dict pos rest l (enc32 ts.bigEndian) id (· < 4294967296) (rd32 ts.bigEndian) 4 2 rfl
    (by decide) (fun a r ha => rd32_enc32 _ a ha r) (fits_u32 hvr) .u32 len hlen
  rw [List.map_id] at key
  cases vr <;> simp [valueFits] at hvr <;> simp [Dec.readValuePreserved, hz, hund, key]

theorem read_u64 (ts : Syntax) (dict : Tag → Option VR) (t : Tag) (vr : VR) (len : Nat) (l : List Nat)
    (rest : Bytes) (pos : Nat) (hvr : valueFits vr (.u64 l) = true) (hlen : len = l.length * 8)
    (hz : len ≠ 0) (hlt : len < 4294967295) :
    (Dec.mk ts dict (l.flatMap (enc64 ts.bigEndian) ++ rest) pos).readValuePreserved ⟨t, vr, len⟩ =
      .ok (.u64 l, ⟨ts, dict, rest, pos + len⟩) := by
  have hund := len_ne_undef hlt
  have key := readNums_ok ts dict pos rest l (enc64 ts.bigEndian) id (· < 18446744073709551616)
    (rd64 ts.bigEndian) 8 3 rfl (by decide) (fun a r ha => rd64_enc64 _ a ha r) (fits_u64 hvr) .u64 len hlen
  rw [List.map_id] at key
  cases vr <;> simp [valueFits] at hvr <;> simp [Dec.readValuePreserved, hz, hund, key]

theorem read_f32 (ts : Syntax) (dict : Tag → Option VR) (t : Tag) (vr : VR) (len : Nat) (l : List (Nat × Bytes))
    (rest : Bytes) (pos : Nat) (hvr : valueFits vr (.f32 l) = true) (hlen : len = l.length * 4)
    (hz : len ≠ 0) (hlt : len < 4294967295) :
    (Dec.mk ts dict ((l.flatMap fun p => enc32 ts.bigEndian p.1) ++ rest) pos).readValuePreserved ⟨t, vr, len⟩ =
      .ok (.f32 l, ⟨ts, dict, rest, pos + len⟩) := by
  have hund := len_ne_undef hlt
  have hf := fits_f32 hvr
  have key := readNums_ok ts dict pos rest l (fun p => enc32 ts.bigEndian p.1) (·.1) (·.1 < 4294967296)
    (rd32 ts.bigEndian) 4 2 rfl (by decide) (fun a r ha => rd32_enc32 _ a.1 ha r) (fun p hp => (hf p hp).1)
    (fun l => .f32 (l.map fun b => (b, []))) len hlen
  have hm : (l.map (·.1)).map (fun b => (b, ([] : Bytes))) = l := by
    rw [List.map_map]
    exact map_id_of _ l (fun p hp => by
      have := (hf p hp).2
      cases p; simp_all)
  simp only [hm] at key
  cases vr <;> simp [valueFits] at hvr <;> simp [Dec.readValuePreserved, hz, hund, key]

theorem read_f64 (ts : Syntax) (dict : Tag → Option VR) (t : Tag) (vr : VR) (len : Nat) (l : List (Nat × Bytes))
    (rest : Bytes) (pos : Nat) (hvr : valueFits vr (.f64 l) = true) (hlen : len = l.length * 8)
    (hz : len ≠ 0) (hlt : len < 4294967295) :
    (Dec.mk ts dict ((l.flatMap fun p => enc64 ts.bigEndian p.1) ++ rest) pos).readValuePreserved ⟨t, vr, len⟩ =
      .ok (.f64 l, ⟨ts, dict, rest, pos + len⟩) := by
  have hund := len_ne_undef hlt
  have hf := fits_f64 hvr
  have key := readNums_ok ts dict pos rest l (fun p => enc64 ts.bigEndian p.1) (·.1) (·.1 < 18446744073709551616)
    (rd64 ts.bigEndian) 8 3 rfl (by decide) (fun a r ha => rd64_enc64 _ a.1 ha r) (fun p hp => (hf p hp).1)
    (fun l => .f64 (l.map fun b => (b, []))) len hlen
  have hm : (l.map (·.1)).map (fun b => (b, ([] : Bytes))) = l := by
    rw [List.map_map]
    exact map_id_of _ l (fun p hp => by
      have := (hf p hp).2
      cases p; simp_all)
  simp only [hm] at key
  cases vr <;> simp [valueFits] at hvr <;> simp [Dec.readValuePreserved, hz, hund, key]

theorem read_i16 (ts : Syntax) (dict : Tag → Option VR) (t : Tag) (vr : VR) (len : Nat) (l : List Int)
    (rest : Bytes) (pos : Nat) (hvr : valueFits vr (.i16 l) = true) (hlen : len = l.length * 2)
    (hz : len ≠ 0) (hlt : len < 4294967295) :
    (Dec.mk ts dict ((l.flatMap fun v => enc16 ts.bigEndian (unsigned 65536 v)) ++ rest) pos).readValuePreserved
        ⟨t, vr, len⟩ = .ok (.i16 l, ⟨ts, dict, rest, pos + len⟩) := by
  have hund := len_ne_undef hlt
  have hf := fits_i16' hvr
  have key := readNums_ok ts dict pos rest l (fun v => enc16 ts.bigEndian (unsigned 65536 v)) (unsigned 65536)
    (fun v => -32768 ≤ v ∧ v < 32768) (rd16 ts.bigEndian) 2 1 rfl (by decide)
    (fun a r ha => rd16_enc16 _ _ (unsigned_lt16 a ha.1 ha.2) r) hf
    (fun l => .i16 (l.map (fromTwos 16))) len hlen
  have hm : (l.map (unsigned 65536)).map (fromTwos 16) = l := by
    rw [List.map_map]
    exact map_id_of _ l (fun p hp => fromTwos16 p (hf p hp).1 (hf p hp).2)
  simp only [hm] at key
  cases vr <;> simp [valueFits] at hvr <;> simp [Dec.readValuePreserved, hz, hund, key]

theorem read_i32 (ts : Syntax) (dict : Tag → Option VR) (t : Tag) (vr : VR) (len : Nat) (l : List Int)
    (rest : Bytes) (pos : Nat) (hvr : valueFits vr (.i32 l) = true) (hlen : len = l.length * 4)
    (hz : len ≠ 0) (hlt : len < 4294967295) :
    (Dec.mk ts dict ((l.flatMap fun v => enc32 ts.bigEndian (unsigned 4294967296 v)) ++ rest) pos).readValuePreserved
        ⟨t, vr, len⟩ = .ok (.i32 l, ⟨ts, dict, rest, pos + len⟩) := by
  have hund := len_ne_undef hlt
  have hf := fits_i32' hvr
  have key := readNums_ok ts dict pos rest l (fun v => enc32 ts.bigEndian (unsigned 4294967296 v))
    (unsigned 4294967296) (fun v => -2147483648 ≤ v ∧ v < 2147483648) (rd32 ts.bigEndian) 4 2 rfl (by decide)
    (fun a r ha => rd32_enc32 _ _ (unsigned_lt32 a ha.1 ha.2) r) hf
    (fun l => .i32 (l.map (fromTwos 32))) len hlen
  have hm : (l.map (unsigned 4294967296)).map (fromTwos 32) = l := by
    rw [List.map_map]
    exact map_id_of _ l (fun p hp => fromTwos32 p (hf p hp).1 (hf p hp).2)
  simp only [hm] at key
  cases vr <;> simp [valueFits] at hvr <;> simp [Dec.readValuePreserved, hz, hund, key]

theorem read_i64 (ts : Syntax) (dict : Tag → Option VR) (t : Tag) (vr : VR) (len : Nat) (l : List Int)
    (rest : Bytes) (pos : Nat) (hvr : valueFits vr (.i64 l) = true) (hlen : len = l.length * 8)
    (hz : len ≠ 0) (hlt : len < 4294967295) :
    (Dec.mk ts dict ((l.flatMap fun v => enc64 ts.bigEndian (unsigned 18446744073709551616 v)) ++ rest)
        pos).readValuePreserved ⟨t, vr, len⟩ = .ok (.i64 l, ⟨ts, dict, rest, pos + len⟩) := by
  have hund := len_ne_undef hlt
  have hf := fits_i64' hvr
  have key := readNums_ok ts dict pos rest l (fun v => enc64 ts.bigEndian (unsigned 18446744073709551616 v))
    (unsigned 18446744073709551616) (fun v => -9223372036854775808 ≤ v ∧ v < 9223372036854775808)
    (rd64 ts.bigEndian) 8 3 rfl (by decide)
    (fun a r ha => rd64_enc64 _ _ (unsigned_lt64 a ha.1 ha.2) r) hf
    (fun l => .i64 (l.map (fromTwos 64))) len hlen
  have hm : (l.map (unsigned 18446744073709551616)).map (fromTwos 64) = l := by
    rw [List.map_map]
    exact map_id_of _ l (fun p hp => fromTwos64 p (hf p hp).1 (hf p hp).2)
  simp only [hm] at key
  cases vr <;> simp [valueFits] at hvr <;> simp [Dec.readValuePreserved, hz, hund, key]

/-- **`read_value_preserved` returns the value of a canonical element**, consuming exactly its value field -/
theorem read_value {ts : Syntax} {dict : Tag → Option VR} {t : Tag} {vr : VR} {len : Nat} {v : PValue}
    (ok : PrimOk ts dict t vr len v) (rest : Bytes) (pos : Nat) :
    (Dec.mk ts dict (value ts.bigEndian v ++ rest) pos).readValuePreserved ⟨t, vr, len⟩ =
      .ok (v, ⟨ts, dict, rest, pos + len⟩) := by
  obtain ⟨_, hsq, hlen, hlt, hev, _, _, hfit⟩ := ok
  by_cases hz : len = 0
  · have hv : v = .empty := by simpa [hz] using hfit
    subst hv
    simp [Dec.readValuePreserved, hz, value]
  · have hf : valueFits vr v = true := by simpa [hz] using hfit
    cases v with
    | empty => exact (fits_empty hf).elim
    | date l => exact (fits_date hf).elim
    | dateTime l => exact (fits_dateTime hf).elim
    | time l => exact (fits_time hf).elim
    | strs l =>
      simp only [value, join5C_eq] at hlen ⊢
      exact read_strs ts dict t vr len l rest pos hf hlen hz hlt
    | str s => exact read_str ts dict t vr len s rest pos hf hlen hz hlt
    | u8 l => exact read_u8 ts dict t vr len l rest pos hf hlen hz hlt
    | tags l =>
      have hl : (l.flatMap (tagBytes ts.bigEndian)).length = l.length * 4 :=
        flatMap_len _ 4 (by intro a; simp [tagBytes]) l
      exact read_tags ts dict t vr len l rest pos hf (by rw [hlen, value, hl]) hz hlt
    | u16 l =>
      have hl : (l.flatMap (enc16 ts.bigEndian)).length = l.length * 2 := flatMap_len _ 2 (by simp) l
      exact read_u16 ts dict t vr len l rest pos hf (by rw [hlen, value, hl]) hz hlt
    | u32 l =>
      have hl : (l.flatMap (enc32 ts.bigEndian)).length = l.length * 4 := flatMap_len _ 4 (by simp) l
      exact read_u32 ts dict t vr len l rest pos hf (by rw [hlen, value, hl]) hz hlt
    | u64 l =>
      have hl : (l.flatMap (enc64 ts.bigEndian)).length = l.length * 8 := flatMap_len _ 8 (by simp) l
      exact read_u64 ts dict t vr len l rest pos hf (by rw [hlen, value, hl]) hz hlt
    | f32 l =>
      have hl : (l.flatMap fun p => enc32 ts.bigEndian p.1).length = l.length * 4 := flatMap_len _ 4 (by simp) l
      exact read_f32 ts dict t vr len l rest pos hf (by rw [hlen, value, hl]) hz hlt
    | f64 l =>
      have hl : (l.flatMap fun p => enc64 ts.bigEndian p.1).length = l.length * 8 := flatMap_len _ 8 (by simp) l
      exact read_f64 ts dict t vr len l rest pos hf (by rw [hlen, value, hl]) hz hlt
    | i16 l =>
      have hl : (l.flatMap fun v => enc16 ts.bigEndian (unsigned 65536 v)).length = l.length * 2 :=
        flatMap_len _ 2 (by simp) l
      exact read_i16 ts dict t vr len l rest pos hf (by rw [hlen, value, hl]) hz hlt
    | i32 l =>
      have hl : (l.flatMap fun v => enc32 ts.bigEndian (unsigned 4294967296 v)).length = l.length * 4 :=
        flatMap_len _ 4 (by simp) l
      exact read_i32 ts dict t vr len l rest pos hf (by rw [hlen, value, hl]) hz hlt
    | i64 l =>
      have hl : (l.flatMap fun v => enc64 ts.bigEndian (unsigned 18446744073709551616 v)).length = l.length * 8 :=
        flatMap_len _ 8 (by simp) l
      exact read_i64 ts dict t vr len l rest pos hf (by rw [hlen, value, hl]) hz hlt

end Dicom.Ref
