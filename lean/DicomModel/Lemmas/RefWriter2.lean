import DicomModel.Lemmas.RefWriter
/-
C02, writer side, part 2: whole trees (mutual induction over elements / items / data sets).
-/
set_option linter.unusedSimpArgs false
set_option linter.unusedVariables false
namespace Dicom.Ref

/-! ### chaining -/

theorem cons_then {w w1 w2 : Writer} {t : Token} {r : List Token} {x y : Bytes} {st1 st2 : List SeqTok}
    (e1 : w.write t = .ok w1) (s1 : WStep w w1 x st1)
    (e2 : w1.writeAll r = .ok w2) (s2 : WStep w1 w2 y st2) :
    w.writeAll (t :: r) = .ok w2 ∧ WStep w w2 (x ++ y) st2 := by
  refine ⟨by simp only [Writer.writeAll, e1]; exact e2, ?_, s2.ts.trans s1.ts, s2.stack, s2.strat.trans s1.strat⟩
  rw [s2.out, s1.out, List.append_assoc]

theorem append_then {w w1 w2 : Writer} {a b : List Token} {x y : Bytes} {st1 st2 : List SeqTok}
    (e1 : w.writeAll a = .ok w1) (s1 : WStep w w1 x st1)
    (e2 : w1.writeAll b = .ok w2) (s2 : WStep w1 w2 y st2) :
    w.writeAll (a ++ b) = .ok w2 ∧ WStep w w2 (x ++ y) st2 :=
  step_then e1 s1 e2 s2

theorem single_then {w w1 : Writer} {t : Token} {x : Bytes} {st1 : List SeqTok}
    (e1 : w.write t = .ok w1) (s1 : WStep w w1 x st1) :
    w.writeAll [t] = .ok w1 ∧ WStep w w1 x st1 := by
  refine ⟨by simp only [Writer.writeAll, e1], s1⟩

/-! ### lengths are even -/

theorem header_length (ts : Syntax) (t : Tag) (vr : VR) (len : Nat) :
    (header ts t vr len).length % 2 = 0 := by
  cases ts <;> cases h : short16 vr <;> simp [header, tagBytes, h]

theorem itemHdr_length (be : Bool) (n : Nat) : (itemHdr be n).length = 8 := by simp [itemHdr, tagBytes]
theorem itemDelim_length (be : Bool) : (itemDelim be).length = 8 := by simp [itemDelim, tagBytes]
theorem seqDelim_length (be : Bool) : (seqDelim be).length = 8 := by simp [seqDelim, tagBytes]

theorem frags_even (be : Bool) : ∀ frags : List Bytes, (frags.all fun f => f.length % 2 == 0 && decide (f.length < 4294967295) && f.all fun b => decide (b < 256)) = true →
    (frags.flatMap (fragment be)).length % 2 = 0
  | [], _ => by simp
  | f :: r, h => by
    simp only [List.all_cons, Bool.and_eq_true, beq_iff_eq] at h
    have := frags_even be r h.2
    simp only [List.flatMap_cons, List.length_append, fragment, itemHdr_length]
    omega

theorem lenTrue_iff {len n : Nat} : lenTrue len n = true ↔ len = n ∧ len < 4294967295 := by
  simp [lenTrue]

mutual
theorem even_elem (ts : Syntax) (dict : Tag → Option VR) : ∀ e : Elem, canonElem ts dict e = true →
    (encElem ts e).length % 2 = 0
  | .prim t vr len v, h => by
    have p := primOk_of_canon h
    have h1 := header_length ts t vr len
    have h2 := p.even
    rw [p.len_eq] at h2
    simp only [encElem, List.length_append]
    omega
  | .seq tag len items, h => by
    simp only [canonElem, Bool.and_eq_true] at h
    have h1 := header_length ts tag .SQ len
    have h2 := even_items ts dict items h.2
    simp only [encElem, List.length_append]
    split
    · rw [seqDelim_length]; omega
    · simp; omega
  | .pix bot frags, h => by
    simp only [canonElem, Bool.and_eq_true] at h
    have h1 := header_length ts Tag.pixelData .OB undefinedLen
    have h2 := frags_even ts.bigEndian frags h.2
    have h3 : (bot.flatMap (enc32 ts.bigEndian)).length = bot.length * 4 := flatMap_len _ 4 (by simp) bot
    simp only [encElem, List.length_append, itemHdr_length, seqDelim_length, h3]
    omega
theorem even_items (ts : Syntax) (dict : Tag → Option VR) : ∀ its : Items, canonItems ts dict its = true →
    (encItems ts its).length % 2 = 0
  | .nil, _ => by simp [encItems]
  | .cons len es rest, h => by
    simp only [canonItems, Bool.and_eq_true] at h
    have h1 := even_elems ts dict es h.1.1.2
    have h2 := even_items ts dict rest h.2
    simp only [encItems, List.length_append, itemHdr_length]
    split
    · rw [itemDelim_length]; omega
    · simp; omega
theorem even_elems (ts : Syntax) (dict : Tag → Option VR) : ∀ es : Elems, canonElems ts dict es = true →
    (encElems ts es).length % 2 = 0
  | .nil, _ => by simp [encElems]
  | .cons e rest, h => by
    simp only [canonElems, Bool.and_eq_true] at h
    have h1 := even_elem ts dict e h.1
    have h2 := even_elems ts dict rest h.2
    simp only [encElems, List.length_append]
    omega
end

/-! ### canonical sequence / item, unpacked -/

structure SeqOk (ts : Syntax) (dict : Tag → Option VR) (tag : Tag) (len : Nat) (items : Items) : Prop where
  tagok : tagOk tag = true
  notPix : tag ≠ Tag.pixelData
  len : len = undefinedLen ∨ (len = (encItems ts items).length ∧ len < 4294967295 ∧
      (ts.explicit = false → implicitVr dict tag = .SQ))
  items : canonItems ts dict items = true

theorem seqOk_of_canon {ts : Syntax} {dict : Tag → Option VR} {tag : Tag} {len : Nat} {items : Items}
    (h : canonElem ts dict (.seq tag len items) = true) : SeqOk ts dict tag len items := by
  simp only [canonElem, Bool.and_eq_true, Bool.or_eq_true, beq_iff_eq, bne_iff_ne, ne_eq, lenTrue_iff] at h
  obtain ⟨⟨⟨h1, h2⟩, h3⟩, h4⟩ := h
  refine ⟨h1, h2, ?_, h4⟩
  rcases h3 with h3 | ⟨⟨h3, h5⟩, h6⟩
  · exact Or.inl h3
  · refine Or.inr ⟨h3, h5, fun hx => ?_⟩
    rcases h6 with h6 | h6
    · simp [hx] at h6
    · exact h6

theorem SeqOk.lenOk {ts : Syntax} {dict : Tag → Option VR} {tag : Tag} {len : Nat} {items : Items}
    (h : SeqOk ts dict tag len items) : LenOk len := by
  rcases h.len with h1 | ⟨h1, h2, _⟩
  · exact Or.inl h1
  · exact Or.inr ⟨by rw [h1]; exact even_items ts dict items h.items, h2⟩

structure ItemOk (ts : Syntax) (dict : Tag → Option VR) (len : Nat) (es : Elems) : Prop where
  len : len = undefinedLen ∨ (len = (encElems ts es).length ∧ len < 4294967295)
  elems : canonElems ts dict es = true
  sorted : sortedElems es = true

theorem itemOk_of_canon {ts : Syntax} {dict : Tag → Option VR} {len : Nat} {es : Elems} {rest : Items}
    (h : canonItems ts dict (.cons len es rest) = true) :
    ItemOk ts dict len es ∧ canonItems ts dict rest = true := by
  simp only [canonItems, Bool.and_eq_true, Bool.or_eq_true, beq_iff_eq, lenTrue_iff] at h
  obtain ⟨⟨⟨h1, h2⟩, h3⟩, h4⟩ := h
  exact ⟨⟨h1, h2, h3⟩, h4⟩

theorem ItemOk.lenOk {ts : Syntax} {dict : Tag → Option VR} {len : Nat} {es : Elems}
    (h : ItemOk ts dict len es) : LenOk len := by
  rcases h.len with h1 | ⟨h1, h2⟩
  · exact Or.inl h1
  · exact Or.inr ⟨by rw [h1]; exact even_elems ts dict es h.elems, h2⟩

structure PixOk (bot : List Nat) (frags : List Bytes) : Prop where
  botLen : 4 * bot.length < 4294967295
  bot : ∀ o ∈ bot, o < 4294967296
  frags : ∀ f ∈ frags, f.length % 2 = 0 ∧ f.length < 4294967295

theorem pixOk_of_canon {ts : Syntax} {dict : Tag → Option VR} {bot : List Nat} {frags : List Bytes}
    (h : canonElem ts dict (.pix bot frags) = true) : PixOk bot frags := by
  simp only [canonElem, Bool.and_eq_true, decide_eq_true_eq, List.all_eq_true, beq_iff_eq] at h
  obtain ⟨⟨h1, h2⟩, h3⟩ := h
  exact ⟨h1, h2, fun f hf => ⟨(h3 f hf).1.1, (h3 f hf).1.2⟩⟩

/-! ### a primitive element -/

theorem prim_tokens {ts : Syntax} {dict : Tag → Option VR} {t : Tag} {vr : VR} {len : Nat} {v : PValue}
    (h : PrimOk ts dict t vr len v) :
    Elem.tokens (.prim t vr len v) = [.elementHeader ⟨t, vr, len⟩, .primitiveValue v] := by
  have hl : len ≠ undefinedLen := by have := h.len_lt; simp only [undefinedLen]; omega
  simp [Elem.tokens, hl, h.notSq]

/-- (added with fix 457c39a of dicom-rs / `Enc.encodePrimitiveElement`) the OW/U8 re-packing arm of
`encode_primitive_element` is inert on canonical values: under OW a canonical value is a `u16` list -/
theorem owWords_primOk {ts : Syntax} {dict : Tag → Option VR} {t : Tag} {vr : VR} {len : Nat} {v : PValue}
    (h : PrimOk ts dict t vr len v) : owWords vr v = v := by
  have hf := h.fits
  split at hf
  · subst hf; rfl
  · cases vr <;> cases v <;> first | rfl | (simp [valueFits] at hf) | (simp [owWords])

theorem writes_prim {ts : Syntax} {dict : Tag → Option VR} {t : Tag} {vr : VR} {len : Nat} {v : PValue}
    (h : PrimOk ts dict t vr len v) (w : Writer) (hts : w.enc.ts = ts) :
    Writes w (Elem.tokens (.prim t vr len v)) (encElem ts (.prim t vr len v)) := by
  obtain ⟨e', he, ha⟩ := enc_primitive w.enc hts h
  rw [prim_tokens h]
  obtain ⟨enc, st, lde, strat⟩ := w
  refine ⟨⟨e', st, none, strat⟩, ?_, ?_⟩
  · simp only [Writer.writeAll, Writer.write, Writer.writeImpl]
    simp only at he
    simp only [Enc.encodePrimitiveElement, owWords_primOk h, he]
  · exact ⟨by simpa [encElem] using ha.1, ha.2, rfl, rfl⟩

/-! ### encapsulated pixel data -/

/-- the writer remembers the Pixel Data header (`last_de`) -/
def PixW (w : Writer) : Prop := ∃ h, w.lastDe = some h ∧ h.isEncapsulatedPixeldata = true

structure PStep (w w' : Writer) (bs : Bytes) (st : List SeqTok) : Prop where
  step : WStep w w' bs st
  lastDe : w'.lastDe = w.lastDe

theorem pcons_then {w w1 w2 : Writer} {t : Token} {r : List Token} {x y : Bytes} {st1 st2 : List SeqTok}
    (e1 : w.write t = .ok w1) (s1 : PStep w w1 x st1)
    (e2 : w1.writeAll r = .ok w2) (s2 : PStep w1 w2 y st2) :
    w.writeAll (t :: r) = .ok w2 ∧ PStep w w2 (x ++ y) st2 := by
  obtain ⟨h1, h2⟩ := cons_then e1 s1.step e2 s2.step
  exact ⟨h1, h2, s2.lastDe.trans s1.lastDe⟩

theorem write_pixItemStart (w : Writer) (hp : PixW w) (n : Nat) (h1 : n % 2 = 0) (h2 : n < 4294967295) :
    ∃ w', w.write (.itemStart n) = .ok w' ∧
      PStep w w' (itemHdr w.enc.ts.bigEndian n) (⟨true, n⟩ :: w.seqTokens) := by
  obtain ⟨enc, st, lde, strat⟩ := w
  obtain ⟨h, hl, hpx⟩ := hp
  simp only at hl
  subst hl
  have hh := enc_itemHeader enc n (Or.inr ⟨h1, h2⟩)
  cases strat
  · simp only [Writer.write, Writer.writeImpl, Option.map_some, Option.getD_some, hpx, if_true, hh]
    exact ⟨_, rfl, ⟨rfl, rfl, rfl, rfl⟩, rfl⟩
  · simp only [Writer.write, Writer.writeImpl, hh]
    exact ⟨_, rfl, ⟨rfl, rfl, rfl, rfl⟩, rfl⟩

theorem write_offsetTable (w : Writer) (bot : List Nat) :
    ∃ w', w.write (.offsetTable bot) = .ok w' ∧
      PStep w w' (bot.flatMap (enc32 w.enc.ts.bigEndian)) w.seqTokens := by
  obtain ⟨enc, st, lde, strat⟩ := w
  simp only [Writer.write, Writer.writeImpl]
  exact ⟨_, rfl, ⟨rfl, rfl, rfl, rfl⟩, rfl⟩

theorem write_itemValue (w : Writer) (f : Bytes) (h1 : f.length % 2 = 0) :
    ∃ w', w.write (.itemValue f) = .ok w' ∧ PStep w w' f w.seqTokens := by
  obtain ⟨enc, st, lde, strat⟩ := w
  have : ¬ (f.length % 2 ≠ 0) := by omega
  simp only [Writer.write, Writer.writeImpl, Enc.writeBytes, this, if_false]
  exact ⟨_, rfl, ⟨rfl, rfl, rfl, rfl⟩, rfl⟩

theorem write_itemEnd_p (w : Writer) (len : Nat) (rest : List SeqTok) (hst : w.seqTokens = ⟨true, len⟩ :: rest)
    (hl : len ≠ undefinedLen) :
    ∃ w', w.write .itemEnd = .ok w' ∧ PStep w w' [] rest := by
  obtain ⟨w', h1, h2, h3⟩ := write_itemEnd w len rest hst
  simp only [hl, if_false] at h2
  exact ⟨w', h1, h2, h3⟩

/-- the item of the basic offset table -/
theorem writes_bot (w : Writer) (hp : PixW w) (bot : List Nat) (hb : 4 * bot.length < 4294967295) :
    ∃ w', w.writeAll (botTokens bot) = .ok w' ∧
      PStep w w' (itemHdr w.enc.ts.bigEndian (4 * bot.length) ++ bot.flatMap (enc32 w.enc.ts.bigEndian)) w.seqTokens := by
  have hm : bot.length * 4 % 4294967296 = bot.length * 4 := Nat.mod_eq_of_lt (by omega)
  unfold botTokens
  rw [hm]
  by_cases hz : bot.length * 4 = 0
  · have hb0 : bot = [] := by
      cases bot with
      | nil => rfl
      | cons a r => simp at hz
    subst hb0
    simp only [List.length_nil, Nat.zero_mul, if_true]
    obtain ⟨w1, e1, s1⟩ := write_pixItemStart w hp 0 rfl (by decide)
    obtain ⟨w2, e2, s2⟩ := write_itemEnd_p w1 0 w.seqTokens s1.step.stack (by decide)
    have := pcons_then e1 s1 (single_then e2 s2.step).1 s2
    refine ⟨w2, this.1, ?_⟩
    simpa using this.2
  · simp only [hz, if_false]
    have hne : bot.length * 4 ≠ undefinedLen := by simp only [undefinedLen]; omega
    obtain ⟨w1, e1, s1⟩ := write_pixItemStart w hp (bot.length * 4) (by omega) (by omega)
    obtain ⟨w2, e2, s2⟩ := write_offsetTable w1 bot
    obtain ⟨w3, e3, s3⟩ := write_itemEnd_p w2 (bot.length * 4) w.seqTokens (s2.step.stack.trans s1.step.stack) hne
    have h23 := pcons_then e2 s2 (single_then e3 s3.step).1 s3
    have h13 := pcons_then e1 s1 h23.1 h23.2
    refine ⟨w3, h13.1, ?_⟩
    have hts : w1.enc.ts = w.enc.ts := s1.step.ts
    have : 4 * bot.length = bot.length * 4 := by omega
    simpa [hts, this] using h13.2

/-- one fragment item -/
theorem writes_frag (w : Writer) (hp : PixW w) (f : Bytes) (h1 : f.length % 2 = 0) (h2 : f.length < 4294967295) :
    ∃ w', w.writeAll (fragTokens f) = .ok w' ∧ PStep w w' (fragment w.enc.ts.bigEndian f) w.seqTokens := by
  unfold fragTokens fragment
  by_cases hz : f = []
  · subst hz
    simp only [List.isEmpty_nil, if_true, List.length_nil, List.append_nil]
    obtain ⟨w1, e1, s1⟩ := write_pixItemStart w hp 0 rfl (by decide)
    obtain ⟨w2, e2, s2⟩ := write_itemEnd_p w1 0 w.seqTokens s1.step.stack (by decide)
    have := pcons_then e1 s1 (single_then e2 s2.step).1 s2
    refine ⟨w2, this.1, ?_⟩
    simpa using this.2
  · have he : f.isEmpty = false := by cases f <;> simp_all
    have hm : f.length % 4294967296 = f.length := Nat.mod_eq_of_lt (by omega)
    simp only [he, Bool.false_eq_true, if_false, hm]
    have hne : f.length ≠ undefinedLen := by simp only [undefinedLen]; omega
    obtain ⟨w1, e1, s1⟩ := write_pixItemStart w hp f.length h1 h2
    obtain ⟨w2, e2, s2⟩ := write_itemValue w1 f h1
    obtain ⟨w3, e3, s3⟩ := write_itemEnd_p w2 f.length w.seqTokens (s2.step.stack.trans s1.step.stack) hne
    have h23 := pcons_then e2 s2 (single_then e3 s3.step).1 s3
    have h13 := pcons_then e1 s1 h23.1 h23.2
    refine ⟨w3, h13.1, ?_⟩
    simpa using h13.2

theorem PixW.of_pstep {w w' : Writer} {bs : Bytes} {st : List SeqTok} (hp : PixW w) (s : PStep w w' bs st) : PixW w' := by
  obtain ⟨h, h1, h2⟩ := hp
  exact ⟨h, s.lastDe.trans h1, h2⟩

theorem writes_frags : ∀ (frags : List Bytes) (w : Writer), PixW w →
    (∀ f ∈ frags, f.length % 2 = 0 ∧ f.length < 4294967295) →
    ∃ w', w.writeAll (frags.flatMap fragTokens) = .ok w' ∧
      PStep w w' (frags.flatMap (fragment w.enc.ts.bigEndian)) w.seqTokens
  | [], w, _, _ => ⟨w, rfl, ⟨by simp, rfl, rfl, rfl⟩, rfl⟩
  | f :: r, w, hp, hf => by
    obtain ⟨w1, e1, s1⟩ := writes_frag w hp f (hf f (by simp)).1 (hf f (by simp)).2
    obtain ⟨w2, e2, s2⟩ := writes_frags r w1 (hp.of_pstep s1) (fun g hg => hf g (by simp [hg]))
    have h := append_then e1 s1.step e2 s2.step
    refine ⟨w2, by simpa [List.flatMap_cons] using h.1, ?_, s2.lastDe.trans s1.lastDe⟩
    have hts : w1.enc.ts = w.enc.ts := s1.step.ts
    have hst : w1.seqTokens = w.seqTokens := s1.step.stack
    simpa [List.flatMap_cons, hts, hst] using h.2

theorem writes_pix {ts : Syntax} {bot : List Nat} {frags : List Bytes} (h : PixOk bot frags)
    (w : Writer) (hts : w.enc.ts = ts) :
    Writes w (Elem.tokens (.pix bot frags)) (encElem ts (.pix bot frags)) := by
  subst hts
  -- PixelSequenceStart
  have hstart : ∃ w1, w.write .pixelSequenceStart = .ok w1 ∧
      WStep w w1 (header w.enc.ts Tag.pixelData .OB undefinedLen) (⟨false, undefinedLen⟩ :: w.seqTokens) ∧ PixW w1 := by
    obtain ⟨enc, st, lde, strat⟩ := w
    have hh := enc_elementHeader enc Tag.pixelData .OB undefinedLen (Or.inl rfl) (by simp [short16_OB])
    simp only [Writer.write, Writer.writeImpl, hh]
    exact ⟨_, rfl, ⟨rfl, rfl, rfl, rfl⟩, ⟨_, rfl, by decide⟩⟩
  obtain ⟨w1, e1, s1, hp1⟩ := hstart
  obtain ⟨w2, e2, s2⟩ := writes_bot w1 hp1 bot h.botLen
  obtain ⟨w3, e3, s3⟩ := writes_frags frags w2 (hp1.of_pstep s2) h.frags
  have hst3 : w3.seqTokens = ⟨false, undefinedLen⟩ :: w.seqTokens :=
    s3.step.stack.trans (s2.step.stack.trans s1.stack)
  obtain ⟨w4, e4, s4⟩ := write_seqEnd w3 undefinedLen w.seqTokens hst3
  have h34 := append_then e3 s3.step (single_then e4 s4).1 s4
  have h24 := append_then e2 s2.step h34.1 h34.2
  have h14 := cons_then e1 s1 h24.1 h24.2
  refine ⟨w4, ?_, ?_⟩
  · simpa [Elem.tokens, List.append_assoc] using h14.1
  · have t1 : w1.enc.ts = w.enc.ts := s1.ts
    have t2 : w2.enc.ts = w.enc.ts := s2.step.ts.trans t1
    have t3 : w3.enc.ts = w.enc.ts := s3.step.ts.trans t2
    simpa [encElem, t1, t2, t3, List.append_assoc] using h14.2

/-! ### whole trees -/

theorem allUndef_seq {tag : Tag} {len : Nat} {items : Items} (h : allUndefElem (.seq tag len items) = true) :
    len = undefinedLen ∧ allUndefItems items = true := by
  simpa [allUndefElem] using h

theorem allUndef_item {len : Nat} {es : Elems} {rest : Items} (h : allUndefItems (.cons len es rest) = true) :
    len = undefinedLen ∧ allUndefElems es = true ∧ allUndefItems rest = true := by
  simp only [allUndefItems, Bool.and_eq_true, beq_iff_eq] at h
  exact ⟨h.1.1, h.1.2, h.2⟩

mutual
/-- one element: its tokens make the writer append exactly its reference encoding -/
theorem writes_elem (ts : Syntax) (dict : Tag → Option VR) : ∀ (e : Elem), canonElem ts dict e = true →
    ∀ (w : Writer), w.enc.ts = ts → (w.strat = .noChange ∨ allUndefElem e = true) →
    Writes w e.tokens (encElem ts e)
  | .prim t vr len v, hc, w, hts, _ => writes_prim (primOk_of_canon hc) w hts
  | .pix bot frags, hc, w, hts, _ => writes_pix (pixOk_of_canon hc) w hts
  | .seq tag len items, hc, w, hts, hs => by
    have ok := seqOk_of_canon hc
    have hs1 : w.strat = .noChange ∨ len = undefinedLen := hs.imp id (fun h => (allUndef_seq h).1)
    obtain ⟨w1, e1, s1⟩ := write_seqStart w tag len hs1 ok.lenOk
    have hs2 : w1.strat = .noChange ∨ allUndefItems items = true := by
      rcases hs with h | h
      · exact Or.inl (s1.strat.trans h)
      · exact Or.inr (allUndef_seq h).2
    obtain ⟨w2, e2, s2⟩ := writes_items ts dict items ok.items w1 (s1.ts.trans hts) hs2
    obtain ⟨w3, e3, s3⟩ := write_seqEnd w2 len w.seqTokens (s2.stack.trans s1.stack)
    have h23 := append_then e2 s2 (single_then e3 s3).1 s3
    have h13 := cons_then e1 s1 h23.1 h23.2
    refine ⟨w3, by simpa [Elem.tokens] using h13.1, ?_⟩
    have t1 : w1.enc.ts = ts := s1.ts.trans hts
    have t2 : w2.enc.ts = ts := s2.ts.trans t1
    simpa [encElem, hts, t1, t2] using h13.2
theorem writes_items (ts : Syntax) (dict : Tag → Option VR) : ∀ (its : Items), canonItems ts dict its = true →
    ∀ (w : Writer), w.enc.ts = ts → (w.strat = .noChange ∨ allUndefItems its = true) →
    Writes w its.tokens (encItems ts its)
  | .nil, _, w, _, _ => by simpa [Items.tokens, encItems] using Writes.nil w
  | .cons len es rest, hc, w, hts, hs => by
    obtain ⟨ok, hrest⟩ := itemOk_of_canon hc
    have hs1 : w.strat = .noChange ∨ len = undefinedLen := hs.imp id (fun h => (allUndef_item h).1)
    obtain ⟨w1, e1, s1⟩ := write_itemStart w len hs1 ok.lenOk
    have hs2 : w1.strat = .noChange ∨ allUndefElems es = true := by
      rcases hs with h | h
      · exact Or.inl (s1.strat.trans h)
      · exact Or.inr (allUndef_item h).2.1
    obtain ⟨w2, e2, s2⟩ := writes_elems ts dict es ok.elems w1 (s1.ts.trans hts) hs2
    obtain ⟨w3, e3, s3, _⟩ := write_itemEnd w2 len w.seqTokens (s2.stack.trans s1.stack)
    have t1 : w1.enc.ts = ts := s1.ts.trans hts
    have t2 : w2.enc.ts = ts := s2.ts.trans t1
    have t3 : w3.enc.ts = ts := s3.ts.trans t2
    have hs3 : w3.strat = .noChange ∨ allUndefItems rest = true := by
      rcases hs with h | h
      · exact Or.inl (s3.strat.trans (s2.strat.trans (s1.strat.trans h)))
      · exact Or.inr (allUndef_item h).2.2
    obtain ⟨w4, e4, s4⟩ := writes_items ts dict rest hrest w3 t3 hs3
    rw [s3.stack] at s4
    have h34 := cons_then e3 s3 e4 s4
    have h24 := append_then e2 s2 h34.1 h34.2
    have h14 := cons_then e1 s1 h24.1 h24.2
    refine ⟨w4, by simpa [Items.tokens] using h14.1, ?_⟩
    simpa [encItems, hts, t1, t2, t3] using h14.2
theorem writes_elems (ts : Syntax) (dict : Tag → Option VR) : ∀ (es : Elems), canonElems ts dict es = true →
    ∀ (w : Writer), w.enc.ts = ts → (w.strat = .noChange ∨ allUndefElems es = true) →
    Writes w es.tokens (encElems ts es)
  | .nil, _, w, _, _ => by simpa [Elems.tokens, encElems] using Writes.nil w
  | .cons e rest, hc, w, hts, hs => by
    simp only [canonElems, Bool.and_eq_true] at hc
    have hs1 : w.strat = .noChange ∨ allUndefElem e = true := by
      rcases hs with h | h
      · exact Or.inl h
      · simp only [allUndefElems, Bool.and_eq_true] at h; exact Or.inr h.1
    have h1 := writes_elem ts dict e hc.1 w hts hs1
    have h2 : ∀ w' : Writer, w'.enc.ts = w.enc.ts → w'.strat = w.strat → w'.seqTokens = w.seqTokens →
        Writes w' rest.tokens (encElems ts rest) := by
      intro w' a b _
      refine writes_elems ts dict rest hc.2 w' (a.trans hts) ?_
      rcases hs with h | h
      · exact Or.inl (b.trans h)
      · simp only [allUndefElems, Bool.and_eq_true] at h; exact Or.inr h.2
    simpa [Elems.tokens, encElems] using h1.append h2
end

/-- the writer model on a canonical tree -/
theorem writeDataset_ref (ts : Syntax) (dict : Tag → Option VR) (strat : Strategy) (t : Elems)
    (hc : canonElems ts dict t = true) (hs : strat = .noChange ∨ allUndefElems t = true) :
    writeDataset ts strat t = .ok (encElems ts t) := by
  obtain ⟨w', e, s⟩ := writes_elems ts dict t hc (Writer.new ts strat) rfl hs
  unfold writeDataset
  rw [e]
  have : w'.enc.out = encElems ts t := by simpa [Writer.new, Enc.new] using s.out
  simp [this]

end Dicom.Ref
