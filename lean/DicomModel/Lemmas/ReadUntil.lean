import DicomModel.Lemmas.RefBuild
import DicomModel.Model.Collector
/-
C06: `build_object` with `read_until` / `read_to` on the token stream of a canonical (tag-sorted) data set
returns exactly the top-level elements the stop rule lets through.
-/
set_option linter.unusedSimpArgs false
set_option linter.unusedVariables false
namespace Dicom.Ref

theorem le_iff (a b : Tag) : Tag.le a b = true ↔ (a.group < b.group ∨ (a.group = b.group ∧ a.elem ≤ b.elem)) := by
  simp only [Tag.le, Bool.not_eq_true', Tag.lt, Bool.or_eq_false_iff, Bool.and_eq_false_imp,
    decide_eq_false_iff_not, beq_iff_eq, Nat.not_lt]
  omega

/-- once the stop rule fires it fires for every larger tag -/
theorem stop_mono (ru rt : Option Tag) {a b : Tag} (h : stopAt ru rt a = true) (hab : Tag.lt a b = true) :
    stopAt ru rt b = true := by
  simp only [stopAt, Bool.or_eq_true] at h ⊢
  rw [lt_iff] at hab
  rcases h with h | h
  · left
    cases ru with
    | none => simp at h
    | some t => simp only [le_iff] at h ⊢; omega
  · right
    cases rt with
    | none => simp at h
    | some t => simp only [lt_iff] at h ⊢; omega

theorem filter_stopped (ru rt : Option Tag) (e : Elem) (hs : stopAt ru rt e.tag = true) :
    ∀ l : List Elem, (∀ x ∈ l, ELt e x) → l.filter (fun x => !stopAt ru rt x.tag) = []
  | [], _ => rfl
  | x :: r, h => by
    have hx := stop_mono ru rt hs (h x (by simp))
    simp [List.filter_cons, hx, filter_stopped ru rt e hs r (fun y hy => h y (by simp [hy]))]

theorem buildS_elems (ts : Syntax) (dict : Tag → Option VR) (ru rt : Option Tag) :
    ∀ (es : Elems), canonElems ts dict es = true →
    ∀ (fuel : Nat) (acc : List Elem), es.tokens.length < fuel → (acc ++ toList es).Pairwise ELt →
    buildObjectS ru rt fuel es.tokens acc = .ok (acc ++ (toList es).filter (fun e => !stopAt ru rt e.tag))
  | .nil, _, fuel, acc, hf, _ => by
    cases fuel with
    | zero => simp at hf
    | succ f => simp [Elems.tokens, toList, buildObjectS]
  | .cons e more, hc, fuel, acc, hf, hs => by
    simp only [canonElems, Bool.and_eq_true] at hc
    cases fuel with
    | zero => simp at hf
    | succ f =>
      have hpw := List.pairwise_append.mp hs
      have hall : ∀ x ∈ acc, ELt x e := fun x hx => hpw.2.2 x hx _ (by simp [toList])
      have hmore : ∀ x ∈ toList more, ELt e x := by
        have := hpw.2.1
        simp only [toList, List.pairwise_cons] at this
        exact this.1
      have hs' : ((acc ++ [e]) ++ toList more).Pairwise ELt := by
        simpa [toList, List.append_assoc] using hs
      by_cases hstop : stopAt ru rt e.tag = true
      · -- the stop rule fires at `e`: nothing of `e :: more` gets through
        have hfil : (toList (.cons e more)).filter (fun x => !stopAt ru rt x.tag) = [] := by
          simp [toList, List.filter_cons, hstop, filter_stopped ru rt e hstop (toList more) hmore]
        rw [hfil, List.append_nil]
        cases e with
        | prim t vr len v =>
          have htok := prim_tokens (primOk_of_canon hc.1)
          simp only [Elem.tag] at hstop
          simp [Elems.tokens, htok, buildObjectS, hstop]
        | seq tag len items =>
          simp only [Elem.tag] at hstop
          simp [Elems.tokens, Elem.tokens, buildObjectS, hstop]
        | pix bot frags =>
          simp only [Elem.tag] at hstop
          simp [Elems.tokens, Elem.tokens, buildObjectS, hstop]
      · have hfil : (toList (.cons e more)).filter (fun x => !stopAt ru rt x.tag) =
            e :: (toList more).filter (fun x => !stopAt ru rt x.tag) := by
          simp [toList, List.filter_cons, hstop]
        rw [hfil]
        cases e with
        | prim t vr len v =>
          have htok := prim_tokens (primOk_of_canon hc.1)
          simp only [Elem.tag] at hstop
          have hf' : more.tokens.length < f := by
            simp only [Elems.tokens, htok, List.length_append, List.length_cons, List.length_nil] at hf; omega
          have ih := buildS_elems ts dict ru rt more hc.2 f (acc ++ [.prim t vr len v]) hf' hs'
          simp only [Elems.tokens, htok, List.cons_append, List.nil_append, buildObjectS, hstop,
            Bool.false_eq_true, if_false]
          rw [insert_last _ acc hall, ih]
          simp [List.append_assoc]
        | pix bot frags =>
          have ok := pixOk_of_canon hc.1
          simp only [Elem.tag] at hstop
          have hf' : more.tokens.length < f := by
            simp only [Elems.tokens, Elem.tokens, List.length_append, List.length_cons, List.length_nil] at hf; omega
          have ih := buildS_elems ts dict ru rt more hc.2 f (acc ++ [.pix bot frags]) hf' hs'
          have hb := build_pix ok more.tokens
          simp only [Elems.tokens, Elem.tokens, List.cons_append, List.append_assoc, List.nil_append, buildObjectS,
            hstop, Bool.false_eq_true, if_false]
          rw [hb]
          simp only
          rw [insert_last _ acc hall, ih]
          simp [List.append_assoc]
        | seq tag len items =>
          have ok := seqOk_of_canon hc.1
          simp only [Elem.tag] at hstop
          have hlen : (Elems.tokens (.cons (.seq tag len items) more)).length =
              items.tokens.length + 2 + more.tokens.length := by
            simp [Elems.tokens, Elem.tokens]; omega
          have hf' : more.tokens.length < f := by rw [hlen] at hf; omega
          have ih := buildS_elems ts dict ru rt more hc.2 f (acc ++ [.seq tag len items]) hf' hs'
          have hb := build_items ts dict items ok.items f more.tokens [] (by rw [hlen] at hf; omega)
          simp only [Elems.tokens, Elem.tokens, List.cons_append, List.append_assoc, List.nil_append, buildObjectS,
            hstop, Bool.false_eq_true, if_false]
          rw [hb]
          simp only [List.nil_append, itemsOfList_toList]
          rw [insert_last _ acc hall, ih]
          simp [List.append_assoc]

end Dicom.Ref
