import DicomModel.Lemmas.ValidSteps
/-
`Valid.validPS35` accepts `Ref.encElems ts t` for every canonical tree `t` (mutual structural induction,
"accepted for all sufficiently large fuel").
-/
set_option linter.unusedSimpArgs false
namespace Dicom.ValidRef
open Dicom.Ref Dicom.Valid

mutual
/-- side conditions of the checker that canonicity does not imply: (1) the visible padding rule — a text
value does not end in NUL, a UI value not in a space; (2) Implicit VR only: the checker's `isSeq` oracle
says "sequence" for the defined-length sequences of the tree and "not a sequence" for its other elements -/
def Side (ts : Syntax) (isSeq : Nat → Nat → Bool) : Elem → Prop
  | .prim tag vr _ v =>
    trailOk (if ts.explicit then some vr else none) (value ts.bigEndian v) = true
      ∧ (ts.explicit = false → isSeq tag.group tag.elem = false)
  | .seq tag len items =>
    (ts.explicit = false → len ≠ undefinedLen → isSeq tag.group tag.elem = true) ∧ SideItems ts isSeq items
  | .pix _ _ => ts.explicit = false → isSeq 0x7FE0 0x0010 = false
def SideItems (ts : Syntax) (isSeq : Nat → Nat → Bool) : Items → Prop
  | .nil => True
  | .cons _ es r => SideElems ts isSeq es ∧ SideItems ts isSeq r
def SideElems (ts : Syntax) (isSeq : Nat → Nat → Bool) : Elems → Prop
  | .nil => True
  | .cons e r => Side ts isSeq e ∧ SideElems ts isSeq r
end

mutual
/-- an upper bound of the checker's recursion depth on the encoding of a tree -/
def costElem : Elem → Nat
  | .prim _ _ _ _ => 1
  | .seq _ _ its => 2 + costItems its
  | .pix _ frags => 3 + frags.length
def costItems : Items → Nat
  | .nil => 0
  | .cons _ es r => 2 + costElems es + costItems r
def costElems : Elems → Nat
  | .nil => 0
  | .cons e r => costElem e + costElems r
end

def AccE (c : Cfg) (stop : Stop) (bs : Bytes) (G : Nat) (res : List PVal × Bytes) : Prop :=
  ∀ F, G ≤ F → vElems c F stop bs = some res
def AccI (c : Cfg) (stop : Stop) (bs : Bytes) (G : Nat) (res : List PVal × Bytes) : Prop :=
  ∀ F, G ≤ F → vItems c F stop bs = some res

theorem tagOk_parts {t : Tag} (h : tagOk t = true) : t.group < 65536 ∧ t.elem < 65536 ∧ t.group ≠ 0xFFFE := by
  simp only [tagOk, Bool.and_eq_true, decide_eq_true_eq, bne_iff_ne, ne_eq] at h
  exact ⟨h.1.1, h.1.2, h.2⟩

theorem nonempty_of_len {bs : Bytes} (h : 1 ≤ bs.length) : bs.isEmpty = false := by
  cases bs with
  | nil => simp at h
  | cons _ _ => rfl

theorem undef_eq : undef = undefinedLen := rfl

theorem peek_tagLen (ts : Syntax) (isSeq : Nat → Nat → Bool) (t : Tag) (hg : t.group < 65536) (he : t.elem < 65536)
    (l : Nat) (hl : l < 4294967296) (r : Bytes) :
    rdHeader { cfg ts isSeq with explicit := false } (tagBytes ts.bigEndian t ++ (enc32 ts.bigEndian l ++ r))
      = some (t.group, t.elem, none, l, r) := by
  simp [rdHeader, cfg, tagBytes, List.append_assoc, rd16_enc _ _ hg, rd16_enc _ _ he, rd32_enc _ _ hl]

theorem takeN_app (a r : Bytes) : takeN a.length (a ++ r) = some (a, r) := by simp [takeN]

/-! ### terminators -/

theorem acc_elems_end (c : Cfg) : AccE c .atEnd [] 1 ([], []) := by
  intro F hF
  obtain ⟨F0, rfl⟩ : ∃ F0, F = F0 + 1 := ⟨F - 1, by omega⟩
  exact elems_end_step c F0

theorem acc_items_end (c : Cfg) : AccI c .atEnd [] 1 ([], []) := by
  intro F hF
  obtain ⟨F0, rfl⟩ : ∃ F0, F = F0 + 1 := ⟨F - 1, by omega⟩
  exact items_end_step c F0

theorem acc_item_delim (ts : Syntax) (isSeq : Nat → Nat → Bool) (Y : Bytes) :
    AccE (cfg ts isSeq) .atDelim (itemDelim ts.bigEndian ++ Y) 1 ([], Y) := by
  intro F hF
  obtain ⟨F0, rfl⟩ : ∃ F0, F = F0 + 1 := ⟨F - 1, by omega⟩
  have hp := peek_tagLen ts isSeq ⟨0xFFFE, 0xE00D⟩ (by decide) (by decide) 0 (by decide) Y
  refine elems_delim_step (cfg ts isSeq) F0 _ none Y (nonempty_of_len (by simp [itemDelim, tagBytes]; omega)) ?_
  simpa [itemDelim, List.append_assoc] using hp

theorem acc_seq_delim (ts : Syntax) (isSeq : Nat → Nat → Bool) (Y : Bytes) :
    AccI (cfg ts isSeq) .atDelim (seqDelim ts.bigEndian ++ Y) 1 ([], Y) := by
  intro F hF
  obtain ⟨F0, rfl⟩ : ∃ F0, F = F0 + 1 := ⟨F - 1, by omega⟩
  have hp := rdTagLen_enc (cfg ts isSeq) ⟨0xFFFE, 0xE0DD⟩ (by decide) (by decide) 0 (by decide) Y
  refine items_seqdelim_step (cfg ts isSeq) F0 _ Y (nonempty_of_len (by simp [seqDelim, tagBytes]; omega)) ?_
  simpa [seqDelim, List.append_assoc, cfg] using hp

/-! ### fragments -/

theorem acc_frags (ts : Syntax) (isSeq : Nat → Nat → Bool) :
    ∀ (frags : List Bytes), (∀ f ∈ frags, f.length % 2 = 0 ∧ f.length < 4294967295) → ∀ (X : Bytes) (F : Nat),
      1 + frags.length ≤ F →
      vFrags (cfg ts isSeq) F (frags.flatMap (fragment ts.bigEndian) ++ (seqDelim ts.bigEndian ++ X)) = some X
  | [], _, X, F, hF => by
    obtain ⟨F0, rfl⟩ : ∃ F0, F = F0 + 1 := ⟨F - 1, by simp at hF; omega⟩
    have hp := rdTagLen_enc (cfg ts isSeq) ⟨0xFFFE, 0xE0DD⟩ (by decide) (by decide) 0 (by decide) X
    refine frags_delim_step (cfg ts isSeq) F0 _ X ?_
    simpa [seqDelim, List.append_assoc, cfg] using hp
  | f :: r, hf, X, F, hF => by
    obtain ⟨F0, rfl⟩ : ∃ F0, F = F0 + 1 := ⟨F - 1, by simp at hF; omega⟩
    obtain ⟨he, hl⟩ := hf f (by simp)
    have hp := rdTagLen_enc (cfg ts isSeq) ⟨0xFFFE, 0xE000⟩ (by decide) (by decide) f.length (by omega)
      (f ++ (r.flatMap (fragment ts.bigEndian) ++ (seqDelim ts.bigEndian ++ X)))
    rw [frags_item_step (cfg ts isSeq) F0 _ _ f (r.flatMap (fragment ts.bigEndian) ++ (seqDelim ts.bigEndian ++ X))
      f.length (by simpa [List.flatMap_cons, fragment, itemHdr, List.append_assoc, cfg] using hp)
      (by unfold undef; omega) he (takeN_app _ _)]
    exact acc_frags ts isSeq r (fun x hx => hf x (by simp [hx])) X F0 (by simp at hF ⊢; omega)

theorem flatMap_enc32_length (be : Bool) (l : List Nat) : (l.flatMap (enc32 be)).length = 4 * l.length := by
  induction l with
  | nil => rfl
  | cons a r ih => simp [List.flatMap_cons, ih]; omega

/-- the whole content of an encapsulated pixel data element -/
theorem acc_pix_body (ts : Syntax) (isSeq : Nat → Nat → Bool) (bot : List Nat) (frags : List Bytes)
    (hb : 4 * bot.length < 4294967295)
    (hf : ∀ f ∈ frags, f.length % 2 = 0 ∧ f.length < 4294967295) (X : Bytes) (F : Nat)
    (hF : 2 + frags.length ≤ F) :
    vFrags (cfg ts isSeq) F (itemHdr ts.bigEndian (4 * bot.length) ++ (bot.flatMap (enc32 ts.bigEndian) ++
      (frags.flatMap (fragment ts.bigEndian) ++ (seqDelim ts.bigEndian ++ X)))) = some X := by
  obtain ⟨F0, rfl⟩ : ∃ F0, F = F0 + 1 := ⟨F - 1, by omega⟩
  have hp := rdTagLen_enc (cfg ts isSeq) ⟨0xFFFE, 0xE000⟩ (by decide) (by decide) (4 * bot.length) (by omega)
    (bot.flatMap (enc32 ts.bigEndian) ++ (frags.flatMap (fragment ts.bigEndian) ++ (seqDelim ts.bigEndian ++ X)))
  have htk : takeN (4 * bot.length) (bot.flatMap (enc32 ts.bigEndian) ++
      (frags.flatMap (fragment ts.bigEndian) ++ (seqDelim ts.bigEndian ++ X)))
      = some (bot.flatMap (enc32 ts.bigEndian), frags.flatMap (fragment ts.bigEndian) ++ (seqDelim ts.bigEndian ++ X)) := by
    rw [← flatMap_enc32_length ts.bigEndian bot]; exact takeN_app _ _
  rw [frags_item_step (cfg ts isSeq) F0 _ _ _ _ (4 * bot.length)
    (by simpa [itemHdr, List.append_assoc, cfg] using hp) (by unfold undef; omega) (by omega) htk]
  exact acc_frags ts isSeq frags hf X F0 (by omega)

/-! ### canonical facts -/

theorem canon_seq_parts {ts : Syntax} {dict : Tag → Option VR} {tag : Tag} {len : Nat} {items : Items}
    (h : canonElem ts dict (.seq tag len items) = true) :
    tagOk tag = true ∧ tag ≠ Tag.pixelData ∧ canonItems ts dict items = true ∧
      (len = undefinedLen ∨ (len = (encItems ts items).length ∧ len < 4294967295)) := by
  simp only [canonElem, lenTrue, Bool.and_eq_true, Bool.or_eq_true, beq_iff_eq, bne_iff_ne, ne_eq,
    decide_eq_true_eq] at h
  obtain ⟨⟨⟨h1, h2⟩, h3⟩, h4⟩ := h
  refine ⟨h1, h2, h4, ?_⟩
  rcases h3 with h3 | h3
  · exact Or.inl h3
  · exact Or.inr ⟨h3.1.1, h3.1.2⟩

theorem canon_item_parts {ts : Syntax} {dict : Tag → Option VR} {len : Nat} {es : Elems} {r : Items}
    (h : canonItems ts dict (.cons len es r) = true) :
    (len = undefinedLen ∨ (len = (encElems ts es).length ∧ len < 4294967295)) ∧
      canonElems ts dict es = true ∧ canonItems ts dict r = true := by
  simp only [canonItems, lenTrue, Bool.and_eq_true, Bool.or_eq_true, beq_iff_eq, decide_eq_true_eq] at h
  obtain ⟨⟨⟨h1, h2⟩, _⟩, h4⟩ := h
  exact ⟨h1, h2, h4⟩

/-! ### the induction -/

mutual
theorem acc_elem (ts : Syntax) (dict : Tag → Option VR) (isSeq : Nat → Nat → Bool) : ∀ (e : Elem),
    canonElem ts dict e = true → Side ts isSeq e → ∀ (stop : Stop) (X : Bytes) (G : Nat) (ws : List PVal) (r' : Bytes),
      1 ≤ G → AccE (cfg ts isSeq) stop X G (ws, r') →
      ∃ vs, AccE (cfg ts isSeq) stop (encElem ts e ++ X) (G + costElem e) (vs ++ ws, r')
  | .prim tag vr len v, hc, hs, stop, X, G, ws, r', hG, hacc => by
    have hp := primOk_of_canon hc
    obtain ⟨hg, he, hfe⟩ := tagOk_parts hp.tag
    obtain ⟨htr, hseq⟩ := hs
    refine ⟨[⟨tag.group, tag.elem, (if ts.explicit then some vr else none), value ts.bigEndian v⟩], ?_⟩
    intro F hF
    obtain ⟨F0, rfl⟩ : ∃ F0, F = F0 + 1 := ⟨F - 1, by simp [costElem] at hF; omega⟩
    have hF0 : G ≤ F0 := by simp [costElem] at hF; omega
    simp only [encElem, List.append_assoc]
    obtain ⟨l0, r0, hpk⟩ := peek_header ts isSeq tag vr len hg he (value ts.bigEndian v ++ X)
    have hh := rdHeader_header ts isSeq tag vr len hg he (by have := hp.len_lt; omega) hp.short
      (value ts.bigEndian v ++ X)
    have hlu : len ≠ undef := by have := hp.len_lt; unfold undef; omega
    have hsq : isSqOf (cfg ts isSeq) tag.group tag.elem (if ts.explicit then some vr else none) len = false := by
      by_cases hx : ts.explicit = true
      · simp [isSqOf, hx, hp.notSq]
      · have hx' : ts.explicit = false := by simpa using hx
        have hl' : (len == undef) = false := by simpa using hlu
        simp [isSqOf, hx', cfg, hseq hx', hl']
    have htk : takeN len (value ts.bigEndian v ++ X) = some (value ts.bigEndian v, X) := by
      rw [hp.len_eq]; exact takeN_app _ _
    exact elems_prim_step (cfg ts isSeq) F0 stop _ tag.group tag.elem len l0 none _ _ r0 _ X _ _
      (nonempty_of_len (by have := header_length_ge ts tag vr len; simp; omega)) hpk hfe hh hsq hlu hp.even htk htr
      ws r' (hacc F0 hF0)
  | .seq tag len items, hc, hs, stop, X, G, ws, r', hG, hacc => by
    obtain ⟨htag, hpx, hci, hlen⟩ := canon_seq_parts hc
    obtain ⟨hg, he, hfe⟩ := tagOk_parts htag
    obtain ⟨hseq, hsi⟩ := hs
    rcases hlen with hlen | ⟨hlen, hlt⟩
    · -- undefined length: items, then the sequence delimiter
      subst hlen
      obtain ⟨vs, hvs⟩ := acc_items ts dict isSeq items hci hsi .atDelim (seqDelim ts.bigEndian ++ X) 1 [] X
        (Nat.le_refl 1) (acc_seq_delim ts isSeq X)
      refine ⟨vs, ?_⟩
      intro F hF
      obtain ⟨F0, rfl⟩ : ∃ F0, F = F0 + 1 := ⟨F - 1, by simp [costElem] at hF; omega⟩
      have hF0 : G + 1 + costItems items ≤ F0 := by simp [costElem] at hF; omega
      simp only [encElem, if_true, List.append_assoc]
      obtain ⟨l0, r0, hpk⟩ := peek_header ts isSeq tag .SQ undefinedLen hg he
        (encItems ts items ++ (seqDelim ts.bigEndian ++ X))
      have hh := rdHeader_header ts isSeq tag .SQ undefinedLen hg he (by decide) (fun _ h => by cases h)
        (encItems ts items ++ (seqDelim ts.bigEndian ++ X))
      have hsq : isSqOf (cfg ts isSeq) tag.group tag.elem (if ts.explicit then some .SQ else none) undef = true := by
        by_cases hx : ts.explicit = true
        · simp [isSqOf, hx]
        · have hx' : ts.explicit = false := by simpa using hx
          have hnp : (tag.group == 0x7FE0 && tag.elem == 0x0010) = false := by
            cases tag with
            | mk g e =>
              by_cases h1 : g = 0x7FE0 <;> by_cases h2 : e = 0x0010 <;> simp_all [Tag.pixelData]
          simp [isSqOf, hx', hnp]
      have h1 := hvs F0 (by omega)
      simp only [List.append_nil] at h1
      exact elems_seq_undef_step (cfg ts isSeq) F0 stop _ tag.group tag.elem l0 none _ _ r0 _ _
        (nonempty_of_len (by have := header_length_ge ts tag .SQ undefinedLen; simp; omega)) hpk hfe hh hsq
        vs ws X r' h1 (hacc F0 (by omega))
    · -- defined length: exactly the items
      have hlu : len ≠ undefinedLen := by unfold undefinedLen; omega
      obtain ⟨vs, hvs⟩ := acc_items ts dict isSeq items hci hsi .atEnd [] 1 [] [] (Nat.le_refl 1)
        (acc_items_end (cfg ts isSeq))
      refine ⟨vs, ?_⟩
      intro F hF
      obtain ⟨F0, rfl⟩ : ∃ F0, F = F0 + 1 := ⟨F - 1, by simp [costElem] at hF; omega⟩
      have hF0 : G + 1 + costItems items ≤ F0 := by simp [costElem] at hF; omega
      simp only [encElem, hlu, if_false, List.append_nil, List.append_assoc]
      obtain ⟨l0, r0, hpk⟩ := peek_header ts isSeq tag .SQ len hg he (encItems ts items ++ X)
      have hh := rdHeader_header ts isSeq tag .SQ len hg he (by omega) (fun _ h => by cases h)
        (encItems ts items ++ X)
      have hsq : isSqOf (cfg ts isSeq) tag.group tag.elem (if ts.explicit then some .SQ else none) len = true := by
        by_cases hx : ts.explicit = true
        · simp [isSqOf, hx]
        · have hx' : ts.explicit = false := by simpa using hx
          simp [isSqOf, hx', cfg, hseq hx' hlu]
      have htk : takeN len (encItems ts items ++ X) = some (encItems ts items, X) := by
        rw [hlen]; exact takeN_app _ _
      have h1 := hvs F0 (by omega)
      simp only [List.append_nil] at h1
      exact elems_seq_def_step (cfg ts isSeq) F0 stop _ tag.group tag.elem len l0 none _ _ r0 _ X _ _
        (nonempty_of_len (by have := header_length_ge ts tag .SQ len; simp; omega)) hpk hfe hh hsq
        (by rw [undef_eq]; exact hlu) (by rw [hlen]; exact even_items ts dict items hci) htk vs ws r' h1
        (hacc F0 (by omega))
  | .pix bot frags, hc, hs, stop, X, G, ws, r', hG, hacc => by
    have hpo := pixOk_of_canon hc
    refine ⟨[], ?_⟩
    intro F hF
    obtain ⟨F0, rfl⟩ : ∃ F0, F = F0 + 1 := ⟨F - 1, by simp [costElem] at hF; omega⟩
    have hF0 : G + 2 + frags.length ≤ F0 := by simp [costElem] at hF; omega
    simp only [encElem, List.append_assoc, List.nil_append]
    obtain ⟨l0, r0, hpk⟩ := peek_header ts isSeq Tag.pixelData .OB undefinedLen (by decide) (by decide)
      (itemHdr ts.bigEndian (4 * bot.length) ++ (bot.flatMap (enc32 ts.bigEndian) ++
        (frags.flatMap (fragment ts.bigEndian) ++ (seqDelim ts.bigEndian ++ X))))
    have hh := rdHeader_header ts isSeq Tag.pixelData .OB undefinedLen (by decide) (by decide) (by decide)
      (fun _ h => by cases h)
      (itemHdr ts.bigEndian (4 * bot.length) ++ (bot.flatMap (enc32 ts.bigEndian) ++
        (frags.flatMap (fragment ts.bigEndian) ++ (seqDelim ts.bigEndian ++ X))))
    have hsq : isSqOf (cfg ts isSeq) 0x7FE0 0x0010 (if ts.explicit then some .OB else none) undef = false := by
      by_cases hx : ts.explicit = true
      · simp [isSqOf, hx]
      · have hx' : ts.explicit = false := by simpa using hx
        simp [isSqOf, hx', cfg, hs hx']
    have hvr : (if ts.explicit then some VR.OB else none) = none ∨ (if ts.explicit then some VR.OB else none) = some VR.OB
        ∨ (if ts.explicit then some VR.OB else none) = some VR.OW := by
      cases ts.explicit <;> simp
    have hfr := acc_pix_body ts isSeq bot frags hpo.botLen hpo.frags X F0 (by omega)
    exact elems_pix_step (cfg ts isSeq) F0 stop _ l0 none _ _ r0 _ _
      (nonempty_of_len (by have := header_length_ge ts Tag.pixelData .OB undefinedLen; simp; omega))
      (by simpa [Tag.pixelData] using hpk) (by simpa [Tag.pixelData, undef_eq] using hh) hsq hvr X (ws, r') hfr
      (hacc F0 (by omega))
theorem acc_items (ts : Syntax) (dict : Tag → Option VR) (isSeq : Nat → Nat → Bool) : ∀ (its : Items),
    canonItems ts dict its = true → SideItems ts isSeq its → ∀ (stop : Stop) (X : Bytes) (G : Nat) (ws : List PVal)
      (r' : Bytes), 1 ≤ G → AccI (cfg ts isSeq) stop X G (ws, r') →
      ∃ vs, AccI (cfg ts isSeq) stop (encItems ts its ++ X) (G + costItems its) (vs ++ ws, r')
  | .nil, _, _, stop, X, G, ws, r', _, hacc => ⟨[], by simpa [encItems, costItems] using hacc⟩
  | .cons len es rest, hc, hs, stop, X, G, ws, r', hG, hacc => by
    obtain ⟨hlen, hce, hcr⟩ := canon_item_parts hc
    obtain ⟨hse, hsr⟩ := hs
    obtain ⟨vs2, hvs2⟩ := acc_items ts dict isSeq rest hcr hsr stop X G ws r' hG hacc
    rcases hlen with hlen | ⟨hlen, hlt⟩
    · subst hlen
      obtain ⟨vs1, hvs1⟩ := acc_elems ts dict isSeq es hce hse .atDelim
        (itemDelim ts.bigEndian ++ (encItems ts rest ++ X)) 1 [] (encItems ts rest ++ X) (Nat.le_refl 1)
        (acc_item_delim ts isSeq _)
      refine ⟨vs1 ++ vs2, ?_⟩
      intro F hF
      obtain ⟨F0, rfl⟩ : ∃ F0, F = F0 + 1 := ⟨F - 1, by simp [costItems] at hF; omega⟩
      have hF0 : G + 1 + costElems es + costItems rest ≤ F0 := by simp [costItems] at hF; omega
      simp only [encItems, if_true, List.append_assoc]
      have hp := rdTagLen_enc (cfg ts isSeq) ⟨0xFFFE, 0xE000⟩ (by decide) (by decide) undefinedLen (by decide)
        (encElems ts es ++ (itemDelim ts.bigEndian ++ (encItems ts rest ++ X)))
      have h1 := hvs1 F0 (by omega)
      simp only [List.append_nil] at h1
      have h2 := hvs2 F0 (by omega)
      exact items_item_undef_step (cfg ts isSeq) F0 stop _ _
        (nonempty_of_len (by simp [itemHdr, tagBytes]; omega))
        (by simpa [itemHdr, List.append_assoc, cfg, undef_eq] using hp) vs1 (vs2 ++ ws) _ r' h1 h2
    · have hlu : len ≠ undefinedLen := by unfold undefinedLen; omega
      obtain ⟨vs1, hvs1⟩ := acc_elems ts dict isSeq es hce hse .atEnd [] 1 [] [] (Nat.le_refl 1)
        (acc_elems_end (cfg ts isSeq))
      refine ⟨vs1 ++ vs2, ?_⟩
      intro F hF
      obtain ⟨F0, rfl⟩ : ∃ F0, F = F0 + 1 := ⟨F - 1, by simp [costItems] at hF; omega⟩
      have hF0 : G + 1 + costElems es + costItems rest ≤ F0 := by simp [costItems] at hF; omega
      simp only [encItems, hlu, if_false, List.nil_append, List.append_assoc]
      have hp := rdTagLen_enc (cfg ts isSeq) ⟨0xFFFE, 0xE000⟩ (by decide) (by decide) len (by omega)
        (encElems ts es ++ (encItems ts rest ++ X))
      have htk : takeN len (encElems ts es ++ (encItems ts rest ++ X)) = some (encElems ts es, encItems ts rest ++ X) := by
        rw [hlen]; exact takeN_app _ _
      have h1 := hvs1 F0 (by omega)
      simp only [List.append_nil] at h1
      have h2 := hvs2 F0 (by omega)
      exact items_item_def_step (cfg ts isSeq) F0 stop _ _ _ _ len
        (nonempty_of_len (by simp [itemHdr, tagBytes]; omega))
        (by simpa [itemHdr, List.append_assoc, cfg] using hp) (by rw [undef_eq]; exact hlu)
        (by rw [hlen]; exact even_elems ts dict es hce) htk vs1 (vs2 ++ ws) r' h1 h2
theorem acc_elems (ts : Syntax) (dict : Tag → Option VR) (isSeq : Nat → Nat → Bool) : ∀ (es : Elems),
    canonElems ts dict es = true → SideElems ts isSeq es → ∀ (stop : Stop) (X : Bytes) (G : Nat) (ws : List PVal)
      (r' : Bytes), 1 ≤ G → AccE (cfg ts isSeq) stop X G (ws, r') →
      ∃ vs, AccE (cfg ts isSeq) stop (encElems ts es ++ X) (G + costElems es) (vs ++ ws, r')
  | .nil, _, _, stop, X, G, ws, r', _, hacc => ⟨[], by simpa [encElems, costElems] using hacc⟩
  | .cons e rest, hc, hs, stop, X, G, ws, r', hG, hacc => by
    simp only [canonElems, Bool.and_eq_true] at hc
    obtain ⟨vs2, hvs2⟩ := acc_elems ts dict isSeq rest hc.2 hs.2 stop X G ws r' hG hacc
    obtain ⟨vs1, hvs1⟩ := acc_elem ts dict isSeq e hc.1 hs.1 stop (encElems ts rest ++ X) (G + costElems rest)
      (vs2 ++ ws) r' (by omega) hvs2
    refine ⟨vs1 ++ vs2, ?_⟩
    intro F hF
    simp only [encElems, List.append_assoc]
    have := hvs1 F (by simp [costElems] at hF; omega)
    rw [this]
end

/-! ### the bound on the fuel and the final statement -/

theorem fragment_len_ge (be : Bool) (f : Bytes) : 1 ≤ (fragment be f).length := by
  simp [fragment, itemHdr, tagBytes]; omega

theorem fragment_flat_length (be : Bool) : ∀ frags : List Bytes, frags.length ≤ (frags.flatMap (fragment be)).length
  | [] => by simp
  | f :: r => by
    have h1 := fragment_flat_length be r
    have h2 := fragment_len_ge be f
    rw [List.flatMap_cons, List.length_append, List.length_cons]
    omega

mutual
theorem cost_le_elem (ts : Syntax) : ∀ e : Elem, costElem e ≤ (encElem ts e).length
  | .prim tag vr len v => by
    have := header_length_ge ts tag vr len
    simp [costElem, encElem]; omega
  | .seq tag len items => by
    have := header_length_ge ts tag .SQ len
    have := cost_le_items ts items
    simp [costElem, encElem]; omega
  | .pix bot frags => by
    have h1 := header_length_ge ts Tag.pixelData .OB undefinedLen
    have h2 := fragment_flat_length ts.bigEndian frags
    have h3 := itemHdr_length ts.bigEndian (4 * bot.length)
    have h4 := seqDelim_length ts.bigEndian
    simp only [costElem, encElem, List.length_append]
    omega
theorem cost_le_items (ts : Syntax) : ∀ its : Items, costItems its ≤ (encItems ts its).length
  | .nil => by simp [costItems]
  | .cons len es r => by
    have := cost_le_elems ts es
    have := cost_le_items ts r
    simp [costItems, encItems, itemHdr, tagBytes]; omega
theorem cost_le_elems (ts : Syntax) : ∀ es : Elems, costElems es ≤ (encElems ts es).length
  | .nil => by simp [costElems]
  | .cons e r => by
    have := cost_le_elem ts e
    have := cost_le_elems ts r
    simp [costElems, encElems]; omega
end

/-- **the independent checker accepts the reference encoding of every canonical tree** (any depth, defined
and undefined lengths mixed, pixel sequences) whose text values do not end in the other class's padding byte
and — Implicit VR — for which the checker's sequence oracle agrees with the tree -/
theorem valid_ref (ts : Syntax) (dict : Tag → Option VR) (isSeq : Nat → Nat → Bool) (t : Elems)
    (hc : canonElems ts dict t = true) (hs : SideElems ts isSeq t) :
    validPS35 (cfg ts isSeq) (encElems ts t) = true := by
  obtain ⟨vs, hvs⟩ := acc_elems ts dict isSeq t hc hs .atEnd [] 1 [] [] (Nat.le_refl 1) (acc_elems_end _)
  have hb := cost_le_elems ts t
  have := hvs ((encElems ts t).length + 1) (by omega)
  simp only [List.append_nil] at this
  simp [validPS35, parsePS35, this]

end Dicom.ValidRef
