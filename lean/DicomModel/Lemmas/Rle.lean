import DicomModel.Model.Rle
import DicomModel.Lemmas.Bytes
/-
Lemmas for C20: scatter writes, header and segment slicing, PackBits, interleaving indices.
-/
namespace Dicom.Rle

theorem idx_inj {step q c k s : Nat} (hc : c < step) (hs : s < step) :
    q * step + c = k * step + s ↔ q = k ∧ c = s := by
  constructor
  · intro h
    have h1 := congrArg (· / step) h
    have h2 := congrArg (· % step) h
    have hpos : 0 < step := by omega
    simp only [Nat.mul_comm _ step, Nat.mul_add_div hpos, Nat.mul_add_mod, Nat.div_eq_of_lt hc,
      Nat.div_eq_of_lt hs, Nat.mod_eq_of_lt hc, Nat.mod_eq_of_lt hs, Nat.add_zero] at h1 h2
    exact ⟨h1, h2⟩
  · rintro ⟨rfl, rfl⟩; rfl

theorem scatter_length {step e : Nat} : ∀ (src : Bytes) (pos : Nat) (dst dst' : Bytes),
    scatter step e pos src dst = .ok dst' → dst'.length = dst.length := by
  intro src
  induction src with
  | nil =>
    intro pos dst dst' h
    simp only [scatter] at h
    split at h <;> simp_all
  | cons x xs ih =>
    intro pos dst dst' h
    simp only [scatter] at h
    split at h
    · simp_all
    · split at h
      · have := ih _ _ _ h; simpa using this
      · simp at h

/-- writing inside a window of a larger buffer = writing into the window -/
theorem scatter_local {step e : Nat} (pre post : Bytes) : ∀ (src : Bytes) (pos : Nat) (mid : Bytes),
    e ≤ mid.length →
    scatter step (pre.length + e) (pre.length + pos) src (pre ++ mid ++ post)
      = (scatter step e pos src mid).map (fun m => pre ++ m ++ post) := by
  intro src
  induction src with
  | nil =>
    intro pos mid _
    simp only [scatter, Nat.add_le_add_iff_left]
    split <;> rfl
  | cons x xs ih =>
    intro pos mid he
    simp only [scatter, Nat.add_le_add_iff_left]
    split
    · rfl
    · rename_i hlt
      have hp : pos < mid.length := by omega
      have h1 : pre.length + pos < (pre ++ mid ++ post).length := by simp; omega
      simp only [h1, hp, if_true]
      have hset : (pre ++ mid ++ post).set (pre.length + pos) x = pre ++ mid.set pos x ++ post := by
        rw [List.append_assoc, List.set_append_right _ _ (by omega), List.set_append_left _ _ (by simpa using hp)]
        simp [List.append_assoc]
      rw [hset, Nat.add_assoc, ih (pos + step) (mid.set pos x) (by simpa using he)]

theorem scatter_spec {step n s : Nat} (hs : s < step) : ∀ (src : Bytes) (k : Nat) (dst : Bytes),
    k + src.length = n → dst.length = n * step →
    ∃ dst', scatter step (n * step) (k * step + s) src dst = .ok dst' ∧ dst'.length = n * step ∧
      ∀ q c, c < step → dst'[q * step + c]? = if c = s ∧ k ≤ q then src[q - k]? else dst[q * step + c]? := by
  intro src
  induction src with
  | nil =>
    intro k dst hk hd
    simp only [List.length_nil, Nat.add_zero] at hk
    subst hk
    refine ⟨dst, ?_, hd, ?_⟩
    · simp [scatter]
    · intro q c hc
      split
      · rename_i h
        have : k * step ≤ q * step := Nat.mul_le_mul_right _ h.2
        rw [List.getElem?_eq_none (by omega)]; simp
      · rfl
  | cons x xs ih =>
    intro k dst hk hd
    simp only [List.length_cons] at hk
    have hlt : k * step + s < n * step := by
      have : (k + 1) * step ≤ n * step := Nat.mul_le_mul_right _ (by omega)
      rw [Nat.succ_mul] at this; omega
    obtain ⟨dst', h1, h2, h3⟩ := ih (k + 1) (dst.set (k * step + s) x) (by omega) (by simpa using hd)
    refine ⟨dst', ?_, h2, ?_⟩
    · simp only [scatter]
      rw [if_neg (by omega), if_pos (by omega)]
      rw [← h1, Nat.succ_mul]; congr 1; omega
    · intro q c hc
      rw [h3 q c hc, List.getElem?_set]
      by_cases hcs : c = s
      · subst hcs
        by_cases hkq : k + 1 ≤ q
        · have : k ≤ q := by omega
          simp only [true_and, hkq, this, if_true]
          have : q - k = (q - (k + 1)) + 1 := by omega
          rw [this, List.getElem?_cons_succ]
        · by_cases hq : q = k
          · subst hq
            simp [hd, hlt]; omega
          · have hne : ¬ (k * step + c = q * step + c) := by
              intro h; exact hq ((idx_inj hc hc).mp h.symm).1
            have : ¬ k ≤ q := by omega
            rw [if_neg hne]; simp [hkq, this]
      · have hne : ¬ (k * step + s = q * step + c) := by
          intro h; exact hcs ((idx_inj hc hs).mp h.symm).2
        rw [if_neg hne]; simp [hcs]

theorem rdLe32s_flatMap : ∀ (offs : List Nat) (rest : Bytes), (∀ o ∈ offs, o < 4294967296) →
    rdLe32s offs.length (offs.flatMap le32 ++ rest) = some offs := by
  intro offs
  induction offs with
  | nil => intro rest _; rfl
  | cons o os ih =>
    intro rest h
    simp only [List.flatMap_cons, List.length_cons, rdLe32s, List.append_assoc]
    rw [rdLe32_le32 o (h o (by simp))]
    simp only []
    rw [ih rest (fun x hx => h x (by simp [hx]))]

/-- all offsets including the end-of-fragment sentinel -/
def offsAll (off : Nat) (segs : List Bytes) : List Nat :=
  segOffsets off segs ++ [off + segs.flatten.length]

theorem offsAll_cons (off : Nat) (s : Bytes) (rest : List Bytes) :
    offsAll off (s :: rest) = off :: offsAll (off + s.length) rest := by
  simp [offsAll, segOffsets, Nat.add_assoc]

theorem segOffsets_length : ∀ (off : Nat) (segs : List Bytes), (segOffsets off segs).length = segs.length := by
  intro off segs
  induction segs generalizing off with
  | nil => rfl
  | cons s r ih => simp [segOffsets, ih]

theorem segOffsets_le : ∀ (segs : List Bytes) (off : Nat), ∀ o ∈ segOffsets off segs, o ≤ off + segs.flatten.length := by
  intro segs
  induction segs with
  | nil => intro off o h; simp [segOffsets] at h
  | cons s r ih =>
    intro off o h
    simp only [segOffsets, List.mem_cons] at h
    rcases h with h | h
    · omega
    · have := ih _ o h; simp at this ⊢; omega

/-- slicing segment `ii` out of `pre ++ segs.flatten` with the offsets the encoder wrote -/
theorem slice_seg : ∀ (segs : List Bytes) (pre : Bytes) (ii : Nat), ii < segs.length →
    ∃ a b, (offsAll pre.length segs)[ii]? = some a ∧ (offsAll pre.length segs)[ii + 1]? = some b ∧
      a ≤ b ∧ b ≤ (pre ++ segs.flatten).length ∧
      ((pre ++ segs.flatten).drop a).take (b - a) = segs[ii]?.getD [] := by
  intro segs
  induction segs with
  | nil => intro pre ii h; simp at h
  | cons s r ih =>
    intro pre ii h
    rw [offsAll_cons]
    cases ii with
    | zero =>
      refine ⟨pre.length, pre.length + s.length, rfl, ?_, by omega, by simp, ?_⟩
      · cases r with
        | nil => simp [offsAll, segOffsets]
        | cons s2 r2 => simp [offsAll_cons]
      · simp
    | succ i =>
      have h' : i < r.length := by simpa using h
      obtain ⟨a, b, h1, h2, h3, h4, h5⟩ := ih (pre ++ s) i h'
      simp only [List.length_append] at h1 h2
      refine ⟨a, b, by simpa using h1, by simpa using h2, h3, by simpa [Nat.add_assoc] using h4, ?_⟩
      simpa [List.append_assoc] using h5

theorem unpack_nil : unpack [] = some [] := by rw [unpack.eq_def]

theorem unpack_cons (h : Nat) (rest : Bytes) :
    unpack (h :: rest) =
      if h < 128 then
        match unpack (rest.drop (h + 1)) with
        | some r => some (rest.take (h + 1) ++ r)
        | none => none
      else if h = 128 then unpack rest
      else
        match rest with
        | [] => none
        | d :: rest' =>
          match unpack rest' with
          | some r => some (List.replicate (257 - h) d ++ r)
          | none => none := by
  rw [unpack.eq_def]; rfl

theorem unpack_zero : unpack [0] = some [] := by
  rw [unpack_cons]; simp [unpack_nil]

theorem leBytes_length (bps v : Nat) : (leBytes bps v).length = bps := by simp [leBytes]

theorem leInterleaved_length (bps : Nat) (frame : List Nat) :
    (leInterleaved bps frame).length = frame.length * bps := by
  induction frame with
  | nil => simp [leInterleaved]
  | cons v r ih =>
    simp only [leInterleaved, List.flatMap_cons, List.length_append, leBytes_length, List.length_cons] at ih ⊢
    rw [ih, Nat.succ_mul]; omega

theorem leInterleaved_getElem? (bps : Nat) : ∀ (frame : List Nat) (i b : Nat), b < bps →
    (leInterleaved bps frame)[i * bps + b]? = frame[i]?.map (fun v => byteOf v b) := by
  intro frame
  induction frame with
  | nil => intro i b _; simp [leInterleaved]
  | cons v r ih =>
    intro i b hb
    simp only [leInterleaved, List.flatMap_cons] at ih ⊢
    cases i with
    | zero =>
      rw [List.getElem?_append_left (by simp [leBytes_length]; omega)]
      simp [leBytes, hb]
    | succ i =>
      rw [List.getElem?_append_right (by simp [leBytes_length, Nat.succ_mul]; omega)]
      have : (i + 1) * bps + b - (leBytes bps v).length = i * bps + b := by
        simp [leBytes_length, Nat.succ_mul]; omega
      rw [this, ih i b hb]; simp

theorem plane_length (spp bps : Nat) (frame : List Nat) (ii : Nat) :
    (plane spp bps frame ii).length = frame.length / spp := by simp [plane]

theorem plane_getElem? (spp bps : Nat) (frame : List Nat) (ii q : Nat) (hq : q < frame.length / spp) :
    (plane spp bps frame ii)[q]? = some (byteOf (frame.getD (q * spp + ii / bps) 0) (bps - 1 - ii % bps)) := by
  simp [plane, hq]

/-! ### the run chooser of the reference encoder produces valid runs for its plane -/

theorem expand_cons (r : Run) (rs : List Run) : expand (r :: rs) = r.expand ++ expand rs := by
  simp [expand]

theorem litChunks_spec (bs : Bytes) : (∀ r ∈ litChunks bs, r.Valid) ∧ expand (litChunks bs) = bs := by
  fun_induction litChunks bs with
  | case1 => simp [expand]
  | case2 b rest ih =>
    refine ⟨?_, ?_⟩
    · intro r hr
      rcases List.mem_cons.mp hr with h | h
      · subst h; simp [Run.Valid]; omega
      · exact ih.1 r h
    · rw [expand_cons, ih.2]; simp [Run.expand]

theorem take_sameRun (b : Nat) : ∀ (rest : Bytes) (n : Nat), n ≤ sameRun b rest →
    rest.take n = List.replicate n b := by
  intro rest
  induction rest with
  | nil => intro n h; simp [sameRun] at h; simp [h]
  | cons x xs ih =>
    intro n h
    cases n with
    | zero => simp
    | succ n =>
      simp only [sameRun] at h
      split at h
      · rename_i hx
        simp [List.replicate_succ, hx, ih n (by omega)]
      · omega

theorem chooseRuns_spec (cs : List Nat) (pl : Bytes) :
    (∀ r ∈ chooseRuns cs pl, r.Valid) ∧ expand (chooseRuns cs pl) = pl := by
  fun_induction chooseRuns cs pl with
  | case1 pl => exact litChunks_spec pl
  | case2 c pl => exact litChunks_spec pl
  | case3 c0 c1 cs pl h ih =>
    refine ⟨?_, ?_⟩
    · intro r hr
      rcases List.mem_cons.mp hr with h | h
      · subst h; trivial
      · exact ih.1 r h
    · rw [expand_cons, ih.2]; simp [Run.expand]
  | case4 c0 c1 cs h => simp [expand]
  | case5 c0 c1 cs h b rest hk n ih =>
    refine ⟨?_, ?_⟩
    · intro r hr
      rcases List.mem_cons.mp hr with h | h
      · subst h; simp [Run.Valid]; omega
      · exact ih.1 r h
    · rw [expand_cons, ih.2]; simp [Run.expand]
  | case6 c0 c1 cs h b rest hk n hn ih =>
    refine ⟨?_, ?_⟩
    · intro r hr
      rcases List.mem_cons.mp hr with h | h
      · subst h; simp [Run.Valid]; omega
      · exact ih.1 r h
    · rw [expand_cons, ih.2]
      simp only [Run.expand]
      have hle : n - 1 ≤ sameRun b rest := by omega
      have := take_sameRun b rest (n - 1) hle
      have hn1 : n = (n - 1) + 1 := by omega
      rw [hn1, List.replicate_succ, ← this, List.drop_succ_cons]
      simp
  | case7 c0 c1 cs h b rest hk n hn ih =>
    refine ⟨?_, ?_⟩
    · intro r hr
      rcases List.mem_cons.mp hr with h | h
      · subst h; simp [Run.Valid]
      · exact ih.1 r h
    · rw [expand_cons, ih.2]; simp [Run.expand]

end Dicom.Rle
