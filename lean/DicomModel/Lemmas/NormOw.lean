import DicomModel.Lemmas.NormKeepCanon
/-
Bytes held as `U8` under OW (8-bit samples in a word VR): `encode_primitive_element` re-packs them into
16-bit words first (`owWords`, dicom-rs fix 457c39a). `owElems t` is the data set after that re-packing;
the writer writes `t` and `owElems t` identically (by definition of `Enc.encodePrimitiveElement` and
idempotence of `owWords`), so every theorem about well-formed trees applies to `owElems t`.
-/
set_option linter.unusedSimpArgs false
namespace Dicom.Norm
open Dicom.C04 Dicom.Ref

mutual
def owElem : Elem → Elem
  | .prim tag vr len v => .prim tag vr len (owWords vr v)
  | .seq tag len items => .seq tag len (owItems items)
  | .pix bot frags => .pix bot frags
def owItems : Items → Items
  | .nil => .nil
  | .cons len es r => .cons len (owElems es) (owItems r)
def owElems : Elems → Elems
  | .nil => .nil
  | .cons e r => .cons (owElem e) (owElems r)
end

theorem owWords_idem (vr : VR) (v : PValue) : owWords vr (owWords vr v) = owWords vr v := by
  by_cases h : vr = .OW
  · cases v <;> simp [owWords, h]
  · cases v <;> simp [owWords, h]

mutual
theorem rec_ow_elem : ∀ (el : Elem) (e : Enc), recElem e (owElem el) = recElem e el
  | .prim tag vr len v, e => by
    simp only [owElem, recElem, Enc.encodePrimitiveElement, owWords_idem]
  | .seq tag len items, e => by
    simp only [owElem, recElem]
    cases e.elementHeader ⟨tag, .SQ, undefinedLen⟩ with
    | error x => rfl
    | ok e1 => simp only [exBind, rec_ow_items items e1]
  | .pix bot frags, e => rfl
theorem rec_ow_items : ∀ (its : Items) (e : Enc), recItems e (owItems its) = recItems e its
  | .nil, _ => rfl
  | .cons len es r, e => by
    simp only [owItems, recItems, rec_ow_elems es]
    cases recElems (e.itemHeader undefinedLen) es with
    | error x => rfl
    | ok e1 => simp only [exBind, rec_ow_items r]
theorem rec_ow_elems : ∀ (es : Elems) (e : Enc), recElems e (owElems es) = recElems e es
  | .nil, _ => rfl
  | .cons el r, e => by
    simp only [owElems, recElems, rec_ow_elem el]
    cases recElem e el with
    | error x => rfl
    | ok e1 => simp only [exBind, rec_ow_elems r]
end

mutual
theorem wf_ow_elem : ∀ e : Elem, (owElem e).WF → e.WF
  | .prim _ _ _ _, h => h
  | .seq _ _ items, h => wf_ow_items items h
  | .pix _ _, h => h
theorem wf_ow_items : ∀ its : Items, (owItems its).WF → its.WF
  | .nil, _ => trivial
  | .cons _ es r, h => ⟨wf_ow_elems es h.1, wf_ow_items r h.2⟩
theorem wf_ow_elems : ∀ es : Elems, (owElems es).WF → es.WF
  | .nil, _ => trivial
  | .cons e r, h => ⟨wf_ow_elem e h.1, wf_ow_elems r h.2⟩
end

theorem tagOf_ow (e : Elem) : tagOf (owElem e) = tagOf e := by cases e <;> rfl

theorem sortedFrom_ow : ∀ (es : Elems) (prev : Tag), sortedFrom prev (owElems es) = sortedFrom prev es
  | .nil, _ => rfl
  | .cons e r, prev => by simp only [owElems, sortedFrom, tagOf_ow, sortedFrom_ow r]

theorem sortedElems_ow : ∀ (es : Elems), sortedElems (owElems es) = sortedElems es
  | .nil => rfl
  | .cons e r => by simp only [owElems, sortedElems, tagOf_ow, sortedFrom_ow]

/-- the data set writer writes `t` and its re-packed form to the same bytes (default strategy) -/
theorem write_ow (ts : Syntax) (t : Elems) (h : (owElems t).WF) :
    writeDataset ts .setUndefined (owElems t) = writeDataset ts .setUndefined t := by
  rw [writeDataset_eq_rec ts _ h, writeDataset_eq_rec ts t (wf_ow_elems t h), rec_ow_elems]

/-- **write then read, with bytes under OW allowed**: if the re-packed data set is well-formed, writing `t`
succeeds and reading back yields the normal form of the re-packed data set (OW bytes come back as the
16-bit words `lo + 256·hi`, i.e. the same bytes in memory) -/
theorem write_read_ow (ts : Syntax) (dict : Tag → Option VR) (t : Elems)
    (hd : dictOk ts dict = true) (hwf : WfElems ts dict (owElems t)) (hsorted : sortedElems t = true) :
    ∃ bs, writeDataset ts .setUndefined t = .ok bs ∧
      readDataset ts dict bs = .ok (normElems ts (owElems t)) := by
  obtain ⟨bs, h1, h2⟩ := write_read_norm ts dict (owElems t) hd hwf (by rw [sortedElems_ow]; exact hsorted)
  exact ⟨bs, by rw [← write_ow ts t (wf_elems ts dict _ hwf).1]; exact h1, h2⟩

theorem packWords_lt : ∀ (b : Bytes), (∀ x ∈ b, x < 256) → ∀ w ∈ packWords b, w < 65536
  | [], _, w, hw => by simp [packWords] at hw
  | [a], h, w, hw => by
    simp only [packWords, List.mem_cons, List.mem_nil_iff, or_false] at hw
    rw [hw]; have := h a (by simp); omega
  | a :: c :: r, h, w, hw => by
    simp only [packWords, List.mem_cons] at hw
    rcases hw with hw | hw
    · subst hw; have h1 := h a (by simp); have h2 := h c (by simp); omega
    · exact packWords_lt r (fun x hx => h x (by simp [hx])) w hw

/-- bytes (each < 256) under OW are a valid value once re-packed -/
theorem validFor_ow_u8 (be : Bool) (b : Bytes) (hb : ∀ x ∈ b, x < 256) :
    ValidFor be .OW (owWords .OW (.u8 b)) := by
  refine And.intro (by decide) (And.intro trivial (And.intro ?_ ?_))
  · intro hx; rcases hx with hx | hx <;> cases hx
  · right; right; right
    exact packWords_lt b hb

end Dicom.Norm
