import DicomModel.Lemmas.RefReader3
import DicomModel.Lemmas.LazyEager
/-
C02, reader side, part 4: runs of the reader over the reference encoding of elements, pixel data,
items and data sets (big-step relation `Run`, mutual induction on the tree).
-/
set_option linter.unusedSimpArgs false
set_option linter.unusedVariables false
namespace Dicom.Ref

/-- one `next()` call yields token `t` (for any amount of loop fuel) and leaves state `s'`; the step is
none of the places where the lazy reader differs by design (`LE.AnomStep`; for every token but an offset
table this follows from the first part, `LE.calm_of_next`) -/
def StepTo (s : RState) (t : Token) (s' : RState) : Prop :=
  (∀ fuel, s.next (fuel + 1) = (some (.ok t), s')) ∧ LE.AnomStep s = false ∧
    s'.dec.ts = s.dec.ts ∧ s'.hardBreak = false

theorem StepTo.of_plain {s s' : RState} {t : Token} (h : ∀ fuel, s.next (fuel + 1) = (some (.ok t), s'))
    (hne : ∀ vs, t ≠ .offsetTable vs) (hts : s'.dec.ts = s.dec.ts := by rfl)
    (hhb : s'.hardBreak = false := by rfl) : StepTo s t s' :=
  ⟨h, LE.calm_of_next s t s' (h 0) hne, hts, hhb⟩

/-- successive `next()` calls yield exactly these tokens -/
inductive Run : RState → List Token → RState → Prop
  | nil (s : RState) : Run s [] s
  | cons {s s1 s2 : RState} {t : Token} {ts : List Token} : StepTo s t s1 → Run s1 ts s2 → Run s (t :: ts) s2

theorem Run.single {s s' : RState} {t : Token} (h : StepTo s t s') : Run s [t] s' := .cons h (.nil _)

theorem Run.append {s s1 s2 : RState} {a b : List Token} (h1 : Run s a s1) (h2 : Run s1 b s2) :
    Run s (a ++ b) s2 := by
  induction h1 with
  | nil _ => exact h2
  | cons st _ ih => exact .cons st (ih h2)

theorem Run.cast {s s1 s2 : RState} {a : List Token} (h1 : Run s a s1) (h : s1 = s2) : Run s a s2 := h ▸ h1

/-- between the elements of a data set (top level, or inside an item) -/
abbrev stE (ts : Syntax) (dict : Tag → Option VR) (bs : Bytes) (pos : Nat) (p : Bool) (stack : List RSeqTok) : RState :=
  ⟨⟨ts, dict, bs, pos⟩, false, false, p, stack, false, none⟩
/-- between the items of a sequence -/
abbrev stI (ts : Syntax) (dict : Tag → Option VR) (bs : Bytes) (pos : Nat) (p : Bool) (stack : List RSeqTok) : RState :=
  ⟨⟨ts, dict, bs, pos⟩, true, false, p, stack, false, none⟩

theorem stE_pos {ts : Syntax} {dict : Tag → Option VR} {bs : Bytes} {pos pos' : Nat} {p : Bool} {st : List RSeqTok}
    (h : pos = pos') : stE ts dict bs pos p st = stE ts dict bs pos' p st := by subst h; rfl
theorem stI_pos {ts : Syntax} {dict : Tag → Option VR} {bs : Bytes} {pos pos' : Nat} {p : Bool} {st : List RSeqTok}
    (h : pos = pos') : stI ts dict bs pos p st = stI ts dict bs pos' p st := by subst h; rfl

/-- no frame belongs to a pixel data element -/
def Plain (st : List RSeqTok) : Prop := ∀ f ∈ st, f.pixelData = false

theorem Plain.noPixTop {st : List RSeqTok} (h : Plain st) : NoPixTop st := by
  cases st with
  | nil => trivial
  | cons sd r =>
    have := h sd (by simp)
    simp [NoPixTop, this]

/-- the innermost frame has room for `n` more bytes from `pos` -/
def Room : List RSeqTok → Nat → Nat → Prop
  | [], _, _ => True
  | sd :: _, pos, n => sd.len = undefinedLen ∨ pos + n ≤ sd.baseOffset + sd.len

theorem Room.open {st : List RSeqTok} {pos n : Nat} (h : Room st pos n) (hn : 0 < n) : Open st pos := by
  cases st with
  | nil => trivial
  | cons sd r =>
    simp only [Room] at h
    simp only [Open]
    rcases h with h | h
    · exact Or.inl h
    · exact Or.inr (by omega)

theorem Room.mono {st : List RSeqTok} {pos n pos' m : Nat} (h : Room st pos n) (h1 : pos' + m ≤ pos + n) :
    Room st pos' m := by
  cases st with
  | nil => trivial
  | cons sd r =>
    simp only [Room] at h ⊢
    rcases h with h | h
    · exact Or.inl h
    · exact Or.inr (by omega)

theorem header_pos (ts : Syntax) (t : Tag) (vr : VR) (len : Nat) : 0 < (header ts t vr len).length := by
  cases ts <;> cases h : short16 vr <;> simp [header, tagBytes, h]

theorem dec_decodeHeader (ts : Syntax) (dict : Tag → Option VR) (t : Tag) (vr : VR) (len : Nat)
    (ht : tagOk t = true) (hl : len < 4294967296)
    (hs : ts.explicit = true → short16 vr = true → len < 65536) (rest : Bytes) (pos : Nat) :
    (Dec.mk ts dict (header ts t vr len ++ rest) pos).decodeHeader =
      .ok (⟨t, readVr ts dict t vr, len⟩, ⟨ts, dict, rest, pos + (header ts t vr len).length⟩) := by
  simp [Dec.decodeHeader, decodeHeader_ref ts dict t vr len ht hl hs rest]

theorem dec_itemHeader (ts : Syntax) (dict : Tag → Option VR) (len : Nat) (hl : len < 4294967296)
    (rest : Bytes) (pos : Nat) :
    (Dec.mk ts dict (itemHdr ts.bigEndian len ++ rest) pos).decodeItemHeader =
      .ok (.item len, ⟨ts, dict, rest, pos + 8⟩) := by
  simp [Dec.decodeItemHeader, itemHdr_eq, decodeItemHeader_item _ len hl rest]

theorem dec_seqDelim (ts : Syntax) (dict : Tag → Option VR) (rest : Bytes) (pos : Nat) :
    (Dec.mk ts dict (seqDelim ts.bigEndian ++ rest) pos).decodeItemHeader =
      .ok (.seqDelim, ⟨ts, dict, rest, pos + 8⟩) := by
  simp [Dec.decodeItemHeader, seqDelim_eq, decodeItemHeader_seqDelim _ rest]

theorem tagOk_ne_delim {t : Tag} (h : tagOk t = true) : t ≠ Tag.itemDelim := by
  have := (tagOk_valid h).2
  intro e; subst e; exact this rfl

theorem encaps_false_of_len {h : ElemHeader} (hl : h.len ≠ undefinedLen) : h.isEncapsulatedPixeldata = false := by
  simp [ElemHeader.isEncapsulatedPixeldata, hl]

theorem encaps_false_of_tag {h : ElemHeader} (hl : h.tag ≠ Tag.pixelData) : h.isEncapsulatedPixeldata = false := by
  simp [ElemHeader.isEncapsulatedPixeldata, hl]

/-! ### a primitive element -/

theorem readVr_prim {ts : Syntax} {dict : Tag → Option VR} {t : Tag} {vr : VR} {len : Nat} {v : PValue}
    (ok : PrimOk ts dict t vr len v) : readVr ts dict t vr = vr := by
  unfold readVr
  cases h : ts.explicit
  · simpa using ok.dictVr h
  · simp

theorem run_prim {ts : Syntax} {dict : Tag → Option VR} {t : Tag} {vr : VR} {len : Nat} {v : PValue}
    (ok : PrimOk ts dict t vr len v) (rest : Bytes) (pos : Nat) (p : Bool) (stack : List RSeqTok)
    (hpl : Plain stack) (hroom : Room stack pos (encElem ts (.prim t vr len v)).length) :
    Run (stE ts dict (encElem ts (.prim t vr len v) ++ rest) pos p stack) (Elem.tokens (.prim t vr len v))
      (stE ts dict rest (pos + (encElem ts (.prim t vr len v)).length) true stack) := by
  rw [prim_tokens ok]
  have hlen : (encElem ts (.prim t vr len v)).length = (header ts t vr len).length + len := by
    simp [encElem, ← ok.len_eq]
  have hund : len ≠ undefinedLen := len_ne_undef ok.len_lt
  have hd := dec_decodeHeader ts dict t vr len ok.tag (by have := ok.len_lt; omega) ok.short
    (value ts.bigEndian v ++ rest) pos
  rw [readVr_prim ok] at hd
  have s1 : StepTo (stE ts dict (encElem ts (.prim t vr len v) ++ rest) pos p stack) (.elementHeader ⟨t, vr, len⟩)
      ⟨⟨ts, dict, value ts.bigEndian v ++ rest, pos + (header ts t vr len).length⟩, false, false, false, stack,
        false, some ⟨t, vr, len⟩⟩ := by
    refine StepTo.of_plain (fun fuel => ?_) (by intro vs h; cases h)
    refine next_body _ _ _ fuel rfl (fun _ => hroom.open (by rw [hlen]; have := header_pos ts t vr len; omega)) ?_
    simp only [encElem, List.append_assoc]
    exact body_elemHeader _ _ false stack ⟨t, vr, len⟩ hpl.noPixTop hd ok.notSq (tagOk_ne_delim ok.tag)
      (encaps_false_of_len hund) hund
  have s2 : StepTo ⟨⟨ts, dict, value ts.bigEndian v ++ rest, pos + (header ts t vr len).length⟩, false, false, false,
      stack, false, some ⟨t, vr, len⟩⟩ (.primitiveValue v)
      (stE ts dict rest (pos + (header ts t vr len).length + len) true stack) := by
    refine StepTo.of_plain (fun fuel => ?_) (by intro vs h; cases h)
    refine next_body _ _ _ fuel rfl (fun h => by simp at h) ?_
    exact body_value _ _ false stack ⟨t, vr, len⟩ v hpl.noPixTop (encaps_false_of_len hund)
      (read_value ok rest _)
  exact (Run.cons s1 (Run.single s2)).cast (stE_pos (by rw [hlen]; omega))

/-! ### encapsulated pixel data -/

theorem readVr_pix_ne_sq (ts : Syntax) (dict : Tag → Option VR) : readVr ts dict Tag.pixelData .OB ≠ .SQ := by
  unfold readVr
  cases ts.explicit <;> simp [implicitVr]

/-- the frame of the pixel data element itself -/
abbrev pixSq (base : Nat) : RSeqTok := ⟨false, undefinedLen, true, base⟩

theorem step_pixItemStart (ts : Syntax) (dict : Tag → Option VR) (len : Nat) (hl : len < 4294967296)
    (rest : Bytes) (pos base : Nat) (p : Bool) (stack : List RSeqTok) :
    StepTo (stI ts dict (itemHdr ts.bigEndian len ++ rest) pos p (pixSq base :: stack)) (.itemStart len)
      ⟨⟨ts, dict, rest, pos + 8⟩, false, false, (len == 0), ⟨true, len, true, pos + 8⟩ :: pixSq base :: stack,
        false, none⟩ := by
  refine StepTo.of_plain (fun fuel => ?_) (by intro vs h; cases h)
  refine next_body _ _ _ fuel rfl (fun _ => Or.inl rfl) ?_
  exact body_itemStart _ _ false (pixSq base) stack none len (dec_itemHeader ts dict len hl rest pos)

theorem step_pixItemEnd (ts : Syntax) (dict : Tag → Option VR) (len : Nat) (hl : len ≠ undefinedLen)
    (rest : Bytes) (pos0 base : Nat) (stack : List RSeqTok) :
    StepTo ⟨⟨ts, dict, rest, pos0 + len⟩, false, false, true, ⟨true, len, true, pos0⟩ :: pixSq base :: stack,
        false, none⟩ .itemEnd (stI ts dict rest (pos0 + len) true (pixSq base :: stack)) := by
  refine StepTo.of_plain (fun fuel => ?_) (by intro vs h; cases h)
  have := next_end ⟨ts, dict, rest, pos0 + len⟩ false false ⟨true, len, true, pos0⟩ (pixSq base :: stack) none fuel
    hl rfl
  simpa using this

/-- one fragment item -/
theorem run_frag (ts : Syntax) (dict : Tag → Option VR) (f : Bytes) (h1 : f.length < 4294967295)
    (rest : Bytes) (pos base : Nat) (p : Bool) (stack : List RSeqTok) :
    Run (stI ts dict (fragment ts.bigEndian f ++ rest) pos p (pixSq base :: stack)) (fragTokens f)
      (stI ts dict rest (pos + (fragment ts.bigEndian f).length) true (pixSq base :: stack)) := by
  have hl : (fragment ts.bigEndian f).length = 8 + f.length := by simp [fragment, itemHdr_length]
  have hund := len_ne_undef h1
  unfold fragTokens
  by_cases hz : f = []
  · subst hz
    have s1 := step_pixItemStart ts dict 0 (by decide) rest pos base p stack
    have s2 := step_pixItemEnd ts dict 0 (by decide) rest (pos + 8) base stack
    simp only [fragment, List.length_nil, List.append_nil, List.isEmpty_nil, if_true] at hl ⊢
    exact (Run.cons s1 (Run.single s2)).cast (stI_pos (by omega))
  · have he : f.isEmpty = false := by cases f <;> simp_all
    have hm : f.length % 4294967296 = f.length := Nat.mod_eq_of_lt (by omega)
    have hz0 : (f.length == 0) = false := by
      cases f with
      | nil => exact absurd rfl hz
      | cons a r => simp
    simp only [he, Bool.false_eq_true, if_false, hm]
    have s1 := step_pixItemStart ts dict f.length (by omega) (f ++ rest) pos base p stack
    rw [hz0] at s1
    have s2 : StepTo ⟨⟨ts, dict, f ++ rest, pos + 8⟩, false, false, false,
        ⟨true, f.length, true, pos + 8⟩ :: pixSq base :: stack, false, none⟩ (.itemValue f)
        ⟨⟨ts, dict, rest, pos + 8 + f.length⟩, false, false, true,
          ⟨true, f.length, true, pos + 8⟩ :: pixSq base :: stack, false, none⟩ := by
      refine StepTo.of_plain (fun fuel => ?_) (by intro vs h; cases h)
      refine next_body _ _ _ fuel rfl (fun h => by simp at h) ?_
      exact body_itemValue ts dict (f ++ rest) (pos + 8) f.length (pos + 8) _ none f rest hund (takeN_append f rest)
    have s3 := step_pixItemEnd ts dict f.length hund rest (pos + 8) base stack
    have : fragment ts.bigEndian f ++ rest = itemHdr ts.bigEndian f.length ++ (f ++ rest) := by
      simp [fragment, List.append_assoc]
    rw [this]
    exact (Run.cons s1 (Run.cons s2 (Run.single s3))).cast (stI_pos (by omega))

theorem run_frags (ts : Syntax) (dict : Tag → Option VR) : ∀ (frags : List Bytes),
    (∀ f ∈ frags, f.length % 2 = 0 ∧ f.length < 4294967295) →
    ∀ (rest : Bytes) (pos base : Nat) (stack : List RSeqTok),
    Run (stI ts dict (frags.flatMap (fragment ts.bigEndian) ++ rest) pos true (pixSq base :: stack))
      (frags.flatMap fragTokens)
      (stI ts dict rest (pos + (frags.flatMap (fragment ts.bigEndian)).length) true (pixSq base :: stack))
  | [], _, rest, pos, base, stack => by simpa using Run.nil _
  | f :: r, hf, rest, pos, base, stack => by
    have r1 := run_frag ts dict f (hf f (by simp)).2 (r.flatMap (fragment ts.bigEndian) ++ rest) pos base true stack
    have r2 := run_frags ts dict r (fun g hg => hf g (by simp [hg])) rest
      (pos + (fragment ts.bigEndian f).length) base stack
    simp only [List.flatMap_cons, List.append_assoc]
    exact (r1.append r2).cast (stI_pos (by simp [List.length_append]; omega))

theorem run_pix {ts : Syntax} {dict : Tag → Option VR} {bot : List Nat} {frags : List Bytes}
    (ok : PixOk bot frags) (rest : Bytes) (pos : Nat) (p : Bool) (stack : List RSeqTok)
    (hpl : Plain stack) (hroom : Room stack pos (encElem ts (.pix bot frags)).length) :
    Run (stE ts dict (encElem ts (.pix bot frags) ++ rest) pos p stack) (Elem.tokens (.pix bot frags))
      (stE ts dict rest (pos + (encElem ts (.pix bot frags)).length) true stack) := by
  let be := ts.bigEndian
  let hd := header ts Tag.pixelData .OB undefinedLen
  have hbl : (bot.flatMap (enc32 be)).length = bot.length * 4 := flatMap_len _ 4 (by simp) bot
  have hlen : (encElem ts (.pix bot frags)).length =
      hd.length + (8 + (bot.length * 4 + ((frags.flatMap (fragment be)).length + 8))) := by
    simp [encElem, itemHdr_length, seqDelim_length, hbl, hd, be]
  -- PixelSequenceStart
  have hdec := dec_decodeHeader ts dict Tag.pixelData .OB undefinedLen (by decide) (by decide)
    (fun _ h => by simp [short16_OB] at h)
    (itemHdr be (4 * bot.length) ++ (bot.flatMap (enc32 be) ++ (frags.flatMap (fragment be) ++ (seqDelim be ++ rest)))) pos
  have s1 : StepTo (stE ts dict (encElem ts (.pix bot frags) ++ rest) pos p stack) .pixelSequenceStart
      ⟨⟨ts, dict, itemHdr be (4 * bot.length) ++ (bot.flatMap (enc32 be) ++ (frags.flatMap (fragment be) ++
        (seqDelim be ++ rest))), pos + hd.length⟩, false, false, false, stack, false,
        some ⟨Tag.pixelData, readVr ts dict Tag.pixelData .OB, undefinedLen⟩⟩ := by
    refine StepTo.of_plain (fun fuel => ?_) (by intro vs h; cases h)
    refine next_body _ _ _ fuel rfl (fun _ => hroom.open (by rw [hlen]; omega)) ?_
    simp only [encElem, List.append_assoc]
    exact body_pixStart _ _ false stack _ hpl.noPixTop hdec (readVr_pix_ne_sq ts dict)
      (by show Tag.pixelData ≠ Tag.itemDelim; decide) (by simp [ElemHeader.isEncapsulatedPixeldata])
  -- the offset table item
  have hn : 4 * bot.length < 4294967296 := by have := ok.botLen; omega
  have s2 : StepTo ⟨⟨ts, dict, itemHdr be (4 * bot.length) ++ (bot.flatMap (enc32 be) ++ (frags.flatMap (fragment be) ++
        (seqDelim be ++ rest))), pos + hd.length⟩, false, false, false, stack, false,
        some ⟨Tag.pixelData, readVr ts dict Tag.pixelData .OB, undefinedLen⟩⟩ (.itemStart (4 * bot.length))
      ⟨⟨ts, dict, bot.flatMap (enc32 be) ++ (frags.flatMap (fragment be) ++ (seqDelim be ++ rest)), pos + hd.length + 8⟩,
        false, (4 * bot.length != 0), (4 * bot.length == 0),
        ⟨true, 4 * bot.length, true, pos + hd.length + 8⟩ :: pixSq (pos + hd.length) :: stack, false, none⟩ := by
    refine StepTo.of_plain (fun fuel => ?_) (by intro vs h; cases h)
    refine next_body _ _ _ fuel rfl (fun h => by simp at h) ?_
    exact body_pixFirstItem _ _ stack _ (4 * bot.length) hpl.noPixTop (by simp [ElemHeader.isEncapsulatedPixeldata])
      (dec_itemHeader ts dict (4 * bot.length) hn _ _)
  have hbot : Run ⟨⟨ts, dict, itemHdr be (4 * bot.length) ++ (bot.flatMap (enc32 be) ++ (frags.flatMap (fragment be) ++
        (seqDelim be ++ rest))), pos + hd.length⟩, false, false, false, stack, false,
        some ⟨Tag.pixelData, readVr ts dict Tag.pixelData .OB, undefinedLen⟩⟩ (botTokens bot)
      (stI ts dict (frags.flatMap (fragment be) ++ (seqDelim be ++ rest)) (pos + hd.length + 8 + bot.length * 4) true
        (pixSq (pos + hd.length) :: stack)) := by
    have hm : bot.length * 4 % 4294967296 = bot.length * 4 := Nat.mod_eq_of_lt (by omega)
    unfold botTokens
    rw [hm]
    by_cases hz : bot.length * 4 = 0
    · have hb0 : bot = [] := by
        cases bot with
        | nil => rfl
        | cons a r => simp at hz
      subst hb0
      simp only [List.length_nil, Nat.zero_mul, if_true]
      have s3 := step_pixItemEnd ts dict 0 (by decide) (frags.flatMap (fragment be) ++ (seqDelim be ++ rest))
        (pos + hd.length + 8) (pos + hd.length) stack
      simp only [List.length_nil, Nat.mul_zero, List.flatMap_nil, List.nil_append] at s2
      exact (Run.cons s2 (Run.single s3)).cast (stI_pos (by omega))
    · simp only [hz, if_false]
      have e4 : 4 * bot.length = bot.length * 4 := by omega
      have hz1 : (4 * bot.length != 0) = true := by simp; omega
      have hz2 : (4 * bot.length == 0) = false := by simp; omega
      rw [hz1, hz2] at s2
      have hrd : rdMany (rd32 be) (4 * bot.length / 4) (bot.flatMap (enc32 be) ++ (frags.flatMap (fragment be) ++
          (seqDelim be ++ rest))) = some (bot, frags.flatMap (fragment be) ++ (seqDelim be ++ rest)) := by
        have h1 : 4 * bot.length / 4 = bot.length := by omega
        rw [h1]
        have := rdMany_flatMap (rd32 be) (enc32 be) id (· < 4294967296) (fun a r ha => rd32_enc32 _ a ha r)
          (frags.flatMap (fragment be) ++ (seqDelim be ++ rest)) bot ok.bot
        simpa using this
      have s3 : StepTo ⟨⟨ts, dict, bot.flatMap (enc32 be) ++ (frags.flatMap (fragment be) ++ (seqDelim be ++ rest)),
          pos + hd.length + 8⟩, false, true, false,
          ⟨true, 4 * bot.length, true, pos + hd.length + 8⟩ :: pixSq (pos + hd.length) :: stack, false, none⟩
          (.offsetTable bot)
          ⟨⟨ts, dict, frags.flatMap (fragment be) ++ (seqDelim be ++ rest), pos + hd.length + 8 + 4 * bot.length⟩,
            false, false, true,
            ⟨true, 4 * bot.length, true, pos + hd.length + 8⟩ :: pixSq (pos + hd.length) :: stack, false, none⟩ := by
        refine ⟨fun fuel => ?_, ?_, rfl, rfl⟩
        · refine next_body _ _ _ fuel rfl (fun h => by simp at h) ?_
          exact body_offsetTable ts dict _ _ (4 * bot.length) _ _ none bot _ (len_ne_undef ok.botLen) (by omega) hrd
        · -- the offset table item is complete and a multiple of 4 bytes long: the lazy consumer reads the same bytes
          have hund : 4 * bot.length ≠ undefinedLen := len_ne_undef ok.botLen
          have htk : takeN (4 * bot.length) (bot.flatMap (enc32 be) ++ (frags.flatMap (fragment be) ++ (seqDelim be ++ rest))) =
              some (bot.flatMap (enc32 be), frags.flatMap (fragment be) ++ (seqDelim be ++ rest)) := by
            have := takeN_append (bot.flatMap (enc32 be)) (frags.flatMap (fragment be) ++ (seqDelim be ++ rest))
            rw [hbl] at this
            rw [e4]; exact this
          have h40 : 4 * bot.length % 4 = 0 := by omega
          have hrd' := hrd
          have h41 : 4 * bot.length / 4 = bot.length := by omega
          rw [h41] at hrd'
          simp [LE.AnomStep, LE.Anom, LE.itemValueAgrees, hund, hrd', htk, h40, be]
      have s4 := step_pixItemEnd ts dict (4 * bot.length) (len_ne_undef ok.botLen)
        (frags.flatMap (fragment be) ++ (seqDelim be ++ rest)) (pos + hd.length + 8) (pos + hd.length) stack
      rw [← e4]
      exact Run.cons s2 (Run.cons s3 (Run.single s4))
  have hfr := run_frags ts dict frags ok.frags (seqDelim be ++ rest) (pos + hd.length + 8 + bot.length * 4)
    (pos + hd.length) stack
  have s5 : StepTo (stI ts dict (seqDelim be ++ rest)
      (pos + hd.length + 8 + bot.length * 4 + (frags.flatMap (fragment be)).length) true (pixSq (pos + hd.length) :: stack))
      .sequenceEnd (stE ts dict rest
        (pos + hd.length + 8 + bot.length * 4 + (frags.flatMap (fragment be)).length + 8) true stack) := by
    refine StepTo.of_plain (fun fuel => ?_) (by intro vs h; cases h)
    refine next_body _ _ _ fuel rfl (fun _ => Or.inl rfl) ?_
    exact body_seqEndDelim _ _ false _ none (dec_seqDelim ts dict rest _)
  have all := (Run.cons s1 hbot).append (hfr.append (Run.single s5))
  have htok : Elem.tokens (.pix bot frags) =
      (.pixelSequenceStart :: botTokens bot) ++ (frags.flatMap fragTokens ++ [.sequenceEnd]) := by
    simp [Elem.tokens, List.append_assoc]
  rw [htok]
  exact all.cast (stE_pos (by rw [hlen]; omega))

end Dicom.Ref
