import DicomModel.Lemmas.NormKeep
/-
Implicit VR Little Endian with the dictionary as a parameter function `dict : Tag → Option VR`:
attributes the dictionary does not know (private / unknown tags: `implicitVr dict tag = UN`) are written
without their VR and come back as UN with the value field as bytes. `dictElems dict t` is the data set with
those elements replaced by what Implicit VR can represent; the writer cannot tell the two apart, and
`dictElems dict t` is well-formed in the sense of `WfElems` (VR = the dictionary's), so the round trip
theorem applies to it.
-/
set_option linter.unusedSimpArgs false
namespace Dicom.Norm
open Dicom.C04 Dicom.Ref

mutual
/-- the data set as Implicit VR LE can carry it: an element whose VR is not the dictionary's becomes
(dictionary VR, value field as bytes) -/
def dictElem (dict : Tag → Option VR) : Elem → Elem
  | .prim tag vr len v =>
    if implicitVr dict tag = vr then .prim tag vr len v
    else .prim tag (implicitVr dict tag) len (.u8 (paddedValue false vr v))
  | .seq tag len items => .seq tag len (dictItems dict items)
  | .pix bot frags => .pix bot frags
def dictItems (dict : Tag → Option VR) : Items → Items
  | .nil => .nil
  | .cons len elems rest => .cons len (dictElems dict elems) (dictItems dict rest)
def dictElems (dict : Tag → Option VR) : Elems → Elems
  | .nil => .nil
  | .cons e rest => .cons (dictElem dict e) (dictElems dict rest)
end

mutual
/-- well-formed in-memory data set for Implicit VR LE: as `WfElem`, but an element may also carry a VR the
dictionary does not confirm, provided the dictionary's answer for its tag is UN (unknown attribute) -/
def WfImp (dict : Tag → Option VR) : Elem → Prop
  | .prim tag vr len v =>
    tagOk tag = true ∧ ¬ (vr = .OB ∧ tag = Tag.pixelData ∧ len = undefinedLen)
      ∧ ValidFor false vr v ∧ (paddedValue false vr v).length < 4294967295
      ∧ (implicitVr dict tag = vr ∨
          (implicitVr dict tag = .UN ∧ ∀ b ∈ paddedValue false vr v, b < 256))
  | .seq tag _ items => tagOk tag = true ∧ tag ≠ Tag.pixelData ∧ WfImpItems dict items
  | .pix bot frags =>
    4 * bot.length < 4294967295 ∧ (∀ o ∈ bot, o < 4294967296)
      ∧ ∀ f ∈ frags, f.length < 4294967294 ∧ ∀ b ∈ f, b < 256
def WfImpItems (dict : Tag → Option VR) : Items → Prop
  | .nil => True
  | .cons _ elems rest => WfImpElems dict elems ∧ sortedElems elems = true ∧ WfImpItems dict rest
def WfImpElems (dict : Tag → Option VR) : Elems → Prop
  | .nil => True
  | .cons e rest => WfImp dict e ∧ WfImpElems dict rest
end

theorem tagOf_dict (dict : Tag → Option VR) (e : Elem) : tagOf (dictElem dict e) = tagOf e := by
  cases e with
  | prim tag vr len v => simp only [dictElem]; split <;> rfl
  | seq _ _ _ => rfl
  | pix _ _ => rfl

theorem sortedFrom_dict (dict : Tag → Option VR) : ∀ (es : Elems) (prev : Tag),
    sortedFrom prev (dictElems dict es) = sortedFrom prev es
  | .nil, _ => rfl
  | .cons e r, prev => by simp only [dictElems, sortedFrom, tagOf_dict, sortedFrom_dict dict r]

theorem sortedElems_dict (dict : Tag → Option VR) : ∀ (es : Elems), sortedElems (dictElems dict es) = sortedElems es
  | .nil => rfl
  | .cons e r => by simp only [dictElems, sortedElems, tagOf_dict, sortedFrom_dict]

theorem paddedValue_un_u8 (vb : Bytes) (h : vb.length % 2 = 0) : paddedValue false .UN (.u8 vb) = vb := by
  have : paddedValue false .UN (.u8 vb) = padTo vb (binPad .UN) := by simp [paddedValue, encodePrimitive]
  rw [this]
  exact padTo_self_of_even h _

mutual
/-- the transformed data set is well-formed with the dictionary's VRs -/
theorem wf_dict_elem (dict : Tag → Option VR) : ∀ e, WfImp dict e → WfElem .implicitLE dict (dictElem dict e)
  | .prim tag vr len v, h => by
    obtain ⟨htag, hweird, hv, hsz, hcase⟩ := h
    have heven := paddedValue_even false vr v
    rcases hcase with h1 | ⟨h1, hb⟩
    · simp only [dictElem, h1, if_true]
      exact ⟨htag, hweird, hv, ⟨hsz, fun hx => by cases hx⟩, Or.inr h1⟩
    · by_cases heq : implicitVr dict tag = vr
      · simp only [dictElem, heq, if_true]
        exact ⟨htag, hweird, hv, ⟨hsz, fun hx => by cases hx⟩, Or.inr heq⟩
      · simp only [dictElem, heq, if_false]
        rw [h1]
        have hpv := paddedValue_un_u8 _ heven
        refine ⟨htag, ?_, ?_, ?_, Or.inr h1⟩
        · intro hx; cases hx.1
        · show ValidFor false .UN (.u8 (paddedValue false vr v))
          refine And.intro (by decide) (And.intro trivial (And.intro ?_ ?_))
          · intro hx; rcases hx with hx | hx <;> cases hx
          right; right; left
          exact ⟨Or.inr rfl, by rw [hpv]; exact hb⟩
        · show FitsHeader .implicitLE .UN (paddedValue false .UN (.u8 (paddedValue false vr v))).length
          rw [hpv]; exact ⟨hsz, fun hx => by cases hx⟩
  | .seq tag len items, h => ⟨h.1, h.2.1, wf_dict_items dict items h.2.2⟩
  | .pix bot frags, h => h
theorem wf_dict_items (dict : Tag → Option VR) : ∀ its, WfImpItems dict its → WfItems .implicitLE dict (dictItems dict its)
  | .nil, _ => trivial
  | .cons len es r, h =>
    ⟨wf_dict_elems dict es h.1, by rw [sortedElems_dict]; exact h.2.1, wf_dict_items dict r h.2.2⟩
theorem wf_dict_elems (dict : Tag → Option VR) : ∀ es, WfImpElems dict es → WfElems .implicitLE dict (dictElems dict es)
  | .nil, _ => trivial
  | .cons e r, h => ⟨wf_dict_elem dict e h.1, wf_dict_elems dict r h.2⟩
end

/-- Implicit VR: the header does not carry the VR -/
theorem encodeHeader_implicit_vr (tag : Tag) (vr vr' : VR) (n : Nat) :
    encodeHeader .implicitLE ⟨tag, vr, n⟩ = encodeHeader .implicitLE ⟨tag, vr', n⟩ := rfl

/-- one element whose VR Implicit VR cannot carry: written exactly like (UN, value field bytes) -/
theorem primitiveElement_un (e : Enc) (hts : e.ts = .implicitLE) (hex : Enc.Exact e) (tag : Tag) (vr vr' : VR)
    (len : Nat) (v : PValue) (hv : ValidFor false vr v) (hsz : (paddedValue false vr v).length < 4294967295)
    (hvr' : vr' = .UN) :
    e.primitiveElement ⟨tag, vr', len⟩ (.u8 (paddedValue false vr v)) = e.primitiveElement ⟨tag, vr, len⟩ v := by
  subst hvr'
  have hbe : e.ts.bigEndian = false := by rw [hts]; rfl
  have hexpl : e.ts.explicit = false := by rw [hts]; rfl
  have heven := paddedValue_even false vr v
  have hpv := paddedValue_un_u8 _ heven
  have hf1 : FitsHeader e.ts vr (paddedValue e.ts.bigEndian vr v).length := by
    rw [hbe]; exact ⟨hsz, fun hx => by rw [hexpl] at hx; cases hx⟩
  have hf2 : FitsHeader e.ts .UN (paddedValue e.ts.bigEndian .UN (.u8 (paddedValue false vr v))).length := by
    rw [hbe, hpv]; exact ⟨hsz, fun hx => by rw [hexpl] at hx; cases hx⟩
  obtain ⟨e1, h1, t1⟩ := primitiveElement_total e ⟨tag, vr, len⟩ v hv.2.1 hv.2.2.1 hf1
  obtain ⟨e2, h2, t2⟩ := primitiveElement_total e ⟨tag, .UN, len⟩ (.u8 (paddedValue false vr v)) trivial
    (fun hx => by rcases hx with hx | hx <;> cases hx) hf2
  rw [h1, h2]
  have l1 := primitive_element_layout ⟨tag, vr, len⟩ v hv.2.1 hf1.1 h1
  have l2 := primitive_element_layout ⟨tag, .UN, len⟩ (.u8 (paddedValue false vr v)) trivial hf2.1 h2
  simp only at l1 l2
  rw [hbe] at l1 l2
  rw [hpv] at l2
  obtain ⟨_, hb1, n1, he1, ho1⟩ := l1
  obtain ⟨_, hb2, n2, he2, ho2⟩ := l2
  rw [hts] at he1 he2
  rw [encodeHeader_implicit_vr tag .UN vr, he1] at he2
  injection he2 with he2
  injection he2 with hb n
  subst hb
  have x1 := primitiveElement_exact hex _ _ h1
  have x2 := primitiveElement_exact hex _ _ h2
  congr 1
  apply Enc.ext'
  · rw [t1, t2]
  · rw [ho1, ho2]
  · unfold Enc.Exact at x1 x2; rw [x1, x2, ho1, ho2]

mutual
/-- the recursive writer treats `t` and `dictElems dict t` alike (Implicit VR LE) -/
theorem rec_dict_elem (dict : Tag → Option VR) : ∀ (el : Elem), WfImp dict el →
    ∀ (e : Enc), e.ts = .implicitLE → Enc.Exact e → recElem e (dictElem dict el) = recElem e el
  | .prim tag vr len v, h, e, hts, hex => by
    obtain ⟨_, _, hv, hsz, hcase⟩ := h
    by_cases heq : implicitVr dict tag = vr
    · simp only [dictElem, heq, if_true]
    · simp only [dictElem, heq, if_false, recElem]
      rcases hcase with h1 | ⟨h1, _⟩
      · exact absurd h1 heq
      · rw [encodePrimitiveElement_valid e tag vr len v false hv]
        unfold Enc.encodePrimitiveElement
        rw [owWords_ne_ow (by show implicitVr dict tag ≠ .OW; rw [h1]; decide)]
        exact primitiveElement_un e hts hex tag vr _ len v hv hsz h1
  | .seq tag len items, h, e, hts, hex => by
    simp only [dictElem, recElem]
    cases h1 : e.elementHeader ⟨tag, .SQ, undefinedLen⟩ with
    | error x => rfl
    | ok e1 =>
      simp only [exBind]
      rw [rec_dict_items dict items h.2.2 e1 ((elementHeader_ts h1).trans hts) (elementHeader_exact hex _ h1)]
  | .pix bot frags, _, e, _, _ => rfl
theorem rec_dict_items (dict : Tag → Option VR) : ∀ (its : Items), WfImpItems dict its →
    ∀ (e : Enc), e.ts = .implicitLE → Enc.Exact e → recItems e (dictItems dict its) = recItems e its
  | .nil, _, _, _, _ => rfl
  | .cons len es r, h, e, hts, hex => by
    simp only [dictItems, recItems]
    have hx0 := itemHeader_exact hex undefinedLen
    rw [rec_dict_elems dict es h.1 (e.itemHeader undefinedLen) hts hx0]
    cases h1 : recElems (e.itemHeader undefinedLen) es with
    | error x => rfl
    | ok e1 =>
      simp only [exBind]
      have hw := wf_dict_elems dict es h.1
      have heq := rec_dict_elems dict es h.1 (e.itemHeader undefinedLen) hts hx0
      obtain ⟨t1, x1⟩ := (rec_norm_elems .implicitLE dict _ hw (e.itemHeader undefinedLen) hts hx0).2 e1
        (by rw [heq]; exact h1)
      exact rec_dict_items dict r h.2.2 e1.itemDelimiter t1 (itemDelimiter_exact x1)
theorem rec_dict_elems (dict : Tag → Option VR) : ∀ (es : Elems), WfImpElems dict es →
    ∀ (e : Enc), e.ts = .implicitLE → Enc.Exact e → recElems e (dictElems dict es) = recElems e es
  | .nil, _, _, _, _ => rfl
  | .cons el r, h, e, hts, hex => by
    simp only [dictElems, recElems]
    have heq := rec_dict_elem dict el h.1 e hts hex
    rw [heq]
    cases h1 : recElem e el with
    | error x => rfl
    | ok e1 =>
      simp only [exBind]
      have hw := wf_dict_elem dict el h.1
      obtain ⟨t1, x1⟩ := (rec_norm_elem .implicitLE dict _ hw e hts hex).2 e1 (by rw [heq]; exact h1)
      exact rec_dict_elems dict r h.2 e1 t1 x1
end

mutual
theorem tokwf_imp_elem (dict : Tag → Option VR) : ∀ e, WfImp dict e → e.WF
  | .prim tag vr len v, h => ⟨h.2.2.1.1, h.2.1⟩
  | .seq tag _ items, h => tokwf_imp_items dict items h.2.2
  | .pix bot frags, h => fun f hf => by have := (h.2.2 f hf).1; omega
theorem tokwf_imp_items (dict : Tag → Option VR) : ∀ its, WfImpItems dict its → its.WF
  | .nil, _ => trivial
  | .cons _ es r, h => ⟨tokwf_imp_elems dict es h.1, tokwf_imp_items dict r h.2.2⟩
theorem tokwf_imp_elems (dict : Tag → Option VR) : ∀ es, WfImpElems dict es → es.WF
  | .nil, _ => trivial
  | .cons e r, h => ⟨tokwf_imp_elem dict e h.1, tokwf_imp_elems dict r h.2⟩
end

/-- **Implicit VR LE, dictionary as a parameter**: write then read for every well-formed data set of any
depth, including attributes the dictionary does not know (they come back as UN with their value field as
bytes): the result is the normal form of `dictElems dict t`. -/
theorem write_read_implicit (dict : Tag → Option VR) (t : Elems)
    (hd : dictOk .implicitLE dict = true) (hwf : WfImpElems dict t) (hsorted : sortedElems t = true) :
    ∃ bs, writeDataset .implicitLE .setUndefined t = .ok bs ∧
      readDataset .implicitLE dict bs = .ok (normElems .implicitLE (dictElems dict t)) := by
  have hw := wf_dict_elems dict t hwf
  have hs : sortedElems (dictElems dict t) = true := by rw [sortedElems_dict]; exact hsorted
  obtain ⟨bs, h1, h2⟩ := write_read_norm .implicitLE dict (dictElems dict t) hd hw hs
  refine ⟨bs, ?_, h2⟩
  rw [← h1, writeDataset_eq_rec _ t (tokwf_imp_elems dict t hwf),
    writeDataset_eq_rec _ _ (wf_elems .implicitLE dict _ hw).1,
    rec_dict_elems dict t hwf (Enc.new .implicitLE) rfl rfl]

end Dicom.Norm
