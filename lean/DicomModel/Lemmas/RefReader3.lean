import DicomModel.Lemmas.RefReader2
/-
C02, reader side, part 3: single steps of the `DataSetReader` state machine (`RState.next`).
-/
set_option linter.unusedSimpArgs false
set_option linter.unusedVariables false
namespace Dicom.Ref

/-- the innermost open sequence / item does not end at or before `pos` -/
def Open : List RSeqTok → Nat → Prop
  | [], _ => True
  | sd :: _, pos => sd.len = undefinedLen ∨ pos < sd.baseOffset + sd.len

/-- the innermost frame is not a pixel data fragment item -/
def NoPixTop : List RSeqTok → Prop
  | [] => True
  | sd :: _ => ¬ (sd.isItem = true ∧ sd.pixelData = true)

theorem update_open (s : RState) (h : Open s.seqDelimiters s.dec.pos) :
    s.updateSeqDelimiters = (.ok none, { s with delimiterCheckPending := false }) := by
  unfold RState.updateSeqDelimiters
  cases hs : s.seqDelimiters with
  | nil => rfl
  | cons sd rest =>
    rw [hs] at h
    simp only [Open] at h
    rcases h with h | h
    · simp [h]
    · by_cases hu : sd.len = undefinedLen
      · simp [hu]
      · have h1 : ¬ (sd.baseOffset + sd.len = s.dec.pos) := by omega
        have h2 : ¬ (sd.baseOffset + sd.len < s.dec.pos) := by omega
        simp [hu, h1, h2]

/-- one `next()` call in which no explicit-length end is pending: the loop body decides -/
theorem next_body (s s' : RState) (r : Option (Except RErr Token)) (fuel : Nat) (hb : s.hardBreak = false)
    (ho : s.delimiterCheckPending = true → Open s.seqDelimiters s.dec.pos)
    (hn : ({ s with delimiterCheckPending := false } : RState).nextBody = (some r, s')) :
    s.next (fuel + 1) = (r, s') := by
  unfold RState.next
  simp only [hb, Bool.false_eq_true, if_false]
  cases hp : s.delimiterCheckPending
  · have : ({ s with delimiterCheckPending := false } : RState) = s := by
      cases s; simp_all
    rw [this] at hn
    simp [hn]
  · simp only [if_true, update_open s (ho hp), hn]

/-- one `next()` call that closes an explicit-length frame -/
theorem next_end (d : Dec) (inSeq otn : Bool) (sd : RSeqTok) (rest : List RSeqTok) (lh : Option ElemHeader)
    (fuel : Nat) (hl : sd.len ≠ undefinedLen) (he : sd.baseOffset + sd.len = d.pos) :
    (RState.mk d inSeq otn true (sd :: rest) false lh).next (fuel + 1) =
      (some (.ok (if sd.isItem then .itemEnd else .sequenceEnd)),
        RState.mk d sd.isItem otn true rest false lh) := by
  unfold RState.next
  simp only [Bool.false_eq_true, if_false, if_true, RState.updateSeqDelimiters, hl, ne_eq,
    not_false_eq_true, he]
  cases sd.isItem <;> simp

/-! ### the loop body, state by state (`delimiter_check_pending` already cleared) -/

theorem body_elemHeader (d d' : Dec) (otn : Bool) (stack : List RSeqTok) (h : ElemHeader)
    (hplain : NoPixTop stack) (hd : d.decodeHeader = .ok (h, d'))
    (h1 : h.vr ≠ .SQ) (h2 : h.tag ≠ Tag.itemDelim) (h3 : h.isEncapsulatedPixeldata = false)
    (h4 : h.len ≠ undefinedLen) :
    (RState.mk d false otn false stack false none).nextBody =
      (some (some (.ok (.elementHeader h))), RState.mk d' false otn false stack false (some h)) := by
  unfold RState.nextBody
  rcases stack with _ | ⟨⟨i, l, p, b⟩, rest⟩
  · simp [hd, h1, h2, h3, h4]
  · cases i <;> cases p <;> simp [NoPixTop] at hplain <;> simp [hd, h1, h2, h3, h4]

theorem body_seqStart (d d' : Dec) (otn : Bool) (stack : List RSeqTok) (h : ElemHeader)
    (hplain : NoPixTop stack) (hd : d.decodeHeader = .ok (h, d'))
    (hc : h.vr = .SQ ∨ (h.len = undefinedLen ∧ h.tag ≠ Tag.itemDelim ∧ h.isEncapsulatedPixeldata = false)) :
    (RState.mk d false otn false stack false none).nextBody =
      (some (some (.ok (.sequenceStart h.tag h.len))),
        RState.mk d' true otn (h.len == 0) (⟨false, h.len, false, d'.pos⟩ :: stack) false none) := by
  unfold RState.nextBody
  rcases stack with _ | ⟨⟨i, l, p, b⟩, rest⟩
  all_goals (try (cases i <;> cases p <;> simp [NoPixTop] at hplain))
  all_goals
    rcases hc with hc | ⟨hc1, hc2, hc3⟩
    · by_cases hz : h.len = 0 <;> simp [hd, hc, hz, RState.push]
    · by_cases hsq : h.vr = .SQ
      · have hz : h.len ≠ 0 := by rw [hc1]; decide
        simp [hd, hsq, hz, RState.push]
      · have hz : (h.len == 0) = false := by rw [hc1]; decide
        have hz' : h.len ≠ 0 := by rw [hc1]; decide
        simp [hd, hsq, hc1, hc2, hc3, hz, hz', RState.push]
        decide

theorem body_itemEndDelim (d d' : Dec) (otn : Bool) (sd : RSeqTok) (stack : List RSeqTok) (h : ElemHeader)
    (hplain : NoPixTop (sd :: stack)) (hd : d.decodeHeader = .ok (h, d'))
    (h1 : h.vr ≠ .SQ) (h2 : h.tag = Tag.itemDelim) :
    (RState.mk d false otn false (sd :: stack) false none).nextBody =
      (some (some (.ok .itemEnd)), RState.mk d' true otn true stack false none) := by
  unfold RState.nextBody
  obtain ⟨i, l, p, b⟩ := sd
  cases i <;> cases p <;> simp [NoPixTop] at hplain <;> simp [hd, h1, h2]

theorem body_pixStart (d d' : Dec) (otn : Bool) (stack : List RSeqTok) (h : ElemHeader)
    (hplain : NoPixTop stack) (hd : d.decodeHeader = .ok (h, d'))
    (h1 : h.vr ≠ .SQ) (h2 : h.tag ≠ Tag.itemDelim) (h3 : h.isEncapsulatedPixeldata = true) :
    (RState.mk d false otn false stack false none).nextBody =
      (some (some (.ok .pixelSequenceStart)), RState.mk d' false otn false stack false (some h)) := by
  unfold RState.nextBody
  rcases stack with _ | ⟨⟨i, l, p, b⟩, rest⟩
  · simp [hd, h1, h2, h3]
  · cases i <;> cases p <;> simp [NoPixTop] at hplain <;> simp [hd, h1, h2, h3]

theorem body_value (d d' : Dec) (otn : Bool) (stack : List RSeqTok) (h : ElemHeader) (v : PValue)
    (hplain : NoPixTop stack) (h3 : h.isEncapsulatedPixeldata = false)
    (hv : d.readValuePreserved h = .ok (v, d')) :
    (RState.mk d false otn false stack false (some h)).nextBody =
      (some (some (.ok (.primitiveValue v))), RState.mk d' false otn true stack false none) := by
  unfold RState.nextBody
  rcases stack with _ | ⟨⟨i, l, p, b⟩, rest⟩
  · simp [hv, h3]
  · cases i <;> cases p <;> simp [NoPixTop] at hplain <;> simp [hv, h3]

theorem body_pixFirstItem (d d' : Dec) (stack : List RSeqTok) (h : ElemHeader) (len : Nat)
    (hplain : NoPixTop stack) (h3 : h.isEncapsulatedPixeldata = true)
    (hi : d.decodeItemHeader = .ok (.item len, d')) :
    (RState.mk d false false false stack false (some h)).nextBody =
      (some (some (.ok (.itemStart len))),
        RState.mk d' false (len != 0) (len == 0)
          (⟨true, len, true, d'.pos⟩ :: ⟨false, undefinedLen, true, d.pos⟩ :: stack) false none) := by
  unfold RState.nextBody
  rcases stack with _ | ⟨⟨i, l, p, b⟩, rest⟩
  · by_cases hz : len = 0 <;> simp [h3, hi, RState.push, hz]
  · cases i <;> cases p <;> simp [NoPixTop] at hplain <;>
      (by_cases hz : len = 0 <;> simp [h3, hi, RState.push, hz])

theorem body_itemStart (d d' : Dec) (otn : Bool) (last : RSeqTok) (stack : List RSeqTok)
    (lh : Option ElemHeader) (len : Nat) (hi : d.decodeItemHeader = .ok (.item len, d')) :
    (RState.mk d true otn false (last :: stack) false lh).nextBody =
      (some (some (.ok (.itemStart len))),
        RState.mk d' false otn (len == 0) (⟨true, len, last.pixelData, d'.pos⟩ :: last :: stack) false lh) := by
  unfold RState.nextBody
  by_cases hz : len = 0 <;> simp [hi, RState.push, hz]

theorem body_seqEndDelim (d d' : Dec) (otn : Bool) (stack : List RSeqTok)
    (lh : Option ElemHeader) (hi : d.decodeItemHeader = .ok (.seqDelim, d')) :
    (RState.mk d true otn false stack false lh).nextBody =
      (some (some (.ok .sequenceEnd)), RState.mk d' false otn true (stack.drop 1) false lh) := by
  unfold RState.nextBody
  simp [hi]

theorem body_offsetTable (ts : Syntax) (dict : Tag → Option VR) (bs : Bytes) (pos len base : Nat)
    (rest : List RSeqTok) (lh : Option ElemHeader) (vs : List Nat) (r : Bytes)
    (hl : len ≠ undefinedLen) (h4 : len % 4 = 0)
    (hr : rdMany (rd32 ts.bigEndian) (len / 4) bs = some (vs, r)) :
    (RState.mk ⟨ts, dict, bs, pos⟩ false true false (⟨true, len, true, base⟩ :: rest) false lh).nextBody =
      (some (some (.ok (.offsetTable vs))),
        RState.mk ⟨ts, dict, r, pos + len⟩ false false true (⟨true, len, true, base⟩ :: rest) false lh) := by
  unfold RState.nextBody
  simp [hl, hr, h4]

theorem body_itemValue (ts : Syntax) (dict : Tag → Option VR) (bs : Bytes) (pos len base : Nat)
    (rest : List RSeqTok) (lh : Option ElemHeader) (v r : Bytes)
    (hl : len ≠ undefinedLen) (hr : takeN len bs = some (v, r)) :
    (RState.mk ⟨ts, dict, bs, pos⟩ false false false (⟨true, len, true, base⟩ :: rest) false lh).nextBody =
      (some (some (.ok (.itemValue v))),
        RState.mk ⟨ts, dict, r, pos + len⟩ false false true (⟨true, len, true, base⟩ :: rest) false lh) := by
  unfold RState.nextBody
  unfold takeN at hr
  split at hr
  · injection hr with hr; injection hr with h1 h2
    simp [hl, h1, h2]
  · cases hr

/-- at the end of the input, outside any sequence, the iterator ends -/
theorem body_end (ts : Syntax) (dict : Tag → Option VR) (pos : Nat) :
    ∃ s', (RState.mk ⟨ts, dict, [], pos⟩ false false false [] false none).nextBody = (some none, s') := by
  unfold RState.nextBody
  have : (Dec.mk ts dict [] pos).decodeHeader = .error .eof := by
    unfold Dec.decodeHeader
    have : Dicom.decodeHeader ts dict [] = none := by
      cases ts <;> simp [Dicom.decodeHeader, decodeExplicitWith, decodeTag_short]
    simp [this]
  simp [this]

end Dicom.Ref
